(* Preservation of the coherence invariant: frame/transfer lemmas for a change of one entry of the
   upper layer, and the operations. *)
From Coq Require Import List String Arith NArith Bool Lia Sorted.
From FB Require Import Model.Overlay Proofs.OverlayInv Proofs.OverlayScan Proofs.OverlayRestart
  Proofs.OverlayReadOnly Proofs.OverlayCoh Proofs.OverlayCohView Proofs.OverlayCopyUp.
Import ListNotations.

Definition is_prefix (a b : path) : Prop := exists r, b = a ++ r.
Lemma is_prefix_refl a : is_prefix a a. Proof. exists []. rewrite app_nil_r. reflexivity. Qed.
Lemma is_prefix_app a r : is_prefix a (a ++ r). Proof. exists r. reflexivity. Qed.
Lemma is_prefix_trans a b c : is_prefix a b -> is_prefix b c -> is_prefix a c.
Proof. intros [r ->] [r' ->]. exists (r ++ r'). rewrite app_assoc. reflexivity. Qed.

(* ------------------------------------------------------------------ the invariant only reads shapes near the node *)
Section Transfer.
Variables Sh Sh' : nat -> path -> option shape.
Variable nl : nat.

Lemma dcut_ext p st : (forall i, Sh' i p = Sh i p) -> dcut Sh' p st = dcut Sh p st.
Proof. intros H. induction st as [|i r IH]; cbn [dcut]; [reflexivity|]. rewrite H, IH. reflexivity. Qed.
Lemma kids_ext p st k : (forall i, Sh' i p = Sh i p) -> (forall i, Sh' i (p ++ [k]) = Sh i (p ++ [k])) ->
  kids Sh' p st k = kids Sh p st k.
Proof.
  intros H1 H2. unfold kids. rewrite (dcut_ext p st H1). apply filter_ext. intros i. unfold present. rewrite H2. reflexivity.
Qed.
Lemma lstk_ext p : forall st p0, (forall i p', is_prefix p0 p' -> is_prefix p' (p0 ++ p) -> Sh' i p' = Sh i p') ->
  lstk Sh' st p0 p = lstk Sh st p0 p.
Proof.
  induction p as [|k p IH]; intros st p0 H; cbn [lstk]; [reflexivity|].
  rewrite kids_ext.
  - apply IH. intros i p' A B. apply H; [eapply is_prefix_trans; [apply is_prefix_app|exact A]|].
    rewrite <- app_assoc in B. exact B.
  - intros i. apply H; [apply is_prefix_refl|apply is_prefix_app].
  - intros i. apply H; [apply is_prefix_app|]. exists p. rewrite <- app_assoc. reflexivity.
Qed.
Lemma lstack_ext p : (forall i p', is_prefix p' p -> Sh' i p' = Sh i p') -> lstack Sh' nl p = lstack Sh nl p.
Proof. intros H. unfold lstack. apply lstk_ext. intros i p' _ B. apply H. exact B. Qed.

Lemma opq_ok_ext p rs : (forall i, Sh' i p = Sh i p) -> opq_ok Sh p rs -> opq_ok Sh' p rs.
Proof.
  intros H. induction rs as [|r rest IH]; intros Ho; [exact I|]. destruct rest as [|r2 rest]; [exact I|].
  destruct Ho as [A B]. split; [rewrite H; exact A|apply IH; exact B].
Qed.
Lemma NodeOK_ext p n :
  (forall i p', is_prefix p' p -> Sh' i p' = Sh i p') -> (forall i k, Sh' i (p ++ [k]) = Sh i (p ++ [k])) ->
  NodeOK Sh nl p n -> NodeOK Sh' nl p n.
Proof.
  intros H1 H2 N. assert (Hp : forall i, Sh' i p = Sh i p) by (intros i; apply H1; apply is_prefix_refl).
  pose proof (lstack_ext p H1) as HL.
  constructor; rewrite ?HL; try apply N.
  - eapply Forall_impl; [|apply (ok_reals _ _ _ _ N)]. intros r (A & B & C). unfold rgood. rewrite Hp. auto.
  - rewrite !(dcut_ext p _ Hp). apply N.
  - apply opq_ok_ext; [exact Hp|apply N].
  - intros Hl. destruct (ok_ld _ _ _ _ N Hl) as (A & B & C). split; [exact A|]. split; [exact B|].
    intros k. rewrite (kids_ext p _ k Hp (fun i => H2 i k)). apply C.
Qed.
End Transfer.

(* subtrees not comparable with the changed path keep their coherence *)
Lemma CohT_frame Sh Sh' nl q : (forall i p', ~ is_prefix q p' -> Sh' i p' = Sh i p') ->
  forall p n, (forall p', is_prefix p p' -> ~ is_prefix q p') -> (forall p', is_prefix p' p -> ~ is_prefix q p') ->
  CohT Sh nl p n -> CohT Sh' nl p n.
Proof.
  intros Hag p n Hdown Hup HC r m Hm. apply (NodeOK_ext Sh Sh' nl).
  - intros i p' Hpre. apply Hag. destruct Hpre as [r' Hr']. destruct (Nat.le_gt_cases (List.length p') (List.length p)) as [Hle|Hgt].
    + (* p' is a prefix of p or extends it; either way it is on one side of p *)
      intros Hq. 
      assert (Hcmp : is_prefix p' p \/ is_prefix p p').
      { clear -Hr' Hle. revert p Hr' Hle. induction p' as [|a p' IH]; intros p Hr' Hle; [left; exists p; reflexivity|].
        destruct p as [|b p]; [cbn in Hle; lia|]. cbn [app] in Hr'. 
        assert (Hab : a = b).
        { destruct r; cbn in Hr'; inversion Hr'; reflexivity. }
        subst b. destruct (IH p) as [[x Hx]|[x Hx]].
        - destruct r; cbn in Hr'; inversion Hr'; reflexivity.
        - cbn in Hle; lia.
        - left. exists x. cbn. rewrite <- Hx. reflexivity.
        - right. exists x. cbn. rewrite <- Hx. reflexivity. }
      destruct Hcmp as [H|H]; [exact (Hup p' H Hq)|exact (Hdown p' H Hq)].
    + apply Hdown. clear -Hr' Hgt.
      revert p' Hr' Hgt. induction p as [|b p IH]; intros p' Hr' Hgt; [exists p'; reflexivity|].
      destruct p' as [|a p']; [cbn in Hgt; lia|]. cbn [app] in Hr'. inversion Hr'; subst.
      destruct (IH p' H1) as [x Hx]; [cbn in Hgt; lia|]. exists x. cbn. rewrite <- Hx. reflexivity.
  - intros i k. apply Hag. apply Hdown. exists (r ++ [k]). rewrite app_assoc. reflexivity.
  - apply HC. exact Hm.
Qed.

(* ------------------------------------------------------------------ prefixes *)
Lemma is_prefix_len a b : is_prefix a b -> (List.length a <= List.length b)%nat.
Proof. intros [r ->]. rewrite app_length. lia. Qed.
Lemma is_prefix_cons x a y b : is_prefix (x :: a) (y :: b) <-> x = y /\ is_prefix a b.
Proof.
  split.
  - intros [r H]. cbn in H. inversion H; subst. split; [reflexivity|exists r; reflexivity].
  - intros [-> [r ->]]. exists r. reflexivity.
Qed.
Lemma is_prefix_app_l a b c : is_prefix (a ++ b) (a ++ c) <-> is_prefix b c.
Proof.
  induction a as [|x a IH]; cbn [app]; [reflexivity|]. rewrite is_prefix_cons. rewrite IH. tauto.
Qed.
Lemma not_prefix_sibling a x b y d : x <> y -> ~ is_prefix (a ++ x :: b) (a ++ y :: d).
Proof. intros Hn H. apply (proj1 (is_prefix_app_l _ _ _)) in H. apply (proj1 (is_prefix_cons _ _ _ _)) in H. tauto. Qed.
Lemma not_prefix_longer a b : (List.length b < List.length a)%nat -> ~ is_prefix a b.
Proof. intros H Hp. apply is_prefix_len in Hp. lia. Qed.

(* ------------------------------------------------------------------ replacing one child in the cache *)
Definition set_child (nm : name) (c : node) (pn : node) : node :=
  Node (n_reals pn) (n_wh pn) (n_loaded pn) (aset nm c (n_ch pn)).
Definition del_child (nm : name) (pn : node) : node :=
  Node (n_reals pn) (n_wh pn) (n_loaded pn) (adel nm (n_ch pn)).

Section SetEntry.
Variables Sh Sh' : nat -> path -> option shape.
Variable nl : nat.
Variable nm : name.

(* the parent itself: same backing inodes, child [nm] present (set) *)
Lemma parent_set_ok q0 pn cnew :
  (forall i p', ~ is_prefix (q0 ++ [nm]) p' -> Sh' i p' = Sh i p') ->
  NodeOK Sh nl q0 pn -> n_loaded pn = true ->
  kids Sh' q0 (lstack Sh' nl q0) nm <> [] ->
  NodeOK Sh' nl q0 (set_child nm cnew pn).
Proof.
  intros Hag N Hl Hk.
  assert (Hpre : forall i p', is_prefix p' q0 -> Sh' i p' = Sh i p').
  { intros i p' Hp. apply Hag. intros Hq. apply is_prefix_len in Hp. apply is_prefix_len in Hq.
    rewrite app_length in Hq. cbn in Hq. lia. }
  assert (Hp : forall i, Sh' i q0 = Sh i q0) by (intros i; apply Hpre; apply is_prefix_refl).
  pose proof (lstack_ext Sh Sh' nl q0 Hpre) as HL.
  constructor; unfold set_child; cbn [n_reals n_wh n_loaded n_ch]; rewrite ?HL; try apply N.
  - eapply Forall_impl; [|apply (ok_reals _ _ _ _ N)]. intros r (A & B & C). unfold rgood. rewrite Hp. auto.
  - rewrite !(dcut_ext Sh Sh' q0 _ Hp). apply N.
  - apply (opq_ok_ext Sh Sh'); [exact Hp|apply N].
  - rewrite Hl. discriminate.
  - apply keys_aset. apply N.
  - intros _. destruct (ok_ld _ _ _ _ N Hl) as (A & B & C). split; [exact A|]. split; [exact B|].
    intros k. rewrite afind_aset. destruct (String.eqb k nm) eqn:E.
    + apply String.eqb_eq in E; subst k. rewrite <- HL. split; [discriminate|]. intros H. contradiction.
    + rewrite (kids_ext Sh Sh' q0 _ k Hp).
      * apply C.
      * intros i. apply Hag. intros Hq. apply (proj1 (is_prefix_app_l _ _ _)) in Hq. apply (proj1 (is_prefix_cons _ _ _ _)) in Hq.
        destruct Hq as [Hq _]. subst k. rewrite String.eqb_refl in E. discriminate.
Qed.
Lemma parent_del_ok q0 pn :
  (forall i p', ~ is_prefix (q0 ++ [nm]) p' -> Sh' i p' = Sh i p') ->
  NodeOK Sh nl q0 pn -> n_loaded pn = true ->
  kids Sh' q0 (lstack Sh' nl q0) nm = [] ->
  NodeOK Sh' nl q0 (del_child nm pn).
Proof.
  intros Hag N Hl Hk.
  assert (Hpre : forall i p', is_prefix p' q0 -> Sh' i p' = Sh i p').
  { intros i p' Hp. apply Hag. intros Hq. apply is_prefix_len in Hp. apply is_prefix_len in Hq.
    rewrite app_length in Hq. cbn in Hq. lia. }
  assert (Hp : forall i, Sh' i q0 = Sh i q0) by (intros i; apply Hpre; apply is_prefix_refl).
  pose proof (lstack_ext Sh Sh' nl q0 Hpre) as HL.
  constructor; unfold del_child; cbn [n_reals n_wh n_loaded n_ch]; rewrite ?HL; try apply N.
  - eapply Forall_impl; [|apply (ok_reals _ _ _ _ N)]. intros r (A & B & C). unfold rgood. rewrite Hp. auto.
  - rewrite !(dcut_ext Sh Sh' q0 _ Hp). apply N.
  - apply (opq_ok_ext Sh Sh'); [exact Hp|apply N].
  - rewrite Hl. discriminate.
  - pose proof (ok_nodup _ _ _ _ N) as Hn. clear -Hn. induction (n_ch pn) as [|[a x] l IH]; cbn [adel map fst] in *; [constructor|].
    inversion Hn as [|? ? Hnot Hn']; subst. destruct (String.eqb nm a); [auto|]. cbn [map fst]. constructor; [|auto].
    intros Hin. apply Hnot. clear -Hin. induction l as [|[b y] l IHl]; cbn [adel map fst] in *; [exact Hin|].
    destruct (String.eqb nm b); [right; auto|]. cbn [map fst] in Hin. destruct Hin as [H|H]; [left; exact H|right; auto].
  - intros _. destruct (ok_ld _ _ _ _ N Hl) as (A & B & C). split; [exact A|]. split; [exact B|].
    intros k. rewrite afind_adel. destruct (String.eqb k nm) eqn:E.
    + apply String.eqb_eq in E; subst k. rewrite <- HL. split; [intros _; exact Hk|reflexivity].
    + rewrite (kids_ext Sh Sh' q0 _ k Hp).
      * apply C.
      * intros i. apply Hag. intros Hq. apply (proj1 (is_prefix_app_l _ _ _)) in Hq. apply (proj1 (is_prefix_cons _ _ _ _)) in Hq.
        destruct Hq as [Hq _]. subst k. rewrite String.eqb_refl in E. discriminate.
Qed.

(* the whole cache: replace the child [nm] of the node at [pp] *)
Lemma update_child_coh (g : node -> node) pp : forall q0 r pn,
  (forall i p', ~ is_prefix (q0 ++ pp ++ [nm]) p' -> Sh' i p' = Sh i p') ->
  CohT Sh nl q0 r -> nget pp r = Some pn ->
  NodeOK Sh' nl (q0 ++ pp) (g pn) ->
  (forall k c, afind k (n_ch (g pn)) = Some c ->
     (k = nm /\ CohT Sh' nl (q0 ++ pp ++ [nm]) c) \/ (k <> nm /\ afind k (n_ch pn) = Some c)) ->
  CohT Sh' nl q0 (nupd pp g r).
Proof.
  induction pp as [|c pp IH]; intros q0 r pn Hag HC Hget Hpar Hch; cbn [nupd nget] in *.
  - inversion Hget; subst pn. rewrite app_nil_r in Hpar. cbn [app] in *. apply CohT_intro; [exact Hpar|].
    intros k c' Hk. destruct (Hch k c' Hk) as [H1|H1]; destruct H1 as [Hne Hold]; [subst k; exact Hold|].
    apply (CohT_frame Sh Sh' nl (q0 ++ [nm])); [exact Hag| | |eapply CohT_child; eassumption].
    + intros p' [x ->]. rewrite <- app_assoc. cbn [app]. apply not_prefix_sibling. congruence.
    + intros p' Hp Hq. pose proof (is_prefix_trans _ _ _ Hq Hp) as H.
      apply (proj1 (is_prefix_app_l _ _ _)) in H. apply (proj1 (is_prefix_cons _ _ _ _)) in H. destruct H as [H _]. congruence.
  - destruct (afind c (n_ch r)) as [y|] eqn:Ec; [|discriminate].
    assert (Hagq : forall i p', (List.length p' <= S (List.length q0))%nat -> Sh' i p' = Sh i p').
    { intros i p' Hlen. apply Hag. apply not_prefix_longer. rewrite !app_length. cbn [List.length]. rewrite ?app_length. cbn [List.length]. lia. }
    apply CohT_intro.
    + eapply NodeOK_shape; [| | | |apply (NodeOK_ext Sh Sh' nl q0 r); [| |apply (CohT_node _ _ _ _ HC)]];
        cbn [n_reals n_wh n_loaded n_ch]; try reflexivity.
      * apply keys_amap.
      * intros i p' Hp. apply Hagq. apply is_prefix_len in Hp. lia.
      * intros i k. apply Hagq. rewrite app_length. cbn. lia.
    + intros k c' Hk. cbn [n_ch] in Hk. destruct (String.eqb c k) eqn:E.
      * apply String.eqb_eq in E; subst k. rewrite afind_amap, Ec in Hk. cbn [option_map] in Hk. inversion Hk; subst c'.
        apply (IH (q0 ++ [c]) y pn).
        -- intros i p' Hn. apply Hag. rewrite <- app_assoc in Hn. exact Hn.
        -- eapply CohT_child; eassumption.
        -- exact Hget.
        -- rewrite <- app_assoc. exact Hpar.
        -- intros k c0 Hk0. destruct (Hch k c0 Hk0) as [H|H]; [left|right; exact H]. destruct H as [H1 H2].
           split; [exact H1|]. rewrite <- app_assoc. exact H2.
      * rewrite (afind_amap_other _ _ _ _ E) in Hk.
        apply (CohT_frame Sh Sh' nl (q0 ++ (c :: pp) ++ [nm])); [exact Hag| | |eapply CohT_child; eassumption].
        -- intros p' [x ->]. rewrite <- !app_assoc. cbn [app]. apply not_prefix_sibling.
           intros ->. rewrite String.eqb_refl in E. discriminate.
        -- intros p' Hp. apply not_prefix_longer. apply is_prefix_len in Hp. rewrite !app_length in *. cbn [List.length] in *.
           rewrite ?app_length. cbn [List.length]. lia.
Qed.
End SetEntry.

(* ------------------------------------------------------------------ candidate lists are increasing: layer 0 can only be first *)
Section Sorted.
Variable Sh : nat -> path -> option shape.
Variable nl : nat.
Definition incr (l : list nat) : Prop := StronglySorted lt l.
Lemma incr_dcut p st : incr st -> incr (dcut Sh p st) /\ (forall i, In i (dcut Sh p st) -> In i st).
Proof.
  induction st as [|i r IH]; intros H; cbn [dcut]; [split; [constructor|auto]|].
  inversion H as [|? ? Hr Hall]; subst. destruct (IH Hr) as [A B].
  destruct (Sh i p) as [[o|w]|].
  - destruct o.
    + split; [constructor; [constructor|constructor]|]. intros j [->|[]]. left; reflexivity.
    + split.
      * constructor; [exact A|]. rewrite Forall_forall in *. intros j Hj. apply Hall. apply B. exact Hj.
      * intros j [->|Hj]; [left; reflexivity|right; apply B; exact Hj].
  - split; [constructor|intros j []].
  - split; [constructor|intros j []].
Qed.
Lemma incr_filter f l : incr l -> incr (filter f l).
Proof.
  induction 1 as [|i r Hr IH Hall]; cbn [filter]; [constructor|]. destruct (f i); [|exact IH].
  constructor; [exact IH|]. rewrite Forall_forall in *. intros j Hj. apply Hall. apply filter_In in Hj. tauto.
Qed.
Lemma incr_kids p st k : incr st -> incr (kids Sh p st k).
Proof. intros H. unfold kids. apply incr_filter. apply incr_dcut. exact H. Qed.
Lemma incr_lstk p : forall st p0, incr st -> incr (lstk Sh st p0 p).
Proof. induction p as [|k p IH]; intros st p0 H; cbn [lstk]; [exact H|]. apply IH. apply incr_kids. exact H. Qed.
Lemma incr_seq a n : incr (seq a n).
Proof.
  revert a. induction n as [|n IH]; intros a; cbn [seq]; constructor; [apply IH|].
  apply Forall_forall. intros j Hj. apply in_seq in Hj. lia.
Qed.
Lemma incr_lstack p : incr (lstack Sh nl p).
Proof. apply incr_lstk. apply incr_seq. Qed.
Lemma incr_zero_head l : incr l -> In 0%nat l -> exists r, l = 0%nat :: r.
Proof.
  intros H Hin. destruct l as [|i r]; [destruct Hin|]. inversion H as [|? ? _ Hall]; subst.
  destruct Hin as [->|Hin]; [eauto|]. rewrite Forall_forall in Hall. specialize (Hall 0%nat Hin). lia.
Qed.
End Sorted.

(* ------------------------------------------------------------------ the invariant at a node, from the candidate list and the shapes at the node *)
Lemma NodeOK_ext2 Sh Sh' nl p n :
  lstack Sh' nl p = lstack Sh nl p -> (forall i, Sh' i p = Sh i p) ->
  (forall i k, Sh' i (p ++ [k]) = Sh i (p ++ [k])) -> NodeOK Sh nl p n -> NodeOK Sh' nl p n.
Proof.
  intros HL Hp H2 N.
  constructor; rewrite ?HL; try apply N.
  - eapply Forall_impl; [|apply (ok_reals _ _ _ _ N)]. intros r (A & B & C). unfold rgood. rewrite Hp. auto.
  - rewrite !(dcut_ext Sh Sh' p _ Hp). apply N.
  - apply (opq_ok_ext Sh Sh'); [exact Hp|apply N].
  - intros Hl. destruct (ok_ld _ _ _ _ N Hl) as (A & B & C). split; [exact A|]. split; [exact B|].
    intros k. rewrite (kids_ext Sh Sh' p _ k Hp (fun i => H2 i k)). apply C.
Qed.
Lemma lstk_app S a : forall st p0 b, lstk S st p0 (a ++ b) = lstk S (lstk S st p0 a) (p0 ++ a) b.
Proof.
  induction a as [|x a IH]; intros st p0 b; cbn [app lstk]; [rewrite app_nil_r; reflexivity|].
  rewrite IH. rewrite <- app_assoc. reflexivity.
Qed.
(* below a path q whose candidate lists for the children did not change *)
Lemma CohT_below Sh Sh' nl q :
  (forall i r, r <> [] -> Sh' i (q ++ r) = Sh i (q ++ r)) ->
  (forall k, kids Sh' q (lstack Sh' nl q) k = kids Sh q (lstack Sh nl q) k) ->
  forall k c, CohT Sh nl (q ++ [k]) c -> CohT Sh' nl (q ++ [k]) c.
Proof.
  intros Hag Hk k c HC r m Hm. apply (NodeOK_ext2 Sh Sh' nl); [| | |apply HC; exact Hm].
  - unfold lstack. rewrite (lstk_app Sh' (q ++ [k])), (lstk_app Sh (q ++ [k])). cbn [app].
    fold (lstack Sh' nl (q ++ [k])). fold (lstack Sh nl (q ++ [k])). rewrite !lstack_snoc, Hk.
    apply lstk_ext. intros i p' [x Hx] _. subst p'. rewrite <- app_assoc. apply Hag. destruct x; discriminate.
  - intros i. rewrite <- app_assoc. apply Hag. discriminate.
  - intros i k'. rewrite <- !app_assoc. apply Hag. discriminate.
Qed.

(* ------------------------------------------------------------------ shapes of the upper tree after changing one child of one directory *)
Fixpoint strip (a b : path) : option path :=
  match a, b with
  | [], _ => Some b
  | x :: a', y :: b' => if String.eqb x y then strip a' b' else None
  | _ :: _, [] => None
  end.
Lemma strip_some a : forall b r, strip a b = Some r -> b = a ++ r.
Proof.
  induction a as [|x a IH]; intros b r H; cbn [strip] in H; [inversion H; reflexivity|].
  destruct b as [|y b]; [discriminate|]. destruct (String.eqb x y) eqn:E; [|discriminate].
  apply String.eqb_eq in E; subst y. cbn. f_equal. apply IH. exact H.
Qed.
Lemma strip_app a r : strip a (a ++ r) = Some r.
Proof. induction a as [|x a IH]; cbn [strip app]; [reflexivity|]. rewrite String.eqb_refl. exact IH. Qed.
Lemma strip_none a b : strip a b = None -> ~ is_prefix a b.
Proof. intros H [r ->]. rewrite strip_app in H. discriminate. Qed.

Lemma tget_app_gen pp : forall U d r, tget U pp = Some d -> tget U (pp ++ r) = tget d r.
Proof.
  induction pp as [|c pp IH]; intros U d r H; cbn [tget app] in *; [inversion H; reflexivity|].
  destruct U; try discriminate. destruct (afind c ch) as [y|]; [|discriminate]. apply IH. exact H.
Qed.
Lemma sh_tupd pp g : (forall d, sh (g d) = sh d) -> forall U d, tget U pp = Some d -> forall p,
  option_map sh (tget (tupd pp g U) p) =
  match strip pp p with Some r => option_map sh (tget (g d) r) | None => option_map sh (tget U p) end.
Proof.
  intros Hg. induction pp as [|c pp IH]; intros U d H p; cbn [tget tupd strip] in *.
  - inversion H; subst. reflexivity.
  - destruct U as [m x ch| | |]; try discriminate. destruct (afind c ch) as [y|] eqn:Ec; [|discriminate].
    destruct p as [|k p]; [reflexivity|]. cbn [tget].
    destruct (String.eqb c k) eqn:E.
    + apply String.eqb_eq in E; subst k. rewrite afind_amap, Ec. cbn [option_map]. apply IH. exact H.
    + rewrite (afind_amap_other _ _ _ _ E). reflexivity.
Qed.

Definition chmap (G : list (name * tree) -> list (name * tree)) (d : tree) : tree :=
  match d with Dir m x ch => Dir m x (G ch) | _ => d end.
Lemma sh_chmap G d : sh (chmap G d) = sh d.
Proof. destruct d; reflexivity. Qed.

Lemma upper_update_shape s s' U (pp : path) (nm : name) G cn m x ch :
  upper s = Some U -> upper s' = Some (tupd pp (chmap G) U) -> lowers s' = lowers s ->
  tget U pp = Some (Dir m x ch) ->
  (forall k, k <> nm -> afind k (G ch) = afind k ch) -> afind nm (G ch) = cn ->
  (forall i p', ~ is_prefix (pp ++ [nm]) p' -> shp s' i p' = shp s i p') /\
  (forall r, shp s' 0%nat (pp ++ nm :: r) = option_map sh (match cn with Some c => tget c r | None => None end)) /\
  (forall j p', shp s' (S j) p' = shp s (S j) p').
Proof.
  intros Hu Hu' Hl Hd HG Hnm.
  assert (Hlow : forall j p', shp s' (S j) p' = shp s (S j) p').
  { intros j p'. unfold shp, ent. cbn [get_layer]. rewrite Hl. reflexivity. }
  assert (H0 : forall p, shp s' 0%nat p = option_map sh (tget (tupd pp (chmap G) U) p)).
  { intros p. unfold shp, ent. cbn [get_layer]. rewrite Hu'. reflexivity. }
  assert (H0s : forall p, shp s 0%nat p = option_map sh (tget U p)).
  { intros p. unfold shp, ent. cbn [get_layer]. rewrite Hu. reflexivity. }
  split.
  - intros i p' Hn. destruct i as [|j].
    + rewrite H0, H0s, (sh_tupd pp (chmap G) (sh_chmap G) U _ Hd).
      destruct (strip pp p') as [r|] eqn:Es; [|reflexivity]. apply strip_some in Es. subst p'.
      rewrite (tget_app_gen pp U _ r Hd). destruct r as [|k r]; [cbn; reflexivity|].
      cbn [chmap tget]. destruct (String.eqb k nm) eqn:E.
      * apply String.eqb_eq in E; subst k. exfalso. apply Hn. exists r. rewrite <- app_assoc. reflexivity.
      * apply String.eqb_neq in E. rewrite (HG k E). reflexivity.
    + apply Hlow.
  - split; [|exact Hlow]. intros r. rewrite H0, (sh_tupd pp (chmap G) (sh_chmap G) U _ Hd), strip_app. cbn [chmap tget]. rewrite Hnm.
    destruct cn; reflexivity.
Qed.

(* ------------------------------------------------------------------ candidates of a child whose upper entry is (re)placed *)
Section UpperChild.
Variables Sh Sh' : nat -> path -> option shape.
Variable nl : nat.
Variables (pp : path) (nm : name).
Let q := pp ++ [nm].
Hypothesis Hag : forall i p', ~ is_prefix q p' -> Sh' i p' = Sh i p'.
Hypothesis Hlow : forall j p', Sh' (S j) p' = Sh (S j) p'.

Lemma ag_prefix i p' : is_prefix p' pp -> Sh' i p' = Sh i p'.
Proof using All.
  intros Hp. apply Hag. intros Hq. apply is_prefix_len in Hp. apply is_prefix_len in Hq.
  unfold q in Hq. rewrite app_length in Hq. cbn in Hq. lia.
Qed.
Lemma lstack_pp : lstack Sh' nl pp = lstack Sh nl pp.
Proof using All. apply lstack_ext. intros i p' Hp. apply ag_prefix. exact Hp. Qed.

Lemma dcut_on p st : (forall i, In i st -> Sh' i p = Sh i p) -> dcut Sh' p st = dcut Sh p st.
Proof using All.
  induction st as [|i r IH]; intros H; cbn [dcut]; [reflexivity|].
  rewrite (H i (or_introl eq_refl)), IH; [reflexivity|]. intros j Hj. apply H. right; exact Hj.
Qed.
Lemma nozero_agree p st : ~ In 0%nat st -> forall i, In i st -> Sh' i p = Sh i p.
Proof using All. intros Hn i Hi. destruct i as [|j]; [contradiction|apply Hlow]. Qed.
Lemma filter_on (f g : nat -> bool) st : (forall i, In i st -> f i = g i) -> filter f st = filter g st.
Proof using All.
  induction st as [|i r IH]; intros H; cbn [filter]; [reflexivity|].
  rewrite (H i (or_introl eq_refl)), IH; [reflexivity|]. intros j Hj. apply H. right; exact Hj.
Qed.

(* the parent is backed by the upper layer *)
Definition lowerc (rest : list nat) : list nat := filter (present Sh q) (tl (dcut Sh pp (0%nat :: rest))).
Lemma rest_nozero rest o : lstack Sh nl pp = 0%nat :: rest -> Sh 0%nat pp = Some (SDir o) ->
  ~ In 0%nat (tl (dcut Sh pp (0%nat :: rest))).
Proof using All.
  intros Hst Hpd. pose proof (incr_lstack Sh nl pp) as Hi. rewrite Hst in Hi.
  destruct (incr_dcut Sh pp _ Hi) as [A _]. cbn [dcut] in *. rewrite Hpd in *. destruct o; cbn [tl]; [intros []|].
  inversion A as [|? ? _ Hall]; subst. rewrite Forall_forall in Hall. intros H0. specialize (Hall _ H0). lia.
Qed.
Lemma lowerc_nozero rest o : lstack Sh nl pp = 0%nat :: rest -> Sh 0%nat pp = Some (SDir o) -> ~ In 0%nat (lowerc rest).
Proof using All.
  intros Hst Hpd. unfold lowerc. intros H. apply filter_In in H. destruct H as [H _]. exact (rest_nozero rest o Hst Hpd H).
Qed.
Lemma kids_old rest o : lstack Sh nl pp = 0%nat :: rest -> Sh 0%nat pp = Some (SDir o) ->
  kids Sh pp (lstack Sh nl pp) nm = (if present Sh q 0%nat then [0%nat] else []) ++ lowerc rest.
Proof using All.
  intros Hst Hpd. unfold kids, lowerc. rewrite Hst. cbn [dcut]. rewrite Hpd. fold q.
  destruct o; cbn [filter tl]; destruct (present Sh q 0%nat); reflexivity.
Qed.
Lemma kids_new rest o : lstack Sh nl pp = 0%nat :: rest -> Sh 0%nat pp = Some (SDir o) ->
  kids Sh' pp (lstack Sh' nl pp) nm = (if present Sh' q 0%nat then [0%nat] else []) ++ lowerc rest.
Proof using All.
  intros Hst Hpd. unfold kids. rewrite lstack_pp, Hst.
  rewrite (dcut_ext Sh Sh' pp _ (fun i => ag_prefix i pp (is_prefix_refl pp))).
  unfold lowerc. cbn [dcut]. rewrite Hpd. fold q.
  destruct o; cbn [filter tl].
  - destruct (present Sh' q 0%nat); reflexivity.
  - assert (E : filter (present Sh' q) (dcut Sh pp rest) = filter (present Sh q) (dcut Sh pp rest)).
    { apply filter_on. intros i Hi. unfold present. rewrite (nozero_agree q (dcut Sh pp rest)); [reflexivity| |exact Hi].
      pose proof (rest_nozero rest false Hst Hpd) as R. cbn [dcut tl] in R. rewrite Hpd in R. exact R. }
    rewrite E. destruct (present Sh' q 0%nat); reflexivity.
Qed.
Lemma lstack_q_old rest o : lstack Sh nl pp = 0%nat :: rest -> Sh 0%nat pp = Some (SDir o) ->
  lstack Sh nl q = (if present Sh q 0%nat then [0%nat] else []) ++ lowerc rest.
Proof using All. intros Hst Hpd. unfold q. rewrite lstack_snoc. apply (kids_old rest o Hst Hpd). Qed.
Lemma lstack_q_new rest o : lstack Sh nl pp = 0%nat :: rest -> Sh 0%nat pp = Some (SDir o) ->
  lstack Sh' nl q = (if present Sh' q 0%nat then [0%nat] else []) ++ lowerc rest.
Proof using All. intros Hst Hpd. unfold q. rewrite lstack_snoc. apply (kids_new rest o Hst Hpd). Qed.

(* a node whose single backing inode is the new upper entry *)
Lemma leaf_node_ok rest o ri : lstack Sh nl pp = 0%nat :: rest -> Sh 0%nat pp = Some (SDir o) ->
  rgood Sh' q ri -> r_layer ri = 0%nat ->
  (dcut Sh' q [0%nat] = dcut Sh' q (0%nat :: lowerc rest)) ->
  NodeOK Sh' nl q (Node [ri] (r_wh ri) false []).
Proof using All.
  intros Hst Hpd Hg Hl Hc.
  assert (Hp : present Sh' q 0%nat = true).
  { destruct Hg as (_ & _ & Hs). rewrite Hl in Hs. unfold present. destruct (Sh' 0%nat q); [reflexivity|contradiction]. }
  constructor; cbn [n_reals n_wh n_loaded n_ch first_wh map]; rewrite ?Hl, ?(lstack_q_new rest o Hst Hpd), ?Hp; cbn [app hd_error].
  - constructor; [exact Hg|constructor].
  - discriminate.
  - reflexivity.
  - exact Hc.
  - exact I.
  - reflexivity.
  - reflexivity.
  - constructor.
  - discriminate.
  - constructor.
Qed.
End UpperChild.

(* the parent after any change of its child [nm] *)
Lemma parent_upd_ok Sh Sh' nl nm q0 pn ch' :
  (forall i p', ~ is_prefix (q0 ++ [nm]) p' -> Sh' i p' = Sh i p') ->
  NodeOK Sh nl q0 pn -> n_loaded pn = true -> NoDup (map fst ch') ->
  (forall k, k <> nm -> (afind k ch' = None <-> afind k (n_ch pn) = None)) ->
  (afind nm ch' = None <-> kids Sh' q0 (lstack Sh' nl q0) nm = []) ->
  NodeOK Sh' nl q0 (Node (n_reals pn) (n_wh pn) (n_loaded pn) ch').
Proof.
  intros Hag N Hl Hnd Hoth Hnm.
  assert (Hpre : forall i p', is_prefix p' q0 -> Sh' i p' = Sh i p').
  { intros i p' Hp. apply Hag. intros Hq. apply is_prefix_len in Hp. apply is_prefix_len in Hq.
    rewrite app_length in Hq. cbn in Hq. lia. }
  assert (Hp : forall i, Sh' i q0 = Sh i q0) by (intros i; apply Hpre; apply is_prefix_refl).
  pose proof (lstack_ext Sh Sh' nl q0 Hpre) as HL.
  constructor; cbn [n_reals n_wh n_loaded n_ch]; rewrite ?HL; try apply N.
  - eapply Forall_impl; [|apply (ok_reals _ _ _ _ N)]. intros r (A & B & C). unfold rgood. rewrite Hp. auto.
  - rewrite !(dcut_ext Sh Sh' q0 _ Hp). apply N.
  - apply (opq_ok_ext Sh Sh'); [exact Hp|apply N].
  - rewrite Hl. discriminate.
  - exact Hnd.
  - intros _. destruct (ok_ld _ _ _ _ N Hl) as (A & B & C). split; [exact A|]. split; [exact B|].
    intros k. destruct (String.eqb k nm) eqn:E.
    + apply String.eqb_eq in E; subst k. rewrite <- HL. exact Hnm.
    + apply String.eqb_neq in E. rewrite (Hoth k E). rewrite (kids_ext Sh Sh' q0 _ k Hp).
      * apply C.
      * intros i. apply Hag. intros Hq. apply (proj1 (is_prefix_app_l _ _ _)) in Hq. apply (proj1 (is_prefix_cons _ _ _ _)) in Hq.
        destruct Hq as [Hq _]. congruence.
Qed.

(* ------------------------------------------------------------------ layers stay well formed *)
Lemma wf_tupd pp g : (forall d, wf d -> wf (g d)) -> forall U, wf U -> wf (tupd pp g U).
Proof.
  intros Hg. induction pp as [|c pp IH]; intros U HU; cbn [tupd]; [auto|].
  destruct U; try exact HU. inversion HU as [? ? ? Hn Hall| | |]; subst.
  constructor; [rewrite keys_amap; exact Hn|].
  unfold amap. clear Hn HU. induction Hall as [|kv l H1 H2 IHl]; cbn [map]; constructor; auto.
  match goal with |- context [if ?b then _ else _] => destruct b end; cbn [snd]; auto.
Qed.
Lemma dir_tupd pp g : (forall d, is_dirT d = true -> is_dirT (g d) = true) -> forall U, is_dirT U = true -> is_dirT (tupd pp g U) = true.
Proof. intros Hg. destruct pp; intros U HU; cbn [tupd]; [auto|]. destruct U; try discriminate. reflexivity. Qed.
Lemma wf_chmap_aset nm c d : wf d -> wf c -> wf (chmap (aset nm c) d).
Proof.
  intros Hd Hc. destruct d; cbn [chmap]; try exact Hd. inversion Hd as [? ? ? Hn Hall| | |]; subst.
  constructor; [apply keys_aset; exact Hn|]. apply Forall_aset; assumption.
Qed.
Lemma keys_adel_nodup {A} nm (l : list (string * A)) : NoDup (map fst l) -> NoDup (map fst (adel nm l)).
Proof.
  intros Hn. induction l as [|[a x] l IH]; cbn [adel map fst] in *; [constructor|].
  inversion Hn as [|? ? Hnot Hn']; subst. destruct (String.eqb nm a); [auto|]. cbn [map fst]. constructor; [|auto].
  intros Hin. apply Hnot. clear -Hin. induction l as [|[b y] l IHl]; cbn [adel map fst] in *; [exact Hin|].
  destruct (String.eqb nm b); [right; auto|]. cbn [map fst] in Hin. destruct Hin as [H|H]; [left; exact H|right; auto].
Qed.
Lemma wf_chmap_adel nm d : wf d -> wf (chmap (adel nm) d).
Proof.
  intros Hd. destruct d; cbn [chmap]; try exact Hd. inversion Hd as [? ? ? Hn Hall| | |]; subst.
  constructor; [apply keys_adel_nodup; exact Hn|]. apply Forall_adel. exact Hall.
Qed.
Lemma layer_ok_tupd pp g U : (forall d, wf d -> wf (g d)) -> (forall d, is_dirT d = true -> is_dirT (g d) = true) ->
  layer_ok U -> layer_ok (tupd pp g U).
Proof. intros H1 H2 [A B]. split; [apply wf_tupd; assumption|apply dir_tupd; assumption]. Qed.
Lemma wf_layers_set_upper s s' U' : wf_layers s -> upper s' = Some U' -> lowers s' = lowers s -> layer_ok U' -> wf_layers s'.
Proof.
  intros Hw Hu Hl HU i t Hg. destruct i as [|j]; cbn [get_layer] in Hg.
  - rewrite Hu in Hg. inversion Hg; subst. exact HU.
  - rewrite Hl in Hg. apply (Hw (S j) t). exact Hg.
Qed.

(* ------------------------------------------------------------------ block: the upper entry pp/nm becomes the leaf c
   (file, symlink, whiteout, empty directory) and the cache child becomes a node backed by it alone *)
Lemma sh_dir_of_tget s U pp m x ch : upper s = Some U -> tget U pp = Some (Dir m x ch) ->
  shp s 0%nat pp = Some (SDir (xs_opaque x)).
Proof. intros Hu Ht. unfold shp, ent. cbn [get_layer]. rewrite Hu, Ht. reflexivity. Qed.

Lemma leaf_block s s' U (pp : path) (nm : name) G c pn rest m x ch ri :
  Coherent s ->
  upper s = Some U -> tget U pp = Some (Dir m x ch) ->
  (forall k, k <> nm -> afind k (G ch) = afind k ch) -> afind nm (G ch) = Some c ->
  (forall k r, tget c (k :: r) = None) ->
  upper s' = Some (tupd pp (chmap G) U) -> lowers s' = lowers s -> wf_layers s' ->
  nget pp (root s) = Some pn -> n_loaded pn = true ->
  lstack (shp s) (List.length (lowers s)) pp = 0%nat :: rest ->
  (r_layer ri = 0%nat /\ r_upper ri = true /\ r_path ri = pp ++ [nm] /\ r_wh ri = is_whT c /\ r_dir ri = is_dirT c /\
   (r_opq ri = true -> is_opaqueT c = true)) ->
  (is_dirT c = false \/ is_opaqueT c = true \/ lowerc (shp s) pp nm rest = []) ->
  (exists g, root s' = nupd pp g (root s) /\ n_reals (g pn) = n_reals pn /\ n_wh (g pn) = n_wh pn /\
      n_loaded (g pn) = n_loaded pn /\ NoDup (map fst (n_ch (g pn))) /\
      afind nm (n_ch (g pn)) = Some (Node [ri] (r_wh ri) false []) /\
      (forall k, k <> nm -> afind k (n_ch (g pn)) = afind k (n_ch pn))) ->
  Coherent s'.
Proof.
  intros (Hu0 & Hw & HC) Hu Hd HG Hnm Hleaf Hu' Hl Hw' Hget Hld Hst (R1 & R2 & R3 & R4 & R5 & R6) Hcut (g & Hroot & G1 & G2 & G3 & G4 & G5 & G6).
  destruct (upper_update_shape s s' U pp nm G (Some c) m x ch Hu Hu' Hl Hd HG Hnm) as (Hag & Hat & Hlow).
  pose proof (sh_dir_of_tget s U pp m x ch Hu Hd) as Hpd.
  set (Sh := shp s) in *. set (Sh' := shp s') in *. set (nl := List.length (lowers s)) in *.
  assert (Hq : Sh' 0%nat (pp ++ [nm]) = Some (sh c)) by (rewrite (Hat []); reflexivity).
  assert (Hpres : present Sh' (pp ++ [nm]) 0%nat = true) by (unfold present; rewrite Hq; reflexivity).
  split; [eauto|]. split; [exact Hw'|]. rewrite Hl, Hroot. fold nl.
  apply (update_child_coh Sh Sh' nl nm g pp [] (root s) pn); cbn [app]; [exact Hag|exact HC|exact Hget| |].
  - (* the parent *)
    destruct (g pn) as [rs' w' l' ch'] eqn:Eg. cbn [n_reals n_wh n_loaded n_ch] in *. subst rs' w' l'.
    apply (parent_upd_ok Sh Sh' nl nm pp pn ch').
    + exact Hag.
    + exact (HC pp pn Hget).
    + exact Hld.
    + exact G4.
    + intros k Hk. rewrite (G6 k Hk). reflexivity.
    + rewrite G5, (kids_new Sh Sh' nl pp nm Hag Hlow rest _ Hst Hpd). unfold path, name in *. rewrite Hpres. cbn [app]. split; discriminate.
  - (* the children *)
    intros k c0 Hk. destruct (String.eqb k nm) eqn:E.
    + apply String.eqb_eq in E; subst k. left. split; [reflexivity|]. rewrite G5 in Hk. inversion Hk; subst c0.
      apply CohT_intro; [|intros k' c' H'; discriminate].
      apply (leaf_node_ok Sh Sh' nl pp nm Hag Hlow rest _ ri Hst Hpd); auto.
      * unfold rgood. unfold path, name in *. rewrite R1, R2, R3, Hq. split; [reflexivity|]. split; [reflexivity|].
        destruct c; cbn [sh is_whT is_dirT is_opaqueT] in *; repeat split; auto.
        -- destruct (r_opq ri); [specialize (R6 eq_refl); discriminate|reflexivity].
        -- destruct (r_opq ri); [specialize (R6 eq_refl); discriminate|reflexivity].
        -- destruct (r_opq ri); [specialize (R6 eq_refl); discriminate|reflexivity].
      * cbn [dcut]. unfold path, name in *. rewrite Hq. destruct c as [mc xc cc| | |]; cbn [sh]; try reflexivity.
        destruct (xs_opaque xc) eqn:Eo; [reflexivity|].
        destruct Hcut as [H|[H|H]]; [discriminate|cbn in H; congruence|]. rewrite H. reflexivity.
    + right. apply String.eqb_neq in E. split; [exact E|]. rewrite <- (G6 k E). exact Hk.
Qed.

(* ------------------------------------------------------------------ block: a lower-only directory gets an (empty) upper directory *)
Lemma tget_none_app t : forall p r, tget t p = None -> tget t (p ++ r) = None.
Proof.
  intros p; revert t. induction p as [|k p IH]; intros t r H; cbn [tget app] in *; [discriminate|].
  destruct t; try reflexivity. destruct (afind k ch); [apply IH; exact H|reflexivity].
Qed.
Lemma nupd_app pp nm f : forall r,
  nupd (pp ++ [nm]) f r = nupd pp (fun pn => Node (n_reals pn) (n_wh pn) (n_loaded pn) (amap nm f (n_ch pn))) r.
Proof.
  induction pp as [|c pp IH]; intros r; cbn [app nupd]; [reflexivity|].
  f_equal. unfold amap. apply map_ext. intros kv. destruct (String.eqb c (fst kv)); [rewrite IH|]; reflexivity.
Qed.
Lemma rgood_on Sh Sh' p r : Sh' (r_layer r) p = Sh (r_layer r) p -> rgood Sh p r -> rgood Sh' p r.
Proof. intros H (A & B & C). unfold rgood. rewrite H. auto. Qed.
Lemma opq_ok_on Sh Sh' p rs : (forall r, In r rs -> Sh' (r_layer r) p = Sh (r_layer r) p) -> opq_ok Sh p rs -> opq_ok Sh' p rs.
Proof.
  induction rs as [|r rest IH]; intros H Ho; [exact I|]. destruct rest as [|r2 rest]; [exact I|].
  destruct Ho as [A B]. split; [rewrite (H r (or_introl eq_refl)); exact A|].
  apply IH; [|exact B]. intros r' Hr'. apply H. right; exact Hr'.
Qed.

Lemma dirup_block s s' U (pp : path) (nm : name) md pn n_old rest m x ch :
  Coherent s ->
  upper s = Some U -> tget U pp = Some (Dir m x ch) -> afind nm ch = None ->
  upper s' = Some (tupd pp (chmap (aset nm (Dir md [] []))) U) -> lowers s' = lowers s ->
  nget pp (root s) = Some pn -> n_loaded pn = true -> afind nm (n_ch pn) = Some n_old -> first_dir (n_reals n_old) = true ->
  lstack (shp s) (List.length (lowers s)) pp = 0%nat :: rest ->
  root s' = nupd (pp ++ [nm]) (add_upper (mkReal 0 true (pp ++ [nm]) false false true) false) (root s) ->
  Coherent s'.
Proof.
  intros (Hu0 & Hw & HC) Hu Hd Hnone Hu' Hl Hget Hld Hold Hfd Hst Hroot.
  set (c := Dir md [] []). set (ri := mkReal 0 true (pp ++ [nm]) false false true) in *.
  assert (HG : forall k, k <> nm -> afind k (aset nm c ch) = afind k ch).
  { intros k Hk. rewrite afind_aset. apply String.eqb_neq in Hk. rewrite Hk. reflexivity. }
  assert (Hnm : afind nm (aset nm c ch) = Some c) by (rewrite afind_aset, String.eqb_refl; reflexivity).
  destruct (upper_update_shape s s' U pp nm (aset nm c) (Some c) m x ch Hu Hu' Hl Hd HG Hnm) as (Hag & Hat & Hlow).
  pose proof (sh_dir_of_tget s U pp m x ch Hu Hd) as Hpd.
  assert (Hw' : wf_layers s').
  { apply (wf_layers_set_upper s s' _ Hw Hu' Hl). apply layer_ok_tupd.
    - intros d Hdw. apply wf_chmap_aset; [exact Hdw|]. constructor; constructor.
    - intros d Hdd. destruct d; try discriminate. reflexivity.
    - apply (Hw 0%nat U). cbn. exact Hu. }
  set (Sh := shp s) in *. set (Sh' := shp s') in *. set (nl := List.length (lowers s)) in *.
  set (q := pp ++ [nm]) in *.
  assert (Hq' : Sh' 0%nat q = Some (SDir false)) by (unfold q; rewrite (Hat []); reflexivity).
  assert (Hq : Sh 0%nat q = None).
  { unfold Sh, shp, ent, q. cbn [get_layer]. rewrite Hu, (tget_app U pp nm), Hd, Hnone. reflexivity. }
  assert (Hbelow0 : forall r, r <> [] -> Sh' 0%nat (q ++ r) = Sh 0%nat (q ++ r)).
  { intros r Hr. destruct r as [|k r]; [contradiction|]. unfold q. rewrite <- app_assoc. cbn [app]. rewrite (Hat (k :: r)). cbn.
    unfold Sh, shp, ent. cbn [get_layer]. rewrite Hu.
    change (pp ++ nm :: k :: r) with (pp ++ [nm] ++ k :: r). rewrite app_assoc.
    rewrite (tget_none_app U (pp ++ [nm]) (k :: r)); [reflexivity|]. rewrite (tget_app U pp nm), Hd. exact Hnone. }
  assert (Hpres' : present Sh' q 0%nat = true) by (unfold present; rewrite Hq'; reflexivity).
  assert (Hpres : present Sh q 0%nat = false) by (unfold present; rewrite Hq; reflexivity).
  pose proof (lstack_q_old Sh Sh' nl pp nm Hag Hlow rest _ Hst Hpd) as Lold. fold q in Lold. rewrite Hpres in Lold. cbn [app] in Lold.
  pose proof (lstack_q_new Sh Sh' nl pp nm Hag Hlow rest _ Hst Hpd) as Lnew. fold q in Lnew. rewrite Hpres' in Lnew. cbn [app] in Lnew.
  pose proof (lowerc_nozero Sh Sh' nl pp nm Hag Hlow rest _ Hst Hpd) as Lnz.
  set (L := lowerc Sh pp nm rest) in *.
  assert (HdL : dcut Sh' q L = dcut Sh q L) by (apply (dcut_on Sh Sh' nl pp nm Hag Hlow); apply (nozero_agree Sh Sh' nl pp nm Hag Hlow); exact Lnz).
  assert (Hkids : forall k, kids Sh' q (lstack Sh' nl q) k = kids Sh q (lstack Sh nl q) k).
  { intros k. unfold kids. rewrite Lnew, Lold. cbn [dcut]. rewrite Hq', HdL. cbn [filter].
    assert (E0 : present Sh' (q ++ [k]) 0%nat = false).
    { unfold present. rewrite (Hbelow0 [k]); [|discriminate]. unfold Sh, shp, ent. cbn [get_layer]. rewrite Hu.
      unfold q. rewrite (tget_none_app U (pp ++ [nm]) [k]); [reflexivity|]. rewrite (tget_app U pp nm), Hd. exact Hnone. }
    rewrite E0. apply (filter_on Sh Sh' nl pp nm Hag Hlow). intros i Hi. unfold present.
    destruct i as [|j]; [|rewrite Hlow; reflexivity]. exfalso. apply Lnz.
    destruct (incr_dcut Sh q L) as [_ B]; [|apply B; exact Hi].
    rewrite <- Lold. apply incr_lstack. }
  pose proof (HC pp pn Hget) as Npn.
  assert (Nold : NodeOK Sh nl q n_old).
  { apply (HC q n_old). unfold q. clear -Hget Hold. revert Hget. generalize (root s). induction pp as [|a pp IH]; intros r Hg; cbn [nget app] in *.
    - inversion Hg; subst. rewrite Hold. reflexivity.
    - destruct (afind a (n_ch r)); [apply IH; exact Hg|discriminate]. }
  assert (Hnz : forall r, In r (n_reals n_old) -> Sh' (r_layer r) q = Sh (r_layer r) q).
  { intros r Hr. pose proof (ok_reals _ _ _ _ Nold) as Hg. rewrite Forall_forall in Hg. destruct (Hg r Hr) as (_ & _ & Hs).
    destruct (r_layer r) as [|j]; [rewrite Hq in Hs; contradiction|apply Hlow]. }
  split; [eauto|]. split; [exact Hw'|]. rewrite Hl, Hroot. fold nl. unfold q. rewrite nupd_app.
  apply (update_child_coh Sh Sh' nl nm _ pp [] (root s) pn); cbn [app]; [exact Hag|exact HC|exact Hget| |].
  - apply (parent_upd_ok Sh Sh' nl nm pp pn).
    + exact Hag.
    + exact Npn.
    + exact Hld.
    + rewrite keys_amap. apply Npn.
    + intros k Hk. apply String.eqb_neq in Hk. rewrite String.eqb_sym in Hk. rewrite (afind_amap_other _ _ _ _ Hk). reflexivity.
    + rewrite afind_amap, Hold. cbn [option_map].
      rewrite (kids_new Sh Sh' nl pp nm Hag Hlow rest _ Hst Hpd). fold q. rewrite Hpres'. cbn [app]. split; discriminate.
  - cbn [n_ch]. intros k c0 Hk. destruct (String.eqb nm k) eqn:E.
    + apply String.eqb_eq in E; subst k. left. split; [reflexivity|]. rewrite afind_amap, Hold in Hk. cbn [option_map] in Hk.
      inversion Hk; subst c0. fold q. apply CohT_intro.
      * (* the copied-up directory node *)
        unfold add_upper. cbn [r_wh ri].
        constructor; cbn [n_reals n_wh n_loaded n_ch first_wh first_dir map r_layer r_wh r_dir ri]; rewrite ?Lnew.
        -- constructor.
           ++ unfold rgood; cbn [r_path r_upper r_layer r_wh r_dir r_opq ri]. rewrite Hq'. repeat split; auto.
           ++ eapply Forall_impl_in || idtac. apply Forall_forall. intros r Hr.
              pose proof (ok_reals _ _ _ _ Nold) as Hg. rewrite Forall_forall in Hg.
              apply (rgood_on Sh Sh'); [apply Hnz; exact Hr|apply Hg; exact Hr].
        -- discriminate.
        -- reflexivity.
        -- cbn [dcut]. rewrite Hq'. f_equal. rewrite HdL.
           rewrite (dcut_on Sh Sh' nl pp nm Hag Hlow q (map r_layer (n_reals n_old))).
           ++ rewrite (ok_cut _ _ _ _ Nold), Lold. reflexivity.
           ++ intros i Hi. apply in_map_iff in Hi. destruct Hi as (r & <- & Hr). apply Hnz. exact Hr.
        -- pose proof (ok_opq _ _ _ _ Nold) as Ho. destruct (n_reals n_old) as [|r2 rs2] eqn:Er; [exact I|].
           split; [intros H; unfold ri in H; cbn [r_layer] in H; rewrite Hq' in H; discriminate|]. apply (opq_ok_on Sh Sh'); [exact Hnz|exact Ho].
        -- reflexivity.
        -- apply Nold.
        -- apply Nold.
        -- intros Hl'. destruct (ok_ld _ _ _ _ Nold Hl') as (_ & _ & C). split; [reflexivity|]. split; [reflexivity|].
           intros k. rewrite <- Lnew, Hkids. apply C.
        -- cbn [tl]. pose proof (ok_tl _ _ _ _ Nold) as Ht. destruct (n_reals n_old) as [|r2 rs2]; [constructor|].
           cbn [first_dir tl] in *. constructor; assumption.
      * cbn [add_upper n_ch]. intros k c' Hk'.
        apply (CohT_below Sh Sh' nl q).
        -- intros i r Hr. destruct i as [|j]; [apply Hbelow0; exact Hr|apply Hlow].
        -- exact Hkids.
        -- apply (CohT_child Sh nl q n_old k c'); [|exact Hk'].
           intros r m' Hm'. apply HC. unfold q. clear -Hget Hold Hm'. revert Hget. generalize (root s).
           induction pp as [|a pp IH]; intros r0 Hg; cbn [nget app] in *.
           ++ inversion Hg; subst. rewrite Hold. exact Hm'.
           ++ destruct (afind a (n_ch r0)); [apply IH; exact Hg|discriminate].
    + right. split; [intros ->; rewrite String.eqb_refl in E; discriminate|].
      rewrite (afind_amap_other _ _ _ _ E) in Hk. exact Hk.
Qed.

Lemma amap_ext {A} c (g g' : A -> A) l : (forall x, g x = g' x) -> amap c g l = amap c g' l.
Proof. intros H. unfold amap. apply map_ext. intros kv. destruct (String.eqb c (fst kv)); [rewrite H|]; reflexivity. Qed.
Lemma amap_amap {A} c (g1 g2 : A -> A) l : amap c g2 (amap c g1 l) = amap c (fun x => g2 (g1 x)) l.
Proof.
  unfold amap. rewrite map_map. apply map_ext. intros [k v]. cbn [fst snd].
  destruct (String.eqb c k) eqn:E; cbn [fst snd]; rewrite E; reflexivity.
Qed.
Lemma tupd_ext pp g g' : (forall d, g d = g' d) -> forall U, tupd pp g U = tupd pp g' U.
Proof.
  intros H. induction pp as [|c pp IH]; intros U; cbn [tupd]; [apply H|]. destruct U; try reflexivity.
  f_equal. apply amap_ext. exact IH.
Qed.
Lemma tupd_tupd pp g1 g2 : forall U, tupd pp g2 (tupd pp g1 U) = tupd pp (fun d => g2 (g1 d)) U.
Proof.
  induction pp as [|c pp IH]; intros U; cbn [tupd]; [reflexivity|]. destruct U; try reflexivity. cbn [tupd].
  f_equal. rewrite amap_amap. apply amap_ext. exact IH.
Qed.
Lemma tupd_snoc pp nm f : forall U, tupd (pp ++ [nm]) f U = tupd pp (chmap (amap nm f)) U.
Proof.
  induction pp as [|c pp IH]; intros U; cbn [app tupd].
  - destruct U; reflexivity.
  - destruct U; try reflexivity. f_equal. apply amap_ext. exact IH.
Qed.

(* ------------------------------------------------------------------ the copy-up mkdir (mkdir, then chmod when the lower mode has set-id bits) *)
Lemma tupd_ext_at pp g g' : forall t d0, wf t -> tget t pp = Some d0 -> g d0 = g' d0 -> tupd pp g t = tupd pp g' t.
Proof.
  induction pp as [|c pp IH]; intros t d0 Hw Ht Hg; cbn [tget tupd] in *.
  - inversion Ht; subst. exact Hg.
  - destruct t as [m x ch| | |]; try discriminate. f_equal.
    destruct (afind c ch) as [y|] eqn:Ey; [|discriminate].
    inversion Hw as [? ? ? Hn Hall| | |]; subst. rewrite Forall_forall in Hall.
    unfold amap. apply map_ext_in. intros [k v] Hin. cbn [fst snd]. destruct (String.eqb c k) eqn:E; [|reflexivity].
    apply String.eqb_eq in E; subst k. pose proof (afind_In_nodup c v ch Hn Hin) as Hv. rewrite Ey in Hv. inversion Hv; subst v.
    f_equal. apply (IH y d0); [apply (Hall (c, y) Hin)|exact Ht|exact Hg].
Qed.
Lemma amap_none {A} c (f : A -> A) l : afind c l = None -> amap c f l = l.
Proof.
  unfold amap. induction l as [|[k v] l IH]; cbn [map afind fst snd]; [reflexivity|].
  destruct (String.eqb c k); [discriminate|]. intros H. rewrite (IH H). reflexivity.
Qed.
Lemma amap_aset_fresh {A} c (f : A -> A) v l : afind c l = None -> amap c f (aset c v l) = aset c (f v) l.
Proof.
  induction l as [|[k w] l IH]; cbn [aset afind]; intros H.
  - unfold amap. cbn [map fst snd]. rewrite String.eqb_refl. reflexivity.
  - destruct (String.eqb c k) eqn:E; [discriminate|]. unfold amap in *. cbn [map fst snd]. rewrite E. f_equal. apply IH. exact H.
Qed.
Lemma ri_mkdir_cu_spec pr nm m s r s2 : wf_layers s -> r_upper pr = true -> r_layer pr = 0%nat ->
  ri_mkdir_cu pr nm m s = (Ok r, s2) ->
  exists t t1, upper s = Some t /\ h_insert (r_path pr) nm (Dir (cu_mode m) [] []) t = Ok t1 /\
    r = mkReal 0 true (r_path pr ++ [nm]) false false true /\
    upper s2 = Some t1 /\ lowers s2 = lowers s /\ root s2 = root s.
Proof.
  intros Hwl Hu Hl. unfold ri_mkdir_cu. unfold bind at 1.
  destruct (ri_mkdir pr nm m s) as [[ri|e] s1] eqn:Ec; [|discriminate].
  destruct (ri_mkdir_spec _ _ _ _ _ _ Hu Hl Ec) as (t & t1 & Eu & Hc & -> & Eu1 & Hlow1 & Hroot1).
  pose proof (h_insert_get _ _ _ _ _ Hc) as Hg1. unfold cu_mode.
  destruct (has_setid m).
  - unfold bind at 1. cbn [r_layer r_path].
    destruct (mutate 0 (h_chmod (r_path pr ++ [nm]) m) s1) as [[[]|e] s3] eqn:Em; [|discriminate].
    destruct (mutate0_spec _ _ _ Em) as (u & u' & A & B & C & D & E). rewrite Eu1 in A. inversion A; subst u.
    unfold h_chmod, h_update in B. rewrite Hg1 in B. inversion B; subst u'.
    cbn [ret]. intros H; inversion H; subst. exists t, (tupd (r_path pr ++ [nm]) (set_mode m) t1).
    split; [exact Eu|]. split; [|split; [reflexivity|split; [exact C|split; congruence]]].
    unfold h_mkdir, h_insert in *. destruct (tget t (r_path pr)) as [[m0 x0 ch0| | |]|] eqn:Etg; try discriminate.
    destruct (afind nm ch0) eqn:Enm; [discriminate|]. inversion Hc; subst t1. f_equal.
    rewrite tupd_snoc, tupd_tupd. symmetry.
    apply (tupd_ext_at (r_path pr) _ _ t (Dir m0 x0 ch0)); [apply (wf_layers_wf s Hwl 0%nat t); exact Eu|exact Etg|].
    cbn [dir_ins chmap]. rewrite (amap_aset_fresh nm (set_mode m) _ ch0 Enm). reflexivity.
  - unfold bind at 1. cbn [ret]. intros H; inversion H; subst. exists t, t1. unfold h_mkdir in Hc. auto 8.
Qed.
Lemma ri_mkdir_cu_fail pr nm m s e s2 : r_upper pr = true -> r_layer pr = 0%nat -> ri_mkdir_cu pr nm m s = (Err e, s2) -> s2 = s.
Proof.
  intros Hu Hl. unfold ri_mkdir_cu. unfold bind at 1.
  destruct (ri_mkdir pr nm m s) as [[ri|e0] s1] eqn:Ec.
  - destruct (ri_mkdir_spec _ _ _ _ _ _ Hu Hl Ec) as (t & t1 & Eu & Hc & -> & Eu1 & Hlow1 & Hroot1).
    pose proof (h_insert_get _ _ _ _ _ Hc) as Hg1.
    destruct (has_setid m); [|unfold bind at 1; cbn [ret]; discriminate].
    unfold bind at 1. cbn [r_layer r_path]. unfold mutate. cbn [get_layer]. rewrite Eu1.
    unfold h_chmod, h_update. rewrite Hg1. cbn [ret]. discriminate.
  - intros H. inversion H; subst. unfold ri_mkdir, ri_guard in Ec. rewrite Hu, Hl in Ec. unfold bind at 1 in Ec. cbn [ret] in Ec. unfold bind at 1 in Ec.
    destruct (mutate 0 (h_mkdir (r_path pr) nm m) s) as [[[]|e'] s3] eqn:Em; [inversion Ec|].
    inversion Ec; subst. unfold mutate in Em. cbn [get_layer] in Em. destruct (upper s) as [u|]; [|inversion Em; reflexivity].
    destruct (h_mkdir (r_path pr) nm m u); inversion Em; reflexivity.
Qed.

(* ------------------------------------------------------------------ create_upper_dir keeps the state coherent *)
Lemma split_last_spec p pp nm : split_last p = Some (pp, nm) -> p = pp ++ [nm].
Proof.
  revert pp nm. induction p as [|a p IH]; intros pp nm H; cbn [split_last] in H; [discriminate|].
  destruct p as [|b p]; [inversion H; reflexivity|].
  destruct (split_last (b :: p)) as [[q l]|]; [|discriminate]. inversion H; subst. cbn. f_equal. apply IH. reflexivity.
Qed.
Definition nsig (n : node) : bool * bool := (n_loaded n, first_dir (n_reals n)).
Lemma nget_nupd_sig f q : (forall m, n_ch (f m) = n_ch m) -> forall r n0, nget q r = Some n0 -> nsig (f n0) = nsig n0 ->
  forall p, option_map nsig (nget p (nupd q f r)) = option_map nsig (nget p r).
Proof.
  intros Hf. induction q as [|c q IH]; intros r n0 Hg Hs p; cbn [nupd nget] in *.
  - inversion Hg; subst n0. destruct p as [|k p]; cbn [nget option_map]; [rewrite Hs; reflexivity|]. rewrite Hf. reflexivity.
  - destruct (afind c (n_ch r)) as [y|] eqn:Ec; [|discriminate].
    destruct p as [|k p]; cbn [nget n_ch option_map]; [reflexivity|].
    destruct (String.eqb c k) eqn:E.
    + apply String.eqb_eq in E; subst k. rewrite afind_amap, Ec. cbn [option_map]. apply (IH y n0); assumption.
    + rewrite (afind_amap_other _ _ _ _ E). reflexivity.
Qed.
(* same paths in the cache, same loaded flags, same kind of first backing inode *)
Definition same_paths (s s' : state) : Prop :=
  forall p, option_map nsig (nget p (root s')) = option_map nsig (nget p (root s)).
Lemma same_paths_refl s : same_paths s s. Proof. intros p; reflexivity. Qed.
Lemma same_paths_trans a b c : same_paths a b -> same_paths b c -> same_paths a c.
Proof. intros H1 H2 p. rewrite (H2 p). apply H1. Qed.
Lemma same_paths_some s s' p n : same_paths s s' -> nget p (root s) = Some n ->
  exists n', nget p (root s') = Some n' /\ nsig n' = nsig n.
Proof.
  intros H Hn. specialize (H p). rewrite Hn in H. destruct (nget p (root s')) as [n'|]; cbn [option_map] in H; [|discriminate].
  exists n'. split; [reflexivity|]. congruence.
Qed.
Lemma same_paths_none s s' p : same_paths s s' -> nget p (root s) = None -> nget p (root s') = None.
Proof. intros H Hn. specialize (H p). rewrite Hn in H. destruct (nget p (root s')); [discriminate|reflexivity]. Qed.

Lemma nget_child (pp : path) (nm : name) r pn c : nget pp r = Some pn -> nget (pp ++ [nm]) r = Some c -> afind nm (n_ch pn) = Some c.
Proof.
  revert r. induction pp as [|a pp IH]; intros r Hp Hc; cbn [nget app] in *.
  - inversion Hp; subst. destruct (afind nm (n_ch pn)); [exact Hc|discriminate].
  - destruct (afind a (n_ch r)); [eapply IH; eassumption|discriminate].
Qed.
Lemma first_upper_stack s p n r rs : NodeOK (shp s) (List.length (lowers s)) p n -> n_reals n = r :: rs -> r_upper r = true ->
  r_layer r = 0%nat /\ r_path r = p /\ exists rest, lstack (shp s) (List.length (lowers s)) p = 0%nat :: rest.
Proof.
  intros N Er Hu. pose proof (ok_reals _ _ _ _ N) as Hg. rewrite Er in Hg. inversion Hg as [|? ? (Hp & Hup & _) _]; subst.
  rewrite Hu in Hup. symmetry in Hup. apply Nat.eqb_eq in Hup. split; [exact Hup|]. split; [reflexivity|].
  pose proof (ok_hd _ _ _ _ N) as Hh. rewrite Er in Hh. cbn [map hd_error] in Hh. rewrite Hup in Hh.
  destruct (lstack (shp s) (List.length (lowers s)) (r_path r)) as [|i rest]; [discriminate|]. inversion Hh; subst. eauto.
Qed.

Definition upper_at' (p : path) (s : state) : Prop := forall n', nget p (root s) = Some n' -> in_upper n' = true.
Lemma nget_nupd_frame f q : (forall m, n_ch (f m) = n_ch m) -> forall r q', ~ is_prefix q' q -> nget q' (nupd q f r) = nget q' r.
Proof.
  intros Hf. induction q as [|c q IH]; intros r q' Hn; cbn [nupd].
  - destruct q' as [|k p']; [exfalso; apply Hn; apply is_prefix_refl|]. cbn [nget]. rewrite Hf. reflexivity.
  - destruct q' as [|k p']; [exfalso; apply Hn; exists (c :: q); reflexivity|]. cbn [nget n_ch].
    destruct (String.eqb c k) eqn:E.
    + apply String.eqb_eq in E; subst k. rewrite afind_amap. destruct (afind c (n_ch r)); cbn [option_map]; [|reflexivity].
      apply IH. intros Hp. apply Hn. apply is_prefix_cons. split; [reflexivity|exact Hp].
    + rewrite (afind_amap_other _ _ _ _ E). reflexivity.
Qed.
(* nodes that are not on the way to p are untouched *)
Definition cache_frame (p : path) (s s' : state) : Prop := forall q, ~ is_prefix q p -> nget q (root s') = nget q (root s).
Lemma cud_coherent fuel : forall p s r s', Coherent s -> create_upper_dir fuel p s = (r, s') ->
  Coherent s' /\ same_paths s s' /\ lowers s' = lowers s /\ cache_frame p s s' /\ (r = Ok tt -> upper_at' p s').
Proof.
  induction fuel as [|f IH]; intros p s r s' HC Hrun; cbn [create_upper_dir] in Hrun.
  { inversion Hrun; subst. split; [exact HC|]. split; [apply same_paths_refl|]. split; [reflexivity|]. split; [intros q0 _; reflexivity|discriminate]. }
  assert (Keep : forall e, (Err e, s) = (r, s') -> Coherent s' /\ same_paths s s' /\ lowers s' = lowers s /\ cache_frame p s s' /\ (r = Ok tt -> upper_at' p s')).
  { intros e H. inversion H; subst. split; [exact HC|]. split; [apply same_paths_refl|]. split; [reflexivity|]. split; [intros q0 _; reflexivity|discriminate]. }
  unfold bind at 1 in Hrun. unfold get_node at 1 in Hrun. destruct (nget p (root s)) as [n|] eqn:Hg; [|exact (Keep _ Hrun)].
  unfold bind at 1 in Hrun. unfold stat_node in Hrun. destruct (node_stat s n) as [st|] eqn:Hst; [|exact (Keep _ Hrun)].
  destruct (is_dirT st) eqn:Edir; cbn [negb] in Hrun; [|exact (Keep _ Hrun)].
  destruct (in_upper n) eqn:Eup.
  { inversion Hrun; subst. split; [exact HC|]. split; [apply same_paths_refl|]. split; [reflexivity|]. split; [intros q0 _; reflexivity|]. intros _ n' Hn'. rewrite Hg in Hn'. inversion Hn'; subst. exact Eup. }
  destruct (split_last p) as [[pp nm]|] eqn:Esp; [|exact (Keep _ Hrun)].
  pose proof (split_last_spec _ _ _ Esp) as Hp. subst p.
  unfold bind at 1 in Hrun. unfold get_node at 1 in Hrun. destruct (nget pp (root s)) as [pn|] eqn:Hgp; [|exact (Keep _ Hrun)].
  unfold bind at 1 in Hrun.
  destruct ((if in_upper pn then ret tt else create_upper_dir f pp) s) as [[[]|e] s1] eqn:E1.
  2:{ inversion Hrun; subst. destruct (in_upper pn); [inversion E1|].
      destruct (IH pp s _ _ HC E1) as (A & B & L & Fr & _). split; [exact A|]. split; [exact B|]. split; [exact L|]. split; [|discriminate].
      intros q0 Hq0. apply Fr. intros Hpre. apply Hq0. eapply is_prefix_trans; [exact Hpre|apply is_prefix_app]. }
  assert (H1 : Coherent s1 /\ same_paths s s1 /\ lowers s1 = lowers s /\ cache_frame pp s s1 /\ upper_at' pp s1).
  { destruct (in_upper pn) eqn:Epu.
    - inversion E1; subst s1. split; [exact HC|]. split; [apply same_paths_refl|]. split; [reflexivity|]. split; [intros q0 _; reflexivity|]. intros n' Hn'. rewrite Hgp in Hn'. inversion Hn'; subst. exact Epu.
    - destruct (IH pp s _ _ HC E1) as (A & B & L & Fr & C). split; [exact A|]. split; [exact B|]. split; [exact L|]. split; [exact Fr|]. apply C. reflexivity. }
  destruct H1 as (HC1 & SP1 & Hlo1 & Fr1 & Hup1).
  assert (Fr1' : cache_frame (pp ++ [nm]) s s1).
  { intros q0 Hq0. apply Fr1. intros Hpre. apply Hq0. eapply is_prefix_trans; [exact Hpre|apply is_prefix_app]. }
  assert (Keep1 : forall e, (Err e, s1) = (r, s') -> Coherent s' /\ same_paths s s' /\ lowers s' = lowers s /\ cache_frame (pp ++ [nm]) s s' /\ (r = Ok tt -> upper_at' (pp ++ [nm]) s')).
  { intros e H. inversion H; subst. split; [exact HC1|]. split; [exact SP1|]. split; [exact Hlo1|]. split; [exact Fr1'|discriminate]. }
  unfold bind at 1 in Hrun. unfold get_node at 1 in Hrun. destruct (nget pp (root s1)) as [pn'|] eqn:Hgp1; [|exact (Keep1 _ Hrun)].
  pose proof (Hup1 pn' Hgp1) as Hpu.
  pose proof HC1 as (Hu1 & Hw1 & HCT1). pose proof (HCT1 pp pn' Hgp1) as Npn.
  unfold bind at 1 in Hrun. unfold upper_real in Hrun. unfold in_upper in Hpu.
  destruct (n_reals pn') as [|pr prs] eqn:Epr; [discriminate|]. rewrite Hpu in Hrun. cbn [ret] in Hrun.
  destruct (first_upper_stack s1 pp pn' pr prs Npn Epr Hpu) as (Hl0 & Hpp & rest & Hstk).
  unfold bind at 1 in Hrun.
  destruct (ri_mkdir_cu pr nm (mode_of st) s1) as [[ri|e] s2] eqn:Emk.
  2:{ pose proof (ri_mkdir_cu_fail _ _ _ _ _ _ Hpu Hl0 Emk). subst s2. exact (Keep1 _ Hrun). }
  destruct (ri_mkdir_cu_spec _ _ _ _ _ _ Hw1 Hpu Hl0 Emk) as (U & U1 & HU & Hmk & -> & HU2 & Hlow2 & Hroot2).
  rewrite Hpp in *.
  unfold h_insert in Hmk. destruct (tget U pp) as [[m x ch| | |]|] eqn:Etg; try discriminate.
  destruct (afind nm ch) eqn:Enm; [discriminate|]. inversion Hmk; subst U1; clear Hmk.
  destruct (same_paths_some s s1 _ _ SP1 Hg) as (n1 & Hn1 & Hsig1).
  pose proof (nget_child pp nm (root s1) pn' n1 Hgp1 Hn1) as Hchild.
  assert (Hfd1 : first_dir (n_reals n1) = true).
  { unfold nsig in Hsig1. inversion Hsig1 as [[A B]]. rewrite B. destruct HC as (_ & _ & HCT).
    destruct (first_good_stat s _ _ n (HCT _ _ Hg)) as (r0 & rs0 & t0 & Er0 & _ & Hs0 & _ & Hd0 & _).
    rewrite Hst in Hs0. inversion Hs0; subst t0. rewrite Er0. cbn. rewrite Hd0. exact Edir. }
  assert (Hld : n_loaded pn' = true).
  { destruct (n_loaded pn') eqn:El; [reflexivity|]. rewrite (ok_unl _ _ _ _ Npn El) in Hchild. discriminate. }
  unfold mod_node in Hrun. inversion Hrun; subst r s'; clear Hrun.
  split; [|split; [|split; [|split]]].
  - apply (dirup_block s1 _ U pp nm (cu_mode (mode_of st)) pn' n1 rest m x ch); auto.
    cbn [root]. rewrite Hroot2. reflexivity.
  - apply (same_paths_trans s s1 _); [exact SP1|]. intros p'. cbn [root]. rewrite Hroot2.
    apply nget_nupd_sig with (n0 := n1); [intros m0; reflexivity|exact Hn1|]. unfold nsig, add_upper; cbn. rewrite Hfd1. reflexivity.
  - cbn [lowers]. congruence.
  - intros q0 Hq0. cbn [root]. rewrite Hroot2, (nget_nupd_frame _ (pp ++ [nm])); [apply Fr1'; exact Hq0|intros m0; reflexivity|exact Hq0].
  - intros _ n' Hn'. cbn [root] in Hn'. rewrite nget_nupd in Hn'. destruct (nget (pp ++ [nm]) (root s2)); cbn [option_map] in Hn'; [|discriminate].
    inversion Hn'; subst. reflexivity.
Qed.

(* ------------------------------------------------------------------ attribute / content changes do not change shapes *)
Definition file_to_file (f : tree -> tree) : Prop := forall j m d x, exists j' m' d' x', f (File j m d x) = File j' m' d' x'.
Lemma sh_tmap_ino i f : file_to_file f -> forall p t, option_map sh (tget (tmap_ino i f t) p) = option_map sh (tget t p).
Proof.
  intros Hf. induction p as [|k p IH]; intros t.
  - cbn [tget option_map]. destruct t; cbn [tmap_ino sh]; try reflexivity.
    destruct (i =? ino)%N; [|reflexivity]. destruct (Hf ino mode data xs) as (j' & m' & d' & x' & ->). reflexivity.
  - destruct t; cbn [tmap_ino tget]; try reflexivity.
    + rewrite afind_map_snd. destruct (afind k ch); cbn [option_map]; [apply IH|reflexivity].
    + destruct (i =? ino)%N; [|reflexivity]. destruct (Hf ino mode data xs) as (j' & m' & d' & x' & ->). reflexivity.
Qed.
Lemma wf_tmap_ino i f : file_to_file f -> forall t, wf t -> wf (tmap_ino i f t).
Proof.
  intros Hf. fix IH 2. intros t Hw. destruct Hw as [m x ch Hn Hall|j m d x|tg|]; cbn [tmap_ino].
  - constructor; [rewrite map_map; cbn [fst]; exact Hn|].
    clear Hn. revert ch Hall.
    refine (fix go (l : list (name * tree)) (H : Forall (fun kv => wf (snd kv)) l) {struct H} :
              Forall (fun kv => wf (snd kv)) (map (fun kv => (fst kv, tmap_ino i f (snd kv))) l) :=
              match H in Forall _ l0 return Forall (fun kv => wf (snd kv)) (map (fun kv => (fst kv, tmap_ino i f (snd kv))) l0) with
              | Forall_nil _ => Forall_nil _
              | @Forall_cons _ _ a l' h t => @Forall_cons _ (fun kv => wf (snd kv)) (fst a, tmap_ino i f (snd a)) _ (IH (snd a) h) (go l' t)
              end).
  - destruct (i =? j)%N; [|constructor]. destruct (Hf j m d x) as (j' & m' & d' & x' & ->). constructor.
  - constructor.
  - constructor.
Qed.
Lemma CohT_pointwise Sh Sh' nl : (forall i p, Sh' i p = Sh i p) -> forall p n, CohT Sh nl p n -> CohT Sh' nl p n.
Proof.
  intros H p n HC q m Hm. apply (NodeOK_ext Sh Sh' nl); [intros i p' _; apply H|intros i k; apply H|apply HC; exact Hm].
Qed.
Lemma coherent_shape_eq s s' :
  (forall i p, shp s' i p = shp s i p) -> root s' = root s -> List.length (lowers s') = List.length (lowers s) ->
  wf_layers s' -> (exists u, upper s' = Some u) -> Coherent s -> Coherent s'.
Proof.
  intros Hs Hr Hl Hw Hu (_ & _ & HC). split; [exact Hu|]. split; [exact Hw|]. rewrite Hr, Hl.
  apply (CohT_pointwise (shp s) (shp s')); [exact Hs|exact HC].
Qed.

(* ------------------------------------------------------------------ block: a lower-only file / symlink gets its upper copy *)
Lemma unloaded_nondir s p n t : NodeOK (shp s) (List.length (lowers s)) p n -> node_stat s n = Some t -> is_dirT t = false ->
  n_loaded n = false /\ n_ch n = [].
Proof.
  intros N Hst Hd. destruct (first_good_stat s _ p n N) as (r & rs & t' & Er & _ & Hst' & _ & Hdir & _).
  rewrite Hst in Hst'. inversion Hst'; subst t'.
  destruct (n_loaded n) eqn:El; [|split; [reflexivity|apply (ok_unl _ _ _ _ N El)]].
  destruct (ok_ld _ _ _ _ N El) as (_ & B & _). rewrite Er in B. cbn in B. congruence.
Qed.
Lemma leafup_block s s' U (pp : path) (nm : name) c pn n1 rest m x ch t1 :
  Coherent s ->
  upper s = Some U -> tget U pp = Some (Dir m x ch) -> afind nm ch = None ->
  (is_dirT c = false /\ is_whT c = false /\ wf c) ->
  upper s' = Some (tupd pp (chmap (aset nm c)) U) -> lowers s' = lowers s ->
  nget pp (root s) = Some pn -> n_loaded pn = true -> afind nm (n_ch pn) = Some n1 ->
  node_stat s n1 = Some t1 -> is_dirT t1 = false ->
  lstack (shp s) (List.length (lowers s)) pp = 0%nat :: rest ->
  root s' = nupd (pp ++ [nm]) (add_upper (mkReal 0 true (pp ++ [nm]) false false false) true) (root s) ->
  Coherent s'.
Proof.
  intros HC Hu Hd Hnone (Hc1 & Hc2 & Hc3) Hu' Hl Hget Hld Hold Hst1 Hnd Hstk Hroot.
  pose proof HC as (_ & Hw & HCT).
  assert (Nn1 : NodeOK (shp s) (List.length (lowers s)) (pp ++ [nm]) n1).
  { apply (HCT (pp ++ [nm]) n1). clear -Hget Hold. revert Hget. generalize (root s). induction pp as [|a pp IH]; intros r Hg; cbn [nget app] in *.
    - inversion Hg; subst. rewrite Hold. reflexivity.
    - destruct (afind a (n_ch r)); [apply IH; exact Hg|discriminate]. }
  destruct (unloaded_nondir s _ n1 t1 Nn1 Hst1 Hnd) as [Hul Hnc].
  apply (leaf_block s s' U pp nm (aset nm c) c pn rest m x ch (mkReal 0 true (pp ++ [nm]) false false false)); auto.
  - intros k Hk. rewrite afind_aset. apply String.eqb_neq in Hk. rewrite Hk. reflexivity.
  - rewrite afind_aset, String.eqb_refl. reflexivity.
  - intros k r. destruct c; try discriminate; reflexivity.
  - apply (wf_layers_set_upper s s' _ Hw Hu' Hl). apply layer_ok_tupd.
    + intros d Hdw. apply wf_chmap_aset; assumption.
    + intros d Hdd. destruct d; try discriminate. reflexivity.
    + apply (Hw 0%nat U). cbn. exact Hu.
  - cbn [r_layer r_upper r_path r_wh r_dir r_opq]. repeat split; auto. discriminate.
  - eexists. split; [rewrite Hroot; apply nupd_app|]. cbn [n_reals n_wh n_loaded n_ch].
    pose proof (HCT pp pn Hget) as Npn.
    repeat split; auto.
    + rewrite keys_amap. apply Npn.
    + rewrite afind_amap, Hold. cbn [option_map]. unfold add_upper. cbn [r_wh]. rewrite Hul, Hnc. reflexivity.
    + intros k Hk. apply String.eqb_neq in Hk. rewrite String.eqb_sym in Hk. apply (afind_amap_other _ _ _ _ Hk).
Qed.


(* ------------------------------------------------------------------ copy_node_up keeps the state coherent *)
Lemma parent_step s pn (HC : Coherent s) (pp : path) (nm : name) :
  nget pp (root s) = Some pn -> forall r1 s1,
  (if in_upper pn then ret tt else create_upper_dir (S (List.length pp)) pp) s = (r1, s1) ->
  Coherent s1 /\ same_paths s s1 /\ lowers s1 = lowers s /\ cache_frame pp s s1 /\ (r1 = Ok tt -> upper_at' pp s1).
Proof.
  intros Hgp r1 s1 E1. destruct (in_upper pn) eqn:Epu.
  - inversion E1; subst. split; [exact HC|]. split; [apply same_paths_refl|]. split; [reflexivity|]. split; [intros q _; reflexivity|].
    intros _ n' Hn'. rewrite Hgp in Hn'. inversion Hn'; subst. exact Epu.
  - destruct (cud_coherent _ pp s r1 s1 HC E1) as (A & B & C & D & F).
    split; [exact A|]. split; [exact B|]. split; [exact C|]. split; [exact D|exact F].
Qed.
Lemma not_prefix_snoc (pp : path) (nm : name) : ~ is_prefix (pp ++ [nm]) pp.
Proof. apply not_prefix_longer. rewrite app_length. cbn. lia. Qed.

Lemma cnu_leaf_tail s1 (pp : path) (nm : name) c n1 t1 pn' pr prs U U1 s' :
  Coherent s1 -> nget pp (root s1) = Some pn' -> n_reals pn' = pr :: prs -> r_upper pr = true ->
  nget (pp ++ [nm]) (root s1) = Some n1 -> node_stat s1 n1 = Some t1 -> is_dirT t1 = false ->
  (is_dirT c = false /\ is_whT c = false /\ wf c) ->
  upper s1 = Some U -> h_insert pp nm c U = Ok U1 ->
  upper s' = Some U1 -> lowers s' = lowers s1 ->
  root s' = nupd (pp ++ [nm]) (add_upper (mkReal 0 true (pp ++ [nm]) false false false) true) (root s1) ->
  Coherent s'.
Proof.
  intros HC1 Hgp1 Epr Hpu Hn1 Hst1 Hnd Hc HU Hins HU' Hl' Hroot.
  pose proof HC1 as (_ & _ & HCT1). pose proof (HCT1 pp pn' Hgp1) as Npn.
  destruct (first_upper_stack s1 pp pn' pr prs Npn Epr Hpu) as (Hl0 & Hpp & rest & Hstk).
  unfold h_insert in Hins. destruct (tget U pp) as [[m x ch| | |]|] eqn:Etg; try discriminate.
  destruct (afind nm ch) eqn:Enm; [discriminate|]. inversion Hins; subst U1; clear Hins.
  pose proof (nget_child pp nm (root s1) pn' n1 Hgp1 Hn1) as Hchild.
  assert (Hld : n_loaded pn' = true).
  { destruct (n_loaded pn') eqn:El; [reflexivity|]. rewrite (ok_unl _ _ _ _ Npn El) in Hchild. discriminate. }
  apply (leafup_block s1 s' U pp nm c pn' n1 rest m x ch t1); auto.
Qed.

Lemma coherent_same_disk s s' : upper s' = upper s -> lowers s' = lowers s -> root s' = root s -> Coherent s -> Coherent s'.
Proof.
  intros A B C HC. pose proof HC as (Hu & Hw & _). apply (coherent_shape_eq s s'); auto.
  - intros i q. unfold shp, ent, get_layer. rewrite A, B. reflexivity.
  - rewrite B. reflexivity.
  - intros i t Hg. apply (Hw i t). unfold get_layer in *. rewrite <- A, <- B. exact Hg.
  - rewrite A. exact Hu.
Qed.

Lemma cnu_coherent p s r s' : Coherent s -> (forall n, nget p (root s) = Some n -> n_wh n = false) ->
  copy_node_up p s = (r, s') ->
  Coherent s' /\ same_paths s s' /\ lowers s' = lowers s /\ cache_frame p s s' /\ (r = Ok tt -> upper_at' p s').
Proof.
  intros HC Hnw Hrun. unfold copy_node_up in Hrun.
  assert (Keep : forall e, (Err e, s) = (r, s') ->
            Coherent s' /\ same_paths s s' /\ lowers s' = lowers s /\ cache_frame p s s' /\ (r = Ok tt -> upper_at' p s')).
  { intros e H. inversion H; subst. split; [exact HC|]. split; [apply same_paths_refl|]. split; [reflexivity|]. split; [intros q _; reflexivity|discriminate]. }
  unfold bind at 1 in Hrun. unfold get_node at 1 in Hrun. destruct (nget p (root s)) as [n|] eqn:Hg; [|exact (Keep _ Hrun)].
  destruct (in_upper n) eqn:Eup.
  { inversion Hrun; subst. split; [exact HC|]. split; [apply same_paths_refl|]. split; [reflexivity|]. split; [intros q _; reflexivity|].
    intros _ n' Hn'. rewrite Hg in Hn'. inversion Hn'; subst. exact Eup. }
  unfold bind at 1 in Hrun. unfold stat_node in Hrun. destruct (node_stat s n) as [st|] eqn:Hst; [|exact (Keep _ Hrun)].
  pose proof HC as (Hu0 & Hw0 & HCT). pose proof (HCT p n Hg) as Nn.
  destruct (first_good_stat s _ p n Nn) as (lr & lrs & t0 & Elr & Et0 & Hst0 & Hw0' & Hd0 & Hp0).
  rewrite Hst in Hst0. inversion Hst0; subst t0; clear Hst0.
  assert (Hnotwh : is_whT st = false).
  { rewrite <- Hw0'. pose proof (ok_wh _ _ _ _ Nn) as W. rewrite Elr in W. cbn in W. rewrite <- W. apply Hnw. reflexivity. }
  assert (Hlrlow : r_layer lr <> 0%nat).
  { pose proof (ok_reals _ _ _ _ Nn) as G. rewrite Elr in G. inversion G as [|? ? (_ & Hup & _) _]; subst.
    unfold in_upper in Eup. rewrite Elr in Eup. rewrite Eup in Hup. intros H0. rewrite H0 in Hup. discriminate. }
  (* common part of the two leaf cases: make the parent upper *)
  assert (Leaf : forall (c : tree) (body : real -> M unit),
     (is_dirT st = false) -> (is_dirT c = false /\ is_whT c = false /\ wf c) ->
     forall pp nm, p = pp ++ [nm] -> forall pn, nget pp (root s) = Some pn ->
     forall r1 s1, (if in_upper pn then ret tt else create_upper_dir (S (List.length pp)) pp) s = (r1, s1) ->
     Coherent s1 /\ same_paths s s1 /\ lowers s1 = lowers s /\ cache_frame p s s1 /\ (r1 = Ok tt -> upper_at' pp s1) /\
     nget p (root s1) = Some n /\ node_stat s1 n = Some st /\ real_tree s1 lr = Some st).
  { intros c body Hnd Hc pp nm -> pn Hgp r1 s1 E1.
    destruct (parent_step s pn HC pp nm Hgp r1 s1 E1) as (A & B & C & D & F).
    split; [exact A|]. split; [exact B|]. split; [exact C|]. split; [|split; [exact F|]].
    { intros q Hq. apply D. intros Hpre. apply Hq. eapply is_prefix_trans; [exact Hpre|apply is_prefix_app]. }
    split; [|split].
    - rewrite (D (pp ++ [nm])); [exact Hg|apply not_prefix_snoc].
    - unfold node_stat. rewrite Elr. cbn [map first_some]. rewrite (lower_real_tree s s1 lr Hlrlow C), real_tree_ent, Hp0, Et0. reflexivity.
    - rewrite (lower_real_tree s s1 lr Hlrlow C), real_tree_ent, Hp0. exact Et0. }
  destruct st as [md xd chd|fi fm fd fx|tg|]; [| | |discriminate].
  - destruct (cud_coherent _ p s r s' HC Hrun) as (A & B & C & D & F).
    split; [exact A|]. split; [exact B|]. split; [exact C|]. split; [exact D|exact F].
  - (* regular file *)
    unfold copy_regfile_up in Hrun. unfold bind at 1 in Hrun. unfold get_node at 1 in Hrun. rewrite Hg, Eup in Hrun.
    destruct (split_last p) as [[pp nm]|] eqn:Esp; [|exact (Keep _ Hrun)].
    pose proof (split_last_spec _ _ _ Esp) as Hp. rewrite Hp in *.
    unfold bind at 1 in Hrun. unfold stat_node in Hrun. rewrite Hst in Hrun.
    unfold bind at 1 in Hrun. unfold first_real in Hrun. rewrite Elr in Hrun. cbn [ret] in Hrun.
    unfold bind at 1 in Hrun. unfold get_node at 1 in Hrun. destruct (nget pp (root s)) as [pn|] eqn:Hgp; [|exact (Keep _ Hrun)].
    unfold bind at 1 in Hrun.
    destruct ((if in_upper pn then ret tt else create_upper_dir (S (List.length pp)) pp) s) as [r1 s1] eqn:E1.
    set (c := File (next_ino s1) (N.land fm 4095) fd []).
    destruct (Leaf c (fun _ => ret tt) eq_refl (conj eq_refl (conj eq_refl (wf_file _ _ _ _))) pp nm eq_refl pn Hgp r1 s1 E1)
      as (HC1 & SP1 & Hlo1 & Fr1 & Hup1 & Hn1 & Hst1 & Hrt1).
    assert (Keep1 : forall e, (Err e, s1) = (r, s') ->
              Coherent s' /\ same_paths s s' /\ lowers s' = lowers s /\ cache_frame (pp ++ [nm]) s s' /\ (r = Ok tt -> upper_at' (pp ++ [nm]) s')).
    { intros e H. inversion H; subst. split; [exact HC1|]. split; [exact SP1|]. split; [exact Hlo1|]. split; [exact Fr1|discriminate]. }
    destruct r1 as [[]|e1]; [|exact (Keep1 _ Hrun)]. specialize (Hup1 eq_refl).
    unfold bind at 1 in Hrun. unfold get_node at 1 in Hrun. destruct (nget pp (root s1)) as [pn'|] eqn:Hgp1; [|exact (Keep1 _ Hrun)].
    pose proof (Hup1 pn' Hgp1) as Hpu. unfold in_upper in Hpu.
    unfold bind at 1 in Hrun. unfold upper_real in Hrun.
    destruct (n_reals pn') as [|pr prs] eqn:Epr; [discriminate|]. rewrite Hpu in Hrun. cbn [ret] in Hrun.
    pose proof HC1 as (_ & Hw1 & HCT1). pose proof (HCT1 pp pn' Hgp1) as Npn.
    destruct (first_upper_stack s1 pp pn' pr prs Npn Epr Hpu) as (Hl0 & Hpp & rest & Hstk).
    unfold bind at 1 in Hrun.
    destruct (ri_create pr nm (mode_of (File fi fm fd fx)) s1) as [[ri|e] s2] eqn:Ec.
    2:{ inversion Hrun; subst r s'.
        assert (Hs2 : upper s2 = upper s1 /\ lowers s2 = lowers s1 /\ root s2 = root s1).
        { unfold ri_create, ri_guard in Ec. rewrite Hpu in Ec. unfold bind at 1 in Ec. cbn [ret] in Ec. unfold bind at 1 in Ec.
          unfold fresh_ino in Ec. unfold bind at 1 in Ec. unfold mutate in Ec. rewrite Hl0 in Ec. cbn [get_layer upper] in Ec.
          destruct (upper s1) as [u1|]; [|inversion Ec; auto].
          destruct (h_create (r_path pr) nm (next_ino s1) (mode_of (File fi fm fd fx)) u1); inversion Ec; auto. }
        destruct Hs2 as (A & B & C).
        split; [exact (coherent_same_disk s1 s2 A B C HC1)|]. split; [intros q; rewrite C; apply SP1|]. split; [congruence|].
        split; [intros q Hq; rewrite C; apply Fr1; exact Hq|discriminate]. }
    destruct (ri_create_spec _ _ _ _ _ _ Hpu Hl0 Ec) as (U & U1 & HU & Hcr & -> & HU2 & Hlow2 & Hroot2).
    rewrite Hpp in *. cbn [mode_of r_layer r_path] in *.
    unfold bind at 1 in Hrun.
    assert (Hrd : real_tree s2 lr = Some (File fi fm fd fx)).
    { rewrite (lower_real_tree s1 s2 lr Hlrlow Hlow2). exact Hrt1. }
    rewrite Hrd in Hrun. unfold bind at 1 in Hrun.
    pose proof (h_insert_get _ _ _ _ _ Hcr) as Hget1.
    destruct (mutate 0 (h_setdata (pp ++ [nm]) (fun _ => fd)) s2) as [[[]|e] s3] eqn:Em.
    2:{ exfalso. unfold mutate in Em. cbn [get_layer] in Em. rewrite HU2 in Em. unfold h_setdata in Em. rewrite Hget1 in Em. discriminate. }
    destruct (mutate0_spec _ _ _ Em) as (U1' & U2 & HU2' & Hsd & HU3 & Hlow3 & Hroot3).
    rewrite HU2 in HU2'. inversion HU2'; subst U1'; clear HU2'.
    unfold h_setdata in Hsd. rewrite Hget1 in Hsd. inversion Hsd; subst U2; clear Hsd.
    unfold mod_node in Hrun. inversion Hrun; subst r s'; clear Hrun.
    (* first the state with the empty upper file, then the content *)
    set (ri := mkReal 0 true (pp ++ [nm]) false false false).
    set (smid := mkState (Some U1) (lowers s1) (nupd (pp ++ [nm]) (add_upper ri true) (root s1)) (next_ino s3) (log s3)).
    assert (Hmid : Coherent smid).
    { apply (cnu_leaf_tail s1 pp nm (File (next_ino s1) (N.land fm 4095) [] []) n (File fi fm fd fx) pn' pr prs U U1 smid); auto.
      repeat split; constructor. }
    split; [|split; [|split; [|split]]].
    + apply (coherent_shape_eq smid); cbn [upper lowers root].
      * intros i q. destruct i as [|j]; unfold shp, ent; cbn [get_layer upper lowers]; [|rewrite Hlow3, Hlow2; reflexivity].
        rewrite HU3. apply sh_tmap_ino. intros j m d x. cbn [set_data]. eauto.
      * rewrite Hroot3, Hroot2. reflexivity.
      * rewrite Hlow3, Hlow2. reflexivity.
      * apply (wf_layers_set_upper smid _ (tmap_ino (next_ino s1) (set_data (fun _ => fd)) U1) (proj1 (proj2 Hmid))); cbn [upper lowers]; [exact HU3|rewrite Hlow3, Hlow2; reflexivity|].
        destruct (proj1 (proj2 Hmid) 0%nat U1 eq_refl) as [W D]. split; [apply wf_tmap_ino; [|exact W]|].
        -- intros j m d x. cbn [set_data]. eauto.
        -- destruct U1; try discriminate. reflexivity.
      * rewrite HU3. eauto.
      * exact Hmid.
    + apply (same_paths_trans s s1 _); [exact SP1|]. intros q. cbn [root]. rewrite Hroot3, Hroot2.
      apply nget_nupd_sig with (n0 := n); [intros m0; reflexivity|exact Hn1|]. unfold nsig, add_upper; cbn. rewrite Elr. cbn. rewrite Hd0. reflexivity.
    + cbn [lowers]. congruence.
    + intros q Hq. cbn [root]. rewrite Hroot3, Hroot2, (nget_nupd_frame _ (pp ++ [nm])); [apply Fr1; exact Hq|intros m0; reflexivity|exact Hq].
    + intros _ n' Hn'. cbn [root] in Hn'. rewrite nget_nupd in Hn'. destruct (nget (pp ++ [nm]) (root s3)); cbn [option_map] in Hn'; [|discriminate].
      inversion Hn'; subst. reflexivity.
  - (* symbolic link *)
    unfold copy_symlink_up in Hrun. unfold bind at 1 in Hrun. unfold get_node at 1 in Hrun. rewrite Hg, Eup in Hrun.
    destruct (split_last p) as [[pp nm]|] eqn:Esp; [|exact (Keep _ Hrun)].
    pose proof (split_last_spec _ _ _ Esp) as Hp. rewrite Hp in *.
    unfold bind at 1 in Hrun. unfold first_real in Hrun. rewrite Elr in Hrun. cbn [ret] in Hrun.
    unfold bind at 1 in Hrun. unfold get_node at 1 in Hrun. destruct (nget pp (root s)) as [pn|] eqn:Hgp; [|exact (Keep _ Hrun)].
    unfold bind at 1 in Hrun.
    destruct ((if in_upper pn then ret tt else create_upper_dir (S (List.length pp)) pp) s) as [r1 s1] eqn:E1.
    destruct (Leaf (Lnk tg) (fun _ => ret tt) eq_refl (conj eq_refl (conj eq_refl (wf_lnk _))) pp nm eq_refl pn Hgp r1 s1 E1)
      as (HC1 & SP1 & Hlo1 & Fr1 & Hup1 & Hn1 & Hst1 & Hrt1).
    assert (Keep1 : forall e, (Err e, s1) = (r, s') ->
              Coherent s' /\ same_paths s s' /\ lowers s' = lowers s /\ cache_frame (pp ++ [nm]) s s' /\ (r = Ok tt -> upper_at' (pp ++ [nm]) s')).
    { intros e H. inversion H; subst. split; [exact HC1|]. split; [exact SP1|]. split; [exact Hlo1|]. split; [exact Fr1|discriminate]. }
    destruct r1 as [[]|e1]; [|exact (Keep1 _ Hrun)]. specialize (Hup1 eq_refl).
    unfold bind at 1 in Hrun. rewrite Hrt1 in Hrun.
    unfold bind at 1 in Hrun. unfold get_node at 1 in Hrun. destruct (nget pp (root s1)) as [pn'|] eqn:Hgp1; [|exact (Keep1 _ Hrun)].
    pose proof (Hup1 pn' Hgp1) as Hpu. unfold in_upper in Hpu.
    unfold bind at 1 in Hrun. unfold upper_real in Hrun.
    destruct (n_reals pn') as [|pr prs] eqn:Epr; [discriminate|]. rewrite Hpu in Hrun. cbn [ret] in Hrun.
    pose proof HC1 as (_ & Hw1 & HCT1). pose proof (HCT1 pp pn' Hgp1) as Npn.
    destruct (first_upper_stack s1 pp pn' pr prs Npn Epr Hpu) as (Hl0 & Hpp & rest & Hstk).
    unfold bind at 1 in Hrun.
    destruct (ri_symlink pr nm tg s1) as [[ri|e] s2] eqn:Ec.
    2:{ inversion Hrun; subst r s'.
        assert (Hs2 : s2 = s1).
        { unfold ri_symlink, ri_guard in Ec. rewrite Hpu in Ec. unfold bind at 1 in Ec. cbn [ret] in Ec. unfold bind at 1 in Ec.
          unfold mutate in Ec. rewrite Hl0 in Ec. cbn [get_layer upper] in Ec.
          destruct (upper s1) as [u1|]; [|inversion Ec; auto].
          destruct (h_symlink (r_path pr) nm tg u1); inversion Ec; auto. }
        subst s2. split; [exact HC1|]. split; [exact SP1|]. split; [exact Hlo1|]. split; [exact Fr1|discriminate]. }
    destruct (ri_symlink_spec _ _ _ _ _ _ Hpu Hl0 Ec) as (U & U1 & HU & Hcr & -> & HU2 & Hlow2 & Hroot2).
    rewrite Hpp in *.
    unfold mod_node in Hrun. inversion Hrun; subst r s'; clear Hrun.
    split; [|split; [|split; [|split]]].
    + apply (cnu_leaf_tail s1 pp nm (Lnk tg) n (Lnk tg) pn' pr prs U U1); auto.
      * repeat split; constructor.
      * cbn [root]. rewrite Hroot2. reflexivity.
    + apply (same_paths_trans s s1 _); [exact SP1|]. intros q. cbn [root]. rewrite Hroot2.
      apply nget_nupd_sig with (n0 := n); [intros m0; reflexivity|exact Hn1|]. unfold nsig, add_upper; cbn. rewrite Elr. cbn. rewrite Hd0. reflexivity.
    + cbn [lowers]. congruence.
    + intros q Hq. cbn [root]. rewrite Hroot2, (nget_nupd_frame _ (pp ++ [nm])); [apply Fr1; exact Hq|intros m0; reflexivity|exact Hq].
    + intros _ n' Hn'. cbn [root] in Hn'. rewrite nget_nupd in Hn'. destruct (nget (pp ++ [nm]) (root s2)); cbn [option_map] in Hn'; [|discriminate].
      inversion Hn'; subst. reflexivity.
Qed.

(* ------------------------------------------------------------------ steps that only load directories *)
Definition cpres {A} (m : M A) : Prop := forall s, Coherent s -> Coherent (snd (m s)).
Lemma cpres_same {A} (m : M A) : (forall s, snd (m s) = s) -> cpres m.
Proof. intros H s HC. rewrite H. exact HC. Qed.
Lemma cpres_bind {A B} (m : M A) (f : A -> M B) : cpres m -> (forall a, cpres (f a)) -> cpres (bind m f).
Proof.
  intros Hm Hf s HC. unfold bind. specialize (Hm s HC). destruct (m s) as [[a|e] s1]; cbn [snd] in *; [apply Hf; exact Hm|exact Hm].
Qed.
Lemma cpres_if {A} (b : bool) (m1 m2 : M A) : cpres m1 -> cpres m2 -> cpres (if b then m1 else m2).
Proof. destruct b; auto. Qed.
Lemma cpres_ret {A} (a : A) : cpres (ret a). Proof. apply cpres_same; reflexivity. Qed.
Lemma cpres_fail {A} e : cpres (@fail A e). Proof. apply cpres_same; reflexivity. Qed.
Lemma cpres_get_node p : cpres (get_node p).
Proof. apply cpres_same. intros s. unfold get_node. destruct (nget p (root s)); reflexivity. Qed.
Lemma cpres_stat_node n : cpres (stat_node n).
Proof. apply cpres_same. intros s. unfold stat_node. destruct (node_stat s n); reflexivity. Qed.
Lemma cpres_load_dir p : cpres (load_dir p).
Proof. intros s HC. apply load_dir_coherent. exact HC. Qed.
Lemma cpres_load_if_dir p n st : cpres (load_if_dir p n st).
Proof. unfold load_if_dir. apply cpres_if; [apply cpres_load_dir|apply cpres_ret]. Qed.
Lemma cpres_lookup_node p nm : cpres (lookup_node p nm).
Proof.
  unfold lookup_node. apply cpres_bind; [apply cpres_get_node|]. intros pn.
  apply cpres_if; [apply cpres_fail|]. apply cpres_bind; [apply cpres_stat_node|]. intros st.
  apply cpres_bind; [apply cpres_load_if_dir|]. intros _.
  destruct nm as [c|]; [|apply cpres_ret]. apply cpres_bind; [apply cpres_get_node|]. intros pn'.
  destruct (afind c (n_ch pn')); [apply cpres_ret|apply cpres_fail].
Qed.
Lemma cpres_lookup_ignore p nm : cpres (lookup_node_ignore_enoent p nm).
Proof.
  intros s HC. pose proof (cpres_lookup_node p (Some nm) s HC) as H. unfold lookup_node_ignore_enoent.
  destruct (lookup_node p (Some nm) s) as [[q|e] s1]; cbn [snd] in *; [exact H|]. destruct (e =? ENOENT)%N; exact H.
Qed.
Lemma cpres_do_lookup p nm : cpres (do_lookup p nm).
Proof.
  unfold do_lookup. apply cpres_bind; [apply cpres_lookup_node|]. intros q.
  apply cpres_bind; [apply cpres_get_node|]. intros n. apply cpres_if; [apply cpres_fail|].
  apply cpres_bind; [apply cpres_stat_node|]. intros st.
  apply cpres_bind; [apply cpres_load_if_dir|]. intros _. apply cpres_ret.
Qed.
Lemma cpres_walk_from p : forall cur, cpres (walk_from cur p).
Proof.
  induction p as [|c p IH]; intros cur; cbn [walk_from]; [apply cpres_ret|].
  apply cpres_bind; [apply cpres_do_lookup|]. intros _. apply IH.
Qed.
Lemma cpres_walk p : cpres (walk p). Proof. apply cpres_walk_from. Qed.
Lemma cpres_with_parent {A} p (f : path -> name -> M A) : (forall pp nm, cpres (f pp nm)) -> cpres (with_parent p f).
Proof.
  intros H. unfold with_parent. destruct (split_last p) as [[pp nm]|]; [|apply cpres_fail].
  apply cpres_bind; [apply cpres_walk|]. intros _. apply H.
Qed.
Lemma cpres_entry_of pp nm : cpres (entry_of pp nm).
Proof. unfold entry_of. apply cpres_bind; [apply cpres_do_lookup|]. intros e. apply cpres_ret. Qed.
Lemma cpres_sync_parent pp : cpres (sync_parent pp).
Proof.
  unfold sync_parent. apply cpres_bind; [apply cpres_lookup_node|]. intros _.
  apply cpres_bind; [apply cpres_get_node|]. intros pn. apply cpres_if; [apply cpres_fail|apply cpres_ret].
Qed.
Lemma cpres_need_upper : cpres need_upper.
Proof. apply cpres_same. intros s. unfold need_upper, bind, has_upper. destruct (upper s); reflexivity. Qed.
Lemma cpres_node_checked p : cpres (node_checked p).
Proof.
  unfold node_checked. apply cpres_bind; [apply cpres_lookup_node|]. intros _.
  apply cpres_bind; [apply cpres_get_node|]. intros n. apply cpres_if; [apply cpres_fail|apply cpres_ret].
Qed.

(* what lookup_node_ignore_enoent tells about the parent afterwards *)
Lemma lookup_ignore_spec (pp : path) (nm : name) s pn r s1 :
  Coherent s -> nget pp (root s) = Some pn -> n_wh pn = false ->
  lookup_node_ignore_enoent pp nm s = (r, s1) ->
  Coherent s1 /\ upper s1 = upper s /\ lowers s1 = lowers s /\
  exists pn1, nget pp (root s1) = Some pn1 /\ n_wh pn1 = false /\
    (n_loaded pn1 = true \/ first_dir (n_reals pn1) = false) /\
    match r with
    | Ok None => afind nm (n_ch pn1) = None
    | Ok (Some q) => q = pp ++ [nm] /\ exists c, afind nm (n_ch pn1) = Some c
    | Err _ => True
    end.
Proof.
  intros HC Hg Hw Hrun.
  pose proof (cpres_lookup_ignore pp nm s HC) as HC1. rewrite Hrun in HC1. cbn [snd] in HC1.
  destruct (keeps_lookup_node pp (Some nm) s) as (K1 & K2 & _).
  assert (Hs1 : snd (lookup_node pp (Some nm) s) = s1).
  { unfold lookup_node_ignore_enoent in Hrun. destruct (lookup_node pp (Some nm) s) as [[q|e] s0]; cbn [snd].
    - inversion Hrun; reflexivity.
    - destruct (e =? ENOENT)%N; inversion Hrun; reflexivity. }
  rewrite Hs1 in K1, K2. split; [exact HC1|]. split; [exact K1|]. split; [exact K2|].
  (* run lookup_node by hand *)
  unfold lookup_node_ignore_enoent in Hrun. unfold lookup_node in Hrun.
  unfold bind at 1 in Hrun. unfold get_node at 1 in Hrun. rewrite Hg, Hw in Hrun.
  unfold bind at 1 in Hrun. unfold stat_node in Hrun. destruct (node_stat s pn) as [st|] eqn:Hst.
  2:{ exfalso. destruct HC as (_ & _ & HCT). destruct (first_good_stat s _ pp pn (HCT pp pn Hg)) as (? & ? & ? & _ & _ & H & _). congruence. }
  unfold bind at 1 in Hrun.
  destruct (load_if_dir pp pn st s) as [[[]|e] s0] eqn:El.
  2:{ exfalso. unfold load_if_dir in El. destruct (is_dirT st) eqn:Ed; cbn [andb] in El; [|inversion El].
      destruct (n_loaded pn) eqn:Eld; cbn [negb] in El; [inversion El|].
      unfold load_dir, bind, get_node in El. rewrite Hg, Eld in El.
      destruct HC as (_ & Hwl & HCT). destruct st; try discriminate.
      destruct (scan_ok s (wf_layers_wf s Hwl) _ pp pn _ _ _ (HCT pp pn Hg) Hst) as [cs Hcs]. rewrite Hcs in El.
      unfold mod_node in El. inversion El. }
  assert (Hfd : first_dir (n_reals pn) = is_dirT st).
  { destruct HC as (_ & _ & HCT). destruct (first_good_stat s _ pp pn (HCT pp pn Hg)) as (r0 & rs0 & t0 & Er0 & _ & Hs0 & _ & Hd0 & _).
    rewrite Hst in Hs0. inversion Hs0; subst t0. rewrite Er0. exact Hd0. }
  assert (Hpn1 : exists pn1, nget pp (root s0) = Some pn1 /\ n_wh pn1 = false /\ (n_loaded pn1 = true \/ first_dir (n_reals pn1) = false)).
  { unfold load_if_dir in El. destruct (is_dirT st) eqn:Ed; cbn [andb] in El.
    - destruct (n_loaded pn) eqn:Eld; cbn [negb] in El; [inversion El; subst; exists pn; auto|].
      unfold load_dir, bind, get_node in El. rewrite Hg, Eld in El.
      destruct (scan_children s pn) as [cs|] eqn:Esc; [|inversion El]. unfold mod_node in El. inversion El; subst. cbn [root].
      rewrite nget_nupd, Hg. cbn [option_map]. eexists. split; [reflexivity|]. destruct (load1_reals s pn) as [_ W]. rewrite W.
      split; [exact Hw|]. left. unfold load1. rewrite Eld, Esc. reflexivity.
    - inversion El; subst. exists pn. split; [exact Hg|]. split; [exact Hw|]. right. exact Hfd. }
  destruct Hpn1 as (pn1 & Hg1 & Hw1 & Hld1).
  unfold bind at 1 in Hrun. unfold get_node at 1 in Hrun. rewrite Hg1 in Hrun.
  exists pn1. destruct (afind nm (n_ch pn1)) as [c|] eqn:Ec; cbn in Hrun; inversion Hrun; subst; eauto 10.
Qed.

(* ------------------------------------------------------------------ composing updates of one directory of the upper tree *)
Lemma chmap_chmap G1 G2 d : chmap G2 (chmap G1 d) = chmap (fun ch => G2 (G1 ch)) d.
Proof. destruct d; reflexivity. Qed.
Lemma dir_ins_chmap nm c d : dir_ins nm c d = chmap (aset nm c) d. Proof. destruct d; reflexivity. Qed.
Lemma dir_del_chmap nm d : dir_del nm d = chmap (adel nm) d. Proof. destruct d; reflexivity. Qed.

Lemma nget_snoc (pp : path) (nm : name) r pn c : nget pp r = Some pn -> afind nm (n_ch pn) = Some c -> nget (pp ++ [nm]) r = Some c.
Proof.
  revert r. induction pp as [|a pp IH]; intros r Hp Hc; cbn [nget app] in *.
  - inversion Hp; subst. rewrite Hc. reflexivity.
  - destruct (afind a (n_ch r)); [eapply IH; eassumption|discriminate].
Qed.
Lemma nget_snoc_none (pp : path) (nm : name) r pn : nget pp r = Some pn -> afind nm (n_ch pn) = None -> nget (pp ++ [nm]) r = None.
Proof.
  revert r. induction pp as [|a pp IH]; intros r Hp Hc; cbn [nget app] in *.
  - inversion Hp; subst. rewrite Hc. reflexivity.
  - destruct (afind a (n_ch r)); [eapply IH; eassumption|discriminate].
Qed.

(* ------------------------------------------------------------------ do_mkdir *)
Lemma mutate0_same f s e s3 : mutate 0 f s = (Err e, s3) -> s3 = s.
Proof.
  unfold mutate. cbn [get_layer]. destruct (upper s) as [t|]; [|intros H; inversion H; reflexivity].
  destruct (f t); intros H; inversion H; reflexivity.
Qed.
Lemma ri_mkdir_fail pr nm m s e s2 : r_layer pr = 0%nat -> ri_mkdir pr nm m s = (Err e, s2) -> s2 = s.
Proof.
  intros Hl. unfold ri_mkdir, ri_guard. destruct (r_upper pr); [|intros H; inversion H; reflexivity].
  unfold bind at 1. cbn [ret]. unfold bind at 1. rewrite Hl.
  destruct (mutate 0 (h_mkdir (r_path pr) nm m) s) as [[[]|e'] s3] eqn:Em; [intros H; inversion H|].
  intros H; inversion H; subst. eapply mutate0_same; exact Em.
Qed.
Definition OPQV : bytes := [121%N].
Lemma xs_opaque_marker : xs_opaque [(OPQ1, OPQV)] = true.
Proof. reflexivity. Qed.

Lemma upper_set_layer s U t : upper s = Some U -> upper (set_layer s 0 t) = Some t.
Proof. intros H. unfold set_layer; cbn. rewrite H. reflexivity. Qed.
Lemma mutate0_ok f s U U' : upper s = Some U -> f U = Ok U' -> mutate 0 f s = (Ok tt, set_layer s 0 U').
Proof. intros Hu Hf. unfold mutate. cbn [get_layer]. rewrite Hu, Hf. reflexivity. Qed.

Definition mkdir_tail (pp : path) (nm : name) (mode : N) (pr : real) (delw opq : bool) : M unit :=
  (if delw then delete_whiteout_ignored pr nm else ret tt);;;
  ri <- ri_mkdir pr nm mode;;
  (if opq then mutate (r_layer pr) (h_set_opaque (r_path ri)) else ret tt);;;
  insert_child pp nm (new_node ri).

Lemma mkdir_tail_coherent s2 (pp : path) (nm : name) mode pr prs pn2 u2 m x ch rest delw opq r s' :
  Coherent s2 -> upper s2 = Some u2 -> tget u2 pp = Some (Dir m x ch) ->
  nget pp (root s2) = Some pn2 -> n_reals pn2 = pr :: prs -> r_upper pr = true -> r_layer pr = 0%nat -> r_path pr = pp ->
  n_loaded pn2 = true -> lstack (shp s2) (List.length (lowers s2)) pp = 0%nat :: rest ->
  match afind nm ch with
  | Some Wh => delw = true /\ opq = true
  | None => delw = false /\ (opq = true \/ lowerc (shp s2) pp nm rest = [])
  | _ => False
  end ->
  mkdir_tail pp nm mode pr delw opq s2 = (r, s') -> Coherent s'.
Proof.
  intros HC2 Hu2 Etg Hg2 Epr Hpu Hl0 Hpp Hld2 Hstk Hcase Hrun.
  set (c0 := Dir (N.land mode 1023) [] []).
  pose proof HC2 as (_ & Hwl2 & HCT2).
  (* the upper tree after the optional removal of the whiteout *)
  set (Ua := if delw then tupd pp (dir_del nm) u2 else u2).
  set (chA := if delw then adel nm ch else ch).
  assert (Hs3 : exists s3, (if delw then delete_whiteout_ignored pr nm else ret tt) s2 = (Ok tt, s3) /\
                 upper s3 = Some Ua /\ lowers s3 = lowers s2 /\ root s3 = root s2 /\
                 tget Ua pp = Some (Dir m x chA) /\ afind nm chA = None).
  { unfold chA. destruct (afind nm ch) as [[| | |]|] eqn:Enm; try contradiction.
    - destruct Hcase as [-> _]. unfold Ua. eexists. split; [|split; [|split; [|split; [|split]]]].
      + unfold delete_whiteout_ignored, ignore. rewrite Hl0, Hpp.
        rewrite (mutate0_ok (h_delete_whiteout pp nm) s2 u2 (tupd pp (dir_del nm) u2) Hu2); [reflexivity|].
        unfold h_delete_whiteout. rewrite (tget_app u2 pp nm), Etg, Enm. unfold h_unlink. rewrite Etg, Enm. reflexivity.
      + apply (upper_set_layer _ u2). exact Hu2.
      + reflexivity.
      + reflexivity.
      + rewrite tget_tupd, Etg. reflexivity.
      + rewrite afind_adel, String.eqb_refl. reflexivity.
    - destruct Hcase as [-> _]. unfold Ua. exists s2. cbn [ret]. repeat split; auto. }
  destruct Hs3 as (s3 & E3 & Hu3 & Hl3 & Hr3 & Etg3 & Enm3).
  unfold mkdir_tail in Hrun. unfold bind at 1 in Hrun. rewrite E3 in Hrun.
  (* mkdir *)
  set (Ub := tupd pp (dir_ins nm c0) Ua).
  assert (E4 : ri_mkdir pr nm mode s3 = (Ok (mkReal 0 true (pp ++ [nm]) false false true), set_layer s3 0 Ub)).
  { unfold ri_mkdir, ri_guard. rewrite Hpu. unfold bind at 1. cbn [ret]. unfold bind at 1. rewrite Hl0, Hpp.
    rewrite (mutate0_ok (h_mkdir pp nm mode) s3 Ua Ub Hu3); [reflexivity|].
    unfold h_mkdir, h_insert. rewrite Etg3, Enm3. reflexivity. }
  unfold bind at 1 in Hrun. rewrite E4 in Hrun. cbn [r_path] in Hrun.
  set (s4 := set_layer s3 0 Ub) in *.
  assert (Hu4 : upper s4 = Some Ub) by (apply (upper_set_layer _ Ua); exact Hu3).
  assert (Hget4 : tget Ub (pp ++ [nm]) = Some c0).
  { unfold Ub. rewrite (tget_app _ pp nm), tget_tupd, Etg3. cbn [option_map dir_ins]. apply afind_aset_same. }
  set (fx := set_xs OPQ1 OPQV).
  set (Uc := if opq then tupd (pp ++ [nm]) fx Ub else Ub).
  assert (Hs5 : exists s5, (if opq then mutate (r_layer pr) (h_set_opaque (pp ++ [nm])) else ret tt) s4 = (Ok tt, s5) /\
                 upper s5 = Some Uc /\ lowers s5 = lowers s2 /\ root s5 = root s2).
  { unfold Uc. destruct opq.
    - eexists. split; [|split; [|split]].
      + rewrite Hl0. apply (mutate0_ok (h_set_opaque (pp ++ [nm])) s4 Ub (tupd (pp ++ [nm]) fx Ub) Hu4). unfold h_set_opaque. rewrite Hget4. unfold c0 at 1.
        unfold h_setxattr, h_update. rewrite Hget4. unfold c0 at 1. reflexivity.
      + apply (upper_set_layer _ Ub). exact Hu4.
      + cbn [lowers set_layer s4]. exact Hl3.
      + cbn [root set_layer s4]. exact Hr3.
    - exists s4. cbn [ret]. repeat split; auto. }
  destruct Hs5 as (s5 & E5 & Hu5 & Hl5 & Hr5).
  unfold bind at 1 in Hrun. rewrite E5 in Hrun. unfold insert_child, mod_node in Hrun. inversion Hrun; subst r s'; clear Hrun.
  (* the final upper tree as one update of the directory pp *)
  set (cfin := if opq then fx c0 else c0).
  set (G := fun l : list (name * tree) =>
              (if opq then amap nm fx else (fun y => y)) (aset nm c0 ((if delw then adel nm else (fun y => y)) l))).
  assert (HUc : Uc = tupd pp (chmap G) u2).
  { unfold Uc, Ub, Ua, G. destruct opq, delw; rewrite ?tupd_snoc, ?tupd_tupd; apply tupd_ext; intros d; destruct d; reflexivity. }
  assert (HG1 : forall k, k <> nm -> afind k (G ch) = afind k ch).
  { intros k Hk. apply String.eqb_neq in Hk. unfold G. destruct opq, delw; rewrite ?afind_amap_other by (rewrite String.eqb_sym; exact Hk);
      rewrite afind_aset, Hk, ?afind_adel, ?Hk; reflexivity. }
  assert (HG2 : afind nm (G ch) = Some cfin).
  { unfold G, cfin. destruct opq, delw; rewrite ?afind_amap, afind_aset, String.eqb_refl; reflexivity. }
  apply (leaf_block s2 _ u2 pp nm G cfin pn2 rest m x ch (mkReal 0 true (pp ++ [nm]) false false true)).
  - exact HC2.
  - exact Hu2.
  - exact Etg.
  - exact HG1.
  - exact HG2.
  - intros k r0. unfold cfin, c0, fx. destruct opq; reflexivity.
  - cbn [upper]. rewrite Hu5, HUc. reflexivity.
  - cbn [lowers]. exact Hl5.
  - apply (wf_layers_set_upper s2 _ (tupd pp (chmap G) u2) Hwl2); cbn [upper lowers]; [rewrite Hu5, HUc; reflexivity|exact Hl5|].
    apply layer_ok_tupd.
    + intros d Hd. destruct d; try exact Hd. inversion Hd as [? ? ? Hn Hall| | |]; subst. cbn [chmap]. unfold G.
      assert (W0 : NoDup (map fst (aset nm c0 ((if delw then adel nm else fun y => y) ch0))) /\
                   Forall (fun kv => wf (snd kv)) (aset nm c0 ((if delw then adel nm else fun y => y) ch0))).
      { split.
        - apply keys_aset. destruct delw; [apply keys_adel_nodup|]; exact Hn.
        - apply Forall_aset; [destruct delw; [apply Forall_adel|]; exact Hall|]. cbn [snd]. constructor; constructor. }
      destruct W0 as [W1 W2]. constructor.
      * destruct opq; [rewrite keys_amap|]; exact W1.
      * destruct opq; [|exact W2]. apply (Forall_snd_amap (fun v => wf v)); [|exact W2]. intros a Ha. unfold fx. destruct a; cbn [set_xs]; try exact Ha.
        -- inversion Ha; subst. constructor; assumption.
        -- constructor.
    + intros d Hd. destruct d; try discriminate. reflexivity.
    + apply (Hwl2 0%nat u2). cbn. exact Hu2.
  - exact Hg2.
  - exact Hld2.
  - exact Hstk.
  - cbn [r_layer r_upper r_path r_wh r_dir r_opq]. unfold cfin, c0, fx. destruct opq; cbn; repeat split; auto; discriminate.
  - unfold cfin, c0, fx.
    destruct (afind nm ch) as [[| | |]|] eqn:Enm; try contradiction.
    + destruct Hcase as [_ ->]. right. left. reflexivity.
    + destruct Hcase as [_ [->|H]]; [right; left; reflexivity|right; right; exact H].
  - exists (set_child nm (new_node (mkReal 0 true (pp ++ [nm]) false false true))).
    split; [cbn [root]; rewrite Hr5; reflexivity|]. unfold set_child; cbn [n_reals n_wh n_loaded n_ch].
    pose proof (HCT2 pp pn2 Hg2) as Npn2. repeat split; auto.
    + apply keys_aset. apply Npn2.
    + rewrite afind_aset, String.eqb_refl. reflexivity.
    + intros k Hk. rewrite afind_aset. apply String.eqb_neq in Hk. rewrite Hk. reflexivity.
Qed.

Lemma shp_zero_dir s u p o : upper s = Some u -> shp s 0%nat p = Some (SDir o) -> exists m x ch, tget u p = Some (Dir m x ch).
Proof.
  intros Hu H. unfold shp, ent in H. cbn [get_layer] in H. rewrite Hu in H.
  destruct (tget u p) as [[m x ch| | |]|]; cbn in H; try discriminate. eauto.
Qed.

Lemma tget_snoc t (p : path) (k : name) : tget t (p ++ [k]) = match tget t p with Some (Dir _ _ ch) => afind k ch | _ => None end.
Proof. apply tget_app. Qed.
Lemma cpres_do_mkdir (pp : path) (nm : name) mode : cpres (do_mkdir pp nm mode).
Proof.
  intros s HC. destruct (do_mkdir pp nm mode s) as [r s'] eqn:Hrun. cbn [snd].
  unfold do_mkdir in Hrun.
  pose proof HC as ([u Hu] & Hwl & HCT).
  unfold bind at 1 in Hrun. unfold need_upper in Hrun. unfold bind at 1 in Hrun. unfold has_upper in Hrun. rewrite Hu in Hrun. cbn [ret] in Hrun.
  unfold bind at 1 in Hrun. unfold get_node at 1 in Hrun. destruct (nget pp (root s)) as [pn|] eqn:Hg; [|inversion Hrun; subst; exact HC].
  destruct (n_wh pn) eqn:Ew; [inversion Hrun; subst; exact HC|].
  unfold bind at 1 in Hrun. destruct (lookup_node_ignore_enoent pp nm s) as [rf s1] eqn:Elk.
  destruct (lookup_ignore_spec pp nm s pn rf s1 HC Hg Ew Elk) as (HC1 & Hu1 & Hl1 & pn1 & Hg1 & Hw1 & Hld1 & Hfound).
  destruct rf as [found|e]; [|inversion Hrun; subst; exact HC1].
  unfold bind at 1 in Hrun.
  set (flagsM := match found with
           | Some q => n <- get_node q;; (if negb (n_wh n) then fail EEXIST else ret (in_upper n, true))
           | None => ret (false, false) end) in Hrun.
  destruct (flagsM s1) as [[[delw opq]|e] s1'] eqn:Efl.
  2:{ assert (s1' = s1).
      { unfold flagsM in Efl. destruct found as [q|]; [|inversion Efl].
        unfold bind, get_node in Efl. destruct (nget q (root s1)); [|inversion Efl; reflexivity].
        destruct (negb (n_wh n)); inversion Efl; reflexivity. }
      subst s1'. inversion Hrun; subst. exact HC1. }
  assert (Hfl : s1' = s1 /\
     match found with
     | None => delw = false /\ opq = false /\ afind nm (n_ch pn1) = None
     | Some q => exists c, afind nm (n_ch pn1) = Some c /\ n_wh c = true /\ delw = in_upper c /\ opq = true
     end).
  { unfold flagsM in Efl. destruct found as [q|].
    - destruct Hfound as (-> & c & Hc). unfold bind, get_node in Efl. rewrite (nget_snoc pp nm (root s1) pn1 c Hg1 Hc) in Efl.
      destruct (n_wh c) eqn:Ewc; cbn [negb] in Efl; inversion Efl; subst. split; [reflexivity|]. eauto 10.
    - inversion Efl; subst. auto. }
  destruct Hfl as (-> & Hfl). clear Efl flagsM.
  unfold bind at 1 in Hrun. destruct (copy_node_up pp s1) as [rc s2] eqn:Ecu.
  destruct (cnu_coherent pp s1 rc s2 HC1) as (HC2 & SP2 & Hl2 & Fr2 & Hup2); [intros n0 Hn0; rewrite Hg1 in Hn0; inversion Hn0; subst; exact Hw1|exact Ecu|].
  destruct rc as [[]|e]; [|inversion Hrun; subst; exact HC2]. specialize (Hup2 eq_refl).
  unfold bind at 1 in Hrun. unfold get_node at 1 in Hrun.
  destruct (same_paths_some s1 s2 pp pn1 SP2 Hg1) as (pn2 & Hg2 & Hsig2). rewrite Hg2 in Hrun.
  pose proof (Hup2 pn2 Hg2) as Hpu. unfold in_upper in Hpu. unfold bind at 1 in Hrun. unfold upper_real in Hrun.
  destruct (n_reals pn2) as [|pr prs] eqn:Epr; [discriminate|]. rewrite Hpu in Hrun. cbn [ret] in Hrun.
  pose proof HC2 as ([u2 Hu2] & Hwl2 & HCT2). pose proof (HCT2 pp pn2 Hg2) as Npn2. cbn [app] in Npn2.
  destruct (first_upper_stack s2 pp pn2 pr prs Npn2 Epr Hpu) as (Hl0 & Hpp & rest & Hstk).
  change (mkdir_tail pp nm mode pr delw opq s2 = (r, s')) in Hrun.
  assert (Hq2 : nget (pp ++ [nm]) (root s2) = nget (pp ++ [nm]) (root s1)) by (apply Fr2; apply not_prefix_snoc).
  assert (Hrg : rgood (shp s2) pp pr) by (pose proof (ok_reals _ _ _ _ Npn2) as G; rewrite Epr in G; inversion G; assumption).
  destruct (tget u2 pp) as [[m x ch| | |]|] eqn:Etg.
  - (* the parent is a directory in the upper layer *)
    pose proof (sh_dir_of_tget s2 u2 pp m x ch Hu2 Etg) as Hpd.
    assert (Hfd2 : first_dir (n_reals pn2) = true).
    { destruct Hrg as (_ & _ & Hs). rewrite Hl0, Hpd in Hs. rewrite Epr. cbn. tauto. }
    assert (Hld2 : n_loaded pn2 = true).
    { unfold nsig in Hsig2. inversion Hsig2 as [[A B]]. rewrite A. destruct Hld1 as [H|H]; [exact H|]. congruence. }
    destruct (ok_ld _ _ _ _ Npn2 Hld2) as (_ & _ & Kids).
    assert (Hag0 : forall i p', ~ is_prefix (pp ++ [nm]) p' -> shp s2 i p' = shp s2 i p') by reflexivity.
    pose proof (kids_old (shp s2) (shp s2) (List.length (lowers s2)) pp nm Hag0 (fun j p' => eq_refl) rest _ Hstk Hpd) as Ko.
    apply (mkdir_tail_coherent s2 pp nm mode pr prs pn2 u2 m x ch rest delw opq r s'); auto.
    destruct found as [q|].
    + destruct Hfl as (c & Hc & Hwc & -> & ->).
      pose proof (nget_snoc pp nm (root s1) pn1 c Hg1 Hc) as Hqc. rewrite <- Hq2 in Hqc.
      pose proof (HCT2 _ _ Hqc) as Nc. cbn [app] in Nc.
      destruct (first_good_stat s2 _ _ c Nc) as (rw & rws & tw & Erw & Etw & _ & Hwt & _ & Hpw).
      assert (Htw : tw = Wh).
      { pose proof (ok_wh _ _ _ _ Nc) as W. rewrite Erw in W. cbn in W. rewrite Hwc in W. rewrite <- W in Hwt.
        destruct tw; try discriminate. reflexivity. }
      subst tw. unfold in_upper. rewrite Erw.
      pose proof (ok_reals _ _ _ _ Nc) as G. rewrite Erw in G. pose proof (Forall_inv G) as (_ & Hupw & _).
      destruct (r_upper rw) eqn:Euw.
      * symmetry in Hupw. apply Nat.eqb_eq in Hupw. rewrite Hupw in Etw. unfold ent in Etw. cbn [get_layer] in Etw. rewrite Hu2 in Etw.
        rewrite (tget_snoc u2 pp nm), Etg in Etw. rewrite Etw. auto.
      * (* the whiteout is in a lower layer: the upper layer has no entry of that name *)
        symmetry in Hupw. apply Nat.eqb_neq in Hupw.
        destruct (afind nm ch) as [y|] eqn:Ey; [|auto].
        exfalso. pose proof (ok_hd _ _ _ _ Nc) as Hh. rewrite Erw in Hh. cbn [map hd_error] in Hh.
        rewrite lstack_snoc, Ko in Hh.
        assert (Hp0 : present (shp s2) (pp ++ [nm]) 0%nat = true).
        { unfold present, shp, ent. cbn [get_layer]. rewrite Hu2, (tget_snoc u2 pp nm), Etg, Ey. reflexivity. }
        rewrite Hp0 in Hh. cbn in Hh. inversion Hh. congruence.
    + destruct Hfl as (-> & -> & Hnone).
      assert (Hn2 : afind nm (n_ch pn2) = None).
      { destruct (afind nm (n_ch pn2)) as [c2|] eqn:E2; [|reflexivity].
        pose proof (nget_snoc pp nm (root s2) pn2 c2 Hg2 E2) as H2. rewrite Hq2, (nget_snoc_none pp nm (root s1) pn1 Hg1 Hnone) in H2. discriminate. }
      apply Kids in Hn2. rewrite Ko in Hn2. apply app_eq_nil in Hn2. destruct Hn2 as [Hp0 Hlc].
      destruct (afind nm ch) as [y|] eqn:Ey.
      * exfalso. assert (Hp1 : present (shp s2) (pp ++ [nm]) 0%nat = true).
        { unfold present, shp, ent. cbn [get_layer]. rewrite Hu2, (tget_snoc u2 pp nm), Etg, Ey. reflexivity. }
        rewrite Hp1 in Hp0. discriminate.
      * split; [reflexivity|right; exact Hlc].
  - (* the parent's upper entry is not a directory: nothing can be created below it, nothing is removed *)
    assert (found = None).
    { destruct found as [q|]; [|reflexivity]. exfalso. destruct Hfl as (c & Hc & _).
      destruct Hrg as (_ & _ & Hs). rewrite Hl0 in Hs. unfold shp, ent in Hs. cbn [get_layer] in Hs. rewrite Hu2, Etg in Hs. cbn in Hs.
      pose proof (nget_snoc pp nm (root s1) pn1 c Hg1 Hc) as Hqc. rewrite <- Hq2 in Hqc.
      pose proof (nget_child pp nm (root s2) pn2 c Hg2 Hqc) as Hch.
      assert (Hld2 : n_loaded pn2 = true).
      { destruct (n_loaded pn2) eqn:El; [reflexivity|]. rewrite (ok_unl _ _ _ _ Npn2 El) in Hch. discriminate. }
      destruct (ok_ld _ _ _ _ Npn2 Hld2) as (_ & Fd & _). rewrite Epr in Fd. cbn in Fd. destruct Hs as (_ & Hd & _). congruence. }
    subst found. destruct Hfl as (-> & -> & _). unfold mkdir_tail in Hrun. unfold bind at 1 in Hrun. cbn [ret] in Hrun.
    unfold bind at 1 in Hrun. destruct (ri_mkdir pr nm mode s2) as [[ri|e] s3] eqn:Emk.
    + exfalso. destruct (ri_mkdir_spec _ _ _ _ _ _ Hpu Hl0 Emk) as (U & U1 & HU & Hmk & _). rewrite Hu2 in HU. inversion HU; subst U.
      rewrite Hpp in Hmk. unfold h_mkdir, h_insert in Hmk. rewrite Etg in Hmk. discriminate.
    + pose proof (ri_mkdir_fail pr nm mode s2 e s3 Hl0 Emk) as Hs3. subst s3. inversion Hrun; subst. exact HC2.
  -     assert (found = None).
    { destruct found as [q|]; [|reflexivity]. exfalso. destruct Hfl as (c & Hc & _).
      destruct Hrg as (_ & _ & Hs). rewrite Hl0 in Hs. unfold shp, ent in Hs. cbn [get_layer] in Hs. rewrite Hu2, Etg in Hs. cbn in Hs.
      pose proof (nget_snoc pp nm (root s1) pn1 c Hg1 Hc) as Hqc. rewrite <- Hq2 in Hqc.
      pose proof (nget_child pp nm (root s2) pn2 c Hg2 Hqc) as Hch.
      assert (Hld2 : n_loaded pn2 = true).
      { destruct (n_loaded pn2) eqn:El; [reflexivity|]. rewrite (ok_unl _ _ _ _ Npn2 El) in Hch. discriminate. }
      destruct (ok_ld _ _ _ _ Npn2 Hld2) as (_ & Fd & _). rewrite Epr in Fd. cbn in Fd. destruct Hs as (_ & Hd & _). congruence. }
    subst found. destruct Hfl as (-> & -> & _). unfold mkdir_tail in Hrun. unfold bind at 1 in Hrun. cbn [ret] in Hrun.
    unfold bind at 1 in Hrun. destruct (ri_mkdir pr nm mode s2) as [[ri|e] s3] eqn:Emk.
    + exfalso. destruct (ri_mkdir_spec _ _ _ _ _ _ Hpu Hl0 Emk) as (U & U1 & HU & Hmk & _). rewrite Hu2 in HU. inversion HU; subst U.
      rewrite Hpp in Hmk. unfold h_mkdir, h_insert in Hmk. rewrite Etg in Hmk. discriminate.
    + pose proof (ri_mkdir_fail pr nm mode s2 e s3 Hl0 Emk) as Hs3. subst s3. inversion Hrun; subst. exact HC2.
  -     assert (found = None).
    { destruct found as [q|]; [|reflexivity]. exfalso. destruct Hfl as (c & Hc & _).
      destruct Hrg as (_ & _ & Hs). rewrite Hl0 in Hs. unfold shp, ent in Hs. cbn [get_layer] in Hs. rewrite Hu2, Etg in Hs. cbn in Hs.
      pose proof (nget_snoc pp nm (root s1) pn1 c Hg1 Hc) as Hqc. rewrite <- Hq2 in Hqc.
      pose proof (nget_child pp nm (root s2) pn2 c Hg2 Hqc) as Hch.
      assert (Hld2 : n_loaded pn2 = true).
      { destruct (n_loaded pn2) eqn:El; [reflexivity|]. rewrite (ok_unl _ _ _ _ Npn2 El) in Hch. discriminate. }
      destruct (ok_ld _ _ _ _ Npn2 Hld2) as (_ & Fd & _). rewrite Epr in Fd. cbn in Fd. destruct Hs as (_ & Hd & _). congruence. }
    subst found. destruct Hfl as (-> & -> & _). unfold mkdir_tail in Hrun. unfold bind at 1 in Hrun. cbn [ret] in Hrun.
    unfold bind at 1 in Hrun. destruct (ri_mkdir pr nm mode s2) as [[ri|e] s3] eqn:Emk.
    + exfalso. destruct (ri_mkdir_spec _ _ _ _ _ _ Hpu Hl0 Emk) as (U & U1 & HU & Hmk & _). rewrite Hu2 in HU. inversion HU; subst U.
      rewrite Hpp in Hmk. unfold h_mkdir, h_insert in Hmk. rewrite Etg in Hmk. discriminate.
    + pose proof (ri_mkdir_fail pr nm mode s2 e s3 Hl0 Emk) as Hs3. subst s3. inversion Hrun; subst. exact HC2.
  - exfalso. destruct Hrg as (_ & _ & Hs). rewrite Hl0 in Hs. unfold shp, ent in Hs. cbn [get_layer] in Hs. rewrite Hu2, Etg in Hs. exact Hs.
Qed.

(* ------------------------------------------------------------------ whole steps *)
Lemma load_node_CohT s nl (Hwf : forall i t, get_layer s i = Some t -> wf t) f : forall p n,
  CohT (shp s) nl p n -> CohT (shp s) nl p (load_node f s n).
Proof.
  induction f as [|f IH]; intros p n HC; cbn [load_node]; [exact HC|].
  destruct (n_wh n); [exact HC|]. destruct (node_stat s n) as [[m x ch| | |]|]; try exact HC.
  pose proof (load1_CohT s Hwf nl p n HC) as H1. set (n1 := load1 s n) in *.
  apply CohT_intro.
  - eapply NodeOK_shape; [| | | |apply (CohT_node _ _ _ _ H1)]; cbn [n_reals n_wh n_loaded n_ch]; try reflexivity.
    rewrite map_map. reflexivity.
  - cbn [n_ch]. intros k c Hk. rewrite afind_map_snd' in Hk. destruct (afind k (n_ch n1)) as [c0|] eqn:E; cbn [option_map] in Hk; [|discriminate].
    inversion Hk; subst c. apply IH. eapply CohT_child; eassumption.
Qed.
Lemma load_all_coherent s : Coherent s -> Coherent (load_all s).
Proof.
  intros (Hu & Hw & HC). unfold load_all. split; [exact Hu|]. split; [exact Hw|]. cbn [root lowers].
  change (shp (mkState (upper s) (lowers s) (load_node DEPTH s (root s)) (next_ino s) (log s))) with (shp s).
  apply load_node_CohT; [apply wf_layers_wf; exact Hw|exact HC].
Qed.

Lemma cpres_first_real n : cpres (first_real n).
Proof. unfold first_real. destruct (n_reals n); [apply cpres_fail|apply cpres_ret]. Qed.
Lemma cpres_first_tree p : cpres (first_tree p).
Proof.
  unfold first_tree. apply cpres_bind; [apply cpres_get_node|]. intros n.
  apply cpres_bind; [apply cpres_first_real|]. intros r.
  apply cpres_same. intros s. destruct (real_tree s r); reflexivity.
Qed.
Lemma cpres_open_ro p fl : of_readonly fl = true -> cpres (do_open p fl).
Proof.
  intros Hro. unfold do_open. rewrite Hro, (ro_not_trunc fl Hro).
  apply cpres_bind; [apply cpres_lookup_node|]. intros _.
  apply cpres_bind; [apply cpres_get_node|]. intros n. apply cpres_if; [apply cpres_fail|].
  apply cpres_bind; [apply cpres_ret|]. intros _.
  apply cpres_bind; [apply cpres_get_node|]. intros n'.
  apply cpres_bind; [apply cpres_first_real|]. intros r.
  apply cpres_bind; [apply cpres_same; intros s; destruct (real_tree s r); reflexivity|]. intros t.
  destruct t; try apply cpres_fail; [apply cpres_ret|].
  apply cpres_bind; [apply cpres_ret|]. intros _. apply cpres_ret.
Qed.
Lemma cpres_readonly o : readonly_op o = true -> cpres (step o).
Proof.
  unfold readonly_op. destruct o; cbn [modifying negb]; try discriminate; intros Hro; cbn [step].
  - apply cpres_with_parent. intros pp nm. apply cpres_entry_of.
  - apply cpres_bind; [apply cpres_walk|]; intros _. apply cpres_bind; [apply cpres_lookup_node|]; intros _.
    apply cpres_bind; [apply cpres_first_tree|]. intros rt. apply cpres_ret.
  - apply cpres_bind; [apply cpres_walk|]; intros _. apply cpres_bind; [apply cpres_lookup_node|]; intros _.
    apply cpres_bind; [apply cpres_get_node|]. intros n. apply cpres_if; [apply cpres_fail|].
    apply cpres_bind; [apply cpres_stat_node|]. intros st. apply cpres_if; [apply cpres_fail|apply cpres_ret].
  - apply cpres_bind; [apply cpres_walk|]; intros _. apply cpres_bind; [apply cpres_open_ro; reflexivity|]. intros r.
    apply cpres_same. intros s. destruct (real_tree s r) as [[]|]; reflexivity.
  - apply cpres_bind; [apply cpres_walk|]; intros _. apply cpres_bind; [apply cpres_node_checked|]; intros _.
    apply cpres_bind; [apply cpres_first_tree|]. intros rt. destruct (snd rt); try apply cpres_fail. apply cpres_ret.
  - assert (Hro' : of_readonly fl = true) by (destruct (of_readonly fl); [reflexivity|discriminate Hro]).
    apply cpres_bind; [apply cpres_walk|]; intros _. apply cpres_bind; [apply cpres_open_ro; exact Hro'|]. intros r. apply cpres_ret.
  - apply cpres_bind; [apply cpres_walk|]; intros _. apply cpres_bind; [apply cpres_node_checked|]; intros _.
    apply cpres_bind; [apply cpres_first_tree|]. intros rt. destruct (afind k (xs_of (snd rt))); [apply cpres_ret|apply cpres_fail].
  - apply cpres_bind; [apply cpres_walk|]; intros _. apply cpres_bind; [apply cpres_node_checked|]; intros _.
    apply cpres_bind; [apply cpres_first_tree|]. intros rt. apply cpres_ret.
Qed.
Lemma cpres_mkdir p mode : cpres (step (OMkdir p mode)).
Proof.
  cbn [step]. apply cpres_with_parent. intros pp nm.
  apply cpres_bind; [apply cpres_sync_parent|]. intros _.
  apply cpres_bind; [apply cpres_do_mkdir|]. intros _. apply cpres_entry_of.
Qed.

(* ------------------------------------------------------------------ do_mknod / do_create / do_symlink *)
(* what the creating primitive does on the upper layer, for a parent backed by layer 0 at pp *)
Definition mk_spec (pp : path) (nm : name) (mk : real -> M real) (cleaf : state -> tree) : Prop :=
  forall pr s U, r_upper pr = true -> r_layer pr = 0%nat -> r_path pr = pp -> upper s = Some U ->
    (is_dirT (cleaf s) = false /\ is_whT (cleaf s) = false /\ wf (cleaf s) /\ (forall k r, tget (cleaf s) (k :: r) = None)) /\
    match h_insert pp nm (cleaf s) U with
    | Ok U1 => exists s1, mk pr s = (Ok (mkReal 0 true (pp ++ [nm]) false false false), s1) /\
                          upper s1 = Some U1 /\ lowers s1 = lowers s /\ root s1 = root s
    | Err _ => exists e s1, mk pr s = (Err e, s1) /\ upper s1 = upper s /\ lowers s1 = lowers s /\ root s1 = root s
    end.
(* the same, for upper layers satisfying Q only *)
Definition mk_spec_on (Q : tree -> Prop) (pp : path) (nm : name) (mk : real -> M real) (cleaf : state -> tree) : Prop :=
  forall pr s U, Q U -> r_upper pr = true -> r_layer pr = 0%nat -> r_path pr = pp -> upper s = Some U ->
    (is_dirT (cleaf s) = false /\ is_whT (cleaf s) = false /\ wf (cleaf s) /\ (forall k r, tget (cleaf s) (k :: r) = None)) /\
    match h_insert pp nm (cleaf s) U with
    | Ok U1 => exists s1, mk pr s = (Ok (mkReal 0 true (pp ++ [nm]) false false false), s1) /\
                          upper s1 = Some U1 /\ lowers s1 = lowers s /\ root s1 = root s
    | Err _ => exists e s1, mk pr s = (Err e, s1) /\ upper s1 = upper s /\ lowers s1 = lowers s /\ root s1 = root s
    end.
Lemma mk_spec_any Q pp nm mk cleaf : mk_spec pp nm mk cleaf -> mk_spec_on Q pp nm mk cleaf.
Proof. intros H pr s U _. apply H. Qed.
Lemma mk_spec_create pp nm mode : mk_spec pp nm (fun pr => ri_create pr nm mode) (fun s => File (next_ino s) (N.land mode 4095) [] []).
Proof.
  intros pr s U Hu Hl Hp HU. split; [repeat split; constructor|].
  unfold ri_create, ri_guard, bind, fresh_ino, mutate, ret, h_create. rewrite Hu, Hl, Hp. cbn [get_layer upper].
  destruct (upper s) as [U0|] eqn:EU; [|discriminate]. inversion HU; subst U0.
  destruct (h_insert pp nm (File (next_ino s) (N.land mode 4095) [] []) U) as [U1|e] eqn:Ei.
  - eexists. split; [reflexivity|]. unfold set_layer; cbn. auto.
  - eexists. eexists. split; [reflexivity|]. cbn. auto.
Qed.
Lemma mk_spec_symlink pp nm tg : mk_spec pp nm (fun pr => ri_symlink pr nm tg) (fun _ => Lnk tg).
Proof.
  intros pr s U Hu Hl Hp HU. split; [repeat split; constructor|].
  unfold ri_symlink, ri_guard, bind, mutate, ret, h_symlink. rewrite Hu, Hl, Hp. cbn [get_layer upper].
  destruct (upper s) as [U0|] eqn:EU; [|discriminate]. inversion HU; subst U0.
  destruct (h_insert pp nm (Lnk tg) U) as [U1|e] eqn:Ei.
  - eexists. split; [reflexivity|]. unfold set_layer; cbn. rewrite ?EU. auto.
  - eexists. eexists. split; [reflexivity|]. cbn. auto.
Qed.

Definition make_tail (pp : path) (nm : name) (mk : real -> M real) (pr : real) (delw : bool) (existing : bool) : M unit :=
  if existing then
    ((if delw then delete_whiteout_ignored pr nm else ret tt);;; (ri <- mk pr;; mod_node (pp ++ [nm]) (add_upper ri true)))
  else (ri <- mk pr;; insert_child pp nm (new_node ri)).

Lemma make_tail_coherent Q s2 (pp : path) (nm : name) mk cleaf pr prs pn2 u2 m x ch rest delw existing r s' :
  mk_spec_on Q pp nm mk cleaf -> Q u2 -> (afind nm ch = Some Wh -> Q (tupd pp (dir_del nm) u2)) ->
  Coherent s2 -> upper s2 = Some u2 -> tget u2 pp = Some (Dir m x ch) ->
  nget pp (root s2) = Some pn2 -> n_reals pn2 = pr :: prs -> r_upper pr = true -> r_layer pr = 0%nat -> r_path pr = pp ->
  n_loaded pn2 = true -> lstack (shp s2) (List.length (lowers s2)) pp = 0%nat :: rest ->
  (match existing return Prop with
   | true => exists c, afind nm (n_ch pn2) = Some c /\ n_loaded c = false /\ n_ch c = []
   | false => afind nm (n_ch pn2) = None end) ->
  match afind nm ch with
  | Some Wh => delw = true /\ existing = true
  | None => delw = false \/ existing = false
  | _ => False
  end ->
  make_tail pp nm mk pr delw existing s2 = (r, s') -> Coherent s'.
Proof.
  intros MK HQ HQw HC2 Hu2 Etg Hg2 Epr Hpu Hl0 Hpp Hld2 Hstk Hex Hcase Hrun.
  pose proof HC2 as (_ & Hwl2 & HCT2).
  set (delw' := if existing then delw else false).
  set (Ua := if delw' then tupd pp (dir_del nm) u2 else u2).
  set (chA := if delw' then adel nm ch else ch).
  assert (Hs3 : exists s3, (if delw' then delete_whiteout_ignored pr nm else ret tt) s2 = (Ok tt, s3) /\
                 upper s3 = Some Ua /\ lowers s3 = lowers s2 /\ root s3 = root s2 /\ next_ino s3 = next_ino s2 /\
                 tget Ua pp = Some (Dir m x chA) /\ afind nm chA = None).
  { unfold chA, Ua, delw'. destruct (afind nm ch) as [[| | |]|] eqn:Enm; try contradiction.
    - destruct Hcase as [-> ->]. eexists. split; [|split; [|split; [|split; [|split; [|split]]]]].
      + unfold delete_whiteout_ignored, ignore. rewrite Hl0, Hpp.
        rewrite (mutate0_ok (h_delete_whiteout pp nm) s2 u2 (tupd pp (dir_del nm) u2) Hu2); [reflexivity|].
        unfold h_delete_whiteout. rewrite (tget_snoc u2 pp nm), Etg, Enm. unfold h_unlink. rewrite Etg, Enm. reflexivity.
      + apply (upper_set_layer _ u2). exact Hu2.
      + reflexivity.
      + reflexivity.
      + reflexivity.
      + rewrite tget_tupd, Etg. reflexivity.
      + rewrite afind_adel, String.eqb_refl. reflexivity.
    - assert (E : (if existing then delw else false) = false) by (destruct existing, delw; try reflexivity; destruct Hcase; discriminate).
      rewrite E. exists s2. cbn [ret]. repeat split; auto. }
  destruct Hs3 as (s3 & E3 & Hu3 & Hl3 & Hr3 & Hn3 & Etg3 & Enm3).
  assert (HQa : Q Ua).
  { unfold Ua, delw'. destruct (afind nm ch) as [[| | |]|] eqn:Enm; try contradiction.
    - destruct Hcase as [-> ->]. apply HQw. reflexivity.
    - assert (E : (if existing then delw else false) = false) by (destruct existing, delw; try reflexivity; destruct Hcase; discriminate).
      rewrite E. exact HQ. }
  destruct (MK pr s3 Ua HQa Hpu Hl0 Hpp Hu3) as ((Cd & Cw & Cwf & Cleaf) & Hmk).
  unfold h_insert in Hmk. rewrite Etg3, Enm3 in Hmk. destruct Hmk as (s4 & E4 & Hu4 & Hl4 & Hr4).
  set (c := cleaf s3) in *. set (ri := mkReal 0 true (pp ++ [nm]) false false false) in *.
  set (G := fun l : list (name * tree) => aset nm c ((if delw' then adel nm else (fun y => y)) l)).
  assert (HUc : tupd pp (dir_ins nm c) Ua = tupd pp (chmap G) u2).
  { unfold Ua, G. destruct delw'; rewrite ?tupd_tupd; apply tupd_ext; intros d; destruct d; reflexivity. }
  assert (HG1 : forall k, k <> nm -> afind k (G ch) = afind k ch).
  { intros k Hk. apply String.eqb_neq in Hk. unfold G. destruct delw'; rewrite afind_aset, Hk, ?afind_adel, ?Hk; reflexivity. }
  assert (HG2 : afind nm (G ch) = Some c) by (unfold G; rewrite afind_aset, String.eqb_refl; reflexivity).
  assert (Hfin : forall g, (n_reals (g pn2) = n_reals pn2 /\ n_wh (g pn2) = n_wh pn2 /\ n_loaded (g pn2) = n_loaded pn2 /\
                    NoDup (map fst (n_ch (g pn2))) /\ afind nm (n_ch (g pn2)) = Some (Node [ri] (r_wh ri) false []) /\
                    (forall k, k <> nm -> afind k (n_ch (g pn2)) = afind k (n_ch pn2))) ->
                 forall n5 l5, Coherent (mkState (upper s4) (lowers s4) (nupd pp g (root s4)) n5 l5)).
  { intros g Hg n5 l5.
    apply (leaf_block s2 _ u2 pp nm G c pn2 rest m x ch ri).
    - exact HC2.
    - exact Hu2.
    - exact Etg.
    - exact HG1.
    - exact HG2.
    - exact Cleaf.
    - cbn [upper]. rewrite Hu4, HUc. reflexivity.
    - cbn [lowers]. congruence.
    - apply (wf_layers_set_upper s2 _ (tupd pp (chmap G) u2) Hwl2); cbn [upper lowers]; [rewrite Hu4, HUc; reflexivity|congruence|].
      apply layer_ok_tupd.
      + intros d Hd. destruct d; try exact Hd. inversion Hd as [? ? ? Hn Hall| | |]; subst. cbn [chmap]. unfold G. constructor.
        * apply keys_aset. destruct delw'; [apply keys_adel_nodup|]; exact Hn.
        * apply Forall_aset; [destruct delw'; [apply Forall_adel|]; exact Hall|exact Cwf].
      + intros d Hd. destruct d; try discriminate. reflexivity.
      + apply (Hwl2 0%nat u2). cbn. exact Hu2.
    - exact Hg2.
    - exact Hld2.
    - exact Hstk.
    - cbn [r_layer r_upper r_path r_wh r_dir r_opq ri]. rewrite Cd, Cw. repeat split; auto. discriminate.
    - left. exact Cd.
    - exists g. split; [cbn [root]; rewrite Hr4, Hr3; reflexivity|exact Hg]. }
  pose proof (HCT2 pp pn2 Hg2) as Npn2. cbn [app] in Npn2.
  unfold make_tail in Hrun. destruct existing.
  - destruct Hex as (c0 & Hc0 & Hul & Hnc).
    unfold bind at 1 in Hrun. change (if delw then delete_whiteout_ignored pr nm else ret tt) with (if delw' then delete_whiteout_ignored pr nm else ret tt) in Hrun.
    rewrite E3 in Hrun. unfold bind at 1 in Hrun. rewrite E4 in Hrun. unfold mod_node in Hrun. inversion Hrun; subst r s'; clear Hrun.
    rewrite nupd_app. apply Hfin. cbn [n_reals n_wh n_loaded n_ch]. repeat split; auto.
    + rewrite keys_amap. apply Npn2.
    + rewrite afind_amap, Hc0. cbn [option_map]. unfold add_upper. rewrite Hul, Hnc. reflexivity.
    + intros k Hk. apply String.eqb_neq in Hk. rewrite String.eqb_sym in Hk. apply (afind_amap_other _ _ _ _ Hk).
  - unfold bind at 1 in Hrun. assert (s3 = s2) by (unfold delw' in E3; cbn [ret] in E3; inversion E3; reflexivity). subst s3.
    rewrite E4 in Hrun. unfold insert_child, mod_node in Hrun. inversion Hrun; subst r s'; clear Hrun.
    apply (Hfin (set_child nm (new_node ri))). unfold set_child; cbn [n_reals n_wh n_loaded n_ch]. repeat split; auto.
    + apply keys_aset. apply Npn2.
    + rewrite afind_aset, String.eqb_refl. reflexivity.
    + intros k Hk. rewrite afind_aset. apply String.eqb_neq in Hk. rewrite Hk. reflexivity.
Qed.

Definition make_rest (pp : path) (nm : name) (mk : real -> M real) (delw existing : bool) : M unit :=
  copy_node_up pp;;; pn' <- get_node pp;; pr <- upper_real pn' EINVAL;; make_tail pp nm mk pr delw existing.

Definition make_body (pp : path) (nm : name) (mk : real -> M real) (delw existing : bool) : M unit :=
  pn' <- get_node pp;; pr <- upper_real pn' EINVAL;; make_tail pp nm mk pr delw existing.
Lemma make_body_coherent Q (pp : path) (nm : name) mk cleaf delw existing s2 pn2 r s' :
  mk_spec_on Q pp nm mk cleaf -> Coherent s2 -> nget pp (root s2) = Some pn2 -> in_upper pn2 = true ->
  (n_loaded pn2 = true \/ first_dir (n_reals pn2) = false) ->
  (match existing return Prop with
   | true => exists c, afind nm (n_ch pn2) = Some c /\ n_wh c = true /\ delw = in_upper c
   | false => afind nm (n_ch pn2) = None end) ->
  (forall u2, upper s2 = Some u2 -> Q u2 /\ (forall m x ch, tget u2 pp = Some (Dir m x ch) -> afind nm ch = Some Wh -> Q (tupd pp (dir_del nm) u2))) ->
  make_body pp nm mk delw existing s2 = (r, s') -> Coherent s'.
Proof.
  intros MK HC2 Hg2 Hiu Hld1 Hchild HQ Hrun. unfold make_body in Hrun.
  unfold bind at 1 in Hrun. unfold get_node at 1 in Hrun. rewrite Hg2 in Hrun.
  pose proof Hiu as Hpu. unfold in_upper in Hpu. unfold bind at 1 in Hrun. unfold upper_real in Hrun.
  destruct (n_reals pn2) as [|pr prs] eqn:Epr; [discriminate|]. rewrite Hpu in Hrun. cbn [ret] in Hrun.
  pose proof HC2 as ([u2 Hu2] & Hwl2 & HCT2). pose proof (HCT2 pp pn2 Hg2) as Npn2. cbn [app] in Npn2.
  destruct (first_upper_stack s2 pp pn2 pr prs Npn2 Epr Hpu) as (Hl0 & Hpp & rest & Hstk).
  assert (Hrg : rgood (shp s2) pp pr) by (pose proof (ok_reals _ _ _ _ Npn2) as G; rewrite Epr in G; exact (Forall_inv G)).
  assert (Hchild2 : forall c, afind nm (n_ch pn2) = Some c -> afind nm (n_ch pn2) = Some c) by auto.
  destruct (HQ u2 Hu2) as [HQ1 HQ2].
  destruct (tget u2 pp) as [[m x ch| | |]|] eqn:Etg.
  - pose proof (sh_dir_of_tget s2 u2 pp m x ch Hu2 Etg) as Hpd.
    assert (Hfd2 : first_dir (n_reals pn2) = true).
    { destruct Hrg as (_ & _ & Hs). rewrite Hl0, Hpd in Hs. rewrite Epr. cbn. tauto. }
    assert (Hld2 : n_loaded pn2 = true).
    { destruct Hld1 as [H|H]; [exact H|]. congruence. }
    destruct (ok_ld _ _ _ _ Npn2 Hld2) as (_ & _ & Kids).
    assert (Hag0 : forall i p', ~ is_prefix (pp ++ [nm]) p' -> shp s2 i p' = shp s2 i p') by reflexivity.
    pose proof (kids_old (shp s2) (shp s2) (List.length (lowers s2)) pp nm Hag0 (fun j p' => eq_refl) rest _ Hstk Hpd) as Ko.
    apply (make_tail_coherent Q s2 pp nm mk cleaf pr prs pn2 u2 m x ch rest delw existing r s' MK HQ1 (HQ2 m x ch eq_refl) HC2 Hu2 Etg Hg2 Epr Hpu Hl0 Hpp Hld2 Hstk); [| |exact Hrun].
    + destruct existing.
      * destruct Hchild as (c & Hc & Hwc & _). exists c. split; [apply Hchild2; exact Hc|].
        pose proof (nget_snoc pp nm (root s2) pn2 c Hg2 (Hchild2 c Hc)) as Hqc. pose proof (HCT2 _ _ Hqc) as Nc. cbn [app] in Nc.
        destruct (first_good_stat s2 _ _ c Nc) as (rw & rws & tw & Erw & _ & Hstw & Hwt & _ & _).
        apply (unloaded_nondir s2 _ c tw Nc Hstw).
        pose proof (ok_wh _ _ _ _ Nc) as W. rewrite Erw in W. cbn in W. rewrite Hwc in W. rewrite <- W in Hwt. destruct tw; try discriminate; reflexivity.
      * exact Hchild.
    + destruct existing.
      * destruct Hchild as (c & Hc & Hwc & ->).
        pose proof (nget_snoc pp nm (root s2) pn2 c Hg2 (Hchild2 c Hc)) as Hqc. pose proof (HCT2 _ _ Hqc) as Nc. cbn [app] in Nc.
        destruct (first_good_stat s2 _ _ c Nc) as (rw & rws & tw & Erw & Etw & _ & Hwt & _ & Hpw).
        assert (Htw : tw = Wh).
        { pose proof (ok_wh _ _ _ _ Nc) as W. rewrite Erw in W. cbn in W. rewrite Hwc in W. rewrite <- W in Hwt. destruct tw; try discriminate. reflexivity. }
        subst tw. unfold in_upper. rewrite Erw.
        pose proof (ok_reals _ _ _ _ Nc) as G. rewrite Erw in G. pose proof (Forall_inv G) as (_ & Hupw & _).
        destruct (r_upper rw) eqn:Euw.
        -- symmetry in Hupw. apply Nat.eqb_eq in Hupw. rewrite Hupw in Etw. unfold ent in Etw. cbn [get_layer] in Etw. rewrite Hu2 in Etw.
           rewrite (tget_snoc u2 pp nm), Etg in Etw. rewrite Etw. auto.
        -- symmetry in Hupw. apply Nat.eqb_neq in Hupw.
           destruct (afind nm ch) as [y|] eqn:Ey; [|auto].
           exfalso. pose proof (ok_hd _ _ _ _ Nc) as Hh. rewrite Erw in Hh. cbn [map hd_error] in Hh.
           rewrite lstack_snoc, Ko in Hh.
           assert (Hp0 : present (shp s2) (pp ++ [nm]) 0%nat = true).
           { unfold present, shp, ent. cbn [get_layer]. rewrite Hu2, (tget_snoc u2 pp nm), Etg, Ey. reflexivity. }
           rewrite Hp0 in Hh. cbn in Hh. inversion Hh. congruence.
      * assert (Hn2 : afind nm (n_ch pn2) = None) by exact Hchild.
        apply Kids in Hn2. rewrite Ko in Hn2. apply app_eq_nil in Hn2. destruct Hn2 as [Hp0 _].
        destruct (afind nm ch) as [y|] eqn:Ey; [|auto].
        exfalso. assert (Hp1 : present (shp s2) (pp ++ [nm]) 0%nat = true).
        { unfold present, shp, ent. cbn [get_layer]. rewrite Hu2, (tget_snoc u2 pp nm), Etg, Ey. reflexivity. }
        rewrite Hp1 in Hp0. discriminate.
  - assert (Hne : existing = false).
    { destruct existing; [|reflexivity]. exfalso. destruct Hchild as (c & Hc & _). pose proof (Hchild2 c Hc) as Hch.
      assert (Hld2 : n_loaded pn2 = true).
      { destruct (n_loaded pn2) eqn:El; [reflexivity|]. rewrite (ok_unl _ _ _ _ Npn2 El) in Hch. discriminate. }
      destruct (ok_ld _ _ _ _ Npn2 Hld2) as (_ & Fd & _). rewrite Epr in Fd. cbn in Fd.
      destruct Hrg as (_ & _ & Hs). rewrite Hl0 in Hs. unfold shp, ent in Hs. cbn [get_layer] in Hs. rewrite Hu2, Etg in Hs. cbn in Hs.
      destruct Hs as (_ & Hd & _). congruence. }
    subst existing. unfold make_tail in Hrun. unfold bind at 1 in Hrun.
    destruct (MK pr s2 u2 HQ1 Hpu Hl0 Hpp Hu2) as (_ & Hmk). unfold h_insert in Hmk. rewrite Etg in Hmk.
    destruct Hmk as (e & s3 & E3 & A & B & C). rewrite E3 in Hrun. inversion Hrun; subst.
    exact (coherent_same_disk s2 s' A B C HC2).
  - assert (Hne : existing = false).
    { destruct existing; [|reflexivity]. exfalso. destruct Hchild as (c & Hc & _). pose proof (Hchild2 c Hc) as Hch.
      assert (Hld2 : n_loaded pn2 = true).
      { destruct (n_loaded pn2) eqn:El; [reflexivity|]. rewrite (ok_unl _ _ _ _ Npn2 El) in Hch. discriminate. }
      destruct (ok_ld _ _ _ _ Npn2 Hld2) as (_ & Fd & _). rewrite Epr in Fd. cbn in Fd.
      destruct Hrg as (_ & _ & Hs). rewrite Hl0 in Hs. unfold shp, ent in Hs. cbn [get_layer] in Hs. rewrite Hu2, Etg in Hs. cbn in Hs.
      destruct Hs as (_ & Hd & _). congruence. }
    subst existing. unfold make_tail in Hrun. unfold bind at 1 in Hrun.
    destruct (MK pr s2 u2 HQ1 Hpu Hl0 Hpp Hu2) as (_ & Hmk). unfold h_insert in Hmk. rewrite Etg in Hmk.
    destruct Hmk as (e & s3 & E3 & A & B & C). rewrite E3 in Hrun. inversion Hrun; subst.
    exact (coherent_same_disk s2 s' A B C HC2).
  - assert (Hne : existing = false).
    { destruct existing; [|reflexivity]. exfalso. destruct Hchild as (c & Hc & _). pose proof (Hchild2 c Hc) as Hch.
      assert (Hld2 : n_loaded pn2 = true).
      { destruct (n_loaded pn2) eqn:El; [reflexivity|]. rewrite (ok_unl _ _ _ _ Npn2 El) in Hch. discriminate. }
      destruct (ok_ld _ _ _ _ Npn2 Hld2) as (_ & Fd & _). rewrite Epr in Fd. cbn in Fd.
      destruct Hrg as (_ & _ & Hs). rewrite Hl0 in Hs. unfold shp, ent in Hs. cbn [get_layer] in Hs. rewrite Hu2, Etg in Hs. cbn in Hs.
      destruct Hs as (_ & Hd & _). congruence. }
    subst existing. unfold make_tail in Hrun. unfold bind at 1 in Hrun.
    destruct (MK pr s2 u2 HQ1 Hpu Hl0 Hpp Hu2) as (_ & Hmk). unfold h_insert in Hmk. rewrite Etg in Hmk.
    destruct Hmk as (e & s3 & E3 & A & B & C). rewrite E3 in Hrun. inversion Hrun; subst.
    exact (coherent_same_disk s2 s' A B C HC2).
  - exfalso. destruct Hrg as (_ & _ & Hs). rewrite Hl0 in Hs. unfold shp, ent in Hs. cbn [get_layer] in Hs. rewrite Hu2, Etg in Hs. exact Hs.
Qed.


Lemma make_rest_coherent (pp : path) (nm : name) mk cleaf delw existing s1 pn1 r s' :
  mk_spec pp nm mk cleaf -> Coherent s1 -> nget pp (root s1) = Some pn1 -> n_wh pn1 = false ->
  (n_loaded pn1 = true \/ first_dir (n_reals pn1) = false) ->
  (match existing return Prop with
   | true => exists c, afind nm (n_ch pn1) = Some c /\ n_wh c = true /\ delw = in_upper c
   | false => afind nm (n_ch pn1) = None end) ->
  make_rest pp nm mk delw existing s1 = (r, s') -> Coherent s'.
Proof.
  intros MK HC1 Hg1 Hw1 Hld1 Hchild Hrun. unfold make_rest in Hrun.
  unfold bind at 1 in Hrun. destruct (copy_node_up pp s1) as [rc s2] eqn:Ecu.
  destruct (cnu_coherent pp s1 rc s2 HC1) as (HC2 & SP2 & Hl2 & Fr2 & Hup2); [intros n0 Hn0; rewrite Hg1 in Hn0; inversion Hn0; subst; exact Hw1|exact Ecu|].
  destruct rc as [[]|e]; [|inversion Hrun; subst; exact HC2]. specialize (Hup2 eq_refl).
  destruct (same_paths_some s1 s2 pp pn1 SP2 Hg1) as (pn2 & Hg2 & Hsig2).
  assert (Hq2 : nget (pp ++ [nm]) (root s2) = nget (pp ++ [nm]) (root s1)) by (apply Fr2; apply not_prefix_snoc).
  unfold nsig in Hsig2. injection Hsig2 as A B.
  apply (make_body_coherent (fun _ => True) pp nm mk cleaf delw existing s2 pn2 r s' (mk_spec_any _ pp nm mk cleaf MK) HC2 Hg2 (Hup2 pn2 Hg2)); [| | |exact Hrun].
  - rewrite A, B. exact Hld1.
  - destruct existing.
    + destruct Hchild as (c & Hc & Hwc & Hd). exists c. split; [|auto].
      pose proof (nget_snoc pp nm (root s1) pn1 c Hg1 Hc) as Hqc. rewrite <- Hq2 in Hqc.
      exact (nget_child pp nm (root s2) pn2 c Hg2 Hqc).
    + destruct (afind nm (n_ch pn2)) as [c2|] eqn:E2; [|reflexivity].
      pose proof (nget_snoc pp nm (root s2) pn2 c2 Hg2 E2) as H2. rewrite Hq2, (nget_snoc_none pp nm (root s1) pn1 Hg1 Hchild) in H2. discriminate.
  - intros u2 _. split; [exact I|]. intros; exact I.
Qed.

Lemma cpres_do_make (pp : path) (nm : name) mk cleaf : mk_spec pp nm mk cleaf -> cpres (do_make pp nm mk).
Proof.
  intros MK s HC. destruct (do_make pp nm mk s) as [r s'] eqn:Hrun. cbn [snd].
  unfold do_make in Hrun.
  pose proof HC as ([u Hu] & Hwl & HCT).
  unfold bind at 1 in Hrun. unfold need_upper in Hrun. unfold bind at 1 in Hrun. unfold has_upper in Hrun. rewrite Hu in Hrun. cbn [ret] in Hrun.
  unfold bind at 1 in Hrun. unfold get_node at 1 in Hrun. destruct (nget pp (root s)) as [pn|] eqn:Hg; [|inversion Hrun; subst; exact HC].
  destruct (n_wh pn) eqn:Ew; [inversion Hrun; subst; exact HC|].
  unfold bind at 1 in Hrun. destruct (lookup_node_ignore_enoent pp nm s) as [rf s1] eqn:Elk.
  destruct (lookup_ignore_spec pp nm s pn rf s1 HC Hg Ew Elk) as (HC1 & Hu1 & Hl1 & pn1 & Hg1 & Hw1 & Hld1 & Hfound).
  destruct rf as [found|e]; [|inversion Hrun; subst; exact HC1].
  destruct found as [q|].
  - destruct Hfound as (-> & c & Hc). unfold bind at 1 in Hrun. unfold get_node at 1 in Hrun.
    rewrite (nget_snoc pp nm (root s1) pn1 c Hg1 Hc) in Hrun.
    destruct (n_wh c) eqn:Ewc; cbn [negb] in Hrun; [|inversion Hrun; subst; exact HC1].
    apply (make_rest_coherent pp nm mk cleaf (in_upper c) true s1 pn1 r s' MK HC1 Hg1 Hw1 Hld1); [eauto|exact Hrun].
  - apply (make_rest_coherent pp nm mk cleaf false false s1 pn1 r s' MK HC1 Hg1 Hw1 Hld1); [exact Hfound|exact Hrun].
Qed.
Lemma cpres_create p mode : cpres (step (OCreate p mode)).
Proof.
  cbn [step]. apply cpres_with_parent. intros pp nm.
  apply cpres_bind; [apply cpres_sync_parent|]. intros _.
  apply cpres_bind; [apply (cpres_do_make pp nm _ _ (mk_spec_create pp nm mode))|]. intros _. apply cpres_entry_of.
Qed.
Lemma cpres_mknod p mode : cpres (step (OMknod p mode)).
Proof.
  cbn [step]. apply cpres_with_parent. intros pp nm.
  apply cpres_bind; [apply cpres_sync_parent|]. intros _.
  apply cpres_bind; [apply (cpres_do_make pp nm _ _ (mk_spec_create pp nm mode))|]. intros _. apply cpres_entry_of.
Qed.
Lemma cpres_symlink p tg : cpres (step (OSymlink p tg)).
Proof.
  cbn [step]. apply cpres_with_parent. intros pp nm.
  apply cpres_bind; [apply cpres_lookup_node|]. intros _.
  apply cpres_bind; [apply (cpres_do_make pp nm _ _ (mk_spec_symlink pp nm tg))|]. intros _. apply cpres_entry_of.
Qed.

(* ------------------------------------------------------------------ block: the upper entry pp/nm disappears and nothing below shows it *)
Lemma del_block s s' U (pp : path) (nm : name) G pn rest m x ch :
  Coherent s ->
  upper s = Some U -> tget U pp = Some (Dir m x ch) ->
  (forall k, k <> nm -> afind k (G ch) = afind k ch) -> afind nm (G ch) = None ->
  upper s' = Some (tupd pp (chmap G) U) -> lowers s' = lowers s -> wf_layers s' ->
  nget pp (root s) = Some pn -> n_loaded pn = true ->
  lstack (shp s) (List.length (lowers s)) pp = 0%nat :: rest ->
  lowerc (shp s) pp nm rest = [] ->
  (exists g, root s' = nupd pp g (root s) /\ n_reals (g pn) = n_reals pn /\ n_wh (g pn) = n_wh pn /\
      n_loaded (g pn) = n_loaded pn /\ NoDup (map fst (n_ch (g pn))) /\
      afind nm (n_ch (g pn)) = None /\
      (forall k, k <> nm -> afind k (n_ch (g pn)) = afind k (n_ch pn))) ->
  Coherent s'.
Proof.
  intros (Hu0 & Hw & HC) Hu Hd HG Hnm Hu' Hl Hw' Hget Hld Hst Hlc (g & Hroot & G1 & G2 & G3 & G4 & G5 & G6).
  destruct (upper_update_shape s s' U pp nm G None m x ch Hu Hu' Hl Hd HG Hnm) as (Hag & Hat & Hlow).
  pose proof (sh_dir_of_tget s U pp m x ch Hu Hd) as Hpd.
  set (Sh := shp s) in *. set (Sh' := shp s') in *. set (nl := List.length (lowers s)) in *.
  assert (Hq : Sh' 0%nat (pp ++ [nm]) = None) by (rewrite (Hat []); reflexivity).
  assert (Hpres : present Sh' (pp ++ [nm]) 0%nat = false) by (unfold present; rewrite Hq; reflexivity).
  split; [eauto|]. split; [exact Hw'|]. rewrite Hl, Hroot. fold nl.
  apply (update_child_coh Sh Sh' nl nm g pp [] (root s) pn); cbn [app]; [exact Hag|exact HC|exact Hget| |].
  - destruct (g pn) as [rs' w' l' ch'] eqn:Eg. cbn [n_reals n_wh n_loaded n_ch] in *. subst rs' w' l'.
    apply (parent_upd_ok Sh Sh' nl nm pp pn ch').
    + exact Hag.
    + exact (HC pp pn Hget).
    + exact Hld.
    + exact G4.
    + intros k Hk. rewrite (G6 k Hk). reflexivity.
    + rewrite G5, (kids_new Sh Sh' nl pp nm Hag Hlow rest _ Hst Hpd). unfold path, name in *. rewrite Hpres, Hlc. cbn [app]. split; reflexivity.
  - intros k c0 Hk. right. destruct (String.eqb k nm) eqn:E.
    + apply String.eqb_eq in E; subst k. rewrite G5 in Hk. discriminate.
    + apply String.eqb_neq in E. split; [exact E|]. rewrite <- (G6 k E). exact Hk.
Qed.

(* ------------------------------------------------------------------ do_rm (unlink) *)
Lemma nupd_nupd p g1 g2 : forall r, nupd p g2 (nupd p g1 r) = nupd p (fun n => g2 (g1 n)) r.
Proof.
  induction p as [|c p IH]; intros r; cbn [nupd]; [reflexivity|]. cbn [n_reals n_wh n_loaded n_ch].
  f_equal. rewrite amap_amap. apply amap_ext. exact IH.
Qed.
Lemma lhc_false s rs nm : lower_has_child s rs nm = Ok false ->
  forall r, In r rs -> r_upper r = false -> r_wh r = false -> forall m x ch, real_tree s r = Some (Dir m x ch) -> afind nm ch = None.
Proof.
  induction rs as [|a rs IH]; intros H r Hin Hu Hw m x ch Ht; [destruct Hin|]. cbn [lower_has_child] in H.
  destruct Hin as [->|Hin].
  - rewrite Hu, Hw in H. cbn [orb] in H. rewrite Ht in H. destruct (afind nm ch); [discriminate|reflexivity].
  - destruct (r_upper a || r_wh a); [eapply IH; eassumption|].
    destruct (real_tree s a) as [[m' x' ch'| | |]|]; try discriminate; try (eapply IH; eassumption).
    destruct (afind nm ch'); [discriminate|eapply IH; eassumption].
Qed.
Lemma scut_In rs r : In r (scut rs) -> In r rs.
Proof.
  induction rs as [|a rs IH]; cbn [scut]; [auto|]. destruct (r_wh a); [intros []|]. destruct (negb (r_dir a)); [intros []|].
  destruct (r_opq a); intros [->|H]; try (left; reflexivity); [destruct H|right; auto].
Qed.
Lemma lowerc_of_lhc s (pp : path) (nm : name) pn rest o :
  wf_layers s -> NodeOK (shp s) (List.length (lowers s)) pp pn ->
  lstack (shp s) (List.length (lowers s)) pp = 0%nat :: rest -> shp s 0%nat pp = Some (SDir o) ->
  lower_has_child s (n_reals pn) nm = Ok false -> lowerc (shp s) pp nm rest = [].
Proof.
  intros Hw N Hst Hpd Hl. unfold lowerc.
  assert (Hall : forall i, In i (tl (dcut (shp s) pp (0%nat :: rest))) -> present (shp s) (pp ++ [nm]) i = false).
  { intros i Hi.
    assert (Hnz : i <> 0%nat).
    { intros ->. exact (rest_nozero (shp s) (shp s) _ pp nm (fun _ _ _ => eq_refl) (fun _ _ => eq_refl) rest o Hst Hpd Hi). }
    assert (Hin : In i (dcut (shp s) pp (lstack (shp s) (List.length (lowers s)) pp))).
    { rewrite Hst. destruct (dcut (shp s) pp (0%nat :: rest)); [destruct Hi|right; exact Hi]. }
    rewrite <- (ok_cut _ _ _ _ N), <- (scut_dcut (shp s) pp _ (ok_reals _ _ _ _ N) (ok_opq _ _ _ _ N)) in Hin.
    apply in_map_iff in Hin. destruct Hin as (r & Hr & Hrin).
    pose proof (scut_dirs (shp s) pp _ (ok_reals _ _ _ _ N)) as Hd. rewrite Forall_forall in Hd.
    destruct (Hd r Hrin) as [(Hp & Hup & Hs) [o' Ho']].
    destruct (shp_dir s _ _ _ Ho') as (m & x & ch & He & _).
    rewrite Ho' in Hs. destruct Hs as (Hwh & _).
    assert (Hu : r_upper r = false) by (rewrite Hup, Hr; apply Nat.eqb_neq; exact Hnz).
    pose proof (lhc_false s _ nm Hl r (scut_In _ _ Hrin) Hu Hwh m x ch) as Hnone.
    rewrite real_tree_ent, Hp in Hnone. specialize (Hnone He).
    unfold present, shp. rewrite <- Hr. rewrite (ent_child s (r_layer r) pp nm), He, Hnone. reflexivity. }
  induction (tl (dcut (shp s) pp (0%nat :: rest))) as [|i l IH]; [reflexivity|]. cbn [filter].
  rewrite (Hall i (or_introl eq_refl)). apply IH. intros j Hj. apply Hall. right; exact Hj.
Qed.

Lemma lookup_some_spec (pp : path) (nm : name) s pn q s1 :
  Coherent s -> nget pp (root s) = Some pn -> n_wh pn = false ->
  lookup_node pp (Some nm) s = (Ok q, s1) ->
  Coherent s1 /\ q = pp ++ [nm] /\
  exists pn1 c, nget pp (root s1) = Some pn1 /\ n_wh pn1 = false /\ afind nm (n_ch pn1) = Some c.
Proof.
  intros HC Hg Hw Hrun.
  assert (E : lookup_node_ignore_enoent pp nm s = (Ok (Some q), s1)) by (unfold lookup_node_ignore_enoent; rewrite Hrun; reflexivity).
  destruct (lookup_ignore_spec pp nm s pn _ s1 HC Hg Hw E) as (HC1 & _ & _ & pn1 & Hg1 & Hw1 & _ & -> & c & Hc).
  split; [exact HC1|]. split; [reflexivity|]. eauto.
Qed.

Definition rm_tail (pp : path) (nm : name) (c pn' : node) (need0 : bool) : M unit :=
  need <- (if in_upper c then
             pr <- upper_real pn' EINVAL ;;
             mutate (r_layer pr) (h_unlink (r_path pr) nm) ;;;
             ret (need0 && negb (r_opq pr))
           else ret need0) ;;
  remove_child pp nm ;;;
  if need then
    pn'' <- get_node pp ;;
    pr <- upper_real pn'' EINVAL ;;
    ri <- ri_whiteout pr nm ;;
    insert_child pp nm (new_node ri)
  else ret tt.

Lemma rm_tail_coherent (pp : path) (nm : name) s3 c pn3 need0 r s' :
  Coherent s3 -> nget (pp ++ [nm]) (root s3) = Some c -> nget pp (root s3) = Some pn3 -> upper_at' pp s3 ->
  (need0 = false -> upper_only c = true /\ lower_has_child s3 (n_reals pn3) nm = Ok false) ->
  rm_tail pp nm c pn3 need0 s3 = (r, s') -> Coherent s'.
Proof.
  intros HC3 Hq3 Hg3 Hup3 Hneed0 Hrun. unfold rm_tail in Hrun.
  pose proof (Hup3 pn3 Hg3) as Hpu. unfold in_upper in Hpu.
  destruct (n_reals pn3) as [|pr prs] eqn:Epr; [discriminate|].
  pose proof HC3 as ([u3 Hu3] & Hwl3 & HCT3). pose proof (HCT3 pp pn3 Hg3) as Npn3. cbn [app] in Npn3.
  destruct (first_upper_stack s3 pp pn3 pr prs Npn3 Epr Hpu) as (Hl0 & Hpp & rest & Hstk).
  pose proof (nget_child pp nm (root s3) pn3 c Hg3 Hq3) as Hch3.
  assert (Hld3 : n_loaded pn3 = true).
  { destruct (n_loaded pn3) eqn:El; [reflexivity|]. rewrite (ok_unl _ _ _ _ Npn3 El) in Hch3. discriminate. }
  destruct (ok_ld _ _ _ _ Npn3 Hld3) as (_ & Fd3 & _). rewrite Epr in Fd3. cbn in Fd3.
  assert (Hrg : rgood (shp s3) pp pr) by (pose proof (ok_reals _ _ _ _ Npn3) as G; rewrite Epr in G; exact (Forall_inv G)).
  assert (Hpd : exists o, shp s3 0%nat pp = Some (SDir o)).
  { destruct Hrg as (_ & _ & Hs). rewrite Hl0 in Hs. destruct (shp s3 0%nat pp) as [[o|w]|]; [eauto| |contradiction]. destruct Hs as (_ & Hd & _). congruence. }
  destruct Hpd as [o Hpd]. destruct (shp_zero_dir s3 u3 pp o Hu3 Hpd) as (m & x & ch & Etg).
  assert (Hpd' : shp s3 0%nat pp = Some (SDir (xs_opaque x))) by (apply (sh_dir_of_tget s3 u3 pp m x ch Hu3 Etg)).
  pose proof (HCT3 _ _ Hq3) as Nc. cbn [app] in Nc.
  destruct (first_good_stat s3 _ _ c Nc) as (rc1 & rcs & tc & Erc & Etc & _ & Hwtc & _ & Hpc).
  pose proof (ok_reals _ _ _ _ Nc) as Gc. rewrite Erc in Gc. pose proof (Forall_inv Gc) as (_ & Hupc & _).
  assert (Hag0 : forall i p', ~ is_prefix (pp ++ [nm]) p' -> shp s3 i p' = shp s3 i p') by reflexivity.
  pose proof (kids_old (shp s3) (shp s3) (List.length (lowers s3)) pp nm Hag0 (fun j p' => eq_refl) rest _ Hstk Hpd') as Ko.
  set (whri := mkReal 0 true (pp ++ [nm]) true false false).
  assert (Hwf' : forall G, (forall d, wf d -> wf (chmap G d)) -> forall s4, upper s4 = Some (tupd pp (chmap G) u3) -> lowers s4 = lowers s3 -> wf_layers s4).
  { intros G HGw s4 A B. apply (wf_layers_set_upper s3 s4 _ Hwl3 A B). apply layer_ok_tupd; [exact HGw| |apply (Hwl3 0%nat u3); cbn; exact Hu3].
    intros d Hd. destruct d; try discriminate. reflexivity. }
  unfold in_upper in Hrun. rewrite Erc in Hrun.
  destruct (r_upper rc1) eqn:Euc.
  - (* the node has an upper entry *)
    symmetry in Hupc. apply Nat.eqb_eq in Hupc.
    assert (Enm : afind nm ch = Some tc).
    { rewrite Hupc in Etc. unfold ent in Etc. cbn [get_layer] in Etc. rewrite Hu3, (tget_snoc u3 pp nm), Etg in Etc. exact Etc. }
    unfold bind at 1 in Hrun. unfold bind at 1 in Hrun. unfold upper_real in Hrun. rewrite Epr, Hpu in Hrun. cbn [ret] in Hrun.
    unfold bind at 1 in Hrun. rewrite Hl0, Hpp in Hrun.
    destruct (mutate 0 (h_unlink pp nm) s3) as [[[]|e] s4] eqn:Em.
    2:{ pose proof (mutate0_same _ _ _ _ Em). subst s4. inversion Hrun; subst. exact HC3. }
    destruct (mutate0_spec _ _ _ Em) as (U & Ua & HU & Hul & Hu4 & Hl4 & Hr4). rewrite Hu3 in HU. inversion HU; subst U; clear HU.
    unfold h_unlink in Hul. rewrite Etg, Enm in Hul.
    assert (HUa : Ua = tupd pp (dir_del nm) u3) by (destruct tc; inversion Hul; reflexivity). subst Ua. clear Hul.
    cbn [ret] in Hrun. unfold bind at 1 in Hrun. unfold remove_child, mod_node in Hrun. cbn [fst snd] in Hrun.
    set (need := need0 && negb (r_opq pr)) in Hrun.
    destruct need eqn:Eneed.
    + (* whiteout *)
      unfold bind at 1 in Hrun. unfold get_node at 1 in Hrun. cbn [root] in Hrun. rewrite Hr4, nget_nupd, Hg3 in Hrun. cbn [option_map] in Hrun.
      unfold bind at 1 in Hrun. unfold upper_real in Hrun. cbn [n_reals] in Hrun. rewrite Epr, Hpu in Hrun. cbn [ret] in Hrun.
      unfold bind at 1 in Hrun. unfold ri_whiteout, ri_guard in Hrun. rewrite Hpu, Hl0, Hpp in Hrun.
      unfold bind at 1 in Hrun. cbn [ret] in Hrun. unfold bind at 1 in Hrun.
      set (s5 := mkState (upper s4) (lowers s4) (nupd pp (fun n => Node (n_reals n) (n_wh n) (n_loaded n) (adel nm (n_ch n))) (root s3)) (next_ino s4) (log s4)) in *.
      assert (Em5 : mutate 0 (h_create_whiteout pp nm) s5 = (Ok tt, set_layer s5 0 (tupd pp (dir_ins nm Wh) (tupd pp (dir_del nm) u3)))).
      { apply (mutate0_ok _ s5 (tupd pp (dir_del nm) u3)); [exact Hu4|].
        unfold h_create_whiteout. rewrite (tget_snoc _ pp nm), tget_tupd, Etg. cbn [option_map dir_del]. rewrite afind_adel, String.eqb_refl.
        unfold h_insert. rewrite tget_tupd, Etg. cbn [option_map dir_del]. rewrite afind_adel, String.eqb_refl. reflexivity. }
      rewrite Em5 in Hrun. cbn [ret] in Hrun. unfold insert_child, mod_node in Hrun. inversion Hrun; subst r s'; clear Hrun.
      set (G := fun l : list (name * tree) => aset nm Wh (adel nm l)).
      apply (leaf_block s3 _ u3 pp nm G Wh pn3 rest m x ch whri).
      * exact HC3.
      * exact Hu3.
      * exact Etg.
      * intros k Hk. apply String.eqb_neq in Hk. unfold G. rewrite afind_aset, Hk, afind_adel, Hk. reflexivity.
      * unfold G. rewrite afind_aset, String.eqb_refl. reflexivity.
      * intros k r0. reflexivity.
      * cbn [upper set_layer s5]. rewrite Hu4. f_equal. rewrite tupd_tupd. apply tupd_ext. intros d. destruct d; reflexivity.
      * cbn [lowers set_layer s5]. exact Hl4.
      * apply (Hwf' G).
        -- intros d Hd. destruct d; try exact Hd. inversion Hd as [? ? ? Hn Hall| | |]; subst. cbn [chmap]. unfold G. constructor.
           ++ apply keys_aset. apply keys_adel_nodup. exact Hn.
           ++ apply Forall_aset; [apply Forall_adel; exact Hall|constructor].
        -- cbn [upper set_layer s5]. rewrite Hu4. f_equal. rewrite tupd_tupd. apply tupd_ext. intros d. destruct d; reflexivity.
        -- cbn [lowers set_layer s5]. exact Hl4.
      * exact Hg3.
      * exact Hld3.
      * exact Hstk.
      * cbn. repeat split; auto.
      * left. reflexivity.
      * exists (fun pn0 => Node (n_reals pn0) (n_wh pn0) (n_loaded pn0) (aset nm (new_node whri) (adel nm (n_ch pn0)))).
        split; [cbn [root set_layer s5]; rewrite nupd_nupd; reflexivity|]. cbn [n_reals n_wh n_loaded n_ch].
        repeat split; auto.
        -- apply keys_aset. apply keys_adel_nodup. apply Npn3.
        -- rewrite afind_aset, String.eqb_refl. reflexivity.
        -- intros k Hk. apply String.eqb_neq in Hk. rewrite afind_aset, Hk, afind_adel, Hk. reflexivity.
    + (* no whiteout: no lower directory of the parent holds the name *)
      cbn [ret] in Hrun. inversion Hrun; subst r s'; clear Hrun.
      assert (Hlc : lowerc (shp s3) pp nm rest = []).
      { unfold need in Eneed. apply andb_false_iff in Eneed. destruct Eneed as [E|E].
        - destruct (Hneed0 E) as [_ Hlhc]. rewrite <- Epr in Hlhc. apply (lowerc_of_lhc s3 pp nm pn3 rest _ Hwl3 Npn3 Hstk Hpd' Hlhc).
        - apply negb_false_iff in E. destruct Hrg as (_ & _ & Hs). rewrite Hl0, Hpd' in Hs. destruct Hs as (_ & _ & Ho).
          specialize (Ho E). unfold lowerc. cbn [dcut]. rewrite Hpd', Ho. reflexivity. }
      apply (del_block s3 _ u3 pp nm (adel nm) pn3 rest m x ch).
      * exact HC3.
      * exact Hu3.
      * exact Etg.
      * intros k Hk. apply String.eqb_neq in Hk. rewrite afind_adel, Hk. reflexivity.
      * rewrite afind_adel, String.eqb_refl. reflexivity.
      * cbn [upper]. rewrite Hu4. reflexivity.
      * cbn [lowers]. exact Hl4.
      * apply (Hwf' (adel nm)).
        -- intros d Hd. apply wf_chmap_adel. exact Hd.
        -- cbn [upper]. rewrite Hu4. reflexivity.
        -- cbn [lowers]. exact Hl4.
      * exact Hg3.
      * exact Hld3.
      * exact Hstk.
      * exact Hlc.
      * exists (fun pn0 => Node (n_reals pn0) (n_wh pn0) (n_loaded pn0) (adel nm (n_ch pn0))).
        split; [cbn [root]; rewrite Hr4; reflexivity|]. cbn [n_reals n_wh n_loaded n_ch]. repeat split; auto.
        -- apply keys_adel_nodup. apply Npn3.
        -- rewrite afind_adel, String.eqb_refl. reflexivity.
        -- intros k Hk. apply String.eqb_neq in Hk. rewrite afind_adel, Hk. reflexivity.
  - (* the node is backed by lower layers only: a whiteout is always needed *)
    symmetry in Hupc. apply Nat.eqb_neq in Hupc.
    assert (Huo : upper_only c = false) by (unfold upper_only; rewrite Erc; destruct rcs; [exact Euc|reflexivity]).
    assert (need0 = true).
    { destruct need0; [reflexivity|]. destruct (Hneed0 eq_refl) as [H _]. congruence. }
    subst need0.
    assert (Enm : afind nm ch = None).
    { destruct (afind nm ch) as [y|] eqn:Ey; [|reflexivity]. exfalso.
      pose proof (ok_hd _ _ _ _ Nc) as Hh. rewrite Erc in Hh. cbn [map hd_error] in Hh. rewrite lstack_snoc, Ko in Hh.
      assert (Hp0 : present (shp s3) (pp ++ [nm]) 0%nat = true).
      { unfold present, shp, ent. cbn [get_layer]. rewrite Hu3, (tget_snoc u3 pp nm), Etg, Ey. reflexivity. }
      rewrite Hp0 in Hh. cbn in Hh. inversion Hh. congruence. }
    unfold bind at 1 in Hrun. cbn [ret] in Hrun. unfold bind at 1 in Hrun. unfold remove_child, mod_node in Hrun. cbn [fst snd] in Hrun.
    unfold bind at 1 in Hrun. unfold get_node at 1 in Hrun. cbn [root] in Hrun. rewrite nget_nupd, Hg3 in Hrun. cbn [option_map] in Hrun.
    unfold bind at 1 in Hrun. unfold upper_real in Hrun. cbn [n_reals] in Hrun. rewrite Epr, Hpu in Hrun. cbn [ret] in Hrun.
    unfold bind at 1 in Hrun. unfold ri_whiteout, ri_guard in Hrun. rewrite Hpu, Hl0, Hpp in Hrun.
    unfold bind at 1 in Hrun. cbn [ret] in Hrun. unfold bind at 1 in Hrun.
    set (s5 := mkState (upper s3) (lowers s3) (nupd pp (fun n => Node (n_reals n) (n_wh n) (n_loaded n) (adel nm (n_ch n))) (root s3)) (next_ino s3) (log s3)) in *.
    assert (Em5 : mutate 0 (h_create_whiteout pp nm) s5 = (Ok tt, set_layer s5 0 (tupd pp (dir_ins nm Wh) u3))).
    { apply (mutate0_ok _ s5 u3); [exact Hu3|].
      unfold h_create_whiteout. rewrite (tget_snoc _ pp nm), Etg, Enm. unfold h_insert. rewrite Etg, Enm. reflexivity. }
    rewrite Em5 in Hrun. cbn [ret] in Hrun. unfold insert_child, mod_node in Hrun. inversion Hrun; subst r s'; clear Hrun.
    apply (leaf_block s3 _ u3 pp nm (aset nm Wh) Wh pn3 rest m x ch whri).
    + exact HC3.
    + exact Hu3.
    + exact Etg.
    + intros k Hk. apply String.eqb_neq in Hk. rewrite afind_aset, Hk. reflexivity.
    + rewrite afind_aset, String.eqb_refl. reflexivity.
    + intros k r0. reflexivity.
    + cbn [upper set_layer s5]. rewrite Hu3. reflexivity.
    + reflexivity.
    + apply (Hwf' (aset nm Wh)).
      * intros d Hd. apply wf_chmap_aset; [exact Hd|constructor].
      * cbn [upper set_layer s5]. rewrite Hu3. reflexivity.
      * reflexivity.
    + exact Hg3.
    + exact Hld3.
    + exact Hstk.
    + cbn. repeat split; auto.
    + left. reflexivity.
    + exists (fun pn0 => Node (n_reals pn0) (n_wh pn0) (n_loaded pn0) (aset nm (new_node whri) (adel nm (n_ch pn0)))).
      split; [cbn [root set_layer s5]; rewrite nupd_nupd; reflexivity|]. cbn [n_reals n_wh n_loaded n_ch].
      repeat split; auto.
      * apply keys_aset. apply keys_adel_nodup. apply Npn3.
      * rewrite afind_aset, String.eqb_refl. reflexivity.
      * intros k Hk. apply String.eqb_neq in Hk. rewrite afind_aset, Hk, afind_adel, Hk. reflexivity.
Qed.

Lemma cpres_do_unlink (pp : path) (nm : name) : cpres (do_rm pp nm false).
Proof.
  intros s HC. destruct (do_rm pp nm false s) as [r s'] eqn:Hrun. cbn [snd].
  unfold do_rm in Hrun.
  pose proof HC as ([u Hu] & _).
  unfold bind at 1 in Hrun. unfold need_upper in Hrun. unfold bind at 1 in Hrun. unfold has_upper in Hrun. rewrite Hu in Hrun. cbn [ret] in Hrun.
  unfold bind at 1 in Hrun. destruct (lookup_node pp None s) as [r0 s1] eqn:E0.
  pose proof (cpres_lookup_node pp None s HC) as HC1. rewrite E0 in HC1. cbn [snd] in HC1.
  destruct r0 as [q0|e]; [|inversion Hrun; subst; exact HC1].
  unfold bind at 1 in Hrun. unfold get_node at 1 in Hrun. destruct (nget pp (root s1)) as [pn|] eqn:Hg; [|inversion Hrun; subst; exact HC1].
  destruct (n_wh pn) eqn:Ew; [inversion Hrun; subst; exact HC1|].
  unfold bind at 1 in Hrun. destruct (lookup_node pp (Some nm) s1) as [rq s2] eqn:Eq.
  pose proof (cpres_lookup_node pp (Some nm) s1 HC1) as HC2. rewrite Eq in HC2. cbn [snd] in HC2.
  destruct rq as [q|e]; [|inversion Hrun; subst; exact HC2].
  destruct (lookup_some_spec pp nm s1 pn q s2 HC1 Hg Ew Eq) as (_ & -> & pn2 & c & Hg2 & Hw2 & Hc).
  pose proof (nget_snoc pp nm (root s2) pn2 c Hg2 Hc) as Hqc.
  unfold bind at 1 in Hrun. unfold get_node at 1 in Hrun. rewrite Hqc in Hrun.
  destruct (n_wh c) eqn:Ewc; [inversion Hrun; subst; exact HC2|].
  unfold bind at 1 in Hrun. cbn [ret] in Hrun.
  unfold bind at 1 in Hrun. destruct (copy_node_up pp s2) as [rc s3] eqn:Ecu.
  destruct (cnu_coherent pp s2 rc s3 HC2) as (HC3 & SP3 & Hl3 & Fr3 & Hup3); [intros n0 Hn0; rewrite Hg2 in Hn0; inversion Hn0; subst; exact Hw2|exact Ecu|].
  destruct rc as [[]|e]; [|inversion Hrun; subst; exact HC3]. specialize (Hup3 eq_refl).
  assert (Hq3 : nget (pp ++ [nm]) (root s3) = Some c) by (rewrite (Fr3 (pp ++ [nm]) (not_prefix_snoc pp nm)); exact Hqc).
  unfold bind at 1 in Hrun. unfold get_node at 1 in Hrun. rewrite Hq3 in Hrun.
  destruct (same_paths_some s2 s3 pp pn2 SP3 Hg2) as (pn3 & Hg3 & _).
  unfold bind at 1 in Hrun. unfold get_node at 1 in Hrun. rewrite Hg3 in Hrun.
  unfold bind at 1 in Hrun.
  destruct (upper_only c) eqn:Euo.
  - destruct (lower_has_child s3 (n_reals pn3) nm) as [b|e] eqn:Elhc; [|inversion Hrun; subst; exact HC3].
    change (rm_tail pp nm c pn3 b s3 = (r, s')) in Hrun.
    apply (rm_tail_coherent pp nm s3 c pn3 b r s' HC3 Hq3 Hg3 Hup3); [|exact Hrun]. intros ->. auto.
  - cbn [ret] in Hrun. change (rm_tail pp nm c pn3 true s3 = (r, s')) in Hrun.
    apply (rm_tail_coherent pp nm s3 c pn3 true r s' HC3 Hq3 Hg3 Hup3); [|exact Hrun]. discriminate.
Qed.
Lemma cpres_unlink p : cpres (step (OUnlink p)).
Proof.
  cbn [step]. apply cpres_with_parent. intros pp nm.
  apply cpres_bind; [apply cpres_do_unlink|]. intros _. apply cpres_ret.
Qed.

(* ------------------------------------------------------------------ content / attribute changes of the first backing inode *)
Lemma lookup_none_ok p s q s1 : Coherent s -> lookup_node p None s = (Ok q, s1) ->
  Coherent s1 /\ (forall n, nget p (root s1) = Some n -> n_wh n = false).
Proof.
  intros HC Hrun. pose proof (cpres_lookup_node p None s HC) as HC1. rewrite Hrun in HC1. cbn [snd] in HC1. split; [exact HC1|].
  unfold lookup_node in Hrun. unfold bind at 1 in Hrun. unfold get_node at 1 in Hrun.
  destruct (nget p (root s)) as [pn|] eqn:Hg; [|discriminate].
  destruct (n_wh pn) eqn:Ew; [discriminate|].
  unfold bind at 1 in Hrun. unfold stat_node in Hrun. destruct (node_stat s pn) as [st|]; [|discriminate].
  unfold bind at 1 in Hrun. destruct (load_if_dir p pn st s) as [[[]|e] s0] eqn:El; [|discriminate].
  cbn [ret] in Hrun. inversion Hrun; subst. clear Hrun.
  unfold load_if_dir in El. destruct (is_dirT st && negb (n_loaded pn)).
  - unfold load_dir, bind, get_node in El. rewrite Hg in El. destruct (n_loaded pn).
    + inversion El; subst. intros n Hn. rewrite Hg in Hn. inversion Hn; subst. exact Ew.
    + destruct (scan_children s pn); [|discriminate]. unfold mod_node in El. inversion El; subst. cbn [root].
      intros n Hn. rewrite nget_nupd, Hg in Hn. cbn [option_map] in Hn. inversion Hn; subst.
      destruct (load1_reals s pn) as [_ W]. rewrite W. exact Ew.
  - inversion El; subst. intros n Hn. rewrite Hg in Hn. inversion Hn; subst. exact Ew.
Qed.

(* a tree function that keeps the shape of every entry and the well-formedness of the layer *)
Definition shape_safe (F : tree -> res tree) : Prop :=
  forall t t', F t = Ok t' -> (forall q, option_map sh (tget t' q) = option_map sh (tget t q)) /\ (layer_ok t -> layer_ok t').

Definition attr_fun (f : tree -> tree) : Prop :=
  file_to_file f /\ (forall m x ch, exists m' x', f (Dir m x ch) = Dir m' x' ch /\ xs_opaque x' = xs_opaque x) /\
  (forall t, f (Lnk t) = Lnk t) /\ f Wh = Wh.

Lemma sh_tupd_attr p f : attr_fun f -> forall t m x ch, tget t p = Some (Dir m x ch) ->
  forall q, option_map sh (tget (tupd p f t) q) = option_map sh (tget t q).
Proof.
  intros (_ & Hd & _) t m x ch Ht q.
  revert t Ht q. induction p as [|c p IH]; intros t Ht q; cbn [tget tupd] in *.
  - inversion Ht; subst. destruct (Hd m x ch) as (m' & x' & -> & E). destruct q as [|k r]; cbn; [rewrite E|]; reflexivity.
  - destruct t as [m0 x0 ch0| | |]; try discriminate. destruct (afind c ch0) as [y|] eqn:Ec; [|discriminate].
    destruct q as [|k r]; [reflexivity|]. cbn [tget]. destruct (String.eqb c k) eqn:E.
    + apply String.eqb_eq in E; subst k. rewrite afind_amap, Ec. cbn [option_map]. apply IH. exact Ht.
    + rewrite (afind_amap_other _ _ _ _ E). reflexivity.
Qed.
Lemma wf_attr f : attr_fun f -> forall d, wf d -> wf (f d).
Proof.
  intros (Hf & Hd & Hl & Hw) d W. destruct d.
  - destruct (Hd mode xs ch) as (m' & x' & -> & _). inversion W; subst. constructor; assumption.
  - destruct (Hf ino mode data xs) as (j' & m' & d' & x' & ->). constructor.
  - rewrite Hl. exact W.
  - rewrite Hw. exact W.
Qed.
Lemma dir_attr f : attr_fun f -> forall d, is_dirT d = true -> is_dirT (f d) = true.
Proof. intros (_ & Hd & _) d H. destruct d; try discriminate. destruct (Hd mode xs ch) as (m' & x' & -> & _). reflexivity. Qed.

Lemma shape_safe_update p f : attr_fun f -> shape_safe (h_update p f).
Proof.
  intros Ha t t' H. unfold h_update in H. destruct (tget t p) as [[m x ch|i m d x|tg|]|] eqn:E; try discriminate; inversion H; subst; clear H.
  - split; [intros q; apply (sh_tupd_attr p f Ha t m x ch E)|]. intros Hl. apply layer_ok_tupd; [apply wf_attr; exact Ha|apply dir_attr; exact Ha|exact Hl].
  - split; [intros q; apply sh_tmap_ino; apply Ha|]. intros [W D]. split; [apply wf_tmap_ino; [apply Ha|exact W]|].
    destruct t; try discriminate. reflexivity.
Qed.
Lemma shape_safe_setdata p g : shape_safe (h_setdata p g).
Proof.
  intros t t' H. unfold h_setdata in H. destruct (tget t p) as [[m x ch|i m d x|tg|]|] eqn:E; try discriminate; inversion H; subst; clear H.
  assert (Hf : file_to_file (set_data g)) by (intros j m0 d0 x0; cbn; eauto).
  split; [intros q; apply sh_tmap_ino; exact Hf|]. intros [W D]. split; [apply wf_tmap_ino; [exact Hf|exact W]|].
  destruct t; try discriminate. reflexivity.
Qed.
Lemma attr_set_mode mo : attr_fun (set_mode mo).
Proof. split; [intros j m d x; cbn; eauto|]. split; [intros m x ch; cbn; eauto|]. split; reflexivity. Qed.

(* a shape-safe change of the upper layer keeps the state coherent *)
Lemma mutate0_safe F s r s2 : shape_safe F -> Coherent s -> mutate 0 F s = (r, s2) -> Coherent s2.
Proof.
  intros HF HC Hm. destruct r as [[]|e]; [|rewrite (mutate0_same _ _ _ _ Hm); exact HC].
  destruct (mutate0_spec _ _ _ Hm) as (t & t2 & Hu & Hf & Hu2 & Hl & Hr). destruct (HF t t2 Hf) as [Hs Hlo].
  pose proof HC as (_ & Hw & _).
  apply (coherent_shape_eq s s2); auto.
  - intros i q. destruct i as [|j]; unfold shp, ent; cbn [get_layer]; [rewrite Hu, Hu2; apply Hs|rewrite Hl; reflexivity].
  - rewrite Hl. reflexivity.
  - apply (wf_layers_set_upper s s2 t2 Hw Hu2 Hl). apply Hlo. apply (Hw 0%nat t). cbn. exact Hu.
  - eauto.
Qed.

(* "copy up unless already upper, then change the first backing inode" *)
Lemma cpres_on_upper p (F : real -> tree -> tree -> res tree) {B} (k : M B) :
  (forall r t, shape_safe (F r t)) -> cpres k ->
  forall s, Coherent s -> (forall n, nget p (root s) = Some n -> n_wh n = false) ->
  Coherent (snd ((n <- get_node p;; (if in_upper n then ret tt else copy_node_up p);;;
                  rt <- first_tree p;; mutate (r_layer (fst rt)) (F (fst rt) (snd rt));;; k) s)).
Proof.
  intros HF Hk s HC Hnw.
  unfold bind at 1. unfold get_node at 1. destruct (nget p (root s)) as [n|] eqn:Hg; [|exact HC].
  unfold bind at 1.
  destruct ((if in_upper n then ret tt else copy_node_up p) s) as [r1 s1] eqn:E1.
  assert (H1 : Coherent s1 /\ (r1 = Ok tt -> upper_at' p s1)).
  { destruct (in_upper n) eqn:Eu.
    - inversion E1; subst. split; [exact HC|]. intros _ n2 Hn2. rewrite Hg in Hn2. inversion Hn2; subst. exact Eu.
    - assert (Hnw' : forall n0, nget p (root s) = Some n0 -> n_wh n0 = false) by (intros n0 H0; apply Hnw; rewrite <- Hg; exact H0 || (rewrite Hg in H0; exact H0)).
      destruct (cnu_coherent p s r1 s1 HC Hnw' E1) as (A1 & _ & _ & _ & B1). auto. }
  destruct H1 as [HC1 Hup1]. destruct r1 as [[]|e]; [|exact HC1]. specialize (Hup1 eq_refl).
  unfold bind at 1. unfold first_tree. unfold bind at 1. unfold get_node at 1.
  destruct (nget p (root s1)) as [n1|] eqn:Hg1; [|exact HC1].
  unfold bind at 1. unfold first_real. pose proof (Hup1 n1 Hg1) as Hu1. unfold in_upper in Hu1.
  destruct (n_reals n1) as [|r rs] eqn:Er; [exact HC1|]. cbn [ret].
  destruct (real_tree s1 r) as [t|]; [|exact HC1].
  pose proof HC1 as (_ & _ & HCT1). pose proof (HCT1 p n1 Hg1) as N1. cbn [app] in N1.
  destruct (first_upper_stack s1 p n1 r rs N1 Er Hu1) as (Hl0 & _ & _).
  cbn [fst snd]. unfold bind at 1. rewrite Hl0.
  destruct (mutate 0 (F r t) s1) as [r2 s2] eqn:Em.
  pose proof (mutate0_safe (F r t) s1 r2 s2 (HF r t) HC1 Em) as HC2.
  destruct r2 as [[]|e]; [|exact HC2]. apply Hk. exact HC2.
Qed.

Lemma cpres_lookup_then {B} p (m : M B) :
  (forall s, Coherent s -> (forall n, nget p (root s) = Some n -> n_wh n = false) -> Coherent (snd (m s))) ->
  cpres (lookup_node p None ;;; m).
Proof.
  intros Hm s HC. unfold bind. destruct (lookup_node p None s) as [[q|e] s1] eqn:E; cbn [snd].
  - destruct (lookup_none_ok p s q s1 HC E) as [HC1 Hnw]. apply Hm; assumption.
  - pose proof (cpres_lookup_node p None s HC) as H. rewrite E in H. exact H.
Qed.
Lemma cpres_checked_then {B} p (m : M B) :
  (forall s, Coherent s -> (forall n, nget p (root s) = Some n -> n_wh n = false) -> Coherent (snd (m s))) ->
  cpres (node_checked p ;;; m).
Proof.
  intros Hm s HC. unfold bind. destruct (node_checked p s) as [[[]|e] s1] eqn:E; cbn [snd].
  - unfold node_checked in E. unfold bind at 1 in E. destruct (lookup_node p None s) as [[q|e0] s0] eqn:E0; [|discriminate].
    destruct (lookup_none_ok p s q s0 HC E0) as [HC0 Hnw]. unfold bind, get_node in E.
    destruct (nget p (root s0)) as [n|] eqn:Hg; [|discriminate]. destruct (n_wh n); inversion E; subst. apply Hm; [exact HC0|].
    intros n0 H0. apply Hnw. rewrite Hg in H0. exact H0.
  - pose proof (cpres_node_checked p s HC) as H. rewrite E in H. exact H.
Qed.

Lemma xs_opaque_aset k v x : is_opq_name k = false -> xs_opaque (aset k v x) = xs_opaque x.
Proof.
  intros H. unfold is_opq_name in H. apply orb_false_iff in H. destruct H as [H H3]. apply orb_false_iff in H. destruct H as [H1 H2].
  unfold xs_opaque, xattr_y. rewrite !afind_aset. rewrite (String.eqb_sym OPQ1 k), (String.eqb_sym OPQ2 k), (String.eqb_sym OPQ3 k), H1, H2, H3. reflexivity.
Qed.
Lemma xs_opaque_adel k (x : xattrs) : is_opq_name k = false -> xs_opaque (adel k x) = xs_opaque x.
Proof.
  intros H. unfold is_opq_name in H. apply orb_false_iff in H. destruct H as [H H3]. apply orb_false_iff in H. destruct H as [H1 H2].
  unfold xs_opaque, xattr_y. rewrite !afind_adel. rewrite (String.eqb_sym OPQ1 k), (String.eqb_sym OPQ2 k), (String.eqb_sym OPQ3 k), H1, H2, H3. reflexivity.
Qed.
Lemma attr_set_xs k v : is_opq_name k = false -> attr_fun (set_xs k v).
Proof.
  intros H. split; [intros j m d x; cbn; eauto|]. split; [|split; reflexivity].
  intros m x ch. cbn. eexists. eexists. split; [reflexivity|apply xs_opaque_aset; exact H].
Qed.
Lemma attr_del_xs k : is_opq_name k = false -> attr_fun (del_xs k).
Proof.
  intros H. split; [intros j m d x; cbn; eauto|]. split; [|split; reflexivity].
  intros m x ch. cbn. eexists. eexists. split; [reflexivity|apply xs_opaque_adel; exact H].
Qed.
Lemma shape_safe_removexattr p k : is_opq_name k = false -> shape_safe (h_removexattr p k).
Proof.
  intros H t t' Hr. unfold h_removexattr in Hr. destruct (tget t p) as [c|]; [|discriminate].
  destruct (afind k (xs_of c)); [|discriminate]. exact (shape_safe_update p (del_xs k) (attr_del_xs k H) t t' Hr).
Qed.

Lemma cpres_chmod p mode : cpres (step (OChmod p mode)).
Proof.
  cbn [step]. apply cpres_bind; [apply cpres_walk|]. intros _. apply cpres_bind; [apply cpres_need_upper|]. intros _.
  apply cpres_lookup_then. intros s HC Hnw.
  apply (cpres_on_upper p (fun r _ => h_chmod (r_path r) mode)); auto.
  - intros r t. apply shape_safe_update. apply attr_set_mode.
  - apply cpres_bind; [apply cpres_first_tree|]. intros rt. apply cpres_ret.
Qed.
Lemma cpres_truncate p size : cpres (step (OTruncate p size)).
Proof.
  cbn [step]. apply cpres_bind; [apply cpres_walk|]. intros _. apply cpres_bind; [apply cpres_need_upper|]. intros _.
  apply cpres_lookup_then. intros s HC Hnw.
  apply (cpres_on_upper p (fun r _ => h_setdata (r_path r) (resize (N.to_nat size)))); auto.
  - intros r t. apply shape_safe_setdata.
  - apply cpres_bind; [apply cpres_first_tree|]. intros rt. apply cpres_ret.
Qed.
Lemma cpres_setxattr p k v : is_opq_name k = false -> cpres (step (OSetxattr p k v)).
Proof.
  intros Hk. cbn [step]. apply cpres_bind; [apply cpres_walk|]. intros _.
  apply cpres_checked_then. intros s HC Hnw.
  apply (cpres_on_upper p (fun r _ => h_setxattr (r_path r) k v)); auto.
  - intros r t. apply shape_safe_update. apply attr_set_xs. exact Hk.
  - apply cpres_ret.
Qed.
Lemma cpres_removexattr p k : is_opq_name k = false -> cpres (step (ORemovexattr p k)).
Proof.
  intros Hk. cbn [step]. apply cpres_bind; [apply cpres_walk|]. intros _.
  apply cpres_checked_then. intros s HC Hnw.
  apply (cpres_on_upper p (fun r _ => h_removexattr (r_path r) k)); auto.
  - intros r t. apply shape_safe_removexattr. exact Hk.
  - apply cpres_ret.
Qed.

(* open: coherent afterwards, and a handle obtained for writing refers to layer 0 *)
Lemma do_open_coherent p fl s : Coherent s ->
  Coherent (snd (do_open p fl s)) /\ (forall r, fst (do_open p fl s) = Ok r -> of_readonly fl = false -> r_layer r = 0%nat).
Proof.
  intros HC. destruct (do_open p fl s) as [res s'] eqn:Hrun. cbn [fst snd]. unfold do_open in Hrun.
  unfold bind at 1 in Hrun. destruct (lookup_node p None s) as [[q|e] s1] eqn:E0.
  2:{ pose proof (cpres_lookup_node p None s HC) as H. rewrite E0 in H. inversion Hrun; subst. split; [exact H|discriminate]. }
  destruct (lookup_none_ok p s q s1 HC E0) as [HC1 Hnw].
  unfold bind at 1 in Hrun. unfold get_node at 1 in Hrun. destruct (nget p (root s1)) as [n|] eqn:Hg; [|inversion Hrun; subst; split; [exact HC1|discriminate]].
  destruct (n_wh n); [inversion Hrun; subst; split; [exact HC1|discriminate]|].
  unfold bind at 1 in Hrun.
  destruct ((if of_readonly fl then ret tt else copy_node_up p) s1) as [r1 s2] eqn:E1.
  assert (H2 : Coherent s2 /\ (r1 = Ok tt -> of_readonly fl = false -> upper_at' p s2)).
  { destruct (of_readonly fl).
    - inversion E1; subst. split; [exact HC1|discriminate].
    - assert (Hnw' : forall n0, nget p (root s1) = Some n0 -> n_wh n0 = false) by (intros n0 H0; apply Hnw; rewrite Hg in H0; exact H0).
      destruct (cnu_coherent p s1 r1 s2 HC1 Hnw' E1) as (A1 & _ & _ & _ & B1). auto. }
  destruct H2 as [HC2 Hup2]. destruct r1 as [[]|e]; [|inversion Hrun; subst; split; [exact HC2|discriminate]]. specialize (Hup2 eq_refl).
  unfold bind at 1 in Hrun. unfold get_node at 1 in Hrun. destruct (nget p (root s2)) as [n2|] eqn:Hg2; [|inversion Hrun; subst; split; [exact HC2|discriminate]].
  unfold bind at 1 in Hrun. unfold first_real in Hrun. destruct (n_reals n2) as [|r rs] eqn:Er; [inversion Hrun; subst; split; [exact HC2|discriminate]|].
  cbn [ret] in Hrun. unfold bind at 1 in Hrun. destruct (real_tree s2 r) as [t|]; [|inversion Hrun; subst; split; [exact HC2|discriminate]].
  assert (Hl0 : of_readonly fl = false -> r_layer r = 0%nat).
  { intros Hf. pose proof (Hup2 Hf n2 Hg2) as Hu. unfold in_upper in Hu. rewrite Er in Hu.
    pose proof HC2 as (_ & _ & HCT2). pose proof (HCT2 p n2 Hg2) as N2. cbn [app] in N2.
    destruct (first_upper_stack s2 p n2 r rs N2 Er Hu) as (H0 & _). exact H0. }
  destruct t.
  - destruct (of_readonly fl); inversion Hrun; subst; (split; [exact HC2|]); [intros r0 H0 Hf; discriminate|discriminate].
  - unfold bind at 1 in Hrun. destruct (of_trunc fl) eqn:Et.
    + assert (Hf : of_readonly fl = false) by (apply of_trunc_not_readonly; exact Et).
      rewrite (Hl0 Hf) in Hrun.
      destruct (mutate 0 (h_setdata (r_path r) (fun _ => [])) s2) as [r2 s3] eqn:Em.
      pose proof (mutate0_safe _ s2 r2 s3 (shape_safe_setdata _ _) HC2 Em) as HC3.
      destruct r2 as [[]|e]; inversion Hrun; subst; (split; [exact HC3|]); [|discriminate].
      intros r0 H0 _. inversion H0; subst. exact (Hl0 Hf).
    + cbn [ret] in Hrun. inversion Hrun; subst. split; [exact HC2|]. intros r0 H0 Hf. inversion H0; subst. exact (Hl0 Hf).
  - inversion Hrun; subst. split; [exact HC2|discriminate].
  - inversion Hrun; subst. split; [exact HC2|discriminate].
Qed.
Lemma cpres_open p fl : cpres (step (OOpen p fl)).
Proof.
  cbn [step]. apply cpres_bind; [apply cpres_walk|]. intros _.
  apply cpres_bind; [intros s HC; apply (do_open_coherent p fl s HC)|]. intros r. apply cpres_ret.
Qed.
Lemma cpres_write p off data : cpres (step (OWrite p off data)).
Proof.
  cbn [step]. apply cpres_bind; [apply cpres_walk|]. intros _.
  intros s HC. unfold bind at 1. destruct (do_open_coherent p OF_W s HC) as [HC1 Hl].
  destruct (do_open p OF_W s) as [[r|e] s1]; cbn [fst snd] in *; [|exact HC1].
  rewrite (Hl r eq_refl eq_refl). unfold bind at 1.
  destruct (mutate 0 (h_setdata (r_path r) (write_at (N.to_nat off) data)) s1) as [r2 s2] eqn:Em.
  pose proof (mutate0_safe _ s1 r2 s2 (shape_safe_setdata _ _) HC1 Em) as HC2.
  destruct r2 as [[]|e]; exact HC2.
Qed.

(* ------------------------------------------------------------------ do_rm in general (rmdir): the directory may have been emptied
   by empty_node_directory, i.e. the state differs from a coherent one strictly below the removed path *)
Lemma adel_amap {A} k (f : A -> A) l : adel k (amap k f l) = adel k l.
Proof.
  unfold amap. induction l as [|[a x] l IH]; cbn [map adel fst snd]; [reflexivity|].
  destruct (String.eqb k a) eqn:E; cbn [adel fst]; rewrite E; [exact IH|rewrite IH; reflexivity].
Qed.
Lemma nupd_ext pp g g' : (forall n, g n = g' n) -> forall r, nupd pp g r = nupd pp g' r.
Proof.
  intros H. induction pp as [|c pp IH]; intros r; cbn [nupd]; [apply H|]. f_equal. apply amap_ext. exact IH.
Qed.
Definition rm_tail2 (pp : path) (nm : name) (dir : bool) (c pn' : node) (need0 : bool) : M unit :=
  need <- (if in_upper c then
             pr <- upper_real pn' EINVAL ;;
             mutate (r_layer pr) (if dir then h_rmdir (r_path pr) nm else h_unlink (r_path pr) nm) ;;;
             ret (need0 && negb (r_opq pr))
           else ret need0) ;;
  remove_child pp nm ;;;
  if need then
    pn'' <- get_node pp ;;
    pr <- upper_real pn'' EINVAL ;;
    ri <- ri_whiteout pr nm ;;
    insert_child pp nm (new_node ri)
  else ret tt.

Lemma rm_ok_shape (pp : path) (nm : name) (dir : bool) U Ua : (if dir then h_rmdir pp nm else h_unlink pp nm) U = Ok Ua -> Ua = tupd pp (dir_del nm) U.
Proof.
  destruct dir; [unfold h_rmdir|unfold h_unlink]; destruct (tget U pp) as [[m x ch| | |]|]; try discriminate;
    destruct (afind nm ch) as [[m' x' [|? ?]| | |]|]; try discriminate; intros H; inversion H; reflexivity.
Qed.

Lemma rm_tail2_coherent (pp : path) (nm : name) dir s0 s3 U0 h hn c0 pn0 need0 r s' :
  Coherent s0 -> upper s0 = Some U0 ->
  nget (pp ++ [nm]) (root s0) = Some c0 -> nget pp (root s0) = Some pn0 -> upper_at' pp s0 ->
  (forall m, n_reals (hn m) = n_reals m) ->
  upper s3 = Some (tupd (pp ++ [nm]) h U0) -> lowers s3 = lowers s0 -> root s3 = nupd (pp ++ [nm]) hn (root s0) ->
  (in_upper c0 = false -> upper s3 = Some U0 /\ root s3 = root s0) ->
  (need0 = false -> upper_only c0 = true /\ lower_has_child s0 (n_reals pn0) nm = Ok false) ->
  rm_tail2 pp nm dir (hn c0) (Node (n_reals pn0) (n_wh pn0) (n_loaded pn0) (amap nm hn (n_ch pn0))) need0 s3 = (r, s') ->
  (* either the removal on disk failed and nothing changed since s3, or the result is coherent *)
  (s' = s3 /\ exists e, (if dir then h_rmdir pp nm else h_unlink pp nm) (tupd (pp ++ [nm]) h U0) = Err e) \/ Coherent s'.
Proof.
  intros HC0 HU0 Hq0 Hg0 Hup0 Hhn Hu3 Hl3 Hr3 HB Hneed0 Hrun. unfold rm_tail2 in Hrun.
  pose proof (Hup0 pn0 Hg0) as Hpu. unfold in_upper in Hpu.
  destruct (n_reals pn0) as [|pr prs] eqn:Epr; [discriminate|].
  pose proof HC0 as (_ & Hwl0 & HCT0). pose proof (HCT0 pp pn0 Hg0) as Npn0. cbn [app] in Npn0.
  destruct (first_upper_stack s0 pp pn0 pr prs Npn0 Epr Hpu) as (Hl0 & Hpp & rest & Hstk).
  pose proof (nget_child pp nm (root s0) pn0 c0 Hg0 Hq0) as Hch0.
  assert (Hld0 : n_loaded pn0 = true).
  { destruct (n_loaded pn0) eqn:El; [reflexivity|]. rewrite (ok_unl _ _ _ _ Npn0 El) in Hch0. discriminate. }
  destruct (ok_ld _ _ _ _ Npn0 Hld0) as (_ & Fd0 & _). rewrite Epr in Fd0. cbn in Fd0.
  assert (Hrg : rgood (shp s0) pp pr) by (pose proof (ok_reals _ _ _ _ Npn0) as G; rewrite Epr in G; exact (Forall_inv G)).
  assert (Hpd : exists o, shp s0 0%nat pp = Some (SDir o)).
  { destruct Hrg as (_ & _ & Hs). rewrite Hl0 in Hs. destruct (shp s0 0%nat pp) as [[o|w]|]; [eauto| |contradiction]. destruct Hs as (_ & Hd & _). congruence. }
  destruct Hpd as [o Hpd]. destruct (shp_zero_dir s0 U0 pp o HU0 Hpd) as (m & x & ch & Etg).
  assert (Hpd' : shp s0 0%nat pp = Some (SDir (xs_opaque x))) by (apply (sh_dir_of_tget s0 U0 pp m x ch HU0 Etg)).
  pose proof (HCT0 _ _ Hq0) as Nc. cbn [app] in Nc.
  destruct (first_good_stat s0 _ _ c0 Nc) as (rc1 & rcs & tc & Erc & Etc & _ & Hwtc & _ & Hpc).
  pose proof (ok_reals _ _ _ _ Nc) as Gc. rewrite Erc in Gc. pose proof (Forall_inv Gc) as (_ & Hupc & _).
  assert (Hag0 : forall i p', ~ is_prefix (pp ++ [nm]) p' -> shp s0 i p' = shp s0 i p') by reflexivity.
  pose proof (kids_old (shp s0) (shp s0) (List.length (lowers s0)) pp nm Hag0 (fun j p' => eq_refl) rest _ Hstk Hpd') as Ko.
  set (whri := mkReal 0 true (pp ++ [nm]) true false false).
  assert (Hwf' : forall G, (forall d, wf d -> wf (chmap G d)) -> forall s4, upper s4 = Some (tupd pp (chmap G) U0) -> lowers s4 = lowers s0 -> wf_layers s4).
  { intros G HGw s4 A B. apply (wf_layers_set_upper s0 s4 _ Hwl0 A B). apply layer_ok_tupd; [exact HGw| |apply (Hwl0 0%nat U0); cbn; exact HU0].
    intros d Hd. destruct d; try discriminate. reflexivity. }
  (* removing the child nm of pp forgets whatever happened below it *)
  assert (Hdelroot : nupd pp (fun n => Node (n_reals n) (n_wh n) (n_loaded n) (adel nm (n_ch n))) (root s3) =
                     nupd pp (fun n => Node (n_reals n) (n_wh n) (n_loaded n) (adel nm (n_ch n))) (root s0)).
  { rewrite Hr3, nupd_app, nupd_nupd. apply nupd_ext. intros n. cbn [n_reals n_wh n_loaded n_ch]. rewrite adel_amap. reflexivity. }
  assert (Hdelup : tupd pp (dir_del nm) (tupd (pp ++ [nm]) h U0) = tupd pp (dir_del nm) U0).
  { rewrite tupd_snoc, tupd_tupd. apply tupd_ext. intros d. destruct d; try reflexivity. cbn [chmap dir_del]. rewrite adel_amap. reflexivity. }
  unfold in_upper in Hrun. rewrite Hhn, Erc in Hrun.
  destruct (r_upper rc1) eqn:Euc.
  - symmetry in Hupc. apply Nat.eqb_eq in Hupc.
    assert (Enm : afind nm ch = Some tc).
    { rewrite Hupc in Etc. unfold ent in Etc. cbn [get_layer] in Etc. rewrite HU0, (tget_snoc U0 pp nm), Etg in Etc. exact Etc. }
    unfold bind at 1 in Hrun. unfold bind at 1 in Hrun. unfold upper_real in Hrun. cbn [n_reals] in Hrun. rewrite Hpu in Hrun. cbn [ret] in Hrun.
    unfold bind at 1 in Hrun. rewrite Hl0, Hpp in Hrun.
    destruct (mutate 0 (if dir then h_rmdir pp nm else h_unlink pp nm) s3) as [[[]|e] s4] eqn:Em.
    2:{ pose proof (mutate0_same _ _ _ _ Em). subst s4. inversion Hrun; subst r s'. left. split; [reflexivity|]. exists e.
        unfold mutate in Em. cbn [get_layer] in Em. rewrite Hu3 in Em.
        destruct ((if dir then h_rmdir pp nm else h_unlink pp nm) (tupd (pp ++ [nm]) h U0)); inversion Em; reflexivity. }
    right.
    destruct (mutate0_spec _ _ _ Em) as (U & Ua & HU & Hul & Hu4 & Hl4 & Hr4). rewrite Hu3 in HU. inversion HU; subst U; clear HU.
    pose proof (rm_ok_shape pp nm dir _ _ Hul) as HUa. rewrite Hdelup in HUa. subst Ua. clear Hul.
    cbn [ret] in Hrun. unfold bind at 1 in Hrun. unfold remove_child, mod_node in Hrun. cbn [fst snd] in Hrun.
    rewrite Hr4, Hdelroot in Hrun.
    set (need := need0 && negb (r_opq pr)) in Hrun.
    destruct need eqn:Eneed.
    + unfold bind at 1 in Hrun. unfold get_node at 1 in Hrun. cbn [root] in Hrun. rewrite nget_nupd, Hg0 in Hrun. cbn [option_map] in Hrun.
      unfold bind at 1 in Hrun. unfold upper_real in Hrun. cbn [n_reals] in Hrun. rewrite Epr, Hpu in Hrun. cbn [ret] in Hrun.
      unfold bind at 1 in Hrun. unfold ri_whiteout, ri_guard in Hrun. rewrite Hpu, Hl0, Hpp in Hrun.
      unfold bind at 1 in Hrun. cbn [ret] in Hrun. unfold bind at 1 in Hrun.
      set (s5 := mkState (upper s4) (lowers s4) (nupd pp (fun n => Node (n_reals n) (n_wh n) (n_loaded n) (adel nm (n_ch n))) (root s0)) (next_ino s4) (log s4)) in *.
      assert (Em5 : mutate 0 (h_create_whiteout pp nm) s5 = (Ok tt, set_layer s5 0 (tupd pp (dir_ins nm Wh) (tupd pp (dir_del nm) U0)))).
      { apply (mutate0_ok _ s5 (tupd pp (dir_del nm) U0)); [exact Hu4|].
        unfold h_create_whiteout. rewrite (tget_snoc _ pp nm), tget_tupd, Etg. cbn [option_map dir_del]. rewrite afind_adel, String.eqb_refl.
        unfold h_insert. rewrite tget_tupd, Etg. cbn [option_map dir_del]. rewrite afind_adel, String.eqb_refl. reflexivity. }
      rewrite Em5 in Hrun. cbn [ret] in Hrun. unfold insert_child, mod_node in Hrun. inversion Hrun; subst r s'; clear Hrun.
      set (G := fun l : list (name * tree) => aset nm Wh (adel nm l)).
      apply (leaf_block s0 _ U0 pp nm G Wh pn0 rest m x ch whri).
      * exact HC0.
      * exact HU0.
      * exact Etg.
      * intros k Hk. apply String.eqb_neq in Hk. unfold G. rewrite afind_aset, Hk, afind_adel, Hk. reflexivity.
      * unfold G. rewrite afind_aset, String.eqb_refl. reflexivity.
      * intros k r0. reflexivity.
      * cbn [upper set_layer s5]. rewrite Hu4. f_equal. rewrite tupd_tupd. apply tupd_ext. intros d. destruct d; reflexivity.
      * cbn [lowers set_layer s5]. congruence.
      * apply (Hwf' G).
        -- intros d Hd. destruct d; try exact Hd. inversion Hd as [? ? ? Hn Hall| | |]; subst. cbn [chmap]. unfold G. constructor.
           ++ apply keys_aset. apply keys_adel_nodup. exact Hn.
           ++ apply Forall_aset; [apply Forall_adel; exact Hall|constructor].
        -- cbn [upper set_layer s5]. rewrite Hu4. f_equal. rewrite tupd_tupd. apply tupd_ext. intros d. destruct d; reflexivity.
        -- cbn [lowers set_layer s5]. congruence.
      * exact Hg0.
      * exact Hld0.
      * exact Hstk.
      * cbn. repeat split; auto.
      * left. reflexivity.
      * exists (fun pn1 => Node (n_reals pn1) (n_wh pn1) (n_loaded pn1) (aset nm (new_node whri) (adel nm (n_ch pn1)))).
        split; [cbn [root set_layer s5]; rewrite nupd_nupd; reflexivity|]. cbn [n_reals n_wh n_loaded n_ch].
        repeat split; auto.
        -- apply keys_aset. apply keys_adel_nodup. apply Npn0.
        -- rewrite afind_aset, String.eqb_refl. reflexivity.
        -- intros k Hk. apply String.eqb_neq in Hk. rewrite afind_aset, Hk, afind_adel, Hk. reflexivity.
    + cbn [ret] in Hrun. inversion Hrun; subst r s'; clear Hrun.
      assert (Hlc : lowerc (shp s0) pp nm rest = []).
      { unfold need in Eneed. apply andb_false_iff in Eneed. destruct Eneed as [E|E].
        - destruct (Hneed0 E) as [_ Hlhc]. rewrite <- Epr in Hlhc. apply (lowerc_of_lhc s0 pp nm pn0 rest _ Hwl0 Npn0 Hstk Hpd' Hlhc).
        - apply negb_false_iff in E. destruct Hrg as (_ & _ & Hs). rewrite Hl0, Hpd' in Hs. destruct Hs as (_ & _ & Ho).
          specialize (Ho E). unfold lowerc. cbn [dcut]. rewrite Hpd', Ho. reflexivity. }
      apply (del_block s0 _ U0 pp nm (adel nm) pn0 rest m x ch).
      * exact HC0.
      * exact HU0.
      * exact Etg.
      * intros k Hk. apply String.eqb_neq in Hk. rewrite afind_adel, Hk. reflexivity.
      * rewrite afind_adel, String.eqb_refl. reflexivity.
      * cbn [upper]. rewrite Hu4. reflexivity.
      * cbn [lowers]. congruence.
      * apply (Hwf' (adel nm)).
        -- intros d Hd. apply wf_chmap_adel. exact Hd.
        -- cbn [upper]. rewrite Hu4. reflexivity.
        -- cbn [lowers]. congruence.
      * exact Hg0.
      * exact Hld0.
      * exact Hstk.
      * exact Hlc.
      * exists (fun pn1 => Node (n_reals pn1) (n_wh pn1) (n_loaded pn1) (adel nm (n_ch pn1))).
        split; [cbn [root]; reflexivity|]. cbn [n_reals n_wh n_loaded n_ch]. repeat split; auto.
        -- apply keys_adel_nodup. apply Npn0.
        -- rewrite afind_adel, String.eqb_refl. reflexivity.
        -- intros k Hk. apply String.eqb_neq in Hk. rewrite afind_adel, Hk. reflexivity.
  - right. symmetry in Hupc. apply Nat.eqb_neq in Hupc.
    assert (Hiu : in_upper c0 = false) by (unfold in_upper; rewrite Erc; exact Euc).
    destruct (HB Hiu) as [Hu3' Hr3'].
    assert (Huo : upper_only c0 = false) by (unfold upper_only; rewrite Erc; destruct rcs; [exact Euc|reflexivity]).
    assert (need0 = true).
    { destruct need0; [reflexivity|]. destruct (Hneed0 eq_refl) as [H _]. congruence. }
    subst need0.
    assert (Enm : afind nm ch = None).
    { destruct (afind nm ch) as [y|] eqn:Ey; [|reflexivity]. exfalso.
      pose proof (ok_hd _ _ _ _ Nc) as Hh. rewrite Erc in Hh. cbn [map hd_error] in Hh. rewrite lstack_snoc, Ko in Hh.
      assert (Hp0 : present (shp s0) (pp ++ [nm]) 0%nat = true).
      { unfold present, shp, ent. cbn [get_layer]. rewrite HU0, (tget_snoc U0 pp nm), Etg, Ey. reflexivity. }
      rewrite Hp0 in Hh. cbn in Hh. inversion Hh. congruence. }
    unfold bind at 1 in Hrun. cbn [ret] in Hrun. unfold bind at 1 in Hrun. unfold remove_child, mod_node in Hrun. cbn [fst snd] in Hrun.
    rewrite Hr3' in Hrun.
    unfold bind at 1 in Hrun. unfold get_node at 1 in Hrun. cbn [root] in Hrun. rewrite nget_nupd, Hg0 in Hrun. cbn [option_map] in Hrun.
    unfold bind at 1 in Hrun. unfold upper_real in Hrun. cbn [n_reals] in Hrun. rewrite Epr, Hpu in Hrun. cbn [ret] in Hrun.
    unfold bind at 1 in Hrun. unfold ri_whiteout, ri_guard in Hrun. rewrite Hpu, Hl0, Hpp in Hrun.
    unfold bind at 1 in Hrun. cbn [ret] in Hrun. unfold bind at 1 in Hrun.
    set (s5 := mkState (upper s3) (lowers s3) (nupd pp (fun n => Node (n_reals n) (n_wh n) (n_loaded n) (adel nm (n_ch n))) (root s0)) (next_ino s3) (log s3)) in *.
    assert (Em5 : mutate 0 (h_create_whiteout pp nm) s5 = (Ok tt, set_layer s5 0 (tupd pp (dir_ins nm Wh) U0))).
    { apply (mutate0_ok _ s5 U0); [exact Hu3'|].
      unfold h_create_whiteout. rewrite (tget_snoc _ pp nm), Etg, Enm. unfold h_insert. rewrite Etg, Enm. reflexivity. }
    rewrite Em5 in Hrun. cbn [ret] in Hrun. unfold insert_child, mod_node in Hrun. inversion Hrun; subst r s'; clear Hrun.
    apply (leaf_block s0 _ U0 pp nm (aset nm Wh) Wh pn0 rest m x ch whri).
    + exact HC0.
    + exact HU0.
    + exact Etg.
    + intros k Hk. apply String.eqb_neq in Hk. rewrite afind_aset, Hk. reflexivity.
    + rewrite afind_aset, String.eqb_refl. reflexivity.
    + intros k r0. reflexivity.
    + cbn [upper set_layer s5]. rewrite Hu3'. reflexivity.
    + cbn [lowers set_layer s5]. exact Hl3.
    + apply (Hwf' (aset nm Wh)).
      * intros d Hd. apply wf_chmap_aset; [exact Hd|constructor].
      * cbn [upper set_layer s5]. rewrite Hu3'. reflexivity.
      * cbn [lowers set_layer s5]. exact Hl3.
    + exact Hg0.
    + exact Hld0.
    + exact Hstk.
    + cbn. repeat split; auto.
    + left. reflexivity.
    + exists (fun pn1 => Node (n_reals pn1) (n_wh pn1) (n_loaded pn1) (aset nm (new_node whri) (adel nm (n_ch pn1)))).
      split; [cbn [root set_layer s5]; rewrite nupd_nupd; reflexivity|]. cbn [n_reals n_wh n_loaded n_ch].
      repeat split; auto.
      * apply keys_aset. apply keys_adel_nodup. apply Npn0.
      * rewrite afind_aset, String.eqb_refl. reflexivity.
      * intros k Hk. apply String.eqb_neq in Hk. rewrite afind_aset, Hk, afind_adel, Hk. reflexivity.
Qed.

Lemma amap_id {A} c (l : list (string * A)) : amap c (fun x => x) l = l.
Proof. unfold amap. induction l as [|[k v] l IH]; cbn [map fst snd]; [reflexivity|]. rewrite IH. destruct (String.eqb c k); reflexivity. Qed.
Lemma tupd_id pp : forall U, tupd pp (fun t => t) U = U.
Proof.
  induction pp as [|c pp IH]; intros U; cbn [tupd]; [reflexivity|]. destruct U; try reflexivity.
  f_equal. rewrite (amap_ext c _ (fun x => x) ch IH). apply amap_id.
Qed.
Lemma nupd_id pp : forall r, nupd pp (fun n => n) r = r.
Proof.
  induction pp as [|c pp IH]; intros r; cbn [nupd]; [reflexivity|].
  rewrite (amap_ext c _ (fun x => x) (n_ch r) IH), amap_id. destruct r; reflexivity.
Qed.
Definition dels {A} (D : list string) (l : list (string * A)) : list (string * A) := fold_left (fun l k => adel k l) D l.
Lemma afind_dels {A} k D : forall (l : list (string * A)), afind k (dels D l) = if existsb (String.eqb k) D then None else afind k l.
Proof.
  induction D as [|d D IH]; intros l; cbn [dels fold_left existsb]; [reflexivity|].
  change (fold_left (fun l0 k0 => adel k0 l0) D (adel d l)) with (dels D (adel d l)). rewrite IH, afind_adel.
  destruct (String.eqb k d); cbn [orb]; [destruct (existsb (String.eqb k) D); reflexivity|reflexivity].
Qed.
Lemma all_none_nil {A} (l : list (string * A)) : (forall k, afind k l = None) -> l = [].
Proof. destruct l as [|[k v] l]; [reflexivity|]. intros H. specialize (H k). cbn [afind] in H. rewrite String.eqb_refl in H. discriminate. Qed.
Lemma afind_In {A} k (c : A) l : afind k l = Some c -> In (k, c) l.
Proof.
  induction l as [|[a x] l IH]; cbn [afind]; [discriminate|]. destruct (String.eqb k a) eqn:E.
  - apply String.eqb_eq in E; subst. intros H; inversion H; subst. left; reflexivity.
  - intros H. right. auto.
Qed.
Lemma filter_len0 {A} (f : A -> bool) l x : List.length (filter f l) = 0%nat -> In x l -> f x = false.
Proof.
  induction l as [|a l IH]; intros H Hi; [destruct Hi|]. cbn [filter] in H. destruct (f a) eqn:E; [discriminate|].
  destruct Hi as [->|Hi]; [exact E|auto].
Qed.
Lemma lhc_lowers s s' rs nm : lowers s' = lowers s -> Forall (fun r => r_upper r = Nat.eqb (r_layer r) 0) rs ->
  lower_has_child s' rs nm = lower_has_child s rs nm.
Proof.
  intros Hl. induction rs as [|r rs IH]; intros F; cbn [lower_has_child]; [reflexivity|].
  inversion F as [|? ? Hr F']; subst. rewrite (IH F').
  destruct (r_upper r) eqn:Eu; cbn [orb]; [reflexivity|].
  assert (real_tree s' r = real_tree s r) as ->; [|reflexivity].
  unfold real_tree. symmetry in Hr. apply Nat.eqb_neq in Hr. destruct (r_layer r) as [|j]; [congruence|]. cbn [get_layer]. rewrite Hl. reflexivity.
Qed.
Lemma parent_in_upper s (pp : path) (nm : name) pn c : Coherent s -> nget pp (root s) = Some pn -> nget (pp ++ [nm]) (root s) = Some c ->
  in_upper c = true -> in_upper pn = true.
Proof.
  intros HC Hg Hq Hiu. pose proof HC as (_ & _ & HCT).
  pose proof (HCT _ _ Hq) as Nc. pose proof (HCT _ _ Hg) as Np. cbn [app] in Nc, Np.
  pose proof (ok_ne _ _ _ _ Nc) as Hnec. unfold in_upper in Hiu. destruct (n_reals c) as [|rc rcs] eqn:Erc; [contradiction|].
  destruct (first_upper_stack s _ c rc rcs Nc Erc Hiu) as (_ & _ & rest & Hst).
  rewrite lstack_snoc in Hst.
  assert (H0 : In 0%nat (lstack (shp s) (List.length (lowers s)) pp)).
  { assert (H : In 0%nat (kids (shp s) pp (lstack (shp s) (List.length (lowers s)) pp) nm)) by (rewrite Hst; left; reflexivity).
    unfold kids in H. apply filter_In in H. destruct H as [H _].
    apply (incr_dcut (shp s) pp _ (incr_lstack (shp s) (List.length (lowers s)) pp)) in H. exact H. }
  destruct (incr_zero_head _ (incr_lstack (shp s) (List.length (lowers s)) pp) H0) as [r' Hr'].
  pose proof (ok_hd _ _ _ _ Np) as Hh. pose proof (ok_reals _ _ _ _ Np) as Hr. pose proof (ok_ne _ _ _ _ Np) as Hne.
  unfold in_upper. destruct (n_reals pn) as [|r rs]; [contradiction|]. cbn [map hd_error] in Hh.
  pose proof (Forall_inv Hr) as (_ & Hu & _). rewrite Hu. apply Nat.eqb_eq. rewrite Hr' in Hh. cbn in Hh. congruence.
Qed.

Definition rm_post (pp : path) (nm : name) (dir : bool) : M unit :=
  copy_node_up pp ;;;
  n2 <- get_node (pp ++ [nm]) ;;
  pn' <- get_node pp ;;
  need0 <- (if upper_only n2
            then fun s => match lower_has_child s (n_reals pn') nm with Ok b => (Ok b, s) | Err e => (Err e, s) end
            else ret true) ;;
  rm_tail2 pp nm dir n2 pn' need0.

Lemma rm_post_plain (pp : path) (nm : name) dir s2 pn2 c :
  Coherent s2 -> nget pp (root s2) = Some pn2 -> n_wh pn2 = false -> nget (pp ++ [nm]) (root s2) = Some c ->
  Coherent (snd (rm_post pp nm dir s2)).
Proof.
  intros HC2 Hg2 Hw2 Hqc. destruct (rm_post pp nm dir s2) as [r s'] eqn:Hrun. cbn [snd]. unfold rm_post in Hrun.
  unfold bind at 1 in Hrun. destruct (copy_node_up pp s2) as [rc s3] eqn:Ecu.
  destruct (cnu_coherent pp s2 rc s3 HC2) as (HC3 & SP3 & Hl3 & Fr3 & Hup3); [intros n0 Hn0; rewrite Hg2 in Hn0; inversion Hn0; subst; exact Hw2|exact Ecu|].
  destruct rc as [[]|e]; [|inversion Hrun; subst; exact HC3]. specialize (Hup3 eq_refl).
  assert (Hq3 : nget (pp ++ [nm]) (root s3) = Some c) by (rewrite (Fr3 (pp ++ [nm]) (not_prefix_snoc pp nm)); exact Hqc).
  unfold bind at 1 in Hrun. unfold get_node at 1 in Hrun. rewrite Hq3 in Hrun.
  destruct (same_paths_some s2 s3 pp pn2 SP3 Hg2) as (pn3 & Hg3 & _).
  unfold bind at 1 in Hrun. unfold get_node at 1 in Hrun. rewrite Hg3 in Hrun.
  unfold bind at 1 in Hrun.
  pose proof HC3 as ([U3 HU3] & _).
  assert (Hpn3 : pn3 = Node (n_reals pn3) (n_wh pn3) (n_loaded pn3) (amap nm (fun n : node => n) (n_ch pn3))) by (rewrite amap_id; destruct pn3; reflexivity).
  assert (Fin : forall need0, (need0 = false -> upper_only c = true /\ lower_has_child s3 (n_reals pn3) nm = Ok false) ->
                rm_tail2 pp nm dir c pn3 need0 s3 = (r, s') -> Coherent s').
  { intros need0 Hn0 Hr. rewrite Hpn3 in Hr.
    destruct (rm_tail2_coherent pp nm dir s3 s3 U3 (fun t => t) (fun n => n) c pn3 need0 r s' HC3 HU3 Hq3 Hg3 Hup3) as [[-> _]|H]; auto.
    - rewrite tupd_id. exact HU3.
    - rewrite nupd_id. reflexivity. }
  destruct (upper_only c) eqn:Euo.
  - destruct (lower_has_child s3 (n_reals pn3) nm) as [b|e] eqn:Elhc; [|inversion Hrun; subst; exact HC3].
    apply (Fin b); [|exact Hrun]. intros ->. auto.
  - cbn [ret] in Hrun. apply (Fin true); [discriminate|exact Hrun].
Qed.

Definition delsn (D : list string) (n : node) : node := Node (n_reals n) (n_wh n) (n_loaded n) (dels D (n_ch n)).
Lemma empty_children_run (q : path) : forall cs s U m x ch,
  upper s = Some U -> tget U q = Some (Dir m x ch) ->
  (forall k c', In (k, c') cs -> in_upper c' = true -> n_wh c' = true /\ afind k ch = Some Wh) ->
  NoDup (map fst cs) ->
  exists s', empty_children q 0 q cs s = (Ok tt, s') /\
    upper s' = Some (tupd q (chmap (dels (map fst (filter (fun kv => in_upper (snd kv)) cs)))) U) /\
    lowers s' = lowers s /\
    root s' = nupd q (delsn (map fst (filter (fun kv => in_upper (snd kv)) cs))) (root s).
Proof.
  induction cs as [|[k c'] cs IH]; intros s U m x ch HU Etg Hall Hnd.
  - exists s. cbn [empty_children ret filter map]. split; [reflexivity|]. split.
    + rewrite HU. f_equal. rewrite (tupd_ext q _ (fun t => t)); [rewrite tupd_id; reflexivity|]. intros d. destruct d; reflexivity.
    + split; [reflexivity|]. rewrite (nupd_ext q _ (fun n => n)); [rewrite nupd_id; reflexivity|]. intros n. destruct n; reflexivity.
  - cbn [empty_children filter snd]. inversion Hnd as [|? ? Hnot Hnd']; subst.
    destruct (in_upper c') eqn:Eiu.
    + destruct (Hall k c' (or_introl eq_refl) Eiu) as [Hw Hk]. rewrite Hw.
      assert (Hdw : h_delete_whiteout q k U = Ok (tupd q (dir_del k) U)).
      { unfold h_delete_whiteout. rewrite (tget_snoc U q k), Etg, Hk. unfold h_unlink. rewrite Etg, Hk. reflexivity. }
      unfold bind at 1. unfold bind at 1. rewrite (mutate0_ok _ s U _ HU Hdw).
      unfold remove_child, mod_node. cbn [fst snd].
      set (s1 := mkState _ _ _ _ _).
      destruct (IH s1 (tupd q (dir_del k) U) m x (adel k ch)) as (s' & Hrun & Hu' & Hl' & Hr').
      * unfold s1. cbn [upper set_layer]. rewrite HU. reflexivity.
      * rewrite tget_tupd, Etg. reflexivity.
      * intros k2 c2 Hin Hiu2. destruct (Hall k2 c2 (or_intror Hin) Hiu2) as [A B]. split; [exact A|].
        rewrite afind_adel. destruct (String.eqb k2 k) eqn:E; [|exact B]. apply String.eqb_eq in E; subst k2.
        exfalso. apply Hnot. cbn [fst]. apply (in_map fst _ _ Hin).
      * exact Hnd'.
      * exists s'. split; [exact Hrun|]. cbn [map fst]. split.
        -- rewrite Hu'. f_equal. rewrite tupd_tupd. apply tupd_ext. intros d. destruct d; reflexivity.
        -- split; [rewrite Hl'; reflexivity|]. rewrite Hr'. unfold s1. cbn [root set_layer upper]. rewrite ?HU. cbn [root]. rewrite nupd_nupd. apply nupd_ext.
           intros n. reflexivity.
    + unfold bind at 1. cbn [ret]. apply (IH s U m x ch HU Etg); [|exact Hnd'].
      intros k2 c2 Hin. apply Hall. right. exact Hin.
Qed.


Lemma lhc_no_err s (p : path) rs (nm : name) e :
  Forall (fun r => rgood (shp s) p r /\ (r_upper r = true \/ r_dir r = true)) rs -> lower_has_child s rs nm <> Err e.
Proof.
  induction rs as [|a l IH]; intros F; cbn [lower_has_child]; [discriminate|]. inversion F as [|? ? [Ha Hd] F']; subst.
  destruct (r_upper a || r_wh a) eqn:E1; [apply IH; exact F'|]. apply orb_false_iff in E1. destruct E1 as [E1 _].
  destruct Hd as [Hd|Hd]; [congruence|].
  destruct Ha as (Hp & _ & Hs). rewrite real_tree_ent, Hp. unfold shp in Hs.
  destruct (ent s (r_layer a) p) as [t|]; [|apply IH; exact F'].
  cbn [option_map] in Hs. destruct t; cbn [sh] in Hs; try (destruct Hs as (_ & Hd' & _); congruence).
  destruct (afind nm ch); [discriminate|apply IH; exact F'].
Qed.
Lemma rm_post_emptied (pp : path) (nm : name) s0 s3 U0 D c0 pn0 mq xq chq :
  Coherent s0 -> upper s0 = Some U0 ->
  nget (pp ++ [nm]) (root s0) = Some c0 -> nget pp (root s0) = Some pn0 -> in_upper c0 = true ->
  upper s3 = Some (tupd (pp ++ [nm]) (chmap (dels D)) U0) -> lowers s3 = lowers s0 -> root s3 = nupd (pp ++ [nm]) (delsn D) (root s0) ->
  tget U0 (pp ++ [nm]) = Some (Dir mq xq chq) -> dels D chq = [] ->
  Coherent (snd (rm_post pp nm true s3)).
Proof.
  intros HC0 HU0 Hq0 Hg0 Hiu Hu3 Hl3 Hr3 Etq Hemp.
  destruct (rm_post pp nm true s3) as [r s'] eqn:Hrun. cbn [snd]. unfold rm_post in Hrun.
  pose proof (parent_in_upper s0 pp nm pn0 c0 HC0 Hg0 Hq0 Hiu) as Hpu.
  set (pn3 := Node (n_reals pn0) (n_wh pn0) (n_loaded pn0) (amap nm (delsn D) (n_ch pn0))) in *.
  assert (Hg3 : nget pp (root s3) = Some pn3) by (rewrite Hr3, nupd_app, nget_nupd, Hg0; reflexivity).
  assert (Hq3 : nget (pp ++ [nm]) (root s3) = Some (delsn D c0)) by (rewrite Hr3, nget_nupd, Hq0; reflexivity).
  unfold bind at 1 in Hrun. unfold copy_node_up in Hrun. unfold bind at 1 in Hrun. unfold get_node at 1 in Hrun. rewrite Hg3 in Hrun.
  change (in_upper pn3) with (in_upper pn0) in Hrun. rewrite Hpu in Hrun. cbn [ret] in Hrun.
  unfold bind at 1 in Hrun. unfold get_node at 1 in Hrun. rewrite Hq3 in Hrun.
  unfold bind at 1 in Hrun. unfold get_node at 1 in Hrun. rewrite Hg3 in Hrun.
  unfold bind at 1 in Hrun.
  change (upper_only (delsn D c0)) with (upper_only c0) in Hrun. change (n_reals pn3) with (n_reals pn0) in Hrun.
  pose proof HC0 as (_ & _ & HCT0). pose proof (HCT0 _ _ Hg0) as Np. cbn [app] in Np.
  assert (Hlhc : lower_has_child s3 (n_reals pn0) nm = lower_has_child s0 (n_reals pn0) nm).
  { apply lhc_lowers; [exact Hl3|]. eapply Forall_impl; [|exact (ok_reals _ _ _ _ Np)]. intros a (_ & H & _). exact H. }
  assert (Hup0 : upper_at' pp s0) by (intros n' Hn'; rewrite Hg0 in Hn'; inversion Hn'; subst; exact Hpu).
  assert (Hok : forall e, h_rmdir pp nm (tupd (pp ++ [nm]) (chmap (dels D)) U0) <> Err e).
  { intros e. rewrite (tget_snoc U0 pp nm) in Etq. destruct (tget U0 pp) as [[m x chp| | |]|] eqn:Etp; try discriminate.
    unfold h_rmdir. rewrite tupd_snoc, tget_tupd, Etp. cbn [option_map chmap]. rewrite afind_amap, Etq. cbn [option_map chmap]. rewrite Hemp. discriminate. }
  assert (Fin : forall need0, (need0 = false -> upper_only c0 = true /\ lower_has_child s0 (n_reals pn0) nm = Ok false) ->
                rm_tail2 pp nm true (delsn D c0) pn3 need0 s3 = (r, s') -> Coherent s').
  { intros need0 Hn0 Hr.
    destruct (rm_tail2_coherent pp nm true s0 s3 U0 (chmap (dels D)) (delsn D) c0 pn0 need0 r s' HC0 HU0 Hq0 Hg0 Hup0) as [[_ [e He]]|H]; auto.
    - intros H. congruence.
    - exfalso. exact (Hok e He). }
  destruct (upper_only c0) eqn:Euo.
  - cbv beta in Hrun. rewrite Hlhc in Hrun. destruct (lower_has_child s0 (n_reals pn0) nm) as [b|e] eqn:Elhc.
    + apply (Fin b); [|exact Hrun]. intros ->. auto.
    + exfalso. apply (lhc_no_err s0 pp (n_reals pn0) nm e); [|exact Elhc].
      pose proof (ok_reals _ _ _ _ Np) as Hr. pose proof (ok_tl _ _ _ _ Np) as Ht. unfold in_upper in Hpu.
      destruct (n_reals pn0) as [|a l]; [discriminate|]. cbn [tl] in Ht. inversion Hr; subst.
      constructor; [split; [assumption|left; exact Hpu]|]. rewrite Forall_forall in *. intros r0 Hr0. split; [auto|right; auto].
  - cbn [ret] in Hrun. apply (Fin true); [discriminate|exact Hrun].
Qed.

Lemma load_dir_child_facts (pp : path) (nm : name) s pn c r s1 :
  Coherent s -> nget pp (root s) = Some pn -> nget (pp ++ [nm]) (root s) = Some c -> load_dir (pp ++ [nm]) s = (r, s1) ->
  Coherent s1 /\
  (r = Ok tt -> exists pn1 n1, nget pp (root s1) = Some pn1 /\ n_wh pn1 = n_wh pn /\
                               nget (pp ++ [nm]) (root s1) = Some n1 /\ n_wh n1 = n_wh c /\ n_loaded n1 = true).
Proof.
  intros HC Hg Hq Hrun. pose proof (cpres_load_dir (pp ++ [nm]) s HC) as HC1. rewrite Hrun in HC1. cbn [snd] in HC1.
  split; [exact HC1|]. intros ->.
  unfold load_dir, bind, get_node in Hrun. rewrite Hq in Hrun. destruct (n_loaded c) eqn:El.
  - inversion Hrun; subst. exists pn, c. auto.
  - destruct (scan_children s c) as [cs|e] eqn:Es; [|discriminate]. unfold mod_node in Hrun. inversion Hrun; subst. cbn [root].
    exists (Node (n_reals pn) (n_wh pn) (n_loaded pn) (amap nm (load1 s) (n_ch pn))), (load1 s c).
    split; [rewrite nupd_app, nget_nupd, Hg; reflexivity|]. split; [reflexivity|].
    split; [rewrite nget_nupd, Hq; reflexivity|]. unfold load1. rewrite El, Es. cbn [set_loaded n_wh n_loaded]. auto.
Qed.

Definition rmdir_mid (q : path) : M unit :=
  load_dir q ;;;
  n1 <- get_node q ;;
  st <- stat_node n1 ;;
  if negb (is_dirT st) then fail ENOTDIR else
  let count := List.length (filter (fun kv => negb (n_wh (snd kv))) (n_ch n1)) in
  let whiteouts := List.length (filter (fun kv => n_wh (snd kv)) (n_ch n1)) in
  if negb (Nat.eqb count 0) then fail ENOTEMPTY else
  if negb (Nat.eqb whiteouts 0) && in_upper n1 then empty_node_directory q else ret tt.

Lemma rmdir_mid_spec (pp : path) (nm : name) s2 pn2 c rm s3 :
  Coherent s2 -> nget pp (root s2) = Some pn2 -> n_wh pn2 = false -> nget (pp ++ [nm]) (root s2) = Some c ->
  rmdir_mid (pp ++ [nm]) s2 = (rm, s3) ->
  (Coherent s3 /\ (rm = Ok tt -> exists pn3 c3, nget pp (root s3) = Some pn3 /\ n_wh pn3 = false /\ nget (pp ++ [nm]) (root s3) = Some c3)) \/
  (rm = Ok tt /\ exists s0 U0 D c0 pn0 mq xq chq,
     Coherent s0 /\ upper s0 = Some U0 /\ nget (pp ++ [nm]) (root s0) = Some c0 /\ nget pp (root s0) = Some pn0 /\ in_upper c0 = true /\
     upper s3 = Some (tupd (pp ++ [nm]) (chmap (dels D)) U0) /\ lowers s3 = lowers s0 /\ root s3 = nupd (pp ++ [nm]) (delsn D) (root s0) /\
     tget U0 (pp ++ [nm]) = Some (Dir mq xq chq) /\ dels D chq = []).
Proof.
  intros HC2 Hg2 Hw2 Hqc Hrun. unfold rmdir_mid in Hrun. set (q := pp ++ [nm]) in *.
  unfold bind at 1 in Hrun. destruct (load_dir q s2) as [rl s2a] eqn:El.
  destruct (load_dir_child_facts pp nm s2 pn2 c rl s2a HC2 Hg2 Hqc El) as (HCa & Hfa).
  destruct rl as [[]|e]; [|left; inversion Hrun; subst; split; [exact HCa|discriminate]].
  destruct (Hfa eq_refl) as (pn1 & n1 & Hg1 & Hw1 & Hq1 & Hwn1 & Hld1). fold q in Hq1.
  assert (Plain : forall e, (Err e, s2a) = (rm, s3) ->
    (Coherent s3 /\ (rm = Ok tt -> exists pn3 c3, nget pp (root s3) = Some pn3 /\ n_wh pn3 = false /\ nget q (root s3) = Some c3)) \/
    (rm = Ok tt /\ exists s0 U0 D c0 pn0 mq xq chq,
     Coherent s0 /\ upper s0 = Some U0 /\ nget q (root s0) = Some c0 /\ nget pp (root s0) = Some pn0 /\ in_upper c0 = true /\
     upper s3 = Some (tupd q (chmap (dels D)) U0) /\ lowers s3 = lowers s0 /\ root s3 = nupd q (delsn D) (root s0) /\
     tget U0 q = Some (Dir mq xq chq) /\ dels D chq = [])).
  { intros e H. inversion H; subst. left. split; [exact HCa|discriminate]. }
  unfold bind at 1 in Hrun. unfold get_node at 1 in Hrun. rewrite Hq1 in Hrun.
  unfold bind at 1 in Hrun. unfold stat_node at 1 in Hrun. destruct (node_stat s2a n1) as [st|] eqn:Est; [|exact (Plain _ Hrun)].
  destruct (is_dirT st) eqn:Edir; cbn [negb] in Hrun; [|exact (Plain _ Hrun)].
  cbv zeta in Hrun.
  destruct (Nat.eqb (List.length (filter (fun kv : name * node => negb (n_wh (snd kv))) (n_ch n1))) 0) eqn:Ecnt; cbn [negb] in Hrun; [|exact (Plain _ Hrun)].
  apply Nat.eqb_eq in Ecnt.
  destruct (negb (Nat.eqb (List.length (filter (fun kv : name * node => n_wh (snd kv)) (n_ch n1))) 0) && in_upper n1) eqn:Ewi.
  2:{ cbn [ret] in Hrun. inversion Hrun; subst. left. split; [exact HCa|]. intros _. exists pn1, n1. rewrite Hw1. auto. }
  apply andb_true_iff in Ewi. destruct Ewi as [_ Hiu].
  right.
  pose proof HCa as ([U0 HU] & _ & HCT). pose proof (HCT _ _ Hq1) as Nn. cbn [app] in Nn.
  destruct (first_good_stat s2a _ _ n1 Nn) as (r1 & rs1 & t & Er1 & Etq & Hns & _). rewrite Est in Hns. inversion Hns; subst t. clear Hns.
  pose proof Hiu as Hiu'. unfold in_upper in Hiu'. rewrite Er1 in Hiu'.
  destruct (first_upper_stack s2a _ n1 r1 rs1 Nn Er1 Hiu') as (Hl0 & Hp0 & rest & Hstq).
  rewrite Hl0 in Etq. unfold ent in Etq. cbn [get_layer] in Etq. rewrite HU in Etq.
  destruct st as [mq xq chq| | |]; try discriminate.
  set (D := map fst (filter (fun kv : name * node => in_upper (snd kv)) (n_ch n1))).
  assert (Hchild : forall (k : name) (c' : node), afind k (n_ch n1) = Some c' -> NodeOK (shp s2a) (List.length (lowers s2a)) (q ++ [k]) c').
  { intros k c' Hk. pose proof (HCT (q ++ [k]) c' (nget_snoc q k (root s2a) n1 c' Hq1 Hk)) as H. exact H. }
  assert (Hall : forall (k : name) (c' : node), In (k, c') (n_ch n1) -> in_upper c' = true -> n_wh c' = true /\ afind k chq = Some Wh).
  { intros k c' Hin Hiuc.
    pose proof (afind_In_nodup k c' (n_ch n1) (ok_nodup _ _ _ _ Nn) Hin) as Hk. pose proof (Hchild k c' Hk) as Nc'.
    assert (Hwc : n_wh c' = true).
    { pose proof (filter_len0 (fun kv : name * node => negb (n_wh (snd kv))) (n_ch n1) (k, c') Ecnt Hin) as H. cbn [snd] in H.
      destruct (n_wh c'); [reflexivity|discriminate]. }
    split; [exact Hwc|].
    destruct (first_good_stat s2a _ _ c' Nc') as (rc & rcs & tc & Erc & Etc' & _ & Hwtc & _).
    unfold in_upper in Hiuc. rewrite Erc in Hiuc.
    destruct (first_upper_stack s2a _ c' rc rcs Nc' Erc Hiuc) as (Hl0' & _).
    rewrite Hl0' in Etc'. unfold ent in Etc'. cbn [get_layer] in Etc'. rewrite HU, (tget_snoc U0 q k), Etq in Etc'.
    rewrite Etc'. f_equal. pose proof (ok_wh _ _ _ _ Nc') as Hwh. rewrite Erc in Hwh. cbn [first_wh] in Hwh.
    rewrite Hwc, Hwtc in Hwh. destruct tc; try discriminate. reflexivity. }
  assert (Hemp : dels D chq = []).
  { apply all_none_nil. assert (HH : forall k : name, afind k (dels D chq) = None); [|exact HH]. intros k. rewrite afind_dels. destruct (existsb (String.eqb k) D) eqn:Ex; [reflexivity|].
    destruct (afind k chq) as [t|] eqn:Ek; [exfalso|reflexivity].
    assert (Hpk : present (shp s2a) (q ++ [k]) 0%nat = true).
    { unfold present, shp, ent. cbn [get_layer]. rewrite HU, (tget_snoc U0 q k), Etq, Ek. reflexivity. }
    pose proof (sh_dir_of_tget s2a U0 q mq xq chq HU Etq) as Hqd.
    pose proof (kids_old (shp s2a) (shp s2a) (List.length (lowers s2a)) q k (fun _ _ _ => eq_refl) (fun j p' => eq_refl) rest _ Hstq Hqd) as Ko.
    rewrite Hpk in Ko.
    destruct (ok_ld _ _ _ _ Nn Hld1) as (_ & _ & Hkids).
    destruct (afind k (n_ch n1)) as [c'|] eqn:Ec'.
    2:{ apply Hkids in Ec'. rewrite Ko in Ec'. discriminate. }
    pose proof (Hchild k c' Ec') as Nc'.
    pose proof (ok_hd _ _ _ _ Nc') as Hh. rewrite lstack_snoc, Ko in Hh.
    pose proof (ok_ne _ _ _ _ Nc') as Hne. pose proof (ok_reals _ _ _ _ Nc') as Hrs.
    destruct (n_reals c') as [|rc rcs] eqn:Erc; [contradiction|]. cbn in Hh. inversion Hh as [Hl].
    pose proof (Forall_inv Hrs) as (_ & Hu & _). rewrite Hl in Hu. cbn in Hu.
    assert (Hin : existsb (String.eqb k) D = true).
    { apply existsb_exists. exists k. split; [|apply String.eqb_refl]. unfold D. apply in_map_iff. exists (k, c'). split; [reflexivity|].
      apply filter_In. split; [apply afind_In; exact Ec'|]. cbn [snd]. unfold in_upper. rewrite Erc. exact Hu. }
    congruence. }
  destruct (empty_children_run q (n_ch n1) s2a U0 mq xq chq HU Etq Hall (ok_nodup _ _ _ _ Nn)) as (s3' & Hrun3 & Hu3 & Hl3 & Hr3).
  unfold empty_node_directory in Hrun. unfold bind at 1 in Hrun. unfold get_node at 1 in Hrun. rewrite Hq1 in Hrun.
  unfold bind at 1 in Hrun. unfold stat_node at 1 in Hrun. rewrite Est in Hrun. cbn [is_dirT negb] in Hrun.
  unfold bind at 1 in Hrun. unfold first_real in Hrun. rewrite Er1 in Hrun. cbn [ret] in Hrun. rewrite Hiu' in Hrun. cbn [negb] in Hrun.
  rewrite Hl0, Hp0, Hrun3 in Hrun. inversion Hrun; subst rm s3'. split; [reflexivity|].
  exists s2a, U0, D, n1, pn1, mq, xq, chq. fold D in Hu3, Hr3.
  split; [exact HCa|]. split; [exact HU|]. split; [exact Hq1|]. split; [exact Hg1|]. split; [exact Hiu|].
  split; [exact Hu3|]. split; [exact Hl3|]. split; [exact Hr3|]. split; [exact Etq|exact Hemp].
Qed.

Lemma cpres_do_rm (pp : path) (nm : name) dir : cpres (do_rm pp nm dir).
Proof.
  intros s HC. destruct (do_rm pp nm dir s) as [r s'] eqn:Hrun. cbn [snd].
  unfold do_rm in Hrun.
  pose proof HC as ([u Hu] & _).
  unfold bind at 1 in Hrun. unfold need_upper in Hrun. unfold bind at 1 in Hrun. unfold has_upper in Hrun. rewrite Hu in Hrun. cbn [ret] in Hrun.
  unfold bind at 1 in Hrun. destruct (lookup_node pp None s) as [r0 s1] eqn:E0.
  pose proof (cpres_lookup_node pp None s HC) as HC1. rewrite E0 in HC1. cbn [snd] in HC1.
  destruct r0 as [q0|e]; [|inversion Hrun; subst; exact HC1].
  unfold bind at 1 in Hrun. unfold get_node at 1 in Hrun. destruct (nget pp (root s1)) as [pn|] eqn:Hg; [|inversion Hrun; subst; exact HC1].
  destruct (n_wh pn) eqn:Ew; [inversion Hrun; subst; exact HC1|].
  unfold bind at 1 in Hrun. destruct (lookup_node pp (Some nm) s1) as [rq s2] eqn:Eq.
  pose proof (cpres_lookup_node pp (Some nm) s1 HC1) as HC2. rewrite Eq in HC2. cbn [snd] in HC2.
  destruct rq as [q|e]; [|inversion Hrun; subst; exact HC2].
  destruct (lookup_some_spec pp nm s1 pn q s2 HC1 Hg Ew Eq) as (_ & -> & pn2 & c & Hg2 & Hw2 & Hc).
  pose proof (nget_snoc pp nm (root s2) pn2 c Hg2 Hc) as Hqc.
  unfold bind at 1 in Hrun. unfold get_node at 1 in Hrun. rewrite Hqc in Hrun.
  destruct (n_wh c) eqn:Ewc; [inversion Hrun; subst; exact HC2|].
  assert (Hrun' : bind (if dir then rmdir_mid (pp ++ [nm]) else ret tt) (fun _ => rm_post pp nm dir) s2 = (r, s')) by exact Hrun.
  clear Hrun. unfold bind at 1 in Hrun'. destruct dir.
  - destruct (rmdir_mid (pp ++ [nm]) s2) as [rm s3] eqn:Em.
    destruct (rmdir_mid_spec pp nm s2 pn2 c rm s3 HC2 Hg2 Hw2 Hqc Em) as [[HC3 Hf]|[-> Hf]].
    + destruct rm as [[]|e]; [|inversion Hrun'; subst; exact HC3].
      destruct (Hf eq_refl) as (pn3 & c3 & Hg3 & Hw3 & Hq3).
      pose proof (rm_post_plain pp nm true s3 pn3 c3 HC3 Hg3 Hw3 Hq3) as H. rewrite Hrun' in H. exact H.
    + destruct Hf as (s0 & U0 & D & c0 & pn0 & mq & xq & chq & A1 & A2 & A3 & A4 & A5 & A6 & A7 & A8 & A9 & A10).
      pose proof (rm_post_emptied pp nm s0 s3 U0 D c0 pn0 mq xq chq A1 A2 A3 A4 A5 A6 A7 A8 A9 A10) as H. rewrite Hrun' in H. exact H.
  - cbn [ret] in Hrun'. pose proof (rm_post_plain pp nm false s2 pn2 c HC2 Hg2 Hw2 Hqc) as H. rewrite Hrun' in H. exact H.
Qed.
Lemma cpres_rmdir p : cpres (step (ORmdir p)).
Proof.
  cbn [step]. apply cpres_with_parent. intros pp nm.
  apply cpres_bind; [apply cpres_do_rm|]. intros _. apply cpres_ret.
Qed.

(* ------------------------------------------------------------------ what copy-up keeps of every cached node (no invariant needed):
   a property of the backing inodes and the whiteout flag that add_upper_inode of a fresh upper inode establishes *)
Definition goodri (ri : real) : Prop := r_wh ri = false /\ r_upper ri = true.
Section RR.
Variable P : node -> Prop.
Hypothesis Hadd : forall ri c m, goodri ri -> P (add_upper ri c m).
Hypothesis Hch : forall a b, n_reals a = n_reals b -> n_wh a = n_wh b -> P a -> P b.

Lemma nget_nupd_P f p : (forall m, n_ch (f m) = n_ch m) -> (forall m, P (f m)) ->
  forall r q n, nget q r = Some n -> P n -> exists n', nget q (nupd p f r) = Some n' /\ P n'.
Proof.
  intros Hc Hf. induction p as [|c p IH]; intros r q n Hq HP; cbn [nupd].
  - destruct q as [|k q]; cbn [nget] in *.
    + inversion Hq; subst. exists (f n). auto.
    + rewrite Hc. exists n. auto.
  - destruct q as [|k q]; cbn [nget n_ch] in *.
    + inversion Hq; subst. eexists. split; [reflexivity|]. apply (Hch n); [reflexivity|reflexivity|exact HP].
    + destruct (String.eqb c k) eqn:E.
      * apply String.eqb_eq in E; subst k. rewrite afind_amap. destruct (afind c (n_ch r)) as [y|]; [|discriminate]. cbn [option_map].
        apply (IH y q n Hq HP).
      * rewrite (afind_amap_other _ _ _ _ E). exists n. auto.
Qed.

Definition rr (s s' : state) : Prop := forall q n, nget q (root s) = Some n -> P n -> exists n', nget q (root s') = Some n' /\ P n'.
Lemma rr_root s s' : root s' = root s -> rr s s'.
Proof. intros H q n Hq HP. rewrite H. eauto. Qed.
Lemma rr_trans a b c : rr a b -> rr b c -> rr a c.
Proof. intros H1 H2 q n Hq HP. destruct (H1 q n Hq HP) as (n1 & A & B). exact (H2 q n1 A B). Qed.
Definition rrm {A} (m : M A) (post : A -> Prop) : Prop := forall s, rr s (snd (m s)) /\ forall a, fst (m s) = Ok a -> post a.
Lemma rrm_bind {A B} (m : M A) (f : A -> M B) post1 post2 :
  rrm m post1 -> (forall a, post1 a -> rrm (f a) post2) -> rrm (bind m f) post2.
Proof.
  intros Hm Hf s. unfold bind. destruct (Hm s) as [R1 Q1]. destruct (m s) as [[a|e] s1]; cbn [fst snd] in *.
  - destruct (Hf a (Q1 a eq_refl) s1) as [R2 Q2]. split; [exact (rr_trans _ _ _ R1 R2)|exact Q2].
  - split; [exact R1|intros a H; discriminate].
Qed.
Lemma rrm_root {A} (m : M A) (post : A -> Prop) :
  (forall s, root (snd (m s)) = root s) -> (forall s a, fst (m s) = Ok a -> post a) -> rrm m post.
Proof. intros H1 H2 s. split; [apply rr_root; apply H1|apply H2]. Qed.
Lemma rrm_T {A} (m : M A) : (forall s, root (snd (m s)) = root s) -> rrm m (fun _ => True).
Proof. intros H. apply rrm_root; [exact H|auto]. Qed.
Lemma rrm_if {A} (b : bool) (m1 m2 : M A) post : rrm m1 post -> rrm m2 post -> rrm (if b then m1 else m2) post.
Proof. destruct b; auto. Qed.
Lemma rrm_fail {A} e post : rrm (@fail A e) post.
Proof. apply rrm_root; [reflexivity|]. intros s a H. discriminate. Qed.
Lemma rrm_ret {A} (a : A) (post : A -> Prop) : post a -> rrm (ret a) post.
Proof. intros H. apply rrm_root; [reflexivity|]. intros s b E. cbn in E. inversion E; subst. exact H. Qed.
Lemma rrm_get_node p : rrm (get_node p) (fun _ => True).
Proof. apply rrm_T. intros s. unfold get_node. destruct (nget p (root s)); reflexivity. Qed.
Lemma rrm_stat_node n : rrm (stat_node n) (fun _ => True).
Proof. apply rrm_T. intros s. unfold stat_node. destruct (node_stat s n); reflexivity. Qed.
Lemma rrm_first_real n : rrm (first_real n) (fun _ => True).
Proof. apply rrm_T. intros s. unfold first_real. destruct (n_reals n); reflexivity. Qed.
Lemma rrm_upper_real n e : rrm (upper_real n e) (fun r => r_upper r = true).
Proof.
  intros s. unfold upper_real. destruct (n_reals n) as [|r rs]; [split; [apply rr_root; reflexivity|intros a H; discriminate]|].
  destruct (r_upper r) eqn:E; (split; [apply rr_root; reflexivity|]); intros a H; cbn in H; inversion H; subst; exact E.
Qed.
Lemma mutate_root k F s : root (snd (mutate k F s)) = root s.
Proof. unfold mutate. destruct (get_layer s k) as [t|]; [|reflexivity]. destruct (F t); [|reflexivity]. destruct k; reflexivity. Qed.
Lemma rrm_mutate k F : rrm (mutate k F) (fun _ => True).
Proof. apply rrm_T. apply mutate_root. Qed.
Lemma rrm_mod_add p ri c : goodri ri -> rrm (mod_node p (add_upper ri c)) (fun _ => True).
Proof.
  intros Hg s. split; [|auto]. unfold mod_node. cbn [snd root]. intros q n Hq HP.
  apply (nget_nupd_P (add_upper ri c) p (fun m => eq_refl) (fun m => Hadd ri c m Hg) (root s) q n Hq HP).
Qed.
Lemma rrm_ri_mkdir pr nm mode : rrm (ri_mkdir pr nm mode) goodri.
Proof.
  unfold ri_mkdir, ri_guard. apply rrm_bind with (post1 := fun _ => r_upper pr = true).
  - destruct (r_upper pr); [apply rrm_ret; reflexivity|apply rrm_fail].
  - intros _ Hu. apply rrm_bind with (post1 := fun _ => True); [apply rrm_mutate|]. intros _ _. apply rrm_ret. split; reflexivity.
Qed.
Lemma rrm_ri_mkdir_cu pr nm mode : rrm (ri_mkdir_cu pr nm mode) goodri.
Proof.
  unfold ri_mkdir_cu. apply rrm_bind with (post1 := goodri); [apply rrm_ri_mkdir|]. intros ri Hri.
  apply rrm_bind with (post1 := fun _ => True); [destruct (has_setid mode); [apply rrm_mutate|apply rrm_ret; exact I]|].
  intros _ _. apply rrm_ret. exact Hri.
Qed.
Lemma rrm_ri_create pr nm mode : rrm (ri_create pr nm mode) goodri.
Proof.
  unfold ri_create, ri_guard. apply rrm_bind with (post1 := fun _ => r_upper pr = true).
  - destruct (r_upper pr); [apply rrm_ret; reflexivity|apply rrm_fail].
  - intros _ Hu. apply rrm_bind with (post1 := fun _ => True); [apply rrm_T; reflexivity|]. intros i _.
    apply rrm_bind with (post1 := fun _ => True); [apply rrm_mutate|]. intros _ _. apply rrm_ret. split; reflexivity.
Qed.
Lemma rrm_ri_symlink pr nm tg : rrm (ri_symlink pr nm tg) goodri.
Proof.
  unfold ri_symlink, ri_guard. apply rrm_bind with (post1 := fun _ => r_upper pr = true).
  - destruct (r_upper pr); [apply rrm_ret; reflexivity|apply rrm_fail].
  - intros _ Hu. apply rrm_bind with (post1 := fun _ => True); [apply rrm_mutate|]. intros _ _. apply rrm_ret. split; [reflexivity|exact Hu].
Qed.
Lemma rrm_cud fuel : forall p, rrm (create_upper_dir fuel p) (fun _ => True).
Proof.
  induction fuel as [|f IH]; intros p; cbn [create_upper_dir]; [apply rrm_fail|].
  apply rrm_bind with (post1 := fun _ => True); [apply rrm_get_node|]. intros n _.
  apply rrm_bind with (post1 := fun _ => True); [apply rrm_stat_node|]. intros st _.
  apply rrm_if; [apply rrm_fail|]. apply rrm_if; [apply rrm_ret; exact I|].
  destruct (split_last p) as [[pp nm]|]; [|apply rrm_fail].
  apply rrm_bind with (post1 := fun _ => True); [apply rrm_get_node|]. intros pn _.
  apply rrm_bind with (post1 := fun _ => True); [apply rrm_if; [apply rrm_ret; exact I|apply IH]|]. intros _ _.
  apply rrm_bind with (post1 := fun _ => True); [apply rrm_get_node|]. intros pn' _.
  apply rrm_bind with (post1 := fun r => r_upper r = true); [apply rrm_upper_real|]. intros pr _.
  apply rrm_bind with (post1 := goodri); [apply rrm_ri_mkdir_cu|]. intros ri Hri. apply rrm_mod_add. exact Hri.
Qed.
Lemma rrm_cnu p : rrm (copy_node_up p) (fun _ => True).
Proof.
  unfold copy_node_up.
  apply rrm_bind with (post1 := fun _ => True); [apply rrm_get_node|]. intros n _.
  apply rrm_if; [apply rrm_ret; exact I|].
  apply rrm_bind with (post1 := fun _ => True); [apply rrm_stat_node|]. intros st _.
  assert (Hreg : rrm (copy_regfile_up p) (fun _ => True)).
  { unfold copy_regfile_up.
    apply rrm_bind with (post1 := fun _ => True); [apply rrm_get_node|]. intros n0 _.
    apply rrm_if; [apply rrm_ret; exact I|].
    destruct (split_last p) as [[pp nm]|]; [|apply rrm_fail].
    apply rrm_bind with (post1 := fun _ => True); [apply rrm_stat_node|]. intros st0 _.
    apply rrm_bind with (post1 := fun _ => True); [apply rrm_first_real|]. intros lr _.
    apply rrm_bind with (post1 := fun _ => True); [apply rrm_get_node|]. intros pn _.
    apply rrm_bind with (post1 := fun _ => True); [apply rrm_if; [apply rrm_ret; exact I|apply rrm_cud]|]. intros _ _.
    apply rrm_bind with (post1 := fun _ => True); [apply rrm_get_node|]. intros pn' _.
    apply rrm_bind with (post1 := fun r => r_upper r = true); [apply rrm_upper_real|]. intros pr _.
    apply rrm_bind with (post1 := goodri); [apply rrm_ri_create|]. intros ri Hri.
    apply rrm_bind with (post1 := fun _ => True).
    { apply rrm_T. intros s. destruct (real_tree s lr) as [[| | |]|]; reflexivity. }
    intros data _. apply rrm_bind with (post1 := fun _ => True); [apply rrm_mutate|]. intros _ _. apply rrm_mod_add. exact Hri. }
  destruct st; try exact Hreg.
  - apply rrm_cud.
  - unfold copy_symlink_up.
    apply rrm_bind with (post1 := fun _ => True); [apply rrm_get_node|]. intros n0 _.
    apply rrm_if; [apply rrm_ret; exact I|].
    destruct (split_last p) as [[pp nm]|]; [|apply rrm_fail].
    apply rrm_bind with (post1 := fun _ => True); [apply rrm_first_real|]. intros lr _.
    apply rrm_bind with (post1 := fun _ => True); [apply rrm_get_node|]. intros pn _.
    apply rrm_bind with (post1 := fun _ => True); [apply rrm_if; [apply rrm_ret; exact I|apply rrm_cud]|]. intros _ _.
    apply rrm_bind with (post1 := fun _ => True).
    { apply rrm_T. intros s. destruct (real_tree s lr) as [[| | |]|]; reflexivity. }
    intros tg _.
    apply rrm_bind with (post1 := fun _ => True); [apply rrm_get_node|]. intros pn' _.
    apply rrm_bind with (post1 := fun r => r_upper r = true); [apply rrm_upper_real|]. intros pr _.
    apply rrm_bind with (post1 := goodri); [apply rrm_ri_symlink|]. intros ri Hri. apply rrm_mod_add. exact Hri.
Qed.
End RR.
Lemma cnu_keeps_nonwh p s q n : nget q (root s) = Some n -> n_wh n = false ->
  exists n', nget q (root (snd (copy_node_up p s))) = Some n' /\ n_wh n' = false.
Proof.
  apply (rrm_cnu (fun n => n_wh n = false)).
  - intros ri c m [H _]. exact H.
  - intros a b _ H Ha. congruence.
Qed.
Lemma cnu_keeps_upper p s q n : nget q (root s) = Some n -> in_upper n = true ->
  exists n', nget q (root (snd (copy_node_up p s))) = Some n' /\ in_upper n' = true.
Proof.
  apply (rrm_cnu (fun n => in_upper n = true)).
  - intros ri c m [_ H]. unfold in_upper, add_upper. cbn [n_reals]. destruct c; exact H.
  - intros a b H _ Ha. unfold in_upper in *. rewrite <- H. exact Ha.
Qed.

(* ------------------------------------------------------------------ link *)
Lemma tget_tupd_del_other (nm : name) : forall (pp : path) U (src : path) c,
  tget U src = Some c -> is_whT c = false -> is_dirT c = false -> tget U (pp ++ [nm]) = Some Wh ->
  tget (tupd pp (dir_del nm) U) src = Some c.
Proof.
  induction pp as [|a pp IH]; intros U src c Hs Hw Hd Hq; cbn [app tupd] in *.
  - destruct U as [m x ch| | |]; try discriminate. cbn [tget] in Hq. destruct (afind nm ch) as [y|] eqn:Ey; [|discriminate].
    inversion Hq; subst y. destruct src as [|k r]; cbn [tget dir_del] in *.
    + inversion Hs; subst. discriminate.
    + rewrite afind_adel. destruct (String.eqb k nm) eqn:E.
      * apply String.eqb_eq in E; subst k. rewrite Ey in Hs. destruct r; cbn [tget] in Hs; [inversion Hs; subst; discriminate|discriminate].
      * exact Hs.
  - destruct U as [m x ch| | |]; try discriminate. cbn [tget] in Hq. destruct (afind a ch) as [y|] eqn:Ey; [|discriminate].
    destruct src as [|k r]; cbn [tget] in *.
    + inversion Hs; subst. discriminate.
    + destruct (String.eqb a k) eqn:E.
      * apply String.eqb_eq in E; subst k. rewrite afind_amap, Ey in *. cbn [option_map]. apply IH; assumption.
      * rewrite (afind_amap_other _ _ _ _ E). exact Hs.
Qed.

Definition link_src_ok (src : path) (U : tree) : Prop :=
  exists c, tget U src = Some c /\ is_dirT c = false /\ is_whT c = false /\ wf c.
Definition link_leaf (src : path) (s : state) : tree :=
  match upper s with Some U => match tget U src with Some c => c | None => Wh end | None => Wh end.
Lemma mk_spec_link (pp : path) (nm : name) sr : r_layer sr = 0%nat ->
  mk_spec_on (link_src_ok (r_path sr)) pp nm (fun pr => ri_link pr sr nm) (link_leaf (r_path sr)).
Proof.
  intros Hs0 pr s U (c & Hc & Hd & Hw & Hwf) Hu Hl Hp HU. unfold link_leaf. rewrite HU, Hc.
  split; [split; [exact Hd|]; split; [exact Hw|]; split; [exact Hwf|]; intros k r; destruct c; try reflexivity; discriminate|].
  unfold ri_link, ri_guard, bind, mutate, ret, fail, h_link. rewrite Hu, Hl, Hp, Hs0. cbn [Nat.eqb get_layer]. rewrite HU, Hc.
  assert (E : match c with Dir _ _ _ => Err EPERM | _ => h_insert pp nm c U end = h_insert pp nm c U) by (destruct c; [discriminate|reflexivity..]).
  rewrite E. destruct (h_insert pp nm c U) as [U1|e].
  - eexists. split; [reflexivity|]. unfold set_layer. cbn [upper lowers root]. rewrite HU. auto.
  - eexists. eexists. split; [reflexivity|]. auto.
Qed.

Lemma in_upper_same_disk a b (p : path) na nb : Coherent a -> Coherent b -> upper b = upper a -> lowers b = lowers a ->
  nget p (root a) = Some na -> nget p (root b) = Some nb -> in_upper na = true -> in_upper nb = true.
Proof.
  intros HCa HCb Hu Hl Ha Hb Hiu.
  pose proof HCa as (_ & _ & Ta). pose proof HCb as (_ & _ & Tb).
  pose proof (Ta _ _ Ha) as Na. pose proof (Tb _ _ Hb) as Nb. cbn [app] in Na, Nb.
  assert (Hsh : forall i q, shp b i q = shp a i q).
  { intros i q. unfold shp, ent. destruct i as [|j]; cbn [get_layer]; rewrite ?Hu, ?Hl; reflexivity. }
  unfold in_upper in Hiu. destruct (n_reals na) as [|ra ras] eqn:Era; [discriminate|].
  destruct (first_upper_stack a p na ra ras Na Era Hiu) as (_ & _ & rest & Hst).
  pose proof (ok_hd _ _ _ _ Nb) as Hh. rewrite Hl in Hh. rewrite (lstack_ext (shp a) (shp b) (List.length (lowers a)) p) in Hh; [|intros i p' _; apply Hsh].
  rewrite Hst in Hh. pose proof (ok_ne _ _ _ _ Nb) as Hne. pose proof (ok_reals _ _ _ _ Nb) as Hr.
  unfold in_upper. destruct (n_reals nb) as [|rb rbs]; [contradiction|]. cbn in Hh. inversion Hh as [Hl0].
  pose proof (Forall_inv Hr) as (_ & Hub & _). rewrite Hl0 in Hub. exact Hub.
Qed.

Lemma cpres_do_link (src pp : path) (nm : name) : cpres (do_link src pp nm).
Proof.
  intros s HC. destruct (do_link src pp nm s) as [r s'] eqn:Hrun. cbn [snd]. unfold do_link in Hrun.
  pose proof HC as ([u Hu] & _).
  unfold bind at 1 in Hrun. unfold need_upper in Hrun. unfold bind at 1 in Hrun. unfold has_upper in Hrun. rewrite Hu in Hrun. cbn [ret] in Hrun.
  unfold bind at 1 in Hrun. unfold get_node at 1 in Hrun. destruct (nget src (root s)) as [sn|] eqn:Hsn; [|inversion Hrun; subst; exact HC].
  unfold bind at 1 in Hrun. unfold get_node at 1 in Hrun. destruct (nget pp (root s)) as [pn|] eqn:Hg; [|inversion Hrun; subst; exact HC].
  destruct (n_wh sn || n_wh pn) eqn:Ew; [inversion Hrun; subst; exact HC|]. apply orb_false_iff in Ew. destruct Ew as [Ews Ewp].
  unfold bind at 1 in Hrun. unfold stat_node at 1 in Hrun. destruct (node_stat s sn) as [st|] eqn:Est; [|inversion Hrun; subst; exact HC].
  destruct (is_dirT st) eqn:Edir; [inversion Hrun; subst; exact HC|].
  (* copy-up of the source *)
  unfold bind at 1 in Hrun. destruct (copy_node_up src s) as [rcA sA] eqn:EcuA.
  destruct (cnu_coherent src s rcA sA HC) as (HCA & SPA & HlA & FrA & HupA); [intros n0 Hn0; rewrite Hsn in Hn0; inversion Hn0; subst; exact Ews|exact EcuA|].
  destruct rcA as [[]|e]; [|inversion Hrun; subst; exact HCA]. specialize (HupA eq_refl).
  destruct (cnu_keeps_nonwh src s pp pn Hg Ewp) as (pnA & HgA & EwA). rewrite EcuA in HgA. cbn [snd] in HgA.
  destruct (cnu_keeps_nonwh src s src sn Hsn Ews) as (snA & HsnA & EwsA). rewrite EcuA in HsnA. cbn [snd] in HsnA.
  (* copy-up of the new parent *)
  unfold bind at 1 in Hrun. destruct (copy_node_up pp sA) as [rcB sB] eqn:EcuB.
  destruct (cnu_coherent pp sA rcB sB HCA) as (HCB & SPB & HlB & FrB & HupB); [intros n0 Hn0; rewrite HgA in Hn0; inversion Hn0; subst; exact EwA|exact EcuB|].
  destruct rcB as [[]|e]; [|inversion Hrun; subst; exact HCB]. specialize (HupB eq_refl).
  destruct (cnu_keeps_upper pp sA src snA HsnA (HupA snA HsnA)) as (snB & HsnB & HiuB). rewrite EcuB in HsnB. cbn [snd] in HsnB.
  destruct (cnu_keeps_nonwh pp sA src snA HsnA EwsA) as (snB' & HsnB' & EwsB). rewrite EcuB in HsnB'. cbn [snd] in HsnB'.
  rewrite HsnB in HsnB'. inversion HsnB'; subst snB'. clear HsnB'.
  destruct (cnu_keeps_nonwh pp sA pp pnA HgA EwA) as (pnB & HgB & EwB). rewrite EcuB in HgB. cbn [snd] in HgB.
  pose proof (HupB pnB HgB) as HiupB.
  (* the source's backing inode afterwards: a non-directory in the upper layer *)
  unfold bind at 1 in Hrun. unfold get_node at 1 in Hrun. rewrite HsnB in Hrun.
  pose proof HCB as ([UB HUB] & HwlB & HCTB). pose proof (HCTB _ _ HsnB) as NsB. cbn [app] in NsB.
  destruct (first_good_stat sB _ _ snB NsB) as (sr & srs & c & Esr & Ec & _ & Hwc & Hdc & Hpsr).
  unfold bind at 1 in Hrun. unfold first_real in Hrun. rewrite Esr in Hrun. cbn [ret] in Hrun.
  pose proof HiuB as Husr. unfold in_upper in Husr. rewrite Esr in Husr.
  destruct (first_upper_stack sB src snB sr srs NsB Esr Husr) as (Hsr0 & _ & _).
  rewrite Hsr0 in Ec. unfold ent in Ec. cbn [get_layer] in Ec. rewrite HUB in Ec.
  assert (Hcd : is_dirT c = false).
  { rewrite <- Hdc.
    destruct (same_paths_some s sA src sn SPA Hsn) as (n1 & Hn1 & Hs1). rewrite HsnA in Hn1. inversion Hn1; subst n1.
    destruct (same_paths_some sA sB src snA SPB HsnA) as (n2 & Hn2 & Hs2). rewrite HsnB in Hn2. inversion Hn2; subst n2.
    unfold nsig in Hs1, Hs2. injection Hs1 as _ B1. injection Hs2 as _ B2. rewrite Esr in B2. cbn [first_dir] in B2. rewrite B2, B1.
    pose proof HC as (_ & _ & HCT). destruct (first_good_stat s _ _ sn (HCT _ _ Hsn)) as (r0 & rs0 & t0 & Er0 & _ & Hs0 & _ & Hd0 & _).
    rewrite Est in Hs0. inversion Hs0; subst t0. rewrite Er0. cbn [first_dir]. rewrite Hd0. exact Edir. }
  assert (Hcw : is_whT c = false).
  { rewrite <- Hwc. pose proof (ok_wh _ _ _ _ NsB) as W. rewrite Esr in W. cbn [first_wh] in W. rewrite <- W. exact EwsB. }
  assert (HQB : link_src_ok (r_path sr) UB).
  { exists c. rewrite Hpsr. split; [exact Ec|]. split; [exact Hcd|]. split; [exact Hcw|].
    apply (wf_tget UB (wf_layers_wf sB HwlB 0%nat UB HUB) src c Ec). }
  (* lookup of the new name *)
  unfold bind at 1 in Hrun. destruct (lookup_node_ignore_enoent pp nm sB) as [rf s1] eqn:Elk.
  destruct (lookup_ignore_spec pp nm sB pnB rf s1 HCB HgB EwB Elk) as (HC1 & Hu1 & Hl1 & pn1 & Hg1 & Hw1 & Hld1 & Hfound).
  destruct rf as [found|e]; [|inversion Hrun; subst; exact HC1].
  pose proof (in_upper_same_disk sB s1 pp pnB pn1 HCB HC1 Hu1 Hl1 HgB Hg1 HiupB) as Hiu1.
  assert (HQ1 : forall u2, upper s1 = Some u2 -> link_src_ok (r_path sr) u2 /\
            (forall m x ch, tget u2 pp = Some (Dir m x ch) -> afind nm ch = Some Wh -> link_src_ok (r_path sr) (tupd pp (dir_del nm) u2))).
  { intros u2 Hu2. rewrite Hu1, HUB in Hu2. inversion Hu2; subst u2. split; [exact HQB|].
    intros m x ch Etg Enm. destruct HQB as (c' & A & B & C & D). exists c'. split; [|auto].
    apply tget_tupd_del_other; auto. rewrite (tget_snoc UB pp nm), Etg. exact Enm. }
  destruct found as [q|].
  - destruct Hfound as (-> & cq & Hcq). unfold bind at 1 in Hrun. unfold get_node at 1 in Hrun.
    rewrite (nget_snoc pp nm (root s1) pn1 cq Hg1 Hcq) in Hrun.
    destruct (n_wh cq) eqn:Ewc; cbn [negb] in Hrun; [|inversion Hrun; subst; exact HC1].
    assert (Hrun' : make_body pp nm (fun pr => ri_link pr sr nm) (in_upper cq) true s1 = (r, s')) by exact Hrun.
    apply (make_body_coherent (link_src_ok (r_path sr)) pp nm _ (link_leaf (r_path sr)) (in_upper cq) true s1 pn1 r s'
             (mk_spec_link pp nm sr Hsr0) HC1 Hg1 Hiu1 Hld1); [eauto|exact HQ1|exact Hrun'].
  - assert (Hrun' : make_body pp nm (fun pr => ri_link pr sr nm) false false s1 = (r, s')) by exact Hrun.
    apply (make_body_coherent (link_src_ok (r_path sr)) pp nm _ (link_leaf (r_path sr)) false false s1 pn1 r s'
             (mk_spec_link pp nm sr Hsr0) HC1 Hg1 Hiu1 Hld1); [exact Hfound|exact HQ1|exact Hrun'].
Qed.
Lemma cpres_link src dst : cpres (step (OLink src dst)).
Proof.
  cbn [step]. apply cpres_bind; [apply cpres_walk|]. intros _. apply cpres_with_parent. intros pp nm.
  apply cpres_bind; [apply cpres_node_checked|]. intros _.
  apply cpres_bind; [apply cpres_sync_parent|]. intros _.
  apply cpres_bind; [apply cpres_do_link|]. intros _. apply cpres_entry_of.
Qed.
