(* Preservation of the coherence invariant: frame/transfer lemmas for a change of one entry of the
   upper layer, and the operations. *)
From Coq Require Import List String Arith NArith Bool Lia Sorted.
From FB Require Import Model.Overlay Proofs.OverlayInv Proofs.OverlayScan Proofs.OverlayRestart
  Proofs.OverlayReadOnly Proofs.OverlayCoh Proofs.OverlayCohView.
Import ListNotations.

Definition is_prefix (a b : path) : Prop := exists r, b = a ++ r.
Lemma is_prefix_refl a : is_prefix a a. Proof. exists []. rewrite app_nil_r. reflexivity. Qed.
Lemma is_prefix_app a r : is_prefix a (a ++ r). Proof. exists r. reflexivity. Qed.
Lemma is_prefix_trans a b c : is_prefix a b -> is_prefix b c -> is_prefix a c.
Proof. intros [r ->] [r' ->]. exists (r ++ r'). rewrite app_assoc. reflexivity. Qed.

(* ------------------------------------------------------------------ the invariant only reads shapes near the node *)
Section Transfer.
Variables Sh Sh' : nat -> path -> option shape.
Variable nl : nat.

Lemma dcut_ext p st : (forall i, Sh' i p = Sh i p) -> dcut Sh' p st = dcut Sh p st.
Proof. intros H. induction st as [|i r IH]; cbn [dcut]; [reflexivity|]. rewrite H, IH. reflexivity. Qed.
Lemma kids_ext p st k : (forall i, Sh' i p = Sh i p) -> (forall i, Sh' i (p ++ [k]) = Sh i (p ++ [k])) ->
  kids Sh' p st k = kids Sh p st k.
Proof.
  intros H1 H2. unfold kids. rewrite (dcut_ext p st H1). apply filter_ext. intros i. unfold present. rewrite H2. reflexivity.
Qed.
Lemma lstk_ext p : forall st p0, (forall i p', is_prefix p0 p' -> is_prefix p' (p0 ++ p) -> Sh' i p' = Sh i p') ->
  lstk Sh' st p0 p = lstk Sh st p0 p.
Proof.
  induction p as [|k p IH]; intros st p0 H; cbn [lstk]; [reflexivity|].
  rewrite kids_ext.
  - apply IH. intros i p' A B. apply H; [eapply is_prefix_trans; [apply is_prefix_app|exact A]|].
    rewrite <- app_assoc in B. exact B.
  - intros i. apply H; [apply is_prefix_refl|apply is_prefix_app].
  - intros i. apply H; [apply is_prefix_app|]. exists p. rewrite <- app_assoc. reflexivity.
Qed.
Lemma lstack_ext p : (forall i p', is_prefix p' p -> Sh' i p' = Sh i p') -> lstack Sh' nl p = lstack Sh nl p.
Proof. intros H. unfold lstack. apply lstk_ext. intros i p' _ B. apply H. exact B. Qed.

Lemma opq_ok_ext p rs : (forall i, Sh' i p = Sh i p) -> opq_ok Sh p rs -> opq_ok Sh' p rs.
Proof.
  intros H. induction rs as [|r rest IH]; intros Ho; [exact I|]. destruct rest as [|r2 rest]; [exact I|].
  destruct Ho as [A B]. split; [rewrite H; exact A|apply IH; exact B].
Qed.
Lemma NodeOK_ext p n :
  (forall i p', is_prefix p' p -> Sh' i p' = Sh i p') -> (forall i k, Sh' i (p ++ [k]) = Sh i (p ++ [k])) ->
  NodeOK Sh nl p n -> NodeOK Sh' nl p n.
Proof.
  intros H1 H2 N. assert (Hp : forall i, Sh' i p = Sh i p) by (intros i; apply H1; apply is_prefix_refl).
  pose proof (lstack_ext p H1) as HL.
  constructor; rewrite ?HL; try apply N.
  - eapply Forall_impl; [|apply (ok_reals _ _ _ _ N)]. intros r (A & B & C). unfold rgood. rewrite Hp. auto.
  - rewrite !(dcut_ext p _ Hp). apply N.
  - apply opq_ok_ext; [exact Hp|apply N].
  - intros Hl. destruct (ok_ld _ _ _ _ N Hl) as (A & B & C). split; [exact A|]. split; [exact B|].
    intros k. rewrite (kids_ext p _ k Hp (fun i => H2 i k)). apply C.
Qed.
End Transfer.

(* subtrees not comparable with the changed path keep their coherence *)
Lemma CohT_frame Sh Sh' nl q : (forall i p', ~ is_prefix q p' -> Sh' i p' = Sh i p') ->
  forall p n, (forall p', is_prefix p p' -> ~ is_prefix q p') -> (forall p', is_prefix p' p -> ~ is_prefix q p') ->
  CohT Sh nl p n -> CohT Sh' nl p n.
Proof.
  intros Hag p n Hdown Hup HC r m Hm. apply (NodeOK_ext Sh Sh' nl).
  - intros i p' Hpre. apply Hag. destruct Hpre as [r' Hr']. destruct (Nat.le_gt_cases (List.length p') (List.length p)) as [Hle|Hgt].
    + (* p' is a prefix of p or extends it; either way it is on one side of p *)
      intros Hq. 
      assert (Hcmp : is_prefix p' p \/ is_prefix p p').
      { clear -Hr' Hle. revert p Hr' Hle. induction p' as [|a p' IH]; intros p Hr' Hle; [left; exists p; reflexivity|].
        destruct p as [|b p]; [cbn in Hle; lia|]. cbn [app] in Hr'. 
        assert (Hab : a = b).
        { destruct r; cbn in Hr'; inversion Hr'; reflexivity. }
        subst b. destruct (IH p) as [[x Hx]|[x Hx]].
        - destruct r; cbn in Hr'; inversion Hr'; reflexivity.
        - cbn in Hle; lia.
        - left. exists x. cbn. rewrite <- Hx. reflexivity.
        - right. exists x. cbn. rewrite <- Hx. reflexivity. }
      destruct Hcmp as [H|H]; [exact (Hup p' H Hq)|exact (Hdown p' H Hq)].
    + apply Hdown. clear -Hr' Hgt.
      revert p' Hr' Hgt. induction p as [|b p IH]; intros p' Hr' Hgt; [exists p'; reflexivity|].
      destruct p' as [|a p']; [cbn in Hgt; lia|]. cbn [app] in Hr'. inversion Hr'; subst.
      destruct (IH p' H1) as [x Hx]; [cbn in Hgt; lia|]. exists x. cbn. rewrite <- Hx. reflexivity.
  - intros i k. apply Hag. apply Hdown. exists (r ++ [k]). rewrite app_assoc. reflexivity.
  - apply HC. exact Hm.
Qed.

(* ------------------------------------------------------------------ prefixes *)
Lemma is_prefix_len a b : is_prefix a b -> (List.length a <= List.length b)%nat.
Proof. intros [r ->]. rewrite app_length. lia. Qed.
Lemma is_prefix_cons x a y b : is_prefix (x :: a) (y :: b) <-> x = y /\ is_prefix a b.
Proof.
  split.
  - intros [r H]. cbn in H. inversion H; subst. split; [reflexivity|exists r; reflexivity].
  - intros [-> [r ->]]. exists r. reflexivity.
Qed.
Lemma is_prefix_app_l a b c : is_prefix (a ++ b) (a ++ c) <-> is_prefix b c.
Proof.
  induction a as [|x a IH]; cbn [app]; [reflexivity|]. rewrite is_prefix_cons. rewrite IH. tauto.
Qed.
Lemma not_prefix_sibling a x b y d : x <> y -> ~ is_prefix (a ++ x :: b) (a ++ y :: d).
Proof. intros Hn H. apply (proj1 (is_prefix_app_l _ _ _)) in H. apply (proj1 (is_prefix_cons _ _ _ _)) in H. tauto. Qed.
Lemma not_prefix_longer a b : (List.length b < List.length a)%nat -> ~ is_prefix a b.
Proof. intros H Hp. apply is_prefix_len in Hp. lia. Qed.

(* ------------------------------------------------------------------ replacing one child in the cache *)
Definition set_child (nm : name) (c : node) (pn : node) : node :=
  Node (n_reals pn) (n_wh pn) (n_loaded pn) (aset nm c (n_ch pn)).
Definition del_child (nm : name) (pn : node) : node :=
  Node (n_reals pn) (n_wh pn) (n_loaded pn) (adel nm (n_ch pn)).

Section SetEntry.
Variables Sh Sh' : nat -> path -> option shape.
Variable nl : nat.
Variable nm : name.

(* the parent itself: same backing inodes, child [nm] present (set) *)
Lemma parent_set_ok q0 pn cnew :
  (forall i p', ~ is_prefix (q0 ++ [nm]) p' -> Sh' i p' = Sh i p') ->
  NodeOK Sh nl q0 pn -> n_loaded pn = true ->
  kids Sh' q0 (lstack Sh' nl q0) nm <> [] ->
  NodeOK Sh' nl q0 (set_child nm cnew pn).
Proof.
  intros Hag N Hl Hk.
  assert (Hpre : forall i p', is_prefix p' q0 -> Sh' i p' = Sh i p').
  { intros i p' Hp. apply Hag. intros Hq. apply is_prefix_len in Hp. apply is_prefix_len in Hq.
    rewrite app_length in Hq. cbn in Hq. lia. }
  assert (Hp : forall i, Sh' i q0 = Sh i q0) by (intros i; apply Hpre; apply is_prefix_refl).
  pose proof (lstack_ext Sh Sh' nl q0 Hpre) as HL.
  constructor; unfold set_child; cbn [n_reals n_wh n_loaded n_ch]; rewrite ?HL; try apply N.
  - eapply Forall_impl; [|apply (ok_reals _ _ _ _ N)]. intros r (A & B & C). unfold rgood. rewrite Hp. auto.
  - rewrite !(dcut_ext Sh Sh' q0 _ Hp). apply N.
  - apply (opq_ok_ext Sh Sh'); [exact Hp|apply N].
  - rewrite Hl. discriminate.
  - apply keys_aset. apply N.
  - intros _. destruct (ok_ld _ _ _ _ N Hl) as (A & B & C). split; [exact A|]. split; [exact B|].
    intros k. rewrite afind_aset. destruct (String.eqb k nm) eqn:E.
    + apply String.eqb_eq in E; subst k. rewrite <- HL. split; [discriminate|]. intros H. contradiction.
    + rewrite (kids_ext Sh Sh' q0 _ k Hp).
      * apply C.
      * intros i. apply Hag. intros Hq. apply (proj1 (is_prefix_app_l _ _ _)) in Hq. apply (proj1 (is_prefix_cons _ _ _ _)) in Hq.
        destruct Hq as [Hq _]. subst k. rewrite String.eqb_refl in E. discriminate.
Qed.
Lemma parent_del_ok q0 pn :
  (forall i p', ~ is_prefix (q0 ++ [nm]) p' -> Sh' i p' = Sh i p') ->
  NodeOK Sh nl q0 pn -> n_loaded pn = true ->
  kids Sh' q0 (lstack Sh' nl q0) nm = [] ->
  NodeOK Sh' nl q0 (del_child nm pn).
Proof.
  intros Hag N Hl Hk.
  assert (Hpre : forall i p', is_prefix p' q0 -> Sh' i p' = Sh i p').
  { intros i p' Hp. apply Hag. intros Hq. apply is_prefix_len in Hp. apply is_prefix_len in Hq.
    rewrite app_length in Hq. cbn in Hq. lia. }
  assert (Hp : forall i, Sh' i q0 = Sh i q0) by (intros i; apply Hpre; apply is_prefix_refl).
  pose proof (lstack_ext Sh Sh' nl q0 Hpre) as HL.
  constructor; unfold del_child; cbn [n_reals n_wh n_loaded n_ch]; rewrite ?HL; try apply N.
  - eapply Forall_impl; [|apply (ok_reals _ _ _ _ N)]. intros r (A & B & C). unfold rgood. rewrite Hp. auto.
  - rewrite !(dcut_ext Sh Sh' q0 _ Hp). apply N.
  - apply (opq_ok_ext Sh Sh'); [exact Hp|apply N].
  - rewrite Hl. discriminate.
  - pose proof (ok_nodup _ _ _ _ N) as Hn. clear -Hn. induction (n_ch pn) as [|[a x] l IH]; cbn [adel map fst] in *; [constructor|].
    inversion Hn as [|? ? Hnot Hn']; subst. destruct (String.eqb nm a); [auto|]. cbn [map fst]. constructor; [|auto].
    intros Hin. apply Hnot. clear -Hin. induction l as [|[b y] l IHl]; cbn [adel map fst] in *; [exact Hin|].
    destruct (String.eqb nm b); [right; auto|]. cbn [map fst] in Hin. destruct Hin as [H|H]; [left; exact H|right; auto].
  - intros _. destruct (ok_ld _ _ _ _ N Hl) as (A & B & C). split; [exact A|]. split; [exact B|].
    intros k. rewrite afind_adel. destruct (String.eqb k nm) eqn:E.
    + apply String.eqb_eq in E; subst k. rewrite <- HL. split; [intros _; exact Hk|reflexivity].
    + rewrite (kids_ext Sh Sh' q0 _ k Hp).
      * apply C.
      * intros i. apply Hag. intros Hq. apply (proj1 (is_prefix_app_l _ _ _)) in Hq. apply (proj1 (is_prefix_cons _ _ _ _)) in Hq.
        destruct Hq as [Hq _]. subst k. rewrite String.eqb_refl in E. discriminate.
Qed.

(* the whole cache: replace the child [nm] of the node at [pp] *)
Lemma update_child_coh (g : node -> node) pp : forall q0 r pn,
  (forall i p', ~ is_prefix (q0 ++ pp ++ [nm]) p' -> Sh' i p' = Sh i p') ->
  CohT Sh nl q0 r -> nget pp r = Some pn ->
  NodeOK Sh' nl (q0 ++ pp) (g pn) ->
  (forall k c, afind k (n_ch (g pn)) = Some c ->
     (k = nm /\ CohT Sh' nl (q0 ++ pp ++ [nm]) c) \/ (k <> nm /\ afind k (n_ch pn) = Some c)) ->
  CohT Sh' nl q0 (nupd pp g r).
Proof.
  induction pp as [|c pp IH]; intros q0 r pn Hag HC Hget Hpar Hch; cbn [nupd nget] in *.
  - inversion Hget; subst pn. rewrite app_nil_r in Hpar. cbn [app] in *. apply CohT_intro; [exact Hpar|].
    intros k c' Hk. destruct (Hch k c' Hk) as [H1|H1]; destruct H1 as [Hne Hold]; [subst k; exact Hold|].
    apply (CohT_frame Sh Sh' nl (q0 ++ [nm])); [exact Hag| | |eapply CohT_child; eassumption].
    + intros p' [x ->]. rewrite <- app_assoc. cbn [app]. apply not_prefix_sibling. congruence.
    + intros p' Hp Hq. pose proof (is_prefix_trans _ _ _ Hq Hp) as H.
      apply (proj1 (is_prefix_app_l _ _ _)) in H. apply (proj1 (is_prefix_cons _ _ _ _)) in H. destruct H as [H _]. congruence.
  - destruct (afind c (n_ch r)) as [y|] eqn:Ec; [|discriminate].
    assert (Hagq : forall i p', (List.length p' <= S (List.length q0))%nat -> Sh' i p' = Sh i p').
    { intros i p' Hlen. apply Hag. apply not_prefix_longer. rewrite !app_length. cbn [List.length]. rewrite ?app_length. cbn [List.length]. lia. }
    apply CohT_intro.
    + eapply NodeOK_shape; [| | | |apply (NodeOK_ext Sh Sh' nl q0 r); [| |apply (CohT_node _ _ _ _ HC)]];
        cbn [n_reals n_wh n_loaded n_ch]; try reflexivity.
      * apply keys_amap.
      * intros i p' Hp. apply Hagq. apply is_prefix_len in Hp. lia.
      * intros i k. apply Hagq. rewrite app_length. cbn. lia.
    + intros k c' Hk. cbn [n_ch] in Hk. destruct (String.eqb c k) eqn:E.
      * apply String.eqb_eq in E; subst k. rewrite afind_amap, Ec in Hk. cbn [option_map] in Hk. inversion Hk; subst c'.
        apply (IH (q0 ++ [c]) y pn).
        -- intros i p' Hn. apply Hag. rewrite <- app_assoc in Hn. exact Hn.
        -- eapply CohT_child; eassumption.
        -- exact Hget.
        -- rewrite <- app_assoc. exact Hpar.
        -- intros k c0 Hk0. destruct (Hch k c0 Hk0) as [H|H]; [left|right; exact H]. destruct H as [H1 H2].
           split; [exact H1|]. rewrite <- app_assoc. exact H2.
      * rewrite (afind_amap_other _ _ _ _ E) in Hk.
        apply (CohT_frame Sh Sh' nl (q0 ++ (c :: pp) ++ [nm])); [exact Hag| | |eapply CohT_child; eassumption].
        -- intros p' [x ->]. rewrite <- !app_assoc. cbn [app]. apply not_prefix_sibling.
           intros ->. rewrite String.eqb_refl in E. discriminate.
        -- intros p' Hp. apply not_prefix_longer. apply is_prefix_len in Hp. rewrite !app_length in *. cbn [List.length] in *.
           rewrite ?app_length. cbn [List.length]. lia.
Qed.
End SetEntry.

(* ------------------------------------------------------------------ candidate lists are increasing: layer 0 can only be first *)
Section Sorted.
Variable Sh : nat -> path -> option shape.
Variable nl : nat.
Definition incr (l : list nat) : Prop := StronglySorted lt l.
Lemma incr_dcut p st : incr st -> incr (dcut Sh p st) /\ (forall i, In i (dcut Sh p st) -> In i st).
Proof.
  induction st as [|i r IH]; intros H; cbn [dcut]; [split; [constructor|auto]|].
  inversion H as [|? ? Hr Hall]; subst. destruct (IH Hr) as [A B].
  destruct (Sh i p) as [[o|w]|].
  - destruct o.
    + split; [constructor; [constructor|constructor]|]. intros j [->|[]]. left; reflexivity.
    + split.
      * constructor; [exact A|]. rewrite Forall_forall in *. intros j Hj. apply Hall. apply B. exact Hj.
      * intros j [->|Hj]; [left; reflexivity|right; apply B; exact Hj].
  - split; [constructor|intros j []].
  - split; [constructor|intros j []].
Qed.
Lemma incr_filter f l : incr l -> incr (filter f l).
Proof.
  induction 1 as [|i r Hr IH Hall]; cbn [filter]; [constructor|]. destruct (f i); [|exact IH].
  constructor; [exact IH|]. rewrite Forall_forall in *. intros j Hj. apply Hall. apply filter_In in Hj. tauto.
Qed.
Lemma incr_kids p st k : incr st -> incr (kids Sh p st k).
Proof. intros H. unfold kids. apply incr_filter. apply incr_dcut. exact H. Qed.
Lemma incr_lstk p : forall st p0, incr st -> incr (lstk Sh st p0 p).
Proof. induction p as [|k p IH]; intros st p0 H; cbn [lstk]; [exact H|]. apply IH. apply incr_kids. exact H. Qed.
Lemma incr_seq a n : incr (seq a n).
Proof.
  revert a. induction n as [|n IH]; intros a; cbn [seq]; constructor; [apply IH|].
  apply Forall_forall. intros j Hj. apply in_seq in Hj. lia.
Qed.
Lemma incr_lstack p : incr (lstack Sh nl p).
Proof. apply incr_lstk. apply incr_seq. Qed.
Lemma incr_zero_head l : incr l -> In 0%nat l -> exists r, l = 0%nat :: r.
Proof.
  intros H Hin. destruct l as [|i r]; [destruct Hin|]. inversion H as [|? ? _ Hall]; subst.
  destruct Hin as [->|Hin]; [eauto|]. rewrite Forall_forall in Hall. specialize (Hall 0%nat Hin). lia.
Qed.
End Sorted.

(* ------------------------------------------------------------------ the invariant at a node, from the candidate list and the shapes at the node *)
Lemma NodeOK_ext2 Sh Sh' nl p n :
  lstack Sh' nl p = lstack Sh nl p -> (forall i, Sh' i p = Sh i p) ->
  (forall i k, Sh' i (p ++ [k]) = Sh i (p ++ [k])) -> NodeOK Sh nl p n -> NodeOK Sh' nl p n.
Proof.
  intros HL Hp H2 N.
  constructor; rewrite ?HL; try apply N.
  - eapply Forall_impl; [|apply (ok_reals _ _ _ _ N)]. intros r (A & B & C). unfold rgood. rewrite Hp. auto.
  - rewrite !(dcut_ext Sh Sh' p _ Hp). apply N.
  - apply (opq_ok_ext Sh Sh'); [exact Hp|apply N].
  - intros Hl. destruct (ok_ld _ _ _ _ N Hl) as (A & B & C). split; [exact A|]. split; [exact B|].
    intros k. rewrite (kids_ext Sh Sh' p _ k Hp (fun i => H2 i k)). apply C.
Qed.
(* below a path q whose candidate lists for the children did not change *)
Lemma CohT_below Sh Sh' nl q : 
  (forall i r, r <> [] -> Sh' i (q ++ r) = Sh i (q ++ r)) ->
  (forall k, kids Sh' q (lstack Sh' nl q) k = kids Sh q (lstack Sh nl q) k) ->
  forall k c, CohT Sh nl (q ++ [k]) c -> CohT Sh' nl (q ++ [k]) c.
Proof.
  intros Hag Hk k c HC r m Hm. apply (NodeOK_ext2 Sh Sh' nl); [| | |apply HC; exact Hm].
  - rewrite <- app_assoc. cbn [app]. unfold lstack.
    assert (G : forall r st st' p0, st' = st -> (forall i p', is_prefix p0 p' -> is_prefix p' (p0 ++ r) -> Sh' i p' = Sh i p') ->
              lstk Sh' st' p0 r = lstk Sh st p0 r).
    { intros r0 st st' p0 -> H. apply lstk_ext. exact H. }
    change (k :: r) with ([k] ++ r). rewrite app_assoc.
    rewrite <- !(app_nil_l (q ++ [k])) at 1.
    (* split the walk at q ++ [k] *)
    assert (Hsplit : forall S a b st, lstk S st [] (a ++ b) = lstk S (lstk S st [] a) a b).
    { intros S a. induction a as [|x a IHa] using rev_ind; intros b st; [reflexivity|].
      rewrite <- app_assoc. cbn [app]. rewrite IHa. cbn [lstk]. rewrite lstk_snoc. cbn [app]. reflexivity. }
    cbn [app]. rewrite !Hsplit. apply G.
    + fold (lstack Sh' nl (q ++ [k])). fold (lstack Sh nl (q ++ [k])). rewrite !lstack_snoc. apply Hk.
    + intros i p' [x ->] _. rewrite <- app_assoc. apply Hag. destruct x; discriminate.
  - intros i. rewrite <- app_assoc. apply Hag. destruct r; discriminate.
  - intros i k'. rewrite <- !app_assoc. apply Hag. destruct r; discriminate.
Qed.
