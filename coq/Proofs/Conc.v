(* C09: invariant of the interleaving model of do_lookup / forget_one, by induction over the
   step relation, for any number of threads, any programs, any schedule. *)
From Coq Require Import List NArith Bool Arith Lia.
From FB Require Import Model.Conc.
Import ListNotations.
Local Open Scope N_scope.

Definition locked_pc (p : pcs) : bool := match p with L4 | F1 | F2 => true | _ => false end.

Record Body (s : cstate) : Prop := mkBody {
  (* only the generation in the map can have a non-zero count: a removed object is dead for ever *)
  bA : forall g, rcs s g <> 0 -> cur s = Some g;
  (* the count in the map is what lookups added minus what forgets dropped *)
  bB : rc_now s + fdec s = linc s;
  bH : linc s = base s + ldone s;
  bJ : fdec s <= fnom s;
  (* lock discipline: whoever is inside a locked region holds the write lock *)
  bC : forall t, locked_pc (pc (thr s t)) = true -> wl s = Some t;
  (* a forget about to compare-exchange holds the object that is in the map *)
  bF : forall t, pc (thr s t) = F2 -> cur s = Some (held (thr s t));
  (* a lookup about to compare-exchange loaded a non-zero count *)
  bG : forall t, pc (thr s t) = L2 -> seen (thr s t) <> 0
}.

(* as long as fewer than 2^64-1 increments were applied (no saturation / wrap of the count) *)
Definition Inv (s : cstate) : Prop := linc s < U64MAX -> Body s.

Lemma fupd_same {A} (f : nat -> A) k v : fupd f k v k = v.
Proof. unfold fupd. rewrite Nat.eqb_refl. reflexivity. Qed.
Lemma fupd_other {A} (f : nat -> A) k v x : x <> k -> fupd f k v x = f x.
Proof. intros N. unfold fupd. destruct (Nat.eqb_spec x k); [contradiction|reflexivity]. Qed.

Lemma after_lookup_pc th :
  locked_pc (pc (th_after_lookup th)) = false /\ pc (th_after_lookup th) <> F2 /\ pc (th_after_lookup th) <> L2.
Proof. unfold th_after_lookup. destruct (arg th =? 0); cbn; repeat split; discriminate. Qed.

Lemma rc_le_linc s : Body s -> forall g, rcs s g <= linc s.
Proof.
  intros B g. destruct (N.eq_dec (rcs s g) 0) as [Z|Z]; [lia|].
  pose proof (bA s B g Z) as C. pose proof (bB s B) as E. unfold rc_now in E. rewrite C in E. lia.
Qed.

Ltac thr_cases t x :=
  destruct (Nat.eq_dec x t) as [->|?NE]; [rewrite ?fupd_same in *|rewrite ?fupd_other in * by assumption].

Lemma linc_mono s t s' : tstep s t = Some s' -> linc s <= linc s'.
Proof.
  unfold tstep. intros H.
  repeat match type of H with
         | context[match ?x with _ => _ end] => destruct x eqn:?
         | context[if ?x then _ else _] => destruct x eqn:?
         end; inversion H; subst; cbn; lia.
Qed.

Theorem tstep_body s t s' : Body s -> tstep s t = Some s' -> linc s' < U64MAX -> Body s'.
Proof.
  intros B H NS.
  pose proof (linc_mono _ _ _ H) as LM.
  assert (RCB : forall g, rcs s g + 1 < 18446744073709551616).
  { intros g. pose proof (rc_le_linc s B g). unfold U64MAX in *. lia. }
  destruct B as [A Bq Hq J C F G].
  unfold tstep in H. remember (thr s t) as th eqn:TH.
  destruct (pc th) eqn:PC.
  - (* PIdle *)
    destruct (prog th) as [|[|n|d] r]; [discriminate| | |]; inversion H; subst s'; clear H;
      constructor; cbn; auto; intros x; thr_cases t x; cbn; auto; try discriminate;
      try (intros X; apply C in X; exact X); try (intros X; apply F in X; exact X); try (intros X; apply G in X; exact X).
  - (* L0 *)
    destruct (is_none_nat (wl s)) eqn:WL; [|discriminate].
    destruct (cur s) as [g|] eqn:CU; inversion H; subst s'; clear H;
      constructor; cbn; auto; try (rewrite CU; auto); intros x; thr_cases t x; cbn; auto; try discriminate.
  - (* L1 *)
    destruct (rcs s (held th) =? 0) eqn:Z; inversion H; subst s'; clear H;
      constructor; cbn; auto; intros x; thr_cases t x; cbn; auto; try discriminate.
    intros _. apply N.eqb_neq in Z. exact Z.
  - (* L2 *)
    destruct (rcs s (held th) =? seen th) eqn:E.
    + apply N.eqb_eq in E. inversion H; subst s'; clear H. cbn in NS.
      assert (SN : seen th <> 0) by (rewrite TH; apply (G t); rewrite <- TH; exact PC).
      assert (CU : cur s = Some (held th)) by (apply A; rewrite E; exact SN).
      pose proof (RCB (held th)) as RB. rewrite E in RB.
      assert (MN : N.min (seen th + 1) U64MAX = seen th + 1) by (unfold U64MAX; lia).
      constructor; cbn.
      * intros g. unfold fupd. destruct (Nat.eqb_spec g (held th)); [subst; intros _; exact CU|apply A].
      * unfold rc_now in *. cbn. rewrite CU in *. rewrite fupd_same. rewrite MN. lia.
      * lia.
      * exact J.
      * intros x; thr_cases t x; [destruct (after_lookup_pc th) as (P1 & P2 & P3); intros X; first [congruence|rewrite P1 in X; discriminate]|cbn; apply C].
      * intros x; thr_cases t x; [destruct (after_lookup_pc th) as (P1 & P2 & P3); intros X; first [congruence|rewrite P1 in X; discriminate]|cbn; apply F].
      * intros x; thr_cases t x; [destruct (after_lookup_pc th) as (P1 & P2 & P3); intros X; first [congruence|rewrite P1 in X; discriminate]|cbn; apply G].
    + inversion H; subst s'; clear H.
      constructor; cbn; auto; intros x; thr_cases t x; cbn; auto; try discriminate.
  - (* L3 *)
    destruct (is_none_nat (wl s)) eqn:WL; [|discriminate].
    assert (WN : wl s = None) by (destruct (wl s); [discriminate|reflexivity]).
    inversion H; subst s'; clear H.
    constructor; cbn; auto; intros x; thr_cases t x; cbn; auto; try discriminate.
    intros X. apply C in X. congruence.
  - (* L4 *)
    assert (WT : wl s = Some t) by (apply C; rewrite <- TH, PC; reflexivity).
    assert (NOLOCK : forall x, x <> t -> locked_pc (pc (thr s x)) = true -> False).
    { intros x NE X. apply C in X. congruence. }
    destruct (cur s) as [g|] eqn:CU; inversion H; subst s'; clear H; cbn in NS.
    + pose proof (RCB g) as RB.
      assert (WR : wrap64 (rcs s g + 1) = rcs s g + 1) by (unfold wrap64; apply N.mod_small; exact RB).
      constructor; cbn.
      * intros g0. unfold fupd. destruct (Nat.eqb_spec g0 g); [subst; auto|]. intros X. apply A in X. congruence.
      * unfold rc_now in *. cbn. rewrite CU in *. rewrite fupd_same, WR. lia.
      * lia.
      * exact J.
      * intros x; thr_cases t x; [destruct (after_lookup_pc th) as (P1 & P2 & P3); intros X; first [congruence|rewrite P1 in X; discriminate]|cbn; idtac]. intros X. exfalso. eapply NOLOCK; eauto.
      * intros x; thr_cases t x; [destruct (after_lookup_pc th) as (P1 & P2 & P3); intros X; first [congruence|rewrite P1 in X; discriminate]|cbn; idtac]. intros X. exfalso. eapply (NOLOCK x); eauto. rewrite X. reflexivity.
      * intros x; thr_cases t x; [destruct (after_lookup_pc th) as (P1 & P2 & P3); intros X; first [congruence|rewrite P1 in X; discriminate]|cbn; apply G].
    + assert (ALLZ : forall g, rcs s g = 0).
      { intros g. destruct (N.eq_dec (rcs s g) 0) as [Z|Z]; [exact Z|]. apply A in Z. congruence. }
      constructor; cbn.
      * intros g0. unfold fupd. destruct (Nat.eqb_spec g0 (ngen s)); [subst; auto|]. intros X. rewrite ALLZ in X. congruence.
      * unfold rc_now in *. cbn. rewrite CU in *. rewrite fupd_same. lia.
      * lia.
      * exact J.
      * intros x; thr_cases t x; [destruct (after_lookup_pc th) as (P1 & P2 & P3); intros X; first [congruence|rewrite P1 in X; discriminate]|cbn; idtac]. intros X. exfalso. eapply NOLOCK; eauto.
      * intros x; thr_cases t x; [destruct (after_lookup_pc th) as (P1 & P2 & P3); intros X; first [congruence|rewrite P1 in X; discriminate]|cbn; idtac]. intros X. exfalso. eapply (NOLOCK x); eauto. rewrite X. reflexivity.
      * intros x; thr_cases t x; [destruct (after_lookup_pc th) as (P1 & P2 & P3); intros X; first [congruence|rewrite P1 in X; discriminate]|cbn; apply G].
  - (* F0 *)
    destruct (is_none_nat (wl s)) eqn:WL; [|discriminate].
    assert (WN : wl s = None) by (destruct (wl s); [discriminate|reflexivity]).
    inversion H; subst s'; clear H.
    constructor; cbn; auto; intros x; thr_cases t x; cbn; auto; try discriminate.
    intros X. apply C in X. congruence.
  - (* F1 *)
    assert (WT : wl s = Some t) by (apply C; rewrite <- TH, PC; reflexivity).
    assert (NOLOCK : forall x, x <> t -> locked_pc (pc (thr s x)) = true -> False).
    { intros x NE X. apply C in X. congruence. }
    destruct (cur s) as [g|] eqn:CU; inversion H; subst s'; clear H.
    + constructor; cbn; auto; try (rewrite CU; auto); intros x; thr_cases t x; cbn; auto; try discriminate.
    + constructor; cbn.
      * intros g0 X. apply A in X. congruence.
      * unfold rc_now in *. cbn. rewrite CU in Bq. exact Bq.
      * exact Hq.
      * lia.
      * intros x; thr_cases t x; cbn; [discriminate|]. intros X. exfalso. eapply NOLOCK; eauto.
      * intros x; thr_cases t x; cbn; [discriminate|]. intros X. exfalso. eapply (NOLOCK x); eauto. rewrite X. reflexivity.
      * intros x; thr_cases t x; cbn; [discriminate|apply G].
  - (* F2 *)
    assert (WT : wl s = Some t) by (apply C; rewrite <- TH, PC; reflexivity).
    assert (NOLOCK : forall x, x <> t -> locked_pc (pc (thr s x)) = true -> False).
    { intros x NE X. apply C in X. congruence. }
    assert (CU : cur s = Some (held th)) by (rewrite TH; apply F; rewrite <- TH; exact PC).
    destruct (rcs s (held th) =? seen th) eqn:E.
    + apply N.eqb_eq in E. inversion H; subst s'; clear H.
      constructor; cbn.
      * intros g. unfold fupd. destruct (Nat.eqb_spec g (held th)) as [->|NE].
        -- destruct (N.eqb_spec (seen th - arg th) 0); [congruence|intros _; exact CU].
        -- intros X. apply A in X. congruence.
      * unfold rc_now in *. cbn. rewrite CU in *.
        destruct (N.eqb_spec (seen th - arg th) 0); [|rewrite fupd_same]; lia.
      * exact Hq.
      * lia.
      * intros x; thr_cases t x; cbn; [discriminate|]. intros X. exfalso. eapply NOLOCK; eauto.
      * intros x; thr_cases t x; cbn; [discriminate|]. intros X. exfalso. eapply (NOLOCK x); eauto. rewrite X. reflexivity.
      * intros x; thr_cases t x; cbn; [discriminate|apply G].
    + inversion H; subst s'; clear H.
      constructor; cbn; auto; intros x; thr_cases t x; cbn; auto; try discriminate.
  - (* U0 *)
    destruct (is_none_nat (wl s)) eqn:WL; [|discriminate].
    assert (WN : wl s = None) by (destruct (wl s); [discriminate|reflexivity]).
    inversion H; subst s'; clear H.
    constructor; cbn; auto; intros x; thr_cases t x; cbn; auto; try discriminate.
    intros X. apply C in X. congruence.
Qed.

Theorem step_inv s s' : Inv s -> cstep s s' -> Inv s'.
Proof.
  intros I ST NS. destruct ST as [s t s' H].
  pose proof (linc_mono _ _ _ H) as LM.
  assert (NS0 : linc s < U64MAX) by lia.
  exact (tstep_body _ _ _ (I NS0) H NS).
Qed.

Theorem reachable_inv s0 s : Inv s0 -> reachable s0 s -> Inv s.
Proof. intros I R. induction R as [|s s' R IH ST]; [exact I|]. eapply step_inv; eauto. Qed.

Lemma cinit_body r0 progs : Body (cinit r0 progs).
Proof.
  unfold cinit. constructor; cbn; try lia; try discriminate.
  - intros g. destruct (Nat.eqb_spec g 0) as [->|NE]; [|congruence].
    intros X. destruct (N.eqb_spec r0 0); [congruence|reflexivity].
  - unfold rc_now; cbn. destruct (N.eqb_spec r0 0); cbn; lia.
Qed.

Theorem reachable_body r0 progs s :
  reachable (cinit r0 progs) s -> linc s < U64MAX -> Body s.
Proof. intros R. apply (reachable_inv _ _ (fun _ => cinit_body r0 progs) R). Qed.

(* ------------------------------------------------------------------ consequences *)
(* never two inode objects of the file with references: no duplicate inode *)
Theorem no_duplicate s g g' : Body s -> rcs s g <> 0 -> rcs s g' <> 0 -> g = g'.
Proof. intros B X Y. pose proof (bA s B g X). pose proof (bA s B g' Y). congruence. Qed.

(* at every moment: count in the map = references held before + lookups returned - references dropped by forgets *)
Theorem count_exact s : Body s ->
  rc_now s + fdec s = base s + ldone s /\ fdec s <= fnom s.
Proof. intros B. split; [rewrite (bB s B); apply (bH s B)|apply (bJ s B)]. Qed.

(* a reference a lookup returned stays usable while the client has not forgotten it, whatever
   concurrent forgets did to earlier references *)
Theorem reference_survives s : Body s -> fnom s < base s + ldone s ->
  exists g, cur s = Some g /\ 0 < rcs s g.
Proof.
  intros B L. destruct (count_exact s B) as [E J].
  unfold rc_now in E. destruct (cur s) as [g|]; [exists g; split; [reflexivity|lia]|lia].
Qed.

(* the write lock is exclusive *)
Theorem lock_exclusive s t t' : Body s ->
  locked_pc (pc (thr s t)) = true -> locked_pc (pc (thr s t')) = true -> t = t'.
Proof. intros B X Y. pose proof (bC s B t X). pose proof (bC s B t' Y). congruence. Qed.

(* ------------------------------------------------------------------ the states the schedule replay visits are reachable *)
Lemma macro_reach s0 : forall fuel s t s', reachable s0 s -> macro fuel s t = Some s' -> reachable s0 s'.
Proof.
  induction fuel as [|f IH]; intros s t s' R H; cbn in H; [discriminate|].
  destruct (tstep s t) as [s1|] eqn:T; [|discriminate].
  assert (R1 : reachable s0 s1) by (eapply reach_step; [exact R|econstructor; exact T]).
  destruct (at_yield (pc (thr s1 t)) || finished (thr s1 t)).
  - inversion H; subst. exact R1.
  - eapply IH; eauto.
Qed.

Lemma run_sched_reach s0 : forall sched s l s', reachable s0 s -> run_sched s sched = Some (l, s') -> reachable s0 s'.
Proof.
  induction sched as [|t r IH]; intros s l s' R H; cbn [run_sched] in H.
  - inversion H; subst. exact R.
  - destruct (macro 16 s t) as [s1|] eqn:M; [|discriminate].
    destruct (run_sched s1 r) as [[l2 s2]|] eqn:RS; [|discriminate].
    inversion H; subst. apply (IH s1 l2 s'); [exact (macro_reach s0 _ _ _ _ R M)|exact RS].
Qed.

(* non-vacuity: the racing schedule in which a forget drops the last previous reference between
   a lookup's probe and its compare-exchange *)
Definition ex_progs : nat -> list cop := fun t => match t with O => [CLookup] | S O => [CForget 1] | _ => [] end.
Definition ex_sched : list nat := [0; 1; 0; 1; 1; 0; 0; 0]%nat.
Lemma ex_race :
  match run_sched (cinit 1 ex_progs) ex_sched with
  | Some (tr, s) => tr = [0; 4; 1; 5; 9; 0; 3; 9] /\ rc_now s = 1 /\ ngen s = 2%nat /\ rcs s 0%nat = 0 /\
                    ldone s = 1 /\ fnom s = 1 /\ fdec s = 1
  | None => False
  end.
Proof. vm_compute. intuition reflexivity. Qed.

(* the compare-exchange of a forget fails because a lookup's compare-exchange got in between its
   load and its compare-exchange (the forget holds the write lock throughout); it reloads and succeeds *)
Definition ex_retry_sched : list nat := [0; 0; 0; 1; 1; 0; 1; 1]%nat.
Lemma ex_retry :
  match run_sched (cinit 1 ex_progs) ex_retry_sched with
  | Some (tr, s) => tr = [0; 1; 2; 4; 5; 9; 5; 9] /\ rc_now s = 1 /\ ngen s = 1%nat /\
                    ldone s = 1 /\ fnom s = 1 /\ fdec s = 1
  | None => False
  end.
Proof. vm_compute. intuition reflexivity. Qed.

(* a READDIRPLUS entry that does not fit: the reference is taken and given back; racing with the client's
   forget of its one reference (the forget removes the object between the lookup's probe and its load: the lookup retries, inserts a new object, and the undo removes it again) *)
Definition ex_rdp_progs : nat -> list cop := fun t => match t with O => [CRdp false] | S O => [CForget 1] | _ => [] end.
Definition ex_rdp_sched : list nat := [0; 0; 1; 1; 1; 0; 0; 0; 0]%nat.
Lemma ex_rdp :
  match run_sched (cinit 1 ex_rdp_progs) ex_rdp_sched with
  | Some (tr, s) => tr = [0; 1; 4; 5; 9; 0; 3; 5; 9] /\ rc_now s = 0 /\ cur s = None /\ ngen s = 2%nat /\
                    ldone s = 1 /\ fnom s = 2 /\ fdec s = 2
  | None => False
  end.
Proof. vm_compute. intuition reflexivity. Qed.
(* delivered entry: one more reference, exactly like a lookup *)
Definition ex_rdp2_progs : nat -> list cop := fun t => match t with O => [CRdp true] | S O => [CForget 1] | _ => [] end.
Lemma ex_rdp2 :
  match run_sched (cinit 1 ex_rdp2_progs) [0; 1; 1; 1; 0; 0]%nat with
  | Some (tr, s) => tr = [0; 4; 5; 9; 3; 9] /\ rc_now s = 1 /\ ngen s = 2%nat /\ ldone s = 1 /\ fdec s = 1
  | None => False
  end.
Proof. vm_compute. intuition reflexivity. Qed.
