(* Generic lemmas about fields inside a concatenation of [enc] blocks.
   Shared by Proofs/ServerEncode*.v (C03) and Proofs/ServerDecode*.v (C02).

   [encf fs] is the concatenation of the little-endian encodings of a list of
   (width, value) pairs; [fget fs off] finds the pair that starts at byte offset [off];
   [fget_ok]: reading [w] bytes at that offset gives back the value mod 2^(8w), whatever
   precedes ([pre]) or follows ([rest]) the block. *)
From Coq Require Import List Arith NArith Lia.
From FB Require Import Lib.Bytes.
Import ListNotations.
Local Open Scope N_scope.

Definition encf (fs : list (nat * N)) : list N := flat_map (fun p => enc (fst p) (snd p)) fs.

Fixpoint fget (fs : list (nat * N)) (off : nat) : option (nat * N) :=
  match fs with
  | [] => None
  | (w, v) :: r =>
    if Nat.eqb off 0 then Some (w, v)
    else if Nat.ltb off w then None else fget r (off - w)
  end.

Fixpoint fwidth (fs : list (nat * N)) : nat :=
  match fs with [] => O | (w, _) :: r => (w + fwidth r)%nat end.

Lemma encf_length fs : length (encf fs) = fwidth fs.
Proof.
  induction fs as [|[w v] r IH]; [reflexivity|].
  unfold encf in *. cbn [flat_map fst snd fwidth]. rewrite app_length, enc_length, IH. reflexivity.
Qed.

Lemma encf_cons w v r : encf ((w, v) :: r) = enc w v ++ encf r.
Proof. reflexivity. Qed.

Lemma encf_app a b : encf (a ++ b) = encf a ++ encf b.
Proof. unfold encf. apply flat_map_app. Qed.

Lemma skipn_app_ge {A} (a b : list A) n : (length a <= n)%nat -> skipn n (a ++ b) = skipn (n - length a) b.
Proof.
  intro H. rewrite skipn_app. rewrite (skipn_all2 a) by exact H. reflexivity.
Qed.

Lemma fget_ok_0 fs off w v rest :
  fget fs off = Some (w, v) ->
  dec (firstn w (skipn off (encf fs ++ rest))) = v mod 2 ^ (8 * N.of_nat w).
Proof.
  revert off; induction fs as [|[w0 v0] r IH]; intro off; cbn [fget]; [discriminate|].
  destruct (Nat.eqb_spec off 0) as [->|Hne].
  - intro H; inversion H; subst. rewrite encf_cons, <- app_assoc. cbn [skipn].
    rewrite take_app_exact by apply enc_length. apply dec_enc.
  - destruct (Nat.ltb_spec off w0) as [Hlt|Hge]; [discriminate|].
    intro H. rewrite encf_cons, <- app_assoc.
    rewrite skipn_app_ge by (rewrite enc_length; exact Hge). rewrite enc_length.
    apply IH. exact H.
Qed.

(* the general form: a block of fields after [base] bytes of anything *)
Lemma fget_ok pre fs rest base off w v :
  length pre = base -> fget fs off = Some (w, v) ->
  dec (firstn w (skipn (base + off) (pre ++ encf fs ++ rest))) = v mod 2 ^ (8 * N.of_nat w).
Proof.
  intros Hp Hf. rewrite skipn_app_ge by lia. rewrite Hp.
  replace (base + off - base)%nat with off by lia. apply fget_ok_0. exact Hf.
Qed.

(* raw bytes located after a block of fields *)
Lemma skipn_fields pre fs rest n :
  (length pre + fwidth fs)%nat = n -> skipn n (pre ++ encf fs ++ rest) = rest.
Proof.
  intro H. rewrite app_assoc. apply drop_app_exact. rewrite app_length, encf_length. exact H.
Qed.

Lemma pow2_8 : 2 ^ (8 * N.of_nat 8) = 18446744073709551616. Proof. reflexivity. Qed.
Lemma pow2_4 : 2 ^ (8 * N.of_nat 4) = 4294967296. Proof. reflexivity. Qed.
Lemma pow2_2 : 2 ^ (8 * N.of_nat 2) = 65536. Proof. reflexivity. Qed.
