(* "Each mount uses its own mapping if it was given one and the global mapping otherwise,
   regardless of which mounts previously occupied its slot."  Histories are run together with a ghost
   record of which mapping was given to the mount attached in each slot. *)
From Coq Require Import List NArith Bool Lia.
From FB Require Import Model.Pseudo Gen.VfsTable Model.Vfs Proofs.VfsCodec Proofs.VfsAlloc Proofs.VfsInv Proofs.VfsRouting Proofs.VfsIdmap.
Import ListNotations.
Local Open Scope N_scope.

Definition ghost := N -> option (option mapping).     (* slot -> Some (mapping given to the attached mount) *)
Definition gset (g : ghost) (i : N) (v : option (option mapping)) : ghost := fun j => if j =? i then v else g j.

Inductive hstep :=
| HMount (bid : N) (p : path) (map : option mapping) (a : mount_ans)
| HUmount (p : path)
| HInit (o e : N)
| HDestroy.

(* the slot an over-mount at p vacates *)
Definition overmounted (s : vfs) (p : path) : option N :=
  match ps_mount (v_ps s) p with
  | Ok (_, pino) => option_map mp_idx (aget pino (v_mps s))
  | _ => None
  end.
Definition umounted (s : vfs) (p : path) : option N :=
  match ps_path_walk (v_ps s) p with
  | Ok (Some pino) => option_map mp_idx (aget pino (v_mps s))
  | _ => None
  end.

Definition gstep (sg : vfs * ghost) (st : hstep) : vfs * ghost :=
  let '(s, g) := sg in
  match st with
  | HMount bid p map a =>
    match vfs_mount s bid p map a with
    | (s', VOk idx, _) =>
      (s', gset (match overmounted s p with Some oi => gset g oi None | None => g end) idx (Some map))
    | (s', _, _) => (s', g)
    end
  | HUmount p =>
    match vfs_umount s p with
    | (s', VOk _, _) => (s', match umounted s p with Some i => gset g i None | None => g end)
    | (s', _, _) => (s', g)
    end
  | HInit o e => (fst (fst (vfs_init s o e)), g)
  | HDestroy => (fst (vfs_destroy s), g)
  end.

Definition grun (o : vopts) (rm : bool) (l : list hstep) : vfs * ghost :=
  fold_left gstep l (vfs_new o rm, fun _ => None).

Definition mapping_expected (s : vfs) (mo : option mapping) : option mapping :=
  match mo with Some m => Some m | None => v_gmap s end.

(* ---------- the invariant: a slot with an attached mount holds exactly the mapping given to that mount ---------- *)
Record ginv (s : vfs) (g : ghost) : Prop := mkGinv {
  gi_wf : wf s;
  gi_sb : forall i, g i = None <-> aget i (v_sb s) = None;
  gi_maps : forall i mo, g i = Some mo -> aget i (v_maps s) = mo }.

Lemma insert_mount_sb s bid e idx p s' : insert_mount s bid e idx p = (s', Ok tt) ->
  v_sb s' = aset idx bid (match overmounted s p with Some oi => adel oi (v_sb s) | None => v_sb s end).
Proof.
  unfold insert_mount, overmounted. destruct (ps_mount (v_ps s) p) as [[ps' inode]| |]; try (intros H; inversion H; fail).
  destruct (convert_entry (with_ps s ps') idx (e_ino e) e); try (intros H; inversion H; fail).
  intros H. inversion H. cbn [v_sb v_mps with_ps]. destruct (aget inode (v_mps s)); reflexivity.
Qed.

Lemma insert_mount_fail s bid e idx p s' r : insert_mount s bid e idx p = (s', r) -> r <> Ok tt ->
  v_sb s' = v_sb s /\ v_maps s' = v_maps s /\ v_mps s' = v_mps s.
Proof.
  unfold insert_mount. destruct (ps_mount (v_ps s) p) as [[ps' inode]| |]; try (intros H; inversion H; auto; fail).
  destruct (convert_entry (with_ps s ps') idx (e_ino e) e); try (intros H; inversion H; auto; fail).
  intros H Hr. inversion H; subst r. contradiction.
Qed.

(* an over-mount vacates the slot of an attached mount, never the freshly allocated one *)
Lemma overmounted_attached s p oi : wf s -> overmounted s p = Some oi -> aget oi (v_sb s) <> None.
Proof.
  intros W. unfold overmounted. destruct (ps_mount (v_ps s) p) as [[ps' pino]| |]; try discriminate.
  destruct (aget pino (v_mps s)) as [m|] eqn:Em; [|discriminate]. cbn. intros H. inversion H; subst oi.
  destruct (wf_mp s W _ _ Em) as (_ & _ & _ & _ & Hatt). exact Hatt.
Qed.

Lemma vfs_init_same s o e : let s' := fst (fst (vfs_init s o e)) in v_sb s' = v_sb s /\ v_maps s' = v_maps s.
Proof.
  unfold vfs_init. destruct (v_init s); [cbn; auto|].
  remember (sb_in_order 256 0 (v_sb s)) as bs eqn:Hbs. clear Hbs.
  destruct (o_no_open (v_opts s)); destruct (o_no_opendir (v_opts s)); cbv beta iota zeta;
  destruct bs; try destruct (negb (e =? 0)); cbn; auto.
Qed.

Lemma vfs_destroy_same s : let s' := fst (vfs_destroy s) in v_sb s' = v_sb s /\ v_maps s' = v_maps s.
Proof.
  unfold vfs_destroy. remember (sb_in_order 256 0 (v_sb s)) as bs eqn:Hbs. clear Hbs.
  destruct (v_init s); cbn; auto.
Qed.

Lemma gstep_ginv s g st : ginv s g -> ginv (fst (gstep (s, g) st)) (snd (gstep (s, g) st)).
Proof.
  intros [W Gsb Gmaps]. destruct st as [bid p map a| p | o e |]; cbn [gstep].
  - (* mount, over-mount, failed mount *)
    destruct (vfs_mount s bid p map a) as [[s' r] evs] eqn:Em.
    pose proof (vfs_mount_wf _ _ _ _ _ _ _ _ W Em) as W'.
    unfold vfs_mount in Em.
    destruct (negb (ma_err a =? 0)); [inversion Em; subst; cbn; constructor; assumption|].
    destruct (VFS_MAX_INO <? ma_max a); [inversion Em; subst; cbn; constructor; assumption|].
    destruct (v_init s && negb (ma_init_err a =? 0)); [inversion Em; subst; cbn; constructor; assumption|].
    destruct (allocate_fs_idx s) as [ao nx] eqn:Ea.
    destruct ao as [idx| |].
    2:{ inversion Em; subst; cbn. constructor; [exact W'| exact Gsb | exact Gmaps]. }
    2:{ inversion Em; subst; cbn. constructor; [exact W'| exact Gsb | exact Gmaps]. }
    destruct (allocate_free _ _ _ W Ea) as (Hidx & Hfree & _).
    set (s1 := with_next s nx) in *.
    set (s2 := with_maps s1 (match map with Some m => aset idx m (v_maps s1) | None => adel idx (v_maps s1) end)) in *.
    destruct (insert_mount s2 bid (root_entry_of a) idx p) as [s3 r3] eqn:Ei.
    assert (Hgidx : g idx = None) by (apply Gsb; exact Hfree).
    assert (Hm2 : forall j, j <> idx -> aget j (v_maps s2) = aget j (v_maps s)).
    { intros j Hj. unfold s2, s1. cbn [v_maps with_maps with_next]. destruct map; [apply aget_aset_other|apply aget_adel_other]; exact Hj. }
    assert (Hm2i : aget idx (v_maps s2) = map).
    { unfold s2, s1. cbn [v_maps with_maps with_next]. destruct map; [apply aget_aset_same|apply aget_adel_same]. }
    destruct r3 as [[]|x|].
    + (* success *)
      inversion Em; subst s' r evs. cbn [fst snd].
      destruct (insert_mount_root _ _ _ _ _ _ Ei) as (Hm & _ & _).
      pose proof (insert_mount_sb _ _ _ _ _ _ Ei) as Hsb.
      change (overmounted s2 p) with (overmounted s p) in Hsb. change (v_sb s2) with (v_sb s) in Hsb.
      constructor; [exact W'| |].
      * intros i. unfold gset. rewrite Hsb, aget_aset. destruct (i =? idx) eqn:E; [split; discriminate|].
        destruct (overmounted s p) as [oi|] eqn:Eo; [|apply Gsb].
        rewrite aget_adel. destruct (i =? oi); [split; reflexivity|apply Gsb].
      * intros i mo. unfold gset. rewrite Hm. destruct (i =? idx) eqn:E.
        -- apply N.eqb_eq in E. subst i. intros H. inversion H; subst mo. exact Hm2i.
        -- apply N.eqb_neq in E. rewrite (Hm2 i E). destruct (overmounted s p) as [oi|]; [|apply Gmaps].
           destruct (i =? oi); [discriminate|apply Gmaps].
    + (* insertion failed: the slot's entry is cleared again; nothing else changed *)
      inversion Em; subst s' r evs. cbn [fst snd].
      destruct (insert_mount_fail _ _ _ _ _ _ _ Ei ltac:(discriminate)) as (A & B & _).
      constructor; [exact W'| |]; cbn [with_maps v_sb v_maps].
      * intros i. rewrite A. apply Gsb.
      * intros i mo Hg. assert (i <> idx) by (intros ->; congruence).
        rewrite aget_adel_other by assumption. rewrite B, (Hm2 i H). apply Gmaps. exact Hg.
    + inversion Em; subst s' r evs. cbn [fst snd].
      destruct (insert_mount_fail _ _ _ _ _ _ _ Ei ltac:(discriminate)) as (A & B & _).
      constructor; [exact W'| |].
      * intros i. rewrite A. apply Gsb.
      * intros i mo Hg. assert (i <> idx) by (intros ->; congruence). rewrite B, (Hm2 i H). apply Gmaps. exact Hg.
  - (* umount *)
    destruct (vfs_umount s p) as [[s' r] evs] eqn:Eu.
    pose proof (vfs_umount_wf _ _ _ _ _ W Eu) as W'.
    unfold vfs_umount in Eu. unfold umounted.
    destruct (ps_path_walk (v_ps s) p) as [[inode|]| |]; try (inversion Eu; subst; cbn; constructor; assumption).
    destruct (ps_parent (v_ps s) inode); try (inversion Eu; subst; cbn; constructor; assumption).
    destruct (aget inode (v_mps s)) as [x|] eqn:Ex; try (inversion Eu; subst; cbn; constructor; assumption).
    destruct (if v_rm s then ps_evict (v_ps s) inode else Ok (v_ps s)) as [ps'| |];
      try (inversion Eu; subst; cbn; constructor; assumption).
    inversion Eu; subst s' r evs. cbn [fst snd option_map].
    constructor; [exact W'| |]; unfold gset; cbn [v_sb v_maps].
    + intros i. rewrite aget_adel. destruct (i =? mp_idx x); [split; reflexivity|apply Gsb].
    + intros i mo. rewrite aget_adel. destruct (i =? mp_idx x); [discriminate|apply Gmaps].
  - (* init *)
    cbn [fst snd]. pose proof (vfs_init_same s o e) as [A B].
    destruct (vfs_init s o e) as [[s' r] evs] eqn:Ei. cbn [fst] in *.
    constructor; [eapply vfs_init_wf; eassumption| |]; intros i; [rewrite A; apply Gsb|rewrite B; apply Gmaps].
  - cbn [fst snd]. pose proof (vfs_destroy_same s) as [A B].
    destruct (vfs_destroy s) as [s' evs] eqn:Ed. cbn [fst] in *.
    constructor; [eapply vfs_destroy_wf; eassumption| |]; intros i; [rewrite A; apply Gsb|rewrite B; apply Gmaps].
Qed.

Lemma ginv_new o rm : ginv (vfs_new o rm) (fun _ => None).
Proof.
  constructor; [apply wf_new| |]; intros i; cbn; [split; reflexivity|discriminate].
Qed.

Lemma run_ginv : forall l sg, ginv (fst sg) (snd sg) -> ginv (fst (fold_left gstep l sg)) (snd (fold_left gstep l sg)).
Proof.
  induction l as [|st r IH]; intros [s g] Hi; [exact Hi|].
  cbn [fold_left]. apply IH. apply gstep_ginv. exact Hi.
Qed.

(* after ANY history -- over-mounts, mounts that fail after their index was allocated, any number of wrap-arounds --
   the mapping in force for a slot is the one given to the mount attached there, else the global one *)
Theorem mapping_of_full : forall o rm l idx mo,
  snd (grun o rm l) idx = Some mo ->
  effective_mapping (fst (grun o rm l)) idx = mapping_expected (fst (grun o rm l)) mo.
Proof.
  intros o rm l idx mo Hg. unfold grun in *.
  pose proof (run_ginv l (vfs_new o rm, fun _ => None) (ginv_new o rm)) as [_ _ Gm].
  unfold effective_mapping, mapping_expected. rewrite (Gm idx mo Hg). destruct mo; reflexivity.
Qed.

(* the history that used to defeat it: a mapped mount is over-mounted, 253 mount/umount cycles wrap the index counter,
   a mount without a mapping is handed the vacated slot 1 and gets the global (here: no) mapping *)
Definition okm : mount_ans := mkMA 0 1 0 0 0 1000 0.
Fixpoint cycles (n : nat) : list hstep :=
  match n with O => [] | S k => HMount 50 (mkPath true [CNorm 2]) None okm :: HUmount (mkPath true [CNorm 2]) :: cycles k end.
Definition stale_history : list hstep :=
  HMount 10 (mkPath true [CNorm 1]) (Some (0, 100000, 65536)) okm ::
  HMount 11 (mkPath true [CNorm 1]) None okm ::
  cycles 253 ++ [HMount 12 (mkPath true [CNorm 3]) None okm].
Example slot_reuse_clean :
  snd (grun default_opts false stale_history) 1 = Some None /\
  aget 1 (v_sb (fst (grun default_opts false stale_history))) = Some 12 /\
  effective_mapping (fst (grun default_opts false stale_history)) 1 = None.
Proof. vm_compute. repeat split. Qed.
(* a mount given a mapping fails after its index was allocated (unrooted path); nothing is left behind *)
Example failed_mount_clean :
  let l := [HMount 10 (mkPath false [CNorm 1]) (Some (0, 100000, 65536)) okm] in
  v_maps (fst (grun default_opts false l)) = [] /\ v_next (fst (grun default_opts false l)) = 2.
Proof. vm_compute. split; reflexivity. Qed.
