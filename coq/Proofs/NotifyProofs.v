(* C03 for the notification builders (Model/Notify.v): for ALL arguments,
   - if the message fits the writer, exactly one write call carries the whole message;
   - if it does not, the builder fails and nothing reaches the fd;
   - the message is what the kernel reads (Spec/Notify.v [notify_ok]): unique 0, error field =
     the notify code, length field = total size, fields as given. *)
From Coq Require Import List String NArith Bool Lia Arith ZifyBool ZifyNat ZifyN.
From FB Require Import Lib.Bytes Lib.Layout Spec.KernelABI Model.Server Model.ServerCmp Model.Notify
  Spec.Requests Spec.Replies Spec.Notify
  Proofs.EncLemmas Proofs.ServerPerform Proofs.ServerReply Proofs.ServerDecide Proofs.ServerEncode.
Import ListNotations.
Local Open Scope string_scope.
Local Open Scope list_scope.
Local Open Scope N_scope.

(* ------------------------------------------------------------------ writing pieces into a buffered writer *)
Definition bw (buf : bytes) (cap : N) : writer :=
  {| w_kind := FuseDev; w_buffered := true; w_buf := buf; w_cap := cap |}.

Lemma w_write_bw buf cap d :
  w_write (bw buf cap) d = if cap - blen buf <? blen d then WErr else WOk (bw (buf ++ d) cap, []).
Proof. reflexivity. Qed.

Lemma blen_concat_cons (p : bytes) r : blen (List.concat (p :: r)) = blen p + blen (List.concat r).
Proof. cbn [List.concat]. apply blen_app. Qed.

(* all-or-nothing: the pieces are accepted iff their total fits what is left *)
Lemma write_pieces_spec ps : forall buf cap, blen buf <= cap ->
  write_pieces (bw buf cap) ps =
  if blen buf + blen (List.concat ps) <=? cap then Some (bw (buf ++ List.concat ps) cap) else None.
Proof.
  induction ps as [|p r IH]; intros buf cap Hb.
  - cbn [write_pieces List.concat]. change (blen []) with 0. rewrite N.add_0_r, app_nil_r.
    destruct (N.leb_spec (blen buf) cap); [reflexivity|lia].
  - cbn [write_pieces]. rewrite w_write_bw, blen_concat_cons.
    destruct (N.ltb_spec (cap - blen buf) (blen p)) as [Hlt|Hge].
    + destruct (N.leb_spec (blen buf + (blen p + blen (List.concat r))) cap); [lia|reflexivity].
    + rewrite IH by (rewrite blen_app; lia). rewrite blen_app. cbn [List.concat]. rewrite <- app_assoc.
      replace (blen buf + blen p + blen (List.concat r)) with (blen buf + (blen p + blen (List.concat r))) by lia.
      reflexivity.
Qed.

Lemma notify_pieces_msg n : List.concat (notify_pieces n) = notify_msg n.
Proof.
  destruct n as [parent name|ino off len|]; cbn [notify_pieces notify_msg List.concat];
    rewrite ?app_nil_r, <- ?app_assoc; reflexivity.
Qed.

Lemma notify_msg_nonempty n : notify_msg n <> [].
Proof.
  destruct n as [parent name|ino off len|]; cbn [notify_msg].
  - apply out_header_app_nonempty.
  - apply out_header_app_nonempty.
  - rewrite <- (app_nil_r (out_header _ _ _)). apply out_header_app_nonempty.
Qed.

Lemma run_notify_spec cap n :
  run_notify cap n = if blen (notify_msg n) <=? cap then Some [notify_msg n] else None.
Proof.
  unfold run_notify, w_split, fresh. cbn [w_kind w_buffered w_buf w_cap].
  change (blen []) with 0. rewrite !N.sub_0_r, N.add_0_l.
  destruct (N.ltb_spec cap 0) as [Hlt|_]; [lia|].
  fold (bw [] cap). rewrite write_pieces_spec by (change (blen []) with 0; lia).
  change (blen []) with 0. rewrite N.add_0_l, notify_pieces_msg. cbn [app].
  destruct (blen (notify_msg n) <=? cap); [|reflexivity].
  unfold w_commit, bw. cbn [w_kind w_buffered w_buf negb]. rewrite app_nil_r.
  pose proof (notify_msg_nonempty n) as Hne.
  destruct (notify_msg n); [contradiction|reflexivity].
Qed.

(* exactly one write call carrying the whole message *)
Theorem notify_one_write : forall cap n,
  blen (notify_msg n) <= cap -> run_notify cap n = Some [notify_msg n].
Proof.
  intros cap n H. rewrite run_notify_spec.
  destruct (N.leb_spec (blen (notify_msg n)) cap); [reflexivity|lia].
Qed.

(* a message that does not fit: the builder fails, nothing reaches the fd *)
Theorem notify_too_big : forall cap n,
  cap < blen (notify_msg n) -> run_notify cap n = None.
Proof.
  intros cap n H. rewrite run_notify_spec.
  destruct (N.leb_spec (blen (notify_msg n)) cap); [lia|reflexivity].
Qed.

(* ------------------------------------------------------------------ what the kernel reads *)
Definition entry_fields_n (parent nl : N) : list (nat * N) := [(8%nat, parent); (4%nat, nl - 1); (4%nat, 0)].
Definition inode_fields_n (ino off len : N) : list (nat * N) := [(8%nat, ino); (8%nat, off); (8%nat, len)].

Lemma ksize_inval_entry : ksize "fuse_notify_inval_entry_out" = 16%nat. Proof. vm_compute. reflexivity. Qed.
Lemma ksize_inval_inode : ksize "fuse_notify_inval_inode_out" = 24%nat. Proof. vm_compute. reflexivity. Qed.
Lemma kc_inval_entry : kc "FUSE_NOTIFY_INVAL_ENTRY" = NOTIFY_INVAL_ENTRY. Proof. vm_compute. reflexivity. Qed.
Lemma kc_inval_inode : kc "FUSE_NOTIFY_INVAL_INODE" = NOTIFY_INVAL_INODE. Proof. vm_compute. reflexivity. Qed.
Lemma kc_resend : kc "FUSE_NOTIFY_RESEND" = NOTIFY_RESEND. Proof. vm_compute. reflexivity. Qed.

Lemma notify_hdr l code rest : l < 2 ^ 32 -> code < 2 ^ 32 ->
  hdr_len (out_header l code 0 ++ rest) = l /\ hdr_err (out_header l code 0 ++ rest) = code /\
  hdr_unique (out_header l code 0 ++ rest) = 0.
Proof.
  intros Hl Hc. unfold hdr_len, hdr_err, hdr_unique.
  rewrite hdr_len_field, hdr_err_field, hdr_unique_field.
  rewrite (N.mod_small _ _ Hl), (N.mod_small _ _ Hc). repeat split.
Qed.

Theorem notify_msg_ok : forall n,
  blen (notify_msg n) < 2 ^ 32 -> notify_ok n (notify_msg n) = true.
Proof.
  intros n Hlen. destruct n as [parent name|ino off len|]; unfold notify_ok.
  - (* inval_entry *)
    assert (Hl : blen (notify_msg (NInvalEntry parent name)) = 16 + 16 + (blen name + 1)).
    { cbn [notify_msg]. rewrite !blen_app, out_header_len, !blen_enc. change (blen [0]) with 1. lia. }
    rewrite Hl in *. cbn [notify_msg].
    change (enc 8 parent ++ enc 4 (blen name + 1 - 1) ++ enc 4 0 ++ name ++ [0])
      with (encf (entry_fields_n parent (blen name + 1)) ++ (name ++ [0])).
    destruct (notify_hdr (16 + 16 + (blen name + 1)) NOTIFY_INVAL_ENTRY
                (encf (entry_fields_n parent (blen name + 1)) ++ name ++ [0]) Hlen eq_refl) as [H1 [H2 H3]].
    rewrite H1, H2, H3, kc_inval_entry, ksize_inval_entry.
    rewrite (kget_field "fuse_notify_inval_entry_out" "parent" _ (entry_fields_n parent (blen name + 1)) _ 16%nat 0%nat 8%nat parent
               ltac:(vm_compute; reflexivity) (out_header_length _ _ _) eq_refl).
    rewrite (kget_field "fuse_notify_inval_entry_out" "namelen" _ (entry_fields_n parent (blen name + 1)) _ 16%nat 8%nat 4%nat (blen name + 1 - 1)
               ltac:(vm_compute; reflexivity) (out_header_length _ _ _) eq_refl).
    rewrite (skipn_fields _ (entry_fields_n parent (blen name + 1)) (name ++ [0]) (16 + 16)%nat)
      by (rewrite out_header_length; reflexivity).
    rewrite bytes_eqb_refl. unfold m64. rewrite pow2_8, pow2_4.
    replace (blen name + 1 - 1) with (blen name) by lia.
    rewrite (N.mod_small (blen name)) by (change (2 ^ 32) with 4294967296 in Hlen; lia).
    rewrite !N.eqb_refl. reflexivity.
  - (* inval_inode *)
    assert (Hl : blen (notify_msg (NInvalInode ino off len)) = 16 + 24).
    { cbn [notify_msg]. rewrite !blen_app, out_header_len, !blen_enc. reflexivity. }
    rewrite Hl in *. cbn [notify_msg].
    change (enc 8 ino ++ enc 8 off ++ enc 8 len) with (encf (inode_fields_n ino off len) ++ []).
    destruct (notify_hdr (16 + 24) NOTIFY_INVAL_INODE (encf (inode_fields_n ino off len) ++ []) Hlen eq_refl)
      as [H1 [H2 H3]].
    rewrite H1, H2, H3, kc_inval_inode, ksize_inval_inode.
    rewrite (kget_field "fuse_notify_inval_inode_out" "ino" _ (inode_fields_n ino off len) _ 16%nat 0%nat 8%nat ino
               ltac:(vm_compute; reflexivity) (out_header_length _ _ _) eq_refl).
    rewrite (kget_field "fuse_notify_inval_inode_out" "off" _ (inode_fields_n ino off len) _ 16%nat 8%nat 8%nat off
               ltac:(vm_compute; reflexivity) (out_header_length _ _ _) eq_refl).
    rewrite (kget_field "fuse_notify_inval_inode_out" "len" _ (inode_fields_n ino off len) _ 16%nat 16%nat 8%nat len
               ltac:(vm_compute; reflexivity) (out_header_length _ _ _) eq_refl).
    unfold m64. rewrite pow2_8. rewrite !N.eqb_refl. reflexivity.
  - (* resend *)
    assert (Hl : blen (notify_msg NResend) = 16) by (cbn [notify_msg]; apply out_header_len).
    rewrite Hl. cbn [notify_msg]. rewrite <- (app_nil_r (out_header 16 NOTIFY_RESEND 0)).
    destruct (notify_hdr 16 NOTIFY_RESEND [] eq_refl eq_refl) as [H1 [H2 H3]].
    rewrite H1, H2, H3, kc_resend. reflexivity.
Qed.

(* the length of each message, and that the 2^32 bound only concerns the entry name *)
Lemma notify_msg_len n :
  blen (notify_msg n) =
  match n with NInvalEntry _ name => 33 + blen name | NInvalInode _ _ _ => 40 | NResend => 16 end.
Proof.
  destruct n as [parent name|ino off len|]; cbn [notify_msg];
    rewrite ?blen_app, ?out_header_len, ?blen_enc; [change (blen [0]) with 1; lia|reflexivity|reflexivity].
Qed.

(* everything together, as one statement per run *)
Theorem notify_run_ok : forall cap n,
  cap < 2 ^ 32 -> blen (notify_msg n) <= cap ->
  exists p, run_notify cap n = Some [p] /\ notify_ok n p = true.
Proof.
  intros cap n Hcap Hfit. exists (notify_msg n). split.
  - apply notify_one_write. exact Hfit.
  - apply notify_msg_ok. lia.
Qed.
