(* Proofs/TransportAsync.v -- the async variants of the transport API (feature async-io) are the state
   transformers of their synchronous counterparts ([desugar] / [fdesugar]), so every C04 / C17 theorem about
   [vrun] / [frun] applies to runs that mix in async operations -- except where the code really differs:
   FuseDevWriter::async_write_all does nothing at all for an empty buffer, and
   FuseDevWriter::async_write_from_at places the file data according to [at_len] (Gen/AsyncTransport.v). *)
From Coq Require Import List Arith NArith Bool Lia ZifyBool ZifyNat ZifyN Permutation.
From FB Require Import Gen.AsyncTransport Model.Transport Proofs.Transport Proofs.TransportMachine Proofs.TransportFuse.
Import ListNotations.
Local Open Scope N_scope.
Arguments N.add : simpl never.
Arguments N.sub : simpl never.
Arguments N.min : simpl never.

(* ------------------------------------------------------------------ virtio-fs *)
Lemma async_read_to_at_same count sink m b : rd_async_read_to_at count sink m b = io_read count sink m b.
Proof. reflexivity. Qed.

Lemma async_write_from_at_same count src m d b :
  vw_async_write_from_at count src m d b = vw_write_from count src m d b.
Proof.
  unfold vw_async_write_from_at, vw_write_from, io_write. destruct (avail b <? count); [reflexivity|].
  destruct (take_segs count (segs b)); [reflexivity|]. destruct src; reflexivity.
Qed.

Lemma vw_write_nil m d b : vw_write [] m d b = (ROk 0 [], m, d, b).
Proof.
  unfold vw_write. change (lenN (@nil N)) with 0. destruct (N.ltb_spec (avail b) 0); [lia|].
  unfold io_write. rewrite take_segs_0. reflexivity.
Qed.

Lemma vw_write_seq_each datas acc m d b : vw_write_seq datas acc m d b = vw_write_each datas acc m d b.
Proof.
  revert acc m d b; induction datas as [|x r IH]; intros acc m d b; cbn [vw_write_seq vw_write_each]; [reflexivity|].
  destruct x as [|y x].
  - rewrite vw_write_nil. replace (acc + 0) with acc by lia. apply IH.
  - destruct (vw_write (y :: x) m d b) as [[[rr m'] d'] b']. destruct rr; try reflexivity. apply IH.
Qed.

Lemma async_writes_same datas m d b : vw_async_writes datas m d b = vw_write_vectored datas m d b.
Proof. unfold vw_async_writes, vw_write_vectored. rewrite vw_write_seq_each. reflexivity. Qed.

(* every async operation of the virtio transport is its synchronous counterpart *)
Theorem async_op_same a st : avstep a st = vstep (desugar a) st.
Proof.
  destruct a as [op|i count sink|i data|i d1 d2|i d1 d2 d3|i data|i count src|i]; cbn [avstep desugar]; try reflexivity;
    cbn [vstep]; (destruct (nth_error (v_wr st) i); [|reflexivity]);
    rewrite ?async_writes_same, ?async_write_from_at_same; reflexivity.
Qed.

Theorem async_run_same ops st : avrun ops st = vrun (map desugar ops) st.
Proof.
  revert st; induction ops as [|a ops IH]; intro st; cbn [avrun vrun map]; [reflexivity|].
  rewrite async_op_same. destruct (vstep (desugar a) st) as [o st']. rewrite IH. reflexivity.
Qed.

(* the C17 / C04 statements for runs with async operations, verbatim *)
Theorem async_written_marked ops st : wf_st st ->
  forall a, mget (v_mem (snd (avrun ops st))) a <> mget (v_mem st) a ->
            v_dirty (snd (avrun ops st)) (a / PS) = true.
Proof. rewrite async_run_same. apply written_marked. Qed.

Theorem async_only_consumed_marked ops st : wf_st st -> NoDup (live (v_wr st)) ->
  forall p, v_dirty (snd (avrun ops st)) p = true -> v_dirty st p = true \/
    exists a, a / PS = p /\ In a (live (v_wr st)) /\ ~ In a (live (v_wr (snd (avrun ops st)))).
Proof. rewrite async_run_same. apply only_consumed_marked. Qed.

Theorem async_run_post ops st : wf_st st -> exists log rlog, step_post st (snd (avrun ops st)) log rlog.
Proof. rewrite async_run_same. apply vrun_post. Qed.

Theorem async_stores_persist ops st : wf_st st -> NoDup (live (v_wr st)) ->
  exists log rlog, step_post st (snd (avrun ops st)) log rlog /\
    NoDup (map fst log) /\ forall a v, In (a, v) log -> mget (v_mem (snd (avrun ops st))) a = v.
Proof. rewrite async_run_same. apply stores_persist. Qed.

(* ------------------------------------------------------------------ fusedev *)
(* async_write_all(&[]) does not even reach check_available_space; every other operation is "regular" *)
Definition fa_regular (a : afop) : bool := match a with FAWriteAll _ [] => false | _ => true end.

Lemma f_async_write_from_at_true count src m w :
  fw_async_write_from_at true count src m w = fw_write_from count src m w.
Proof. reflexivity. Qed.

Lemma f_async_write_from_at_fresh at_len count src m w : f_len w = 0 ->
  fw_async_write_from_at at_len count src m w = fw_write_from count src m w.
Proof.
  intro H. destruct at_len; [reflexivity|]. unfold fw_async_write_from_at, fw_write_from.
  rewrite H. replace (f_base w + 0) with (f_base w) by lia. reflexivity.
Qed.

(* full statement: every regular async operation of FuseDevWriter is its synchronous counterpart *)
Definition async_fusedev_full (at_len : bool) : Prop :=
  forall a st, fa_regular a = true -> afstep at_len a st = fstep (fdesugar a) st.

Lemma async_fusedev_full_true : async_fusedev_full true.
Proof.
  intros a st H. destruct a as [op|i data|i d1 d2|i d1 d2 d3|i data|i count src|i other]; cbn [afstep fdesugar]; try reflexivity.
  destruct data; [discriminate|reflexivity].
Qed.

(* with the data placed at the start of the buffer it is refuted: bytes written earlier through the same
   buffered writer are overwritten and stale bytes are committed *)
Lemma async_fusedev_full_false : ~ async_fusedev_full false.
Proof.
  intro H.
  specialize (H (FAWriteFromAt 0 2 (Some [7; 8])) (mkf (mem_init 0) [mkfdw true 100 1 16] []) eq_refl).
  vm_compute in H. discriminate H.
Qed.

Lemma async_fusedev_refuted_iff at_len : ~ async_fusedev_full at_len <-> at_len = false.
Proof.
  destruct at_len; split; intro H; try reflexivity; try discriminate.
  - exfalso. apply H. apply async_fusedev_full_true.
  - apply async_fusedev_full_false.
Qed.

(* the placement read from the current source (Gen/AsyncTransport.v, regenerated every run) is "behind the bytes
   already buffered" since the fix c67a85c: the full statement holds *)
Lemma async_fusedev_full_now : async_fusedev_full async_wfrom_at_len.
Proof. assert (async_wfrom_at_len = true) as -> by reflexivity. apply async_fusedev_full_true. Qed.

(* what holds in any case: the async operation is the synchronous one whenever the target of an
   async_write_from_at has written nothing yet (the way the server uses it: a fresh split-off data writer) *)
Definition fa_fresh (a : afop) (st : fstate) : Prop :=
  match a with
  | FAWriteFromAt i _ _ => match nth_error (f_ws st) i with Some w => f_len w = 0 | None => True end
  | _ => True
  end.

Theorem async_fusedev_partial at_len a st : fa_regular a = true -> fa_fresh a st ->
  afstep at_len a st = fstep (fdesugar a) st.
Proof.
  intros H Hf. destruct a as [op|i data|i d1 d2|i d1 d2 d3|i data|i count src|i other]; cbn [afstep fdesugar]; try reflexivity.
  - destruct data; [discriminate|reflexivity].
  - cbn [fstep]. cbn [fa_fresh] in Hf. destruct (nth_error (f_ws st) i) as [w|]; [|reflexivity].
    now rewrite f_async_write_from_at_fresh.
Qed.

Lemma async_write_all_empty at_len i st w : nth_error (f_ws st) i = Some w ->
  afstep at_len (FAWriteAll i []) st = (fobs (ROk 0 []) w, st).
Proof. intro E. cbn [afstep]. rewrite E. reflexivity. Qed.

(* whatever [at_len] is: len <= cap is kept, nothing outside the reply buffer is written, windows never grow,
   at most one packet per operation -- for runs that mix in async operations *)
Lemma set_nth_same {A} i (x : A) l : nth_error l i = Some x -> set_nth i x l = l.
Proof.
  revert i; induction l as [|y l IH]; intros i E; destruct i; cbn in *; try discriminate.
  - inversion E; reflexivity.
  - f_equal. apply IH. exact E.
Qed.

Lemma afstep_post at_len a st : f_wf st -> f_step_post st (snd (afstep at_len a st)).
Proof.
  intro Hwf. destruct a as [op|i data|i d1 d2|i d1 d2 d3|i data|i count src|i other]; cbn [afstep];
    try (apply fstep_post; exact Hwf).
  - destruct data; [|apply fstep_post; exact Hwf].
    destruct (nth_error (f_ws st) i); cbn [snd]; apply f_step_post_refl; exact Hwf.
  - destruct (nth_error (f_ws st) i) as [w|] eqn:E; [|apply f_step_post_refl; exact Hwf].
    assert (Hinv : f_inv w) by (eapply nth_error_Forall; eauto).
    destruct (fw_async_write_from_at at_len count src (f_mem st) w) as [[[r m'] w'] ps] eqn:F. cbn [snd].
    unfold fw_async_write_from_at in F. destruct (f_check w count) as [r0|] eqn:C.
    + inversion F; subst. rewrite app_nil_r, (set_nth_same _ _ _ E). destruct st; apply f_step_post_refl; exact Hwf.
    + assert (Hok : count <= f_avail w).
      { unfold f_check in C. destruct (negb _); [discriminate|]. destruct (N.ltb_spec (f_avail w) count); [discriminate|lia]. }
      destruct src as [sd|].
      * cbn zeta in F. set (data := firstn (N.to_nat count) sd) in *.
        assert (Hd : lenN data <= count) by (subst data; unfold lenN; rewrite firstn_length; lia).
        unfold f_inv, f_avail in *.
        destruct at_len, (f_buffered w); inversion F; subst;
          (eapply f_step_post_write; eauto; cbn [f_len f_base f_cap length]; unfold f_inv; cbn [f_len f_cap];
           try lia; try (intros x Hx; apply write_list_frame; unfold f_owns in Hx; lia)).
      * inversion F; subst. rewrite app_nil_r, (set_nth_same _ _ _ E). destruct st; apply f_step_post_refl; exact Hwf.
Qed.

Lemma afrun_snd_cons at_len a ops st : snd (afrun at_len (a :: ops) st) = snd (afrun at_len ops (snd (afstep at_len a st))).
Proof.
  cbn [afrun]. destruct (afstep at_len a st) as [o st1]. cbn [snd]. destruct (afrun at_len ops st1) as [os st2]. reflexivity.
Qed.

Theorem afrun_post at_len ops st : f_wf st ->
  f_wf (snd (afrun at_len ops st)) /\
  (forall x, (forall w, In w (f_ws st) -> ~ f_owns w x) -> mget (f_mem (snd (afrun at_len ops st))) x = mget (f_mem st) x) /\
  (forall w' x, In w' (f_ws (snd (afrun at_len ops st))) -> f_owns w' x -> exists w, In w (f_ws st) /\ f_owns w x) /\
  (exists ps, f_pkts (snd (afrun at_len ops st)) = f_pkts st ++ ps /\ (List.length ps <= List.length ops)%nat).
Proof.
  revert st; induction ops as [|op ops IH]; intros st Hwf.
  - cbn [afrun snd]. split; [exact Hwf|]. split; [reflexivity|]. split; [eauto|].
    exists []. rewrite app_nil_r. cbn. split; [reflexivity|lia].
  - rewrite afrun_snd_cons. destruct (afstep_post at_len op st Hwf) as [W1 [M1 [O1 [ps1 [P1 L1]]]]].
    destruct (IH _ W1) as [W2 [M2 [O2 [ps2 [P2 L2]]]]]. split; [exact W2|]. split; [|split].
    + intros x Hx. rewrite M2; [apply M1; exact Hx|].
      intros w1 Hw1 Hown. destruct (O1 _ _ Hw1 Hown) as [w [Hw Hwx]]. exact (Hx w Hw Hwx).
    + intros w2 x Hw2 Hx. destruct (O2 _ _ Hw2 Hx) as [w1 [Hw1 Hx1]]. eauto.
    + exists (ps1 ++ ps2). rewrite P2, P1, app_assoc. split; [reflexivity|]. rewrite app_length. cbn [length]. lia.
Qed.

(* ------------------------------------------------------------------ FuseDevWriter::write_all_from and flush
   (operations of [xfop] outside [afop]): capacity invariant, frame and non-growing windows for mixed runs *)
Definition keeps (m : mem) (w : fdw) (m' : mem) (w' : fdw) : Prop :=
  f_inv w' /\ f_base w' = f_base w /\ f_cap w' = f_cap w /\ (forall x, ~ f_owns w x -> mget m' x = mget m x).

Lemma fw_write_from_keeps count src m w : f_inv w ->
  let '(r, m', w', ps) := fw_write_from count src m w in keeps m w m' w'.
Proof.
  intro Hinv. unfold fw_write_from, keeps. destruct (f_check w count) as [r0|] eqn:C; [repeat split; auto|].
  assert (Hok : count <= f_avail w).
  { unfold f_check in C. destruct (negb _); [discriminate|]. destruct (N.ltb_spec (f_avail w) count); [discriminate|lia]. }
  destruct src as [sd|]; [|repeat split; auto]. cbn zeta.
  set (data := firstn (N.to_nat count) sd).
  assert (Hd : lenN data <= count) by (subst data; unfold lenN; rewrite firstn_length; lia).
  unfold f_inv, f_avail, f_owns in *.
  destruct (f_buffered w); cbn [f_len f_base f_cap]; repeat split; try lia;
    intros x Hx; apply write_list_frame; lia.
Qed.

Lemma keeps_trans m w m1 w1 m2 w2 : keeps m w m1 w1 -> keeps m1 w1 m2 w2 -> keeps m w m2 w2.
Proof.
  intros [I1 [B1 [C1 F1]]] [I2 [B2 [C2 F2]]]. unfold keeps. repeat split; try congruence.
  intros x Hx. rewrite F2; [apply F1; exact Hx|]. unfold f_owns in *. rewrite B1, C1. exact Hx.
Qed.

Lemma fw_write_all_from_loop_keeps fuel : forall count src m w pk, f_inv w ->
  let '(r, m', w', ps) := fw_write_all_from_loop fuel count src m w pk in keeps m w m' w'.
Proof.
  induction fuel as [|f IH]; intros count src m w pk Hinv; cbn [fw_write_all_from_loop].
  - unfold keeps. repeat split; auto.
  - destruct (count =? 0); [unfold keeps; repeat split; auto|].
    pose proof (fw_write_from_keeps count src m w Hinv) as K.
    destruct (fw_write_from count src m w) as [[[r m1] w1] ps1].
    destruct r as [n data|e|]; try exact K. destruct n as [|pn]; [exact K|].
    pose proof K as [I1 _].
    specialize (IH (count - N.pos pn) (option_map (skipn (N.to_nat (N.pos pn))) src) m1 w1 (pk ++ ps1) I1).
    destruct (fw_write_all_from_loop f (count - N.pos pn) (option_map (skipn (N.to_nat (N.pos pn))) src) m1 w1 (pk ++ ps1)) as [[[r2 m2] w2] ps2].
    eapply keeps_trans; eauto.
Qed.

Definition x_step_post (st st' : fstate) : Prop :=
  f_wf st' /\
  (forall x, (forall w, In w (f_ws st) -> ~ f_owns w x) -> mget (f_mem st') x = mget (f_mem st) x) /\
  (forall w' x, In w' (f_ws st') -> f_owns w' x -> exists w, In w (f_ws st) /\ f_owns w x).

Lemma xfstep_post at_len x st : f_wf st -> x_step_post st (snd (xfstep at_len x st)).
Proof.
  intro Hwf. destruct x as [a|i count src|i]; cbn [xfstep].
  - destruct (afstep_post at_len a st Hwf) as [W [M [O _]]]. unfold x_step_post. auto.
  - destruct (nth_error (f_ws st) i) as [w|] eqn:E; [|cbn [snd]; unfold x_step_post; repeat split; eauto].
    assert (Hinv : f_inv w) by (eapply nth_error_Forall; eauto). pose proof (nth_error_In _ _ E) as Hin.
    assert (K : let '(r, m', w', ps) := fw_write_all_from count src (f_mem st) w in keeps (f_mem st) w m' w').
    { unfold fw_write_all_from. destruct (f_check w count); [unfold keeps; repeat split; auto|].
      apply fw_write_all_from_loop_keeps; exact Hinv. }
    destruct (fw_write_all_from count src (f_mem st) w) as [[[r m'] w'] ps]. cbn [snd].
    destruct K as [I [B [C F]]]. unfold x_step_post, f_wf. cbn [f_mem f_ws]. split; [apply Forall_set_nth; assumption|]. split.
    + intros x Hx. apply F. apply Hx. exact Hin.
    + intros w2 x Hw2 Hx. apply in_set_nth in Hw2. destruct Hw2 as [->|Hw2]; [|eauto].
      exists w. split; [exact Hin|]. unfold f_owns in *. rewrite <- B, <- C. exact Hx.
  - destruct (nth_error (f_ws st) i); cbn [snd]; unfold x_step_post; repeat split; eauto.
Qed.

Lemma xfrun_snd_cons at_len x ops st : snd (xfrun at_len (x :: ops) st) = snd (xfrun at_len ops (snd (xfstep at_len x st))).
Proof.
  cbn [xfrun]. destruct (xfstep at_len x st) as [o st1]. cbn [snd]. destruct (xfrun at_len ops st1) as [os st2]. reflexivity.
Qed.

Theorem xfrun_post at_len ops st : f_wf st -> x_step_post st (snd (xfrun at_len ops st)).
Proof.
  revert st; induction ops as [|x ops IH]; intros st Hwf.
  - cbn [xfrun snd]. unfold x_step_post. repeat split; eauto.
  - rewrite xfrun_snd_cons. destruct (xfstep_post at_len x st Hwf) as [W1 [M1 O1]].
    destruct (IH _ W1) as [W2 [M2 O2]]. unfold x_step_post. split; [exact W2|]. split.
    + intros y Hy. rewrite M2; [apply M1; exact Hy|].
      intros w1 Hw1 Hown. destruct (O1 _ _ Hw1 Hown) as [w [Hw Hwx]]. exact (Hy w Hw Hwx).
    + intros w2 y Hw2 Hy. destruct (O2 _ _ Hw2 Hy) as [w1 [Hw1 Hy1]]. eauto.
Qed.
