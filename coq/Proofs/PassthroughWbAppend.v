(* C05: under writeback no descriptor of the handle map ever carries O_APPEND (the client kernel owns it): open clears it,
   create clears it, and -- since fix 9c6feeb -- check_fd_flags no longer puts it back. *)
From Coq Require Import List NArith Bool Lia.
From FB Require Import Gen.Validators Model.Names Model.HostFs Model.Passthrough Proofs.HostFs Proofs.PassthroughConfined
  Proofs.PassthroughCreds Proofs.PassthroughRefine.
Import ListNotations.
Local Open Scope N_scope.

Definition HP (s : pstate) : Prop := forall k hd, In (k, hd) (p_handles s) -> hd_append hd = false.

Definition C05_writeback_append_full : Prop :=
  forall cf s q rp io ho s', c_writeback cf = true -> HP s -> pstep cf s q = (rp, io, ho, s') -> HP s'.

Lemma has_clear_false : forall x b a, has x a = false -> has (clear x b) a = false.
Proof.
  intros x b a H. unfold has, clear in *. apply negb_false_iff in H. apply N.eqb_eq in H. apply negb_false_iff. apply N.eqb_eq.
  apply N.bits_inj. intros n. rewrite N.land_spec, N.ldiff_spec, N.bits_0.
  assert (Hn : N.testbit (N.land x a) n = false) by (rewrite H; apply N.bits_0). rewrite N.land_spec in Hn.
  destruct (N.testbit x n), (N.testbit a n), (N.testbit b n); cbn in *; congruence.
Qed.
Lemma has_lor_false : forall x c a, N.land c a = 0 -> has x a = false -> has (N.lor x c) a = false.
Proof.
  intros x c a Hc H. unfold has in *. apply negb_false_iff in H. apply N.eqb_eq in H. apply negb_false_iff. apply N.eqb_eq.
  rewrite N.land_lor_distr_l, H, Hc. reflexivity.
Qed.

Lemma strip_direct_false : forall cf x a, has x a = false -> has (strip_direct cf x) a = false.
Proof. intros cf x a H. unfold strip_direct. destruct (c_direct_io cf); [exact H | apply has_clear_false; exact H]. Qed.

Definition reopen_flags (cf : cfg) (flags : N) : N :=
  clear (clear (N.lor (strip_direct cf (get_writeback_open_flags cf flags)) O_CLOEXEC) O_NOFOLLOW) O_CREAT.

Lemma reopen_no_append : forall cf f, c_writeback cf = true -> has (reopen_flags cf f) O_APPEND = false.
Proof.
  intros cf f H. unfold reopen_flags. repeat apply has_clear_false. apply has_lor_false; [reflexivity|].
  apply strip_direct_false. apply writeback_flags_no_append. exact H.
Qed.
Lemma creat_no_append : forall cf f, c_writeback cf = true ->
  has (N.lor (N.lor (get_writeback_open_flags cf f) O_CREAT) O_EXCL) O_APPEND = false.
Proof.
  intros cf f H. apply has_lor_false; [reflexivity|]. apply has_lor_false; [reflexivity|]. apply writeback_flags_no_append. exact H.
Qed.
Lemma setfl_no_append : forall cf f, c_writeback cf = true -> has (setfl_flags cf f) O_APPEND = false.
Proof. intros cf f H. unfold setfl_flags. apply strip_direct_false. apply writeback_flags_no_append. exact H. Qed.

Lemma open_inode_handles : forall cf s i f r s', open_inode cf s i f = (r, s') ->
  p_handles s' = p_handles s /\ (forall hi fl, r = Ok (hi, fl) -> fl = reopen_flags cf f).
Proof.
  intros cf s i f r s' H. unfold open_inode in H.
  destruct (assoc i (p_inodes s)); [|inversion H; subst; split; [reflexivity | intros; discriminate]].
  destruct (negb (is_safe_inode (id_mode i0))); [inversion H; subst; split; [reflexivity | intros; discriminate]|].
  destruct (c_ifh cf && negb (euid (p_creds s) =? 0)); [inversion H; subst; split; [reflexivity | intros; discriminate]|].
  match type of H with context [sys_reopen ?c ?h ?x ?fl] => destruct (sys_reopen c h x fl) as [[u|e] h'] end;
    inversion H; subst; (split; [reflexivity|]); intros hi fl Hx; [inversion Hx; reflexivity | discriminate].
Qed.

Lemma HP_same : forall s s', p_handles s' = p_handles s -> HP s -> HP s'.
Proof. intros s s' E H k hd Hin. rewrite E in Hin. apply (H k hd Hin). Qed.
Lemma HP_set : forall (s : pstate) k hd l', (forall k0 hd0, In (k0, hd0) l' -> (k0, hd0) = (k, hd) \/ In (k0, hd0) (p_handles s)) ->
  hd_append hd = false -> HP s -> forall k0 hd0, In (k0, hd0) l' -> hd_append hd0 = false.
Proof.
  intros s k hd l' Hl Hh H k0 hd0 Hin. destruct (Hl _ _ Hin) as [E | E]; [inversion E; subst; exact Hh | apply (H _ _ E)].
Qed.

Lemma do_lookup_handles : forall s p n r s', do_lookup s p n = (r, s') -> p_handles s' = p_handles s.
Proof.
  intros s p n r s' H. unfold do_lookup in H.
  destruct (assoc p (p_inodes s)); [|inversion H; subst; reflexivity].
  destruct (lookup1 _ _ _ _); [|inversion H; subst; reflexivity].
  destruct (stat _ _); [|inversion H; subst; reflexivity].
  destruct (find_by_host _ _) as [[f d]|]; [inversion H; subst; reflexivity|].
  destruct (assoc _ (p_idmap s)); inversion H; subst; reflexivity.
Qed.
Lemma entry_reply_handles : forall s p n rp io s', entry_reply (do_lookup s p n) = (rp, io, s') -> p_handles s' = p_handles s.
Proof.
  intros s p n rp io s' H. destruct (do_lookup s p n) as [[[f a]|e] s1] eqn:Hl; cbn in H; inversion H; subst;
    apply (do_lookup_handles _ _ _ _ _ Hl).
Qed.
Lemma forget_one_handles : forall s i c, p_handles (forget_one s i c) = p_handles s.
Proof. intros. unfold forget_one. destruct (i =? ROOT_ID); [reflexivity|]. destruct (assoc i (p_inodes s)); reflexivity. Qed.

Lemma with_creds_handles : forall A uid gid s (body : pstate -> res A * pstate) r s',
  (forall s0 r0 s1, body s0 = (r0, s1) -> p_handles s1 = p_handles s0) ->
  with_creds uid gid s body = (r, s') -> p_handles s' = p_handles s.
Proof.
  intros A uid gid s body r s' Hk H. destruct (with_creds_cases _ _ _ _ _ _ _ H) as [[c [-> _]] | [c2 [s1 [c3 [Hb ->]]]]]; [reflexivity|].
  cbn. rewrite (Hk _ _ _ Hb). reflexivity.
Qed.
Lemma with_killpriv_handles : forall A cond s (body : pstate -> A * pstate) r s',
  (forall s0 r0 s1, body s0 = (r0, s1) -> p_handles s1 = p_handles s0) ->
  with_killpriv cond s body = (r, s') -> p_handles s' = p_handles s.
Proof.
  intros A cond s body r s' Hk H. destruct (with_killpriv_cases _ _ _ _ _ _ H) as [c1 [s1 [c2 [Hb ->]]]].
  cbn. rewrite (Hk _ _ _ Hb). reflexivity.
Qed.

Lemma create_then_lookup_handles : forall s uid gid parent n call rp io s',
  create_then_lookup s uid gid parent n call = (rp, io, s') -> p_handles s' = p_handles s.
Proof.
  intros s uid gid parent n call rp io s' H. unfold create_then_lookup in H.
  destruct (assoc parent (p_inodes s)) as [d|]; [|inversion H; subst; reflexivity].
  match type of H with context [with_creds uid gid s ?b] => destruct (with_creds uid gid s b) as [r s1] eqn:Hw end.
  assert (E1 : p_handles s1 = p_handles s).
  { refine (with_creds_handles _ _ _ _ _ _ _ _ Hw). intros s0 r0 s2 Hb.
    destruct (call (p_creds s0) (p_host s0) (id_host d)); inversion Hb; subst; reflexivity. }
  destruct r; [|inversion H; subst; exact E1]. rewrite (entry_reply_handles _ _ _ _ _ _ H). exact E1.
Qed.

Lemma setattr_size_handles : forall cf s inode hdo valid size r s', setattr_size cf s inode hdo valid size = (r, s') -> p_handles s' = p_handles s.
Proof.
  intros cf s inode hdo valid size r s' H. unfold setattr_size in H. refine (with_killpriv_handles _ _ _ _ _ _ _ H).
  intros s0 r0 s1 Hb. destruct hdo as [hd|].
  - destruct (acc_w (hd_acc hd)); [|inversion Hb; subst; reflexivity].
    destruct (sys_ftruncate (p_creds s0) (p_host s0) (hd_host hd) size). inversion Hb; subst. reflexivity.
  - destruct (open_inode cf s0 inode (O_NONBLOCK + O_RDWR)) as [[[hi fl]|e] s2] eqn:Ho; destruct (open_inode_handles _ _ _ _ _ _ Ho) as [E _].
    + destruct (sys_ftruncate (p_creds s2) (p_host s2) hi size). inversion Hb; subst. exact E.
    + inversion Hb; subst. exact E.
Qed.

Lemma get_data_handles : forall cf no s h i f r s', get_data cf no s h i f = (r, s') ->
  p_handles s' = p_handles s /\ (forall hid hd, r = Ok (hid, hd) -> c_writeback cf = true -> HP s -> hd_append hd = false).
Proof.
  intros cf no s h i f r s' H. unfold get_data in H. destruct (negb no).
  - unfold handle_get in H. destruct (assoc h (p_handles s)) as [hd|] eqn:Ha.
    + destruct (hd_inode hd =? i); inversion H; subst; (split; [reflexivity|]); intros hid hd0 Hx Hw Hp; [|discriminate].
      inversion Hx; subst. apply (Hp h hd0). apply assoc_In. exact Ha.
    + inversion H; subst. split; [reflexivity | intros; discriminate].
  - destruct (open_inode cf s i f) as [[[hi fl]|e] s1] eqn:Ho; destruct (open_inode_handles _ _ _ _ _ _ Ho) as [E Hfl];
      inversion H; subst; (split; [exact E|]); intros hid hd0 Hx Hw Hp; [|discriminate].
    inversion Hx; subst. cbn. rewrite (Hfl hi fl eq_refl). apply reopen_no_append. exact Hw.
Qed.

Lemma check_fd_flags_HP : forall cf s hid hd flags hd' s', c_writeback cf = true -> hd_append hd = false -> HP s ->
  check_fd_flags cf s hid hd flags = (hd', s') -> HP s' /\ hd_append hd' = false.
Proof.
  intros cf s hid hd flags hd' s' Hw Hh Hp H. unfold check_fd_flags in H.
  destruct (hd_flags hd =? flags); [inversion H; subst; split; assumption|].
  destruct hid as [k|]; inversion H; subst; (split; [|cbn; apply setfl_no_append; exact Hw]); [|exact Hp].
  intros k0 hd0 Hin. cbn in Hin. apply assoc_set_In in Hin. destruct Hin as [E | E]; [inversion E; subst; cbn; apply setfl_no_append; exact Hw | apply (Hp _ _ E)].
Qed.

Lemma insert_handle_HP : forall s hd k s', hd_append hd = false -> HP s -> insert_handle s hd = (k, s') -> HP s'.
Proof.
  intros s hd k s' Hh Hp H. unfold insert_handle in H. inversion H; subst. intros k0 hd0 Hin. cbn in Hin.
  apply assoc_set_In in Hin. destruct Hin as [E | E]; [inversion E; subst; exact Hh | apply (Hp _ _ E)].
Qed.

Lemma do_open_HP : forall cf s inode flags ff rp s', c_writeback cf = true -> HP s -> do_open cf s inode flags ff = (rp, s') -> HP s'.
Proof.
  intros cf s inode flags ff rp s' Hw Hp H. unfold do_open in H.
  match type of H with context [with_killpriv ?c s ?b] => destruct (with_killpriv c s b) as [r s1] eqn:Hk end.
  destruct (with_killpriv_cases _ _ _ _ _ _ Hk) as [c1 [s2 [c2 [Hb ->]]]].
  destruct (open_inode_handles _ _ _ _ _ _ Hb) as [E Hfl]. cbn in E.
  assert (Hp2 : HP (with_creds_of s2 c2)) by (apply (HP_same s); [exact E | exact Hp]).
  destruct r as [[hi fl]|e]; [|inversion H; subst; exact Hp2].
  destruct (insert_handle (with_creds_of s2 c2) (new_hdata inode hi fl flags)) as [k s3] eqn:Hi. inversion H; subst.
  assert (Hh : hd_append (new_hdata inode hi fl flags) = false).
  { cbn. rewrite (Hfl hi fl eq_refl). apply reopen_no_append. exact Hw. }
  apply (insert_handle_HP _ _ _ _ Hh Hp2 Hi).
Qed.

Ltac inv4 H := inversion H; subst; clear H.
Ltac same Hp := (apply (HP_same _ _ eq_refl Hp)) || exact Hp.

Theorem writeback_append_full : C05_writeback_append_full.
Proof.
  intros cf s q rp io ho s' Hw Hp H. unfold pstep in H. destruct q; cbv beta zeta in H.
  - destruct (lookup_check n); [inv4 H; exact Hp|].
    destruct (entry_reply (do_lookup s parent n)) as [[rp0 io0] s0] eqn:He. inv4 H. apply (HP_same s); [apply (entry_reply_handles _ _ _ _ _ _ He) | exact Hp].
  - inv4 H. apply (HP_same s); [apply forget_one_handles | exact Hp].
  - inv4 H. revert s Hp. induction l as [|p l IH]; intros s Hp; cbn [fold_left]; [exact Hp|]. apply IH. apply (HP_same s); [apply forget_one_handles | exact Hp].
  - destruct (do_getattr cf s inode handle); inv4 H; exact Hp.
  - (* setattr *)
    destruct (assoc inode (p_inodes s)) as [d|]; [|inv4 H; exact Hp].
    match type of H with context [match ?x with Ok hdo => _ | Err e => _ end] => destruct x as [hdo|e] end; [|inv4 H; exact Hp].
    match type of H with context [let '(r1, s1) := ?x in _] => destruct x as [r1 s1] eqn:H1 end.
    assert (E1 : p_handles s1 = p_handles s).
    { destruct (has valid FATTR_MODE); [|inversion H1; subst; reflexivity].
      match type of H1 with context [sys_chmod ?c ?h ?i ?m] => destruct (sys_chmod c h i m) end. inversion H1; subst. reflexivity. }
    destruct r1; [|inv4 H; apply (HP_same s); assumption].
    match type of H with context [let '(r2, s2) := ?x in _] => destruct x as [r2 s2] eqn:H2 end.
    assert (E2 : p_handles s2 = p_handles s).
    { destruct (has valid FATTR_UID || has valid FATTR_GID); [|inversion H2; subst; exact E1].
      match type of H2 with context [sys_chown ?c ?h ?i ?u ?g] => destruct (sys_chown c h i u g) end. inversion H2; subst. exact E1. }
    destruct r2; [|inv4 H; apply (HP_same s); assumption].
    match type of H with context [let '(r3, s3) := ?x in _] => destruct x as [r3 s3] eqn:H3 end.
    assert (E3 : p_handles s3 = p_handles s).
    { destruct (has valid FATTR_SIZE); [|inversion H3; subst; exact E2]. rewrite (setattr_size_handles _ _ _ _ _ _ _ _ H3). exact E2. }
    destruct r3; [|inv4 H; apply (HP_same s); assumption].
    match type of H with context [let '(r4, s4) := ?x in _] => destruct x as [r4 s4] eqn:H4 end.
    assert (E4 : p_handles s4 = p_handles s).
    { destruct (has valid FATTR_ATIME || has valid FATTR_MTIME); [|inversion H4; subst; exact E3].
      match type of H4 with context [sys_utimens ?h ?i ?a ?m] => destruct (sys_utimens h i a m) end. inversion H4; subst. exact E3. }
    destruct r4; [|inv4 H; apply (HP_same s); assumption].
    destruct (do_getattr cf s4 inode handle); inv4 H; apply (HP_same s); assumption.
  - destruct (validate cf n); [inv4 H; exact Hp|].
    match type of H with context [create_then_lookup ?a ?b ?c ?d ?e ?f] => destruct (create_then_lookup a b c d e f) as [[rp0 io0] s0] eqn:Hx end.
    inv4 H. apply (HP_same s); [apply (create_then_lookup_handles _ _ _ _ _ _ _ _ _ Hx) | exact Hp].
  - destruct (validate cf n); [inv4 H; exact Hp|].
    match type of H with context [create_then_lookup ?a ?b ?c ?d ?e ?f] => destruct (create_then_lookup a b c d e f) as [[rp0 io0] s0] eqn:Hx end.
    inv4 H. apply (HP_same s); [apply (create_then_lookup_handles _ _ _ _ _ _ _ _ _ Hx) | exact Hp].
  - (* create *)
    destruct (validate cf n); [inv4 H; exact Hp|].
    destruct (assoc parent (p_inodes s)) as [d|]; [|inv4 H; exact Hp].
    match type of H with context [with_creds uid gid s ?b] => destruct (with_creds uid gid s b) as [r s1] eqn:Hc end.
    assert (E1 : p_handles s1 = p_handles s).
    { refine (with_creds_handles _ _ _ _ _ _ _ _ Hc). intros s0 r0 s2 Hb.
      match type of Hb with context [sys_openat_creat_excl ?c ?h ?i ?nn ?f ?m] => destruct (sys_openat_creat_excl c h i nn f m) as [[i0|e0] h'] end.
      - inversion Hb; subst. reflexivity.
      - destruct ((e0 =? EEXIST) && negb _); inversion Hb; subst; reflexivity. }
    assert (Hp1 : HP s1) by (apply (HP_same s); assumption).
    destruct r as [newf|e]; [|inv4 H; exact Hp1].
    destruct (do_lookup s1 parent n) as [[[f a]|e] s2] eqn:Hl; pose proof (do_lookup_handles _ _ _ _ _ Hl) as E2;
      assert (Hp2 : HP s2) by (apply (HP_same s1); assumption); [|inv4 H; exact Hp2].
    match type of H with context [let '(rf, s3) := ?x in _] => destruct x as [rf s3] eqn:H3 end.
    assert (G3 : p_handles s3 = p_handles s2 /\ (forall hi fl, rf = Ok (hi, fl) -> has fl O_APPEND = false)).
    { destruct newf as [i0|].
      - inversion H3; subst. split; [reflexivity|]. intros hi fl Hx. inversion Hx; subst. apply creat_no_append. exact Hw.
      - split.
        + refine (with_killpriv_handles _ _ _ _ _ _ _ H3). intros s0 r0 s4 Hb. refine (with_creds_handles _ _ _ _ _ _ _ _ Hb).
          intros s5 r5 s6 Hb5. apply (proj1 (open_inode_handles _ _ _ _ _ _ Hb5)).
        + intros hi fl Hx. subst rf.
          destruct (with_killpriv_cases _ _ _ _ _ _ H3) as [c1 [sa [c2 [Hb Es]]]].
          destruct (with_creds_cases _ _ _ _ _ _ _ Hb) as [[c [_ [e He]]] | [c3 [sb [c4 [Hb2 _]]]]]; [discriminate|].
          rewrite (proj2 (open_inode_handles _ _ _ _ _ _ Hb2) hi fl eq_refl). apply reopen_no_append. exact Hw. }
    destruct G3 as [E3 Hfl]. assert (Hp3 : HP s3) by (apply (HP_same s2); assumption).
    destruct rf as [[hi fl]|e]; [|inv4 H; apply (HP_same s3); [apply forget_one_handles | exact Hp3]].
    destruct (c_no_open cf); [inv4 H; exact Hp3|].
    destruct (insert_handle s3 (new_hdata f hi fl flags)) as [hk s4] eqn:Hi. inv4 H.
    assert (Hh : hd_append (new_hdata f hi fl flags) = false) by (cbn; apply (Hfl hi fl eq_refl)).
    apply (insert_handle_HP _ _ _ _ Hh Hp3 Hi).
  - destruct (validate cf n); [inv4 H; exact Hp|].
    match type of H with context [create_then_lookup ?a ?b ?c ?d ?e ?f] => destruct (create_then_lookup a b c d e f) as [[rp0 io0] s0] eqn:Hx end.
    inv4 H. apply (HP_same s); [apply (create_then_lookup_handles _ _ _ _ _ _ _ _ _ Hx) | exact Hp].
  - (* link *)
    destruct (validate cf n); [inv4 H; exact Hp|].
    destruct (assoc inode (p_inodes s)); [|inv4 H; exact Hp]. destruct (assoc newparent (p_inodes s)); [|inv4 H; exact Hp].
    match type of H with context [sys_linkat ?c ?h ?a ?b ?nn] => destruct (sys_linkat c h a b nn) as [[u|e] h'] end; [|inv4 H; exact Hp].
    match type of H with context [entry_reply ?x] => destruct (entry_reply x) as [[rp0 io0] s0] eqn:He end. inv4 H.
    apply (HP_same (with_host s h')); [apply (entry_reply_handles _ _ _ _ _ _ He) | exact Hp].
  - destruct (validate cf n); [inv4 H; exact Hp|]. destruct (assoc parent (p_inodes s)); [|inv4 H; exact Hp].
    match type of H with context [sys_unlinkat ?c ?h ?a ?nn ?f] => destruct (sys_unlinkat c h a nn f) as [[u|e] h'] end; inv4 H; exact Hp.
  - destruct (validate cf n); [inv4 H; exact Hp|]. destruct (assoc parent (p_inodes s)); [|inv4 H; exact Hp].
    match type of H with context [sys_unlinkat ?c ?h ?a ?nn ?f] => destruct (sys_unlinkat c h a nn f) as [[u|e] h'] end; inv4 H; exact Hp.
  - destruct (validate cf on); [inv4 H; exact Hp|]. destruct (validate cf nn); [inv4 H; exact Hp|].
    destruct (assoc olddir (p_inodes s)); [|inv4 H; exact Hp]. destruct (assoc newdir (p_inodes s)); [|inv4 H; exact Hp].
    match type of H with context [sys_renameat2 ?c ?h ?a ?n1 ?b ?n2 ?f] => destruct (sys_renameat2 c h a n1 b n2 f) as [[u|e] h'] end; inv4 H; exact Hp.
  - destruct (c_no_open cf); [inv4 H; exact Hp|].
    destruct (do_open cf s inode flags fuse_flags) as [rp0 s0] eqn:Ho.
    pose proof (do_open_HP _ _ _ _ _ _ _ Hw Hp Ho). destruct rp0; inv4 H; assumption.
  - destruct (c_no_opendir cf); [inv4 H; exact Hp|].
    destruct (do_open cf s inode (N.lor flags O_DIRECTORY) 0) as [rp0 s0] eqn:Ho.
    pose proof (do_open_HP _ _ _ _ _ _ _ Hw Hp Ho). destruct rp0; inv4 H; assumption.
  - destruct (c_no_open cf); [inv4 H; exact Hp|]. destruct (handle_get s handle inode); inv4 H; [|exact Hp].
    intros k hd Hin. cbn in Hin. apply (Hp k hd (assoc_del_In _ _ _ _ _ Hin)).
  - destruct (c_no_opendir cf); [inv4 H; exact Hp|]. destruct (handle_get s handle inode); inv4 H; [|exact Hp].
    intros k hd Hin. cbn in Hin. apply (Hp k hd (assoc_del_In _ _ _ _ _ Hin)).
  - (* read *)
    destruct (get_data cf (c_no_open cf) s handle inode O_RDONLY) as [[[hid hd]|e] s1] eqn:Hg;
      destruct (get_data_handles _ _ _ _ _ _ _ _ Hg) as [E1 Hh]; assert (Hp1 : HP s1) by (apply (HP_same s); assumption); [|inv4 H; exact Hp1].
    destruct (check_fd_flags cf s1 hid hd flags) as [hd' s2] eqn:Hf.
    destruct (check_fd_flags_HP _ _ _ _ _ _ _ Hw (Hh _ _ eq_refl Hw Hp) Hp1 Hf) as [Hp2 _].
    destruct (negb (acc_r (hd_acc hd'))); [inv4 H; exact Hp2|].
    destruct (hd_direct hd' && (0 <? size)); [inv4 H; exact Hp2|].
    destruct (sys_pread (p_host s2) (hd_host hd') size off); inv4 H; exact Hp2.
  - (* write *)
    destruct (get_data cf (c_no_open cf) s handle inode O_RDWR) as [[[hid hd]|e] s1] eqn:Hg;
      destruct (get_data_handles _ _ _ _ _ _ _ _ Hg) as [E1 Hh]; assert (Hp1 : HP s1) by (apply (HP_same s); assumption); [|inv4 H; exact Hp1].
    destruct (check_fd_flags cf s1 hid hd flags) as [hd' s2] eqn:Hf.
    destruct (check_fd_flags_HP _ _ _ _ _ _ _ Hw (Hh _ _ eq_refl Hw Hp) Hp1 Hf) as [Hp2 _].
    match type of H with context [with_killpriv ?c s2 ?b] => destruct (with_killpriv c s2 b) as [r s3] eqn:Hk end.
    assert (E3 : p_handles s3 = p_handles s2).
    { refine (with_killpriv_handles _ _ _ _ _ _ _ Hk). intros s0 r0 s4 Hb.
      destruct (negb (acc_w (hd_acc hd'))); [inversion Hb; subst; reflexivity|].
      destruct (hd_direct hd' && (0 <? len data)); [inversion Hb; subst; reflexivity|].
      destruct (sys_pwrite (p_creds s0) (p_host s0) (hd_host hd') (hd_append hd') off data). inversion Hb; subst. reflexivity. }
    destruct r; inv4 H; apply (HP_same s2); assumption.
  - destruct (assoc inode (p_inodes s)); [|inv4 H; exact Hp]. destruct (sys_readlink (p_host s) (id_host i)); inv4 H; exact Hp.
  - destruct (negb (c_xattr cf)); [inv4 H; exact Hp|]. destruct (assoc inode (p_inodes s)); [|inv4 H; exact Hp].
    match type of H with context [sys_setxattr ?c ?h ?a ?nn ?v ?f] => destruct (sys_setxattr c h a nn v f) as [[u|e] h'] end; inv4 H; exact Hp.
  - destruct (negb (c_xattr cf)); [inv4 H; exact Hp|]. destruct (assoc inode (p_inodes s)); [|inv4 H; exact Hp].
    destruct (sys_getxattr (p_creds s) (p_host s) (id_host i) n size) as [[v|c]|e]; inv4 H; exact Hp.
  - destruct (negb (c_xattr cf)); [inv4 H; exact Hp|]. destruct (assoc inode (p_inodes s)); [|inv4 H; exact Hp].
    destruct (sys_listxattr (p_host s) (id_host i) size) as [[v|c]|e]; inv4 H; exact Hp.
  - destruct (negb (c_xattr cf)); [inv4 H; exact Hp|]. destruct (assoc inode (p_inodes s)); [|inv4 H; exact Hp].
    match type of H with context [sys_removexattr ?c ?h ?a ?nn] => destruct (sys_removexattr c h a nn) as [[u|e] h'] end; inv4 H; exact Hp.
  - (* fallocate *)
    destruct (get_data cf (c_no_open cf) s handle inode O_RDWR) as [[[hid hd]|e] s1] eqn:Hg;
      destruct (get_data_handles _ _ _ _ _ _ _ _ Hg) as [E1 Hh]; assert (Hp1 : HP s1) by (apply (HP_same s); assumption); [|inv4 H; exact Hp1].
    destruct (l =? 0); [inv4 H; exact Hp1|]. destruct (negb (acc_w (hd_acc hd))); [inv4 H; exact Hp1|].
    match type of H with context [sys_fallocate ?c ?h ?a ?m ?o ?ll] => destruct (sys_fallocate c h a m o ll) as [[u|e] h'] end; inv4 H; exact Hp1.
  - (* lseek *)
    unfold handle_get in H. destruct (assoc handle (p_handles s)) as [hd|] eqn:Ha; [|inv4 H; exact Hp].
    destruct (hd_inode hd =? inode); [|inv4 H; exact Hp].
    destruct (stat (p_host s) (hd_host hd)); [|inv4 H; exact Hp].
    match type of H with context [match ?x with Some p => _ | None => _ end] => destruct x as [p|] end; [|inv4 H; exact Hp].
    destruct (9223372036854775807 <? p); inv4 H; [exact Hp|].
    intros k hd0 Hin. cbn in Hin. apply assoc_set_In in Hin. destruct Hin as [E | E]; [|apply (Hp _ _ E)].
    inversion E; subst. cbn. apply (Hp handle hd). apply assoc_In. exact Ha.
  - destruct (get_data cf (c_no_open cf) s handle inode O_RDONLY) as [[x|e] s1] eqn:Hg;
      destruct (get_data_handles _ _ _ _ _ _ _ _ Hg) as [E1 _]; inv4 H; apply (HP_same s); assumption.
  - destruct (c_no_open cf); [inv4 H; exact Hp|]. destruct (handle_get s handle inode); inv4 H; exact Hp.
  - destruct (assoc inode (p_inodes s)); inv4 H; exact Hp.
  - destruct (assoc inode (p_inodes s)); [|inv4 H; exact Hp]. destruct (stat (p_host s) (id_host i)); inv4 H; exact Hp.
Qed.

(* non-vacuity: a writeback configuration and a state with a handle that satisfies HP *)
Definition wb_cfg : cfg := mkCfg true false false true false true 3 true false.
Definition wb_host : host :=
  mkHost [(10, mkInode (KDir [([102], 11)] 10 false) 511 0 0 []); (11, mkInode (KReg [48; 49; 50; 51]) 420 0 0 [])] 12 [].
Definition wb_state : pstate :=
  r_p (snd (run wb_cfg (start wb_host 10) [SLookup (Slot 0) [102]; SOpen (Slot 1) (O_WRONLY + O_APPEND) 0])).
Lemma wb_nonvacuous : c_writeback wb_cfg = true /\ HP wb_state /\ p_handles wb_state <> [] /\
  (* the regression history of the repaired defect: the third write goes to offset 0 again *)
  (let s1 := snd (pstep wb_cfg wb_state (QWrite 2 1 0 [65] (O_WRONLY + O_APPEND) 0)) in
   let s2 := snd (pstep wb_cfg s1 (QWrite 2 1 0 [66] O_WRONLY 0)) in
   let s3 := snd (pstep wb_cfg s2 (QWrite 2 1 0 [67] (O_WRONLY + O_APPEND) 0)) in
   sys_pread (p_host s3) 11 16 0 = Ok [67; 49; 50; 51]).
Proof.
  split; [reflexivity|]. split.
  - assert (E : p_handles wb_state = [(1, mkHdata 2 11 524290 false 0 1025 false)]) by (vm_compute; reflexivity).
    intros k hd H. rewrite E in H. destruct H as [H | []]. inversion H; subst. reflexivity.
  - split; [vm_compute; discriminate | vm_compute; reflexivity].
Qed.
