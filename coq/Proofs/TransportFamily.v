(* Proofs/TransportFamily.v -- order along one handle of the family, for arbitrary interleavings:
   what was consumed through a handle (in time order), followed by what it still covers, followed by what it
   handed to handles split off from it (latest first), is exactly what it covered at the start, in order. *)
From Coq Require Import List Arith NArith Bool Lia ZifyBool ZifyNat ZifyN Permutation.
From FB Require Import Model.Transport Proofs.Transport Proofs.TransportMachine.
Import ListNotations.
Local Open Scope N_scope.
Arguments N.add : simpl never.
Arguments N.sub : simpl never.
Arguments N.min : simpl never.

(* how one machine step changes a family (the readers, or the writers) *)
Inductive fam_rel (l l' : list iobuf) : Prop :=
| fr_same : l' = l -> fam_rel l l'
| fr_adv i b b' k : nth_error l i = Some b -> adv k b b' -> l' = set_nth i b' l -> fam_rel l l'
| fr_split i b a o off : nth_error l i = Some b -> off <= avail b ->
    flat (segs a) = firstn (N.to_nat off) (flat (segs b)) -> flat (segs o) = skipn (N.to_nat off) (flat (segs b)) ->
    consumed a = consumed b -> consumed o = 0 -> l' = set_nth i a l ++ [o] -> fam_rel l l'.

Lemma vstep_fam op st : wf_st st ->
  fam_rel (v_rd st) (v_rd (snd (vstep op st))) /\ fam_rel (v_wr st) (v_wr (snd (vstep op st))).
Proof.
  intros Hwf. pose proof Hwf as [Hr Hw]. destruct op as [i n|i n|i count sink|i off|i count sink|i count src|i data|i datas|i count src|i off|i];
    cbn [vstep].
  - destruct (nth_error (v_rd st) i) as [b|] eqn:E; [|split; apply fr_same; reflexivity].
    pose proof (nth_error_Forall _ _ _ _ Hr E) as Hb.
    destruct (rd_read_spec n (v_mem st) b Hb) as [b' [H1 [Ha _]]]. rewrite H1. cbn [snd v_rd v_wr].
    split; [eapply fr_adv; eauto|apply fr_same; reflexivity].
  - destruct (nth_error (v_rd st) i) as [b|] eqn:E; [|split; apply fr_same; reflexivity].
    pose proof (nth_error_Forall _ _ _ _ Hr E) as Hb.
    destruct (rd_read_exact_spec n (v_mem st) b Hb) as [b' [Ha [_ H1]]]. rewrite H1. cbn [snd v_rd v_wr].
    split; [eapply fr_adv; eauto|apply fr_same; reflexivity].
  - destruct (nth_error (v_rd st) i) as [b|] eqn:E; [|split; apply fr_same; reflexivity].
    pose proof (nth_error_Forall _ _ _ _ Hr E) as Hb.
    destruct (io_read_any count sink (v_mem st) b Hb) as [k [Ha _]].
    destruct (io_read count sink (v_mem st) b) as [r b'] eqn:E2. cbn [snd v_rd v_wr] in *.
    split; [eapply fr_adv; eauto|apply fr_same; reflexivity].
  - destruct (nth_error (v_rd st) i) as [b|] eqn:E; [|split; apply fr_same; reflexivity].
    pose proof (nth_error_Forall _ _ _ _ Hr E) as Hb.
    destruct (io_split_spec off b Hb) as [Hok Hno].
    destruct (N.lt_ge_cases (avail b) off) as [H|H].
    + rewrite (Hno H). cbn [snd]. split; apply fr_same; reflexivity.
    + destruct (Hok H) as [a [o [H1 [Fa [Fo [Ca [Co _]]]]]]]. rewrite H1. cbn [snd v_rd v_wr].
      split; [eapply fr_split; eauto|apply fr_same; reflexivity].
  - destruct (nth_error (v_rd st) i) as [b|] eqn:E; [|split; apply fr_same; reflexivity].
    pose proof (nth_error_Forall _ _ _ _ Hr E) as Hb. unfold rd_read_exact_to.
    destruct (rd_read_exact_to_loop_any (S (N.to_nat count)) count sink (v_mem st) b [] Hb) as [k [Ha _]].
    destruct (rd_read_exact_to_loop (S (N.to_nat count)) count sink (v_mem st) b []) as [r b'] eqn:E2. cbn [snd v_rd v_wr] in *.
    split; [eapply fr_adv; eauto|apply fr_same; reflexivity].
  - destruct (nth_error (v_wr st) i) as [b|] eqn:E; [|split; apply fr_same; reflexivity].
    pose proof (nth_error_Forall _ _ _ _ Hw E) as Hb.
    destruct (vw_write_all_from_any count src (v_mem st) (v_dirty st) b Hb) as [k [log H]].
    destruct (vw_write_all_from count src (v_mem st) (v_dirty st) b) as [[[r m'] d'] b']. cbn [snd v_rd v_wr].
    destruct H as [Ha _]. split; [apply fr_same; reflexivity|eapply fr_adv; eauto].
  - destruct (nth_error (v_wr st) i) as [b|] eqn:E; [|split; apply fr_same; reflexivity].
    pose proof (nth_error_Forall _ _ _ _ Hw E) as Hb.
    destruct (vw_write_any data (v_mem st) (v_dirty st) b Hb) as [k [log H]].
    destruct (vw_write data (v_mem st) (v_dirty st) b) as [[[r m'] d'] b']. cbn [snd v_rd v_wr].
    destruct H as [Ha _]. split; [apply fr_same; reflexivity|eapply fr_adv; eauto].
  - destruct (nth_error (v_wr st) i) as [b|] eqn:E; [|split; apply fr_same; reflexivity].
    pose proof (nth_error_Forall _ _ _ _ Hw E) as Hb.
    destruct (vw_write_vectored_any datas (v_mem st) (v_dirty st) b Hb) as [k [log H]].
    destruct (vw_write_vectored datas (v_mem st) (v_dirty st) b) as [[[r m'] d'] b']. cbn [snd v_rd v_wr].
    destruct H as [Ha _]. split; [apply fr_same; reflexivity|eapply fr_adv; eauto].
  - destruct (nth_error (v_wr st) i) as [b|] eqn:E; [|split; apply fr_same; reflexivity].
    pose proof (nth_error_Forall _ _ _ _ Hw E) as Hb.
    destruct (vw_write_from_any count src (v_mem st) (v_dirty st) b Hb) as [k [log H]].
    destruct (vw_write_from count src (v_mem st) (v_dirty st) b) as [[[r m'] d'] b']. cbn [snd v_rd v_wr].
    destruct H as [Ha _]. split; [apply fr_same; reflexivity|eapply fr_adv; eauto].
  - destruct (nth_error (v_wr st) i) as [b|] eqn:E; [|split; apply fr_same; reflexivity].
    pose proof (nth_error_Forall _ _ _ _ Hw E) as Hb.
    destruct (io_split_spec off b Hb) as [Hok Hno].
    destruct (N.lt_ge_cases (avail b) off) as [H|H].
    + rewrite (Hno H). cbn [snd]. split; apply fr_same; reflexivity.
    + destruct (Hok H) as [a [o [H1 [Fa [Fo [Ca [Co _]]]]]]]. rewrite H1. cbn [snd v_rd v_wr].
      split; [apply fr_same; reflexivity|eapply fr_split; eauto].
  - destruct (nth_error (v_wr st) i); cbn [snd]; split; apply fr_same; reflexivity.
Qed.

(* positions are stable: set_nth keeps them, split appends *)
Lemma nth_error_set_nth_same {A} i (x y : A) l : nth_error l i = Some y -> nth_error (set_nth i x l) i = Some x.
Proof.
  revert i; induction l as [|z l IH]; intros i H; destruct i; cbn [nth_error set_nth] in *; try discriminate; auto.
Qed.
Lemma nth_error_set_nth_other {A} i j (x : A) l : i <> j -> nth_error (set_nth j x l) i = nth_error l i.
Proof.
  revert i j; induction l as [|z l IH]; intros i j H; destruct i, j; cbn [nth_error set_nth]; try reflexivity; try congruence.
  apply IH. congruence.
Qed.
Lemma set_nth_length {A} i (x : A) l : length (set_nth i x l) = length l.
Proof. revert i; induction l as [|z l IH]; intro i; destruct i; cbn [set_nth length]; auto. Qed.

(* the piece equation of one step, uniformly: with k = consumed' - consumed,
   old view = first k addresses ++ new view ++ what lies behind the new view *)
Definition piece_eq (b b' : iobuf) : Prop :=
  let k := N.to_nat (consumed b' - consumed b) in
  flat (segs b) = firstn k (flat (segs b)) ++ flat (segs b') ++ skipn (k + length (flat (segs b'))) (flat (segs b)).

Lemma piece_eq_refl b : piece_eq b b.
Proof.
  unfold piece_eq. replace (consumed b - consumed b) with 0 by lia. cbn [N.to_nat firstn Nat.add app].
  rewrite skipn_all. now rewrite app_nil_r.
Qed.
Lemma piece_eq_adv k b b' : adv k b b' -> piece_eq b b'.
Proof.
  intros [Hf [Hc Hk]]. unfold piece_eq. replace (consumed b' - consumed b) with k by lia.
  rewrite Hf. rewrite avail_flat in Hk. unfold lenN in Hk.
  rewrite skipn_length. replace (N.to_nat k + (length (flat (segs b)) - N.to_nat k))%nat with (length (flat (segs b))) by lia.
  rewrite skipn_all, app_nil_r. symmetry. apply firstn_skipn.
Qed.
Lemma piece_eq_split off b a o : off <= avail b ->
  flat (segs a) = firstn (N.to_nat off) (flat (segs b)) -> flat (segs o) = skipn (N.to_nat off) (flat (segs b)) ->
  consumed a = consumed b -> piece_eq b a /\
  skipn (N.to_nat (consumed a - consumed b) + length (flat (segs a))) (flat (segs b)) = flat (segs o).
Proof.
  intros Hoff Fa Fo Ca. rewrite avail_flat in Hoff. unfold lenN in Hoff.
  assert (Hl : length (flat (segs a)) = N.to_nat off) by (rewrite Fa, firstn_length; lia).
  unfold piece_eq. replace (consumed a - consumed b) with 0 by lia. cbn [N.to_nat firstn Nat.add app].
  rewrite Hl, Fa, Fo. split; [symmetry; apply firstn_skipn|reflexivity].
Qed.

Lemma fam_rel_handle l l' i b : fam_rel l l' -> nth_error l i = Some b ->
  exists b', nth_error l' i = Some b' /\ piece_eq b b'.
Proof.
  intros H E. destruct H as [->|j bj bj' k Ej Ha ->|j bj a o off Ej Hoff Fa Fo Ca Co ->].
  - exists b. split; [exact E|apply piece_eq_refl].
  - destruct (Nat.eq_dec i j) as [->|Hne].
    + rewrite Ej in E. inversion E; subst. exists bj'. split; [eapply nth_error_set_nth_same; eauto|eapply piece_eq_adv; eauto].
    + exists b. rewrite nth_error_set_nth_other by exact Hne. split; [exact E|apply piece_eq_refl].
  - assert (Hi : (i < length l)%nat) by (apply nth_error_Some; congruence).
    rewrite nth_error_app1 by (rewrite set_nth_length; exact Hi).
    destruct (Nat.eq_dec i j) as [->|Hne].
    + rewrite Ej in E. inversion E; subst. exists a. split; [eapply nth_error_set_nth_same; eauto|].
      eapply piece_eq_split; eauto.
    + exists b. rewrite nth_error_set_nth_other by exact Hne. split; [exact E|apply piece_eq_refl].
Qed.

(* ghost trace of handle i of the family [pr] along a run: (addresses consumed through it in time order,
   addresses handed to split-off handles, latest split first) *)
Fixpoint h_trace (pr : vstate -> list iobuf) (i : nat) (ops : list vop) (st : vstate) : list N * list N :=
  match ops with
  | [] => ([], [])
  | op :: r =>
      let st' := snd (vstep op st) in
      let '(c, g) := h_trace pr i r st' in
      match nth_error (pr st) i, nth_error (pr st') i with
      | Some b, Some b' =>
          let k := N.to_nat (consumed b' - consumed b) in
          (firstn k (flat (segs b)) ++ c, g ++ skipn (k + length (flat (segs b'))) (flat (segs b)))
      | _, _ => (c, g)
      end
  end.

Lemma handle_order_gen (pr : vstate -> list iobuf) :
  (forall op st, wf_st st -> fam_rel (pr st) (pr (snd (vstep op st)))) ->
  forall ops st i b, wf_st st -> nth_error (pr st) i = Some b ->
  exists b', nth_error (pr (snd (vrun ops st))) i = Some b' /\
    flat (segs b) = fst (h_trace pr i ops st) ++ flat (segs b') ++ snd (h_trace pr i ops st).
Proof.
  intros Hfam ops. induction ops as [|op ops IH]; intros st i b Hwf E.
  - exists b. cbn [vrun snd h_trace fst app]. split; [exact E|now rewrite app_nil_r].
  - rewrite vrun_snd_cons. cbn [h_trace].
    destruct (fam_rel_handle _ _ i b (Hfam op st Hwf) E) as [b1 [E1 P1]].
    assert (Hwf1 : wf_st (snd (vstep op st))).
    { destruct (vstep_post op st Hwf) as [log [rl [W _]]]. exact W. }
    destruct (IH _ i b1 Hwf1 E1) as [b' [E' P']]. exists b'. split; [exact E'|].
    destruct (h_trace pr i ops (snd (vstep op st))) as [c g]. rewrite E, E1. cbn [fst snd] in *.
    unfold piece_eq in P1. cbn zeta in P1. rewrite P1 at 1. rewrite P'. rewrite <- !app_assoc. reflexivity.
Qed.

Theorem reader_order ops st i b : wf_st st -> nth_error (v_rd st) i = Some b ->
  exists b', nth_error (v_rd (snd (vrun ops st))) i = Some b' /\
    flat (segs b) = fst (h_trace v_rd i ops st) ++ flat (segs b') ++ snd (h_trace v_rd i ops st).
Proof. apply handle_order_gen. intros op st0 H. apply (vstep_fam op st0 H). Qed.

Theorem writer_order ops st i b : wf_st st -> nth_error (v_wr st) i = Some b ->
  exists b', nth_error (v_wr (snd (vrun ops st))) i = Some b' /\
    flat (segs b) = fst (h_trace v_wr i ops st) ++ flat (segs b') ++ snd (h_trace v_wr i ops st).
Proof. apply handle_order_gen. intros op st0 H. apply (vstep_fam op st0 H). Qed.
