(* Proofs/TransportServer.v -- bridge between the server model (Model/Server.v, [perform] on an abstract
   writer = bytes written so far + capacity) and the segment-level virtio writer of Model/Transport.v, for C17:
   the writer operations [perform] issues for a reply action, run on the real writer model over an ARBITRARY
   writable chain, place exactly [o_mem] on the first |o_mem| writable addresses, touch nothing else and mark
   exactly the pages of these addresses. *)
From Coq Require Import List Arith NArith Bool Lia ZifyBool ZifyNat ZifyN Permutation.
From FB Require Import Lib.Bytes Model.Transport Proofs.Transport Proofs.TransportMachine.
From FB Require Model.Server.
Import ListNotations.
Local Open Scope N_scope.
Arguments N.add : simpl never.
Arguments N.sub : simpl never.
Arguments N.min : simpl never.

Module S := FB.Model.Server.

(* the virtio writer operations Server::perform issues for an action, given the capacity of the reply chain
   (the control flow of [S.perform]: an operation after a refused one is not issued).  The payload of
   read/readdir is pushed by the file system into the second (data) writer; one WWrite stands for it
   (write_from / a sequence of writes with the same total payload satisfy the same contract, C04_write_from). *)
Definition issued_ops (cap unique : N) (a : S.action) : list vop :=
  match a with
  | S.NoReply _ => []
  | S.ReplyOk body | S.ReplyOkIgnored body =>
      [WWrite 0 (S.out_header (S.OUT_HDR + S.blen body) 0 unique ++ body)]
  | S.ReplyErr errno _ =>
      let hb := S.out_header S.OUT_HDR (S.neg32 errno) unique in
      if cap <? 16 then [WWrite 0 hb] else [WWrite 0 hb; WCommit 0]
  | S.ReplySplit data =>
      if cap <? 16 then [WSplit 0 16]
      else if cap - 16 <? S.blen data then [WSplit 0 16; WWrite 1 data]
      else [WSplit 0 16; WWrite 1 data;
            WWrite 0 (S.out_header ((S.OUT_HDR + S.blen data) mod 4294967296) 0 unique); WCommit 0]
  | S.ReplySplitErr errno =>
      if cap <? 16 then [WSplit 0 16]
      else [WSplit 0 16; WWrite 0 (S.out_header S.OUT_HDR (S.neg32 errno) unique); WCommit 0]
  end.

(* what the bridge asserts about a final state: [om] sits on the first |om| writable addresses F, nothing else
   changed, and exactly the pages of these addresses were added to the dirty log *)
Definition placed (m : mem) (d : dirty) (F : list N) (om : list N) (st' : vstate) : Prop :=
  let W := firstn (length om) F in
  length W = length om /\
  map (mget (v_mem st')) W = om /\
  (forall x, ~ In x W -> mget (v_mem st') x = mget m x) /\
  (forall p, v_dirty st' p = true <-> d p = true \/ exists x, In x W /\ x / PS = p).

Lemma out_header_len l e u : lenN (S.out_header l e u) = 16.
Proof. unfold lenN, S.out_header. rewrite !app_length, !enc_length. reflexivity. Qed.
Lemma blen_lenN b : S.blen b = lenN b.
Proof. reflexivity. Qed.

Lemma combine_fst_snd {A B} (l : list (A * B)) : combine (map fst l) (map snd l) = l.
Proof. induction l as [|[a b] l IH]; cbn [map fst snd combine]; [reflexivity|now rewrite IH]. Qed.

Lemma NoDup_firstn {A} n (l : list A) : NoDup l -> NoDup (firstn n l).
Proof. intro H. rewrite <- (firstn_skipn n l) in H. eapply NoDup_app_l; eauto. Qed.
Lemma NoDup_skipn_disjoint {A} n (l : list A) x : NoDup l -> In x (firstn n l) -> ~ In x (skipn n l).
Proof. intro H. rewrite <- (firstn_skipn n l) in H. apply NoDup_app_disjoint. exact H. Qed.

(* consequences of the one-operation contract when the writable addresses are pairwise distinct *)
Lemma wpost_content m d b k log m' d' b' data :
  wpost m d b k log m' d' b' -> map snd log = data -> lenN data = k -> NoDup (flat (segs b)) ->
  map (mget m') (firstn (N.to_nat k) (flat (segs b))) = data /\
  (forall x, ~ In x (firstn (N.to_nat k) (flat (segs b))) -> mget m' x = mget m x).
Proof.
  intros [[_ [_ Hk]] [_ [M [F _]]]] Hs Hl Hnd. subst m'. split.
  - rewrite <- (combine_fst_snd log), F, Hs. apply write_addrs_read.
    + apply NoDup_firstn; exact Hnd.
    + rewrite firstn_length. rewrite avail_flat in Hk. unfold lenN in *. lia.
  - intros x Hx. apply write_addrs_frame. rewrite F. exact Hx.
Qed.

Lemma NoDup_app_r {A} (l1 l2 : list A) : NoDup (l1 ++ l2) -> NoDup l2.
Proof. induction l1 as [|x l1 IH]; cbn [app]; intro H; [exact H|]. inversion H; auto. Qed.

Section Bridge.
  Variables (m : mem) (d : dirty) (rd : list iobuf) (b : iobuf).
  Hypothesis Hwf : wf_io b.
  Hypothesis Hnd : NoDup (flat (segs b)).
  Let F := flat (segs b).
  Let cap := avail b.
  Let st0 := mkv m d rd [b].

  Lemma placed_nothing st' : v_mem st' = m -> v_dirty st' = d -> placed m d F [] st'.
  Proof.
    intros Hm Hd. unfold placed. cbn [length firstn map]. rewrite Hm, Hd. repeat split; auto.
    intros [H|[x [[] _]]]; exact H.
  Qed.

  Lemma Flen : length F = N.to_nat cap.
  Proof. unfold cap. rewrite avail_flat. unfold lenN, F. lia. Qed.

  (* commit on the virtio transport does nothing *)
  Lemma commit_noop st : snd (vrun [WCommit 0] st) = st.
  Proof. cbn [vrun vstep]. destruct (nth_error (v_wr st) 0); reflexivity. Qed.

  (* A: one write of [data] on the fresh writer, optionally followed by commit *)
  Lemma run_write data rest : rest = [] \/ rest = [WCommit 0] ->
    placed m d F (if cap <? lenN data then [] else data) (snd (vrun (WWrite 0 data :: rest) st0)).
  Proof.
    intros Hrest. rewrite vrun_snd_cons. cbn [vstep st0 v_wr nth_error v_mem v_dirty v_rd].
    destruct (vw_write_spec data m d b Hwf) as [Hno Hok]. fold cap in Hno, Hok.
    assert (Hcommit : forall st, snd (vrun rest st) = st).
    { intro st. destruct Hrest as [->| ->]; [reflexivity|apply commit_noop]. }
    destruct (N.ltb_spec cap (lenN data)) as [Hlt|Hge].
    - rewrite (Hno Hlt). cbn [snd]. rewrite Hcommit. apply placed_nothing; reflexivity.
    - destruct (Hok Hge) as [m' [d' [b' [log [E [P Hs]]]]]]. rewrite E. cbn [snd]. rewrite Hcommit.
      destruct (wpost_content _ _ _ _ _ _ _ _ data P Hs eq_refl Hnd) as [C Fr].
      destruct P as [_ [_ [_ [_ D]]]].
      unfold placed. cbn [v_mem v_dirty]. fold F in C, Fr, D.
      replace (length data) with (N.to_nat (lenN data)) by (unfold lenN; lia).
      split; [|split; [exact C|split; [exact Fr|exact D]]].
      rewrite firstn_length, Flen. unfold lenN in *. lia.
  Qed.

  (* B: split refused *)
  Lemma run_split_refused : cap < 16 -> placed m d F [] (snd (vrun [WSplit 0 16] st0)).
  Proof.
    intro H. cbn [vrun vstep st0 v_wr nth_error].
    rewrite (split_refused 16 b Hwf H). cbn [snd]. apply placed_nothing; reflexivity.
  Qed.

  Section AfterSplit.
    Hypothesis Hcap : 16 <= cap.

    Lemma split_facts : exists a o, io_split 16 b = Some (a, o) /\
      flat (segs a) = firstn 16 F /\ flat (segs o) = skipn 16 F /\ wf_io a /\ wf_io o /\
      avail a = 16 /\ avail o = cap - 16 /\ NoDup (flat (segs a)) /\ NoDup (flat (segs o)).
    Proof.
      destruct (io_split_spec 16 b Hwf) as [Hok _]. destruct (Hok Hcap) as [a [o [E [Fa [Fo [_ [_ [Wa Wo]]]]]]]].
      exists a, o. fold F in Fa, Fo. change (N.to_nat 16) with 16%nat in Fa, Fo.
      pose proof Flen as HL.
      repeat split; auto.
      - rewrite avail_flat, Fa. unfold lenN. rewrite firstn_length. lia.
      - rewrite avail_flat, Fo. unfold lenN. rewrite skipn_length. lia.
      - rewrite Fa. apply NoDup_firstn. exact Hnd.
      - rewrite Fo. eapply NoDup_app_r. rewrite firstn_skipn. exact Hnd.
    Qed.

    (* C: the data does not fit into the second half: refused, nothing written *)
    Lemma run_split_data_refused data : cap - 16 < lenN data ->
      placed m d F [] (snd (vrun [WSplit 0 16; WWrite 1 data] st0)).
    Proof.
      intro H. destruct split_facts as [a [o [E [Fa [Fo [Wa [Wo [Ha [Ho _]]]]]]]]].
      rewrite vrun_snd_cons. cbn [vstep st0 v_wr nth_error v_mem v_dirty v_rd]. rewrite E. cbn [snd set_nth app].
      cbn [vrun vstep v_wr nth_error v_mem v_dirty].
      destruct (vw_write_spec data m d o Wo) as [Hno _]. rewrite Hno by lia. cbn [snd].
      apply placed_nothing; reflexivity.
    Qed.

    (* E: after the split, a 16-byte header through the first half (error reply) *)
    Lemma run_split_hdr hdr : lenN hdr = 16 ->
      placed m d F hdr (snd (vrun [WSplit 0 16; WWrite 0 hdr; WCommit 0] st0)).
    Proof.
      intro Hh. destruct split_facts as [a [o [E [Fa [Fo [Wa [Wo [Ha [Ho [Na No]]]]]]]]]].
      rewrite vrun_snd_cons. cbn [vstep st0 v_wr nth_error v_mem v_dirty v_rd]. rewrite E. cbn [snd set_nth app].
      rewrite vrun_snd_cons. cbn [vstep v_wr nth_error v_mem v_dirty v_rd].
      destruct (vw_write_spec hdr m d a Wa) as [_ Hw]. destruct Hw as [m2 [d2 [a' [log2 [E2 [P2 S2]]]]]]; [lia|].
      rewrite E2. cbn [snd set_nth]. rewrite commit_noop.
      destruct (wpost_content _ _ _ _ _ _ _ _ hdr P2 S2 eq_refl Na) as [C2 Fr2].
      destruct P2 as [_ [_ [_ [_ D2]]]].
      assert (HW : firstn (N.to_nat (lenN hdr)) (flat (segs a)) = firstn (length hdr) F).
      { rewrite Hh, Fa, firstn_firstn. f_equal. unfold lenN in Hh. lia. }
      rewrite HW in C2, Fr2, D2.
      unfold placed. cbn [v_mem v_dirty]. split; [|split; [exact C2|split; [exact Fr2|exact D2]]].
      rewrite firstn_length, Flen. unfold lenN in Hh. lia.
    Qed.

    (* D: data into the second half, then the header into the first half, then commit *)
    Lemma run_split_ok data hdr : lenN data <= cap - 16 -> lenN hdr = 16 ->
      placed m d F (hdr ++ data) (snd (vrun [WSplit 0 16; WWrite 1 data; WWrite 0 hdr; WCommit 0] st0)).
    Proof.
      intros Hdata Hhdr. destruct split_facts as [a [o [E [Fa [Fo [Wa [Wo [Ha [Ho [Na No]]]]]]]]]].
      rewrite vrun_snd_cons. cbn [vstep st0 v_wr nth_error v_mem v_dirty v_rd]. rewrite E. cbn [snd set_nth app].
      rewrite vrun_snd_cons. cbn [vstep v_wr nth_error v_mem v_dirty v_rd].
      destruct (vw_write_spec data m d o Wo) as [_ Hw2]. destruct Hw2 as [m1 [d1 [o' [log1 [E1 [P1 S1]]]]]]; [lia|].
      rewrite E1. cbn [snd set_nth].
      destruct (wpost_content _ _ _ _ _ _ _ _ data P1 S1 eq_refl No) as [C1 Fr1].
      destruct P1 as [_ [_ [_ [_ D1]]]].
      rewrite vrun_snd_cons. cbn [vstep v_wr nth_error v_mem v_dirty v_rd].
      destruct (vw_write_spec hdr m1 d1 a Wa) as [_ Hw1]. destruct Hw1 as [m2 [d2 [a' [log2 [E2 [P2 S2]]]]]]; [lia|].
      rewrite E2. cbn [snd set_nth]. rewrite commit_noop.
      destruct (wpost_content _ _ _ _ _ _ _ _ hdr P2 S2 eq_refl Na) as [C2 Fr2].
      destruct P2 as [_ [_ [_ [_ D2]]]].
      set (ha := firstn (N.to_nat (lenN hdr)) (flat (segs a))) in *.
      set (da := firstn (N.to_nat (lenN data)) (flat (segs o))) in *.
      assert (Hha : ha = firstn 16 F).
      { unfold ha. rewrite Hhdr, Fa, firstn_firstn. reflexivity. }
      assert (HW : firstn (length (hdr ++ data)) F = ha ++ da).
      { rewrite app_length. replace (length hdr) with 16%nat by (unfold lenN in Hhdr; lia).
        rewrite firstn_add, Hha. unfold da. rewrite Fo.
        replace (N.to_nat (lenN data)) with (length data) by (unfold lenN; lia). reflexivity. }
      assert (Hdisj : forall x, In x da -> ~ In x ha).
      { intros x Hx Hh. rewrite Hha in Hh. unfold da in Hx. rewrite Fo in Hx.
        apply (NoDup_skipn_disjoint 16 F x Hnd Hh).
        rewrite <- (firstn_skipn (N.to_nat (lenN data)) (skipn 16 F)). apply in_or_app. auto. }
      pose proof Flen as HL.
      unfold placed. cbn [v_mem v_dirty]. rewrite HW. split; [|split; [|split]].
      - rewrite !app_length. unfold ha, da. rewrite !firstn_length, Fa, Fo.
        rewrite firstn_length, skipn_length. unfold lenN in *. lia.
      - rewrite map_app. f_equal; [exact C2|]. rewrite <- C1. apply map_ext_in. intros x Hx. apply Fr2. apply Hdisj. exact Hx.
      - intros x Hx. rewrite Fr2 by (intro; apply Hx; apply in_or_app; auto).
        apply Fr1. intro; apply Hx; apply in_or_app; auto.
      - intro p. rewrite D2, D1. fold ha da. split.
        + intros [[H|[x [Hx Hp]]]|[x [Hx Hp]]]; auto; right; exists x; (split; [|exact Hp]); apply in_or_app; auto.
        + intros [H|[x [Hx Hp]]]; auto. apply in_app_or in Hx. destruct Hx as [Hx|Hx]; [right|left; right]; eauto.
    Qed.
  End AfterSplit.

  (* ---- the bridge: for every reply action, the operations Server::perform issues, run on the segment-level
     writer over this (arbitrary) chain, place exactly perform's [o_mem] on the first |o_mem| writable addresses,
     change nothing else, and mark exactly the pages of these addresses; perform never panics on virtio *)
  Theorem perform_placed unique (a : S.action) :
    let o := S.perform S.Virtio cap unique a in
    S.o_panic o = false /\
    placed m d F (S.o_mem o) (snd (vrun (issued_ops cap unique a) st0)).
  Proof.
    cbn zeta. unfold S.perform, S.perform_err, S.fresh, S.w_split, S.w_write, S.w_commit.
    cbn [S.w_kind S.w_buf S.w_cap S.w_buffered].
    change (S.blen []) with 0. rewrite !N.sub_0_r.
    destruct a as [r|body|errno after|data|errno|body]; cbn [issued_ops].
    - split; [reflexivity|]. cbn [vrun snd S.o_mem S.out_ok]. apply placed_nothing; reflexivity.
    - rewrite blen_lenN. pose proof (run_write (S.out_header (S.OUT_HDR + S.blen body) 0 unique ++ body) [] (or_introl eq_refl)) as H.
      destruct (cap <? lenN (S.out_header (S.OUT_HDR + S.blen body) 0 unique ++ body)); cbn [S.o_panic S.o_mem S.out_ok S.w_buf app]; auto.
    - rewrite blen_lenN, out_header_len.
      destruct (N.ltb_spec cap 16) as [Hlt|Hge].
      + pose proof (run_write (S.out_header S.OUT_HDR (S.neg32 errno) unique) [] (or_introl eq_refl)) as H.
        rewrite out_header_len in H. destruct (N.ltb_spec cap 16); [|lia].
        cbn [S.o_panic S.o_mem S.out_ok S.w_buf app]. auto.
      + pose proof (run_write (S.out_header S.OUT_HDR (S.neg32 errno) unique) [WCommit 0] (or_intror eq_refl)) as H.
        rewrite out_header_len in H. destruct (N.ltb_spec cap 16); [lia|].
        cbn [S.o_panic S.o_mem S.out_ok S.w_buf app]. auto.
    - change S.OUT_HDR with 16. rewrite N.add_0_l.
      destruct (N.ltb_spec cap 16) as [Hlt|Hge].
      + cbn [S.o_panic S.o_mem S.out_ok]. split; [reflexivity|]. apply run_split_refused; exact Hlt.
      + cbn [S.w_kind S.w_buf S.w_cap S.w_buffered]. change (S.blen []) with 0. rewrite !N.sub_0_r, !blen_lenN.
        destruct (N.ltb_spec (cap - 16) (lenN data)) as [Hd|Hd].
        * cbn [S.o_panic S.o_mem S.out_ok]. split; [reflexivity|]. apply run_split_data_refused; assumption.
        * rewrite out_header_len. destruct (N.ltb_spec 16 16); [lia|].
          cbn [S.o_panic S.o_mem S.out_ok S.w_buf app]. split; [reflexivity|].
          apply run_split_ok; [assumption|assumption|apply out_header_len].
    - change S.OUT_HDR with 16. rewrite N.add_0_l.
      destruct (N.ltb_spec cap 16) as [Hlt|Hge].
      + cbn [S.o_panic S.o_mem S.out_ok]. split; [reflexivity|]. apply run_split_refused; exact Hlt.
      + cbn [S.w_kind S.w_buf S.w_cap S.w_buffered]. change (S.blen []) with 0. rewrite !N.sub_0_r, !blen_lenN, out_header_len.
        destruct (N.ltb_spec 16 16); [lia|].
        cbn [S.o_panic S.o_mem S.out_ok S.w_buf app]. split; [reflexivity|].
        apply run_split_hdr; [assumption|apply out_header_len].
    - rewrite blen_lenN. pose proof (run_write (S.out_header (S.OUT_HDR + S.blen body) 0 unique ++ body) [] (or_introl eq_refl)) as H.
      destruct (cap <? lenN (S.out_header (S.OUT_HDR + S.blen body) 0 unique ++ body)); cbn [S.o_panic S.o_mem S.out_ok S.w_buf app]; auto.
  Qed.
End Bridge.

(* consequences, page by page *)
Lemma placed_reply_pages_dirty m d F om st' : placed m d F om st' ->
  forall x, In x (firstn (length om) F) -> v_dirty st' (x / PS) = true.
Proof. intros [_ [_ [_ D]]] x Hx. apply D. right. exists x. auto. Qed.

Lemma placed_other_pages_clean m d F om st' : placed m d F om st' ->
  forall p, d p = false -> (forall x, In x (firstn (length om) F) -> x / PS <> p) -> v_dirty st' p = false.
Proof.
  intros [_ [_ [_ D]]] p Hd Hno. destruct (v_dirty st' p) eqn:E; [|reflexivity].
  apply D in E. destruct E as [E|[x [Hx Hp]]]; [congruence|]. exfalso. exact (Hno x Hx Hp).
Qed.

(* whole requests: Server.handle = decide (pure) then perform *)
Theorem handle_placed m d rd b (Hwf : wf_io b) (Hnd : NoDup (flat (segs b))) cfg req fr :
  let a := snd (fst (S.decide cfg req fr (avail b))) in
  let o := snd (fst (S.handle cfg S.Virtio (avail b) req fr)) in
  S.o_panic o = false /\
  placed m d (flat (segs b)) (S.o_mem o)
         (snd (vrun (issued_ops (avail b) (S.u64 8 req) a) (mkv m d rd [b]))).
Proof.
  cbn zeta. unfold S.handle. destruct (S.decide cfg req fr (avail b)) as [[cs a] mm]. cbn [fst snd].
  apply perform_placed; assumption.
Qed.
