(* Facts about the association lists of Model/Inodes.v and rewriting lemmas for the table
   primitives (insert / remove / set_rc). *)
From Coq Require Import List NArith Bool Lia.
From FB Require Import Model.Inodes.
Import ListNotations.
Local Open Scope N_scope.

Section AMapFacts.
  Context {K V : Type}.
  Variable eqb : K -> K -> bool.
  Hypothesis eqb_spec : forall a b, reflect (a = b) (eqb a b).

  Lemma eqb_refl k : eqb k k = true.
  Proof. destruct (eqb_spec k k); congruence. Qed.
  Lemma eqb_neq a b : a <> b -> eqb a b = false.
  Proof. destruct (eqb_spec a b); congruence. Qed.

  Lemma mget_mdel_eq (m : list (K * V)) k : mget eqb (mdel eqb m k) k = None.
  Proof.
    induction m as [|[k' v] r IH]; cbn; [reflexivity|].
    destruct (eqb_spec k k') as [E|E]; [exact IH|]. cbn. rewrite (eqb_neq _ _ E). exact IH.
  Qed.
  Lemma mget_mdel_neq (m : list (K * V)) k j : j <> k -> mget eqb (mdel eqb m k) j = mget eqb m j.
  Proof.
    intros N. induction m as [|[k' v] r IH]; cbn; [reflexivity|].
    destruct (eqb_spec k k') as [E|E].
    - subst k'. rewrite (eqb_neq _ _ N). exact IH.
    - cbn. destruct (eqb j k'); [reflexivity|exact IH].
  Qed.
  Lemma mget_mset_eq (m : list (K * V)) k v : mget eqb (mset eqb m k v) k = Some v.
  Proof. unfold mset; cbn. rewrite eqb_refl. reflexivity. Qed.
  Lemma mget_mset_neq (m : list (K * V)) k v j : j <> k -> mget eqb (mset eqb m k v) j = mget eqb m j.
  Proof. intros N. unfold mset; cbn. rewrite (eqb_neq _ _ N). apply mget_mdel_neq; exact N. Qed.
  Lemma mget_none_nil (m : list (K * V)) : (forall k, mget eqb m k = None) -> m = [].
  Proof.
    destruct m as [|[k v] r]; [reflexivity|]. intros H. specialize (H k). cbn in H.
    rewrite eqb_refl in H. discriminate.
  Qed.
End AMapFacts.

Lemma hid_eqb_spec : forall a b : hid, reflect (a = b) (hid_eqb a b).
Proof.
  intros [[a1 a2] a3] [[b1 b2] b3]. unfold hid_eqb, hid_ino, hid_dev, hid_mnt; cbn.
  destruct (N.eqb_spec a1 b1), (N.eqb_spec a2 b2), (N.eqb_spec a3 b3); cbn; constructor; congruence.
Qed.
Lemma pair_eqb_spec : forall a b : N * N, reflect (a = b) (pair_eqb a b).
Proof.
  intros [a1 a2] [b1 b2]. unfold pair_eqb; cbn.
  destruct (N.eqb_spec a1 b1), (N.eqb_spec a2 b2); cbn; constructor; congruence.
Qed.

(* ---- N-keyed *)
Lemma nget_set (m : list (N * idata)) i d j :
  mget N.eqb (mset N.eqb m i d) j = if j =? i then Some d else mget N.eqb m j.
Proof.
  destruct (N.eqb_spec j i) as [E|E].
  - subst. apply mget_mset_eq. exact N.eqb_spec.
  - apply mget_mset_neq; [exact N.eqb_spec|exact E].
Qed.
Lemma nget_del (m : list (N * idata)) i j :
  mget N.eqb (mdel N.eqb m i) j = if j =? i then None else mget N.eqb m j.
Proof.
  destruct (N.eqb_spec j i) as [E|E].
  - subst. apply mget_mdel_eq. exact N.eqb_spec.
  - apply mget_mdel_neq; [exact N.eqb_spec|exact E].
Qed.
Lemma nnget_set (m : list (N * N)) i d j :
  mget N.eqb (mset N.eqb m i d) j = if j =? i then Some d else mget N.eqb m j.
Proof.
  destruct (N.eqb_spec j i) as [E|E].
  - subst. apply mget_mset_eq. exact N.eqb_spec.
  - apply mget_mset_neq; [exact N.eqb_spec|exact E].
Qed.
Lemma nnget_del (m : list (N * N)) i j :
  mget N.eqb (mdel N.eqb m i) j = if j =? i then None else mget N.eqb m j.
Proof.
  destruct (N.eqb_spec j i) as [E|E].
  - subst. apply mget_mdel_eq. exact N.eqb_spec.
  - apply mget_mdel_neq; [exact N.eqb_spec|exact E].
Qed.
Lemma hget_set (m : list (hid * N)) i d j :
  mget hid_eqb (mset hid_eqb m i d) j = if hid_eqb j i then Some d else mget hid_eqb m j.
Proof.
  destruct (hid_eqb_spec j i) as [E|E].
  - subst. apply mget_mset_eq. exact hid_eqb_spec.
  - apply mget_mset_neq; [exact hid_eqb_spec|exact E].
Qed.
Lemma hget_del (m : list (hid * N)) i j :
  mget hid_eqb (mdel hid_eqb m i) j = if hid_eqb j i then None else mget hid_eqb m j.
Proof.
  destruct (hid_eqb_spec j i) as [E|E].
  - subst. apply mget_mdel_eq. exact hid_eqb_spec.
  - apply mget_mdel_neq; [exact hid_eqb_spec|exact E].
Qed.

(* ---- table primitives *)
Lemma dget_insert s i d j : dget (insert s i d) j = if j =? i then Some d else dget s j.
Proof. unfold dget, insert; cbn. apply nget_set. Qed.
Lemma dget_set_rc s i d rc j :
  dget (set_rc s i d rc) j = if j =? i then Some (mkI rc (i_id d) (i_fh d) (i_safe d)) else dget s j.
Proof. unfold dget, set_rc, set_data; cbn. apply nget_set. Qed.
Lemma dget_remove s i keep j : dget (remove s i keep) j = if j =? i then None else dget s j.
Proof.
  unfold remove. destruct (dget s i) as [d|] eqn:E.
  - destruct keep; unfold dget, set_data; cbn; apply nget_del.
  - destruct (N.eqb_spec j i); subst; auto.
Qed.
