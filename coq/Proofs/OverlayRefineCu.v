(* Copy-up neutrality: creating the upper copies of missing ancestor directories (create_upper_dir, as called by
   copy_node_up) does not change the client's view, PROVIDED the lower directories that are copied carry no user
   xattrs and have modes within 01777 (mkdirat keeps only those bits) - without the first hypothesis the statement is
   false: that is the known finding copy-up-drops-xattrs.  Then: mkdir / create / mknod / symlink below a directory
   that only lower layers hold, by composition with the no-copy-up fragment. *)
From Coq Require Import List String Arith NArith Bool Lia.
From FB Require Import Model.Overlay Proofs.OverlayInv Proofs.OverlayScan Proofs.OverlayRestart
  Proofs.OverlayReadOnly Proofs.OverlayCoh Proofs.OverlayCohView Proofs.OverlayCopyUp Proofs.OverlayCohOps
  Proofs.OverlayCohSteps Proofs.OverlayRefineTeq Proofs.OverlayRefineMerge Proofs.OverlayRefineRun Proofs.OverlayRefine
  Proofs.OverlayRefineWh.
Import ListNotations.
Local Open Scope N_scope.

(* ------------------------------------------------------------------ one mkdir of copy-up leaves the union as it is *)
Lemma aset_same_val {A} k (v : A) l : afind k l = Some v -> aset k v l = l.
Proof.
  induction l as [|[a y] l IH]; cbn [afind aset]; [discriminate|]. destruct (String.eqb k a) eqn:E.
  - apply String.eqb_eq in E; subst. intros H; inversion H; reflexivity.
  - intros H. rewrite (IH H). reflexivity.
Qed.
Lemma amap_notin {A} k (f : A -> A) l : ~ In k (map fst l) -> amap k f l = l.
Proof.
  unfold amap. induction l as [|[a v] l IH]; intros H; cbn [map fst snd] in *; [reflexivity|].
  destruct (String.eqb k a) eqn:E; [apply String.eqb_eq in E; subst; exfalso; apply H; left; reflexivity|].
  rewrite IH; [reflexivity|]. intros Hi. apply H. right. exact Hi.
Qed.
Lemma amap_fix {A} k (f : A -> A) l y : NoDup (map fst l) -> afind k l = Some y -> f y = y -> amap k f l = l.
Proof.
  induction l as [|[a v] l IH]; intros Hn Hk Hf; cbn [afind] in Hk; [discriminate|].
  cbn [map fst] in Hn. inversion Hn as [|? ? Hnot Hn']; subst. destruct (String.eqb k a) eqn:E.
  - apply String.eqb_eq in E; subst a. inversion Hk; subst v. unfold amap. cbn [map fst snd]. rewrite String.eqb_refl, Hf.
    f_equal. apply (amap_notin k f l Hnot).
  - unfold amap. cbn [map fst snd]. rewrite E. f_equal. apply (IH Hn' Hk Hf).
Qed.
Lemma tupd_fix pp g : forall t d, wf t -> tget t pp = Some d -> g d = d -> tupd pp g t = t.
Proof.
  induction pp as [|k pp IH]; intros t d W Hg Hd; cbn [tget tupd] in *; [inversion Hg; subst; exact Hd|].
  destruct t as [m x ch| | |]; try reflexivity. destruct (afind k ch) as [y|] eqn:Ek; [|discriminate].
  inversion W as [? ? ? Hn Hall| | |]; subst. f_equal. apply (amap_fix k _ ch y Hn Ek).
  apply (IH y d); auto. exact (Forall_afind (fun v => wf v) k ch y Hall Ek).
Qed.

Lemma collect_trees_cons_empty m x ds : collect_trees (Dir m x [] :: ds) = collect_trees ds.
Proof. reflexivity. Qed.

(* the upper layer gets an empty, xattr-less directory [pp]/[nm] on top of a lower directory with the same mode and no user xattrs *)
Lemma dirup_merge u ls (pp : path) (nm : name) m x ch md x0 ch0 rest0 f :
  Forall wf (u :: ls) -> tget u pp = Some (Dir m x ch) -> afind nm ch = None ->
  mstack (u :: ls) (pp ++ [nm]) = Dir md x0 ch0 :: rest0 -> user_xs x0 = [] ->
  DEPTH = (S (S f) + List.length pp)%nat ->
  oteq (merge (tupd pp (dir_ins nm (Dir md [] [])) u :: ls)) (merge (u :: ls)).
Proof.
  intros W Hpp Hnone Hms Hx Hd.
  destruct (mstack_head pp u ls _ Hpp) as [r Hr].
  assert (Hgrp : ents nm (tl (dir_stack (Dir m x ch :: r))) = Dir md x0 ch0 :: rest0).
  { rewrite mstack_snoc, Hr, (dir_stack_head m x ch), ents_cons in Hms. cbn [dir_children] in Hms. rewrite Hnone in Hms. exact Hms. }
  pose proof (wf_tget _ (Forall_inv W) _ _ Hpp) as Wd.
  assert (Hn : NoDup (map fst ch)) by (inversion Wd; assumption).
  assert (HG : only_at nm (aset nm (Dir md [] [])) ch).
  { split; [apply keys_aset; exact Hn|]. split.
    - intros k Hk. rewrite afind_aset. apply String.eqb_neq in Hk. rewrite Hk. reflexivity.
    - intros c0 H0. rewrite afind_aset_same in H0. assert (E : c0 = Dir md [] []) by congruence. rewrite E. constructor; constructor. }
  pose proof (merge_tupd nm (aset nm (Dir md [] [])) (S f) pp u ls m x ch W Hpp HG Hd) as M. cbv zeta in M.
  assert (E : tupd pp (chmap (aset nm (Dir md [] []))) u = tupd pp (dir_ins nm (Dir md [] [])) u) by (apply tupd_ext; intros d; symmetry; apply dir_ins_chmap).
  rewrite E in M. clear E.
  destruct (tget_merge (S f) pp u ls _ W Hpp eq_refl Hd) as (mv & Hm & Ht). rewrite Hm in *. cbn [option_map] in M.
  rewrite Hr in *. cbn [tl] in M.
  assert (Wr : Forall wf (Dir m x ch :: r)) by (rewrite <- Hr; apply mstack_wf; exact W).
  destruct (resolve_dir_spec (S f) m x ch r Wr) as (chs & Er & N & K). rewrite Er in Ht.
  (* what the union shows under [nm] before and after *)
  set (lowc := Dir md x0 ch0 :: rest0) in *.
  assert (Eold : afind nm chs = resolve (S f) lowc).
  { rewrite K, (dir_stack_head m x ch), ents_cons. cbn [dir_children]. rewrite Hnone, Hgrp. reflexivity. }
  assert (Enew : resolve (S f) (ents nm (dir_stack (Dir m x (aset nm (Dir md [] []) ch) :: r))) = resolve (S f) lowc).
  { rewrite (dir_stack_head m x (aset nm (Dir md [] []) ch)), ents_cons. cbn [dir_children]. rewrite afind_aset_same.
    rewrite (dir_stack_tl_indep m x ch), Hgrp. unfold lowc.
    assert (Ec : collect_trees (dir_stack (Dir md [] [] :: Dir md x0 ch0 :: rest0)) = collect_trees (dir_stack (Dir md x0 ch0 :: rest0))).
    { change (dir_stack (Dir md [] [] :: Dir md x0 ch0 :: rest0)) with (Dir md [] [] :: dir_stack (Dir md x0 ch0 :: rest0)). apply collect_trees_cons_empty. }
    cbn [resolve]. rewrite Ec, Hx. reflexivity. }
  rewrite Enew in M.
  destruct (resolve (S f) lowc) as [T|] eqn:ET.
  - cbn [setc] in M. rewrite (tupd_fix pp (dir_ins nm T) mv _ (resolve_wf _ _ _ W Hm) Ht) in M; [exact M|].
    cbn [dir_ins]. rewrite (aset_same_val nm T chs Eold). reflexivity.
  - exfalso. unfold lowc in ET. cbn [resolve] in ET. discriminate.
Qed.

(* ------------------------------------------------------------------ cache facts *)
Lemma node_first_real s (q : path) n : Coherent s -> nget q (root s) = Some n ->
  exists r rs t, n_reals n = r :: rs /\ ent s (r_layer r) q = Some t /\ node_stat s n = Some t /\ r_path r = q /\
    r_upper r = Nat.eqb (r_layer r) 0 /\ hd_error (lstack (shp s) (List.length (lowers s)) q) = Some (r_layer r) /\
    r_dir r = is_dirT t /\ n_wh n = is_whT t.
Proof.
  intros (_ & _ & HCT) Hg. pose proof (HCT q n Hg) as N. cbn [app] in N.
  destruct (first_good_stat s _ q n N) as (r & rs & t & Er & Et & Hst & Hw & Hd & Hp).
  exists r, rs, t. pose proof (ok_reals _ _ _ _ N) as Hr. rewrite Er in Hr. pose proof (Forall_inv Hr) as (_ & Hup & _).
  pose proof (ok_hd _ _ _ _ N) as Hh. rewrite Er in Hh. cbn [map hd_error] in Hh.
  repeat split; auto. rewrite (ok_wh _ _ _ _ N), Er. exact Hw.
Qed.
Lemma root_in_upper s : Coherent s -> in_upper (root s) = true.
Proof.
  intros HC. destruct (node_first_real s [] (root s) HC eq_refl) as (r & rs & t & Er & _ & _ & _ & Hup & Hh & _).
  unfold lstack in Hh. cbn in Hh. inversion Hh as [H0]. unfold in_upper. rewrite Er, Hup, <- H0. reflexivity.
Qed.
Lemma parent_is_dir s (pp : path) (nm : name) pn n : Coherent s -> nget pp (root s) = Some pn -> nget (pp ++ [nm]) (root s) = Some n ->
  exists md x ch, node_stat s pn = Some (Dir md x ch).
Proof.
  intros HC Hg Hq. pose proof HC as (_ & _ & HCT). pose proof (HCT pp pn Hg) as N. cbn [app] in N.
  pose proof (nget_child pp nm (root s) pn n Hg Hq) as Hc.
  assert (Hld : n_loaded pn = true). { destruct (n_loaded pn) eqn:El; [reflexivity|]. rewrite (ok_unl _ _ _ _ N El) in Hc. discriminate. }
  destruct (ok_ld _ _ _ _ N Hld) as (_ & Hfd & _).
  destruct (node_first_real s pp pn HC Hg) as (r & rs & t & Er & _ & Hst & _ & _ & _ & Hd & _).
  rewrite Er in Hfd. cbn in Hfd. rewrite Hd in Hfd. destruct t; try discriminate. eauto.
Qed.
Lemma node_stat_mstack s u (q : path) n t : Coherent s -> upper s = Some u -> nget q (root s) = Some n -> node_stat s n = Some t ->
  exists r, mstack (u :: lowers s) q = t :: r.
Proof.
  intros HC Hu Hg Hst. destruct (node_first_real s q n HC Hg) as (r & rs & t' & Er & Et & Hst' & _ & _ & Hh & _).
  assert (t' = t) by congruence. subst t'.
  pose proof (lstack_rel s u q Hu) as R. destruct (lstack (shp s) (List.length (lowers s)) q) as [|i0 ir]; [discriminate|].
  cbn in Hh. inversion Hh; subst i0. inversion R as [|? t0 ? es Hi _]; subst. unfold entR in Hi. rewrite Et in Hi. inversion Hi. eauto.
Qed.
Lemma not_upper_no_entry s u (q : path) n : Coherent s -> upper s = Some u -> nget q (root s) = Some n -> in_upper n = false ->
  tget u q = None.
Proof.
  intros HC Hu Hg Hin. destruct (tget u q) as [t|] eqn:Et; [|reflexivity]. exfalso.
  destruct (upper_node s u q n t HC Hu Hg Et) as (pr & prs & Er & Hup & _). unfold in_upper in Hin. rewrite Er, Hup in Hin. discriminate.
Qed.
Lemma upper_dir_of_node s u (q : path) n t : Coherent s -> upper s = Some u -> nget q (root s) = Some n -> in_upper n = true ->
  node_stat s n = Some t -> tget u q = Some t.
Proof.
  intros HC Hu Hg Hin Hst. destruct (node_first_real s q n HC Hg) as (r & rs & t' & Er & Et & Hst' & _ & Hup & _).
  unfold in_upper in Hin. rewrite Er, Hup in Hin. apply Nat.eqb_eq in Hin. rewrite Hin in Et. unfold ent in Et. cbn [get_layer] in Et.
  rewrite Hu in Et. congruence.
Qed.
Lemma lower_node_stat s s' (q : path) n : Coherent s -> nget q (root s) = Some n -> in_upper n = false -> lowers s' = lowers s ->
  node_stat s' n = node_stat s n.
Proof.
  intros HC Hg Hin Hl. destruct (node_first_real s q n HC Hg) as (r & rs & t & Er & Et & Hst & Hp & Hup & _).
  unfold in_upper in Hin. rewrite Er, Hup in Hin. apply Nat.eqb_neq in Hin.
  assert (Hrt : real_tree s r = Some t) by (rewrite real_tree_ent, Hp; exact Et).
  rewrite Hst. unfold node_stat. rewrite Er. cbn [map first_some]. rewrite (lower_real_tree s s' r Hin Hl), Hrt. reflexivity.
Qed.

(* ------------------------------------------------------------------ create_upper_dir: succeeds, and the union stays *)
Definition cu_ok (s : state) (p : path) : Prop :=
  forall q n, is_prefix q p -> nget q (root s) = Some n -> in_upper n = false ->
    exists md x ch, node_stat s n = Some (Dir md x ch) /\ user_xs x = [] /\ N.land md 1023 = md.

Lemma split_last_none (p : path) : split_last p = None -> p = [].
Proof.
  destruct p as [|a p]; [reflexivity|]. intros H. exfalso.
  destruct (@exists_last _ (a :: p)) as (pp & nm & E); [discriminate|]. rewrite E, split_last_snoc in H. discriminate.
Qed.
Lemma nget_prefix (pp : path) (nm : name) r n : nget (pp ++ [nm]) r = Some n -> exists pn, nget pp r = Some pn.
Proof.
  revert r. induction pp as [|a pp IH]; intros r H; cbn [nget app] in *; [eauto|].
  destruct (afind a (n_ch r)); [apply IH; exact H|discriminate].
Qed.
Lemma oteq_merge_refl L : Forall wf L -> oteq (merge L) (merge L).
Proof. intros W. destruct (merge L) as [t|] eqn:E; [|exact I]. apply teq_refl. eapply resolve_wf; [exact W|exact E]. Qed.

Lemma cud_step g (p : path) s u n md x ch :
  (forall (pp : path) (nm : name) pn mdp xp chp, p = pp ++ [nm] -> nget pp (root s) = Some pn -> in_upper pn = false ->
     node_stat s pn = Some (Dir mdp xp chp) ->
     exists s', create_upper_dir g pp s = (Ok tt, s') /\ next_ino s' = next_ino s /\
       oteq (merge (all_layers (upper s') (lowers s'))) (merge (u :: lowers s))) ->
  Coherent s -> upper s = Some u -> nget p (root s) = Some n -> node_stat s n = Some (Dir md x ch) ->
  (List.length p < DEPTH)%nat -> cu_ok s p ->
  exists s1, create_upper_dir (S g) p s = (Ok tt, s1) /\ next_ino s1 = next_ino s /\
    oteq (merge (all_layers (upper s1) (lowers s1))) (merge (u :: lowers s)).
Proof.
  intros Hinner HC Hu Hg Hst Hdep Hok.
  pose proof (coherent_wf_layers s u HC Hu) as W.
  cbn [create_upper_dir]. rewrite (bind_ok _ _ _ _ _ (get_node_ok p s n Hg)).
  assert (Es : stat_node n s = (Ok (Dir md x ch), s)) by (unfold stat_node; rewrite Hst; reflexivity).
  rewrite (bind_ok _ _ _ _ _ Es). cbn [is_dirT negb].
  destruct (in_upper n) eqn:Eup.
  { exists s. split; [reflexivity|]. split; [reflexivity|]. rewrite Hu. cbn [all_layers]. apply oteq_merge_refl. exact W. }
  destruct (split_last p) as [[pp nm]|] eqn:Esp.
  2:{ exfalso. apply split_last_none in Esp. subst p. cbn [nget] in Hg. inversion Hg; subst n. rewrite (root_in_upper s HC) in Eup. discriminate. }
  apply split_last_spec in Esp. subst p.
  destruct (nget_prefix pp nm (root s) n Hg) as [pn Hgp].
  destruct (parent_is_dir s pp nm pn n HC Hgp Hg) as (mdp & xp & chp & Hstp).
  (* the parent gets its upper directory *)
  assert (Hpar : exists s', (if in_upper pn then ret tt else create_upper_dir g pp) s = (Ok tt, s') /\ next_ino s' = next_ino s /\
            oteq (merge (all_layers (upper s') (lowers s'))) (merge (u :: lowers s)) /\
            Coherent s' /\ same_paths s s' /\ lowers s' = lowers s /\ cache_frame pp s s' /\ upper_at' pp s').
  { destruct (in_upper pn) eqn:Epu.
    - exists s. split; [reflexivity|]. split; [reflexivity|]. split; [rewrite Hu; apply oteq_merge_refl; exact W|].
      split; [exact HC|]. split; [apply same_paths_refl|]. split; [reflexivity|]. split; [intros q _; reflexivity|].
      intros n' Hn'. rewrite Hgp in Hn'. inversion Hn'; subst. exact Epu.
    - destruct (Hinner pp nm pn mdp xp chp eq_refl Hgp Epu Hstp) as (s' & E' & I' & U').
      destruct (cud_coherent g pp s _ s' HC E') as (A & B & C & D & F).
      exists s'. split; [exact E'|]. split; [exact I'|]. split; [exact U'|]. split; [exact A|]. split; [exact B|]. split; [exact C|]. split; [exact D|].
      apply F. reflexivity. }
  destruct Hpar as (s' & E' & I' & U' & HC' & SP & L' & Fr & Up).
  pose proof HC' as ([u' Hu'] & _ & _).
  rewrite (bind_ok _ _ _ _ _ (get_node_ok pp s pn Hgp)), (bind_ok _ _ _ _ _ E').
  destruct (same_paths_some s s' pp pn SP Hgp) as (pn' & Hgp' & _).
  pose proof (Up pn' Hgp') as Hpu.
  destruct (node_first_real s' pp pn' HC' Hgp') as (pr & prs & tp & Er & _ & Hstp' & Hpath & Hupr & _).
  assert (Hup : r_upper pr = true) by (unfold in_upper in Hpu; rewrite Er in Hpu; exact Hpu).
  assert (Hl0 : r_layer pr = 0%nat) by (rewrite Hup in Hupr; symmetry in Hupr; apply Nat.eqb_eq in Hupr; exact Hupr).
  assert (Hgn' : nget (pp ++ [nm]) (root s') = Some n) by (rewrite (Fr (pp ++ [nm]) (not_prefix_snoc pp nm)); exact Hg).
  pose proof (not_upper_no_entry s' u' _ n HC' Hu' Hgn' Eup) as Hnoent.
  destruct (parent_is_dir s' pp nm pn' n HC' Hgp' Hgn') as (m' & x' & ch' & Hstp2).
  pose proof (upper_dir_of_node s' u' pp pn' _ HC' Hu' Hgp' Hpu Hstp2) as Hpp'.
  assert (Hnone : afind nm ch' = None) by (rewrite tget_app, Hpp' in Hnoent; exact Hnoent).
  rewrite (bind_ok _ _ _ _ _ (get_node_ok pp s' pn' Hgp')), (bind_ok _ _ _ _ _ (upper_real_ok pn' pr prs EINVAL s' Er Hup)).
  set (c0 := Dir (N.land md 1023) [] []).
  set (u1 := tupd pp (dir_ins nm c0) u').
  assert (E4 : ri_mkdir pr nm (mode_of (Dir md x ch)) s' = (Ok (mkReal 0 true (pp ++ [nm]) false false true), set_layer s' 0 u1)).
  { unfold ri_mkdir, ri_guard. rewrite Hup. unfold bind at 1. cbn [ret]. unfold bind at 1. rewrite Hl0, Hpath.
    rewrite (mutate0_ok (h_mkdir pp nm (mode_of (Dir md x ch))) s' u' u1 Hu'); [reflexivity|].
    unfold h_mkdir, h_insert. rewrite Hpp', Hnone. reflexivity. }
  (* the repaired create_upper_dir chmods the new directory only when the lower mode has set-uid / set-gid bits; under
     hypothesis (b) of cu_ok (mode within 01777) it has none *)
  assert (Hns : has_setid md = false).
  { destruct (Hok (pp ++ [nm]) n (is_prefix_refl _) Hg Eup) as (md0 & x0 & ch0 & Hst0 & _ & Hm0).
    rewrite Hst in Hst0. inversion Hst0; subst md0. unfold has_setid. rewrite <- Hm0, <- N.land_assoc.
    change (N.land 1023 3072) with 0%N. rewrite N.land_0_r. reflexivity. }
  assert (E5 : ri_mkdir_cu pr nm (mode_of (Dir md x ch)) s' = (Ok (mkReal 0 true (pp ++ [nm]) false false true), set_layer s' 0 u1)).
  { unfold ri_mkdir_cu. rewrite (bind_ok _ _ _ _ _ E4). cbn [mode_of]. rewrite Hns. reflexivity. }
  rewrite (bind_ok _ _ _ _ _ E5). unfold mod_node. eexists. split; [reflexivity|]. cbn [next_ino upper lowers set_layer].
  split; [exact I'|]. rewrite Hu'. cbn [all_layers].
  apply (oteq_trans _ (merge (u' :: lowers s'))); [|rewrite Hu' in U'; exact U'].
  destruct (Hok (pp ++ [nm]) n (is_prefix_refl _) Hg Eup) as (md0 & x0 & ch0 & Hst0 & Hx0 & Hm0).
  rewrite Hst in Hst0. inversion Hst0; subst md0 x0 ch0.
  assert (Hst' : node_stat s' n = Some (Dir md x ch)) by (rewrite (lower_node_stat s s' _ n HC Hg Eup L'); exact Hst).
  destruct (node_stat_mstack s' u' _ n _ HC' Hu' Hgn' Hst') as [r Hms].
  assert (Hd : exists f0, DEPTH = (S (S f0) + List.length pp)%nat).
  { rewrite app_length in Hdep. cbn [List.length] in Hdep. exists (DEPTH - 2 - List.length pp)%nat. lia. }
  destruct Hd as [f0 Hd].
  unfold u1, c0. rewrite Hm0.
  apply (dirup_merge u' (lowers s') pp nm m' x' ch' md x ch r f0); auto. apply (coherent_wf_layers s' u' HC' Hu').
Qed.

Lemma cud_run f : forall (p : path) s u n md x ch,
  Coherent s -> upper s = Some u -> nget p (root s) = Some n -> node_stat s n = Some (Dir md x ch) ->
  (List.length p < S f)%nat -> (List.length p < DEPTH)%nat -> cu_ok s p ->
  exists s1, create_upper_dir (S f) p s = (Ok tt, s1) /\ next_ino s1 = next_ino s /\
    oteq (merge (all_layers (upper s1) (lowers s1))) (merge (u :: lowers s)).
Proof.
  induction f as [|f IH]; intros p s u n md x ch HC Hu Hg Hst Hlen Hdep Hok.
  - apply (cud_step 0 p s u n md x ch); auto. intros pp nm pn mdp xp chp -> _ _ _. rewrite app_length in Hlen. cbn in Hlen. lia.
  - apply (cud_step (S f) p s u n md x ch); auto. intros pp nm pn mdp xp chp -> Hgp Epu Hstp.
    apply (IH pp s u pn mdp xp chp); auto.
    + rewrite app_length in Hlen. cbn in Hlen. lia.
    + rewrite app_length in Hdep. cbn in Hdep. lia.
    + intros q n0 Hq. apply Hok. eapply is_prefix_trans; [exact Hq|apply is_prefix_app].
Qed.

(* ------------------------------------------------------------------ lookups and walks along any visible path *)
Lemma node_stat_head s u (q : path) n t r : Coherent s -> upper s = Some u -> nget q (root s) = Some n ->
  mstack (u :: lowers s) q = t :: r -> node_stat s n = Some t.
Proof.
  intros HC Hu Hg Hms. destruct (node_first_real s q n HC Hg) as (r0 & rs & t' & _ & _ & Hst & _).
  destruct (node_stat_mstack s u q n t' HC Hu Hg Hst) as [r' Hr']. congruence.
Qed.
Lemma lookup_vis (pp : path) s pn m x ch : Coherent s -> nget pp (root s) = Some pn -> node_stat s pn = Some (Dir m x ch) ->
  exists s1 pn1, Coherent s1 /\ sd s s1 /\ nget pp (root s1) = Some pn1 /\ n_wh pn1 = false /\ n_reals pn1 = n_reals pn /\
    n_loaded pn1 = true /\
    forall nmo, lookup_node pp nmo s =
      (match nmo with
       | None => Ok pp
       | Some nm => match afind nm (n_ch pn1) with Some _ => Ok (pp ++ [nm]) | None => Err ENOENT end
       end, s1).
Proof.
  intros HC Hg Hst. destruct (node_first_real s pp pn HC Hg) as (r & rs & t & Er & _ & Hst' & _ & _ & _ & Hd & Hw).
  assert (t = Dir m x ch) by congruence. subst t. cbn in Hd, Hw.
  destruct (lookup_run pp s pn HC Hg Hw) as (s1 & pn1 & A & B & C & D & E & F & G).
  exists s1, pn1. repeat (split; [assumption|]). split; [|exact G]. apply F. rewrite Er. exact Hd.
Qed.
Lemma do_lookup_vis_run (pp : path) (nm : name) s u pn m x ch t r :
  Coherent s -> upper s = Some u -> nget pp (root s) = Some pn -> node_stat s pn = Some (Dir m x ch) ->
  mstack (u :: lowers s) (pp ++ [nm]) = t :: r -> is_whT t = false ->
  exists s2 n, do_lookup pp (Some nm) s = (Ok (pp ++ [nm], t), s2) /\ Coherent s2 /\ sd s s2 /\
    nget (pp ++ [nm]) (root s2) = Some n.
Proof.
  intros HC Hu Hg Hst Hms Hnw.
  destruct (lookup_vis pp s pn m x ch HC Hg Hst) as (s1 & pn1 & HC1 & Hsd1 & Hg1 & Hw1 & Hr1 & Hld1 & Hlk).
  pose proof Hsd1 as (U1 & L1 & I1). assert (Hu1 : upper s1 = Some u) by congruence.
  assert (Hms1 : mstack (u :: lowers s1) (pp ++ [nm]) = t :: r) by (rewrite L1; exact Hms).
  pose proof HC1 as (_ & Hwl1 & HCT1). pose proof (HCT1 pp pn1 Hg1) as N1. cbn [app] in N1.
  destruct (ok_ld _ _ _ _ N1 Hld1) as (_ & _ & Kids).
  destruct (lstack_head_rel s1 u _ _ _ Hu1 Hms1) as (i0 & irest & Hl & He).
  destruct (afind nm (n_ch pn1)) as [c|] eqn:Ec.
  2:{ exfalso. apply Kids in Ec. rewrite <- lstack_snoc, Hl in Ec. discriminate. }
  pose proof (nget_snoc pp nm (root s1) pn1 c Hg1 Ec) as Hgq.
  destruct (cand_node s1 _ c i0 irest t HC1 Hgq Hl He) as (cr & crs & Ecr & _ & _ & _ & Hstc & Hwc & _).
  unfold do_lookup. specialize (Hlk (Some nm)). cbn beta iota in Hlk. rewrite Ec in Hlk. rewrite (bind_ok _ _ _ _ _ Hlk).
  rewrite (bind_ok _ _ _ _ _ (get_node_ok _ s1 c Hgq)). rewrite Hwc, Hnw.
  assert (Es : stat_node c s1 = (Ok t, s1)) by (unfold stat_node; rewrite Hstc; reflexivity).
  rewrite (bind_ok _ _ _ _ _ Es).
  assert (Hl2 : exists s2 n, load_if_dir (pp ++ [nm]) c t s1 = (Ok tt, s2) /\ nget (pp ++ [nm]) (root s2) = Some n).
  { unfold load_if_dir. destruct (is_dirT t) eqn:Ed; cbn [andb]; [|exists s1, c; cbn [ret]; auto].
    destruct (n_loaded c) eqn:Eld; cbn [negb]; [exists s1, c; cbn [ret]; auto|].
    unfold load_dir, bind, get_node. rewrite Hgq, Eld. destruct t; try discriminate.
    destruct (scan_ok s1 (wf_layers_wf s1 Hwl1) _ (pp ++ [nm]) c _ _ _ (HCT1 _ c Hgq) Hstc) as [cs Hcs]. rewrite Hcs. unfold mod_node.
    eexists. eexists. split; [reflexivity|]. cbn [root]. rewrite nget_nupd, Hgq. reflexivity. }
  destruct Hl2 as (s2 & n & El & Hn). rewrite (bind_ok _ _ _ _ _ El). cbn [ret].
  exists s2, n. split; [reflexivity|].
  split; [pose proof (cpres_load_if_dir (pp ++ [nm]) c t s1 HC1) as H; rewrite El in H; exact H|].
  split; [|exact Hn].
  apply (sd_trans s s1 s2); [exact Hsd1|].
  pose proof (keeps_sd (load_if_dir (pp ++ [nm]) c t) s1 (keeps_load_if_dir _ _ _)) as H. rewrite El in H. exact H.
Qed.

(* [visp L cur p]: walking [p] from [cur] every step finds a directory to look in and a first candidate that is not a whiteout *)
Fixpoint visp (L : list tree) (cur p : path) : Prop :=
  match p with
  | [] => True
  | c :: p' =>
      (exists m x ch r, mstack L cur = Dir m x ch :: r) /\
      (exists t r, mstack L (cur ++ [c]) = t :: r /\ is_whT t = false) /\ visp L (cur ++ [c]) p'
  end.
Lemma walk_vis_run u : forall (p cur : path) s n0, Coherent s -> upper s = Some u -> nget cur (root s) = Some n0 ->
  visp (u :: lowers s) cur p ->
  exists s1 n, walk_from cur p s = (Ok tt, s1) /\ Coherent s1 /\ sd s s1 /\ nget (cur ++ p) (root s1) = Some n.
Proof.
  induction p as [|c p IH]; intros cur s n0 HC Hu Hg Hv; cbn [walk_from].
  - rewrite app_nil_r. exists s, n0. split; [reflexivity|]. split; [exact HC|]. split; [apply sd_refl|exact Hg].
  - destruct Hv as ((m & x & ch & r & Hcur) & (t & r' & Hc & Hw) & Hv').
    pose proof (node_stat_head s u cur n0 _ _ HC Hu Hg Hcur) as Hst.
    destruct (do_lookup_vis_run cur c s u n0 m x ch t r' HC Hu Hg Hst Hc Hw) as (s2 & n & E & HC2 & Hsd2 & Hn).
    rewrite (bind_ok _ _ _ _ _ E).
    pose proof Hsd2 as (U2 & L2 & _). assert (Hu2 : upper s2 = Some u) by congruence.
    replace (cur ++ c :: p) with ((cur ++ [c]) ++ p) by (rewrite <- app_assoc; reflexivity).
    destruct (IH (cur ++ [c]) s2 n HC2 Hu2 Hn) as (s3 & n3 & E3 & HC3 & Hsd3 & Hn3); [rewrite L2; exact Hv'|].
    exists s3, n3. split; [exact E3|]. split; [exact HC3|]. split; [exact (sd_trans _ _ _ Hsd2 Hsd3)|exact Hn3].
Qed.

(* ------------------------------------------------------------------ copy_node_up of a visible directory *)
(* the hypothesis on the layers: every directory on the way that the upper layer lacks is, in its first candidate layer,
   a directory without user xattrs whose mode has only the bits mkdirat keeps *)
Definition cu_disk_ok (u : tree) (ls : list tree) (p : path) : Prop :=
  forall q, is_prefix q p -> tget u q = None ->
    exists md x ch r, mstack (u :: ls) q = Dir md x ch :: r /\ user_xs x = [] /\ N.land md 1023 = md.
Lemma cu_ok_of_disk s u (p : path) : Coherent s -> upper s = Some u -> cu_disk_ok u (lowers s) p -> cu_ok s p.
Proof.
  intros HC Hu Hd q n Hq Hg Hin. pose proof (not_upper_no_entry s u q n HC Hu Hg Hin) as Hn.
  destruct (Hd q Hq Hn) as (md & x & ch & r & Hms & Hx & Hm). exists md, x, ch.
  split; [exact (node_stat_head s u q n _ _ HC Hu Hg Hms)|auto].
Qed.
Lemma cnu_dir_run (p : path) s u n md x ch : Coherent s -> upper s = Some u -> nget p (root s) = Some n ->
  node_stat s n = Some (Dir md x ch) -> (List.length p < DEPTH)%nat -> cu_disk_ok u (lowers s) p ->
  exists s1 u1, copy_node_up p s = (Ok tt, s1) /\ Coherent s1 /\ upper s1 = Some u1 /\ lowers s1 = lowers s /\
    next_ino s1 = next_ino s /\ oteq (merge (u1 :: lowers s)) (merge (u :: lowers s)) /\ same_paths s s1 /\ upper_at' p s1.
Proof.
  intros HC Hu Hg Hst Hdep Hd.
  assert (Hnw : forall n0, nget p (root s) = Some n0 -> n_wh n0 = false).
  { intros n0 H0. rewrite Hg in H0. inversion H0; subst n0.
    destruct (node_first_real s p n HC Hg) as (r & rs & t & _ & _ & Hst' & _ & _ & _ & _ & Hw). rewrite Hst in Hst'. inversion Hst'; subst t. exact Hw. }
  assert (Hrun : exists s1, copy_node_up p s = (Ok tt, s1) /\ next_ino s1 = next_ino s /\
            oteq (merge (all_layers (upper s1) (lowers s1))) (merge (u :: lowers s))).
  { unfold copy_node_up. rewrite (bind_ok _ _ _ _ _ (get_node_ok p s n Hg)). destruct (in_upper n) eqn:Eup.
    - exists s. split; [reflexivity|]. split; [reflexivity|]. rewrite Hu. apply oteq_merge_refl. apply (coherent_wf_layers s u HC Hu).
    - assert (Es : stat_node n s = (Ok (Dir md x ch), s)) by (unfold stat_node; rewrite Hst; reflexivity).
      rewrite (bind_ok _ _ _ _ _ Es).
      apply (cud_run (List.length p) p s u n md x ch HC Hu Hg Hst); auto. apply (cu_ok_of_disk s u p HC Hu Hd). }
  destruct Hrun as (s1 & E & I1 & U1).
  destruct (cnu_coherent p s _ s1 HC Hnw E) as (HC1 & SP & L1 & _ & Up).
  pose proof HC1 as ([u1 Hu1] & _ & _). exists s1, u1.
  rewrite Hu1, L1 in U1. cbn [all_layers] in U1.
  split; [exact E|]. split; [exact HC1|]. split; [exact Hu1|]. split; [exact L1|]. split; [exact I1|]. split; [exact U1|]. split; [exact SP|].
  apply Up. reflexivity.
Qed.

(* what the parent looks like after its copy-up, read off the cache *)
Lemma parent_after_cu s1 s2 u2 (pp : path) (nm : name) pn1 :
  Coherent s1 -> Coherent s2 -> same_paths s1 s2 -> upper_at' pp s2 -> upper s2 = Some u2 ->
  nget pp (root s1) = Some pn1 -> n_loaded pn1 = true -> afind nm (n_ch pn1) = None ->
  exists pn2 pr prs m2 x2 ch2, nget pp (root s2) = Some pn2 /\ n_reals pn2 = pr :: prs /\ r_upper pr = true /\ r_layer pr = 0%nat /\
    r_path pr = pp /\ tget u2 pp = Some (Dir m2 x2 ch2) /\ mstack (u2 :: lowers s2) (pp ++ [nm]) = [].
Proof.
  intros HC1 HC2 SP Up Hu2 Hg1 Hld1 Hnone.
  destruct (same_paths_some s1 s2 pp pn1 SP Hg1) as (pn2 & Hg2 & Hsig). unfold nsig in Hsig. inversion Hsig as [[Hl2 Hf2]].
  pose proof (Up pn2 Hg2) as Hpu.
  destruct (node_first_real s2 pp pn2 HC2 Hg2) as (pr & prs & tp & Er & _ & Hstp & Hpath & Hupr & _ & Hd & _).
  assert (Hup : r_upper pr = true) by (unfold in_upper in Hpu; rewrite Er in Hpu; exact Hpu).
  assert (Hl0 : r_layer pr = 0%nat) by (rewrite Hup in Hupr; symmetry in Hupr; apply Nat.eqb_eq in Hupr; exact Hupr).
  pose proof HC1 as (_ & _ & HCT1). pose proof (HCT1 pp pn1 Hg1) as N1. cbn [app] in N1.
  destruct (ok_ld _ _ _ _ N1 Hld1) as (_ & Hfd1 & _).
  assert (Htp : is_dirT tp = true) by (rewrite <- Hd; rewrite Er in Hf2; cbn in Hf2; congruence).
  destruct tp as [m2 x2 ch2| | |]; try discriminate.
  pose proof (upper_dir_of_node s2 u2 pp pn2 _ HC2 Hu2 Hg2 Hpu Hstp) as Hpp2.
  assert (Hq1 : nget (pp ++ [nm]) (root s1) = None) by (apply (nget_snoc_none pp nm (root s1) pn1 Hg1 Hnone)).
  pose proof (same_paths_none s1 s2 _ SP Hq1) as Hq2.
  assert (Hnone2 : afind nm (n_ch pn2) = None).
  { destruct (afind nm (n_ch pn2)) as [c|] eqn:Ec; [|reflexivity]. rewrite (nget_snoc pp nm (root s2) pn2 c Hg2 Ec) in Hq2. discriminate. }
  pose proof HC2 as (_ & _ & HCT2). pose proof (HCT2 pp pn2 Hg2) as N2. cbn [app] in N2.
  assert (Hld2 : n_loaded pn2 = true) by congruence.
  destruct (ok_ld _ _ _ _ N2 Hld2) as (_ & _ & K2). apply K2 in Hnone2. rewrite <- lstack_snoc in Hnone2.
  pose proof (lstack_rel s2 u2 (pp ++ [nm]) Hu2) as R. rewrite Hnone2 in R. inversion R as [E|]; subst.
  exists pn2, pr, prs, m2, x2, ch2. repeat split; auto.
Qed.

(* ------------------------------------------------------------------ creation below a visible directory, with copy-up of the parent chain *)
Lemma lookup_absent_vis (pp : path) (nm : name) s u pn m x ch :
  Coherent s -> upper s = Some u -> nget pp (root s) = Some pn -> node_stat s pn = Some (Dir m x ch) ->
  mstack (u :: lowers s) (pp ++ [nm]) = [] ->
  exists s1 pn1, lookup_node_ignore_enoent pp nm s = (Ok None, s1) /\ Coherent s1 /\ sd s s1 /\
    nget pp (root s1) = Some pn1 /\ n_loaded pn1 = true /\ afind nm (n_ch pn1) = None /\ node_stat s1 pn1 = Some (Dir m x ch).
Proof.
  intros HC Hu Hg Hst Hms.
  destruct (lookup_vis pp s pn m x ch HC Hg Hst) as (s1 & pn1 & HC1 & Hsd1 & Hg1 & Hw1 & Hr1 & Hld1 & Hlk).
  pose proof Hsd1 as (U1 & L1 & I1). assert (Hu1 : upper s1 = Some u) by congruence.
  pose proof HC1 as (_ & _ & HCT1). pose proof (HCT1 pp pn1 Hg1) as N1. cbn [app] in N1.
  destruct (ok_ld _ _ _ _ N1 Hld1) as (_ & _ & Kids).
  assert (Ec : afind nm (n_ch pn1) = None).
  { apply Kids. apply (kids_nil_of_mstack s1 u pp nm Hu1). rewrite L1. exact Hms. }
  exists s1, pn1. unfold lookup_node_ignore_enoent. specialize (Hlk (Some nm)). cbn beta iota in Hlk. rewrite Ec in Hlk. rewrite Hlk.
  change (ENOENT =? ENOENT) with true. cbn iota.
  split; [reflexivity|]. split; [exact HC1|]. split; [exact Hsd1|]. split; [exact Hg1|]. split; [exact Hld1|]. split; [exact Ec|].
  destruct (node_stat_mstack s u pp pn _ HC Hu Hg Hst) as [r Hr].
  apply (node_stat_head s1 u pp pn1 _ r HC1 Hu1 Hg1). rewrite L1. exact Hr.
Qed.

(* facts about the upper directory after the copy-up that the union-level argument needs *)
Definition cu_post (u : tree) (ls : list tree) (pp : path) (nm : name) (u2 : tree) : Prop :=
  Forall wf (u2 :: ls) /\ oteq (merge (u2 :: ls)) (merge (u :: ls)) /\
  (exists m2 x2 ch2, tget u2 pp = Some (Dir m2 x2 ch2)) /\ mstack (u2 :: ls) (pp ++ [nm]) = [].

Lemma do_mkdir_cu_run (pp : path) (nm : name) mode s u pn m x ch :
  Coherent s -> upper s = Some u -> nget pp (root s) = Some pn -> node_stat s pn = Some (Dir m x ch) ->
  (List.length pp < DEPTH)%nat -> cu_disk_ok u (lowers s) pp -> mstack (u :: lowers s) (pp ++ [nm]) = [] ->
  exists s5 pn5 u2, do_mkdir pp nm mode s = (Ok tt, s5) /\ upper s5 = Some (tupd pp (dir_ins nm (Dir (N.land mode 1023) [] [])) u2) /\
    lowers s5 = lowers s /\ nget pp (root s5) = Some pn5 /\ cu_post u (lowers s) pp nm u2.
Proof.
  intros HC Hu Hg Hst Hdep Hcu Hms.
  destruct (node_first_real s pp pn HC Hg) as (r0 & rs0 & t0 & _ & _ & Hst0 & _ & _ & _ & _ & Hw). rewrite Hst in Hst0. inversion Hst0; subst t0. cbn in Hw.
  destruct (lookup_absent_vis pp nm s u pn m x ch HC Hu Hg Hst Hms) as (s1 & pn1 & Elk & HC1 & (U1 & L1 & I1) & Hg1 & Hld1 & Hnone1 & Hst1).
  assert (Hu1 : upper s1 = Some u) by congruence.
  destruct (cnu_dir_run pp s1 u pn1 m x ch HC1 Hu1 Hg1 Hst1 Hdep) as (s2 & u2 & Ecu & HC2 & Hu2 & L2 & I2 & U2 & SP & Up); [rewrite L1; exact Hcu|].
  destruct (parent_after_cu s1 s2 u2 pp nm pn1 HC1 HC2 SP Up Hu2 Hg1 Hld1 Hnone1) as (pn2 & pr & prs & m2 & x2 & ch2 & Hg2 & Er & Hup & Hl0 & Hpath & Hpp2 & Hms2).
  pose proof (mstack_nil_afind u2 (lowers s2) pp nm m2 x2 ch2 Hpp2 Hms2) as Hnone.
  set (c0 := Dir (N.land mode 1023) [] []).
  assert (E4 : ri_mkdir pr nm mode s2 = (Ok (mkReal 0 true (pp ++ [nm]) false false true), set_layer s2 0 (tupd pp (dir_ins nm c0) u2))).
  { unfold ri_mkdir, ri_guard. rewrite Hup. unfold bind at 1. cbn [ret]. unfold bind at 1. rewrite Hl0, Hpath.
    rewrite (mutate0_ok (h_mkdir pp nm mode) s2 u2 (tupd pp (dir_ins nm c0) u2) Hu2); [reflexivity|].
    unfold h_mkdir, h_insert. rewrite Hpp2, Hnone. reflexivity. }
  unfold do_mkdir. rewrite (bind_ok _ _ _ _ _ (need_upper_ok s u Hu)), (bind_ok _ _ _ _ _ (get_node_ok pp s pn Hg)), Hw.
  rewrite (bind_ok _ _ _ _ _ Elk).
  assert (Efl : ret (A := bool * bool) (false, false) s1 = (Ok (false, false), s1)) by reflexivity.
  rewrite (bind_ok _ _ _ _ _ Efl), (bind_ok _ _ _ _ _ Ecu).
  rewrite (bind_ok _ _ _ _ _ (get_node_ok pp s2 pn2 Hg2)), (bind_ok _ _ _ _ _ (upper_real_ok pn2 pr prs EINVAL s2 Er Hup)).
  assert (Er0 : ret tt s2 = (Ok tt, s2)) by reflexivity. rewrite (bind_ok _ _ _ _ _ Er0).
  rewrite (bind_ok _ _ _ _ _ E4).
  assert (Er1 : ret tt (set_layer s2 0 (tupd pp (dir_ins nm c0) u2)) = (Ok tt, set_layer s2 0 (tupd pp (dir_ins nm c0) u2))) by reflexivity.
  rewrite (bind_ok _ _ _ _ _ Er1).
  unfold insert_child, mod_node. eexists. eexists. exists u2. split; [reflexivity|]. cbn [upper lowers root set_layer].
  rewrite Hu2. split; [reflexivity|]. split; [congruence|]. split; [rewrite nget_nupd, Hg2; reflexivity|].
  assert (Ell : lowers s2 = lowers s) by congruence.
  split; [rewrite <- Ell; apply (coherent_wf_layers s2 u2 HC2 Hu2)|]. split; [rewrite <- L1; exact U2|]. split; [eauto|rewrite <- Ell; exact Hms2].
Qed.

Lemma do_make_cu_run (pp : path) (nm : name) mk cleaf s u pn m x ch :
  mk_spec pp nm mk cleaf -> (forall a b, next_ino b = next_ino a -> cleaf b = cleaf a) ->
  Coherent s -> upper s = Some u -> nget pp (root s) = Some pn -> node_stat s pn = Some (Dir m x ch) ->
  (List.length pp < DEPTH)%nat -> cu_disk_ok u (lowers s) pp -> mstack (u :: lowers s) (pp ++ [nm]) = [] ->
  exists s5 pn5 u2, do_make pp nm mk s = (Ok tt, s5) /\ upper s5 = Some (tupd pp (dir_ins nm (cleaf s)) u2) /\
    lowers s5 = lowers s /\ nget pp (root s5) = Some pn5 /\ cu_post u (lowers s) pp nm u2.
Proof.
  intros Hmk Hcl HC Hu Hg Hst Hdep Hcu Hms.
  destruct (node_first_real s pp pn HC Hg) as (r0 & rs0 & t0 & _ & _ & Hst0 & _ & _ & _ & _ & Hw). rewrite Hst in Hst0. inversion Hst0; subst t0. cbn in Hw.
  destruct (lookup_absent_vis pp nm s u pn m x ch HC Hu Hg Hst Hms) as (s1 & pn1 & Elk & HC1 & (U1 & L1 & I1) & Hg1 & Hld1 & Hnone1 & Hst1).
  assert (Hu1 : upper s1 = Some u) by congruence.
  destruct (cnu_dir_run pp s1 u pn1 m x ch HC1 Hu1 Hg1 Hst1 Hdep) as (s2 & u2 & Ecu & HC2 & Hu2 & L2 & I2 & U2 & SP & Up); [rewrite L1; exact Hcu|].
  destruct (parent_after_cu s1 s2 u2 pp nm pn1 HC1 HC2 SP Up Hu2 Hg1 Hld1 Hnone1) as (pn2 & pr & prs & m2 & x2 & ch2 & Hg2 & Er & Hup & Hl0 & Hpath & Hpp2 & Hms2).
  pose proof (mstack_nil_afind u2 (lowers s2) pp nm m2 x2 ch2 Hpp2 Hms2) as Hnone.
  destruct (Hmk pr s2 u2 Hup Hl0 Hpath Hu2) as [_ Hrun]. unfold h_insert in Hrun. rewrite Hpp2, Hnone in Hrun.
  destruct Hrun as (s4 & E4 & U4 & L4 & R4).
  unfold do_make. rewrite (bind_ok _ _ _ _ _ (need_upper_ok s u Hu)), (bind_ok _ _ _ _ _ (get_node_ok pp s pn Hg)), Hw.
  rewrite (bind_ok _ _ _ _ _ Elk), (bind_ok _ _ _ _ _ Ecu).
  rewrite (bind_ok _ _ _ _ _ (get_node_ok pp s2 pn2 Hg2)), (bind_ok _ _ _ _ _ (upper_real_ok pn2 pr prs EINVAL s2 Er Hup)).
  rewrite (bind_ok _ _ _ _ _ E4). unfold insert_child, mod_node. eexists. eexists. exists u2. split; [reflexivity|]. cbn [upper lowers root].
  rewrite (Hcl s s2) in U4 by congruence. split; [exact U4|]. split; [congruence|]. split; [rewrite R4, nget_nupd, Hg2; reflexivity|].
  assert (Ell : lowers s2 = lowers s) by congruence.
  split; [rewrite <- Ell; apply (coherent_wf_layers s2 u2 HC2 Hu2)|]. split; [rewrite <- L1; exact U2|]. split; [eauto|rewrite <- Ell; exact Hms2].
Qed.

Lemma parent_op_cu_run {A} (pre : path -> M A) (body : path -> name -> M unit) (pp : path) (nm : name) c s u m x ch r :
  Coherent s -> upper s = Some u -> visp (u :: lowers s) [] pp -> mstack (u :: lowers s) pp = Dir m x ch :: r -> is_whT c = false ->
  (forall s1 pn1, Coherent s1 -> sd s s1 -> nget pp (root s1) = Some pn1 ->
     exists s2 pn2 a, pre pp s1 = (Ok a, s2) /\ Coherent s2 /\ sd s1 s2 /\ nget pp (root s2) = Some pn2) ->
  (forall s2 pn2, Coherent s2 -> sd s s2 -> nget pp (root s2) = Some pn2 ->
     exists s5 pn5 u2, body pp nm s2 = (Ok tt, s5) /\ upper s5 = Some (tupd pp (dir_ins nm c) u2) /\ lowers s5 = lowers s /\
                       nget pp (root s5) = Some pn5 /\ cu_post u (lowers s) pp nm u2) ->
  (forall s0, Coherent s0 -> Coherent (snd (body pp nm s0))) ->
  exists s' u2, (walk pp ;;; (pre pp ;;; body pp nm ;;; entry_of pp nm)) s = (Ok (kind_of c), s') /\
    upper s' = Some (tupd pp (dir_ins nm c) u2) /\ lowers s' = lowers s /\ cu_post u (lowers s) pp nm u2.
Proof.
  intros HC Hu Hvis Hpp Hcw Hpre Hbody Hcp.
  destruct (walk_vis_run u pp [] s (root s) HC Hu eq_refl Hvis) as (s1 & n1 & E1 & HC1 & Hsd1 & Hg1). cbn [app] in Hg1.
  destruct (Hpre s1 n1 HC1 Hsd1 Hg1) as (s2 & pn2 & a & E2 & HC2 & Hsd2 & Hg2).
  pose proof (sd_trans _ _ _ Hsd1 Hsd2) as Hsd02.
  destruct (Hbody s2 pn2 HC2 Hsd02 Hg2) as (s5 & pn5 & u2 & E5 & U5 & L5 & Hg5 & Hpost).
  assert (HC5 : Coherent s5) by (pose proof (Hcp s2 HC2) as H; rewrite E5 in H; exact H).
  destruct Hpost as (W2 & M2 & (m2 & x2 & ch2 & Hpp2) & Hms2).
  assert (Hpp5 : tget (tupd pp (dir_ins nm c) u2) pp = Some (Dir m2 x2 (aset nm c ch2))) by (rewrite tget_tupd, Hpp2; reflexivity).
  destruct (entry_run pp nm s5 _ pn5 m2 x2 _ c HC5 U5 Hg5 Hpp5 (afind_aset_same nm c ch2) Hcw) as (s6 & E6 & _ & (U6 & L6 & _)).
  exists s6, u2. unfold walk. rewrite (bind_ok _ _ _ _ _ E1), (bind_ok _ _ _ _ _ E2), (bind_ok _ _ _ _ _ E5), E6.
  split; [reflexivity|]. split; [congruence|]. split; [congruence|]. unfold cu_post. eauto 10.
Qed.

Lemma pre_sync_vis (pp : path) s u m x ch r : upper s = Some u -> mstack (u :: lowers s) pp = Dir m x ch :: r ->
  forall s1 pn1, Coherent s1 -> sd s s1 -> nget pp (root s1) = Some pn1 ->
     exists s2 pn2 a, sync_parent pp s1 = (Ok a, s2) /\ Coherent s2 /\ sd s1 s2 /\ nget pp (root s2) = Some pn2.
Proof.
  intros Hu Hpp s1 pn1 HC1 (U1 & L1 & _) Hg1. assert (Hu1 : upper s1 = Some u) by congruence.
  assert (Hst : node_stat s1 pn1 = Some (Dir m x ch)) by (apply (node_stat_head s1 u pp pn1 _ r HC1 Hu1 Hg1); rewrite L1; exact Hpp).
  destruct (lookup_vis pp s1 pn1 m x ch HC1 Hg1 Hst) as (s2 & pn2 & HC2 & Hsd & Hg2 & Hw2 & _ & _ & Hlk).
  exists s2, pn2, tt. unfold sync_parent. rewrite (bind_ok _ _ _ _ _ (Hlk None)), (bind_ok _ _ _ _ _ (get_node_ok pp s2 pn2 Hg2)), Hw2. auto.
Qed.
Lemma pre_lookup_vis (pp : path) s u m x ch r : upper s = Some u -> mstack (u :: lowers s) pp = Dir m x ch :: r ->
  forall s1 pn1, Coherent s1 -> sd s s1 -> nget pp (root s1) = Some pn1 ->
     exists s2 pn2 a, lookup_node pp None s1 = (Ok a, s2) /\ Coherent s2 /\ sd s1 s2 /\ nget pp (root s2) = Some pn2.
Proof.
  intros Hu Hpp s1 pn1 HC1 (U1 & L1 & _) Hg1. assert (Hu1 : upper s1 = Some u) by congruence.
  assert (Hst : node_stat s1 pn1 = Some (Dir m x ch)) by (apply (node_stat_head s1 u pp pn1 _ r HC1 Hu1 Hg1); rewrite L1; exact Hpp).
  destruct (lookup_vis pp s1 pn1 m x ch HC1 Hg1 Hst) as (s2 & pn2 & HC2 & Hsd & Hg2 & Hw2 & _ & _ & Hlk).
  exists s2, pn2, pp. split; [exact (Hlk None)|]. auto.
Qed.

Lemma step_ins_cu_run o (pp : path) (nm : name) c s u m x ch r :
  ins_leaf o (next_ino s) = Some (pp ++ [nm], c) ->
  Coherent s -> upper s = Some u -> visp (u :: lowers s) [] pp -> mstack (u :: lowers s) pp = Dir m x ch :: r ->
  (List.length pp < DEPTH)%nat -> cu_disk_ok u (lowers s) pp -> mstack (u :: lowers s) (pp ++ [nm]) = [] ->
  exists s' u2, step o s = (Ok (kind_of c), s') /\ upper s' = Some (tupd pp (dir_ins nm c) u2) /\ lowers s' = lowers s /\
    cu_post u (lowers s) pp nm u2.
Proof.
  intros Ho HC Hu Hvis Hpp Hdep Hcu Hms.
  assert (Hbody_mk : forall mk cleaf, mk_spec pp nm mk cleaf -> (forall a b, next_ino b = next_ino a -> cleaf b = cleaf a) ->
     forall s2 pn2, Coherent s2 -> sd s s2 -> nget pp (root s2) = Some pn2 ->
     exists s5 pn5 u2, do_make pp nm mk s2 = (Ok tt, s5) /\ upper s5 = Some (tupd pp (dir_ins nm (cleaf s)) u2) /\ lowers s5 = lowers s /\
                       nget pp (root s5) = Some pn5 /\ cu_post u (lowers s) pp nm u2).
  { intros mk cleaf Hmk Hcl s2 pn2 HC2 (U2 & L2 & I2) Hg2. assert (Hu2 : upper s2 = Some u) by congruence.
    assert (Hst : node_stat s2 pn2 = Some (Dir m x ch)) by (apply (node_stat_head s2 u pp pn2 _ r HC2 Hu2 Hg2); rewrite L2; exact Hpp).
    destruct (do_make_cu_run pp nm mk cleaf s2 u pn2 m x ch Hmk Hcl HC2 Hu2 Hg2 Hst Hdep) as (s5 & pn5 & u2 & E & U5 & L5 & Hg5 & Hpost); try (rewrite L2; assumption).
    exists s5, pn5, u2. rewrite (Hcl s s2 I2) in U5. rewrite L2 in Hpost. split; [exact E|]. split; [exact U5|]. split; [congruence|]. split; [exact Hg5|exact Hpost]. }
  destruct o; cbn [ins_leaf] in Ho; inversion Ho; subst; cbn [step]; rewrite with_parent_snoc.
  - apply (parent_op_cu_run sync_parent (fun pp nm => do_make pp nm (fun pr => ri_create pr nm mode)) pp nm (File (next_ino s) (N.land mode 4095) [] []) s u m x ch r HC Hu Hvis Hpp eq_refl).
    + apply (pre_sync_vis pp s u m x ch r Hu Hpp).
    + apply (Hbody_mk _ (fun s => File (next_ino s) (N.land mode 4095) [] []) (mk_spec_create pp nm mode)). intros a b E. rewrite E. reflexivity.
    + intros s0 HC0. apply (cpres_do_make pp nm _ _ (mk_spec_create pp nm mode)). exact HC0.
  - apply (parent_op_cu_run sync_parent (fun pp nm => do_mkdir pp nm mode) pp nm (Dir (N.land mode 1023) [] []) s u m x ch r HC Hu Hvis Hpp eq_refl).
    + apply (pre_sync_vis pp s u m x ch r Hu Hpp).
    + intros s2 pn2 HC2 (U2 & L2 & I2) Hg2. assert (Hu2 : upper s2 = Some u) by congruence.
      assert (Hst : node_stat s2 pn2 = Some (Dir m x ch)) by (apply (node_stat_head s2 u pp pn2 _ r HC2 Hu2 Hg2); rewrite L2; exact Hpp).
      destruct (do_mkdir_cu_run pp nm mode s2 u pn2 m x ch HC2 Hu2 Hg2 Hst Hdep) as (s5 & pn5 & u2 & E & U5 & L5 & Hg5 & Hpost); try (rewrite L2; assumption).
      exists s5, pn5, u2. rewrite L2 in Hpost. split; [exact E|]. split; [exact U5|]. split; [congruence|]. split; [exact Hg5|exact Hpost].
    + intros s0 HC0. apply cpres_do_mkdir. exact HC0.
  - apply (parent_op_cu_run sync_parent (fun pp nm => do_make pp nm (fun pr => ri_create pr nm mode)) pp nm (File (next_ino s) (N.land mode 4095) [] []) s u m x ch r HC Hu Hvis Hpp eq_refl).
    + apply (pre_sync_vis pp s u m x ch r Hu Hpp).
    + apply (Hbody_mk _ (fun s => File (next_ino s) (N.land mode 4095) [] []) (mk_spec_create pp nm mode)). intros a b E. rewrite E. reflexivity.
    + intros s0 HC0. apply (cpres_do_make pp nm _ _ (mk_spec_create pp nm mode)). exact HC0.
  - apply (parent_op_cu_run (fun pp => lookup_node pp None) (fun pp nm => do_make pp nm (fun pr => ri_symlink pr nm target)) pp nm (Lnk target) s u m x ch r HC Hu Hvis Hpp eq_refl).
    + apply (pre_lookup_vis pp s u m x ch r Hu Hpp).
    + apply (Hbody_mk _ (fun _ => Lnk target) (mk_spec_symlink pp nm target)). reflexivity.
    + intros s0 HC0. apply (cpres_do_make pp nm _ _ (mk_spec_symlink pp nm target)). exact HC0.
Qed.

(* ------------------------------------------------------------------ refinement: creation below a directory that needs copy-up *)
Theorem refines_insert_cu s o (pp : path) (nm : name) c u m x ch r v :
  Coherent s -> ins_leaf o (next_ino s) = Some (pp ++ [nm], c) -> upper s = Some u ->
  visp (u :: lowers s) [] pp -> mstack (u :: lowers s) pp = Dir m x ch :: r -> cu_disk_ok u (lowers s) pp ->
  mstack (u :: lowers s) (pp ++ [nm]) = [] ->
  (List.length (pp ++ [nm]) < DEPTH)%nat -> view (load_all s) = Some v -> refines_at s o v.
Proof.
  intros HC Ho Hu Hvis Hpp Hcu Hms Hlen Hv.
  assert (Hdep : (List.length pp < DEPTH)%nat) by (rewrite app_length in Hlen; cbn in Hlen; lia).
  destruct (step_ins_cu_run o pp nm c s u m x ch r Ho HC Hu Hvis Hpp Hdep Hcu Hms) as (s' & u2 & Hrun & Hu' & Hl' & (W2 & M2 & (m2 & x2 & ch2 & Hpp2) & Hms2)).
  unfold refines_at, run_op. rewrite Hrun. cbn [fst snd].
  assert (Hd : exists f, DEPTH = (S (S f) + List.length pp)%nat).
  { rewrite app_length in Hlen. cbn [List.length] in Hlen. exists (DEPTH - 2 - List.length pp)%nat. lia. }
  destruct Hd as [f Hd].
  pose proof (ins_leaf_plain _ _ _ _ Ho) as Hc.
  destruct (refine_from_disk s o v _ s' HC (ins_leaf_coh _ _ _ _ Ho) Hv Hrun) as [R T]; [|cbv zeta; auto].
  intros mv Hm. rewrite Hu in Hm. cbn [all_layers] in Hm. rewrite Hu', Hl'. cbn [all_layers]. cbv zeta.
  rewrite Hm in M2. destruct (merge (u2 :: lowers s)) as [mv2|] eqn:Hm2; [|contradiction]. cbn [oteq] in M2.
  destruct (ins_merge u2 (lowers s) pp nm m2 x2 ch2 c f W2 Hpp2 Hms2 Hc Hd mv2 Hm2) as [M I].
  destruct (fs_apply_ins o (next_ino s) pp nm c mv2 _ Ho I) as [F1 F2].
  destruct (fs_apply_teq o mv2 mv (next_ino s) M2) as (R2 & T2 & _). rewrite F1 in R2. rewrite F2 in T2.
  split; [exact R2|]. apply (oteq_trans _ (Some (tupd pp (dir_ins nm c) mv2))); [exact M|exact T2].
Qed.

(* ------------------------------------------------------------------ copy_node_up of a directory does not change the view *)
Theorem copy_up_dir_neutral s (p : path) u n md x ch :
  Coherent s -> upper s = Some u -> nget p (root s) = Some n -> node_stat s n = Some (Dir md x ch) ->
  (List.length p < DEPTH)%nat -> cu_disk_ok u (lowers s) p ->
  let s1 := snd (copy_node_up p s) in
  fst (copy_node_up p s) = Ok tt /\ Coherent s1 /\ lowers s1 = lowers s /\ oteq (view (load_all s1)) (view (load_all s)) /\
  (forall n1, nget p (root s1) = Some n1 -> in_upper n1 = true).
Proof.
  intros HC Hu Hg Hst Hdep Hcu. cbv zeta.
  destruct (cnu_dir_run p s u n md x ch HC Hu Hg Hst Hdep Hcu) as (s1 & u1 & E & HC1 & Hu1 & L1 & _ & U1 & _ & Up).
  rewrite E. cbn [fst snd]. split; [reflexivity|]. split; [exact HC1|]. split; [exact L1|]. split; [|exact Up].
  pose proof (coherent_view_union s HC) as A. pose proof (coherent_view_union s1 HC1) as B.
  rewrite Hu in A. rewrite Hu1, L1 in B. cbn [all_layers] in A, B.
  apply (oteq_trans _ (merge (u1 :: lowers s))); [apply oteq_sym; exact B|]. apply (oteq_trans _ (merge (u :: lowers s))); [exact U1|exact A].
Qed.

(* ------------------------------------------------------------------ boolean side conditions *)
Fixpoint visb (L : list tree) (cur p : path) : bool :=
  match p with
  | [] => true
  | c :: p' =>
      match mstack L cur with Dir _ _ _ :: _ => true | _ => false end &&
      match mstack L (cur ++ [c]) with t :: _ => negb (is_whT t) | [] => false end && visb L (cur ++ [c]) p'
  end.
Lemma visb_visp L : forall p cur, visb L cur p = true -> visp L cur p.
Proof.
  induction p as [|c p IH]; intros cur H; cbn [visb visp] in *; [exact I|].
  apply andb_prop in H. destruct H as [H H3]. apply andb_prop in H. destruct H as [H1 H2].
  split; [|split; [|apply IH; exact H3]].
  - destruct (mstack L cur) as [|[m x ch| | |] r]; try discriminate. eauto.
  - destruct (mstack L (cur ++ [c])) as [|t r]; [discriminate|]. exists t, r. split; [reflexivity|]. apply negb_true_iff. exact H2.
Qed.
Fixpoint prefixes (p : path) : list path := match p with [] => [[]] | k :: r => [] :: map (cons k) (prefixes r) end.
Lemma prefixes_in : forall (p q : path), is_prefix q p -> In q (prefixes p).
Proof.
  induction p as [|k p IH]; intros q [r Hr]; cbn [prefixes].
  - destruct q; [left; reflexivity|discriminate].
  - destruct q as [|a q]; [left; reflexivity|]. right. cbn [app] in Hr. injection Hr as Ha Hp. rewrite <- Ha. apply in_map. apply IH. exists r. exact Hp.
Qed.
Definition cu_okb (u : tree) (ls : list tree) (p : path) : bool :=
  forallb (fun q => match tget u q with
                    | Some _ => true
                    | None => match mstack (u :: ls) q with
                              | Dir md x _ :: _ => match user_xs x with [] => true | _ => false end && (N.land md 1023 =? md)
                              | _ => false
                              end
                    end) (prefixes p).
Lemma cu_okb_ok u ls p : cu_okb u ls p = true -> cu_disk_ok u ls p.
Proof.
  intros H q Hq Hn. unfold cu_okb in H. rewrite forallb_forall in H. specialize (H q (prefixes_in p q Hq)). cbv beta in H. rewrite Hn in H.
  destruct (mstack (u :: ls) q) as [|[md x ch| | |] r]; try discriminate. apply andb_prop in H. destruct H as [H1 H2].
  exists md, x, ch, r. split; [reflexivity|]. split; [destruct (user_xs x); [reflexivity|discriminate]|apply N.eqb_eq; exact H2].
Qed.

(* [direct_cu s o]: mkdir / create / mknod / symlink of a name that has no candidate in any layer, below a directory that is
   visible (every component is found through a directory and is not a whiteout) but may exist in lower layers only:
   the missing upper directories are created first (copy-up).  [cu_okb]: every directory on the way that the upper layer lacks
   has, in its first candidate layer, no user xattrs and a mode within 01777. *)
Definition direct_cu (s : state) (o : op) : bool :=
  match upper s with
  | None => false
  | Some u =>
      let L := u :: lowers s in
      match o with
      | OMkdir p _ | OCreate p _ | OMknod p _ | OSymlink p _ =>
          match split_last p with
          | Some (pp, nm) =>
              (List.length p <? DEPTH)%nat && visb L [] pp && match mstack L pp with Dir _ _ _ :: _ => true | _ => false end &&
              cu_okb u (lowers s) pp && no_cand L p
          | None => false
          end
      | _ => false
      end
  end.

Theorem op_refines_copyup s o v : Coherent s -> direct_cu s o = true -> view (load_all s) = Some v -> refines_at s o v.
Proof.
  intros HC Hd Hv. unfold direct_cu in Hd. destruct (upper s) as [u|] eqn:Hu; [|discriminate]. cbv zeta in Hd.
  assert (Hins : forall p, match split_last p with
          | Some (pp, nm) => (List.length p <? DEPTH)%nat && visb (u :: lowers s) [] pp && match mstack (u :: lowers s) pp with Dir _ _ _ :: _ => true | _ => false end &&
              cu_okb u (lowers s) pp && no_cand (u :: lowers s) p
          | None => false end = true -> forall c, ins_leaf o (next_ino s) = Some (p, c) -> refines_at s o v).
  { intros p H c Ho. destruct (split_last p) as [[pp nm]|] eqn:Esp; [|discriminate]. apply split_last_spec in Esp. subst p.
    apply andb_prop in H. destruct H as [H H5]. apply andb_prop in H. destruct H as [H H4]. apply andb_prop in H. destruct H as [H H3].
    apply andb_prop in H. destruct H as [H1 H2]. apply Nat.ltb_lt in H1.
    destruct (mstack (u :: lowers s) pp) as [|[m x ch| | |] r] eqn:Hpp; try discriminate.
    unfold no_cand in H5. destruct (mstack (u :: lowers s) (pp ++ [nm])) eqn:Hms; [|discriminate].
    exact (refines_insert_cu s o pp nm c u m x ch r v HC Ho Hu (visb_visp _ _ _ H2) Hpp (cu_okb_ok _ _ _ H4) Hms H1 Hv). }
  destruct o; try discriminate; apply (Hins p Hd _ eq_refl).
Qed.
Theorem op_refines_copyup_history u ls nx ops o : Forall layer_ok (u :: ls) -> coh_history ops = true ->
  direct_cu (run_dumps ops (load_all (fresh (Some u) ls nx))) o = true -> op_refines (Some u) ls nx ops o.
Proof.
  intros Hok Hh Hd. unfold op_refines. cbv zeta. set (s := run_dumps ops (load_all (fresh (Some u) ls nx))) in *.
  assert (HC : Coherent (load_all s)).
  { apply load_all_coherent. apply coherent_history; [exact Hh|]. apply load_all_coherent. apply fresh_coherent. exact Hok. }
  destruct (view (load_all s)) as [v|] eqn:Hv; [|exact I].
  assert (Hv' : view (load_all (load_all s)) = Some v).
  { rewrite <- Hv. apply (view_load_all_vs s (root (load_all s))); try reflexivity.
    unfold load_all. cbn [root]. apply load_node_vs. }
  assert (Hd' : direct_cu (load_all s) o = true) by exact Hd.
  destruct (op_refines_copyup (load_all s) o v HC Hd' Hv') as (R & T & _).
  split; [exact R|]. change (ser SER ?t) with (ser_opt (Some t)). apply oteq_ser. exact T.
Qed.
