(* Routing: every call that reaches a backend goes to the backend mounted in the slot the inode
   number names, with that backend's own inode number; vacant slots reach nobody; operations
   spanning two mounts are refused; methods the Vfs does not implement reach nobody. *)
From Coq Require Import List NArith Bool Lia.
From FB Require Import Model.Pseudo Gen.VfsTable Model.Vfs Proofs.VfsCodec Proofs.VfsAlloc Proofs.VfsInv.
Import ListNotations.
Local Open Scope N_scope.

(* who must serve a request naming [n]: (backend, mount index, the backend's inode number) *)
Definition eff (s : vfs) (n : N) : option (N * N * N) :=
  if fs_idx n =? 0 then
    if ino_of n =? ROOT_ID then
      match aget ROOT_ID (v_mps s) with
      | Some mnt => match aget (mp_idx mnt) (v_sb s) with
                    | Some b => Some (b, mp_idx mnt, mp_ino mnt)
                    | None => None
                    end
      | None => None
      end
    else None
  else match aget (fs_idx n) (v_sb s) with
       | Some b => Some (b, fs_idx n, ino_of n)
       | None => None
       end.

Definition vacant (s : vfs) (n : N) : Prop := fs_idx n <> 0 /\ aget (fs_idx n) (v_sb s) = None.

Lemma lnot_max : N.lnot VFS_MAX_INO 64 = N.shiftl 255 56. Proof. reflexivity. Qed.

Lemma assert_passes x : x <= VFS_MAX_INO -> N.land x (N.lnot VFS_MAX_INO 64) =? 0 = true.
Proof.
  intros H. apply N.eqb_eq. rewrite lnot_max, N.land_comm. apply land_shiftl_small.
  rewrite max_ino_two56 in H. unfold two56 in *. lia.
Qed.

Lemma grr_cases s n : wf s ->
  (exists b idx id, get_real_rootfs s n = Ok (SRight b idx id) /\ eff s n = Some (b, idx, ino_of id) /\
                    fs_idx id = idx /\ 0 < idx < 256 /\ aget idx (v_sb s) = Some b) \/
  (get_real_rootfs s n = Ok (SLeft n) /\ eff s n = None /\ fs_idx n = 0) \/
  (get_real_rootfs s n = Err ENOENT /\ eff s n = None /\ vacant s n).
Proof.
  intros W. unfold get_real_rootfs, eff.
  destruct (fs_idx n =? 0) eqn:E0.
  - apply N.eqb_eq in E0.
    destruct (ino_of n =? ROOT_ID) eqn:E1; [|right; left; auto].
    destruct (aget ROOT_ID (v_mps s)) as [mnt|] eqn:Em; [|right; left; auto].
    destruct (wf_mp s W _ _ Em) as (Hi & Hino & _ & _ & Hatt).
    unfold get_fs_by_idx. destruct (aget (mp_idx mnt) (v_sb s)) as [b|] eqn:Eb; [|contradiction].
    cbn [bind]. rewrite (assert_passes _ Hino).
    left. exists b, (mp_idx mnt), (mk_vino (mp_idx mnt) (mp_ino mnt)).
    rewrite ino_of_mk by exact Hino. rewrite fs_idx_mk by (try lia; exact Hino). auto.
  - apply N.eqb_neq in E0. unfold get_fs_by_idx.
    destruct (aget (fs_idx n) (v_sb s)) as [b|] eqn:Eb; cbn [bind].
    + left. exists b, (fs_idx n), n. repeat split; try reflexivity; try assumption.
      * apply (wf_sb s W _ _ Eb).
      * apply (wf_sb s W _ _ Eb).
    + right. right. unfold vacant. auto.
Qed.

Lemma grr_no_panic s n : wf s -> get_real_rootfs s n <> Panic.
Proof.
  intros W. destruct (grr_cases s n W) as [(b & idx & id & E & _) | [(E & _) | (E & _)]]; rewrite E; discriminate.
Qed.

(* ---------- what an event must look like ---------- *)
Definition op_method (o : op) : N :=
  match o with
  | OLookup _ _ => m_lookup | OForget _ => m_forget | OBatchForget _ _ => m_forget
  | OGetattr _ => m_getattr | OSetattr _ _ _ _ => m_setattr | OFwd m _ _ => m
  | ORename _ _ _ _ => m_rename | OLink _ _ _ => m_link
  | OReaddir plus _ _ _ _ => if plus then m_readdirplus else m_readdir
  | OUnfwd m => m
  end.

Definition ev_one (s : vfs) (n : N) (ev : event) : Prop :=
  exists b idx i, eff s n = Some (b, idx, i) /\ ev_bid ev = b /\ ev_ino ev = i.
Definition ev_two (s : vfs) (n1 n2 : N) (ev : event) : Prop :=
  exists b idx i1 i2, eff s n1 = Some (b, idx, i1) /\ eff s n2 = Some (b, idx, i2) /\
                      ev_bid ev = b /\ ev_ino ev = i1 /\ ev_ino2 ev = i2.

Definition routed (s : vfs) (o : op) (ev : event) : Prop :=
  ev_m ev = op_method o /\
  match o with
  | OLookup n _ | OForget n | OGetattr n | OSetattr n _ _ _ | OFwd _ n _ | OReaddir _ n _ _ _ => ev_one s n ev /\ ev_ino2 ev = 0
  | OBatchForget n1 n2 => (ev_one s n1 ev \/ ev_one s n2 ev) /\ ev_ino2 ev = 0
  | ORename n1 _ n2 _ | OLink n1 n2 _ => ev_two s n1 n2 ev
  | OUnfwd _ => False
  end.

Ltac grr W n :=
  let b := fresh "b" in let idx := fresh "idx" in let id := fresh "id" in
  let E := fresh "Eg" in let Ee := fresh "Ee" in let Hf := fresh "Hf" in let Hi := fresh "Hi" in let Hs := fresh "Hs" in
  destruct (grr_cases _ n W) as [(b & idx & id & E & Ee & Hf & Hi & Hs) | [(E & Ee & Hf) | (E & Ee & Hf)]];
  rewrite E in *.

Lemma one_ev s n b idx id c m : eff s n = Some (b, idx, ino_of id) ->
  ev_one s n (evc b m (ino_of id) 0 c).
Proof. intros H. exists b, idx, (ino_of id). auto. Qed.

Lemma Forall_one {A} (P : A -> Prop) x : P x -> Forall P [x].
Proof. intros H. constructor; [exact H|constructor]. Qed.

Ltac fin H := inversion H; subst; clear H.
Ltac nil H := fin H; constructor.

Theorem routing : forall s c o a r evs, wf s -> vfs_op s c o a = (r, evs) -> Forall (routed s o) evs.
Proof.
  intros s c o a r evs W H. destruct o; cbn [vfs_op] in H.
  - (* lookup *)
    destruct (has_slash nm); [nil H|].
    grr W parent; [|nil H|nil H].
    fin H. apply Forall_one. split; [reflexivity|]. split; [eapply one_ev; eassumption|reflexivity].
  - (* forget *)
    grr W ino; [|nil H|nil H].
    fin H. apply Forall_one. split; [reflexivity|]. split; [eapply one_ev; eassumption|reflexivity].
  - (* batch forget *)
    assert (F : forall n, exists p e, forget_one s c n = (p, e) /\
                 Forall (fun ev => ev_m ev = m_forget /\ ev_one s n ev /\ ev_ino2 ev = 0) e).
    { intros n. unfold forget_one. grr W n; eexists; eexists; (split; [reflexivity|]); [|constructor|constructor].
      apply Forall_one. split; [reflexivity|]. split; [eapply one_ev; eassumption|reflexivity]. }
    destruct (F ino1) as (p1 & e1 & E1 & F1). destruct (F ino2) as (p2 & e2 & E2 & F2).
    rewrite E1 in H. destruct p1.
    + fin H. eapply Forall_impl; [|exact F1]. intros ev (A & B & C). split; [exact A|]. split; [left; exact B|exact C].
    + rewrite E2 in H. assert (evs = e1 ++ e2) by (destruct p2; inversion H; reflexivity). subst evs.
      apply Forall_app. split.
      * eapply Forall_impl; [|exact F1]. intros ev (A & B & C). split; [exact A|]. split; [left; exact B|exact C].
      * eapply Forall_impl; [|exact F2]. intros ev (A & B & C). split; [exact A|]. split; [right; exact B|exact C].
  - (* getattr *)
    grr W ino; [|nil H|nil H].
    fin H. apply Forall_one. split; [reflexivity|]. split; [eapply one_ev; eassumption|reflexivity].
  - (* setattr *)
    grr W ino; [|nil H|nil H].
    destruct (to_int (effective_mapping s idx) uid); [|nil H].
    destruct (to_int (effective_mapping s idx) gid); [|nil H].
    fin H. apply Forall_one. split; [reflexivity|]. split; [|reflexivity]. do 3 eexists. split; [eassumption|]. auto.
  - (* table driven *)
    destruct (aget m forward_table) as [[[[validate g] is_entry] ret_unit]|]; [|nil H].
    destruct (validate && negb (name_safe nm)); [nil H|].
    destruct (gate_closed s g); [nil H|].
    grr W ino; [|nil H|nil H].
    fin H. apply Forall_one. split; [reflexivity|]. split; [eapply one_ev; eassumption|reflexivity].
  - (* rename *)
    destruct (negb (name_safe oldname) || negb (name_safe newname)); [nil H|].
    grr W olddir; [| |nil H].
    + grr W newdir; [| |nil H].
      * destruct (negb (fs_idx id =? fs_idx id0)) eqn:Ef; [nil H|].
        apply negb_false_iff, N.eqb_eq in Ef.
        fin H. apply Forall_one. split; [reflexivity|].
        exists b, (fs_idx id), (ino_of id), (ino_of id0). rewrite Ef in *.
        assert (b0 = b) by congruence. subst b0. auto.
      * destruct (negb (fs_idx id =? fs_idx newdir)) eqn:Ef; [nil H|].
        apply negb_false_iff, N.eqb_eq in Ef. lia.
    + grr W newdir; [| |nil H].
      * destruct (negb (fs_idx olddir =? fs_idx id)); nil H.
      * destruct (negb (fs_idx olddir =? fs_idx newdir)); nil H.
  - (* link *)
    destruct (negb (name_safe nm)); [nil H|].
    grr W ino; [| |nil H].
    + grr W newparent; [| |nil H].
      * destruct (negb (fs_idx id =? fs_idx id0)) eqn:Ef; [nil H|].
        apply negb_false_iff, N.eqb_eq in Ef.
        fin H. apply Forall_one. split; [reflexivity|].
        exists b, (fs_idx id), (ino_of id), (ino_of id0). rewrite Ef in *.
        assert (b0 = b) by congruence. subst b0. auto.
      * destruct (negb (fs_idx id =? fs_idx newparent)) eqn:Ef; [nil H|].
        apply negb_false_iff, N.eqb_eq in Ef. lia.
    + grr W newparent; [| |nil H].
      * destruct (negb (fs_idx ino =? fs_idx id)); nil H.
      * destruct (negb (fs_idx ino =? fs_idx newparent)); nil H.
  - (* readdir *)
    grr W ino; [|nil H|nil H].
    fin H. apply Forall_one. split; [destruct plus; reflexivity|]. split; [eapply one_ev; eassumption|reflexivity].
  - (* not forwarded *)
    nil H.
Qed.

(* at most one backend call per request (two for batch_forget's two inodes) *)
Theorem one_call : forall s c o a r evs, vfs_op s c o a = (r, evs) ->
  (length evs <= match o with OBatchForget _ _ => 2 | _ => 1 end)%nat.
Proof.
  intros s c o a r evs H.
  destruct o; cbn [vfs_op] in H.
  - destruct (has_slash nm); [fin H; cbn; lia|].
    destruct (get_real_rootfs s parent) as [[?|? ? ?]| |]; fin H; cbn; lia.
  - destruct (get_real_rootfs s ino) as [[?|? ? ?]| |]; fin H; cbn; lia.
  - idtac.
    assert (F : forall n, (length (snd (forget_one s c n)) <= 1)%nat).
    { intros n. unfold forget_one. destruct (get_real_rootfs s n) as [[?|? ? ?]| |]; cbn; lia. }
  pose proof (F ino1) as F1. pose proof (F ino2) as F2.
  destruct (forget_one s c ino1) as [p1 e1]. destruct (forget_one s c ino2) as [p2 e2]. cbn [snd] in *.
  destruct p1; [fin H; lia|]. destruct p2; fin H; rewrite app_length; lia.
  - destruct (get_real_rootfs s ino) as [[?|? ? ?]| |]; fin H; cbn; lia.
  - destruct (get_real_rootfs s ino) as [[?|? ? ?]| |]; [fin H; cbn; lia| |fin H; cbn; lia|fin H; cbn; lia].
    destruct (to_int (effective_mapping s idx) uid); [|fin H; cbn; lia].
    destruct (to_int (effective_mapping s idx) gid); fin H; cbn; lia.
  - destruct (aget m forward_table) as [[[[validate g] is_entry] ret_unit]|]; [|fin H; cbn; lia].
    destruct (validate && negb (name_safe nm)); [fin H; cbn; lia|].
    destruct (gate_closed s g); [fin H; cbn; lia|].
    destruct (get_real_rootfs s ino) as [[?|? ? ?]| |]; fin H; cbn; lia.
  - destruct (negb (name_safe oldname) || negb (name_safe newname)); [fin H; cbn; lia|].
    destruct (get_real_rootfs s olddir) as [so| |]; [|fin H; cbn; lia|fin H; cbn; lia].
    destruct (get_real_rootfs s newdir) as [sn| |]; [|fin H; cbn; lia|fin H; cbn; lia].
    match type of H with (if ?x then _ else _) = _ => destruct x end; [fin H; cbn; lia|].
    destruct so; fin H; cbn; lia.
  - destruct (negb (name_safe nm)); [fin H; cbn; lia|].
    destruct (get_real_rootfs s ino) as [so| |]; [|fin H; cbn; lia|fin H; cbn; lia].
    destruct (get_real_rootfs s newparent) as [sn| |]; [|fin H; cbn; lia|fin H; cbn; lia].
    match type of H with (if ?x then _ else _) = _ => destruct x end; [fin H; cbn; lia|].
    destruct so; fin H; cbn; lia.
  - destruct (get_real_rootfs s ino) as [[?|? ? ?]| |]; fin H; cbn; lia.
  - fin H; cbn; lia.
Qed.

(* vacant slot: nothing is reached, and only forget (which has no reply) does not fail *)
Definition op_inodes (o : op) : list N :=
  match o with
  | OLookup n _ | OForget n | OGetattr n | OSetattr n _ _ _ | OFwd _ n _ | OReaddir _ n _ _ _ => [n]
  | OBatchForget n1 n2 | ORename n1 _ n2 _ | OLink n1 n2 _ => [n1; n2]
  | OUnfwd _ => []
  end.

Theorem vacant_unreached : forall s c o a r evs n, wf s -> vfs_op s c o a = (r, evs) ->
  In n (op_inodes o) -> vacant s n ->
  match o with
  | OBatchForget _ _ => Forall (fun ev => ~ ev_one s n ev) evs
  | OForget _ => evs = []
  | _ => evs = [] /\ exists e, r = Err e
  end.
Proof.
  intros s c o a r evs n W H Hin Hv.
  assert (Hg : get_real_rootfs s n = Err ENOENT).
  { destruct (grr_cases s n W) as [(b & idx & id & E & Ee & Hf & Hi & Hs) | [(E & Ee & Hf) | (E & Ee & Hf)]].
    - exfalso. destruct Hv as [Hnz Hnone]. unfold eff in Ee. destruct (fs_idx n =? 0) eqn:E0; [apply N.eqb_eq in E0; contradiction|].
      rewrite Hnone in Ee. discriminate.
    - destruct Hv. contradiction.
    - exact E. }
  assert (Hnone : eff s n = None).
  { destruct Hv as [Hnz Hn]. unfold eff. destruct (fs_idx n =? 0) eqn:E0; [apply N.eqb_eq in E0; contradiction|]. rewrite Hn. reflexivity. }
  pose proof (routing s c o a r evs W H) as R.
  destruct o; cbn [op_inodes] in Hin; cbn [vfs_op] in H.
  - destruct Hin as [<-|[]]. rewrite Hg in H. destruct (has_slash nm); inversion H; split; eauto.
  - destruct Hin as [<-|[]]. rewrite Hg in H. inversion H. reflexivity.
  - eapply Forall_impl; [|exact R].
    intros ev _ (b & idx & i & E & _). congruence.
  - destruct Hin as [<-|[]]. rewrite Hg in H. inversion H; split; eauto.
  - destruct Hin as [<-|[]]. rewrite Hg in H. inversion H; split; eauto.
  - destruct Hin as [<-|[]]. rewrite Hg in H.
    destruct (aget m forward_table) as [[[[validate g] is_entry] ret_unit]|]; [|inversion H; split; eauto].
    destruct (validate && negb (name_safe nm)); [inversion H; split; eauto|].
    destruct (gate_closed s g); inversion H; split; eauto.
  - destruct (negb (name_safe oldname) || negb (name_safe newname)); [inversion H; split; eauto|].
    destruct Hin as [<-|[<-|[]]].
    + rewrite Hg in H. inversion H; split; eauto.
    + rewrite Hg in H. pose proof (grr_no_panic s olddir W) as NP.
      destruct (get_real_rootfs s olddir); [inversion H; split; eauto|inversion H; split; eauto|contradiction].
  - destruct (negb (name_safe nm)); [inversion H; split; eauto|].
    destruct Hin as [<-|[<-|[]]].
    + rewrite Hg in H. inversion H; split; eauto.
    + rewrite Hg in H. pose proof (grr_no_panic s ino W) as NP.
      destruct (get_real_rootfs s ino); [inversion H; split; eauto|inversion H; split; eauto|contradiction].
  - destruct Hin as [<-|[]]. rewrite Hg in H. inversion H; split; eauto.
  - destruct Hin.
Qed.

(* operations spanning two mounts (or a mount and the pseudo fs) are refused with EINVAL, nothing is reached *)
Definition slot_of (s : vfs) (n : N) : N := match eff s n with Some (_, idx, _) => idx | None => 0 end.

Theorem cross_mount_refused : forall s c a n1 n2 nm1 nm2 r evs, wf s ->
  ~ vacant s n1 -> ~ vacant s n2 -> slot_of s n1 <> slot_of s n2 ->
  (vfs_op s c (ORename n1 nm1 n2 nm2) a = (r, evs) -> evs = [] /\ r = Err EINVAL) /\
  (vfs_op s c (OLink n1 n2 nm1) a = (r, evs) -> evs = [] /\ r = Err EINVAL).
Proof.
  intros s c a n1 n2 nm1 nm2 r evs W V1 V2 Hs.
  assert (K : forall n, ~ vacant s n ->
             exists sd, get_real_rootfs s n = Ok sd /\
                        fs_idx (match sd with SLeft id => id | SRight _ _ id => id end) = slot_of s n).
  { intros n V. unfold slot_of.
    destruct (grr_cases s n W) as [(b & idx & id & E & Ee & Hf & Hi & Hsb) | [(E & Ee & Hf) | (E & Ee & Hf)]].
    - rewrite Ee. eexists; split; [exact E|exact Hf].
    - rewrite Ee. eexists; split; [exact E|exact Hf].
    - contradiction. }
  destruct (K n1 V1) as (sd1 & G1 & F1). destruct (K n2 V2) as (sd2 & G2 & F2).
  assert (Hne : negb (fs_idx (match sd1 with SLeft id => id | SRight _ _ id => id end) =?
                      fs_idx (match sd2 with SLeft id => id | SRight _ _ id => id end)) = true).
  { apply negb_true_iff, N.eqb_neq. congruence. }
  split; intros H; cbn [vfs_op] in H; rewrite G1, G2, Hne in H.
  - destruct (negb (name_safe nm1) || negb (name_safe nm2)); inversion H; auto.
  - destruct (negb (name_safe nm1)); inversion H; auto.
Qed.

(* methods of the FileSystem trait that Vfs does not implement reach no backend and fail *)
Theorem unforwarded_unreached : forall s c a m, In m unforwarded ->
  exists e, vfs_op s c (OUnfwd m) a = (Err e, []).
Proof.
  intros s c a m Hin. cbn [vfs_op]. unfold default_of.
  cbn in Hin. repeat (destruct Hin as [<- | Hin]; [vm_compute; eauto|]). destruct Hin.
Qed.

(* the same for a request as the server delivers it (context remapped first), on any reachable state *)
Theorem routing_request : forall s hdr c o a r evs, reachable s -> vfs_request s hdr c o a = (r, evs) ->
  Forall (routed s o) evs.
Proof.
  intros s hdr c o a r evs R H. unfold vfs_request in H.
  destruct (srv_remap_ctx s hdr c) as [c'| |].
  - eapply routing; [apply reachable_wf; exact R|exact H].
  - inversion H. constructor.
  - inversion H. constructor.
Qed.

Lemma triple_eta {A B C} (x : A * B * C) : x = (fst (fst x), snd (fst x), snd x).
Proof. destruct x as [[a b] c]. reflexivity. Qed.

(* a reachable state: backend 10 at /n1 (index 1), backend 11 at "/" (index 2) *)
Definition ex_ma (ino : N) : mount_ans := mkMA 0 ino 0 0 0 1000 0.
Definition ex_state : vfs :=
  let s0 := vfs_new default_opts false in
  let s1 := fst (fst (vfs_mount s0 10 (mkPath true [CNorm 1]) None (ex_ma 1))) in
  fst (fst (vfs_mount s1 11 (mkPath true []) None (ex_ma 7))).
Lemma ex_reachable : exists s, reachable s /\ eff s (mk_vino 1 5) = Some (10, 1, 5) /\ eff s 1 = Some (11, 2, 7) /\
  vacant s (mk_vino 3 1).
Proof.
  exists ex_state. split.
  - unfold ex_state. eapply R_mount; [eapply R_mount; [apply R_new|]|]; apply triple_eta.
  - vm_compute. repeat split; discriminate.
Qed.
