(* The ROOT of the overlay as the target of an operation (path []).

   The theorems of Proofs/OverlayInv.v quantify over every [op], hence over every path including
   the empty one; this file spells the instance out, because the code treats the root specially:
   it is the only node without a parent, so SETXATTR / REMOVEXATTR / OPEN-for-writing on it - which
   have no explicit "is there an upper layer" test and rely on copy_node_up failing - are refused
   without an upper layer exactly because create_upper_dir answers "no parent?" (a seeded change
   that made create_upper_dir answer Ok there wrote to the top-most lower directory: seed C10f). *)
From Coq Require Import List String NArith Bool.
From FB Require Import Model.Overlay Proofs.OverlayInv.
Import ListNotations.
Local Open Scope string_scope.
Local Open Scope N_scope.
Local Open Scope list_scope.

Lemma root_no_upper : forall s k v m fl, Inv false s ->
  (exists e, fst (step (OSetxattr [] k v) s) = Err e) /\ (exists e, fst (step (ORemovexattr [] k) s) = Err e) /\
  (exists e, fst (step (OChmod [] m) s) = Err e) /\ (exists e, fst (step (OTruncate [] m) s) = Err e) /\
  (of_readonly fl = false -> exists e, fst (step (OOpen [] fl) s) = Err e) /\
  lowers (run_op (OSetxattr [] k v) s) = lowers s /\ lowers (run_op (ORemovexattr [] k) s) = lowers s /\
  log (run_op (OSetxattr [] k v) s) = log s /\ log (run_op (ORemovexattr [] k) s) = log s.
Proof.
  intros s k v m fl HI.
  pose proof (no_upper_ro s (OSetxattr [] k v) HI) as H1. pose proof (no_upper_ro s (ORemovexattr [] k) HI) as H2.
  pose proof (no_upper_ro s (OChmod [] m) HI) as H3. pose proof (no_upper_ro s (OTruncate [] m) HI) as H4.
  pose proof (no_upper_ro s (OOpen [] fl) HI) as H5. cbv zeta in *.
  repeat split; try (now apply H1); try (now apply H2); try (now apply H3); try (now apply H4).
  intros Hf. apply H5. cbn. now rewrite Hf.
Qed.
