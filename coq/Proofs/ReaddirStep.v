(* Proofs/ReaddirStep.v -- one READDIR/READDIRPLUS request of Model/Readdir.v (C16):
   state invariant, size bound, reference accounting, exact reply when resuming. *)
From Coq Require Import List NArith Bool Lia ZifyBool ZifyNat ZifyN Arith.
From FB Require Import Model.Readdir Proofs.Readdir.
Import ListNotations.
Local Open Scope N_scope.

Definition InvSt (d : list hent) (st : state) : Prop := forall h, Inv_h d (st_h st h).

Lemma pair_eta {A B} (p : A * B) : p = (fst p, snd p).
Proof. destruct p; reflexivity. Qed.

(* the step function with the [let '(_,_)] patterns expanded into projections *)
Lemma step_unfold H C d st r :
  step H C d st r =
  if r_size r =? 0 then (ROk [], st)
  else if c_noopendir C then
    match fst (fetch H (c_rx C) false d fresh_fd (r_size r) (r_offset r)) with
    | RErr e => (RErr e, st)
    | ROk b => (fst (deliver H (c_wrap C) (r_plus r) (r_size r) b true 0 (st_refs st)),
                mk_state (st_h st) (snd (deliver H (c_wrap C) (r_plus r) (r_size r) b true 0 (st_refs st))))
    end
  else
    if negb (hs_open (st_h st (r_handle r))) then (RErr EBADF, st)
    else
      let f := fetch H (c_rx C) true d (st_h st (r_handle r)) (r_size r) (r_offset r) in
      match fst f with
      | RErr e => (RErr e, mk_state (upd_h (st_h st) (r_handle r) (snd f)) (st_refs st))
      | ROk b => (fst (deliver H (c_wrap C) (r_plus r) (r_size r) b true 0 (st_refs st)),
                  mk_state (upd_h (st_h st) (r_handle r) (snd f))
                           (snd (deliver H (c_wrap C) (r_plus r) (r_size r) b true 0 (st_refs st))))
      end.
Proof.
  unfold step. destruct (r_size r =? 0); [reflexivity|].
  destruct (c_noopendir C).
  - destruct (fetch H (c_rx C) false d fresh_fd (r_size r) (r_offset r)) as [[b|e] hs']; cbn [fst snd]; [|reflexivity].
    destruct (deliver H (c_wrap C) (r_plus r) (r_size r) b true 0 (st_refs st)); reflexivity.
  - destruct (negb (hs_open (st_h st (r_handle r)))); [reflexivity|]. cbv zeta.
    destruct (fetch H (c_rx C) true d (st_h st (r_handle r)) (r_size r) (r_offset r)) as [[b|e] hs']; cbn [fst snd]; [|reflexivity].
    destruct (deliver H (c_wrap C) (r_plus r) (r_size r) b true 0 (st_refs st)); reflexivity.
Qed.

Lemma upd_h_inv d f h v : (forall j, Inv_h d (f j)) -> Inv_h d v -> forall j, Inv_h d (upd_h f h v j).
Proof. intros Hf Hv j. unfold upd_h. destruct (j =? h); [exact Hv|apply Hf]. Qed.

(* cookie-cache soundness as a state invariant: holds after every request whatsoever *)
Lemma step_inv H C d st r : good_dir d -> InvSt d st -> InvSt d (snd (step H C d st r)).
Proof.
  intros Hg Hi. rewrite step_unfold.
  destruct (r_size r =? 0); [exact Hi|].
  destruct (c_noopendir C).
  - destruct (fst (fetch H (c_rx C) false d fresh_fd (r_size r) (r_offset r))); exact Hi.
  - destruct (negb (hs_open (st_h st (r_handle r)))); [exact Hi|]. cbv zeta.
    destruct (fst (fetch H (c_rx C) true d (st_h st (r_handle r)) (r_size r) (r_offset r)));
      cbn [snd]; intros j; cbn [st_h]; apply upd_h_inv; try exact Hi; apply fetch_inv; exact Hg.
Qed.

Lemma step_open H C d st r h : hs_open (st_h (snd (step H C d st r)) h) = hs_open (st_h st h).
Proof.
  rewrite step_unfold.
  destruct (r_size r =? 0); [reflexivity|].
  destruct (c_noopendir C).
  - destruct (fst (fetch H (c_rx C) false d fresh_fd (r_size r) (r_offset r))); reflexivity.
  - destruct (negb (hs_open (st_h st (r_handle r)))) eqn:Eo; [reflexivity|]. cbv zeta.
    destruct (fst (fetch H (c_rx C) true d (st_h st (r_handle r)) (r_size r) (r_offset r)));
      cbn [snd st_h]; unfold upd_h; destruct (h =? r_handle r) eqn:E; try reflexivity;
      rewrite fetch_open; assert (h = r_handle r) by lia; subst h;
      apply Bool.negb_false_iff in Eo; rewrite Eo; reflexivity.
Qed.

Lemma step_size H C d st r reply :
  fst (step H C d st r) = ROk reply -> reply_bytes (r_plus r) reply <= r_size r.
Proof.
  rewrite step_unfold.
  destruct (r_size r =? 0) eqn:Ez; [intros [= <-]; cbn; lia|].
  assert (Hd : forall b refs, fst (deliver H (c_wrap C) (r_plus r) (r_size r) b true 0 refs) = ROk reply ->
                              reply_bytes (r_plus r) reply <= r_size r).
  { intros b refs Hx. pose proof (deliver_size _ _ _ _ _ _ _ _ _ Hx). lia. }
  destruct (c_noopendir C).
  - destruct (fst (fetch H (c_rx C) false d fresh_fd (r_size r) (r_offset r))); cbn [fst]; [apply Hd|discriminate].
  - destruct (negb (hs_open (st_h st (r_handle r)))); [discriminate|]. cbv zeta.
    destruct (fst (fetch H (c_rx C) true d (st_h st (r_handle r)) (r_size r) (r_offset r))); cbn [fst]; [apply Hd|discriminate].
Qed.

(* readdirplus takes one lookup reference per delivered entry, readdir none *)
Lemma step_refs H C d st r reply :
  wrap_total (c_wrap C) -> fst (step H C d st r) = ROk reply ->
  forall i, st_refs (snd (step H C d st r)) i = st_refs st i + (if r_plus r then cnt i reply else 0).
Proof.
  intros Hw. rewrite step_unfold.
  destruct (r_size r =? 0) eqn:Ez; [intros [= <-] i; cbn; unfold cnt; destruct (r_plus r); cbn; lia|].
  destruct (c_noopendir C).
  - destruct (fst (fetch H (c_rx C) false d fresh_fd (r_size r) (r_offset r))); cbn [fst snd]; [|discriminate].
    intros Hx i. cbn [st_refs]. apply (deliver_refs _ _ _ _ Hw _ _ _ _ _ Hx).
  - destruct (negb (hs_open (st_h st (r_handle r)))); [discriminate|]. cbv zeta.
    destruct (fst (fetch H (c_rx C) true d (st_h st (r_handle r)) (r_size r) (r_offset r))); cbn [fst snd]; [|discriminate].
    intros Hx i. cbn [st_refs]. apply (deliver_refs _ _ _ _ Hw _ _ _ _ _ Hx).
Qed.

Lemma skipn_pre {A} (pre rest : list A) : skipn (length pre) (pre ++ rest) = rest.
Proof. rewrite skipn_app, skipn_all, Nat.sub_diag. reflexivity. Qed.

Lemma lookups_ok_sub H (l l' : list hent) : lookups_ok H l -> (forall e, In e l' -> In e l) -> lookups_ok H l'.
Proof. intros Hl Hs e He. apply Hl. apply Hs. exact He. Qed.

(* the batch do_readdir works on when it resumes at [rest] without the fallback: one getdents64, then
   (on a tree with the re-read loop) further ones while the batch holds only dot records *)
Definition batchf (X : rfixes) (size : N) (rest : list hent) : res (list hent) :=
  match getdents_l rest size with
  | RErr e => RErr e
  | ROk b => if rx_refill X
             then fst (refill (S (length (skipn (length b) rest))) (skipn (length b) rest) size b 0%nat)
             else ROk b
  end.

Lemma gd_batchf X uc pre rest size :
  fst (gd X uc (pre ++ rest) size (length pre)) = batchf X size rest.
Proof.
  unfold gd, batchf. rewrite skipn_pre.
  destruct (getdents_l rest size) as [b|e] eqn:Hg; [|reflexivity].
  unfold post.
  assert (Hsk : skipn (length pre + length b) (pre ++ rest) = skipn (length b) rest).
  { rewrite skipn_app. rewrite skipn_all2 by lia. cbn [app]. f_equal. lia. }
  rewrite Hsk. destruct (rx_refill X); [|reflexivity].
  pose proof (refill_fst_pos size (S (length (skipn (length b) rest))) (skipn (length b) rest) b
                (length pre + length b)%nat 0%nat) as Hp.
  destruct (refill _ _ size b (length pre + length b)) as [[b2|e2] n2];
    destruct (refill _ _ size b 0%nat) as [[b3|e3] n3]; cbn [fst] in *; congruence.
Qed.

(* the reply to a request that resumes at a legitimate offset: the visible entries of that batch that fit
   the reply buffer - or the batch's error *)
Lemma step_resume_gen H C pre rest st r :
  good_dir (pre ++ rest) -> seekable H (pre ++ rest) -> InvSt (pre ++ rest) st ->
  lookups_ok H (pre ++ rest) -> wrap_total (c_wrap C) ->
  (c_noopendir C = false -> hs_open (st_h st (r_handle r)) = true) ->
  off_at pre (r_offset r) -> r_size r <> 0 ->
  fst (step H C (pre ++ rest) st r) =
  match batchf (c_rx C) (r_size r) rest with
  | RErr e => RErr e
  | ROk B => fst (deliver H (c_wrap C) (r_plus r) (r_size r) B true 0 (st_refs st))
  end.
Proof.
  intros Hg Hs Hi Hl Hw Hop Ho Hnz. rewrite step_unfold.
  destruct (r_size r =? 0) eqn:Ez; [lia|].
  destruct (c_noopendir C).
  - rewrite (fetch_resume H (c_rx C) false pre rest fresh_fd _ _ Hg Hs I Ho), gd_batchf.
    destruct (batchf (c_rx C) (r_size r) rest); reflexivity.
  - rewrite (Hop eq_refl). cbn [negb]. cbv zeta.
    rewrite (fetch_resume H (c_rx C) true pre rest _ _ _ Hg Hs (Hi _) Ho), gd_batchf.
    destruct (batchf (c_rx C) (r_size r) rest); reflexivity.
Qed.

Lemma step_resume H C pre rest st r B :
  good_dir (pre ++ rest) -> seekable H (pre ++ rest) -> InvSt (pre ++ rest) st ->
  lookups_ok H (pre ++ rest) -> wrap_total (c_wrap C) ->
  (c_noopendir C = false -> hs_open (st_h st (r_handle r)) = true) ->
  off_at pre (r_offset r) -> r_size r <> 0 ->
  batchf (c_rx C) (r_size r) rest = ROk B -> (forall e, In e B -> In e rest) ->
  fst (step H C (pre ++ rest) st r) =
  ROk (map (mkd H (c_wrap C) (r_plus r)) (take_fit (dirent_size (r_plus r)) (r_size r) (visible B))).
Proof.
  intros Hg Hs Hi Hl Hw Hop Ho Hnz HB Hsub.
  rewrite (step_resume_gen H C pre rest st r Hg Hs Hi Hl Hw Hop Ho Hnz), HB.
  rewrite (deliver_spec _ _ _ _ B); [rewrite N.sub_0_r; reflexivity| |exact Hw].
  apply (lookups_ok_sub H (pre ++ rest)); [exact Hl|]. intros e He. apply in_or_app. right. apply Hsub. exact He.
Qed.

Lemma step_resume_err H C pre rest st r e :
  good_dir (pre ++ rest) -> seekable H (pre ++ rest) -> InvSt (pre ++ rest) st ->
  lookups_ok H (pre ++ rest) -> wrap_total (c_wrap C) ->
  (c_noopendir C = false -> hs_open (st_h st (r_handle r)) = true) ->
  off_at pre (r_offset r) -> r_size r <> 0 ->
  batchf (c_rx C) (r_size r) rest = RErr e ->
  fst (step H C (pre ++ rest) st r) = RErr e.
Proof.
  intros Hg Hs Hi Hl Hw Hop Ho Hnz HB.
  rewrite (step_resume_gen H C pre rest st r Hg Hs Hi Hl Hw Hop Ho Hnz), HB. reflexivity.
Qed.

(* shape of the batch: a segment of [rest] after skipped records that are all dots *)
Lemma batchf_shape X size rest B :
  batchf X size rest = ROk B ->
  exists K S, rest = K ++ B ++ S /\ visible K = [].
Proof.
  unfold batchf. destruct (getdents_l rest size) as [b|e] eqn:Hg; [|discriminate].
  destruct (getdents_prefix _ _ _ Hg) as [s Hs].
  destruct (rx_refill X).
  - rewrite Hs, skipn_app_len.
    pose proof (refill_fst_pos size (S (length s)) s b 0%nat (length (@nil hent) + length b)%nat) as Hp.
    destruct (refill (S (length s)) s size b 0%nat) as [[b2|e2] n2]; cbn [fst]; [|discriminate].
    intros [= <-].
    destruct (refill (S (length s)) s size b (length (@nil hent) + length b)) as [[b3|e3] n3] eqn:Hr3;
      cbn [fst] in Hp; [|discriminate].
    injection Hp as <-.
    destruct (refill_segment size _ [] b s b2 n3 Hr3) as (K & s2 & HK & _ & Hv).
    exists K, s2. split; [rewrite <- HK; reflexivity|exact Hv].
  - intros [= <-]. exists [], s. split; [exact Hs|reflexivity].
Qed.

Lemma batchf_sub X size rest B : batchf X size rest = ROk B -> forall e, In e B -> In e rest.
Proof.
  intros HB e He. destruct (batchf_shape _ _ _ _ HB) as (K & S & -> & _).
  apply in_or_app. right. apply in_or_app. left. exact He.
Qed.

(* histories *)
Lemma run_inv H C d : good_dir d -> forall rs st, InvSt d st -> InvSt d (snd (run H C d st rs)).
Proof.
  intros Hg. induction rs as [|r t IH]; intros st Hi; [exact Hi|].
  cbn [run]. rewrite (pair_eta (step H C d st r)).
  rewrite (pair_eta (run H C d (snd (step H C d st r)) t)). cbn [snd].
  apply IH. apply step_inv; assumption.
Qed.

Lemma run_open H C d h : forall rs st, hs_open (st_h (snd (run H C d st rs)) h) = hs_open (st_h st h).
Proof.
  induction rs as [|r t IH]; intros st; [reflexivity|].
  cbn [run]. rewrite (pair_eta (step H C d st r)).
  rewrite (pair_eta (run H C d (snd (step H C d st r)) t)). cbn [snd].
  rewrite IH. apply step_open.
Qed.
