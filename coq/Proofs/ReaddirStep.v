(* Proofs/ReaddirStep.v -- one READDIR/READDIRPLUS request of Model/Readdir.v (C16):
   state invariant, size bound, reference accounting, exact reply when resuming. *)
From Coq Require Import List NArith Bool Lia ZifyBool ZifyNat ZifyN Arith.
From FB Require Import Model.Readdir Proofs.Readdir.
Import ListNotations.
Local Open Scope N_scope.

Definition InvSt (d : list hent) (st : state) : Prop := forall h, Inv_h d (st_h st h).

Lemma pair_eta {A B} (p : A * B) : p = (fst p, snd p).
Proof. destruct p; reflexivity. Qed.

(* the step function with the [let '(_,_)] patterns expanded into projections *)
Lemma step_unfold H C d st r :
  step H C d st r =
  if r_size r =? 0 then (ROk [], st)
  else if c_noopendir C then
    match fst (fetch H false d fresh_fd (r_size r) (r_offset r)) with
    | RErr e => (RErr e, st)
    | ROk b => (fst (deliver H (c_wrap C) (r_plus r) (r_size r) b true 0 (st_refs st)),
                mk_state (st_h st) (snd (deliver H (c_wrap C) (r_plus r) (r_size r) b true 0 (st_refs st))))
    end
  else
    if negb (hs_open (st_h st (r_handle r))) then (RErr EBADF, st)
    else
      let f := fetch H true d (st_h st (r_handle r)) (r_size r) (r_offset r) in
      match fst f with
      | RErr e => (RErr e, mk_state (upd_h (st_h st) (r_handle r) (snd f)) (st_refs st))
      | ROk b => (fst (deliver H (c_wrap C) (r_plus r) (r_size r) b true 0 (st_refs st)),
                  mk_state (upd_h (st_h st) (r_handle r) (snd f))
                           (snd (deliver H (c_wrap C) (r_plus r) (r_size r) b true 0 (st_refs st))))
      end.
Proof.
  unfold step. destruct (r_size r =? 0); [reflexivity|].
  destruct (c_noopendir C).
  - destruct (fetch H false d fresh_fd (r_size r) (r_offset r)) as [[b|e] hs']; cbn [fst snd]; [|reflexivity].
    destruct (deliver H (c_wrap C) (r_plus r) (r_size r) b true 0 (st_refs st)); reflexivity.
  - destruct (negb (hs_open (st_h st (r_handle r)))); [reflexivity|]. cbv zeta.
    destruct (fetch H true d (st_h st (r_handle r)) (r_size r) (r_offset r)) as [[b|e] hs']; cbn [fst snd]; [|reflexivity].
    destruct (deliver H (c_wrap C) (r_plus r) (r_size r) b true 0 (st_refs st)); reflexivity.
Qed.

Lemma upd_h_inv d f h v : (forall j, Inv_h d (f j)) -> Inv_h d v -> forall j, Inv_h d (upd_h f h v j).
Proof. intros Hf Hv j. unfold upd_h. destruct (j =? h); [exact Hv|apply Hf]. Qed.

(* cookie-cache soundness as a state invariant: holds after every request whatsoever *)
Lemma step_inv H C d st r : good_dir d -> InvSt d st -> InvSt d (snd (step H C d st r)).
Proof.
  intros Hg Hi. rewrite step_unfold.
  destruct (r_size r =? 0); [exact Hi|].
  destruct (c_noopendir C).
  - destruct (fst (fetch H false d fresh_fd (r_size r) (r_offset r))); exact Hi.
  - destruct (negb (hs_open (st_h st (r_handle r)))); [exact Hi|]. cbv zeta.
    destruct (fst (fetch H true d (st_h st (r_handle r)) (r_size r) (r_offset r)));
      cbn [snd]; intros j; cbn [st_h]; apply upd_h_inv; try exact Hi; apply fetch_inv; exact Hg.
Qed.

Lemma step_open H C d st r h : hs_open (st_h (snd (step H C d st r)) h) = hs_open (st_h st h).
Proof.
  rewrite step_unfold.
  destruct (r_size r =? 0); [reflexivity|].
  destruct (c_noopendir C).
  - destruct (fst (fetch H false d fresh_fd (r_size r) (r_offset r))); reflexivity.
  - destruct (negb (hs_open (st_h st (r_handle r)))) eqn:Eo; [reflexivity|]. cbv zeta.
    destruct (fst (fetch H true d (st_h st (r_handle r)) (r_size r) (r_offset r)));
      cbn [snd st_h]; unfold upd_h; destruct (h =? r_handle r) eqn:E; try reflexivity;
      rewrite fetch_open; assert (h = r_handle r) by lia; subst h;
      apply Bool.negb_false_iff in Eo; rewrite Eo; reflexivity.
Qed.

Lemma step_size H C d st r reply :
  fst (step H C d st r) = ROk reply -> reply_bytes (r_plus r) reply <= r_size r.
Proof.
  rewrite step_unfold.
  destruct (r_size r =? 0) eqn:Ez; [intros [= <-]; cbn; lia|].
  assert (Hd : forall b refs, fst (deliver H (c_wrap C) (r_plus r) (r_size r) b true 0 refs) = ROk reply ->
                              reply_bytes (r_plus r) reply <= r_size r).
  { intros b refs Hx. pose proof (deliver_size _ _ _ _ _ _ _ _ _ Hx). lia. }
  destruct (c_noopendir C).
  - destruct (fst (fetch H false d fresh_fd (r_size r) (r_offset r))); cbn [fst]; [apply Hd|discriminate].
  - destruct (negb (hs_open (st_h st (r_handle r)))); [discriminate|]. cbv zeta.
    destruct (fst (fetch H true d (st_h st (r_handle r)) (r_size r) (r_offset r))); cbn [fst]; [apply Hd|discriminate].
Qed.

(* readdirplus takes one lookup reference per delivered entry, readdir none *)
Lemma step_refs H C d st r reply :
  wrap_total (c_wrap C) -> fst (step H C d st r) = ROk reply ->
  forall i, st_refs (snd (step H C d st r)) i = st_refs st i + (if r_plus r then cnt i reply else 0).
Proof.
  intros Hw. rewrite step_unfold.
  destruct (r_size r =? 0) eqn:Ez; [intros [= <-] i; cbn; unfold cnt; destruct (r_plus r); cbn; lia|].
  destruct (c_noopendir C).
  - destruct (fst (fetch H false d fresh_fd (r_size r) (r_offset r))); cbn [fst snd]; [|discriminate].
    intros Hx i. cbn [st_refs]. apply (deliver_refs _ _ _ _ Hw _ _ _ _ _ Hx).
  - destruct (negb (hs_open (st_h st (r_handle r)))); [discriminate|]. cbv zeta.
    destruct (fst (fetch H true d (st_h st (r_handle r)) (r_size r) (r_offset r))); cbn [fst snd]; [|discriminate].
    intros Hx i. cbn [st_refs]. apply (deliver_refs _ _ _ _ Hw _ _ _ _ _ Hx).
Qed.

Lemma skipn_pre {A} (pre rest : list A) : skipn (length pre) (pre ++ rest) = rest.
Proof. rewrite skipn_app, skipn_all, Nat.sub_diag. reflexivity. Qed.

Lemma lookups_ok_sub H (l l' : list hent) : lookups_ok H l -> (forall e, In e l' -> In e l) -> lookups_ok H l'.
Proof. intros Hl Hs e He. apply Hl. apply Hs. exact He. Qed.

(* the reply to a request that resumes at a legitimate offset: exactly the visible entries of the
   host batch that fit the reply buffer *)
Lemma step_resume H C pre rest st r :
  good_dir (pre ++ rest) -> seekable H (pre ++ rest) -> InvSt (pre ++ rest) st ->
  lookups_ok H (pre ++ rest) -> wrap_total (c_wrap C) ->
  (c_noopendir C = false -> hs_open (st_h st (r_handle r)) = true) ->
  off_at pre (r_offset r) -> r_size r <> 0 ->
  match rest with e :: _ => host_reclen e <= r_size r | [] => True end ->
  fst (step H C (pre ++ rest) st r) =
  ROk (map (mkd H (c_wrap C) (r_plus r))
           (take_fit (dirent_size (r_plus r)) (r_size r) (visible (take_fit host_reclen (r_size r) rest)))).
Proof.
  intros Hg Hs Hi Hl Hw Hop Ho Hnz Hfit. rewrite step_unfold.
  destruct (r_size r =? 0) eqn:Ez; [lia|].
  assert (Hsub : lookups_ok H (take_fit host_reclen (r_size r) rest)).
  { apply (lookups_ok_sub H (pre ++ rest)); [exact Hl|]. intros e He.
    destruct (take_fit_prefix host_reclen rest (r_size r)) as [s Hs']. apply in_or_app. right.
    rewrite Hs'. apply in_or_app. left. exact He. }
  assert (Hgd : forall uc, fst (gd uc (pre ++ rest) (r_size r) (length pre)) = ROk (take_fit host_reclen (r_size r) rest)).
  { intros uc. unfold gd. rewrite skipn_pre, (getdents_fits _ _ Hfit). reflexivity. }
  assert (Hdel : forall refs, fst (deliver H (c_wrap C) (r_plus r) (r_size r) (take_fit host_reclen (r_size r) rest) true 0 refs) =
     ROk (map (mkd H (c_wrap C) (r_plus r))
              (take_fit (dirent_size (r_plus r)) (r_size r) (visible (take_fit host_reclen (r_size r) rest))))).
  { intros refs. rewrite (deliver_spec _ _ _ _ _ _ _ _ Hsub Hw). rewrite N.sub_0_r. reflexivity. }
  destruct (c_noopendir C).
  - rewrite (fetch_resume H false pre rest fresh_fd _ _ Hg Hs I Ho), Hgd. cbn [fst]. apply Hdel.
  - rewrite (Hop eq_refl). cbn [negb]. cbv zeta.
    rewrite (fetch_resume H true pre rest _ _ _ Hg Hs (Hi _) Ho), Hgd. cbn [fst]. apply Hdel.
Qed.

(* histories *)
Lemma run_inv H C d : good_dir d -> forall rs st, InvSt d st -> InvSt d (snd (run H C d st rs)).
Proof.
  intros Hg. induction rs as [|r t IH]; intros st Hi; [exact Hi|].
  cbn [run]. rewrite (pair_eta (step H C d st r)).
  rewrite (pair_eta (run H C d (snd (step H C d st r)) t)). cbn [snd].
  apply IH. apply step_inv; assumption.
Qed.

Lemma run_open H C d h : forall rs st, hs_open (st_h (snd (run H C d st rs)) h) = hs_open (st_h st h).
Proof.
  induction rs as [|r t IH]; intros st; [reflexivity|].
  cbn [run]. rewrite (pair_eta (step H C d st r)).
  rewrite (pair_eta (run H C d (snd (step H C d st r)) t)). cbn [snd].
  rewrite IH. apply step_open.
Qed.
