(* The scan of a fresh overlay (import + loading every directory) shows exactly the overlayfs
   union of the layers: view (load_all (fresh u ls)) = merge (u :: ls), for all layer contents. *)
From Coq Require Import List String Arith NArith Bool Lia.
From FB Require Import Model.Overlay.
Import ListNotations.
Local Open Scope N_scope.

(* a layer tree as a real directory tree: names inside one directory are distinct *)
Inductive wf : tree -> Prop :=
| wf_dir m x ch : NoDup (map fst ch) -> Forall (fun kv => wf (snd kv)) ch -> wf (Dir m x ch)
| wf_file i m d x : wf (File i m d x)
| wf_lnk t : wf (Lnk t)
| wf_wh : wf Wh.

(* ------------------------------------------------------------------ lists *)
Lemma afind_In_nodup {A} k (c : A) ch : NoDup (map fst ch) -> In (k, c) ch -> afind k ch = Some c.
Proof.
  induction ch as [|[k' c'] ch IH]; intros Hn Hi; [destruct Hi|].
  cbn [map fst] in Hn. inversion Hn as [|? ? Hnot Hn']; subst. cbn [afind].
  destruct Hi as [E|Hi].
  - inversion E; subst. rewrite String.eqb_refl. reflexivity.
  - destruct (String.eqb k k') eqn:E; [|auto].
    apply String.eqb_eq in E; subst. exfalso. apply Hnot. change k' with (fst (k', c)). apply in_map. exact Hi.
Qed.
Lemma tget_app t : forall p k, tget t (p ++ [k]) =
  match tget t p with Some (Dir _ _ ch) => afind k ch | _ => None end.
Proof.
  intros p; revert t. induction p as [|c p IH]; intros t k; cbn [app tget].
  - destruct t; try reflexivity. destruct (afind k ch); reflexivity.
  - destruct t; try reflexivity. destruct (afind c ch) as [x|]; [apply IH|reflexivity].
Qed.

(* ------------------------------------------------------------------ functions of the layers only *)
Definition same_layers (s s' : state) : Prop := upper s = upper s' /\ lowers s = lowers s'.
Lemma real_tree_ext s s' r : same_layers s s' -> real_tree s r = real_tree s' r.
Proof. intros [A B]. unfold real_tree, get_layer. destruct (r_layer r); rewrite ?A, ?B; reflexivity. Qed.
Lemma node_stat_ext s s' n : same_layers s s' -> node_stat s n = node_stat s' n.
Proof.
  intros H. unfold node_stat. f_equal. apply map_ext. intros r. apply real_tree_ext; exact H.
Qed.
Lemma readdir_real_ext s s' r : same_layers s s' -> readdir_real s r = readdir_real s' r.
Proof. intros H. unfold readdir_real. rewrite (real_tree_ext s s' r H). reflexivity. Qed.
Lemma scan_reals_ext s s' rs : same_layers s s' -> forall acc, scan_reals s rs acc = scan_reals s' rs acc.
Proof.
  intros H. induction rs as [|r rs IH]; intros acc; cbn [scan_reals]; [reflexivity|].
  rewrite (readdir_real_ext s s' r H). destruct (r_wh r); [reflexivity|]. destruct (negb (r_dir r)); [reflexivity|].
  destruct (readdir_real s' r); [|reflexivity]. destruct (r_opq r); [reflexivity|apply IH].
Qed.
Lemma scan_children_ext s s' n : same_layers s s' -> scan_children s n = scan_children s' n.
Proof.
  intros H. unfold scan_children. rewrite (node_stat_ext s s' n H), (scan_reals_ext s s' _ H). reflexivity.
Qed.
Lemma load1_ext s s' n : same_layers s s' -> load1 s n = load1 s' n.
Proof. intros H. unfold load1. rewrite (scan_children_ext s s' n H). reflexivity. Qed.
Lemma load_node_ext s s' f : same_layers s s' -> forall n, load_node f s n = load_node f s' n.
Proof.
  intros H. induction f as [|f IHf]; intros n; cbn [load_node]; [reflexivity|].
  rewrite (node_stat_ext s s' n H), (load1_ext s s' n H).
  destruct (n_wh n); [reflexivity|]. destruct (node_stat s' n) as [[]|]; try reflexivity.
  f_equal. apply map_ext. intros kv. rewrite IHf. reflexivity.
Qed.
Lemma view_node_ext s s' f : same_layers s s' -> forall n, view_node f s n = view_node f s' n.
Proof.
  intros H. induction f as [|f IHf]; intros n; cbn [view_node]; [reflexivity|].
  destruct (n_wh n); [reflexivity|]. unfold first_real_tree.
  destruct (n_reals n) as [|r rs]; [reflexivity|]. rewrite (real_tree_ext s s' r H).
  destruct (real_tree s' r) as [[]|]; try reflexivity.
  f_equal. f_equal. induction (n_ch n) as [|kv l IHl]; cbn [filter_map]; [reflexivity|].
  rewrite IHf, IHl. reflexivity.
Qed.

(* ------------------------------------------------------------------ backing inodes that agree with the layers *)
Section Scan.
Variable s : state.

Definition cons_real (r : real) (t : tree) : Prop :=
  real_tree s r = Some t /\ wf t /\ r_wh r = is_whT t /\ r_opq r = is_opaqueT t /\ r_dir r = is_dirT t.

Lemma cons_child r m x ch k c :
  cons_real r (Dir m x ch) -> In (k, c) ch -> cons_real (child_real r k c) c.
Proof.
  intros (Hr & Hw & _) Hin. inversion Hw as [? ? ? Hnd Hall| | |]; subst.
  unfold cons_real, child_real; cbn.
  split; [|split; [|auto]].
  - unfold real_tree in *; cbn. destruct (get_layer s (r_layer r)) as [t0|]; [|discriminate].
    rewrite tget_app, Hr. apply afind_In_nodup; assumption.
  - rewrite Forall_forall in Hall. exact (Hall (k, c) Hin).
Qed.

(* related accumulators: same names in the same order, backing inodes agree with the entries *)
Definition rel1 (a : name * list real) (a' : name * list tree) : Prop :=
  fst a = fst a' /\ Forall2 cons_real (snd a) (snd a') /\ snd a <> [].
Definition lift (acc : list (name * list real)) (acc' : list (name * list tree)) : Prop := Forall2 rel1 acc acc'.

Lemma lift_afind k acc acc' : lift acc acc' ->
  match afind k acc, afind k acc' with
  | Some l, Some l' => Forall2 cons_real l l' /\ l <> []
  | None, None => True
  | _, _ => False
  end.
Proof.
  induction 1 as [|[a l] [a' l'] acc acc' (H1 & H2 & H3) H IH]; cbn [afind]; [exact I|].
  cbn [fst snd] in *. subst a'. destruct (String.eqb k a); [split; assumption|exact IH].
Qed.
Lemma lift_aset k v v' acc acc' : lift acc acc' -> Forall2 cons_real v v' -> v <> [] ->
  lift (aset k v acc) (aset k v' acc').
Proof.
  intros H Hv Hne. induction H as [|[a l] [a' l'] acc acc' (H1 & H2 & H3) H IH]; cbn [aset].
  - constructor; [|constructor]. split; [reflexivity|split; assumption].
  - cbn [fst snd] in *. subst a'. destruct (String.eqb k a).
    + constructor; [|exact H]. split; [reflexivity|split; assumption].
    + constructor; [|exact IH]. split; [reflexivity|split; assumption].
Qed.
Lemma lift_add acc acc' k r c : lift acc acc' -> cons_real r c ->
  lift (add_entry acc (k, r)) (add_tree acc' (k, c)).
Proof.
  intros H Hc. unfold add_entry, add_tree; cbn [fst snd].
  pose proof (lift_afind k acc acc' H) as Hf.
  destruct (afind k acc) as [l|], (afind k acc') as [l'|]; try contradiction.
  - destruct Hf as [Hf Hne]. apply lift_aset; [exact H| |].
    + apply Forall2_app; [exact Hf|constructor; [exact Hc|constructor]].
    + intros E. apply app_eq_nil in E. destruct E; discriminate.
  - apply lift_aset; [exact H|constructor; [exact Hc|constructor]|discriminate].
Qed.
Lemma lift_fold r m x ch : cons_real r (Dir m x ch) ->
  forall l acc acc', (forall kv, In kv l -> In kv ch) -> lift acc acc' ->
  lift (fold_left add_entry (map (fun kv => (fst kv, child_real r (fst kv) (snd kv))) l) acc)
       (fold_left add_tree l acc').
Proof.
  intros Hr. induction l as [|[k c] l IH]; intros acc acc' Hsub H; cbn [map fold_left]; [exact H|].
  apply IH; [intros kv Hk; apply Hsub; right; exact Hk|].
  cbn [fst snd]. apply lift_add; [exact H|]. eapply cons_child; [exact Hr|apply Hsub; left; reflexivity].
Qed.

Lemma readdir_cons r m x ch : cons_real r (Dir m x ch) ->
  readdir_real s r = Ok (map (fun kv => (fst kv, child_real r (fst kv) (snd kv))) ch).
Proof.
  intros (Hr & _ & Hw & _ & Hd). unfold readdir_real. rewrite Hw, Hd, Hr. reflexivity.
Qed.

(* the loop of scan_childrens groups the entries exactly as the specification does *)
Lemma scan_sim rs ts : Forall2 cons_real rs ts -> forall acc acc', lift acc acc' ->
  exists all, scan_reals s rs acc = Ok all /\
    lift all (fold_left (fun a d => fold_left add_tree (dir_children d) a) (dir_stack ts) acc').
Proof.
  induction 1 as [|r t rs ts Hc H IH]; intros acc acc' Hl; cbn [scan_reals dir_stack fold_left].
  - eauto.
  - pose proof Hc as (Hr & Hwf & Hw & Ho & Hd).
    destruct t as [m x ch|i m d x|tg|]; cbn [is_whT is_dirT is_opaqueT] in *; rewrite ?Hw, ?Hd; cbn [negb].
    + rewrite (readdir_cons r m x ch Hc), Ho.
      pose proof (lift_fold r m x ch Hc ch acc acc' (fun kv H => H) Hl) as Hl1.
      destruct (xs_opaque x); cbn [fold_left dir_children].
      * eauto.
      * apply IH. exact Hl1.
    + cbn [fold_left]. eauto.
    + cbn [fold_left]. eauto.
    + cbn [fold_left]. eauto.
Qed.

(* names in the accumulator stay distinct, so that load_directory's inserts keep them all *)
Lemma keys_aset {A} k (v : A) acc : NoDup (map fst acc) -> NoDup (map fst (aset k v acc)).
Proof.
  induction acc as [|[a l] acc IH]; intros Hn; cbn [aset map fst].
  - constructor; [intros []|constructor].
  - cbn [map fst] in Hn. inversion Hn as [|? ? Hnot Hn']; subst.
    destruct (String.eqb k a) eqn:E.
    + apply String.eqb_eq in E; subst. cbn [map fst]. constructor; assumption.
    + cbn [map fst]. constructor; [|apply IH; exact Hn'].
      intros Hin. apply Hnot. clear -Hin E. induction acc as [|[b l'] acc IH]; cbn [aset map fst] in *.
      * destruct Hin as [<-|[]]. rewrite String.eqb_refl in E. discriminate.
      * destruct (String.eqb k b) eqn:E2; cbn [map fst] in Hin.
        -- apply String.eqb_eq in E2; subst. exact Hin.
        -- destruct Hin as [<-|Hin]; [left; reflexivity|right; apply IH; exact Hin].
Qed.
Lemma keys_fold_add ents : forall acc, NoDup (map fst acc) -> NoDup (map fst (fold_left add_entry ents acc)).
Proof.
  induction ents as [|e ents IH]; intros acc Hn; cbn [fold_left]; [exact Hn|].
  apply IH. unfold add_entry. apply keys_aset. exact Hn.
Qed.
Lemma keys_scan rs : forall acc all, NoDup (map fst acc) -> scan_reals s rs acc = Ok all -> NoDup (map fst all).
Proof.
  induction rs as [|r rs IH]; intros acc all Hn H; cbn [scan_reals] in H.
  - inversion H; subst; exact Hn.
  - destruct (r_wh r); [inversion H; subst; exact Hn|].
    destruct (negb (r_dir r)); [inversion H; subst; exact Hn|].
    destruct (readdir_real s r) as [ents|e]; [|discriminate].
    pose proof (keys_fold_add ents acc Hn) as Hn1.
    destruct (r_opq r); [inversion H; subst; exact Hn1|]. eapply IH; eassumption.
Qed.
Lemma aset_fresh {A} k (v : A) acc : ~ In k (map fst acc) -> aset k v acc = acc ++ [(k, v)].
Proof.
  induction acc as [|[a l] acc IH]; intros Hn; cbn [aset app]; [reflexivity|].
  cbn [map fst] in Hn. destruct (String.eqb k a) eqn:E.
  - apply String.eqb_eq in E; subst. exfalso. apply Hn. left; reflexivity.
  - rewrite IH; [reflexivity|]. intros Hi. apply Hn. right; exact Hi.
Qed.
Lemma fold_aset_nodup {A} (cs : list (name * A)) : forall acc0, NoDup (map fst (acc0 ++ cs)) ->
  fold_left (fun acc kv => aset (fst kv) (snd kv) acc) cs acc0 = acc0 ++ cs.
Proof.
  induction cs as [|[k v] cs IH]; intros acc0 Hn; cbn [fold_left]; [rewrite app_nil_r; reflexivity|].
  cbn [fst snd]. rewrite aset_fresh.
  - rewrite IH; rewrite <- app_assoc; [reflexivity|exact Hn].
  - rewrite map_app in Hn. apply NoDup_remove_2 in Hn. intros Hi. apply Hn. apply in_or_app. left; exact Hi.
Qed.

(* ------------------------------------------------------------------ new_from_real_inodes keeps what matters *)
Lemma dir_stack_idem ts : dir_stack (dir_stack ts) = dir_stack ts.
Proof.
  induction ts as [|t ts IH]; [reflexivity|]. destruct t; try reflexivity. cbn [dir_stack].
  destruct (xs_opaque xs) eqn:E; cbn [dir_stack]; rewrite E; [reflexivity|]. rewrite IH. reflexivity.
Qed.
Lemma take_lowers_cons rs ts : Forall2 cons_real rs ts -> Forall2 cons_real (take_lowers rs) (dir_stack ts).
Proof.
  induction 1 as [|r t rs ts Hc H IH]; cbn [take_lowers dir_stack]; [constructor|].
  pose proof Hc as (_ & _ & Hw & Ho & Hd).
  destruct t; cbn [is_whT is_dirT is_opaqueT] in *; rewrite ?Hw, ?Hd; cbn [negb]; try constructor.
  rewrite Ho. destruct (xs_opaque xs); constructor; auto.
Qed.
Lemma resolve_ext f t ts ts' : dir_stack (t :: ts) = dir_stack (t :: ts') -> resolve f (t :: ts) = resolve f (t :: ts').
Proof. intros H. destruct f as [|f]; [reflexivity|]. cbn [resolve]. destruct t; try reflexivity. rewrite H. reflexivity. Qed.

Definition fresh_node (n : node) (ts : list tree) : Prop :=
  Forall2 cons_real (n_reals n) ts /\ n_loaded n = false /\ n_ch n = [] /\
  match n_reals n with r :: _ => n_wh n = r_wh r | [] => True end.

Lemma new_from_reals_fresh rs ts : Forall2 cons_real rs ts -> rs <> [] ->
  exists ts', fresh_node (new_from_reals rs) ts' /\ (forall f, resolve f ts' = resolve f ts).
Proof.
  intros H Hne. destruct H as [|r t rs ts Hc H]; [contradiction|]. clear Hne.
  pose proof Hc as (_ & _ & Hw & Ho & Hd). unfold new_from_reals.
  destruct (r_wh r || negb (r_dir r) || r_opq r) eqn:E.
  - exists [t]. split; [unfold fresh_node; cbn [n_reals n_loaded n_ch n_wh]; split; [constructor; [exact Hc|constructor]|repeat split]|].
    intros f. apply resolve_ext. destruct t; try reflexivity. cbn [dir_stack].
    cbn [is_whT is_dirT is_opaqueT] in *. rewrite Hw, Hd in E. cbn in E. rewrite Ho in E. rewrite E. reflexivity.
  - exists (t :: dir_stack ts). split; [unfold fresh_node; cbn [n_reals n_loaded n_ch n_wh]; split; [constructor; [exact Hc|apply take_lowers_cons; exact H]|repeat split]|].
    intros f. apply resolve_ext. destruct t; try reflexivity. cbn [dir_stack].
    destruct (xs_opaque xs); [reflexivity|]. rewrite dir_stack_idem. reflexivity.
Qed.

(* ------------------------------------------------------------------ the main induction *)
Lemma view_load f : forall n ts, fresh_node n ts ->
  view_node f s (load_node f s n) = resolve f ts.
Proof.
  induction f as [|f IH]; intros n ts (Hc & Hl & Hch & Hwh); [reflexivity|].
  destruct n as [rs w ld ch]; cbn [n_reals n_wh n_loaded n_ch] in *. subst ld ch.
  destruct Hc as [|r t rs ts Hc Hrest].
  - cbn [load_node n_wh]. destruct w; cbn [view_node n_wh]; [reflexivity|].
    unfold node_stat; cbn [n_reals map first_some]. cbn [view_node n_wh first_real_tree n_reals]. reflexivity.
  - subst w. pose proof Hc as (Hr & Hwf & Hw & Ho & Hd).
    cbn [load_node n_wh]. destruct t as [m x ch|i m d x|tg|]; cbn [is_whT] in Hw; rewrite Hw.
    + (* directory *)
      assert (Hst : node_stat s (Node (r :: rs) false false []) = Some (Dir m x ch)).
      { unfold node_stat; cbn [n_reals map first_some]. rewrite Hr. reflexivity. }
      rewrite Hst. cbn [n_loaded].
      destruct (scan_sim (r :: rs) (Dir m x ch :: ts) (Forall2_cons _ _ Hc Hrest) [] [] (Forall2_nil _)) as (all & Hscan & Hlift).
      assert (Hsc : scan_children s (Node (r :: rs) false false []) =
                    Ok (map (fun kv => (fst kv, new_from_reals (snd kv))) all)).
      { unfold scan_children. rewrite Hst. cbn [is_dirT negb n_reals]. rewrite Hscan. reflexivity. }
      unfold load1; cbn [n_loaded]. rewrite Hsc. unfold set_loaded; cbn [n_reals n_wh n_ch n_loaded].
      rewrite (fold_aset_nodup _ []).
      2:{ cbn [app]. rewrite map_map. cbn [fst]. eapply keys_scan; [|exact Hscan]. constructor. }
      cbn [app view_node n_wh first_real_tree n_reals]. rewrite Hr. cbn [resolve].
      f_equal. f_equal. fold (collect_trees (dir_stack (Dir m x ch :: ts))).
      change (fold_left (fun a d => fold_left add_tree (dir_children d) a) (dir_stack (Dir m x ch :: ts)) [])
        with (collect_trees (dir_stack (Dir m x ch :: ts))) in Hlift.
      cbn [n_ch]. rewrite map_map. cbn [fst snd]. clear Hscan Hsc.
      induction Hlift as [|[k rk] [k' tk] all all' (H1 & H2 & H3) Hl' IHl]; cbn [map filter_map]; [reflexivity|].
      cbn [fst snd] in *. subst k'.
      destruct (new_from_reals_fresh rk tk H2 H3) as (ts' & Hfresh & Hres).
      rewrite (IH _ _ Hfresh), Hres, IHl. reflexivity.
    + cbn [negb]. assert (Hst : node_stat s (Node (r :: rs) false false []) = Some (File i m d x)).
      { unfold node_stat; cbn [n_reals map first_some]. rewrite Hr. reflexivity. }
      rewrite Hst. cbn [view_node n_wh first_real_tree n_reals]. rewrite Hr. reflexivity.
    + assert (Hst : node_stat s (Node (r :: rs) false false []) = Some (Lnk tg)).
      { unfold node_stat; cbn [n_reals map first_some]. rewrite Hr. reflexivity. }
      rewrite Hst. cbn [view_node n_wh first_real_tree n_reals]. rewrite Hr. reflexivity.
    + cbn [view_node n_wh]. reflexivity.
Qed.
End Scan.

(* ------------------------------------------------------------------ the fresh overlay *)
Definition layer_ok (t : tree) : Prop := wf t /\ is_dirT t = true.   (* a layer root is a directory *)

Lemma root_real_cons s k up t : get_layer s k = Some t -> layer_ok t -> cons_real s (root_real k up t) t.
Proof.
  intros Hg [Hw Hd]. unfold cons_real, root_real, real_tree; cbn. rewrite Hg. cbn.
  destruct t; try discriminate. repeat split; auto.
Qed.
Lemma lower_reals_cons u ls nx : forall l j,
  (forall i t, nth_error l i = Some t -> nth_error ls (j + i) = Some t) -> Forall layer_ok l ->
  Forall2 (cons_real (fresh0 u ls nx)) (lower_reals (S j) l) l.
Proof.
  induction l as [|t l IH]; intros j Hn Hok; cbn [lower_reals]; [constructor|].
  inversion Hok; subst. constructor.
  - apply root_real_cons; [|assumption]. cbn [get_layer fresh0 lowers].
    specialize (Hn 0%nat t eq_refl). rewrite Nat.add_0_r in Hn. exact Hn.
  - apply IH; [|assumption]. intros i t' Hi. specialize (Hn (S i) t' Hi).
    replace (S j + i)%nat with (j + S i)%nat by lia. exact Hn.
Qed.
Lemma fresh0_root u ls nx : Forall layer_ok (all_layers u ls) ->
  fresh_node (fresh0 u ls nx) (root (fresh0 u ls nx)) (all_layers u ls).
Proof.
  intros Hok. unfold fresh_node. cbn [root fresh0 n_reals n_loaded n_ch n_wh]. split; [|split; [reflexivity|split; [reflexivity|]]].
  - destruct u as [t|]; cbn [all_layers app] in *.
    + inversion Hok; subst. constructor.
      * apply root_real_cons; [reflexivity|assumption].
      * apply (lower_reals_cons (Some t) ls nx ls 0); [intros i t' H; exact H|assumption].
    + apply (lower_reals_cons None ls nx ls 0); [intros i t' H; exact H|assumption].
  - destruct u as [t|]; cbn [app]; [reflexivity|]. destruct ls; reflexivity.
Qed.
Lemma load1_reals s n : n_reals (load1 s n) = n_reals n /\ n_wh (load1 s n) = n_wh n.
Proof. unfold load1. destruct (n_loaded n); [auto|]. destruct (scan_children s n); auto. Qed.
Lemma scan_children_reals s n n' : n_reals n = n_reals n' -> scan_children s n = scan_children s n'.
Proof. intros H. unfold scan_children, node_stat. rewrite H. reflexivity. Qed.
Lemma load1_idem s n : load1 s (load1 s n) = load1 s n.
Proof.
  destruct (n_loaded n) eqn:El.
  - unfold load1. rewrite El. rewrite El. reflexivity.
  - destruct (scan_children s n) as [cs|e] eqn:E.
    + assert (H : load1 s n = set_loaded cs n) by (unfold load1; rewrite El, E; reflexivity).
      rewrite H. unfold load1 at 1. cbn [set_loaded n_loaded]. reflexivity.
    + assert (H : load1 s n = n) by (unfold load1; rewrite El, E; reflexivity).
      rewrite H. exact H.
Qed.
(* import() already loaded the root; loading it again gives what loading the un-imported root gives *)
Lemma load_imported_root u ls nx f :
  let s0 := fresh0 u ls nx in
  view_node (S f) s0 (load_node (S f) s0 (root (fresh u ls nx))) =
  view_node (S f) s0 (load_node (S f) s0 (root s0)).
Proof.
  cbv zeta. set (s0 := fresh0 u ls nx). unfold fresh, load_dir, bind, get_node. fold s0.
  cbn [nget]. change (n_loaded (root s0)) with false. cbn iota.
  destruct (scan_children s0 (root s0)) as [cs|e] eqn:E; rewrite ?E; [|reflexivity].
  unfold mod_node; cbn [snd root nupd].
  cbn [load_node]. destruct (load1_reals s0 (root s0)) as [Hr Hw]. rewrite Hw.
  assert (Hst : node_stat s0 (load1 s0 (root s0)) = node_stat s0 (root s0)) by (unfold node_stat; rewrite Hr; reflexivity).
  rewrite Hst, load1_idem. change (n_wh (root s0)) with false. cbn iota.
  destruct (node_stat s0 (root s0)) as [[m x ch| | |]|] eqn:Es; [rewrite ?Hw; reflexivity| | | |].
  all: exfalso; revert E; unfold scan_children; rewrite Es; cbn [is_dirT negb]; discriminate.
Qed.

Theorem scan_is_merge u ls nx : Forall layer_ok (all_layers u ls) ->
  view (load_all (fresh u ls nx)) = merge (all_layers u ls).
Proof.
  intros Hok. unfold view, merge, load_all. cbn [root].
  set (s0 := fresh0 u ls nx). set (s1 := fresh u ls nx).
  assert (L01 : same_layers s1 s0).
  { unfold s1, fresh, load_dir, bind, get_node. fold s0. cbn [nget].
    change (n_loaded (root s0)) with false. cbn iota.
    destruct (scan_children s0 (root s0)) eqn:E; rewrite ?E; split; reflexivity. }
  rewrite (view_node_ext _ s0); [|destruct L01 as [A B]; split; cbn; assumption].
  rewrite (load_node_ext s1 s0 _ L01).
  unfold DEPTH. subst s1 s0. rewrite (load_imported_root u ls nx 11).
  apply view_load. apply fresh0_root. exact Hok.
Qed.

(* hence: what a restarted instance shows is the union of what is on disk, for every state *)
Theorem restart_shows_union s : Forall layer_ok (all_layers (upper s) (lowers s)) ->
  view (load_all (restart s)) = merge (all_layers (upper s) (lowers s)).
Proof. intros H. unfold restart. apply scan_is_merge. exact H. Qed.
