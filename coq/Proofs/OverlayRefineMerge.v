(* Merge algebra: how a change of one layer changes the overlayfs union [merge].
   - [resolve_dir_spec]: the union of a stack of entries headed by a directory, as a finite map of names;
   - [merge_tupd]: replacing the entry [nm] of the directory at [pp] of the top layer changes the union
     exactly at [pp]/[nm] (to whatever the new group of candidates resolves to);
   - [resolve_tmap_ino]: an attribute / content change of all files with one identity commutes with the union. *)
From Coq Require Import List String Arith NArith Bool Lia.
From FB Require Import Model.Overlay Proofs.OverlayInv Proofs.OverlayScan Proofs.OverlayRestart
  Proofs.OverlayCoh Proofs.OverlayCohView Proofs.OverlayCopyUp Proofs.OverlayCohOps Proofs.OverlayRefineTeq.
Import ListNotations.
Local Open Scope N_scope.

(* ------------------------------------------------------------------ candidates *)
(* the entries named [k] of a list of directories, top first *)
Definition ents (k : name) (ds : list tree) : list tree := filter_map (fun d => afind k (dir_children d)) ds.
(* the candidate entries at path [p] (top first): what takes part in the union at [p]; tree-level analogue of [lstack] *)
Fixpoint mstack (es : list tree) (p : path) : list tree :=
  match p with [] => es | k :: p' => mstack (ents k (dir_stack es)) p' end.

Lemma mstack_snoc p : forall es k, mstack es (p ++ [k]) = ents k (dir_stack (mstack es p)).
Proof. induction p as [|c p IH]; intros es k; cbn [app mstack]; [reflexivity|apply IH]. Qed.

Lemma Forall_tl {A} (P : A -> Prop) l : Forall P l -> Forall P (tl l).
Proof. intros H. destruct H; [constructor|assumption]. Qed.
Lemma dir_stack_dirs es : Forall (fun d => is_dirT d = true) (dir_stack es).
Proof.
  induction es as [|t es IH]; cbn [dir_stack]; [constructor|]. destruct t; try constructor.
  destruct (xs_opaque xs); constructor; auto.
Qed.
Lemma dir_stack_In es d : In d (dir_stack es) -> In d es.
Proof.
  induction es as [|t es IH]; cbn [dir_stack]; [auto|]. destruct t; try (intros []).
  destruct (xs_opaque xs); intros [H|H]; [left; exact H|destruct H|left; exact H|right; auto].
Qed.
Lemma dir_stack_wf es : Forall wf es -> Forall wf (dir_stack es).
Proof. intros H. apply Forall_forall. intros d Hd. rewrite Forall_forall in H. apply H. apply dir_stack_In. exact Hd. Qed.
Lemma ents_wf k ds : Forall wf ds -> Forall wf (ents k ds).
Proof.
  induction 1 as [|d ds Hd _ IH]; cbn [ents filter_map]; [constructor|]. fold (ents k ds).
  destruct (afind k (dir_children d)) as [c|] eqn:E; [|exact IH]. constructor; [|exact IH].
  destruct d; cbn [dir_children] in E; try discriminate. inversion Hd as [? ? ? Hn Hall| | |]; subst.
  exact (Forall_afind (fun v => wf v) k ch c Hall E).
Qed.
Lemma mstack_wf p : forall es, Forall wf es -> Forall wf (mstack es p).
Proof. induction p as [|k p IH]; intros es H; cbn [mstack]; [exact H|]. apply IH. apply ents_wf. apply dir_stack_wf. exact H. Qed.

(* ------------------------------------------------------------------ collect_trees as a finite map *)
Lemma fold_add_tree ch : NoDup (map fst ch) -> forall acc k,
  afind k (fold_left add_tree ch acc) =
  match afind k ch with
  | Some c => Some (match afind k acc with Some a => a ++ [c] | None => [c] end)
  | None => afind k acc
  end.
Proof.
  induction ch as [|[k' c'] ch IH]; intros Hn acc k; cbn [fold_left afind]; [reflexivity|].
  cbn [map fst] in Hn. inversion Hn as [|? ? Hnot Hn']; subst.
  rewrite (IH Hn'). unfold add_tree at 1 2. cbn [fst snd]. rewrite afind_aset.
  destruct (String.eqb k k') eqn:E.
  - apply String.eqb_eq in E; subst k'.
    assert (Hnone : afind k ch = None) by (apply afind_none_notin; exact Hnot).
    rewrite Hnone. reflexivity.
  - reflexivity.
Qed.
Lemma keys_fold_add_tree ch : forall acc, NoDup (map fst acc) -> NoDup (map fst (fold_left add_tree ch acc)).
Proof.
  induction ch as [|e ch IH]; intros acc Hn; cbn [fold_left]; [exact Hn|].
  apply IH. unfold add_tree. apply keys_aset. exact Hn.
Qed.
Definition nodup_dir (d : tree) : Prop := NoDup (map fst (dir_children d)).
Lemma wf_nodup_dir d : wf d -> nodup_dir d.
Proof. intros W. destruct W; cbn; try constructor. assumption. Qed.
Lemma collect_spec ds : Forall nodup_dir ds -> forall acc, NoDup (map fst acc) ->
  let all := fold_left (fun a d => fold_left add_tree (dir_children d) a) ds acc in
  NoDup (map fst all) /\
  forall k, afind k all = match ents k ds with
                          | [] => afind k acc
                          | l => Some (match afind k acc with Some a => a ++ l | None => l end)
                          end.
Proof.
  induction 1 as [|d ds Hd _ IH]; intros acc Hn; cbn [fold_left ents filter_map]; [split; [exact Hn|reflexivity]|].
  fold (ents).
  specialize (IH (fold_left add_tree (dir_children d) acc) (keys_fold_add_tree _ _ Hn)). cbv zeta in IH. destruct IH as [A B].
  split; [exact A|]. intros k. rewrite B, (fold_add_tree _ Hd). fold (ents k ds).
  destruct (afind k (dir_children d)) as [c|]; [|reflexivity].
  destruct (ents k ds) as [|y l]; [reflexivity|].
  destruct (afind k acc); cbn [app]; rewrite <- ?app_assoc; reflexivity.
Qed.
Lemma collect_trees_spec ds : Forall nodup_dir ds ->
  NoDup (map fst (collect_trees ds)) /\
  forall k, afind k (collect_trees ds) = match ents k ds with [] => None | l => Some l end.
Proof.
  intros H. destruct (collect_spec ds H [] (NoDup_nil _)) as [A B]. split; [exact A|].
  intros k. unfold collect_trees. rewrite B. destruct (ents k ds); reflexivity.
Qed.

Lemma afind_filter_map_res {A B} (g : A -> option B) (l : list (name * A)) : NoDup (map fst l) -> forall k,
  afind k (filter_map (fun kv => match g (snd kv) with Some t => Some (fst kv, t) | None => None end) l) =
  match afind k l with Some v => g v | None => None end.
Proof.
  induction l as [|[a c] l IH]; intros Hn k; cbn [filter_map afind fst snd]; [reflexivity|].
  cbn [map fst] in Hn. inversion Hn as [|? ? Hnot Hn']; subst.
  destruct (String.eqb k a) eqn:E.
  - apply String.eqb_eq in E; subst a. destruct (g c) as [t|] eqn:Ev; cbn [afind fst snd].
    + rewrite String.eqb_refl. reflexivity.
    + rewrite (IH Hn'). assert (Hnone : afind k l = None) by (apply afind_none_notin; exact Hnot).
      rewrite Hnone. reflexivity.
  - destruct (g c) as [t|]; cbn [afind fst snd]; rewrite ?E; apply (IH Hn').
Qed.

(* the union of a stack of candidates headed by a directory *)
Lemma resolve_dir_spec f m x ch es : Forall wf (Dir m x ch :: es) ->
  exists chs, resolve (S f) (Dir m x ch :: es) = Some (Dir m (user_xs x) chs) /\ NoDup (map fst chs) /\
    forall k, afind k chs = resolve f (ents k (dir_stack (Dir m x ch :: es))).
Proof.
  intros W. cbn [resolve]. eexists. split; [reflexivity|].
  assert (Hnd : Forall nodup_dir (dir_stack (Dir m x ch :: es))).
  { eapply Forall_impl; [|apply dir_stack_wf; exact W]. apply wf_nodup_dir. }
  destruct (collect_trees_spec _ Hnd) as [A B]. split.
  - apply keys_filter_map_nodup; [|exact A]. intros [a c] y. cbn [fst snd]. destruct (resolve f c); intros H; inversion H; reflexivity.
  - intros k. rewrite (afind_filter_map_res (resolve f) _ A), B.
    destruct (ents k (dir_stack (Dir m x ch :: es))) as [|y l]; [|reflexivity].
    destruct f; reflexivity.
Qed.

Lemma resolve_wf f : forall es t, Forall wf es -> resolve f es = Some t -> wf t.
Proof.
  induction f as [|f IH]; intros es t W H; [discriminate|].
  destruct es as [|e es]; [discriminate|]. destruct e as [m x ch|i m d x|tg|].
  - destruct (resolve_dir_spec f m x ch es W) as (chs & E & N & K). rewrite E in H. inversion H; subst t.
    constructor; [exact N|]. apply Forall_forall. intros [k c] Hin. cbn [snd].
    assert (Hf : afind k chs = Some c) by (apply afind_In_nodup; assumption). rewrite K in Hf.
    eapply IH; [|exact Hf]. apply ents_wf. apply dir_stack_wf. exact W.
  - cbn in H. inversion H; subst. constructor.
  - cbn in H. inversion H; subst. constructor.
  - discriminate.
Qed.

Lemma dir_stack_head m x ch es : dir_stack (Dir m x ch :: es) = Dir m x ch :: tl (dir_stack (Dir m x ch :: es)).
Proof. cbn [dir_stack]. destruct (xs_opaque x); reflexivity. Qed.
Lemma dir_stack_tl_indep m x ch ch' es : tl (dir_stack (Dir m x ch' :: es)) = tl (dir_stack (Dir m x ch :: es)).
Proof. cbn [dir_stack]. destruct (xs_opaque x); reflexivity. Qed.
Lemma ents_cons k d ds : ents k (d :: ds) = match afind k (dir_children d) with Some c => c :: ents k ds | None => ents k ds end.
Proof. reflexivity. Qed.

(* ------------------------------------------------------------------ replacing one entry of one directory of the top layer *)
Definition setc (nm : name) (o : option tree) : tree -> tree :=
  match o with Some t => dir_ins nm t | None => dir_del nm end.
Definition only_at (nm : name) (G : list (name * tree) -> list (name * tree)) (ch : list (name * tree)) : Prop :=
  NoDup (map fst (G ch)) /\ (forall k, k <> nm -> afind k (G ch) = afind k ch) /\
  (forall c, afind nm (G ch) = Some c -> wf c).
Lemma wf_chmap_only nm G m x ch : wf (Dir m x ch) -> only_at nm G ch -> wf (Dir m x (G ch)).
Proof.
  intros W (A & B & C). inversion W as [? ? ? Hn Hall| | |]; subst. constructor; [exact A|].
  apply Forall_forall. intros [k c] Hin. cbn [snd].
  assert (Hf : afind k (G ch) = Some c) by (apply afind_In_nodup; assumption).
  destruct (String.eqb k nm) eqn:E.
  - apply String.eqb_eq in E; subst k. exact (C c Hf).
  - apply String.eqb_neq in E. rewrite (B k E) in Hf. exact (Forall_afind (fun v => wf v) k ch c Hall Hf).
Qed.
Lemma wf_tupd_at pp g : forall U d, wf U -> tget U pp = Some d -> wf (g d) -> wf (tupd pp g U).
Proof.
  induction pp as [|c pp IH]; intros U d W Hg Hd; cbn [tget tupd] in *; [inversion Hg; subst; exact Hd|].
  destruct U as [m x ch| | |]; try discriminate. destruct (afind c ch) as [y|] eqn:Ec; [|discriminate].
  inversion W as [? ? ? Hn Hall| | |]; subst. constructor; [rewrite keys_amap; exact Hn|].
  apply Forall_forall. intros [k v] Hin. cbn [snd].
  assert (Hf : afind k (amap c (tupd pp g) ch) = Some v) by (apply afind_In_nodup; [rewrite keys_amap; exact Hn|exact Hin]).
  rewrite afind_amap_gen in Hf. destruct (String.eqb c k) eqn:E.
  - apply String.eqb_eq in E; subst k. rewrite Ec in Hf. cbn in Hf. inversion Hf; subst v.
    apply (IH y d); auto. exact (Forall_afind (fun v => wf v) c ch y Hall Ec).
  - exact (Forall_afind (fun v => wf v) k ch v Hall Hf).
Qed.

Lemma resolve_tupd nm G f pp : forall e0 es m x ch,
  Forall wf (e0 :: es) -> tget e0 pp = Some (Dir m x ch) -> only_at nm G ch ->
  let stk := mstack (e0 :: es) pp in
  let newgrp := ents nm (dir_stack (Dir m x (G ch) :: tl stk)) in
  oteq (resolve (S f + List.length pp) (tupd pp (chmap G) e0 :: es))
       (option_map (tupd pp (setc nm (resolve f newgrp))) (resolve (S f + List.length pp) (e0 :: es))).
Proof.
  induction pp as [|k pp IH]; intros e0 es m x ch W Hg HG; cbv zeta; cbn [tget tupd mstack List.length] in *.
  - inversion Hg; subst e0. cbn [chmap tl]. rewrite Nat.add_0_r.
    assert (W' : Forall wf (Dir m x (G ch) :: es)).
    { inversion W; subst. constructor; [|assumption]. apply (wf_chmap_only nm); assumption. }
    destruct (resolve_dir_spec f m x ch es W) as (chs & -> & N & K).
    destruct (resolve_dir_spec f m x (G ch) es W') as (chs' & -> & N' & K').
    cbn [option_map oteq]. set (o := resolve f (ents nm (dir_stack (Dir m x (G ch) :: es)))).
    assert (Hoth : forall k, k <> nm -> afind k chs' = afind k chs).
    { intros k Hk. rewrite K, K', (dir_stack_head m x ch), (dir_stack_head m x (G ch)), !ents_cons.
      cbn [dir_children]. destruct HG as (_ & B & _). rewrite (B k Hk), (dir_stack_tl_indep m x ch (G ch)). reflexivity. }
    assert (Hwo : forall t, o = Some t -> wf t).
    { intros t Ht. eapply (resolve_wf f); [|exact Ht]. apply ents_wf. apply dir_stack_wf. exact W'. }
    assert (Hwc : forall k c, afind k chs = Some c -> wf c).
    { intros k c Hc. rewrite K in Hc. eapply (resolve_wf f); [|exact Hc]. apply ents_wf. apply dir_stack_wf. exact W. }
    assert (Hnm : afind nm chs' = o) by (rewrite K'; reflexivity).
    destruct o as [t|] eqn:Eo; cbn [setc dir_ins dir_del].
    + apply teq_dir'; [exact N'|apply keys_aset; exact N|]. intros k. rewrite afind_aset. destruct (String.eqb k nm) eqn:E.
      * apply String.eqb_eq in E; subst k. rewrite Hnm. cbn. apply teq_refl. apply Hwo. reflexivity.
      * apply String.eqb_neq in E. rewrite (Hoth k E). destruct (afind k chs) as [c|] eqn:Ec; cbn; [|exact I]. apply teq_refl. exact (Hwc k c Ec).
    + apply teq_dir'; [exact N'|apply keys_adel_nd; exact N|]. intros k. rewrite afind_adel. destruct (String.eqb k nm) eqn:E.
      * apply String.eqb_eq in E; subst k. rewrite Hnm. exact I.
      * apply String.eqb_neq in E. rewrite (Hoth k E). destruct (afind k chs) as [c|] eqn:Ec; cbn; [|exact I]. apply teq_refl. exact (Hwc k c Ec).
  - destruct e0 as [m0 x0 ch0| | |]; try discriminate. destruct (afind k ch0) as [e1|] eqn:Ek; [|discriminate].
    replace (S f + S (List.length pp))%nat with (S (S f + List.length pp)) by lia.
    set (n := (S f + List.length pp)%nat).
    assert (We1 : wf e1). { inversion W as [|? ? W0 _]; subst. inversion W0 as [? ? ? Hn Hall| | |]; subst. exact (Forall_afind (fun v => wf v) k ch0 e1 Hall Ek). }
    set (g := tupd pp (chmap G)).
    assert (W' : Forall wf (Dir m0 x0 (amap k g ch0) :: es)).
    { inversion W as [|? ? W0 Wes]; subst. constructor; [|exact Wes].
      change (Dir m0 x0 (amap k g ch0)) with (tupd (k :: pp) (chmap G) (Dir m0 x0 ch0)).
      apply (wf_tupd_at (k :: pp) (chmap G) _ (Dir m x ch)); [exact W0|cbn [tget]; rewrite Ek; exact Hg|].
      cbn [chmap]. apply (wf_chmap_only nm); [|exact HG]. apply (wf_tget _ W0 (k :: pp)). cbn [tget]. rewrite Ek. exact Hg. }
    destruct (resolve_dir_spec n m0 x0 ch0 es W) as (chs & -> & N & K).
    destruct (resolve_dir_spec n m0 x0 (amap k g ch0) es W') as (chs' & -> & N' & K').
    cbn [option_map oteq tupd].
    set (es1 := ents k (tl (dir_stack (Dir m0 x0 ch0 :: es)))).
    assert (Hstk : ents k (dir_stack (Dir m0 x0 ch0 :: es)) = e1 :: es1).
    { rewrite (dir_stack_head m0 x0 ch0), ents_cons. cbn [dir_children]. rewrite Ek. reflexivity. }
    assert (Hstk' : ents k (dir_stack (Dir m0 x0 (amap k g ch0) :: es)) = g e1 :: es1).
    { rewrite (dir_stack_head m0 x0 (amap k g ch0)), ents_cons. cbn [dir_children]. rewrite afind_amap, Ek. cbn [option_map].
      rewrite (dir_stack_tl_indep m0 x0 ch0). reflexivity. }
    assert (Wes1 : Forall wf (e1 :: es1)).
    { constructor; [exact We1|]. unfold es1. apply ents_wf. apply Forall_tl. apply dir_stack_wf. exact W. }
    rewrite Hstk. specialize (IH e1 es1 m x ch Wes1 Hg HG). cbv zeta in IH. fold n in IH.
    set (h := setc nm (resolve f (ents nm (dir_stack (Dir m x (G ch) :: tl (mstack (e1 :: es1) pp)))))) in *.
    assert (Hwc : forall k' c, afind k' chs = Some c -> wf c).
    { intros k' c Hc. rewrite K in Hc. eapply (resolve_wf n); [|exact Hc]. apply ents_wf. apply dir_stack_wf. exact W. }
    apply teq_dir'; [exact N'|rewrite keys_amap; exact N|]. intros k'. rewrite afind_amap_gen. destruct (String.eqb k k') eqn:E.
    + apply String.eqb_eq in E; subst k'. rewrite K', K, Hstk', Hstk. fold g in IH. exact IH.
    + rewrite K', K. rewrite (dir_stack_head m0 x0 ch0), (dir_stack_head m0 x0 (amap k g ch0)), !ents_cons. cbn [dir_children].
      rewrite (afind_amap_other _ _ _ _ E), (dir_stack_tl_indep m0 x0 ch0).
      match goal with |- oteq ?a ?a => destruct a as [c|] eqn:Ec; cbn; [|exact I] end.
      apply teq_refl. apply (Hwc k' c). rewrite K, (dir_stack_head m0 x0 ch0), ents_cons. cbn [dir_children]. exact Ec.
Qed.

Theorem merge_tupd nm G f pp u ls m x ch :
  Forall wf (u :: ls) -> tget u pp = Some (Dir m x ch) -> only_at nm G ch -> DEPTH = (S f + List.length pp)%nat ->
  let newgrp := ents nm (dir_stack (Dir m x (G ch) :: tl (mstack (u :: ls) pp))) in
  oteq (merge (tupd pp (chmap G) u :: ls))
       (option_map (tupd pp (setc nm (resolve f newgrp))) (merge (u :: ls))).
Proof. intros W Hg HG Hd. unfold merge. rewrite Hd. apply resolve_tupd; assumption. Qed.

(* ------------------------------------------------------------------ looking into the union *)
Lemma mstack_head p : forall e0 es t, tget e0 p = Some t -> exists r, mstack (e0 :: es) p = t :: r.
Proof.
  induction p as [|k p IH]; intros e0 es t H; cbn [tget mstack] in *; [inversion H; subst; eauto|].
  destruct e0 as [m x ch| | |]; try discriminate. destruct (afind k ch) as [e1|] eqn:Ek; [|discriminate].
  rewrite (dir_stack_head m x ch), ents_cons. cbn [dir_children]. rewrite Ek. apply IH. exact H.
Qed.
Lemma tget_resolve p : forall f e0 es t, Forall wf (e0 :: es) -> tget e0 p = Some t -> is_whT t = false ->
  exists r, resolve (S f + List.length p) (e0 :: es) = Some r /\ tget r p = resolve (S f) (mstack (e0 :: es) p).
Proof.
  induction p as [|k p IH]; intros f e0 es t W H Hw; cbn [tget mstack List.length] in *.
  - rewrite Nat.add_0_r. inversion H; subst e0. destruct t; try discriminate; cbn [resolve]; eauto.
  - destruct e0 as [m x ch| | |]; try discriminate. destruct (afind k ch) as [e1|] eqn:Ek; [|discriminate].
    replace (S f + S (List.length p))%nat with (S (S f + List.length p)) by lia.
    destruct (resolve_dir_spec (S f + List.length p) m x ch es W) as (chs & -> & N & K).
    eexists. split; [reflexivity|]. cbn [tget]. rewrite K.
    assert (Hstk : ents k (dir_stack (Dir m x ch :: es)) = e1 :: ents k (tl (dir_stack (Dir m x ch :: es)))).
    { rewrite (dir_stack_head m x ch), ents_cons. cbn [dir_children]. rewrite Ek. reflexivity. }
    rewrite Hstk.
    assert (We1 : Forall wf (e1 :: ents k (tl (dir_stack (Dir m x ch :: es))))).
    { rewrite <- Hstk. apply ents_wf. apply dir_stack_wf. exact W. }
    destruct (IH f e1 _ t We1 H Hw) as (r & -> & Hr). exact Hr.
Qed.
Lemma tget_merge f p u ls t : Forall wf (u :: ls) -> tget u p = Some t -> is_whT t = false -> DEPTH = (S f + List.length p)%nat ->
  exists r, merge (u :: ls) = Some r /\ tget r p = resolve (S f) (mstack (u :: ls) p).
Proof. intros W H Hw Hd. unfold merge. rewrite Hd. apply (tget_resolve p f u ls t); assumption. Qed.

(* ------------------------------------------------------------------ a change of every file with one identity commutes with the union *)
Fixpoint ino_in (i : N) (t : tree) : bool :=
  match t with
  | Dir _ _ ch => existsb (fun kv => ino_in i (snd kv)) ch
  | File j _ _ _ => i =? j
  | _ => false
  end.
Lemma tmap_ino_noino i g t : ino_in i t = false -> tmap_ino i g t = t.
Proof.
  induction t as [m x ch IH|j m d x|tg|] using tree_ind2; cbn [ino_in tmap_ino]; intros H; try reflexivity.
  - f_equal. induction IH as [|[k c] l Hc _ IHl]; cbn [map existsb] in *; [reflexivity|].
    apply orb_false_iff in H. destruct H as [H1 H2]. cbn [fst snd] in *. rewrite (Hc H1), (IHl H2). reflexivity.
  - rewrite H. reflexivity.
Qed.
(* the change commutes with hiding the overlay's private xattrs *)
Definition hide_comm (g : tree -> tree) : Prop := forall j m d x, exists m' d' x',
  g (File j m d x) = File j m' d' x' /\ g (File j m d (user_xs x)) = File j m' d' (user_xs x').

Section MapT.
Variables (i : N) (g : tree -> tree).
Hypothesis Hg : hide_comm g.
Let T := tmap_ino i g.
Let macc (acc : list (name * list tree)) := map (fun kg => (fst kg, map T (snd kg))) acc.

Lemma map_aset {A B} (h : A -> B) k v (l : list (name * A)) :
  map (fun kv => (fst kv, h (snd kv))) (aset k v l) = aset k (h v) (map (fun kv => (fst kv, h (snd kv))) l).
Proof.
  induction l as [|[a y] l IH]; cbn [aset map fst snd]; [reflexivity|].
  destruct (String.eqb k a); cbn [map fst snd]; [reflexivity|rewrite IH; reflexivity].
Qed.
Lemma dir_stack_map es : dir_stack (map T es) = map T (dir_stack es).
Proof.
  induction es as [|e es IH]; [reflexivity|]. destruct e as [m x ch|j m d x|tg|]; cbn [map dir_stack]; try reflexivity.
  - unfold T at 1. cbn [tmap_ino]. cbn [dir_stack]. destruct (xs_opaque x); cbn [map]; unfold T at 1; cbn [tmap_ino]; [reflexivity|].
    f_equal. exact IH.
  - unfold T. cbn [tmap_ino]. destruct (i =? j); [|reflexivity].
    destruct (Hg j m d x) as (m' & d' & x' & -> & _). reflexivity.
Qed.
Lemma fold_add_map ch : forall acc,
  fold_left add_tree (map (fun kv => (fst kv, T (snd kv))) ch) (macc acc) = macc (fold_left add_tree ch acc).
Proof.
  induction ch as [|[k c] ch IH]; intros acc; cbn [map fold_left]; [reflexivity|].
  rewrite <- IH. f_equal. unfold add_tree, macc. cbn [fst snd]. rewrite map_aset, afind_map_snd'.
  destruct (afind k acc); cbn [option_map]; rewrite ?map_app; reflexivity.
Qed.
Lemma collect_map ds : forall acc,
  fold_left (fun a d => fold_left add_tree (dir_children d) a) (map T ds) (macc acc) =
  macc (fold_left (fun a d => fold_left add_tree (dir_children d) a) ds acc).
Proof.
  induction ds as [|d ds IH]; intros acc; cbn [map fold_left]; [reflexivity|].
  rewrite <- IH. f_equal. destruct d as [m x ch|j m0 d0 x|tg|]; unfold T; cbn [tmap_ino dir_children fold_left]; try reflexivity.
  - apply fold_add_map.
  - destruct (i =? j); [|reflexivity]. destruct (Hg j m0 d0 x) as (m' & d' & x' & -> & _). reflexivity.
Qed.
Lemma resolve_map f : forall es, resolve f (map T es) = option_map T (resolve f es).
Proof.
  induction f as [|f IH]; intros es; [reflexivity|]. destruct es as [|e es]; [reflexivity|].
  destruct e as [m x ch|j m d x|tg|]; cbn [map].
  - unfold T at 1. cbn [tmap_ino]. cbn [resolve option_map]. unfold T at 2. cbn [tmap_ino]. f_equal. f_equal.
    change (Dir m x (map (fun kv => (fst kv, tmap_ino i g (snd kv))) ch)) with (T (Dir m x ch)).
    change (T (Dir m x ch) :: map T es) with (map T (Dir m x ch :: es)). rewrite dir_stack_map.
    unfold collect_trees. change (@nil (name * list tree)) with (macc []) at 1. rewrite collect_map.
    generalize (fold_left (fun a d => fold_left add_tree (dir_children d) a) (dir_stack (Dir m x ch :: es)) []).
    intros C. induction C as [|[k grp] C IHC]; cbn [macc map filter_map fst snd]; [reflexivity|].
    fold (macc C). rewrite IH, IHC. destruct (resolve f grp); reflexivity.
  - unfold T. cbn [tmap_ino]. destruct (i =? j) eqn:E.
    + destruct (Hg j m d x) as (m' & d' & x' & E1 & E2). rewrite E1.
      cbn [resolve option_map hide_xs tmap_ino]. rewrite E, E2. reflexivity.
    + cbn [resolve option_map hide_xs tmap_ino]. rewrite E. reflexivity.
  - reflexivity.
  - reflexivity.
Qed.
End MapT.

Theorem merge_tmap_ino i g u ls : hide_comm g -> forallb (fun l => negb (ino_in i l)) ls = true ->
  merge (tmap_ino i g u :: ls) = option_map (tmap_ino i g) (merge (u :: ls)).
Proof.
  intros Hg Hn. unfold merge. rewrite <- (resolve_map i g Hg). cbn [map]. f_equal. f_equal.
  induction ls as [|l ls IH]; [reflexivity|]. cbn [forallb map] in *. apply andb_prop in Hn. destruct Hn as [H1 H2].
  rewrite (tmap_ino_noino i g l), <- IH; auto. apply negb_true_iff. exact H1.
Qed.

(* ------------------------------------------------------------------ the attribute / content changes of the model commute with hiding *)
Lemma user_xs_aset k v x : is_opq_name k = false -> user_xs (aset k v x) = aset k v (user_xs x).
Proof.
  intros Hk. unfold user_xs. induction x as [|[a y] x IH]; cbn [aset filter fst]; [rewrite Hk; reflexivity|].
  destruct (String.eqb k a) eqn:E.
  - apply String.eqb_eq in E; subst a. cbn [filter fst]. rewrite Hk. cbn [negb aset]. rewrite String.eqb_refl. reflexivity.
  - cbn [filter fst]. destruct (negb (is_opq_name a)); cbn [aset]; rewrite ?E, IH; reflexivity.
Qed.
Lemma user_xs_adel k x : user_xs (adel k x) = adel k (user_xs x).
Proof.
  unfold user_xs. induction x as [|[a y] x IH]; cbn [adel filter fst]; [reflexivity|].
  destruct (String.eqb k a) eqn:E.
  - destruct (negb (is_opq_name a)); cbn [adel]; rewrite ?E; exact IH.
  - cbn [filter fst]. destruct (negb (is_opq_name a)); cbn [adel]; rewrite ?E, IH; reflexivity.
Qed.
Lemma afind_user_xs k (x : xattrs) : is_opq_name k = false -> afind k (user_xs x) = afind k x.
Proof.
  intros Hk. unfold user_xs. induction x as [|[a y] x IH]; cbn [filter afind fst]; [reflexivity|].
  destruct (String.eqb k a) eqn:E.
  - apply String.eqb_eq in E; subst a. rewrite Hk. cbn [negb afind]. rewrite String.eqb_refl. reflexivity.
  - destruct (negb (is_opq_name a)); cbn [afind]; rewrite ?E; exact IH.
Qed.
Lemma hide_comm_set_mode mo : hide_comm (set_mode mo).
Proof. intros j m d x. cbn. eauto 6. Qed.
Lemma hide_comm_set_data h : hide_comm (set_data h).
Proof. intros j m d x. cbn. eauto 6. Qed.
Lemma hide_comm_set_xs k v : is_opq_name k = false -> hide_comm (set_xs k v).
Proof. intros Hk j m d x. cbn. exists m, d, (aset k v x). split; [reflexivity|]. rewrite user_xs_aset by exact Hk. reflexivity. Qed.
Lemma hide_comm_del_xs k : hide_comm (del_xs k).
Proof. intros j m d x. cbn. exists m, d, (adel k x). split; [reflexivity|]. rewrite user_xs_adel. reflexivity. Qed.
