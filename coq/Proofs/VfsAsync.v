(* The async twin (impl AsyncFileSystem for Vfs): each re-implemented method is its sync twin with the backend's
   async method called instead -- same routing, same inode numbers, same id translation -- except async_getattr on a
   pseudo directory, which skips convert_attr. *)
From Coq Require Import List NArith Bool Lia.
From FB Require Import Model.Pseudo Gen.VfsTable Model.Vfs Proofs.VfsCodec Proofs.VfsAlloc Proofs.VfsInv Proofs.VfsRouting
  Proofs.VfsIssued Proofs.PseudoWalk Proofs.VfsIdmap.
Import ListNotations.
Local Open Scope N_scope.

(* the ten re-implemented methods (table regenerated from src/api/vfs/async_io.rs) *)
Lemma async_twins_are : async_twins = [m_lookup; m_getattr; m_setattr; m_open; m_create; m_read; m_write; m_fsync; m_fallocate; m_fsyncdir].
Proof. reflexivity. Qed.

(* same answer, same calls (tagged as async), for every one of the ten operations, on every state *)
Theorem vfs_async_same : forall s c o a, has_async_twin o = true -> vfs_async_op s c o a = tagged (vfs_op s c o a).
Proof. intros s c o a Ht. unfold vfs_async_op. rewrite Ht. reflexivity. Qed.

Theorem vfs_async_events : forall s c o a, has_async_twin o = true ->
  snd (vfs_async_op s c o a) = map tag_async (snd (vfs_op s c o a)).
Proof. intros s c o a Ht. rewrite (vfs_async_same s c o a Ht). reflexivity. Qed.

Lemma Forall_map_tagged {A B} (f : A -> B) (P : A -> Prop) l : Forall P l -> Forall (fun y => exists x, P x /\ y = f x) (map f l).
Proof. induction 1 as [|x r Hx _ IH]; [constructor|]. cbn [map]. constructor; [exists x; auto|exact IH]. Qed.

(* hence routing (C07) carries over verbatim: every async call goes to the owner with the backend's own inode *)
Theorem async_routing : forall s c o a r evs, wf s -> has_async_twin o = true -> vfs_async_op s c o a = (r, evs) ->
  Forall (fun ev => exists ev0, routed s o ev0 /\ ev = tag_async ev0) evs.
Proof.
  intros s c o a r evs W Ht H. pose proof (vfs_async_events s c o a Ht) as E. rewrite H in E. cbn [snd] in E. subst evs.
  apply Forall_map_tagged. exact (routing s c o a (fst (vfs_op s c o a)) (snd (vfs_op s c o a)) W (surjective_pairing _)).
Qed.

(* and the context ids every async call carries are those of the sync twin (C14 in) *)
Theorem async_ctx_in : forall s hdr c o a r evs, has_async_twin o = true -> vfs_request_async s hdr c o a = (r, evs) ->
  Forall (fun ev => Some (ev_cuid ev) = to_int (effective_mapping s (ctx_idx s hdr)) (c_uid c) /\
                    Some (ev_cgid ev) = to_int (effective_mapping s (ctx_idx s hdr)) (c_gid c)) evs.
Proof.
  intros s hdr c o a r evs Ht H. unfold vfs_request_async, srv_remap_ctx in H.
  destruct (to_int (effective_mapping s (ctx_idx s hdr)) (c_uid c)) as [u|]; [|inversion H; constructor].
  destruct (to_int (effective_mapping s (ctx_idx s hdr)) (c_gid c)) as [g|]; [|inversion H; constructor].
  pose proof (vfs_async_events s (mkC u g) o a Ht) as E. rewrite H in E. cbn [snd] in E. subst evs.
  pose proof (Forall_map_tagged tag_async _ _ (vfs_op_ctx s (mkC u g) o a _ _ (surjective_pairing _))) as R.
  eapply Forall_impl; [|exact R]. cbn beta. intros ev (ev0 & [A B] & ->).
  cbn [tag_async ev_cuid ev_cgid]. cbn [c_uid c_gid] in A, B. rewrite A, B. auto.
Qed.

(* ---------- async getattr answers like the sync getattr, pseudo directories included (fix 3199019) ---------- *)
Theorem async_getattr_full : forall s c n a,
  fst (vfs_async_op s c (OGetattr n) a) = fst (vfs_op s c (OGetattr n) a).
Proof. intros s c n a. rewrite vfs_async_same; reflexivity. Qed.

(* the former witness: global mapping (0,1000,65536); the pseudo directory 2 is owned by 1000:1000 for lookup, the sync
   getattr and now the async getattr as well *)
Example async_getattr_pseudo : reachable ex_gmap /\
  fst (vfs_async_op ex_gmap (mkC 0 0) (OGetattr 2) (mkAns 0 (mkE 0 0 0 0 0) (mkA 0 0 0 0) 0 [])) = Ok (RAttr (mkA 2 1000 1000 0)).
Proof. split; [exact (proj1 pseudo_owner_translated)|vm_compute; reflexivity]. Qed.

Example async_lookup_example : reachable ex_rootmap /\
  vfs_request_async ex_rootmap 1 (mkC 100005 100006) (OLookup 1 (NNorm 3)) (mkAns 0 (mkE 9 9 7 8 0) (mkA 0 0 0 0) 0 []) =
  (Ok (REntry (mkE (mk_vino 1 9) (mk_vino 1 9) 100007 100008 0)), [mkEv 10 (async_tag + m_lookup) 1 0 5 6 0 0]).
Proof. split; [exact (proj1 in_root_mount)|vm_compute; reflexivity]. Qed.
