(* C19: the unrestricted statement, its refutation by the recorded finding, witnesses that the covered histories are
   not trivial (index counter wrapped: attached mount at index 200, counter at 5), and what restore_mount leaves alone
   whatever is re-attached. *)
From Coq Require Import List NArith Bool Lia Permutation.
From FB Require Import Model.Pseudo Gen.VfsTable Model.Vfs Model.Persist Model.VfsRun Model.VfsLive
  Proofs.VfsInv Proofs.VfsPersist Proofs.VfsEq Proofs.VfsEqOps Proofs.VfsLiveInv Proofs.VfsRoundtrip Proofs.VfsObsEq.
Import ListNotations.
Local Open Scope N_scope.

(* the statement without any restriction on the history *)
Definition obs_equiv_full : Prop := forall ord c h ver dflt hint fut, perm_order ord ->
  skipn (S (length h)) (run_hist c (fill ord c (h ++ SSaveRestore ver dflt hint :: fut))) =
  skipn (length h) (run_hist c (fill ord c (h ++ fut))).

Definition cfg0 : cfg := mkCfg None false true true false false false false.

(* INIT without capability bits, save/restore, then the state is queried: `initialized` differs *)
Theorem obs_equiv_refuted : ~ obs_equiv_full.
Proof.
  intros F. specialize (F ord_idx cfg0 [SInit 0 0] 2 false [] [SQuery] ord_idx_perm).
  vm_compute in F. discriminate F.
Qed.

(* ---------- restore_mount never touches the counters, whatever is re-attached, in whatever order ---------- *)
Lemma insert_mount_next s bid e idx p : v_next (fst (insert_mount s bid e idx p)) = v_next s.
Proof.
  unfold insert_mount. destruct (ps_mount (v_ps s) p) as [[ps' inode]| |]; try reflexivity.
  destruct (convert_entry (with_ps s ps') idx (e_ino e) e); reflexivity.
Qed.
Lemma restore_mount_next s bid idx p a : v_next (fst (fst (vfs_restore_mount s bid idx p a))) = v_next s.
Proof.
  unfold vfs_restore_mount. destruct (negb (ma_err a =? 0)); [reflexivity|]. destruct (VFS_MAX_INO <? ma_max a); [reflexivity|].
  pose proof (insert_mount_next s bid (root_entry_of a) idx p) as H.
  destruct (insert_mount s bid (root_entry_of a) idx p) as [s' r]. exact H.
Qed.
Theorem reattach_keeps_counter : forall l t, v_next (fst (fst (fst (reattach_all t l)))) = v_next t.
Proof.
  induction l as [|[[[bid idx] p] a] r IH]; intros t; [reflexivity|]. cbn [reattach_all].
  pose proof (restore_mount_next t bid idx p a) as H1.
  destruct (vfs_restore_mount t bid idx p a) as [[s1 res] ev]. cbn [fst] in H1.
  destruct res; try (cbn [fst]; exact H1).
  - specialize (IH s1). destruct (reattach_all s1 r) as [[[s2 out] ev2] pn]. cbn [fst] in *. congruence.
  - specialize (IH s1). destruct (reattach_all s1 r) as [[[s2 out] ev2] pn]. cbn [fst] in *. congruence.
Qed.

(* ---------- a covered history in which the index counter has wrapped ---------- *)
Definition okma : mount_ans := mkMA 0 1 0 0 7 1000 0.
Definition burn (bid : N) : step := SMount bid (mkPath false [CNorm 9]) None okma.     (* fails after the allocation *)
Fixpoint burns (n : nat) (bid : N) : list step := match n with O => [] | S k => burn bid :: burns k (bid + 1) end.
(* indices 1..199 taken and given back, /n1 mounted at 200, 201..255 and 1..4 taken and given back: counter 5 *)
Definition wrap_h : list step := burns 199 1000 ++ [SMount 10 (mkPath true [CNorm 1]) None okma] ++ burns 59 2000.
Definition wrap_fut : list step :=
  [SMount 11 (mkPath true [CNorm 2]) None okma; SReq (mk_vino 200 1) (mkC 0 0) (OGetattr (mk_vino 200 1)) (mkAns 0 (mkE 0 0 0 0 0) (mkA 1 0 0 3) 0 [])].

Lemma wrap_state : let s := state_after cfg0 (vfs_of cfg0 false) wrap_h in
  v_next s = 5 /\ aget 200 (v_sb s) = Some 10 /\ aget 5 (v_sb s) = None /\ aget 199 (v_sb s) = None.
Proof. vm_compute. repeat split. Qed.

Lemma wrap_good : good ord_idx cfg0 (wrap_h ++ SSaveRestore 2 false [] :: wrap_fut) = true /\
                  good ord_idx cfg0 (wrap_h ++ SSaveRestore 1 true [] :: SSaveRestore 2 false [] :: wrap_fut) = true.
Proof. vm_compute. split; reflexivity. Qed.

(* what the theorem then says on it, evaluated: the mount after the save/restore gets index 5, as without it *)
Lemma wrap_next_index :
  nth 0 (skipn (S (length wrap_h)) (run_hist cfg0 (fill ord_idx cfg0 (wrap_h ++ SSaveRestore 2 false [] :: wrap_fut)))) [] =
  [0; 5; 1; 11; 100; 0; 0; 0; 0; 0; 0].
Proof. vm_compute. reflexivity. Qed.

(* ---------- the clause [paths_resolve] of [good] is needed: remove_pseudo_root and ".." in a mount path ----------
   /n1 and /n1/../n2 are mounted, /n1 is unmounted (its pseudo directory is evicted, it is a leaf); after save/restore,
   restore_mount with the recorded path "/n1/../n2" re-creates the pseudo directory n1: LOOKUP n1 in the root answers
   an entry with inode 4 where the never-saved Vfs answers ENOENT.  Reproduced on the implementation (notes/C19.md). *)
Definition cfg_rm : cfg := mkCfg None true true true false false false false.
Definition dotdot_h : list step :=
  [SMount 10 (mkPath true [CNorm 1]) None okma; SMount 11 (mkPath true [CNorm 1; CParent; CNorm 2]) None okma;
   SUmount (mkPath true [CNorm 1])].
Definition dotdot_fut : list step := [SReq 1 (mkC 0 0) (OLookup 1 (NNorm 1)) (mkAns 0 (mkE 0 0 0 0 0) (mkA 0 0 0 0) 0 [])].
Theorem stale_path_diverges :
  good ord_idx cfg_rm (dotdot_h ++ SSaveRestore 2 false [] :: dotdot_fut) = false /\
  skipn (S (length dotdot_h)) (run_hist cfg_rm (fill ord_idx cfg_rm (dotdot_h ++ SSaveRestore 2 false [] :: dotdot_fut))) = [[0; 4; 4; 0; 0; 0; 0]] /\
  skipn (length dotdot_h) (run_hist cfg_rm (fill ord_idx cfg_rm (dotdot_h ++ dotdot_fut))) = [[1; 0; 2; 0]].
Proof. vm_compute. repeat split. Qed.
