(* Proofs/TransportLoops.v -- exact behaviour of the two library loops over the transport primitives:
   Reader::read_exact_to (loop over read_to) and VirtioFsWriter::write_all_from (loop over write_from).
   The fuel of the model loops never runs out. *)
From Coq Require Import List Arith NArith Bool Lia ZifyBool ZifyNat ZifyN.
From FB Require Import Model.Transport Proofs.Transport Proofs.TransportMachine.
Import ListNotations.
Local Open Scope N_scope.
Arguments N.add : simpl never.
Arguments N.sub : simpl never.
Arguments N.min : simpl never.

Lemma adv_eq k k' b b' : k = k' -> adv k b b' -> adv k' b b'.
Proof. intros ->; auto. Qed.

(* read_exact_to with a sink that accepts at least one byte per call: all [count] bytes in order (possibly in
   several pieces), or UnexpectedEof with everything consumed *)
Lemma read_exact_to_loop_spec lim m : 1 <= lim -> forall fuel count b acc, wf_io b -> (N.to_nat count < fuel)%nat ->
  exists b', rd_read_exact_to_loop fuel count (Some lim) m b acc =
               ((if avail b <? count then RErr EEof
                 else ROk (lenN acc + count) (acc ++ map (mget m) (firstn (N.to_nat count) (flat (segs b))))), b') /\
             adv (N.min count (avail b)) b b' /\ wf_io b'.
Proof.
  intros Hlim fuel. induction fuel as [|f IH]; intros count b acc Hwf Hf; [lia|].
  cbn [rd_read_exact_to_loop]. destruct (N.eqb_spec count 0) as [->|Hc].
  - exists b. destruct (N.ltb_spec (avail b) 0); [lia|]. cbn [N.to_nat firstn map]. rewrite app_nil_r.
    replace (lenN acc + 0) with (lenN acc) by lia. replace (N.min 0 (avail b)) with 0 by lia.
    split; [reflexivity|]. split; [apply adv_0|exact Hwf].
  - destruct (io_read_spec count lim m b Hwf) as [b1 [E [F1 [C1 W1]]]].
    set (n := N.min (N.min count lim) (avail b)) in *. rewrite E.
    assert (Hadv1 : adv n b b1) by (unfold adv; repeat split; auto; subst n; lia).
    destruct n as [|pn] eqn:En.
    + (* nothing left *)
      assert (avail b = 0) by lia. exists b1. destruct (N.ltb_spec (avail b) count); [|lia].
      split; [reflexivity|]. split; [|exact W1]. eapply adv_eq; [|exact Hadv1]. lia.
    + rewrite <- En in *. assert (Hn : 0 < n) by lia. clear En.
      assert (Hav1 : avail b1 = avail b - n) by (pose proof (adv_avail _ _ _ Hadv1); lia).
      destruct (IH (count - n) b1 (acc ++ map (mget m) (firstn (N.to_nat n) (flat (segs b)))) W1) as [b' [E2 [A2 W2]]]; [lia|].
      rewrite E2. exists b'. split; [|split; [|exact W2]].
      * f_equal. rewrite Hav1.
        destruct (N.ltb_spec (avail b - n) (count - n)), (N.ltb_spec (avail b) count); try reflexivity; try lia.
        f_equal.
        -- rewrite lenN_app, lenN_map, lenN_firstn by (rewrite <- avail_flat; lia). lia.
        -- rewrite <- app_assoc. f_equal. rewrite <- map_app. f_equal. rewrite F1.
           replace (N.to_nat count) with (N.to_nat n + N.to_nat (count - n))%nat by lia. symmetry. apply firstn_add.
      * eapply adv_eq; [|eapply adv_trans; [exact Hadv1|exact A2]]. lia.
Qed.

Theorem read_exact_to_spec count lim m b : wf_io b -> 1 <= lim ->
  exists b', rd_read_exact_to count (Some lim) m b =
               ((if avail b <? count then RErr EEof
                 else ROk count (map (mget m) (firstn (N.to_nat count) (flat (segs b))))), b') /\
             adv (N.min count (avail b)) b b' /\ wf_io b'.
Proof.
  intros Hwf Hlim. unfold rd_read_exact_to.
  destruct (read_exact_to_loop_spec lim m Hlim (S (N.to_nat count)) count b [] Hwf) as [b' [E H]]; [lia|].
  exists b'. split; [|exact H]. rewrite E. unfold lenN; cbn [length app]. replace (N.of_nat 0 + count) with count by lia. reflexivity.
Qed.

(* write_all_from from a source holding [data]: all [count] bytes stored (contract wpost with k = count and
   values = the first count bytes of the source), or - short source - WriteZero after storing all of it *)
Lemma write_all_from_loop_spec : forall fuel count data m d b, wf_io b -> count <= avail b -> (N.to_nat count < fuel)%nat ->
  exists m' d' b' log,
    vw_write_all_from_loop fuel count (Some data) m d b =
      ((if lenN data <? count then RErr EEof else ROk 0 []), m', d', b') /\
    wpost m d b (N.min count (lenN data)) log m' d' b' /\
    map snd log = firstn (N.to_nat (N.min count (lenN data))) data.
Proof.
  induction fuel as [|f IH]; intros count data m d b Hwf Hav Hf; [lia|].
  cbn [vw_write_all_from_loop]. destruct (N.eqb_spec count 0) as [->|Hc].
  - exists m, d, b, []. destruct (N.ltb_spec (lenN data) 0); [lia|].
    replace (N.min 0 (lenN data)) with 0 by lia. cbn [N.to_nat firstn map].
    split; [reflexivity|]. split; [apply wpost_refl; exact Hwf|reflexivity].
  - destruct (vw_write_from_spec count (Some data) m d b Hwf) as [_ Hok]. specialize (Hok Hav). cbn zeta in Hok.
    destruct Hok as [m1 [d1 [b1 [log1 [E1 [P1 S1]]]]]]. rewrite E1.
    set (k := N.min count (lenN data)) in *.
    destruct k as [|pk] eqn:Ek.
    + exists m1, d1, b1, log1. destruct (N.ltb_spec (lenN data) count); [|lia]. auto.
    + rewrite <- Ek in *. assert (Hk : 0 < k) by lia. clear Ek.
      pose proof P1 as [A1 [W1 _]]. pose proof (adv_avail _ _ _ A1) as Hav1.
      destruct (IH (count - k) (skipn (N.to_nat k) data) m1 d1 b1 W1) as [m2 [d2 [b2 [log2 [E2 [P2 S2]]]]]]; [lia|lia|].
      cbn [option_map]. rewrite E2.
      assert (Hl : lenN (skipn (N.to_nat k) data) = lenN data - k) by (unfold lenN; rewrite skipn_length; lia).
      exists m2, d2, b2, (log1 ++ log2). split; [|split].
      * f_equal. f_equal. f_equal. rewrite Hl.
        destruct (N.ltb_spec (lenN data - k) (count - k)), (N.ltb_spec (lenN data) count); try reflexivity; lia.
      * replace k with (k + N.min (count - k) (lenN (skipn (N.to_nat k) data))) at 1 by (rewrite Hl; lia).
        eapply wpost_trans; eauto.
      * rewrite map_app, S1, S2, Hl.
        replace (N.to_nat k) with (N.to_nat k + N.to_nat (N.min (count - k) (lenN data - k)))%nat at 3 by lia.
        symmetry. apply firstn_add.
Qed.

Theorem write_all_from_spec count data m d b : wf_io b ->
  (avail b < count -> vw_write_all_from count (Some data) m d b = (RErr ENoSpace, m, d, b)) /\
  (count <= avail b ->
   exists m' d' b' log,
     vw_write_all_from count (Some data) m d b = ((if lenN data <? count then RErr EEof else ROk 0 []), m', d', b') /\
     wpost m d b (N.min count (lenN data)) log m' d' b' /\
     map snd log = firstn (N.to_nat (N.min count (lenN data))) data).
Proof.
  intro Hwf. unfold vw_write_all_from. split; intro H.
  - destruct (N.ltb_spec (avail b) count); [reflexivity|lia].
  - destruct (N.ltb_spec (avail b) count); [lia|]. apply write_all_from_loop_spec; auto; lia.
Qed.
