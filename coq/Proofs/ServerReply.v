(* C01: every reply that reaches /dev/fuse is one complete, well-formed message. *)
From Coq Require Import List String NArith Bool Lia Arith.
From FB Require Import Lib.Bytes Model.Server Proofs.ServerPerform.
Import ListNotations.
Local Open Scope N_scope.

(* a reply message as the kernel checks it in fuse_dev_do_write *)
Definition wellformed_reply (u : N) (p : bytes) : Prop :=
  dec (firstn 4 p) = blen p /\
  dec (firstn 8 (skipn 8 p)) = u mod 2 ^ 64 /\
  (dec (firstn 4 (skipn 4 p)) = 0 \/
   exists e, 1 <= e <= 4095 /\ dec (firstn 4 (skipn 4 p)) = 2 ^ 32 - e).

Definition action_wf (a : action) : Prop :=
  match a with
  | ReplyErr e _ | ReplySplitErr e => 1 <= e <= 4095
  | _ => True
  end.

Lemma hdr_len_field l e u r : dec (firstn 4 (out_header l e u ++ r)) = l mod 2 ^ 32.
Proof.
  unfold out_header. rewrite <- !app_assoc.
  rewrite take_app_exact by apply enc_length. rewrite dec_enc. reflexivity.
Qed.

Lemma hdr_err_field l e u r : dec (firstn 4 (skipn 4 (out_header l e u ++ r))) = e mod 2 ^ 32.
Proof.
  unfold out_header. rewrite <- !app_assoc.
  rewrite drop_app_exact by apply enc_length.
  rewrite take_app_exact by apply enc_length. rewrite dec_enc. reflexivity.
Qed.

Lemma hdr_unique_field l e u r : dec (firstn 8 (skipn 8 (out_header l e u ++ r))) = u mod 2 ^ 64.
Proof.
  unfold out_header. rewrite <- !app_assoc.
  rewrite (app_assoc (enc 4 l)).
  rewrite drop_app_exact by (rewrite app_length, !enc_length; reflexivity).
  rewrite take_app_exact by apply enc_length. rewrite dec_enc. reflexivity.
Qed.

Lemma neg32_small e : 1 <= e <= 4095 -> neg32 e mod 2 ^ 32 = 2 ^ 32 - e.
Proof.
  intro H. unfold neg32. change 4294967296 with (2 ^ 32).
  rewrite (N.mod_small e) by lia. rewrite N.mod_mod by lia. apply N.mod_small. lia.
Qed.

Lemma wf_ok_msg u body : 16 + blen body < 2 ^ 32 ->
  wellformed_reply u (out_header (16 + blen body) 0 u ++ body).
Proof.
  intro H. unfold wellformed_reply. rewrite hdr_len_field, hdr_unique_field, hdr_err_field.
  rewrite blen_app, out_header_len. repeat split.
  - apply N.mod_small. exact H.
  - left. reflexivity.
Qed.

Lemma wf_err_msg u e : 1 <= e <= 4095 -> wellformed_reply u (out_header 16 (neg32 e) u).
Proof.
  intro H. unfold wellformed_reply.
  rewrite <- (app_nil_r (out_header 16 (neg32 e) u)).
  rewrite hdr_len_field, hdr_unique_field, hdr_err_field.
  rewrite blen_app, out_header_len. repeat split.
  right. exists e. split; [exact H|]. apply neg32_small. exact H.
Qed.

Lemma out_header_app_nonempty l e u r : out_header l e u ++ r <> [].
Proof.
  intro H. apply (f_equal (@List.length N)) in H. rewrite app_length, out_header_length in H. discriminate.
Qed.

Lemma match_nonempty (l : bytes) :
  l <> [] -> match l with [] => @nil (list N) | n :: l' => [n :: l'] end = [l].
Proof. destruct l; [contradiction|reflexivity]. Qed.

Lemma match_nonempty' (l : bytes) :
  l <> [] -> [match l with [] => @nil N | _ :: _ => l end] = [l].
Proof. destruct l; [contradiction|reflexivity]. Qed.

Opaque out_header.

Lemma perform_err_wellformed w u e after p :
  w_kind w = FuseDev -> w_buf w = [] ->
  1 <= e <= 4095 -> In p (o_packets (perform_err w u e after)) -> wellformed_reply u p.
Proof.
  intros K Hb He. unfold perform_err.
  destruct (w_write w _) as [[w' pk]| |] eqn:E; cbn [o_packets out_ok out_panic]; try (intros []).
  destruct (w_write_packets _ _ _ _ E) as [P1 [P2 [P3 [P4 [P5 [P6 [P7 _]]]]]]].
  rewrite Hb in P5. cbn [app] in P5.
  assert (Hne : out_header OUT_HDR (neg32 e) u <> []).
  { rewrite <- (app_nil_r (out_header _ _ _)). apply out_header_app_nonempty. }
  destruct (w_buffered w) eqn:B.
  - rewrite (P1 eq_refl). cbn [app]. unfold w_commit. rewrite P4, K, P3, P5. cbn [negb].
    rewrite app_nil_r.
    destruct (out_header OUT_HDR (neg32 e) u) as [|n l] eqn:Hh; [exfalso; apply Hne; reflexivity|].
    intros [<-|[]]. rewrite <- Hh. apply wf_err_msg. exact He.
  - rewrite (P6 K eq_refl). unfold w_commit. rewrite P4, K, P3. cbn [negb app].
    destruct (out_header OUT_HDR (neg32 e) u) as [|n l] eqn:Hh; [exfalso; apply Hne; reflexivity|].
    intros [<-|[]]. rewrite <- Hh. apply wf_err_msg. exact He.
Qed.

Lemma w_split_fresh k cap w1 w2 :
  w_split (fresh k cap) OUT_HDR = Some (w1, w2) ->
  w1 = {| w_kind := k; w_buffered := true; w_buf := []; w_cap := OUT_HDR |} /\
  w2 = {| w_kind := k; w_buffered := true; w_buf := []; w_cap := cap - OUT_HDR |} /\
  OUT_HDR <= cap.
Proof.
  unfold w_split, fresh; cbn [w_cap w_buf w_kind w_buffered blen List.length].
  change (N.of_nat 0) with 0. rewrite !N.sub_0_r, N.add_0_l.
  destruct (N.ltb_spec cap OUT_HDR) as [Hlt|Hge]; [discriminate|].
  intro H; inversion H; subst. auto.
Qed.

Theorem perform_packets_wellformed cap u a p :
  cap < 2 ^ 32 -> action_wf a ->
  In p (o_packets (perform FuseDev cap u a)) -> wellformed_reply u p.
Proof.
  intros Hcap Hwf.
  assert (Hok : forall body w' pk,
             w_write (fresh FuseDev cap) (out_header (OUT_HDR + blen body) 0 u ++ body) = WOk (w', pk) ->
             In p pk -> wellformed_reply u p).
  { intros body w' pk E Hin.
    destruct (w_write_packets _ _ _ _ E) as [_ [_ [_ [_ [_ [P6 [_ P8]]]]]]].
    specialize (P6 eq_refl eq_refl). cbn [fresh w_buf w_cap app] in P8. specialize (P8 (N.le_0_l _)).
    rewrite blen_app, out_header_len in P8.
    rewrite P6 in Hin.
    pose proof (out_header_app_nonempty (OUT_HDR + blen body) 0 u body) as Hne.
    destruct (out_header (OUT_HDR + blen body) 0 u ++ body) as [|n l] eqn:Hh; [exfalso; apply Hne; reflexivity|].
    destruct Hin as [<-|[]]. rewrite <- Hh.
    apply wf_ok_msg. unfold OUT_HDR in *. lia. }
  destruct a as [r|body|e after|data|e|body]; unfold perform.
  - intros [].
  - destruct (w_write (fresh FuseDev cap) _) as [[w' pk]| |] eqn:E; cbn [o_packets out_ok out_panic]; try (intros []).
    eapply Hok; eauto.
  - apply perform_err_wellformed; auto; try exact Hwf.
  - destruct (w_split (fresh FuseDev cap) OUT_HDR) as [[w1 w2]|] eqn:S; [|intros []].
    destruct (w_split_fresh _ _ _ _ S) as [-> [-> Hge]].
    destruct (w_write _ data) as [[w2' p2]| |] eqn:E2; cbn [o_packets out_ok out_panic]; try (intros []).
    destruct (w_write_packets _ _ _ _ E2) as [Q1 [_ [Q3 [Q4 [Q5 [_ [_ Q8]]]]]]].
    rewrite (Q1 eq_refl). cbn [w_buf w_cap app] in Q5, Q8. specialize (Q8 (N.le_0_l _)).
    destruct (w_write _ (out_header _ _ _)) as [[w1' p1]| |] eqn:E1; cbn [o_packets out_ok out_panic]; try (intros []).
    destruct (w_write_packets _ _ _ _ E1) as [R1 [_ [R3 [R4 [R5 _]]]]].
    rewrite (R1 eq_refl). cbn [w_buf app] in R5. cbn [app].
    unfold w_commit. rewrite R4, R3, R5, Q5. cbn [w_kind w_buffered negb].
    assert (Hs : OUT_HDR + blen data < 2 ^ 32) by (unfold OUT_HDR in *; lia).
    change 4294967296 with (2 ^ 32). rewrite (N.mod_small _ _ Hs).
    pose proof (out_header_app_nonempty (OUT_HDR + blen data) 0 u data) as Hne.
    destruct (out_header (OUT_HDR + blen data) 0 u ++ data) as [|n l] eqn:Hh; [exfalso; apply Hne; reflexivity|].
    intros [<-|[]]. rewrite <- Hh.
    apply wf_ok_msg. exact Hs.
  - destruct (w_split (fresh FuseDev cap) OUT_HDR) as [[w1 w2]|] eqn:S; [|intros []].
    destruct (w_split_fresh _ _ _ _ S) as [-> [-> Hge]].
    apply perform_err_wellformed; auto; try exact Hwf.
  - destruct (w_write (fresh FuseDev cap) _) as [[w' pk]| |] eqn:E; cbn [o_packets out_ok out_panic]; try (intros []).
    eapply Hok; eauto.
Qed.
