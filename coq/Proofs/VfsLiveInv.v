(* The invariant of a Vfs driven by a caller that keeps the list of attached backends (Model/VfsLive.v):
   the mount table is well formed, the pseudo tree satisfies the tree invariant, and the caller's list describes
   exactly the mount points and the occupied superblock slots.  Preserved by every step that is not a save/restore,
   on the histories the theorem covers (step_good). *)
From Coq Require Import List NArith Bool Lia.
From FB Require Import Model.Pseudo Gen.VfsTable Model.Vfs Model.Persist Model.VfsRun Model.VfsLive
  Proofs.VfsCodec Proofs.VfsAlloc Proofs.VfsInv Proofs.VfsRouting Proofs.PseudoWalk Proofs.VfsPersist Proofs.PseudoTree
  Proofs.VfsEq Proofs.VfsEqOps.
Import ListNotations.
Local Open Scope N_scope.

(* the mount point data restore_mount / mount compute for an attached backend, in state s *)
Definition mpd_of (s : vfs) (l : lv) : option mpd :=
  match convert_entry s (l_idx l) (ma_ino (l_ans l)) (root_entry_of (l_ans l)) with
  | Ok e' => Some (mkMp (l_idx l) (ma_ino (l_ans l)) e')
  | _ => None
  end.

Record live_ok (s : vfs) (live : list lv) : Prop := mkLo {
  lo_mp : forall l, In l live -> exists m, aget (l_pino l) (v_mps s) = Some m /\ mpd_of s l = Some m;
  lo_sb : forall l, In l live -> aget (l_idx l) (v_sb s) = Some (l_bid l);
  lo_ans : forall l, In l live -> ma_err (l_ans l) = 0 /\ ma_max (l_ans l) <= VFS_MAX_INO;
  lo_all : forall p m, aget p (v_mps s) = Some m -> exists l, In l live /\ l_pino l = p;
  lo_sball : forall i b, aget i (v_sb s) = Some b -> exists l, In l live /\ l_idx l = i;
  lo_nodup : NoDup (map l_pino live) }.

Record inv (c : cfg) (s : vfs) (live : list lv) : Prop := mkInv {
  i_wf : wf s;
  i_tree : tree_ok (v_ps s);
  i_ps : ps_ok (v_ps s);
  i_rm : v_rm s = cf_rm c;
  i_gmap : v_gmap s = v_gmap (vfs_of c false);
  i_live : live_ok s live }.

Lemma inv_new c : inv c (vfs_of c false) [].
Proof.
  constructor.
  - apply wf_new.
  - apply tree_new.
  - apply ps_ok_new.
  - reflexivity.
  - reflexivity.
  - constructor; cbn; try (intros; contradiction); try (intros; discriminate). constructor.
Qed.

(* ---------- mpd_of depends on the state through the mapping in force at the slot only ---------- *)
Lemma convert_entry_eff s s' idx ino e : effective_mapping s' idx = effective_mapping s idx ->
  convert_entry s' idx ino e = convert_entry s idx ino e.
Proof. intros E. unfold convert_entry. rewrite E. reflexivity. Qed.
Lemma mpd_of_eff s s' l : effective_mapping s' (l_idx l) = effective_mapping s (l_idx l) -> mpd_of s' l = mpd_of s l.
Proof. intros E. unfold mpd_of. rewrite (convert_entry_eff _ _ _ _ _ E). reflexivity. Qed.

Lemma mpd_of_idx s l m : mpd_of s l = Some m -> mp_idx m = l_idx l /\ mp_ino m = ma_ino (l_ans l).
Proof. unfold mpd_of. destruct (convert_entry _ _ _ _); try discriminate. intros H. inversion H. auto. Qed.

(* the slot of an attached backend is the slot of its mount point *)
Lemma live_slot s live l m : live_ok s live -> In l live -> aget (l_pino l) (v_mps s) = Some m -> mp_idx m = l_idx l.
Proof.
  intros L Hin Hm. destruct (lo_mp _ _ L l Hin) as (m' & A & B). rewrite A in Hm. inversion Hm; subst m'.
  apply (mpd_of_idx _ _ _ B).
Qed.

(* two attached backends in the same slot are the same mount point *)
Lemma live_slot_inj s live l p m : wf s -> live_ok s live -> In l live -> aget p (v_mps s) = Some m ->
  l_idx l = mp_idx m -> l_pino l = p.
Proof.
  intros W L Hin Hm E. destruct (lo_mp _ _ L l Hin) as (m' & A & B). destruct (mpd_of_idx _ _ _ B) as [B1 _].
  apply (wf_inj s W _ _ _ _ A Hm). congruence.
Qed.

Lemma live_ok_same s s' live : live_ok s live ->
  (forall j, aget j (v_mps s') = aget j (v_mps s)) -> (forall j, aget j (v_sb s') = aget j (v_sb s)) ->
  (forall l, In l live -> effective_mapping s' (l_idx l) = effective_mapping s (l_idx l)) -> live_ok s' live.
Proof.
  intros [A B C D E F] Hm Hs He. constructor.
  - intros l Hin. destruct (A l Hin) as (m & A1 & A2). exists m. rewrite Hm, (mpd_of_eff _ _ _ (He l Hin)). auto.
  - intros l Hin. rewrite Hs. apply B. exact Hin.
  - exact C.
  - intros p m. rewrite Hm. apply D.
  - intros i b. rewrite Hs. apply E.
  - exact F.
Qed.

Lemma live_ok_veq s t live : veq s t -> live_ok s live -> live_ok t live.
Proof.
  intros Q L. apply (live_ok_same s t live L).
  - intros j. symmetry. apply (q_mps _ _ Q).
  - intros j. symmetry. apply (q_sb _ _ Q).
  - intros l _. symmetry. apply effective_mapping_veq. exact Q.
Qed.

(* ---------- the list operations ---------- *)
Lemma in_ins_live x : forall l y, In y (ins_live x l) <-> y = x \/ In y l.
Proof.
  induction l as [|z r IH]; intros y; cbn [ins_live].
  - cbn. split; [intros [H|[]]; auto|intros [H|[]]; auto].
  - destruct (l_idx x <? l_idx z); cbn [In]; [split; [intros [H|H]; auto|intros [H|H]; auto]|].
    rewrite IH. split; [intros [H|[H|H]]; auto|intros [H|[H|H]]; auto].
Qed.
Lemma in_drop_pino i live y : In y (drop_pino i live) <-> In y live /\ l_pino y <> i.
Proof.
  unfold drop_pino. rewrite filter_In. split; intros [A B]; (split; [exact A|]).
  - apply negb_true_iff, N.eqb_neq in B. exact B.
  - apply negb_true_iff, N.eqb_neq. exact B.
Qed.
Lemma nodup_drop i : forall live, NoDup (map l_pino live) -> NoDup (map l_pino (drop_pino i live)).
Proof.
  induction live as [|x r IH]; intros ND; [constructor|]. inversion ND as [|? ? Hn ND']; subst.
  unfold drop_pino in *. cbn [filter]. destruct (negb (l_pino x =? i)); [|apply IH; exact ND'].
  cbn [map]. constructor; [|apply IH; exact ND']. intros H. apply Hn. rewrite in_map_iff in *.
  destruct H as (y & E & Hy). exists y. split; [exact E|]. apply filter_In in Hy. apply Hy.
Qed.
Lemma nodup_ins x : forall l, NoDup (map l_pino l) -> ~ In (l_pino x) (map l_pino l) -> NoDup (map l_pino (ins_live x l)).
Proof.
  induction l as [|z r IH]; intros ND Hn; cbn [ins_live].
  - cbn. constructor; [intros []|constructor].
  - destruct (l_idx x <? l_idx z); [cbn [map]; constructor; assumption|].
    inversion ND as [|? ? Hz ND']; subst. cbn [map]. constructor.
    + intros H. rewrite in_map_iff in H. destruct H as (y & E & Hy). apply in_ins_live in Hy. destruct Hy as [-> | Hy].
      * apply Hn. left. symmetry. exact E.
      * apply Hz. rewrite <- E. apply in_map. exact Hy.
    + apply IH; [exact ND'|]. intros H. apply Hn. right. exact H.
Qed.

(* ---------- init / destroy touch the options and the flag only ---------- *)
Lemma vfs_init_frame s o e : let s' := fst (fst (vfs_init s o e)) in
  v_next s' = v_next s /\ v_ps s' = v_ps s /\ v_mps s' = v_mps s /\ v_sb s' = v_sb s /\ v_maps s' = v_maps s /\
  v_rm s' = v_rm s /\ v_gmap s' = v_gmap s.
Proof.
  unfold vfs_init. destruct (v_init s); [cbn; repeat split|].
  remember (sb_in_order 256 0 (v_sb s)) as bs eqn:Hbs. clear Hbs.
  destruct (o_no_open (v_opts s)); destruct (o_no_opendir (v_opts s)); cbv beta iota zeta;
  destruct bs; try destruct (negb (e =? 0)); cbn; repeat split.
Qed.
Lemma vfs_destroy_frame s : let s' := fst (vfs_destroy s) in
  v_next s' = v_next s /\ v_ps s' = v_ps s /\ v_mps s' = v_mps s /\ v_sb s' = v_sb s /\ v_maps s' = v_maps s /\
  v_rm s' = v_rm s /\ v_gmap s' = v_gmap s.
Proof.
  unfold vfs_destroy. remember (sb_in_order 256 0 (v_sb s)) as bs eqn:Hbs. clear Hbs. destruct (v_init s); cbn; repeat split.
Qed.

Lemma inv_frame c s s' live : inv c s live -> wf s' ->
  v_ps s' = v_ps s -> v_mps s' = v_mps s -> v_sb s' = v_sb s -> v_maps s' = v_maps s -> v_rm s' = v_rm s -> v_gmap s' = v_gmap s ->
  inv c s' live.
Proof.
  intros [W T P R G L] W' Hps Hm Hs Hmaps Hrm Hg. constructor.
  - exact W'.
  - rewrite Hps. exact T.
  - rewrite Hps. exact P.
  - congruence.
  - congruence.
  - apply (live_ok_same s s' live L).
    + intros j. rewrite Hm. reflexivity.
    + intros j. rewrite Hs. reflexivity.
    + intros l _. unfold effective_mapping. rewrite Hmaps, Hg. reflexivity.
Qed.

Lemma inv_init c s live o e : inv c s live -> inv c (fst (fst (vfs_init s o e))) live.
Proof.
  intros I. destruct (vfs_init_frame s o e) as (_ & A & B & C & D & E & F).
  apply (inv_frame c s _ live I); try assumption.
  eapply vfs_init_wf; [exact (i_wf _ _ _ I)|apply triple_eta].
Qed.
Lemma inv_destroy c s live : inv c s live -> inv c (fst (vfs_destroy s)) live.
Proof.
  intros I. destruct (vfs_destroy_frame s) as (_ & A & B & C & D & E & F).
  apply (inv_frame c s _ live I); try assumption.
  eapply vfs_destroy_wf; [exact (i_wf _ _ _ I)|apply surjective_pairing].
Qed.

(* ---------- mount ---------- *)
Lemma vfs_mount_tree s bid p map a s' r evs : tree_ok (v_ps s) -> ps_ok (v_ps s) ->
  ps_next (v_ps s) + N.of_nat (length (p_comps p)) <= two56 ->
  vfs_mount s bid p map a = (s', r, evs) -> tree_ok (v_ps s') /\ ps_ok (v_ps s') /\ v_rm s' = v_rm s /\ v_gmap s' = v_gmap s.
Proof.
  intros T OK Hb Hm. pose proof OK as (KL & _ & _). unfold vfs_mount in Hm.
  destruct (negb (ma_err a =? 0)); [inversion Hm; subst; auto|].
  destruct (VFS_MAX_INO <? ma_max a); [inversion Hm; subst; auto|].
  destruct (v_init s && negb (ma_init_err a =? 0)); [inversion Hm; subst; auto|].
  destruct (allocate_fs_idx s) as [[i| |] nx]; try (inversion Hm; subst; cbn; auto).
  set (s2 := with_maps (with_next s nx) (match map with Some m => aset i m (v_maps (with_next s nx)) | None => adel i (v_maps (with_next s nx)) end)) in *.
  assert (Hps : v_ps s2 = v_ps s) by reflexivity.
  destruct (insert_mount s2 bid (root_entry_of a) i p) as [s3 r3] eqn:Ei.
  destruct (insert_mount_tree s2 bid (root_entry_of a) i p s3 r3) as (T3 & _ & Hrm3); try (rewrite Hps; assumption); [exact Ei|].
  assert (OK3 : ps_ok (v_ps s3)) by (eapply insert_mount_ps; [rewrite Hps; exact OK|rewrite Hps; exact Hb|exact Ei]).
  assert (Hg3 : v_gmap s3 = v_gmap s).
  { unfold insert_mount in Ei. destruct (ps_mount (v_ps s2) p) as [[ps' inode]| |]; try (inversion Ei; subst; reflexivity).
    destruct (convert_entry (with_ps s2 ps') i (e_ino (root_entry_of a)) (root_entry_of a)); inversion Ei; subst; reflexivity. }
  destruct r3; inversion Hm; subst; cbn [with_maps v_ps v_rm v_gmap]; auto.
Qed.

Lemma mount_walk_existing : forall cs s cur i, ps_walk s cur cs = Ok (Some i) -> ps_mount_walk s cur cs = Ok (s, i).
Proof.
  induction cs as [|c r IH]; intros s cur i H; [cbn in *; inversion H; reflexivity|].
  cbn [ps_walk ps_mount_walk] in *. destruct (aget cur (ps_inodes s)) as [pn|]; [|discriminate]. destruct c as [|k].
  - destruct (aget (pi_parent pn) (ps_inodes s)); [apply IH; exact H|discriminate].
  - destruct (find_child k (pi_children pn)) as [ci|]; [|discriminate].
    destruct (aget ci (ps_inodes s)); [apply IH; exact H|discriminate].
Qed.

Lemma inv_mount c s live bid p map a : inv c s live ->
  ps_next (v_ps s) + N.of_nat (length (p_comps p)) <= two56 ->
  inv c (fst (fst (vfs_mount s bid p map a))) (live_step s (SMount bid p map a) live).
Proof.
  intros [W T P R G L] Hb.
  destruct (vfs_mount s bid p map a) as [[s' r] evs] eqn:Hm. cbn [fst].
  pose proof (vfs_mount_wf _ _ _ _ _ _ _ _ W Hm) as W'.
  destruct (vfs_mount_tree _ _ _ _ _ _ _ _ T P Hb Hm) as (T' & P' & R' & G').
  constructor; try assumption; try congruence.
  cbn [live_step]. rewrite Hm.
  pose proof P as (KL & _ & _).
  unfold vfs_mount in Hm.
  destruct (negb (ma_err a =? 0)) eqn:Eerr; [inversion Hm; subst; exact L|].
  destruct (VFS_MAX_INO <? ma_max a) eqn:Emax; [inversion Hm; subst; exact L|].
  destruct (v_init s && negb (ma_init_err a =? 0)); [inversion Hm; subst; exact L|].
  destruct (allocate_fs_idx s) as [ao nx] eqn:Ea.
  destruct ao as [idx| |].
  2:{ inversion Hm; subst. apply (live_ok_same s _ live L); intros; reflexivity. }
  2:{ inversion Hm; subst. apply (live_ok_same s _ live L); intros; reflexivity. }
  destruct (allocate_free _ _ _ W Ea) as (Hidx & Hfree & _).
  set (m2 := match map with Some m => aset idx m (v_maps (with_next s nx)) | None => adel idx (v_maps (with_next s nx)) end) in *.
  set (s2 := with_maps (with_next s nx) m2) in *.
  (* attached backends do not sit in the free slot *)
  assert (Hlidx : forall l, In l live -> l_idx l <> idx).
  { intros l Hin E. pose proof (lo_sb _ _ L l Hin) as Hs. rewrite E, Hfree in Hs. discriminate. }
  assert (Heff2 : forall s3, v_maps s3 = m2 \/ v_maps s3 = adel idx m2 -> v_gmap s3 = v_gmap s ->
                  forall l, In l live -> effective_mapping s3 (l_idx l) = effective_mapping s (l_idx l)).
  { intros s3 Hmaps Hg l Hin. unfold effective_mapping. rewrite Hg. pose proof (Hlidx l Hin) as Hne.
    assert (E : aget (l_idx l) (v_maps s3) = aget (l_idx l) (v_maps s)).
    { destruct Hmaps as [-> | ->]; [|rewrite aget_adel_other by exact Hne]; unfold m2; cbn [with_next v_maps];
        destruct map; rewrite ?aget_aset_other, ?aget_adel_other by exact Hne; reflexivity. }
    rewrite E. reflexivity. }
  destruct (insert_mount s2 bid (root_entry_of a) idx p) as [s3 r3] eqn:Ei.
  unfold insert_mount in Ei. change (v_ps s2) with (v_ps s) in Ei.
  destruct (ps_mount (v_ps s) p) as [[ps' inode]| |] eqn:Epm.
  2:{ inversion Ei; subst s3 r3. inversion Hm; subst. apply (live_ok_same s _ live L); try (intros; reflexivity).
      apply Heff2; [right|]; reflexivity. }
  2:{ inversion Ei; subst s3 r3. inversion Hm; subst. apply (live_ok_same s _ live L); try (intros; reflexivity).
      apply Heff2; [left|]; reflexivity. }
  destruct (convert_entry (with_ps s2 ps') idx (e_ino (root_entry_of a)) (root_entry_of a)) as [e'| |] eqn:Ec.
  2:{ inversion Ei; subst s3 r3. inversion Hm; subst. apply (live_ok_same s _ live L); try (intros; reflexivity).
      apply Heff2; [right|]; reflexivity. }
  2:{ inversion Ei; subst s3 r3. inversion Hm; subst. apply (live_ok_same s _ live L); try (intros; reflexivity).
      apply Heff2; [left|]; reflexivity. }
  inversion Ei; subst s3 r3. clear Ei. inversion Hm; subst s' r evs. clear Hm.
  cbn [with_ps v_next v_ps v_mps v_sb v_maps v_opts v_init v_rm v_gmap s2 with_maps with_next] in *.
  (* the path walks to the mount point *)
  unfold ps_mount in Epm. destruct (p_rooted p) eqn:Erooted; [|discriminate].
  destruct (mount_then_walk _ _ _ _ _ KL Hb Epm) as (Hwalk & _).
  unfold ps_path_walk. rewrite Erooted, Hwalk.
  set (sb1 := match aget inode (v_mps s) with Some mnt => adel (mp_idx mnt) (v_sb s) | None => v_sb s end) in *.
  match goal with |- live_ok ?st (ins_live ?n _) => set (s3 := st); set (new := n) end.
  assert (Hold : forall l, In l (drop_pino inode live) -> In l live /\ l_pino l <> inode) by (intros l; apply in_drop_pino).
  assert (Heff3 : forall l, In l live -> effective_mapping s3 (l_idx l) = effective_mapping s (l_idx l)).
  { apply Heff2; [left|]; reflexivity. }
  assert (Hmaps3 : v_maps s3 = m2) by reflexivity. assert (Hg3 : v_gmap s3 = v_gmap s) by reflexivity.
  (* the slot vacated by an over-mount is not the slot of another attached backend *)
  assert (Hsb1 : forall l, In l live -> l_pino l <> inode -> aget (l_idx l) sb1 = aget (l_idx l) (v_sb s)).
  { intros l Hin Hne. unfold sb1. destruct (aget inode (v_mps s)) as [mnt|] eqn:Emnt; [|reflexivity].
    apply aget_adel_other. intros E. apply Hne. apply (live_slot_inj s live l inode mnt W L Hin Emnt E). }
  assert (Hmps3 : v_mps s3 = aset inode (mkMp idx (e_ino (root_entry_of a)) e') (v_mps s)) by reflexivity.
  assert (Hsb3 : v_sb s3 = aset idx bid sb1) by reflexivity.
  assert (Hnp : l_pino new = inode) by reflexivity. assert (Hni : l_idx new = idx) by reflexivity.
  assert (Hnb : l_bid new = bid) by reflexivity. assert (Hna : l_ans new = a) by reflexivity.
  assert (Hinew : forall l, In l (ins_live new (drop_pino inode live)) -> l = new \/ (In l live /\ l_pino l <> inode)).
  { intros l Hin. apply in_ins_live in Hin. destruct Hin as [-> | Hin]; [left; reflexivity|right; apply Hold; exact Hin]. }
  assert (Hnewin : In new (ins_live new (drop_pino inode live))) by (apply in_ins_live; left; reflexivity).
  assert (Holdin : forall l, In l live -> l_pino l <> inode -> In l (ins_live new (drop_pino inode live))).
  { intros l Hl Hne. apply in_ins_live. right. apply in_drop_pino. split; assumption. }
  clearbody new s3.
  constructor.
  - intros l Hin. destruct (Hinew l Hin) as [-> | [Hl Hne]].
    + rewrite Hnp, Hmps3, aget_aset_same. eexists. split; [reflexivity|].
      unfold mpd_of. rewrite Hni, Hna.
      assert (E : convert_entry s3 idx (ma_ino a) (root_entry_of a) = Ok e').
      { rewrite <- Ec. apply convert_entry_eff. unfold effective_mapping. rewrite Hmaps3, Hg3. reflexivity. }
      rewrite E. reflexivity.
    + destruct (lo_mp _ _ L l Hl) as (m & A1 & A2). exists m. rewrite Hmps3.
      rewrite aget_aset_other by exact Hne. split; [exact A1|]. rewrite (mpd_of_eff s s3 l (Heff3 l Hl)). exact A2.
  - intros l Hin. destruct (Hinew l Hin) as [-> | [Hl Hne]].
    + rewrite Hni, Hnb, Hsb3. apply aget_aset_same.
    + rewrite Hsb3. rewrite aget_aset_other by (apply Hlidx; exact Hl).
      rewrite (Hsb1 l Hl Hne). apply (lo_sb _ _ L l Hl).
  - intros l Hin. destruct (Hinew l Hin) as [-> | [Hl Hne]].
    + rewrite Hna. split.
      * apply negb_false_iff, N.eqb_eq in Eerr. exact Eerr.
      * apply N.ltb_ge in Emax. exact Emax.
    + apply (lo_ans _ _ L l Hl).
  - intros q m. rewrite Hmps3. rewrite aget_aset. destruct (q =? inode) eqn:Eq.
    + apply N.eqb_eq in Eq. subst q. intros _. exists new. split; [exact Hnewin|exact Hnp].
    + apply N.eqb_neq in Eq. intros Hq. destruct (lo_all _ _ L q m Hq) as (l & Hl & Hp). exists l. split; [|exact Hp].
      apply Holdin; [exact Hl|congruence].
  - intros i b. rewrite Hsb3. rewrite aget_aset. destruct (i =? idx) eqn:Ei.
    + apply N.eqb_eq in Ei. subst i. intros _. exists new. split; [exact Hnewin|exact Hni].
    + intros Hi.
      assert (Hi' : aget i (v_sb s) = Some b /\ (forall mnt, aget inode (v_mps s) = Some mnt -> i <> mp_idx mnt)).
      { unfold sb1 in Hi. destruct (aget inode (v_mps s)) as [mnt|].
        - rewrite aget_adel in Hi. destruct (i =? mp_idx mnt) eqn:E; [discriminate|]. apply N.eqb_neq in E.
          split; [exact Hi|]. intros mnt' H'. inversion H'; subst. exact E.
        - split; [exact Hi|]. intros mnt' H'. discriminate. }
      destruct Hi' as [Hi1 Hi2]. destruct (lo_sball _ _ L i b Hi1) as (l & Hl & Hli). exists l. split; [|exact Hli].
      apply Holdin; [exact Hl|]. intros Hp.
      destruct (lo_mp _ _ L l Hl) as (m & A1 & A2). rewrite Hp in A1. apply (Hi2 m A1).
      destruct (mpd_of_idx _ _ _ A2) as [B1 _]. congruence.
  - apply nodup_ins.
    + apply nodup_drop. exact (lo_nodup _ _ L).
    + rewrite Hnp. intros H. rewrite in_map_iff in H. destruct H as (y & E & Hy). apply in_drop_pino in Hy. destruct Hy as [_ Hne]. contradiction.
Qed.

(* ---------- umount ---------- *)
Lemma vfs_umount_tree s p s' r evs : tree_ok (v_ps s) -> ps_ok (v_ps s) -> evicts_leaf_b s p = true ->
  vfs_umount s p = (s', r, evs) -> tree_ok (v_ps s') /\ ps_ok (v_ps s') /\ v_rm s' = v_rm s /\ v_gmap s' = v_gmap s.
Proof.
  intros T OK Hl Hu. unfold vfs_umount in Hu. unfold evicts_leaf_b in Hl.
  destruct (ps_path_walk (v_ps s) p) as [[inode|]| |] eqn:Ew; try (inversion Hu; subst; auto).
  destruct (ps_parent (v_ps s) inode) eqn:Epar; try (inversion Hu; subst; auto).
  destruct (aget inode (v_mps s)) eqn:Em; try (inversion Hu; subst; auto).
  destruct (v_rm s) eqn:Erm.
  - destruct (ps_evict (v_ps s) inode) as [ps'| |] eqn:Ee; try (inversion Hu; subst; auto).
    inversion Hu; subst. cbn [v_ps v_rm v_gmap]. split; [|split; [eapply evict_ok; eassumption|auto]].
    unfold ps_parent in Epar. destruct (aget inode (ps_inodes (v_ps s))) as [pn|] eqn:Hpn; [|discriminate].
    apply orb_true_iff in Hl. destruct Hl as [Hroot | Hleaf].
    + unfold ps_evict in Ee. rewrite Hpn, Hroot in Ee. inversion Ee; subst. exact T.
    + eapply evict_tree; try eassumption. destruct (pi_children pn); [reflexivity|discriminate].
  - inversion Hu; subst. cbn [v_ps v_rm v_gmap]. auto.
Qed.

Lemma inv_umount c s live p : inv c s live -> evicts_leaf_b s p = true ->
  inv c (fst (fst (vfs_umount s p))) (live_step s (SUmount p) live).
Proof.
  intros [W T P R G L] Hl.
  destruct (vfs_umount s p) as [[s' r] evs] eqn:Hu. cbn [fst].
  pose proof (vfs_umount_wf _ _ _ _ _ W Hu) as W'.
  destruct (vfs_umount_tree _ _ _ _ _ T P Hl Hu) as (T' & P' & R' & G').
  constructor; try assumption; try congruence.
  cbn [live_step]. rewrite Hu. unfold vfs_umount in Hu.
  destruct (ps_path_walk (v_ps s) p) as [[inode|]| |]; try (inversion Hu; subst; exact L).
  destruct (ps_parent (v_ps s) inode) as [parent|]; try (inversion Hu; subst; exact L).
  destruct (aget inode (v_mps s)) as [x|] eqn:Ex; try (inversion Hu; subst; exact L).
  destruct (if v_rm s then ps_evict (v_ps s) inode else Ok (v_ps s)) as [ps'| |]; try (inversion Hu; subst; exact L).
  inversion Hu; subst s' r evs. clear Hu.
  assert (Hother : forall l, In l live -> l_pino l <> inode -> l_idx l <> mp_idx x).
  { intros l Hin Hne E. apply Hne. apply (live_slot_inj s live l inode x W L Hin Ex E). }
  constructor; cbn [v_mps v_sb v_maps].
  - intros l Hin. apply in_drop_pino in Hin. destruct Hin as [Hin Hne]. destruct (lo_mp _ _ L l Hin) as (m & A1 & A2).
    exists m. rewrite aget_adel_other by exact Hne. split; [exact A1|]. rewrite <- A2. apply mpd_of_eff.
    unfold effective_mapping. cbn [v_maps v_gmap]. rewrite aget_adel_other by (apply Hother; assumption). reflexivity.
  - intros l Hin. apply in_drop_pino in Hin. destruct Hin as [Hin Hne].
    rewrite aget_adel_other by (apply Hother; assumption). apply (lo_sb _ _ L l Hin).
  - intros l Hin. apply in_drop_pino in Hin. apply (lo_ans _ _ L l). apply Hin.
  - intros q m. rewrite aget_adel. destruct (q =? inode) eqn:Eq; [discriminate|]. apply N.eqb_neq in Eq. intros Hq.
    destruct (lo_all _ _ L q m Hq) as (l & Hin & Hp). exists l. split; [|exact Hp]. apply in_drop_pino. split; [exact Hin|congruence].
  - intros i b. rewrite aget_adel. destruct (i =? mp_idx x) eqn:Ei; [discriminate|]. apply N.eqb_neq in Ei. intros Hi.
    destruct (lo_sball _ _ L i b Hi) as (l & Hin & Hli). exists l. split; [|exact Hli]. apply in_drop_pino. split; [exact Hin|].
    intros Hp. apply Ei. rewrite <- Hli. symmetry. apply (live_slot s live l x L Hin). rewrite Hp. exact Ex.
  - apply nodup_drop. exact (lo_nodup _ _ L).
Qed.

(* ---------- every step that is not a save/restore ---------- *)
Lemma inv_step c s live st : is_save st = false -> inv c s live -> step_good c s live st = true ->
  inv c (st_of (run_step c s st)) (live_step s st live).
Proof.
  intros Hs I Hg. unfold st_of. destruct st; cbn [is_save] in Hs; try discriminate; cbn [run_step step_good] in *.
  - pose proof (inv_mount c s live bid p map a I) as H. apply N.leb_le in Hg. specialize (H Hg).
    destruct (vfs_mount s bid p map a) as [[s' r] ev]. exact H.
  - pose proof (inv_umount c s live p I Hg) as H. destruct (vfs_umount s p) as [[s' r] ev]. exact H.
  - pose proof (inv_init c s live opts ierr I) as H. destruct (vfs_init s opts ierr) as [[s' r] ev]. exact H.
  - pose proof (inv_destroy c s live I) as H. destruct (vfs_destroy s) as [s' ev]. exact H.
  - exact I.
  - destruct (vfs_request s hdr c0 o a). exact I.
  - destruct (vfs_request_async s hdr c0 o a). exact I.
Qed.
