(* The VfsInode codec: fs_idx << 56 | ino. *)
From Coq Require Import List NArith Bool Lia.
From FB Require Import Model.Pseudo Gen.VfsTable Model.Vfs.
Import ListNotations.
Local Open Scope N_scope.

Lemma two56_pow : two56 = 2 ^ 56. Proof. reflexivity. Qed.
Lemma max_ino_ones : VFS_MAX_INO = N.ones 56. Proof. reflexivity. Qed.
Lemma max_ino_two56 : VFS_MAX_INO = two56 - 1. Proof. reflexivity. Qed.

Lemma land_shiftl_small idx ino : ino < two56 -> N.land (N.shiftl idx 56) ino = 0.
Proof.
  intros H. apply N.bits_inj. intros n. rewrite N.land_spec, N.bits_0.
  destruct (N.lt_ge_cases n 56) as [Hn | Hn].
  - rewrite N.shiftl_spec_low by exact Hn. reflexivity.
  - assert (Hb : N.testbit ino n = false).
    { destruct (N.eq_dec ino 0) as [-> | Hz]; [apply N.bits_0|].
      apply N.bits_above_log2. apply N.log2_lt_pow2; [lia|].
      rewrite two56_pow in H. apply N.lt_le_trans with (2 ^ 56); [exact H|].
      apply N.pow_le_mono_r; lia. }
    rewrite Hb. apply andb_false_r.
Qed.

Lemma mk_vino_add idx ino : ino < two56 -> mk_vino idx ino = idx * two56 + ino.
Proof.
  intros H. unfold mk_vino.
  rewrite <- N.lxor_lor by (apply land_shiftl_small; exact H).
  rewrite <- N.add_nocarry_lxor by (apply land_shiftl_small; exact H).
  rewrite N.shiftl_mul_pow2, two56_pow. reflexivity.
Qed.

Lemma fs_idx_div x : fs_idx x = (x / two56) mod 256.
Proof. unfold fs_idx. rewrite N.shiftr_div_pow2, two56_pow. reflexivity. Qed.

Lemma ino_of_mod x : ino_of x = x mod two56.
Proof. unfold ino_of. rewrite max_ino_ones, N.land_ones, two56_pow. reflexivity. Qed.

Lemma fs_idx_mk idx ino : idx < 256 -> ino <= VFS_MAX_INO -> fs_idx (mk_vino idx ino) = idx.
Proof.
  intros Hi Hn. assert (Hl : ino < two56) by (rewrite max_ino_two56 in Hn; unfold two56 in *; lia).
  rewrite fs_idx_div, mk_vino_add by exact Hl.
  rewrite N.div_add_l by (unfold two56; lia).
  rewrite (N.div_small ino two56) by exact Hl. rewrite N.add_0_r. apply N.mod_small. exact Hi.
Qed.

Lemma ino_of_mk idx ino : ino <= VFS_MAX_INO -> ino_of (mk_vino idx ino) = ino.
Proof.
  intros Hn. assert (Hl : ino < two56) by (rewrite max_ino_two56 in Hn; unfold two56 in *; lia).
  rewrite ino_of_mod, mk_vino_add by exact Hl.
  rewrite N.add_comm, N.mod_add by (unfold two56; lia). apply N.mod_small. exact Hl.
Qed.

Lemma mk_vino_lt idx ino : idx < 256 -> ino <= VFS_MAX_INO -> mk_vino idx ino < two64.
Proof.
  intros Hi Hn. assert (Hl : ino < two56) by (rewrite max_ino_two56 in Hn; unfold two56 in *; lia).
  rewrite mk_vino_add by exact Hl. unfold two56, two64 in *. nia.
Qed.

Lemma mk_vino_inj i1 n1 i2 n2 : i1 < 256 -> i2 < 256 -> n1 <= VFS_MAX_INO -> n2 <= VFS_MAX_INO ->
  mk_vino i1 n1 = mk_vino i2 n2 -> i1 = i2 /\ n1 = n2.
Proof.
  intros H1 H2 H3 H4 E. split.
  - rewrite <- (fs_idx_mk i1 n1), <- (fs_idx_mk i2 n2) by assumption. rewrite E. reflexivity.
  - rewrite <- (ino_of_mk i1 n1), <- (ino_of_mk i2 n2) by assumption. rewrite E. reflexivity.
Qed.

Lemma fs_idx_lt x : fs_idx x < 256.
Proof. rewrite fs_idx_div. apply N.mod_lt. lia. Qed.
Lemma ino_of_le x : ino_of x <= VFS_MAX_INO.
Proof. rewrite ino_of_mod. pose proof (N.mod_lt x two56). rewrite max_ino_two56. unfold two56 in *. lia. Qed.

(* every u64 is the encoding of its two parts *)
Lemma vino_decompose x : x < two64 -> x = mk_vino (fs_idx x) (ino_of x).
Proof.
  intros Hx. rewrite mk_vino_add.
  2:{ pose proof (ino_of_le x). rewrite max_ino_two56 in H. unfold two56 in *. lia. }
  rewrite fs_idx_div, ino_of_mod.
  assert (Hq : x / two56 < 256).
  { apply N.div_lt_upper_bound; [unfold two56; lia|]. unfold two56, two64 in *. lia. }
  rewrite (N.mod_small _ 256) by exact Hq.
  rewrite N.mul_comm. apply N.div_mod. unfold two56. lia.
Qed.

(* Vfs::convert_inode *)
Theorem ino_codec : forall idx ino,
  (ino = 0 -> convert_inode idx ino = Ok 0) /\
  (VFS_MAX_INO < ino -> convert_inode idx ino = Err EOther) /\
  (0 < ino <= VFS_MAX_INO -> idx < 256 ->
     exists x, convert_inode idx ino = Ok x /\ fs_idx x = idx /\ ino_of x = ino /\ x < two64).
Proof.
  intros idx ino. unfold convert_inode. repeat split.
  - intros ->. reflexivity.
  - intros H. destruct (ino =? 0) eqn:E0; [apply N.eqb_eq in E0; unfold VFS_MAX_INO in H; lia|].
    apply N.ltb_lt in H. rewrite H. reflexivity.
  - intros [Hp Hm] Hi. destruct (ino =? 0) eqn:E0; [apply N.eqb_eq in E0; lia|].
    destruct (VFS_MAX_INO <? ino) eqn:E1; [apply N.ltb_lt in E1; lia|].
    exists (mk_vino idx ino). repeat split.
    + apply fs_idx_mk; assumption.
    + apply ino_of_mk; assumption.
    + apply mk_vino_lt; assumption.
Qed.

Lemma convert_inode_ok idx ino x : convert_inode idx ino = Ok x ->
  (ino = 0 /\ x = 0) \/ (0 < ino <= VFS_MAX_INO /\ x = mk_vino idx ino).
Proof.
  unfold convert_inode. destruct (ino =? 0) eqn:E0.
  - intros H. inversion H. apply N.eqb_eq in E0. left. split; congruence.
  - destruct (VFS_MAX_INO <? ino) eqn:E1; [discriminate|].
    intros H. inversion H. apply N.eqb_neq in E0. apply N.ltb_ge in E1. right. split; [lia|reflexivity].
Qed.

Lemma convert_inode_not_panic idx ino : convert_inode idx ino <> Panic.
Proof. unfold convert_inode. destruct (ino =? 0); [discriminate|]. destruct (VFS_MAX_INO <? ino); discriminate. Qed.
