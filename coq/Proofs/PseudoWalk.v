(* Crossing: a client that walks a path component by component with LOOKUP from a pseudo directory
   stays in the pseudo fs on every proper prefix that is not a mount point and receives the root of the
   mounted file system exactly at the mount path. *)
From Coq Require Import List NArith Bool Lia.
From FB Require Import Model.Pseudo Gen.VfsTable Model.Vfs Proofs.VfsCodec Proofs.VfsAlloc Proofs.VfsInv Proofs.VfsRouting.
Import ListNotations.
Local Open Scope N_scope.

(* every child recorded in a pseudo directory has a usable inode number *)
Definition pkids_ok (ps : pseudo) : Prop :=
  forall i pn, aget i (ps_inodes ps) = Some pn -> Forall (fun c => 0 < fst c <= VFS_MAX_INO) (pi_children pn).

(* the client side: successive lookups, the inode number of each reply is the parent of the next *)
Fixpoint client_walk (s : vfs) (c : ctx) (a : ans) (cur : N) (ks : list N) : outcome N * list event :=
  match ks with
  | [] => (Ok cur, [])
  | k :: r =>
    match vfs_op s c (OLookup cur (NNorm k)) a with
    | (Ok (REntry e), ev) => let '(res, ev') := client_walk s c a (e_ino e) r in (res, ev ++ ev')
    | (Ok _, ev) => (Err EOther, ev)
    | (Err x, ev) => (Err x, ev)
    | (Panic, ev) => (Panic, ev)
    end
  end.

Definition root_vino (m : mpd) : N := if mp_ino m =? 0 then 0 else mk_vino (mp_idx m) (mp_ino m).

Lemma find_child_in k cs ci : find_child k cs = Some ci -> In (ci, k) cs.
Proof.
  induction cs as [|[i n] r IH]; [discriminate|]. cbn [find_child].
  destruct (n =? k) eqn:E.
  - intros H. inversion H; subst. apply N.eqb_eq in E. subst. left. reflexivity.
  - intros H. right. apply IH. exact H.
Qed.

Lemma pseudo_ino_codec x : x <= VFS_MAX_INO -> fs_idx x = 0 /\ ino_of x = x /\ mk_vino 0 x = x.
Proof.
  intros H. assert (Hl : x < two56) by (rewrite max_ino_two56 in H; unfold two56 in *; lia).
  assert (E : mk_vino 0 x = x) by (rewrite mk_vino_add by exact Hl; lia).
  repeat split; try exact E.
  - rewrite <- E. apply fs_idx_mk; [lia|exact H].
  - rewrite <- E at 1. apply ino_of_mk. exact H.
Qed.

(* one LOOKUP of a child name in a pseudo directory *)
Lemma lookup_step s c a cur k pn ci : wf s -> pkids_ok (v_ps s) -> aget ROOT_ID (v_mps s) = None ->
  cur <= VFS_MAX_INO -> aget cur (ps_inodes (v_ps s)) = Some pn -> find_child k (pi_children pn) = Some ci ->
  0 < ci <= VFS_MAX_INO /\
  exists res, vfs_op s c (OLookup cur (NNorm k)) a = (res, []) /\
    (res = Panic \/ exists e, res = Ok (REntry e) /\
       e_ino e = match aget ci (v_mps s) with Some m => root_vino m | None => ci end).
Proof.
  intros W K Hroot Hcur Hpn Hfc.
  assert (Hci : 0 < ci <= VFS_MAX_INO).
  { pose proof (K _ _ Hpn) as F. rewrite Forall_forall in F. apply (F (ci, k)). apply find_child_in. exact Hfc. }
  split; [exact Hci|].
  destruct (pseudo_ino_codec cur Hcur) as (Hf & Hi & _).
  cbn [vfs_op has_slash].
  assert (G : get_real_rootfs s cur = Ok (SLeft cur)).
  { unfold get_real_rootfs. rewrite Hf. cbn. rewrite Hi. destruct (cur =? ROOT_ID); [rewrite Hroot|]; reflexivity. }
  rewrite G. unfold lookup_pseudo. rewrite Hi. unfold ps_lookup. rewrite Hpn, Hfc.
  assert (E0 : ci =? 0 = false) by (apply N.eqb_neq; lia). rewrite E0. cbn [bind].
  destruct (aget ci (v_mps s)) as [m|] eqn:Em.
  - destruct (wf_mp s W _ _ Em) as (_ & _ & Hent & _ & _).
    eexists. split; [reflexivity|]. right. exists (mp_entry m). split; [reflexivity|]. exact Hent.
  - rewrite Hf.
    destruct (convert_entry s 0 ci (pseudo_entry ci)) as [e| |] eqn:Ec.
    + eexists. split; [reflexivity|]. right. exists e. split; [reflexivity|].
      destruct (convert_entry_shape _ _ _ _ _ Ec) as (E1 & _). rewrite E1, E0.
      apply (pseudo_ino_codec ci). lia.
    + exfalso. unfold convert_entry in Ec. destruct (convert_inode 0 ci) eqn:Ei.
      * destruct (to_ext _ (e_uid (pseudo_entry ci))); [destruct (to_ext _ (e_gid (pseudo_entry ci)))|]; discriminate.
      * unfold convert_inode in Ei. rewrite E0 in Ei.
        destruct (VFS_MAX_INO <? ci) eqn:El; [apply N.ltb_lt in El; lia|discriminate].
      * exact (convert_inode_not_panic _ _ Ei).
    + eexists. split; [reflexivity|]. left. reflexivity.
Qed.

Theorem crossing : forall ks s c a cur p, wf s -> pkids_ok (v_ps s) -> aget ROOT_ID (v_mps s) = None ->
  cur <= VFS_MAX_INO -> ks <> [] ->
  ps_walk (v_ps s) cur (map CNorm ks) = Ok (Some p) ->
  (forall n q, (0 < n < length ks)%nat ->
     ps_walk (v_ps s) cur (map CNorm (firstn n ks)) = Ok (Some q) -> aget q (v_mps s) = None) ->
  forall r evs, client_walk s c a cur ks = (r, evs) -> r <> Panic ->
    evs = [] /\ r = Ok (match aget p (v_mps s) with Some m => root_vino m | None => p end).
Proof.
  induction ks as [|k rest IH]; intros s c a cur p W K Hroot Hcur Hne Hw Hpre r evs Hc Hnp; [contradiction|].
  cbn [map ps_walk] in Hw.
  destruct (aget cur (ps_inodes (v_ps s))) as [pn|] eqn:Hpn; [|discriminate].
  destruct (find_child k (pi_children pn)) as [ci|] eqn:Hfc; [|destruct rest; discriminate].
  destruct (aget ci (ps_inodes (v_ps s))) as [cn|] eqn:Hcn; [|discriminate].
  destruct (lookup_step s c a cur k pn ci W K Hroot Hcur Hpn Hfc) as (Hci & res & Hop & Hres).
  cbn [client_walk] in Hc. rewrite Hop in Hc.
  destruct Hres as [-> | (e & -> & He)]; [inversion Hc; subst; contradiction|].
  destruct rest as [|k2 rest'].
  - (* last component *)
    cbn [map ps_walk] in Hw. inversion Hw; subst p.
    cbn [client_walk] in Hc. inversion Hc; subst. split; [reflexivity|]. rewrite He. reflexivity.
  - (* a proper prefix: stays in the pseudo fs *)
    assert (Hmid : aget ci (v_mps s) = None).
    { apply (Hpre 1%nat ci); [cbn; lia|]. cbn [firstn map ps_walk]. rewrite Hpn, Hfc, Hcn. reflexivity. }
    rewrite Hmid in He.
    destruct (client_walk s c a (e_ino e) (k2 :: rest')) as [res' ev'] eqn:Hrec.
    inversion Hc; subst r evs. rewrite He in Hrec.
    assert (IHr := IH s c a ci p W K Hroot (proj2 Hci) ltac:(discriminate) Hw).
    destruct (IHr) with (r := res') (evs := ev') as [E1 E2]; try assumption.
    + intros n q Hn Hq. apply (Hpre (S n) q); [cbn [length] in *; lia|].
      cbn [firstn map ps_walk]. rewrite Hpn, Hfc, Hcn. exact Hq.
    + subst. split; reflexivity.
Qed.

(* ---------- a path that was just mounted resolves to the new mount point ---------- *)
Definition keys_lt (ps : pseudo) : Prop := forall i pn, aget i (ps_inodes ps) = Some pn -> i < ps_next ps.

Definition ext (a b : pseudo) : Prop :=
  forall j pn, aget j (ps_inodes a) = Some pn ->
    exists pn', aget j (ps_inodes b) = Some pn' /\ pi_parent pn' = pi_parent pn /\
      forall k ci, find_child k (pi_children pn) = Some ci -> find_child k (pi_children pn') = Some ci.

Lemma ext_refl a : ext a a.
Proof. intros j pn H. exists pn. auto. Qed.
Lemma ext_trans a b c : ext a b -> ext b c -> ext a c.
Proof.
  intros H1 H2 j pn H. destruct (H1 j pn H) as (p1 & A1 & B1 & C1). destruct (H2 j p1 A1) as (p2 & A2 & B2 & C2).
  exists p2. repeat split; [exact A2|congruence|]. intros k ci Hk. apply C2, C1, Hk.
Qed.

Lemma find_child_app k l i n :
  find_child k (l ++ [(i, n)]) = match find_child k l with Some x => Some x | None => if n =? k then Some i else None end.
Proof.
  induction l as [|[i' n'] r IH]; cbn [app find_child]; [reflexivity|]. destruct (n' =? k); [reflexivity|exact IH].
Qed.

Lemma create_props s cur pn k s1 ino : keys_lt s -> ps_next s < two56 ->
  aget cur (ps_inodes s) = Some pn -> find_child k (pi_children pn) = None ->
  ps_create s cur pn k = (s1, ino) ->
  ext s s1 /\ keys_lt s1 /\ ps_next s1 = ps_next s + 1 /\ ino = ps_next s /\
  aget ino (ps_inodes s1) <> None /\
  exists pn1, aget cur (ps_inodes s1) = Some pn1 /\ find_child k (pi_children pn1) = Some ino.
Proof.
  intros KL Hb Hcur Hnf H. unfold ps_create in H. inversion H; subst s1 ino. clear H.
  assert (Hfresh : aget (ps_next s) (ps_inodes s) = None).
  { destruct (aget (ps_next s) (ps_inodes s)) as [x|] eqn:E; [|reflexivity]. pose proof (KL _ _ E). lia. }
  assert (Hne : cur <> ps_next s) by (intros ->; congruence).
  assert (Hmod : (ps_next s + 1) mod two64 = ps_next s + 1).
  { apply N.mod_small. unfold two56, two64 in *. lia. }
  unfold ext, keys_lt. cbn [ps_next ps_inodes]. rewrite Hmod.
  split; [|split; [|split; [|split; [|split]]]]; try reflexivity.
  - intros j pj Hj. destruct (N.eq_dec j cur) as [-> | Hjc].
    + rewrite aget_aset_same. eexists. split; [reflexivity|]. cbn [pi_parent pi_children].
      rewrite Hcur in Hj. inversion Hj; subst pj. split; [reflexivity|].
      intros k' ci Hk'. rewrite find_child_app, Hk'. reflexivity.
    + rewrite aget_aset_other by exact Hjc.
      assert (j <> ps_next s) by (intros ->; congruence).
      rewrite aget_aset_other by assumption. exists pj. auto.
  - intros i pi. rewrite !aget_aset. destruct (i =? cur) eqn:E1.
    + apply N.eqb_eq in E1. subst i. intros _. pose proof (KL _ _ Hcur). lia.
    + destruct (i =? ps_next s) eqn:E2; [apply N.eqb_eq in E2; subst; intros _; lia|].
      intros Hi. pose proof (KL _ _ Hi). lia.
  - rewrite aget_aset_other by (intros E; apply Hne; symmetry; exact E). rewrite aget_aset_same. discriminate.
  - eexists. rewrite aget_aset_same. split; [reflexivity|]. cbn [pi_children].
    rewrite find_child_app, Hnf, N.eqb_refl. reflexivity.
Qed.

Lemma walk_ext : forall cs a b cur i, ext a b -> ps_walk a cur cs = Ok (Some i) -> ps_walk b cur cs = Ok (Some i).
Proof.
  induction cs as [|c r IH]; intros a b cur i E H; [exact H|].
  cbn [ps_walk] in *. destruct (aget cur (ps_inodes a)) as [pn|] eqn:Hc; [|discriminate].
  destruct (E _ _ Hc) as (pn' & A & B & C). rewrite A. destruct c as [|k].
  - rewrite B. destruct (aget (pi_parent pn) (ps_inodes a)) as [pp|] eqn:Hp; [|discriminate].
    destruct (E _ _ Hp) as (pp' & A' & _). rewrite A'. eapply IH; eassumption.
  - destruct (find_child k (pi_children pn)) as [ci|] eqn:Hf; [|discriminate].
    rewrite (C _ _ Hf). destruct (aget ci (ps_inodes a)) as [cn|] eqn:Hci; [|discriminate].
    destruct (E _ _ Hci) as (cn' & A' & _). rewrite A'. eapply IH; eassumption.
Qed.

Theorem mount_then_walk : forall cs s cur s' i, keys_lt s -> ps_next s + N.of_nat (length cs) <= two56 ->
  ps_mount_walk s cur cs = Ok (s', i) ->
  ps_walk s' cur cs = Ok (Some i) /\ ext s s' /\ keys_lt s' /\ ps_next s' <= ps_next s + N.of_nat (length cs).
Proof.
  induction cs as [|c r IH]; intros s cur s' i KL Hb H.
  - cbn in H. inversion H; subst. cbn. repeat split; [apply ext_refl|exact KL|lia].
  - cbn [ps_mount_walk] in H. cbn [length] in Hb. rewrite Nat2N.inj_succ in Hb.
    destruct (aget cur (ps_inodes s)) as [pn|] eqn:Hc; [|discriminate].
    destruct c as [|k].
    + destruct (aget (pi_parent pn) (ps_inodes s)) as [pp|] eqn:Hp; [|discriminate].
      destruct (IH s (pi_parent pn) s' i KL ltac:(lia) H) as (W & E & KL' & Hn).
      repeat split; [|exact E|exact KL'|cbn [length]; rewrite Nat2N.inj_succ; lia].
      cbn [ps_walk]. destruct (E _ _ Hc) as (pn' & A & B & _). rewrite A, B.
      destruct (E _ _ Hp) as (pp' & A' & _). rewrite A'. exact W.
    + destruct (find_child k (pi_children pn)) as [ci|] eqn:Hf.
      * destruct (aget ci (ps_inodes s)) as [cn|] eqn:Hci; [|discriminate].
        destruct (IH s ci s' i KL ltac:(lia) H) as (W & E & KL' & Hn).
        repeat split; [|exact E|exact KL'|cbn [length]; rewrite Nat2N.inj_succ; lia].
        cbn [ps_walk]. destruct (E _ _ Hc) as (pn' & A & _ & C). rewrite A, (C _ _ Hf).
        destruct (E _ _ Hci) as (cn' & A' & _). rewrite A'. exact W.
      * destruct (ps_create s cur pn k) as [s1 ino] eqn:Hcr.
        assert (Hlt : ps_next s < two56) by lia.
        destruct (create_props s cur pn k s1 ino KL Hlt Hc Hf Hcr) as (E1 & KL1 & Hn1 & Hino & Hex & pn1 & Hc1 & Hf1).
        destruct (IH s1 ino s' i KL1 ltac:(lia) H) as (W & E & KL' & Hn).
        repeat split; [|eapply ext_trans; eassumption|exact KL'|cbn [length]; rewrite Nat2N.inj_succ; lia].
        cbn [ps_walk]. destruct (E _ _ Hc1) as (pn' & A & _ & C). rewrite A, (C _ _ Hf1).
        destruct (aget ino (ps_inodes s1)) as [cn|] eqn:Hci; [|contradiction].
        destruct (E _ _ Hci) as (cn' & A' & _). rewrite A'. exact W.
Qed.

(* after a successful mount the mount path, walked from the root, resolves to a pseudo inode that is the mount
   point of the new mount *)
Theorem mount_resolves : forall s bid p map a s' idx evs, keys_lt (v_ps s) ->
  ps_next (v_ps s) + N.of_nat (length (p_comps p)) <= two56 ->
  vfs_mount s bid p map a = (s', VOk idx, evs) ->
  exists pino m, ps_walk (v_ps s') ROOT_ID (p_comps p) = Ok (Some pino) /\
                 aget pino (v_mps s') = Some m /\ mp_idx m = idx /\ mp_ino m = ma_ino a /\ keys_lt (v_ps s').
Proof.
  intros s bid p map a s' idx evs KL Hb. unfold vfs_mount.
  destruct (negb (ma_err a =? 0)); [intros H; inversion H|].
  destruct (VFS_MAX_INO <? ma_max a); [intros H; inversion H|].
  destruct (v_init s && negb (ma_init_err a =? 0)); [intros H; inversion H|].
  destruct (allocate_fs_idx s) as [[i| |] nx]; try (intros H; inversion H; fail).
  set (s2 := with_maps (with_next s nx) (match map with Some m => aset i m (v_maps (with_next s nx)) | None => adel i (v_maps (with_next s nx)) end)).
  assert (Hps : v_ps s2 = v_ps s) by reflexivity.
  destruct (insert_mount s2 bid (root_entry_of a) i p) as [s3 [[]|?|]] eqn:Ei; try (intros H; inversion H; fail).
  intros H. inversion H; subst s3 i. clear H.
  unfold insert_mount in Ei. rewrite Hps in Ei. unfold ps_mount in Ei.
  destruct (p_rooted p); [|inversion Ei].
  destruct (ps_mount_walk (v_ps s) ROOT_ID (p_comps p)) as [[ps' inode]| |] eqn:Em; try (inversion Ei; fail).
  destruct (convert_entry (with_ps s2 ps') idx (e_ino (root_entry_of a)) (root_entry_of a)); try (inversion Ei; fail).
  inversion Ei; subst s'. cbn [v_ps v_mps].
  destruct (mount_then_walk _ _ _ _ _ KL Hb Em) as (W & _ & KL' & _).
  exists inode. eexists. rewrite aget_aset_same. repeat split; try reflexivity; assumption.
Qed.

(* ---------- the pseudo-fs side conditions hold along every bounded history ---------- *)
Definition ps_ok (ps : pseudo) : Prop := keys_lt ps /\ pkids_ok ps /\ 0 < ps_next ps.

Lemma ps_ok_new : ps_ok ps_new.
Proof.
  unfold ps_ok, keys_lt, pkids_ok, ps_new. cbn [ps_next ps_inodes]. split; [|split; [|reflexivity]].
  - intros i pn. cbn. destruct (i =? ROOT_ID) eqn:E; [|discriminate]. apply N.eqb_eq in E. subst. unfold ROOT_ID. lia.
  - intros i pn. cbn. destruct (i =? ROOT_ID); [|discriminate]. intros H. inversion H. constructor.
Qed.

Lemma create_kids s cur pn k s1 ino : pkids_ok s -> 0 < ps_next s < two56 ->
  aget cur (ps_inodes s) = Some pn -> ps_create s cur pn k = (s1, ino) -> pkids_ok s1.
Proof.
  intros K Hb Hcur H. unfold ps_create in H. inversion H; subst s1 ino. clear H.
  unfold pkids_ok. cbn [ps_inodes]. intros i pi. rewrite !aget_aset.
  destruct (i =? cur).
  - intros Hi. inversion Hi. cbn [pi_children]. apply Forall_app. split; [exact (K _ _ Hcur)|].
    constructor; [|constructor]. cbn [fst]. rewrite max_ino_two56. unfold two56 in *. lia.
  - destruct (i =? ps_next s); [intros Hi; inversion Hi; constructor|]. apply K.
Qed.

Lemma mount_walk_ok : forall cs s cur s' i, ps_ok s -> ps_next s + N.of_nat (length cs) <= two56 ->
  ps_mount_walk s cur cs = Ok (s', i) -> ps_ok s'.
Proof.
  induction cs as [|c r IH]; intros s cur s' i OK Hb H.
  - cbn in H. inversion H; subst. exact OK.
  - cbn [ps_mount_walk] in H. cbn [length] in Hb. rewrite Nat2N.inj_succ in Hb.
    destruct (aget cur (ps_inodes s)) as [pn|] eqn:Hc; [|discriminate].
    destruct c as [|k].
    + destruct (aget (pi_parent pn) (ps_inodes s)); [|discriminate]. apply (IH s (pi_parent pn) s' i OK); [lia|exact H].
    + destruct (find_child k (pi_children pn)) as [ci|] eqn:Hf.
      * destruct (aget ci (ps_inodes s)); [|discriminate]. apply (IH s ci s' i OK); [lia|exact H].
      * destruct (ps_create s cur pn k) as [s1 ino] eqn:Hcr. destruct OK as (KL & K & Hp).
        assert (Hlt : ps_next s < two56) by lia.
        destruct (create_props s cur pn k s1 ino KL Hlt Hc Hf Hcr) as (_ & KL1 & Hn1 & _).
        assert (K1 : pkids_ok s1) by (eapply create_kids; try eassumption; lia).
        apply (IH s1 ino s' i); [repeat split; [exact KL1|exact K1|lia]|lia|exact H].
Qed.

Lemma remove_first_named_sub nm cs cs' : remove_first_named nm cs = Some cs' -> forall x, In x cs' -> In x cs.
Proof.
  revert cs'. induction cs as [|[i n] r IH]; intros cs' H x Hx; cbn [remove_first_named] in H; [discriminate|].
  destruct (n =? nm).
  - inversion H; subst. right. exact Hx.
  - destruct (remove_first_named nm r) as [r'|]; [|discriminate]. inversion H; subst.
    destruct Hx as [<- | Hx]; [left; reflexivity|right; eapply IH; [reflexivity|exact Hx]].
Qed.

Lemma evict_ok ps ino ps' : ps_ok ps -> ps_evict ps ino = Ok ps' -> ps_ok ps'.
Proof.
  intros (KL & K & Hp). unfold ps_evict.
  destruct (aget ino (ps_inodes ps)) as [pn|] eqn:Hi; [|discriminate].
  destruct (ino =? pi_parent pn); [intros H; inversion H; subst; repeat split; assumption|].
  destruct (aget (pi_parent pn) (ps_inodes ps)) as [par|] eqn:Hpar; [|discriminate].
  destruct (remove_first_named (pi_name pn) (pi_children par)) as [cs|] eqn:Hr; [|discriminate].
  remember (aset (pi_parent pn) (mkPi (pi_parent par) (pi_name par) cs) (ps_inodes ps)) as tbl eqn:Et.
  intros H. inversion H; subst ps'. clear H. unfold ps_ok, keys_lt, pkids_ok. cbn [ps_next ps_inodes]. split; [|split; [|exact Hp]].
  - intros i pi. rewrite aget_adel. destruct (i =? ino); [discriminate|]. subst tbl. rewrite aget_aset.
    destruct (i =? pi_parent pn) eqn:E; [apply N.eqb_eq in E; subst; intros _; exact (KL _ _ Hpar)|apply KL].
  - intros i pi. rewrite aget_adel. destruct (i =? ino); [discriminate|]. subst tbl. rewrite aget_aset.
    destruct (i =? pi_parent pn).
    + intros Hx. inversion Hx. cbn [pi_children]. pose proof (K _ _ Hpar) as F. rewrite Forall_forall in *.
      intros x Hin. apply F. eapply remove_first_named_sub; eassumption.
    + apply K.
Qed.

(* histories in which fewer than 2^56 pseudo directories are ever created *)
Inductive breach : vfs -> Prop :=
| B_new : forall o rm, breach (vfs_new o rm)
| B_mount : forall s bid p map a s' r evs, breach s ->
    ps_next (v_ps s) + N.of_nat (length (p_comps p)) <= two56 ->
    vfs_mount s bid p map a = (s', r, evs) -> breach s'
| B_umount : forall s p s' r evs, breach s -> vfs_umount s p = (s', r, evs) -> breach s'
| B_init : forall s o e s' r evs, breach s -> vfs_init s o e = (s', r, evs) -> breach s'
| B_destroy : forall s s' evs, breach s -> vfs_destroy s = (s', evs) -> breach s'.

Lemma breach_reachable s : breach s -> reachable s.
Proof. induction 1; [apply R_new|eapply R_mount|eapply R_umount|eapply R_init|eapply R_destroy]; eassumption. Qed.

Lemma insert_mount_ps s bid e idx p s' r : ps_ok (v_ps s) ->
  ps_next (v_ps s) + N.of_nat (length (p_comps p)) <= two56 -> insert_mount s bid e idx p = (s', r) -> ps_ok (v_ps s').
Proof.
  intros OK Hb. unfold insert_mount, ps_mount. destruct (p_rooted p); [|intros H; inversion H; subst; exact OK].
  destruct (ps_mount_walk (v_ps s) ROOT_ID (p_comps p)) as [[ps' inode]| |] eqn:Em; try (intros H; inversion H; subst; exact OK).
  pose proof (mount_walk_ok _ _ _ _ _ OK Hb Em) as OK'.
  destruct (convert_entry (with_ps s ps') idx (e_ino e) e); intros H; inversion H; subst; exact OK'.
Qed.

Lemma vfs_init_ps s o e : v_ps (fst (fst (vfs_init s o e))) = v_ps s.
Proof.
  unfold vfs_init. destruct (v_init s); [reflexivity|].
  remember (sb_in_order 256 0 (v_sb s)) as bs eqn:Hbs. clear Hbs.
  destruct (o_no_open (v_opts s)); destruct (o_no_opendir (v_opts s)); cbv beta iota zeta;
  destruct bs; try destruct (negb (e =? 0)); reflexivity.
Qed.
Lemma vfs_destroy_ps s : v_ps (fst (vfs_destroy s)) = v_ps s.
Proof.
  unfold vfs_destroy. remember (sb_in_order 256 0 (v_sb s)) as bs eqn:Hbs. clear Hbs. destruct (v_init s); reflexivity.
Qed.

Theorem breach_ps_ok s : breach s -> ps_ok (v_ps s).
Proof.
  induction 1 as [o rm| s bid p map a s' r evs _ IH Hb Hm | s p s' r evs _ IH Hu | s o e s' r evs _ IH Hi | s s' evs _ IH Hd].
  - apply ps_ok_new.
  - unfold vfs_mount in Hm.
    destruct (negb (ma_err a =? 0)); [inversion Hm; subst; exact IH|].
    destruct (VFS_MAX_INO <? ma_max a); [inversion Hm; subst; exact IH|].
    destruct (v_init s && negb (ma_init_err a =? 0)); [inversion Hm; subst; exact IH|].
    destruct (allocate_fs_idx s) as [[i| |] nx]; try (inversion Hm; subst; exact IH).
    set (s2 := with_maps (with_next s nx) (match map with Some m => aset i m (v_maps (with_next s nx)) | None => adel i (v_maps (with_next s nx)) end)) in *.
    assert (Hps : v_ps s2 = v_ps s) by reflexivity.
    destruct (insert_mount s2 bid (root_entry_of a) i p) as [s3 r3] eqn:Ei.
    assert (OK3 : ps_ok (v_ps s3)) by (eapply insert_mount_ps; [rewrite Hps; exact IH|rewrite Hps; exact Hb|exact Ei]).
    destruct r3; inversion Hm; subst; exact OK3.
  - unfold vfs_umount in Hu.
    destruct (ps_path_walk (v_ps s) p) as [[inode|]| |]; try (inversion Hu; subst; exact IH).
    destruct (ps_parent (v_ps s) inode); try (inversion Hu; subst; exact IH).
    destruct (aget inode (v_mps s)); try (inversion Hu; subst; exact IH).
    destruct (v_rm s).
    + destruct (ps_evict (v_ps s) inode) as [ps'| |] eqn:Ee; try (inversion Hu; subst; exact IH).
      inversion Hu; subst. cbn [v_ps]. eapply evict_ok; eassumption.
    + inversion Hu; subst. exact IH.
  - pose proof (vfs_init_ps s o e) as E. rewrite Hi in E. cbn [fst] in E. rewrite E. exact IH.
  - pose proof (vfs_destroy_ps s) as E. rewrite Hd in E. cbn [fst] in E. rewrite E. exact IH.
Qed.
