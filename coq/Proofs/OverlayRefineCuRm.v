(* Per-operation refinement: UNLINK of a file or symlink below a directory that only lower layers hold.  The parent chain is
   copied up first (Proofs/OverlayRefineCu.v), then a whiteout is written.  Proof by re-running: from the state after the
   copy-up the whole operation behaves as its own tail (its lookups find everything loaded, its copy-up is a no-op), and there
   the whiteout lemma of Proofs/OverlayRefineWh.v applies. *)
From Coq Require Import List String Arith NArith Bool Lia.
From FB Require Import Model.Overlay Proofs.OverlayInv Proofs.OverlayScan Proofs.OverlayRestart
  Proofs.OverlayReadOnly Proofs.OverlayCoh Proofs.OverlayCohView Proofs.OverlayCopyUp Proofs.OverlayCohOps
  Proofs.OverlayCohSteps Proofs.OverlayRefineTeq Proofs.OverlayRefineMerge Proofs.OverlayRefineRun Proofs.OverlayRefine
  Proofs.OverlayRefineWh Proofs.OverlayRefineCu.
Import ListNotations.
Local Open Scope N_scope.

(* a lookup in a directory that is already loaded only reads the cache *)
Lemma lookup_loaded (pp : path) s pn : Coherent s -> nget pp (root s) = Some pn -> n_wh pn = false -> n_loaded pn = true ->
  forall nmo, lookup_node pp nmo s =
    (match nmo with
     | None => Ok pp
     | Some nm => match afind nm (n_ch pn) with Some _ => Ok (pp ++ [nm]) | None => Err ENOENT end
     end, s).
Proof.
  intros HC Hg Hw Hl nmo. destruct (node_first_real s pp pn HC Hg) as (r & rs & t & _ & _ & Hst & _).
  unfold lookup_node. rewrite (bind_ok _ _ _ _ _ (get_node_ok pp s pn Hg)), Hw.
  assert (Es : stat_node pn s = (Ok t, s)) by (unfold stat_node; rewrite Hst; reflexivity).
  rewrite (bind_ok _ _ _ _ _ Es). unfold load_if_dir. rewrite Hl, andb_false_r.
  assert (Er : ret tt s = (Ok tt, s)) by reflexivity. rewrite (bind_ok _ _ _ _ _ Er).
  destruct nmo as [nm|]; [|reflexivity]. rewrite (bind_ok _ _ _ _ _ (get_node_ok pp s pn Hg)). destruct (afind nm (n_ch pn)); reflexivity.
Qed.

Lemma do_unlink_cu_run (pp : path) (nm : name) s u pn m x ch r0 t0 rest0 :
  Coherent s -> upper s = Some u -> nget pp (root s) = Some pn -> tget u pp = None ->
  mstack (u :: lowers s) pp = Dir m x ch :: r0 -> (List.length pp < DEPTH)%nat -> cu_disk_ok u (lowers s) pp ->
  mstack (u :: lowers s) (pp ++ [nm]) = t0 :: rest0 -> is_whT t0 = false -> is_dirT t0 = false ->
  exists s' u3 m3 x3 ch3 rest3 (b : bool), do_rm pp nm false s = (Ok tt, s') /\
    upper s' = Some (tupd pp (chmap (Grm nm (has_entry nm ch3) b)) u3) /\ lowers s' = lowers s /\
    (b = false -> ents nm (tl (dir_stack (mstack (u3 :: lowers s) pp))) = [] /\ has_entry nm ch3 = true) /\
    Forall wf (u3 :: lowers s) /\ oteq (merge (u3 :: lowers s)) (merge (u :: lowers s)) /\
    tget u3 pp = Some (Dir m3 x3 ch3) /\ mstack (u3 :: lowers s) (pp ++ [nm]) = t0 :: rest3.
Proof.
  intros HC Hu Hg Hnoup Hpp Hdep Hcu Hms Hnw Hnd. set (q := pp ++ [nm]) in *.
  pose proof (node_stat_head s u pp pn _ _ HC Hu Hg Hpp) as Hst.
  destruct (lookup_vis pp s pn m x ch HC Hg Hst) as (s1 & pn1 & HC1 & Hsd1 & Hg1 & Hw1 & _ & _ & Hlk1).
  pose proof Hsd1 as (U1 & L1 & _). assert (Hu1 : upper s1 = Some u) by congruence.
  assert (Hst1 : node_stat s1 pn1 = Some (Dir m x ch)) by (apply (node_stat_head s1 u pp pn1 _ r0 HC1 Hu1 Hg1); rewrite L1; exact Hpp).
  destruct (lookup_vis pp s1 pn1 m x ch HC1 Hg1 Hst1) as (s2 & pn2 & HC2 & Hsd2 & Hg2 & Hw2 & _ & Hld2 & Hlk2).
  pose proof Hsd2 as (U2 & L2 & _). assert (Hu2 : upper s2 = Some u) by congruence. assert (Hl2 : lowers s2 = lowers s) by congruence.
  assert (Hms2 : mstack (u :: lowers s2) q = t0 :: rest0) by (rewrite Hl2; exact Hms).
  pose proof HC2 as (_ & _ & HCT2). pose proof (HCT2 pp pn2 Hg2) as N2. cbn [app] in N2.
  destruct (ok_ld _ _ _ _ N2 Hld2) as (_ & _ & Kids).
  destruct (lstack_head_rel s2 u q t0 rest0 Hu2 Hms2) as (i0 & irest & Hl & He).
  destruct (afind nm (n_ch pn2)) as [c|] eqn:Ec.
  2:{ exfalso. apply Kids in Ec. rewrite <- lstack_snoc in Ec. fold q in Ec. rewrite Hl in Ec. discriminate. }
  pose proof (nget_snoc pp nm (root s2) pn2 c Hg2 Ec) as Hgq. fold q in Hgq.
  destruct (cand_node s2 q c i0 irest t0 HC2 Hgq Hl He) as (cr & crs & Ecr & _ & _ & _ & Hstc & Hwc & _). rewrite Hnw in Hwc.
  (* the copy-up of the parent chain *)
  assert (Hst2 : node_stat s2 pn2 = Some (Dir m x ch)) by (apply (node_stat_head s2 u pp pn2 _ r0 HC2 Hu2 Hg2); rewrite Hl2; exact Hpp).
  destruct (cnu_dir_run pp s2 u pn2 m x ch HC2 Hu2 Hg2 Hst2 Hdep) as (s3 & u3 & Ecu & HC3 & Hu3 & L3 & _ & M3 & SP & Up); [rewrite Hl2; exact Hcu|].
  assert (Hnwp : forall n0, nget pp (root s2) = Some n0 -> n_wh n0 = false) by (intros n0 H0; rewrite Hg2 in H0; inversion H0; subst; exact Hw2).
  destruct (cnu_coherent pp s2 _ s3 HC2 Hnwp Ecu) as (_ & _ & _ & Fr & _).
  assert (Hl3 : lowers s3 = lowers s) by congruence.
  (* the cache after it *)
  destruct (same_paths_some s2 s3 pp pn2 SP Hg2) as (pn3 & Hg3 & Hsig). unfold nsig in Hsig. inversion Hsig as [[Hld3 Hfd3]]. rewrite Hld2 in Hld3.
  pose proof (Up pn3 Hg3) as Hpu3.
  assert (Hgq3 : nget q (root s3) = Some c) by (rewrite (Fr q (not_prefix_snoc pp nm)); exact Hgq).
  destruct (parent_is_dir s3 pp nm pn3 c HC3 Hg3 Hgq3) as (m3 & x3 & ch3 & Hst3).
  pose proof (upper_dir_of_node s3 u3 pp pn3 _ HC3 Hu3 Hg3 Hpu3 Hst3) as Hpp3.
  destruct (node_first_real s3 pp pn3 HC3 Hg3) as (pr3 & prs3 & tp3 & Er3 & _ & Hstp3 & _ & _ & _ & _ & Hw3). rewrite Hst3 in Hstp3. inversion Hstp3; subst tp3. cbn in Hw3.
  assert (Hinc : in_upper c = false).
  { destruct (in_upper c) eqn:E; [|reflexivity]. pose proof (parent_in_upper s2 pp nm pn2 c HC2 Hg2 Hgq E) as Hpu2.
    rewrite (upper_dir_of_node s2 u pp pn2 _ HC2 Hu2 Hg2 Hpu2 Hst2) in Hnoup. discriminate. }
  assert (Hstc3 : node_stat s3 c = Some t0) by (rewrite (lower_node_stat s2 s3 q c HC2 Hgq Hinc L3); exact Hstc).
  destruct (node_stat_mstack s3 u3 q c t0 HC3 Hu3 Hgq3 Hstc3) as [rest3 Hms3].
  pose proof (nget_child pp nm (root s3) pn3 c Hg3 Hgq3) as Ec3.
  (* both runs reduce to the same tail, started in s3 *)
  set (TAIL := (n2 <- get_node q;; pn' <- get_node pp;;
       need0 <- (if upper_only n2 then fun s => match lower_has_child s (n_reals pn') nm with Ok b => (Ok b, s) | Err e => (Err e, s) end else ret true);;
       need <- (if in_upper n2 then pr <- upper_real pn' EINVAL;; mutate (r_layer pr) (h_unlink (r_path pr) nm);;; ret (need0 && negb (r_opq pr)) else ret need0);;
       remove_child pp nm;;; (if need then pn'' <- get_node pp;; pr <- upper_real pn'' EINVAL;; ri <- ri_whiteout pr nm;; insert_child pp nm (new_node ri) else ret tt))).
  assert (R1 : do_rm pp nm false s = TAIL s3).
  { unfold do_rm. rewrite (bind_ok _ _ _ _ _ (need_upper_ok s u Hu)), (bind_ok _ _ _ _ _ (Hlk1 None)), (bind_ok _ _ _ _ _ (get_node_ok pp s1 pn1 Hg1)), Hw1.
    pose proof (Hlk2 (Some nm)) as H2. cbn beta iota in H2. rewrite Ec in H2. fold q in H2.
    rewrite (bind_ok _ _ _ _ _ H2), (bind_ok _ _ _ _ _ (get_node_ok q s2 c Hgq)), Hwc.
    assert (Er : ret tt s2 = (Ok tt, s2)) by reflexivity. rewrite (bind_ok _ _ _ _ _ Er), (bind_ok _ _ _ _ _ Ecu). reflexivity. }
  assert (R2 : do_rm pp nm false s3 = TAIL s3).
  { pose proof (lookup_loaded pp s3 pn3 HC3 Hg3 Hw3 Hld3) as Hlk3.
    unfold do_rm. rewrite (bind_ok _ _ _ _ _ (need_upper_ok s3 u3 Hu3)), (bind_ok _ _ _ _ _ (Hlk3 None)), (bind_ok _ _ _ _ _ (get_node_ok pp s3 pn3 Hg3)), Hw3.
    pose proof (Hlk3 (Some nm)) as H3. cbn beta iota in H3. rewrite Ec3 in H3. fold q in H3.
    rewrite (bind_ok _ _ _ _ _ H3), (bind_ok _ _ _ _ _ (get_node_ok q s3 c Hgq3)), Hwc.
    assert (Er : ret tt s3 = (Ok tt, s3)) by reflexivity. rewrite (bind_ok _ _ _ _ _ Er).
    unfold in_upper in Hpu3. rewrite Er3 in Hpu3.
    rewrite (bind_ok _ _ _ _ _ (copy_up_noop pp s3 pn3 pr3 prs3 Hg3 Er3 Hpu3)). reflexivity. }
  (* the whiteout lemma, in s3 *)
  destruct (do_rm_wh_run pp nm false s3 u3 pn3 m3 x3 ch3 t0 rest3 HC3 Hu3 Hg3 Hpp3) as (s' & b & E & U' & L' & Hb); try assumption.
  exists s', u3, m3, x3, ch3, rest3, b. rewrite R1, <- R2. split; [exact E|]. split; [exact U'|]. split; [congruence|].
  split; [rewrite <- Hl3; exact Hb|]. split; [rewrite <- Hl3; apply (coherent_wf_layers s3 u3 HC3 Hu3)|].
  split; [rewrite <- Hl2; exact M3|]. split; [exact Hpp3|rewrite <- Hl3; exact Hms3].
Qed.

Theorem refines_unlink_cu s (pp : path) (nm : name) u m x ch r0 t0 rest0 v :
  Coherent s -> upper s = Some u -> visp (u :: lowers s) [] pp -> tget u pp = None ->
  mstack (u :: lowers s) pp = Dir m x ch :: r0 -> cu_disk_ok u (lowers s) pp ->
  mstack (u :: lowers s) (pp ++ [nm]) = t0 :: rest0 -> is_whT t0 = false -> is_dirT t0 = false ->
  (List.length (pp ++ [nm]) < DEPTH)%nat -> view (load_all s) = Some v -> refines_at s (OUnlink (pp ++ [nm])) v.
Proof.
  intros HC Hu Hvis Hnoup Hpp Hcu Hms Hnw Hnd Hlen Hv.
  assert (Hdep : (List.length pp < DEPTH)%nat) by (rewrite app_length in Hlen; cbn in Hlen; lia).
  destruct (walk_vis_run u pp [] s (root s) HC Hu eq_refl Hvis) as (s1 & n1 & E1 & HC1 & (U1 & L1 & I1) & Hg1). cbn [app] in Hg1.
  assert (Hu1 : upper s1 = Some u) by congruence.
  destruct (do_unlink_cu_run pp nm s1 u n1 m x ch r0 t0 rest0 HC1 Hu1 Hg1 Hnoup) as (s' & u3 & m3 & x3 & ch3 & rest3 & b & E & U' & L' & Hb & W3 & M3 & Hpp3 & Hms3);
    try (rewrite L1; assumption); try assumption.
  rewrite L1 in *.
  assert (Hrun : step (OUnlink (pp ++ [nm])) s = (Ok ""%string, s')).
  { cbn [step]. rewrite with_parent_snoc. unfold walk. rewrite (bind_ok _ _ _ _ _ E1), (bind_ok _ _ _ _ _ E). reflexivity. }
  unfold refines_at, run_op. rewrite Hrun. cbn [fst snd].
  assert (Hd : exists f, DEPTH = (S (S f) + List.length pp)%nat).
  { rewrite app_length in Hlen. cbn [List.length] in Hlen. exists (DEPTH - 2 - List.length pp)%nat. lia. }
  destruct Hd as [f Hd].
  destruct (refine_from_disk s (OUnlink (pp ++ [nm])) v _ s' HC eq_refl Hv Hrun) as [R T]; [|cbv zeta; auto].
  intros mv Hm. rewrite Hu in Hm. cbn [all_layers] in Hm. rewrite U', L'. cbn [all_layers]. cbv zeta.
  rewrite Hm in M3. destruct (merge (u3 :: lowers s)) as [mv3|] eqn:Hm3; cbn [oteq] in M3; [|exfalso; exact M3].
  destruct (rm_wh_merge u3 (lowers s) pp nm m3 x3 ch3 t0 rest3 f false b W3 Hpp3 Hms3 Hnw Hnd Hb Hd mv3 Hm3) as [M I].
  assert (Hfs : fs_apply (OUnlink (pp ++ [nm])) (mkFs mv3 (next_ino s)) = (Ok ""%string, mkFs (tupd pp (dir_del nm) mv3) (next_ino s))).
  { cbn [fs_apply]. rewrite split_last_snoc. unfold fs_mut. cbn [f_tree f_next]. rewrite I. reflexivity. }
  destruct (fs_apply_teq (OUnlink (pp ++ [nm])) mv3 mv (next_ino s) M3) as (R2 & T2 & _). rewrite Hfs in R2, T2. cbn [fst snd f_tree] in R2, T2.
  split; [exact R2|]. apply (oteq_trans _ (Some (tupd pp (dir_del nm) mv3))); [exact M|exact T2].
Qed.

(* [direct_cu_rm s o]: unlink of a visible regular file or symlink below a visible directory that the upper layer does not hold
   (the parent chain is copied up, under the hypotheses of [cu_okb]) *)
Definition direct_cu_rm (s : state) (o : op) : bool :=
  match upper s, o with
  | Some u, OUnlink p =>
      let L := u :: lowers s in
      match split_last p with
      | Some (pp, nm) =>
          (List.length p <? DEPTH)%nat && visb L [] pp && match tget u pp with None => true | Some _ => false end &&
          match mstack L pp with Dir _ _ _ :: _ => true | _ => false end && cu_okb u (lowers s) pp &&
          match mstack L p with t0 :: _ => negb (is_whT t0) && negb (is_dirT t0) | [] => false end
      | None => false
      end
  | _, _ => false
  end.
Theorem op_refines_unlink_cu s o v : Coherent s -> direct_cu_rm s o = true -> view (load_all s) = Some v -> refines_at s o v.
Proof.
  intros HC Hd Hv. unfold direct_cu_rm in Hd. destruct (upper s) as [u|] eqn:Hu; [|discriminate]. destruct o; try discriminate. cbv zeta in Hd.
  destruct (split_last p) as [[pp nm]|] eqn:Esp; [|discriminate]. apply split_last_spec in Esp. subst p.
  apply andb_prop in Hd. destruct Hd as [Hd H6]. apply andb_prop in Hd. destruct Hd as [Hd H5]. apply andb_prop in Hd. destruct Hd as [Hd H4].
  apply andb_prop in Hd. destruct Hd as [Hd H3]. apply andb_prop in Hd. destruct Hd as [H1 H2]. apply Nat.ltb_lt in H1.
  destruct (tget u pp) eqn:Hnoup; [discriminate|].
  destruct (mstack (u :: lowers s) pp) as [|[m x ch| | |] r0] eqn:Hpp; try discriminate.
  destruct (mstack (u :: lowers s) (pp ++ [nm])) as [|t0 rest0] eqn:Hms; [discriminate|].
  apply andb_prop in H6. destruct H6 as [A B]. apply negb_true_iff in A. apply negb_true_iff in B.
  exact (refines_unlink_cu s pp nm u m x ch r0 t0 rest0 v HC Hu (visb_visp _ _ _ H2) Hnoup Hpp (cu_okb_ok _ _ _ H5) Hms A B H1 Hv).
Qed.
