(* C01: the perform/decide lemmas lifted to [handle] (the whole of handle_message). *)
From Coq Require Import List String NArith Bool Lia Arith.
From FB Require Import Lib.Bytes Model.Server Proofs.ServerPerform Proofs.ServerReply Proofs.ServerDecide.
Import ListNotations.
Local Open Scope N_scope.

Definition h_outcome (x : list call * outcome * option N) : outcome := snd (fst x).
Definition h_calls (x : list call * outcome * option N) : list call := fst (fst x).

Lemma handle_outcome cfg k cap req fr :
  h_outcome (handle cfg k cap req fr) = perform k cap (u64 8 req) (snd (fst (decide cfg req fr cap))).
Proof. unfold handle, h_outcome. destruct (decide cfg req fr cap) as [[cs a] m]. reflexivity. Qed.

Lemma handle_no_panic cfg k cap req fr : o_panic (h_outcome (handle cfg k cap req fr)) = false.
Proof. rewrite handle_outcome. apply perform_no_panic. Qed.

Lemma handle_at_most_one_write cfg k cap req fr :
  (List.length (o_packets (h_outcome (handle cfg k cap req fr))) <= 1)%nat.
Proof. rewrite handle_outcome. apply perform_at_most_one_packet. Qed.

Lemma handle_virtio_no_fd_write cfg cap req fr :
  o_packets (h_outcome (handle cfg Virtio cap req fr)) = [].
Proof. rewrite handle_outcome. apply perform_virtio_no_packets. Qed.

Lemma handle_reply_wellformed cfg cap req fr p :
  cap < 2 ^ 32 -> fs_ok fr ->
  In p (o_packets (h_outcome (handle cfg FuseDev cap req fr))) ->
  wellformed_reply (u64 8 req) p.
Proof.
  intros Hc Hfs. rewrite handle_outcome. apply perform_packets_wellformed; [exact Hc|].
  apply decide_action_wf. exact Hfs.
Qed.

Lemma handle_forget_silent cfg k cap req fr :
  u32 4 req = 2 \/ u32 4 req = 42 ->
  o_packets (h_outcome (handle cfg k cap req fr)) = [] /\ o_mem (h_outcome (handle cfg k cap req fr)) = [].
Proof.
  intro H. rewrite handle_outcome. apply perform_silent. apply decide_forget_silent. exact H.
Qed.
