(* C03: directory replies.  For every entry list, flag and size: what the readdir loop of the
   model ([fill_dirents]) produces is at most [size] bytes, a multiple of 8, and is exactly the
   records of the longest prefix of the entries that fits (Spec/Replies: [dirents_are],
   [fitting_prefix]) -- by induction over the entry list. *)
From Coq Require Import List String NArith Bool Lia Arith.
From FB Require Import Lib.Bytes Lib.Layout Spec.KernelABI Model.Server Model.ServerCmp Spec.Requests Spec.Replies
  Proofs.EncLemmas Proofs.ServerPerform Proofs.ServerReply Proofs.ServerEncode.
Import ListNotations.
Local Open Scope string_scope.
Local Open Scope list_scope.
Local Open Scope N_scope.

(* ------------------------------------------------------------------ pad8: bit form = arithmetic form *)
Lemma testbit_high x i : x < 2 ^ 64 -> 64 <= i -> N.testbit x i = false.
Proof.
  intros Hx Hi. destruct (N.eq_dec x 0) as [->|Hne]; [apply N.bits_0|].
  apply N.bits_above_log2. apply N.lt_le_trans with 64; [|exact Hi].
  apply N.log2_lt_pow2; lia.
Qed.

Lemma land_lnot7 x : x < 2 ^ 64 -> N.land x (N.lnot 7 64) = N.ldiff x 7.
Proof.
  intro H. apply N.bits_inj; intro i. rewrite N.land_spec, N.ldiff_spec.
  destruct (N.ltb_spec i 64) as [Hlt|Hge].
  - rewrite N.lnot_spec_low by exact Hlt. reflexivity.
  - rewrite (testbit_high x i H Hge). reflexivity.
Qed.

Lemma pad8_spec n : n + 7 < 2 ^ 64 -> pad8 n = ((n + 7) / 8) * 8.
Proof.
  intro H. unfold pad8. rewrite land_lnot7 by exact H.
  change (N.ldiff (n + 7) 7) with (N.ldiff (n + 7) (N.ones 3)).
  rewrite N.ldiff_ones_r, N.shiftr_div_pow2, N.shiftl_mul_pow2. reflexivity.
Qed.

Lemma round8_ge x : x <= ((x + 7) / 8) * 8.
Proof.
  pose proof (N.div_mod (x + 7) 8 ltac:(discriminate)) as H.
  pose proof (N.mod_lt (x + 7) 8 ltac:(discriminate)) as H2. lia.
Qed.

Lemma round8_mod x : (x / 8 * 8) mod 8 = 0.
Proof. apply N.mod_mul. discriminate. Qed.

(* ------------------------------------------------------------------ records *)
Definition rec_bytes (plus : bool) (p : dirent * entry) : bytes :=
  dirent_bytes (fst p) (if plus then Some (entry_out (snd p) (e_attr_flags (snd p))) else None).
Definition recs (plus : bool) (ds : list (dirent * entry)) : bytes := flat_map (rec_bytes plus) ds.

(* side condition: every name length fits the 32-bit namelen field *)
Definition name_ok (p : dirent * entry) : bool := blen (d_name (fst p)) <? 4294967296.
Definition names_ok (ds : list (dirent * entry)) : bool := forallb name_ok ds.

Lemma dirent_size_val plus nl :
  dirent_size plus nl = (if plus then 128 else 0) + ((24 + nl + 7) / 8) * 8.
Proof. unfold dirent_size. rewrite ksize_entry_out. reflexivity. Qed.

Lemma dirent_total_spec d plus :
  blen (d_name d) < 4294967296 -> dirent_total d plus = dirent_size plus (blen (d_name d)).
Proof.
  intro H. unfold dirent_total. rewrite dirent_size_val, pad8_spec by (change (2 ^ 64) with 18446744073709551616; lia).
  apply N.add_comm.
Qed.

Lemma blen_repeat0 k : blen (repeat 0 k) = N.of_nat k.
Proof. unfold blen. rewrite repeat_length. reflexivity. Qed.

Lemma rec_blen plus d e :
  blen (d_name d) < 4294967296 -> blen (rec_bytes plus (d, e)) = dirent_size plus (blen (d_name d)).
Proof.
  intro H. unfold rec_bytes, dirent_bytes. cbn [fst snd]. rewrite dirent_size_val.
  rewrite pad8_spec by (change (2 ^ 64) with 18446744073709551616; lia).
  rewrite !blen_app, !blen_enc, blen_repeat0, N2Nat.id.
  pose proof (round8_ge (24 + blen (d_name d))) as Hge.
  change (N.of_nat 8) with 8. change (N.of_nat 4) with 4.
  destruct plus.
  - unfold blen at 1. rewrite entry_out_length. change (N.of_nat 128) with 128. lia.
  - change (blen []) with 0. lia.
Qed.

Lemma rec_length plus d e :
  blen (d_name d) < 4294967296 ->
  List.length (rec_bytes plus (d, e)) = N.to_nat (dirent_size plus (blen (d_name d))).
Proof. intro H. rewrite <- (rec_blen plus d e H). unfold blen. rewrite Nat2N.id. reflexivity. Qed.

Lemma dirent_size_mod8 plus nl : dirent_size plus nl mod 8 = 0.
Proof.
  rewrite dirent_size_val. destruct plus.
  - rewrite N.add_mod by discriminate. rewrite round8_mod. reflexivity.
  - rewrite N.add_0_l. apply round8_mod.
Qed.

Lemma names_ok_cons p r : names_ok (p :: r) = true -> blen (d_name (fst p)) < 4294967296 /\ names_ok r = true.
Proof.
  unfold names_ok. cbn [forallb]. intro H. apply andb_prop in H. destruct H as [H1 H2].
  split; [apply N.ltb_lt; exact H1|exact H2].
Qed.

Lemma names_ok_prefix plus ds room : names_ok ds = true -> names_ok (fitting_prefix plus ds room) = true.
Proof.
  revert room; induction ds as [|[d e] r IH]; intros room H; cbn [fitting_prefix]; [reflexivity|].
  destruct (room <? _); [reflexivity|].
  unfold names_ok in *. cbn [forallb] in *. apply andb_prop in H. destruct H as [H1 H2].
  rewrite H1. cbn [andb]. apply IH. exact H2.
Qed.

(* ------------------------------------------------------------------ the loop = records of the fitting prefix *)
Lemma fill_dirents_spec plus max : forall ds acc, names_ok ds = true ->
  fill_dirents ds plus max acc = acc ++ recs plus (fitting_prefix plus ds (max - blen acc)).
Proof.
  induction ds as [|[d e] r IH]; intros acc Hn; cbn [fill_dirents fitting_prefix].
  - cbn [recs flat_map]. rewrite app_nil_r. reflexivity.
  - destruct (names_ok_cons _ _ Hn) as [Hd Hr]. cbn [fst] in Hd.
    rewrite (dirent_total_spec d plus Hd).
    destruct (max - blen acc <? dirent_size plus (blen (d_name d))).
    + cbn [recs flat_map]. rewrite app_nil_r. reflexivity.
    + change (dirent_bytes d (if plus then Some (entry_out e (e_attr_flags e)) else None))
        with (rec_bytes plus (d, e)).
      rewrite (IH _ Hr). rewrite blen_app, (rec_blen plus d e Hd), N.sub_add_distr.
      cbn [recs flat_map]. rewrite <- app_assoc. reflexivity.
Qed.

Lemma recs_fit plus : forall ds room, names_ok ds = true ->
  blen (recs plus (fitting_prefix plus ds room)) <= room.
Proof.
  induction ds as [|[d e] r IH]; intros room Hn; cbn [fitting_prefix].
  - cbn. lia.
  - destruct (names_ok_cons _ _ Hn) as [Hd Hr]. cbn [fst] in Hd.
    destruct (N.ltb_spec room (dirent_size plus (blen (d_name d)))) as [Hlt|Hge].
    + cbn. lia.
    + cbn [recs flat_map]. rewrite blen_app, (rec_blen plus d e Hd).
      specialize (IH (room - dirent_size plus (blen (d_name d))) Hr). unfold recs in IH. lia.
Qed.

Lemma recs_mod8 plus : forall ds, names_ok ds = true -> blen (recs plus ds) mod 8 = 0.
Proof.
  induction ds as [|[d e] r IH]; intro Hn; [reflexivity|].
  destruct (names_ok_cons _ _ Hn) as [Hd Hr]. cbn [fst] in Hd.
  cbn [recs flat_map]. rewrite blen_app, (rec_blen plus d e Hd).
  rewrite N.add_mod by discriminate. rewrite dirent_size_mod8. unfold recs in IH. rewrite (IH Hr). reflexivity.
Qed.

(* one record at the front of [b], decoded by name through the kernel tables *)
Lemma dirents_are_recs plus : forall ds, names_ok ds = true -> dirents_are plus ds (recs plus ds) = true.
Proof.
  induction ds as [|[d e] r IH]; intro Hn; [reflexivity|].
  destruct (names_ok_cons _ _ Hn) as [Hd Hr]. cbn [fst] in Hd.
  cbn [recs flat_map dirents_are]. fold (recs plus r).
  pose proof (rec_length plus d e Hd) as Hlen.
  rewrite (drop_app_exact _ _ _ Hlen), (IH Hr), andb_true_r.
  assert (Hleb : Nat.leb (N.to_nat (dirent_size plus (blen (d_name d))))
                         (List.length (rec_bytes plus (d, e) ++ recs plus r)) = true).
  { apply Nat.leb_le. rewrite app_length, Hlen. lia. }
  rewrite Hleb. cbn [andb]. clear Hleb Hlen.
  assert (Hnl : blen (d_name d) mod 2 ^ (8 * N.of_nat 4) = blen (d_name d)).
  { apply N.mod_small. rewrite pow2_4. exact Hd. }
  unfold rec_bytes, dirent_bytes. cbn [fst snd]. rewrite ksize_entry_out.
  set (pad := repeat 0 _). set (tl := recs plus r).
  destruct plus.
  - (* readdirplus: fuse_entry_out, then fuse_dirent at 128 *)
    rewrite <- !app_assoc. rewrite entry_is_ok. cbn [andb].
    change (enc 8 (d_ino d) ++ enc 8 (d_off d) ++ enc 4 (blen (d_name d)) ++ enc 4 (d_type d) ++ d_name d ++ pad ++ tl)
      with (encf [(8%nat, d_ino d); (8%nat, d_off d); (4%nat, blen (d_name d)); (4%nat, d_type d)] ++ d_name d ++ pad ++ tl).
    rewrite (skipn_fields (entry_out e (e_attr_flags e)) _ _ (128 + 24)%nat)
      by (rewrite entry_out_length; reflexivity).
    rewrite take_app_exact by (unfold blen; symmetry; apply Nat2N.id).
    repeat kget_step entry_out_length.
    rewrite Hnl, bytes_eqb_refl. finish_fields.
  - (* readdir: fuse_dirent at 0 *)
    cbn [app Nat.add]. rewrite <- !app_assoc.
    change (enc 8 (d_ino d) ++ enc 8 (d_off d) ++ enc 4 (blen (d_name d)) ++ enc 4 (d_type d) ++ d_name d ++ pad ++ tl)
      with (encf [(8%nat, d_ino d); (8%nat, d_off d); (4%nat, blen (d_name d)); (4%nat, d_type d)] ++ d_name d ++ pad ++ tl).
    pose proof (skipn_fields [] [(8%nat, d_ino d); (8%nat, d_off d); (4%nat, blen (d_name d)); (4%nat, d_type d)]
                  (d_name d ++ pad ++ tl) 24 eq_refl) as Hs. cbn [app] in Hs. rewrite Hs. clear Hs.
    rewrite take_app_exact by (unfold blen; symmetry; apply Nat2N.id).
    repeat kget_step entry_out_length.
    rewrite Hnl, bytes_eqb_refl. finish_fields.
Qed.

(* ------------------------------------------------------------------ the theorem *)
Theorem fill_dirents_ok ds plus size : names_ok ds = true ->
  let p := fill_dirents ds plus size [] in
  blen p <= size /\ blen p mod 8 = 0 /\ dirents_are plus (fitting_prefix plus ds size) p = true.
Proof.
  intros Hn p. subst p. rewrite (fill_dirents_spec plus size ds [] Hn). cbn [app].
  change (blen []) with 0. rewrite N.sub_0_r.
  pose proof (names_ok_prefix plus ds size Hn) as Hp.
  split; [apply recs_fit; exact Hn|]. split; [apply recs_mod8; exact Hp|].
  apply dirents_are_recs. exact Hp.
Qed.

Lemma fill_dirents_recs ds plus size : names_ok ds = true ->
  fill_dirents ds plus size [] = recs plus (fitting_prefix plus ds size).
Proof.
  intro Hn. rewrite (fill_dirents_spec plus size ds [] Hn). cbn [app].
  change (blen []) with 0. rewrite N.sub_0_r. reflexivity.
Qed.

(* as a whole reply message *)
Lemma rt_dirents q minor ds :
  q_unique q < 2 ^ 64 -> names_ok ds = true ->
  let data := fill_dirents ds (q_op q =? 44) (fld q "size") [] in
  16 + blen data < 2 ^ 32 ->
  reply_ok q minor (FDirents ds) (ok_msg (q_unique q) data) = true.
Proof.
  intros Hu Hn data Hl. cbv beta iota zeta delta [reply_ok]. rewrite body_ok_msg.
  fold (okhdr (q_unique q) (ok_msg (q_unique q) data)). rewrite okhdr_ok_msg by assumption.
  destruct (fill_dirents_ok ds (q_op q =? 44) (fld q "size") Hn) as [H1 [H2 H3]].
  fold data in H1, H2, H3. rewrite H3, H2. cbn [andb]. change (0 =? 0) with true. rewrite !andb_true_r.
  apply N.leb_le. exact H1.
Qed.
