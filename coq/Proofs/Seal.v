(* Proofs/Seal.v -- C18: size sealing.  The size invariant for all histories outside the narrow
   known class (O_TRUNC on open/create, O_APPEND in a write's flags), its refutation inside the
   class, "within size = unsealed", "refused = no effect". *)
From Coq Require Import List NArith Bool Lia ZifyBool ZifyNat ZifyN.
From FB Require Import Model.Seal.
Import ListNotations.
Local Open Scope N_scope.

(* host oracle hypothesis: allocate / punch / zero inside the file never change its size *)
Definition falloc_within (H : host) : Prop :=
  forall w size mode off len,
    let op := clear_bits mode (N.lor FL_KEEP_SIZE FL_UNSHARE_RANGE) in
    (op = 0 \/ op = FL_PUNCH_HOLE \/ op = FL_ZERO_RANGE) -> off + len <= size ->
    snd (ho_falloc H w size mode off len) = size.

(* the O_APPEND state of every host fd is the O_APPEND bit of the stored flags *)
Definition hdl_ok (h : hdl) : Prop := hd_append h = true -> has (hd_flags h) O_APPEND = true.
Definition slots_ok (s : state) : Prop := forall k h, slots s k = Some h -> hdl_ok h.

(* the narrow class of requests through which the current code lets a size change (D10) *)
Definition known (r : req) : bool :=
  match r with
  | Open _ _ fl | Create _ _ fl => has fl O_TRUNC
  | Write _ _ _ _ wfl => has wfl O_APPEND
  | _ => false
  end.

Lemma set_slot_ok s k h : slots_ok s -> hdl_ok h -> slots_ok (set_slot s k (Some h)).
Proof.
  intros Hs Hh j h'. unfold set_slot. cbn [slots]. destruct (j =? k); [intros [= <-]; exact Hh|apply Hs].
Qed.
Lemma set_slot_none_ok s k : slots_ok s -> slots_ok (set_slot s k None).
Proof. intros Hs j h'. unfold set_slot. cbn [slots]. destruct (j =? k); [discriminate|apply Hs]. Qed.
Lemma set_size_ok s f v : slots_ok s -> slots_ok (set_size s f v).
Proof. intros Hs j h'. unfold set_size. cbn [slots]. apply Hs. Qed.
Lemma open_effect_ok s f fl : slots_ok s -> slots_ok (open_effect s f fl).
Proof. intros Hs. unfold open_effect. destruct (has fl O_TRUNC); [apply set_size_ok|]; exact Hs. Qed.
Lemma new_hdl_ok wb f fl : hdl_ok (new_hdl wb f fl).
Proof. unfold hdl_ok, new_hdl. cbn [hd_append hd_flags]. intros Hx. apply andb_true_iff in Hx. tauto. Qed.

Lemma get_data_ok C s slot file h : slots_ok s -> get_data C s slot file = Some h -> hdl_ok h.
Proof.
  intros Hs. unfold get_data. destruct (c_no_open C); [intros [= <-]; intros Hx; discriminate Hx|].
  destruct (slots s slot) as [h0|] eqn:E; [|discriminate].
  destruct (hd_file h0 =? file); [|discriminate]. intros [= <-]. exact (Hs _ _ E).
Qed.

Lemma check_fd_flags_ok wb h fl : hdl_ok h -> hdl_ok (check_fd_flags wb h fl).
Proof.
  intros Hh. unfold check_fd_flags. destruct (hd_flags h =? fl); [exact Hh|].
  unfold hdl_ok. cbn [hd_append hd_flags]. intros Hx. apply andb_true_iff in Hx. tauto.
Qed.

(* after check_fd_flags the fd appends only if the request's flag word carries O_APPEND *)
Lemma check_fd_flags_append wb h fl : hdl_ok h -> has fl O_APPEND = false -> hd_append (check_fd_flags wb h fl) = false.
Proof.
  intros Hh Hna. unfold check_fd_flags. destruct (hd_flags h =? fl) eqn:E; [|cbn [hd_append]; rewrite Hna; reflexivity].
  destruct (hd_append h) eqn:Ea; [|reflexivity]. unfold hdl_ok in Hh. rewrite Ea in Hh. specialize (Hh eq_refl).
  assert (hd_flags h = fl) by lia. congruence.
Qed.

Lemma step_slots_ok H C s r : slots_ok s -> slots_ok (snd (step H C s r)).
Proof.
  intros Hs. destruct r as [slot file fl|slot file fl|slot file rfl|slot file off len wfl|slot file mode off len|file ws ns|slot rfile]; cbn [step].
  - destruct (c_no_open C); cbn [snd]; [exact Hs|].
    destruct (fx_open (c_fx C) && c_seal C && has fl O_TRUNC); cbn [snd]; [exact Hs|].
    apply set_slot_ok; [apply open_effect_ok; exact Hs|apply new_hdl_ok].
  - destruct (has fl O_EXCL); cbn [snd]; [exact Hs|].
    destruct (fx_create (c_fx C) && c_seal C && has fl O_TRUNC); cbn [snd]; [exact Hs|].
    destruct (c_no_open C); cbn [snd]; [apply open_effect_ok; exact Hs|].
    apply set_slot_ok; [apply open_effect_ok; exact Hs|apply new_hdl_ok].
  - destruct (get_data C s slot file) as [h0|] eqn:Eg; cbn [snd]; [|exact Hs].
    assert (Hs1 : slots_ok (if c_no_open C then s else set_slot s slot (Some (check_fd_flags (c_writeback C) h0 rfl)))).
    { destruct (c_no_open C); [exact Hs|]. apply set_slot_ok; [exact Hs|].
      apply check_fd_flags_ok. exact (get_data_ok _ _ _ _ _ Hs Eg). }
    destruct (hd_acc _ =? 1); cbn [snd]; exact Hs1.
  - destruct (get_data C s slot file) as [h0|] eqn:Eg; cbn [snd]; [|exact Hs].
    assert (Hs1 : slots_ok (if c_no_open C then s else set_slot s slot (Some (check_fd_flags (c_writeback C) h0 wfl)))).
    { destruct (c_no_open C); [exact Hs|]. apply set_slot_ok; [exact Hs|].
      apply check_fd_flags_ok. exact (get_data_ok _ _ _ _ _ Hs Eg). }
    destruct (fx_append (c_fx C) && c_seal C && has wfl O_APPEND && negb (len =? 0)); cbn [snd]; [exact Hs1|].
    destruct (negb _); cbn [snd]; [exact Hs1|].
    destruct (len =? 0); cbn [snd]; [exact Hs1|].
    destruct (hd_acc _ =? 0); [destruct (I64_MAX <? off); cbn [snd]; exact Hs1|].
    destruct (host_pwrite _ _ _ _ _) as [e sz]. cbn [snd]. apply set_size_ok. exact Hs1.
  - destruct (get_data C s slot file) as [h0|]; cbn [snd]; [|exact Hs].
    destruct (negb _); cbn [snd]; [exact Hs|].
    destruct (ho_falloc _ _ _ _ _ _) as [e sz]. cbn [snd]. apply set_size_ok. exact Hs.
  - destruct (ws && c_seal C); cbn [snd]; [exact Hs|]. destruct ws; cbn [snd]; [|exact Hs].
    destruct (ho_maxbytes H <? ns); cbn [snd]; [exact Hs|apply set_size_ok; exact Hs].
  - destruct (c_no_open C); cbn [snd]; [exact Hs|].
    destruct (slots s slot) as [h|]; cbn [snd]; [|exact Hs].
    destruct (hd_file h =? rfile); cbn [snd]; [apply set_slot_none_ok|]; exact Hs.
Qed.

Lemma seal_write_ok size off len :
  seal_size_check true size off len 0 = 0 -> off + len <= size /\ off + len <= U64_MAX.
Proof.
  unfold seal_size_check. destruct (U64_MAX <? off + len) eqn:E1; [discriminate|].
  destruct (size <? len + off) eqn:E2; [discriminate|]. lia.
Qed.

Lemma seal_falloc_ok size off len mode :
  seal_size_check false size off len mode = 0 ->
  let op := clear_bits mode (N.lor FL_KEEP_SIZE FL_UNSHARE_RANGE) in
  (op = 0 \/ op = FL_PUNCH_HOLE \/ op = FL_ZERO_RANGE) /\ off + len <= size.
Proof.
  unfold seal_size_check. cbv zeta. destruct (U64_MAX <? off + len) eqn:E1; [discriminate|].
  set (op := clear_bits mode (N.lor FL_KEEP_SIZE FL_UNSHARE_RANGE)).
  destruct ((op =? 0) || (op =? FL_PUNCH_HOLE) || (op =? FL_ZERO_RANGE)) eqn:E2.
  - destruct (size <? len + off) eqn:E3; [discriminate|]. intros _. split; [lia|lia].
  - destruct ((op =? FL_COLLAPSE_RANGE) || (op =? FL_INSERT_RANGE)); discriminate.
Qed.

Lemma pwrite_within H size off len :
  off + len <= size -> snd (host_pwrite H size false off len) = size.
Proof.
  intros Hle. unfold host_pwrite. destruct (I64_MAX <? off + len); [reflexivity|].
  destruct (len =? 0); [reflexivity|]. destruct (ho_maxbytes H <=? off); [reflexivity|].
  cbn [snd]. lia.
Qed.

(* one request of a sealed export outside the known class leaves every size unchanged *)
(* the request is outside the known class, or the tree refuses its kind *)
Definition covered (C : cfg) (r : req) : bool :=
  negb (known r) ||
  match r with
  | Open _ _ _ => fx_open (c_fx C)
  | Create _ _ _ => fx_create (c_fx C)
  | Write _ _ _ _ _ => fx_append (c_fx C)
  | _ => false
  end.

Lemma step_sealed_sizes H C s r :
  c_seal C = true -> falloc_within H -> slots_ok s -> covered C r = true ->
  forall f, sizes (snd (step H C s r)) f = sizes s f.
Proof.
  intros Hseal Hf Hs Hk f. unfold covered in Hk.
  destruct r as [slot file fl|slot file fl|slot file rfl|slot file off len wfl|slot file mode off len|file ws ns|slot rfile]; cbn [step known] in *.
  - destruct (c_no_open C); cbn [snd]; [reflexivity|]. rewrite Hseal. unfold open_effect.
    destruct (has fl O_TRUNC); destruct (fx_open (c_fx C)); cbn in Hk |- *; try discriminate; reflexivity.
  - destruct (has fl O_EXCL); cbn [snd]; [reflexivity|]. rewrite Hseal. unfold open_effect.
    destruct (has fl O_TRUNC); destruct (fx_create (c_fx C)); cbn in Hk |- *; try discriminate;
      destruct (c_no_open C); reflexivity.
  - destruct (get_data C s slot file) as [h0|] eqn:Eg; cbn [snd]; [|reflexivity].
    destruct (hd_acc _ =? 1); cbn [snd]; destruct (c_no_open C); reflexivity.
  - destruct (get_data C s slot file) as [h0|] eqn:Eg; cbn [snd]; [|reflexivity].
    rewrite Hseal.
    assert (Hsz : forall v, sizes (if c_no_open C then s else set_slot s slot (Some v)) f = sizes s f)
      by (intros v; destruct (c_no_open C); reflexivity).
    destruct (fx_append (c_fx C) && true && has wfl O_APPEND && negb (len =? 0)) eqn:Efx; cbn [snd]; [apply Hsz|].
    destruct (seal_size_check true (sizes s file) off len 0 =? 0) eqn:Ec; cbn [negb]; cbn [snd]; [|apply Hsz].
    destruct (len =? 0) eqn:El; cbn [snd]; [apply Hsz|].
    destruct (hd_acc _ =? 0); [destruct (I64_MAX <? off); cbn [snd]; apply Hsz|].
    assert (Hna : has wfl O_APPEND = false).
    { destruct (has wfl O_APPEND); [|reflexivity]. destruct (fx_append (c_fx C)); cbn in Hk, Efx; discriminate. }
    rewrite (check_fd_flags_append _ _ _ (get_data_ok _ _ _ _ _ Hs Eg) Hna).
    assert (Hc : seal_size_check true (sizes s file) off len 0 = 0) by lia.
    destruct (seal_write_ok _ _ _ Hc) as [Hle _].
    pose proof (pwrite_within H _ _ _ Hle) as Hp.
    destruct (host_pwrite H (sizes s file) false off len) as [e sz]. cbn [snd] in *. subst sz.
    unfold set_size. cbn [sizes]. destruct (f =? file) eqn:E; [|apply Hsz].
    assert (f = file) by lia. subst f. reflexivity.
  - destruct (get_data C s slot file) as [h0|]; cbn [snd]; [|reflexivity].
    rewrite Hseal.
    destruct (seal_size_check false (sizes s file) off len mode =? 0) eqn:Ec; cbn [negb]; cbn [snd]; [|reflexivity].
    assert (Hc : seal_size_check false (sizes s file) off len mode = 0) by lia.
    destruct (seal_falloc_ok _ _ _ _ Hc) as [Hop Hle].
    pose proof (Hf (negb (hd_acc h0 =? 0)) (sizes s file) mode off len Hop Hle) as Hp.
    destruct (ho_falloc H (negb (hd_acc h0 =? 0)) (sizes s file) mode off len) as [e sz]. cbn [snd] in *. subst sz.
    unfold set_size. cbn [sizes]. destruct (f =? file) eqn:E; [|reflexivity].
    assert (f = file) by lia. subst f. reflexivity.
  - rewrite Hseal. destruct ws; cbn [andb snd]; reflexivity.
  - destruct (c_no_open C); cbn [snd]; [reflexivity|]. destruct (slots s slot) as [h|]; [|reflexivity].
    destruct (hd_file h =? rfile); reflexivity.
Qed.

Lemma pair_eta {A B} (p : A * B) : p = (fst p, snd p).
Proof. destruct p; reflexivity. Qed.

Lemma run_snd H C s r t : snd (run H C s (r :: t)) = snd (run H C (snd (step H C s r)) t).
Proof.
  cbn [run]. rewrite (pair_eta (step H C s r)). rewrite (pair_eta (run H C (snd (step H C s r)) t)). reflexivity.
Qed.

(* the size invariant for all histories outside the known class *)
Theorem sealed_sizes_partial H C : c_seal C = true -> falloc_within H ->
  forall rs s, slots_ok s -> forallb (covered C) rs = true ->
  forall f, sizes (snd (run H C s rs)) f = sizes s f.
Proof.
  intros Hseal Hf. induction rs as [|r t IH]; intros s Hs Hk f; [reflexivity|].
  cbn [forallb] in Hk. apply andb_true_iff in Hk. destruct Hk as [Hk1 Hk2].
  rewrite run_snd, IH; [|apply step_slots_ok; exact Hs|exact Hk2].
  apply step_sealed_sizes; assumption.
Qed.

(* corollaries: histories outside the known class on any tree; ALL histories on a tree with the three refusals *)
Corollary sealed_sizes_outside_known H C : c_seal C = true -> falloc_within H ->
  forall rs s, slots_ok s -> forallb (fun r => negb (known r)) rs = true ->
  forall f, sizes (snd (run H C s rs)) f = sizes s f.
Proof.
  intros Hseal Hf rs s Hs Hk. apply sealed_sizes_partial; try assumption.
  rewrite forallb_forall in *. intros r Hr. unfold covered. rewrite (Hk r Hr). reflexivity.
Qed.

Corollary sealed_sizes_full_when_fixed H C : c_seal C = true -> c_fx C = all_fixes -> falloc_within H ->
  forall rs s, slots_ok s -> forall f, sizes (snd (run H C s rs)) f = sizes s f.
Proof.
  intros Hseal Hfx Hf rs s Hs. apply sealed_sizes_partial; try assumption.
  rewrite forallb_forall. intros r _. unfold covered. rewrite Hfx.
  destruct r; cbn; try reflexivity; apply orb_true_r.
Qed.

(* the full statement and its refutation *)
Definition sealed_sizes_full (fx : fixes) : Prop :=
  forall H C, c_seal C = true -> c_fx C = fx -> falloc_within H ->
  forall rs s, slots_ok s -> forall f, sizes (snd (run H C s rs)) f = sizes s f.

Lemma ldiff_bit_absurd mode b k :
  N.ldiff mode FL_KEEP_SIZE = b -> N.testbit b k = true ->
  N.testbit 0 k = false -> N.testbit FL_PUNCH_HOLE k = false -> N.testbit FL_ZERO_RANGE k = false ->
  N.testbit (N.lor FL_KEEP_SIZE FL_UNSHARE_RANGE) k = false ->
  let op := N.ldiff mode (N.lor FL_KEEP_SIZE FL_UNSHARE_RANGE) in
  ~ (op = 0 \/ op = FL_PUNCH_HOLE \/ op = FL_ZERO_RANGE).
Proof.
  intros Hb Hk H0 H2 H16 Hm op Hop.
  assert (Ht : N.testbit op k = true).
  { unfold op. rewrite N.ldiff_spec, Hm. rewrite <- Hb, N.ldiff_spec in Hk.
    apply andb_true_iff in Hk. destruct Hk as [Hk _]. rewrite Hk. reflexivity. }
  destruct Hop as [Ho|[Ho|Ho]]; rewrite Ho in Ht; congruence.
Qed.

Lemma tie_host_falloc_within : falloc_within tie_host.
Proof.
  intros w size mode off len op Hop Hle. cbn [tie_host ho_falloc]. unfold linux_falloc.
  destruct ((I64_MAX <? off) || (I64_MAX <? len) || (len =? 0)); [reflexivity|].
  destruct (negb (N.land mode (N.lnot 127 64) =? 0)); [reflexivity|]. cbv zeta.
  set (o := clear_bits mode FL_KEEP_SIZE).
  destruct (negb ((o =? 0) || (o =? FL_UNSHARE_RANGE) || (o =? FL_ZERO_RANGE) || (o =? FL_PUNCH_HOLE)
                  || (o =? FL_COLLAPSE_RANGE) || (o =? FL_INSERT_RANGE))) eqn:Em; [reflexivity|].
  destruct ((o =? FL_PUNCH_HOLE) && negb (has mode FL_KEEP_SIZE)); [reflexivity|].
  destruct (((o =? FL_COLLAPSE_RANGE) || (o =? FL_INSERT_RANGE)) && has mode FL_KEEP_SIZE); [reflexivity|].
  destruct (negb w); [reflexivity|].
  destruct (ext4_maxbytes <? off + len); [reflexivity|].
  destruct (o =? FL_UNSHARE_RANGE) eqn:E64; [reflexivity|].
  destruct (o =? 0) eqn:E0; [cbn [snd]; destruct (has mode FL_KEEP_SIZE); lia|].
  destruct (o =? FL_PUNCH_HOLE) eqn:E2; [reflexivity|].
  destruct (o =? FL_ZERO_RANGE) eqn:E16; [cbn [snd]; destruct (has mode FL_KEEP_SIZE); lia|].
  exfalso. unfold clear_bits in *.
  destruct (o =? FL_COLLAPSE_RANGE) eqn:E8.
  - apply (ldiff_bit_absurd mode FL_COLLAPSE_RANGE 3); try reflexivity; [subst o; lia|exact Hop].
  - destruct (o =? FL_INSERT_RANGE) eqn:E32; [|cbn in Em; discriminate].
    apply (ldiff_bit_absurd mode FL_INSERT_RANGE 5); try reflexivity; [subst o; lia|exact Hop].
Qed.

Definition w_state : state := init_state [10].
Lemma w_state_ok : slots_ok w_state.
Proof. intros k h. cbn. discriminate. Qed.

Lemma sealed_sizes_refuted : ~ sealed_sizes_full no_fixes.
Proof.
  intros Hfull.
  specialize (Hfull tie_host (mk_cfg true false no_fixes false) eq_refl eq_refl tie_host_falloc_within
                    [Open 0 0 (N.lor 2 O_TRUNC)] w_state w_state_ok 0).
  vm_compute in Hfull. discriminate.
Qed.

Lemma sealed_sizes_full_fixed : sealed_sizes_full all_fixes.
Proof. intros H C Hs Hfx Hf. apply sealed_sizes_full_when_fixed; assumption. Qed.

(* the three witnesses of D10 evaluated in the model (file of 10 bytes) *)
Lemma witness_open_trunc :
  sizes (snd (run tie_host (mk_cfg true false no_fixes false) w_state [Open 0 0 (N.lor 1 O_TRUNC)])) 0 = 0.
Proof. reflexivity. Qed.
Lemma witness_create_trunc :
  sizes (snd (run tie_host (mk_cfg true true no_fixes false) w_state [Create 0 0 (N.lor 2 O_TRUNC)])) 0 = 0.
Proof. reflexivity. Qed.
Lemma witness_write_append :
  fst (run tie_host (mk_cfg true false no_fixes false) w_state [Open 0 0 2; Write 0 0 0 4 (N.lor 2 O_APPEND)]) = [0; 0] /\
  sizes (snd (run tie_host (mk_cfg true false no_fixes false) w_state [Open 0 0 2; Write 0 0 0 4 (N.lor 2 O_APPEND)])) 0 = 14.
Proof. split; reflexivity. Qed.

(* ------------------------------------------------------------------ within the size: as unsealed *)
(* the request does not ask for anything beyond the current size (and is not a size-setting setattr) *)
Definition stays_within (s : state) (r : req) : Prop :=
  match r with
  | Open _ _ fl | Create _ _ fl => has fl O_TRUNC = false
  | Write _ file off len wfl => off + len <= sizes s file /\ (has wfl O_APPEND = false \/ len = 0)
  | Fallocate _ file mode off len =>
    let op := clear_bits mode (N.lor FL_KEEP_SIZE FL_UNSHARE_RANGE) in
    (op = 0 \/ op = FL_PUNCH_HOLE \/ op = FL_ZERO_RANGE) /\ off + len <= sizes s file
  | Setattr _ with_size _ => with_size = false
  | _ => True
  end.

Definition size_bounded (s : state) : Prop := forall f, sizes s f <= U64_MAX.

Lemma seal_write_pass size off len :
  off + len <= size -> size <= U64_MAX -> seal_size_check true size off len 0 = 0.
Proof.
  intros H1 H2. unfold seal_size_check. destruct (U64_MAX <? off + len) eqn:E1; [lia|].
  destruct (size <? len + off) eqn:E2; [lia|reflexivity].
Qed.

Lemma seal_falloc_pass size off len mode :
  let op := clear_bits mode (N.lor FL_KEEP_SIZE FL_UNSHARE_RANGE) in
  (op = 0 \/ op = FL_PUNCH_HOLE \/ op = FL_ZERO_RANGE) -> off + len <= size -> size <= U64_MAX ->
  seal_size_check false size off len mode = 0.
Proof.
  cbv zeta. intros Hop H1 H2. unfold seal_size_check. destruct (U64_MAX <? off + len) eqn:E1; [lia|].
  destruct ((clear_bits mode (N.lor FL_KEEP_SIZE FL_UNSHARE_RANGE) =? 0)
            || (clear_bits mode (N.lor FL_KEEP_SIZE FL_UNSHARE_RANGE) =? FL_PUNCH_HOLE)
            || (clear_bits mode (N.lor FL_KEEP_SIZE FL_UNSHARE_RANGE) =? FL_ZERO_RANGE)) eqn:E2.
  - destruct (size <? len + off) eqn:E3; [lia|reflexivity].
  - exfalso. destruct Hop as [Ho|[Ho|Ho]]; rewrite Ho in E2; discriminate.
Qed.

Theorem within_size_same H no_open fx wb s r :
  size_bounded s -> stays_within s r ->
  step H (mk_cfg true no_open fx wb) s r = step H (mk_cfg false no_open fx wb) s r.
Proof.
  intros Hb Hw.
  destruct r as [slot file fl|slot file fl|slot file rfl|slot file off len wfl|slot file mode off len|file ws ns|slot rfile];
    cbn [step c_seal c_no_open c_fx stays_within] in *; try reflexivity.
  - rewrite Hw, !andb_false_r. reflexivity.
  - rewrite Hw, !andb_false_r. reflexivity.
  - destruct (get_data _ s slot file) as [h0|]; [|reflexivity]. destruct Hw as [Hw Ha].
    rewrite (seal_write_pass _ _ _ Hw (Hb file)).
    assert (Hx : has wfl O_APPEND && negb (len =? 0) = false).
    { destruct Ha as [-> | ->]; [reflexivity|apply andb_false_r]. }
    rewrite <- !andb_assoc, Hx, !andb_false_r. reflexivity.
  - destruct (get_data _ s slot file) as [h0|]; [|reflexivity]. destruct Hw as [Hop Hle].
    rewrite (seal_falloc_pass _ _ _ _ Hop Hle (Hb file)). reflexivity.
  - subst ws. reflexivity.
Qed.

(* ------------------------------------------------------------------ refused: no effect on any size *)
(* the request asks for something that would (or could) change the size *)
Definition would_change (s : state) (r : req) : Prop :=
  match r with
  | Write _ file off len _ => sizes s file < off + len
  | Fallocate _ file mode off len =>
    let op := clear_bits mode (N.lor FL_KEEP_SIZE FL_UNSHARE_RANGE) in
    ~ (op = 0 \/ op = FL_PUNCH_HOLE \/ op = FL_ZERO_RANGE) \/ sizes s file < off + len
  | Setattr _ with_size _ => with_size = true
  | _ => False
  end.

Theorem refused_no_effect H no_open fx wb s r :
  would_change s r ->
  (get_data (mk_cfg true no_open fx wb) s (match r with Write k _ _ _ _ | Fallocate k _ _ _ _ => k | _ => 0 end)
            (match r with Write _ f _ _ _ | Fallocate _ f _ _ _ => f | _ => 0 end) <> None \/
   match r with Setattr _ _ _ => True | _ => False end) ->
  (fst (step H (mk_cfg true no_open fx wb) s r) = EPERM \/ fst (step H (mk_cfg true no_open fx wb) s r) = EINVAL) /\
  forall f, sizes (snd (step H (mk_cfg true no_open fx wb) s r)) f = sizes s f.
Proof.
  intros Hw Hg.
  destruct r as [slot file fl|slot file fl|slot file rfl|slot file off len wfl|slot file mode off len|file ws ns|slot rfile];
    cbn [would_change] in Hw; try contradiction; cbn [step c_seal c_no_open c_fx].
  - destruct Hg as [Hg|[]]. destruct (get_data _ s slot file) as [h0|]; [|contradiction].
    assert (Hc : seal_size_check true (sizes s file) off len 0 = EPERM \/ seal_size_check true (sizes s file) off len 0 = EINVAL).
    { unfold seal_size_check. destruct (U64_MAX <? off + len); [right; reflexivity|].
      destruct (sizes s file <? len + off) eqn:E; [left; reflexivity|lia]. }
    assert (Hnz : negb (seal_size_check true (sizes s file) off len 0 =? 0) = true)
      by (destruct Hc as [-> | ->]; reflexivity).
    rewrite Hnz.
    destruct (fx_append fx && true && has wfl O_APPEND && negb (len =? 0)); cbn [fst snd];
      (split; [try exact Hc; left; reflexivity|intros f; destruct no_open; reflexivity]).
  - destruct Hg as [Hg|[]]. destruct (get_data _ s slot file) as [h0|]; [|contradiction].
    assert (Hc : seal_size_check false (sizes s file) off len mode = EPERM \/ seal_size_check false (sizes s file) off len mode = EINVAL).
    { unfold seal_size_check. destruct (U64_MAX <? off + len); [right; reflexivity|]. cbv zeta.
      set (op := clear_bits mode (N.lor FL_KEEP_SIZE FL_UNSHARE_RANGE)) in *.
      destruct ((op =? 0) || (op =? FL_PUNCH_HOLE) || (op =? FL_ZERO_RANGE)) eqn:E2.
      - destruct (sizes s file <? len + off) eqn:E3; [left; reflexivity|].
        exfalso. destruct Hw as [Hw|Hw]; [|lia]. apply Hw.
        apply orb_true_iff in E2. destruct E2 as [E2|E2]; [apply orb_true_iff in E2; destruct E2 as [E2|E2]|]; lia.
      - destruct ((op =? FL_COLLAPSE_RANGE) || (op =? FL_INSERT_RANGE)); [left|right]; reflexivity. }
    assert (Hnz : negb (seal_size_check false (sizes s file) off len mode =? 0) = true)
      by (destruct Hc as [-> | ->]; reflexivity).
    rewrite Hnz. cbn [fst snd]. split; [exact Hc|]. reflexivity.
  - subst ws. cbn [andb fst snd]. split; [left; reflexivity|reflexivity].
Qed.
