(* Proofs/Seal.v -- C18: size sealing.  The size invariant for all histories and all flag words (what
   reaches openat(2), what reaches F_SETFL), its refutation on a tree without the refusals, "within size =
   unsealed", "refused = no effect". *)
From Coq Require Import List NArith Bool Lia ZifyBool ZifyNat ZifyN.
From FB Require Import Model.Seal.
Import ListNotations.
Local Open Scope N_scope.

(* host oracle hypothesis: allocate / punch / zero inside the file never change its size *)
Definition falloc_within (H : host) : Prop :=
  forall w size mode off len,
    let op := clear_bits mode (N.lor FL_KEEP_SIZE FL_UNSHARE_RANGE) in
    (op = 0 \/ op = FL_PUNCH_HOLE \/ op = FL_ZERO_RANGE) -> off + len <= size ->
    snd (ho_falloc H w size mode off len) = size.

(* ------------------------------------------------------------------ flag words, bit by bit *)
Lemma has_pow2 x k : has x (2 ^ k) = N.testbit x k.
Proof.
  unfold has. destruct (N.testbit x k) eqn:E.
  - assert (Hl : N.land x (2 ^ k) = 2 ^ k).
    { apply N.bits_inj. intro n. rewrite N.land_spec, N.pow2_bits_eqb.
      destruct (N.eqb_spec k n) as [<-|]; [rewrite E; reflexivity|apply andb_false_r]. }
    rewrite Hl. pose proof (N.pow_nonzero 2 k). destruct (N.eqb_spec (2 ^ k) 0); [lia|reflexivity].
  - assert (Hl : N.land x (2 ^ k) = 0).
    { apply N.bits_inj. intro n. rewrite N.land_spec, N.pow2_bits_eqb, N.bits_0.
      destruct (N.eqb_spec k n) as [<-|]; [rewrite E; reflexivity|apply andb_false_r]. }
    rewrite Hl. reflexivity.
Qed.
Lemma has_trunc x : has x O_TRUNC = N.testbit x 9.
Proof. exact (has_pow2 x 9). Qed.
Lemma has_append x : has x O_APPEND = N.testbit x 10.
Proof. exact (has_pow2 x 10). Qed.

(* the constant masks of the code at bits 9 (O_TRUNC) and 10 (O_APPEND) *)
Ltac mask_bits :=
  unfold clear_bits; rewrite ?N.ldiff_spec, ?N.lor_spec, ?N.ldiff_spec, ?N.lor_spec, ?N.ldiff_spec;
  change (N.testbit O_ACCMODE 9) with false; change (N.testbit O_ACCMODE 10) with false;
  change (N.testbit 2 9) with false; change (N.testbit 2 10) with false;
  change (N.testbit O_APPEND 9) with false; change (N.testbit O_APPEND 10) with true;
  change (N.testbit O_DIRECT 9) with false; change (N.testbit O_DIRECT 10) with false;
  change (N.testbit O_CLOEXEC 9) with false; change (N.testbit O_CLOEXEC 10) with false;
  change (N.testbit O_NOFOLLOW 9) with false; change (N.testbit O_NOFOLLOW 10) with false;
  change (N.testbit O_CREAT 9) with false; change (N.testbit O_CREAT 10) with false;
  cbn [negb]; rewrite ?andb_true_r, ?orb_false_r, ?andb_false_r.

(* get_writeback_open_flags never touches the O_TRUNC bit, and never sets O_APPEND *)
Lemma wb_flags_trunc wb fl : N.testbit (wb_flags wb fl) 9 = N.testbit fl 9.
Proof.
  unfold wb_flags. destruct (wb && (acc_mode fl =? 1)), (wb && has fl O_APPEND); mask_bits; reflexivity.
Qed.
Lemma wb_flags_append wb fl : N.testbit (wb_flags wb fl) 10 = true -> N.testbit fl 10 = true.
Proof.
  unfold wb_flags. destruct (wb && (acc_mode fl =? 1)), (wb && has fl O_APPEND); mask_bits; try discriminate; auto.
Qed.

(* the word that reaches openat(2) carries O_TRUNC exactly when the word given to open_inode does: nothing on
   the way (writeback adjustment, O_DIRECT, O_CLOEXEC, the O_NOFOLLOW / O_CREAT masks) removes it *)
Lemma openat_word_trunc wb dio fl : has (openat_word wb dio fl) O_TRUNC = has fl O_TRUNC.
Proof.
  rewrite !has_trunc. unfold openat_word. destruct (negb dio && has fl O_DIRECT); mask_bits; apply wb_flags_trunc.
Qed.
Lemma openat_word_append wb dio fl : has (openat_word wb dio fl) O_APPEND = true -> has fl O_APPEND = true.
Proof.
  rewrite !has_append. unfold openat_word. destruct (negb dio && has fl O_DIRECT); mask_bits; apply wb_flags_append.
Qed.
Lemma setfl_word_append wb dio fl : has (setfl_word wb dio fl) O_APPEND = true -> has fl O_APPEND = true.
Proof.
  rewrite !has_append. unfold setfl_word. destruct (negb dio); mask_bits; apply wb_flags_append.
Qed.

(* the per-request descriptor of READ / WRITE / FALLOCATE under no_open is opened without O_TRUNC, whatever the
   flag word of the request *)
Lemma io_open_flags_trunc acc fl : acc = 0 \/ acc = 2 -> has (io_open_flags acc fl) O_TRUNC = false.
Proof. intros [-> | ->]; reflexivity. Qed.

(* the host: only a word with O_TRUNC changes the size on open; the descriptor appends only if the word says so *)
Lemma host_open_size size w : has w O_TRUNC = false -> snd (fst (host_open size w)) = size.
Proof.
  intros Ht. unfold host_open. rewrite Ht.
  destruct (has w O_PATH); [destruct (has w O_DIRECTORY); reflexivity|].
  destruct (has w O_TMPFILE_BIT); [destruct (has w O_DIRECTORY && negb (acc_mode w =? 0)); reflexivity|].
  destruct (has w O_DIRECTORY); reflexivity.
Qed.
Lemma host_open_append size w : fd_append (snd (host_open size w)) = true -> has w O_APPEND = true.
Proof.
  unfold host_open.
  destruct (has w O_PATH); [destruct (has w O_DIRECTORY); discriminate|].
  destruct (has w O_TMPFILE_BIT); [destruct (has w O_DIRECTORY && negb (acc_mode w =? 0)); discriminate|].
  destruct (has w O_DIRECTORY); [discriminate|]. cbn [snd fd_append]. auto.
Qed.

(* ------------------------------------------------------------------ the invariant on handles *)
(* the O_APPEND state of every host fd is the O_APPEND bit of the stored flags *)
Definition hdl_ok (h : hdl) : Prop := fd_append (hd_fd h) = true -> has (hd_flags h) O_APPEND = true.
Definition slots_ok (s : state) : Prop := forall k h, slots s k = Some h -> hdl_ok h.

(* the narrow class of requests through which a tree without the refusals lets a size change (D10) *)
Definition known (r : req) : bool :=
  match r with
  | Open _ _ fl | Create _ _ fl => has fl O_TRUNC
  | Write _ _ _ _ wfl => has wfl O_APPEND
  | _ => false
  end.

Lemma set_slot_ok s k h : slots_ok s -> hdl_ok h -> slots_ok (set_slot s k (Some h)).
Proof.
  intros Hs Hh j h'. unfold set_slot. cbn [slots]. destruct (j =? k); [intros [= <-]; exact Hh|apply Hs].
Qed.
Lemma set_slot_none_ok s k : slots_ok s -> slots_ok (set_slot s k None).
Proof. intros Hs j h'. unfold set_slot. cbn [slots]. destruct (j =? k); [discriminate|apply Hs]. Qed.
Lemma set_size_ok s f v : slots_ok s -> slots_ok (set_size s f v).
Proof. intros Hs j h'. unfold set_size. cbn [slots]. apply Hs. Qed.
Lemma upd_size_ok s f v : slots_ok s -> slots_ok (upd_size s f v).
Proof. intros Hs. unfold upd_size. destruct (v =? sizes s f); [exact Hs|apply set_size_ok; exact Hs]. Qed.
Lemma upd_size_sizes s f v g : sizes (upd_size s f v) g = if g =? f then v else sizes s g.
Proof.
  unfold upd_size. destruct (N.eqb_spec v (sizes s f)) as [->|]; [|reflexivity].
  destruct (N.eqb_spec g f) as [->|]; reflexivity.
Qed.

(* open_inode: the state, errno and descriptor as three projections *)
Lemma open_inode_eq C s file fl :
  open_inode C s file fl =
  (fst (fst (host_open (sizes s file) (openat_word (c_writeback C) (c_dio C) fl))),
   upd_size s file (snd (fst (host_open (sizes s file) (openat_word (c_writeback C) (c_dio C) fl)))),
   snd (host_open (sizes s file) (openat_word (c_writeback C) (c_dio C) fl))).
Proof. unfold open_inode. destruct (host_open _ _) as [[e sz] fd]. reflexivity. Qed.

Lemma open_inode_ok C s file fl : slots_ok s -> slots_ok (snd (fst (open_inode C s file fl))).
Proof. intros Hs. rewrite open_inode_eq. cbn [fst snd]. apply upd_size_ok. exact Hs. Qed.
Lemma open_inode_hdl_ok C s file fl : hdl_ok (mk_hdl file fl (snd (open_inode C s file fl))).
Proof.
  rewrite open_inode_eq. unfold hdl_ok. cbn [fst snd hd_fd hd_flags]. intros Ha.
  apply host_open_append in Ha. exact (openat_word_append _ _ _ Ha).
Qed.
(* open_inode with a word without O_TRUNC leaves every size alone *)
Lemma open_inode_sizes C s file fl : has fl O_TRUNC = false ->
  forall f, sizes (snd (fst (open_inode C s file fl))) f = sizes s f.
Proof.
  intros Ht f. rewrite open_inode_eq. cbn [fst snd]. rewrite upd_size_sizes.
  rewrite host_open_size by (rewrite openat_word_trunc; exact Ht).
  destruct (N.eqb_spec f file) as [->|]; reflexivity.
Qed.

Lemma get_data_ok C s slot file gd : slots_ok s -> slots_ok (snd (fst (get_data C s slot file gd))).
Proof.
  intros Hs. unfold get_data. destruct (c_no_open C).
  - pose proof (open_inode_ok C s file gd Hs) as Ho. destruct (open_inode C s file gd) as [[e s1] fd].
    cbn [fst snd] in Ho. destruct (e =? 0); exact Ho.
  - destruct (slots s slot) as [h|]; [destruct (hd_file h =? file)|]; exact Hs.
Qed.
Lemma get_data_hdl_ok C s slot file gd h : slots_ok s -> snd (get_data C s slot file gd) = Some h -> hdl_ok h.
Proof.
  intros Hs. unfold get_data. destruct (c_no_open C).
  - pose proof (open_inode_hdl_ok C s file gd) as Ho. destruct (open_inode C s file gd) as [[e s1] fd].
    cbn [snd] in Ho. destruct (e =? 0); cbn [snd]; [intros [= <-]; exact Ho|discriminate].
  - destruct (slots s slot) as [h0|] eqn:E; [|discriminate].
    destruct (hd_file h0 =? file); cbn [snd]; [|discriminate]. intros [= <-]. exact (Hs _ _ E).
Qed.
Lemma get_data_sizes C s slot file gd : has gd O_TRUNC = false ->
  forall f, sizes (snd (fst (get_data C s slot file gd))) f = sizes s f.
Proof.
  intros Ht f. unfold get_data. destruct (c_no_open C).
  - pose proof (open_inode_sizes C s file gd Ht f) as Ho. destruct (open_inode C s file gd) as [[e s1] fd].
    cbn [fst snd] in Ho. destruct (e =? 0); exact Ho.
  - destruct (slots s slot) as [h|]; [destruct (hd_file h =? file)|]; reflexivity.
Qed.
(* with ordinary handles get_data does not touch the state *)
Lemma get_data_handles C s slot file gd : c_no_open C = false -> snd (fst (get_data C s slot file gd)) = s.
Proof.
  intros Hn. unfold get_data. rewrite Hn. destruct (slots s slot) as [h|]; [destruct (hd_file h =? file)|]; reflexivity.
Qed.

Lemma check_fd_flags_ok C h fl : hdl_ok h -> hdl_ok (snd (check_fd_flags C h fl)).
Proof.
  intros Hh. unfold check_fd_flags. destruct (hd_flags h =? fl); [exact Hh|].
  unfold host_setfl. destruct (fd_path (hd_fd h)); cbn [fst snd N.eqb EBADF]; [exact Hh|].
  unfold hdl_ok. cbn [hd_fd hd_flags fd_append]. apply setfl_word_append.
Qed.

(* after a successful check_fd_flags the fd appends only if the request's flag word carries O_APPEND *)
Lemma check_fd_flags_append C h fl : hdl_ok h -> has fl O_APPEND = false -> fst (check_fd_flags C h fl) = 0 ->
  fd_append (hd_fd (snd (check_fd_flags C h fl))) = false.
Proof.
  intros Hh Hna. unfold check_fd_flags. destruct (N.eqb_spec (hd_flags h) fl) as [E|E].
  - intros _. cbn [snd]. destruct (fd_append (hd_fd h)) eqn:Ea; [|reflexivity].
    unfold hdl_ok in Hh. rewrite Ea, E in Hh. specialize (Hh eq_refl). congruence.
  - unfold host_setfl. destruct (fd_path (hd_fd h)); cbn [fst snd N.eqb EBADF]; [discriminate|].
    intros _. cbn [hd_fd fd_append].
    destruct (has (setfl_word (c_writeback C) (c_dio C) fl) O_APPEND) eqn:Es; [|reflexivity].
    apply setfl_word_append in Es. congruence.
Qed.
(* check_fd_flags keeps the inode of the handle *)
Lemma check_fd_flags_file C h fl : hd_file (snd (check_fd_flags C h fl)) = hd_file h.
Proof.
  unfold check_fd_flags. destruct (hd_flags h =? fl); [reflexivity|].
  unfold host_setfl. destruct (fd_path (hd_fd h)); reflexivity.
Qed.

Lemma step_slots_ok H C s r : slots_ok s -> slots_ok (snd (step H C s r)).
Proof.
  intros Hs. destruct r as [slot file fl|slot file fl|slot file rfl|slot file off len wfl|slot file mode off len|file ws ns fh|slot rfile]; cbn [step].
  - destruct (c_no_open C); cbn [snd]; [exact Hs|].
    destruct (fx_open (c_fx C) && c_seal C && has fl O_TRUNC); cbn [snd]; [exact Hs|].
    pose proof (open_inode_ok C s file fl Hs) as Ho. pose proof (open_inode_hdl_ok C s file fl) as Hh.
    destruct (open_inode C s file fl) as [[e s1] fd]. cbn [fst snd] in Ho, Hh.
    destruct (e =? 0); cbn [snd]; [apply set_slot_ok; assumption|exact Ho].
  - destruct (host_create_excl _); cbn [snd]; [exact Hs| |].
    + destruct (c_no_open C); cbn [snd]; [exact Hs|]. apply set_slot_ok; [exact Hs|].
      unfold hdl_ok. cbn [hd_fd fd_append]. discriminate.
    + destruct (has _ O_EXCL); cbn [snd]; [exact Hs|].
      destruct (fx_create (c_fx C) && c_seal C && has fl O_TRUNC); cbn [snd]; [exact Hs|].
      pose proof (open_inode_ok C s file fl Hs) as Ho. pose proof (open_inode_hdl_ok C s file fl) as Hh.
      destruct (open_inode C s file fl) as [[e s1] fd]. cbn [fst snd] in Ho, Hh.
      destruct (negb (e =? 0)); cbn [snd]; [exact Ho|].
      destruct (c_no_open C); cbn [snd]; [exact Ho|apply set_slot_ok; assumption].
  - pose proof (get_data_ok C s slot file (io_open_flags 0 rfl) Hs) as Hg.
    pose proof (get_data_hdl_ok C s slot file (io_open_flags 0 rfl)) as Hh.
    destruct (get_data C s slot file (io_open_flags 0 rfl)) as [[e0 s0] [h0|]]; cbn [fst snd] in Hg, Hh; cbn [snd]; [|exact Hg].
    pose proof (check_fd_flags_ok C h0 rfl (Hh h0 Hs eq_refl)) as Hc.
    destruct (check_fd_flags C h0 rfl) as [ef h]. cbn [snd] in Hc.
    assert (Hs1 : slots_ok (if c_no_open C then s0 else set_slot s0 slot (Some h))).
    { destruct (c_no_open C); [exact Hg|apply set_slot_ok; assumption]. }
    destruct (negb (ef =? 0)); cbn [snd]; [exact Hs1|]. destruct (fd_readable (hd_fd h)); exact Hs1.
  - pose proof (get_data_ok C s slot file (io_open_flags 2 wfl) Hs) as Hg.
    pose proof (get_data_hdl_ok C s slot file (io_open_flags 2 wfl)) as Hh.
    destruct (get_data C s slot file (io_open_flags 2 wfl)) as [[e0 s0] [h0|]]; cbn [fst snd] in Hg, Hh; cbn [snd]; [|exact Hg].
    pose proof (check_fd_flags_ok C h0 wfl (Hh h0 Hs eq_refl)) as Hc.
    destruct (check_fd_flags C h0 wfl) as [ef h]. cbn [snd] in Hc.
    assert (Hs1 : slots_ok (if c_no_open C then s0 else set_slot s0 slot (Some h))).
    { destruct (c_no_open C); [exact Hg|apply set_slot_ok; assumption]. }
    destruct (negb (ef =? 0)); cbn [snd]; [exact Hs1|].
    destruct (fx_append (c_fx C) && c_seal C && has wfl O_APPEND && negb (len =? 0)); cbn [snd]; [exact Hs1|].
    destruct (negb _); cbn [snd]; [exact Hs1|].
    destruct (len =? 0); cbn [snd]; [exact Hs1|].
    destruct (negb (fd_writable (hd_fd h))); [destruct (I64_MAX <? off); cbn [snd]; exact Hs1|].
    destruct (host_pwrite _ _ _ _ _) as [e sz]. cbn [snd]. apply set_size_ok. exact Hs1.
  - pose proof (get_data_ok C s slot file (io_open_flags 2 0) Hs) as Hg.
    destruct (get_data C s slot file (io_open_flags 2 0)) as [[e0 s0] [h0|]]; cbn [fst snd] in Hg; cbn [snd]; [|exact Hg].
    destruct (negb _); cbn [snd]; [exact Hg|].
    destruct (fd_path (hd_fd h0)); cbn [snd]; [exact Hg|].
    destruct (ho_falloc _ _ _ _ _ _) as [e sz]. cbn [snd]. apply set_size_ok. exact Hg.
  - destruct (setattr_data C s file fh) as [d|]; cbn [snd]; [|exact Hs].
    destruct (ws && c_seal C); cbn [snd]; [exact Hs|].
    destruct (negb _); cbn [snd]; [exact Hs|]. destruct ws; cbn [snd]; [|exact Hs].
    destruct (ho_maxbytes H <? ns); cbn [snd]; [exact Hs|apply set_size_ok; exact Hs].
  - destruct (c_no_open C); cbn [snd]; [exact Hs|].
    destruct (slots s slot) as [h|]; cbn [snd]; [|exact Hs].
    destruct (hd_file h =? rfile); cbn [snd]; [apply set_slot_none_ok|]; exact Hs.
Qed.

Lemma seal_write_ok size off len :
  seal_size_check true size off len 0 = 0 -> off + len <= size /\ off + len <= U64_MAX.
Proof.
  unfold seal_size_check. destruct (U64_MAX <? off + len) eqn:E1; [discriminate|].
  destruct (size <? len + off) eqn:E2; [discriminate|]. lia.
Qed.

Lemma seal_falloc_ok size off len mode :
  seal_size_check false size off len mode = 0 ->
  let op := clear_bits mode (N.lor FL_KEEP_SIZE FL_UNSHARE_RANGE) in
  (op = 0 \/ op = FL_PUNCH_HOLE \/ op = FL_ZERO_RANGE) /\ off + len <= size.
Proof.
  unfold seal_size_check. cbv zeta. destruct (U64_MAX <? off + len) eqn:E1; [discriminate|].
  set (op := clear_bits mode (N.lor FL_KEEP_SIZE FL_UNSHARE_RANGE)).
  destruct ((op =? 0) || (op =? FL_PUNCH_HOLE) || (op =? FL_ZERO_RANGE)) eqn:E2.
  - destruct (size <? len + off) eqn:E3; [discriminate|]. intros _. split; [lia|lia].
  - destruct ((op =? FL_COLLAPSE_RANGE) || (op =? FL_INSERT_RANGE)); discriminate.
Qed.

Lemma pwrite_within H size off len :
  off + len <= size -> snd (host_pwrite H size false off len) = size.
Proof.
  intros Hle. unfold host_pwrite. destruct (I64_MAX <? off + len); [reflexivity|].
  destruct (len =? 0); [reflexivity|]. destruct (ho_maxbytes H <=? off); [reflexivity|].
  cbn [snd]. lia.
Qed.

(* the request is outside the known class, or the tree refuses its kind *)
Definition covered (C : cfg) (r : req) : bool :=
  negb (known r) ||
  match r with
  | Open _ _ _ => fx_open (c_fx C)
  | Create _ _ _ => fx_create (c_fx C)
  | Write _ _ _ _ _ => fx_append (c_fx C)
  | _ => false
  end.

Lemma set_size_same s file f : sizes (set_size s file (sizes s file)) f = sizes s f.
Proof. unfold set_size. cbn [sizes]. destruct (N.eqb_spec f file) as [->|]; reflexivity. Qed.

(* one covered request of a sealed export leaves every size unchanged, whatever its flag word *)
Lemma step_sealed_sizes H C s r :
  c_seal C = true -> falloc_within H -> slots_ok s -> covered C r = true ->
  forall f, sizes (snd (step H C s r)) f = sizes s f.
Proof.
  intros Hseal Hf Hs Hk f. unfold covered in Hk.
  destruct r as [slot file fl|slot file fl|slot file rfl|slot file off len wfl|slot file mode off len|file ws ns fh|slot rfile]; cbn [step known] in *.
  - destruct (c_no_open C); cbn [snd]; [reflexivity|]. rewrite Hseal.
    destruct (has fl O_TRUNC) eqn:Et.
    + destruct (fx_open (c_fx C)); cbn in Hk |- *; [reflexivity|discriminate].
    + rewrite andb_false_r. pose proof (open_inode_sizes C s file fl Et f) as Ho.
      destruct (open_inode C s file fl) as [[e s1] fd]. cbn [fst snd] in Ho.
      destruct (e =? 0); cbn [snd]; exact Ho.
  - destruct (host_create_excl _); cbn [snd]; [reflexivity|destruct (c_no_open C); reflexivity|].
    destruct (has _ O_EXCL); cbn [snd]; [reflexivity|]. rewrite Hseal.
    destruct (has fl O_TRUNC) eqn:Et.
    + destruct (fx_create (c_fx C)); cbn in Hk |- *; [reflexivity|discriminate].
    + rewrite andb_false_r. pose proof (open_inode_sizes C s file fl Et f) as Ho.
      destruct (open_inode C s file fl) as [[e s1] fd]. cbn [fst snd] in Ho.
      destruct (negb (e =? 0)); cbn [snd]; [exact Ho|]. destruct (c_no_open C); cbn [snd]; exact Ho.
  - pose proof (get_data_sizes C s slot file (io_open_flags 0 rfl) (io_open_flags_trunc 0 rfl (or_introl eq_refl)) f) as Hg.
    destruct (get_data C s slot file (io_open_flags 0 rfl)) as [[e0 s0] [h0|]]; cbn [fst snd] in Hg; cbn [snd]; [|exact Hg].
    destruct (check_fd_flags C h0 rfl) as [ef h].
    assert (Hsz : sizes (if c_no_open C then s0 else set_slot s0 slot (Some h)) f = sizes s f)
      by (destruct (c_no_open C); exact Hg).
    destruct (negb (ef =? 0)); cbn [snd]; [exact Hsz|]. destruct (fd_readable (hd_fd h)); exact Hsz.
  - pose proof (get_data_sizes C s slot file (io_open_flags 2 wfl) (io_open_flags_trunc 2 wfl (or_intror eq_refl))) as Hg.
    pose proof (get_data_hdl_ok C s slot file (io_open_flags 2 wfl)) as Hh.
    destruct (get_data C s slot file (io_open_flags 2 wfl)) as [[e0 s0] [h0|]]; cbn [fst snd] in Hg, Hh; cbn [snd]; [|apply Hg].
    pose proof (check_fd_flags_append C h0 wfl (Hh h0 Hs eq_refl)) as Ha.
    destruct (check_fd_flags C h0 wfl) as [ef h]. cbn [fst snd] in Ha.
    rewrite Hseal.
    assert (Hsz : sizes (if c_no_open C then s0 else set_slot s0 slot (Some h)) f = sizes s f)
      by (destruct (c_no_open C); apply Hg).
    destruct (N.eqb_spec ef 0) as [Eef|Eef]; cbn [negb]; cbn [snd]; [|exact Hsz].
    destruct (fx_append (c_fx C) && true && has wfl O_APPEND && negb (len =? 0)) eqn:Efx; cbn [snd]; [exact Hsz|].
    destruct (seal_size_check true (sizes s0 file) off len 0 =? 0) eqn:Ec; cbn [negb]; cbn [snd]; [|exact Hsz].
    destruct (len =? 0) eqn:El; cbn [snd]; [exact Hsz|].
    destruct (fd_writable (hd_fd h)); cbn [negb]; [|destruct (I64_MAX <? off); cbn [snd]; exact Hsz].
    assert (Hna : has wfl O_APPEND = false).
    { destruct (has wfl O_APPEND); [|reflexivity]. destruct (fx_append (c_fx C)); cbn in Hk, Efx; discriminate. }
    rewrite (Ha Hna Eef).
    assert (Hc : seal_size_check true (sizes s0 file) off len 0 = 0) by lia.
    destruct (seal_write_ok _ _ _ Hc) as [Hle _].
    pose proof (pwrite_within H _ _ _ Hle) as Hp.
    destruct (host_pwrite H (sizes s0 file) false off len) as [e sz]. cbn [snd] in *. subst sz.
    unfold set_size. cbn [sizes]. destruct (N.eqb_spec f file) as [->|]; [|exact Hsz].
    apply Hg.
  - pose proof (get_data_sizes C s slot file (io_open_flags 2 0) (io_open_flags_trunc 2 0 (or_intror eq_refl))) as Hg.
    destruct (get_data C s slot file (io_open_flags 2 0)) as [[e0 s0] [h0|]]; cbn [fst snd] in Hg; cbn [snd]; [|apply Hg].
    rewrite Hseal.
    destruct (seal_size_check false (sizes s0 file) off len mode =? 0) eqn:Ec; cbn [negb]; cbn [snd]; [|apply Hg].
    destruct (fd_path (hd_fd h0)); cbn [snd]; [apply Hg|].
    assert (Hc : seal_size_check false (sizes s0 file) off len mode = 0) by lia.
    destruct (seal_falloc_ok _ _ _ _ Hc) as [Hop Hle].
    pose proof (Hf (fd_writable (hd_fd h0)) (sizes s0 file) mode off len Hop Hle) as Hp.
    destruct (ho_falloc H (fd_writable (hd_fd h0)) (sizes s0 file) mode off len) as [e sz]. cbn [snd] in *. subst sz.
    rewrite set_size_same. apply Hg.
  - destruct (setattr_data C s file fh) as [d|]; cbn [snd]; [|reflexivity].
    rewrite Hseal. destruct ws; cbn [andb snd]; [reflexivity|].
    destruct d as [h|]; [destruct (fd_path (hd_fd h))|]; reflexivity.
  - destruct (c_no_open C); cbn [snd]; [reflexivity|]. destruct (slots s slot) as [h|]; [|reflexivity].
    destruct (hd_file h =? rfile); reflexivity.
Qed.

Lemma pair_eta {A B} (p : A * B) : p = (fst p, snd p).
Proof. destruct p; reflexivity. Qed.

Lemma run_snd H C s r t : snd (run H C s (r :: t)) = snd (run H C (snd (step H C s r)) t).
Proof.
  cbn [run]. rewrite (pair_eta (step H C s r)). rewrite (pair_eta (run H C (snd (step H C s r)) t)). reflexivity.
Qed.

(* the size invariant for all histories of covered requests *)
Theorem sealed_sizes_partial H C : c_seal C = true -> falloc_within H ->
  forall rs s, slots_ok s -> forallb (covered C) rs = true ->
  forall f, sizes (snd (run H C s rs)) f = sizes s f.
Proof.
  intros Hseal Hf. induction rs as [|r t IH]; intros s Hs Hk f; [reflexivity|].
  cbn [forallb] in Hk. apply andb_true_iff in Hk. destruct Hk as [Hk1 Hk2].
  rewrite run_snd, IH; [|apply step_slots_ok; exact Hs|exact Hk2].
  apply step_sealed_sizes; assumption.
Qed.

(* corollaries: histories outside the known class on any tree; ALL histories on a tree with the three refusals *)
Corollary sealed_sizes_outside_known H C : c_seal C = true -> falloc_within H ->
  forall rs s, slots_ok s -> forallb (fun r => negb (known r)) rs = true ->
  forall f, sizes (snd (run H C s rs)) f = sizes s f.
Proof.
  intros Hseal Hf rs s Hs Hk. apply sealed_sizes_partial; try assumption.
  rewrite forallb_forall in *. intros r Hr. unfold covered. rewrite (Hk r Hr). reflexivity.
Qed.

Corollary sealed_sizes_full_when_fixed H C : c_seal C = true -> c_fx C = all_fixes -> falloc_within H ->
  forall rs s, slots_ok s -> forall f, sizes (snd (run H C s rs)) f = sizes s f.
Proof.
  intros Hseal Hfx Hf rs s Hs. apply sealed_sizes_partial; try assumption.
  rewrite forallb_forall. intros r _. unfold covered. rewrite Hfx.
  destruct r; cbn; try reflexivity; apply orb_true_r.
Qed.

(* the full statement and its refutation *)
Definition sealed_sizes_full (fx : fixes) : Prop :=
  forall H C, c_seal C = true -> c_fx C = fx -> falloc_within H ->
  forall rs s, slots_ok s -> forall f, sizes (snd (run H C s rs)) f = sizes s f.

Lemma ldiff_bit_absurd mode b k :
  N.ldiff mode FL_KEEP_SIZE = b -> N.testbit b k = true ->
  N.testbit 0 k = false -> N.testbit FL_PUNCH_HOLE k = false -> N.testbit FL_ZERO_RANGE k = false ->
  N.testbit (N.lor FL_KEEP_SIZE FL_UNSHARE_RANGE) k = false ->
  let op := N.ldiff mode (N.lor FL_KEEP_SIZE FL_UNSHARE_RANGE) in
  ~ (op = 0 \/ op = FL_PUNCH_HOLE \/ op = FL_ZERO_RANGE).
Proof.
  intros Hb Hk H0 H2 H16 Hm op Hop.
  assert (Ht : N.testbit op k = true).
  { unfold op. rewrite N.ldiff_spec, Hm. rewrite <- Hb, N.ldiff_spec in Hk.
    apply andb_true_iff in Hk. destruct Hk as [Hk _]. rewrite Hk. reflexivity. }
  destruct Hop as [Ho|[Ho|Ho]]; rewrite Ho in Ht; congruence.
Qed.

Lemma tie_host_falloc_within : falloc_within tie_host.
Proof.
  intros w size mode off len op Hop Hle. cbn [tie_host ho_falloc]. unfold linux_falloc.
  destruct ((I64_MAX <? off) || (I64_MAX <? len) || (len =? 0)); [reflexivity|].
  destruct (negb (N.land mode (N.lnot 127 64) =? 0)); [reflexivity|]. cbv zeta.
  set (o := clear_bits mode FL_KEEP_SIZE).
  destruct (negb ((o =? 0) || (o =? FL_UNSHARE_RANGE) || (o =? FL_ZERO_RANGE) || (o =? FL_PUNCH_HOLE)
                  || (o =? FL_COLLAPSE_RANGE) || (o =? FL_INSERT_RANGE))) eqn:Em; [reflexivity|].
  destruct ((o =? FL_PUNCH_HOLE) && negb (has mode FL_KEEP_SIZE)); [reflexivity|].
  destruct (((o =? FL_COLLAPSE_RANGE) || (o =? FL_INSERT_RANGE)) && has mode FL_KEEP_SIZE); [reflexivity|].
  destruct (negb w); [reflexivity|].
  destruct (ext4_maxbytes <? off + len); [reflexivity|].
  destruct (o =? FL_UNSHARE_RANGE) eqn:E64; [reflexivity|].
  destruct (o =? 0) eqn:E0; [cbn [snd]; destruct (has mode FL_KEEP_SIZE); lia|].
  destruct (o =? FL_PUNCH_HOLE) eqn:E2; [reflexivity|].
  destruct (o =? FL_ZERO_RANGE) eqn:E16; [cbn [snd]; destruct (has mode FL_KEEP_SIZE); lia|].
  exfalso. unfold clear_bits in *.
  destruct (o =? FL_COLLAPSE_RANGE) eqn:E8.
  - apply (ldiff_bit_absurd mode FL_COLLAPSE_RANGE 3); try reflexivity; [subst o; lia|exact Hop].
  - destruct (o =? FL_INSERT_RANGE) eqn:E32; [|cbn in Em; discriminate].
    apply (ldiff_bit_absurd mode FL_INSERT_RANGE 5); try reflexivity; [subst o; lia|exact Hop].
Qed.

Definition w_state : state := init_state [10].
Lemma w_state_ok : slots_ok w_state.
Proof. intros k h. cbn. discriminate. Qed.

Lemma sealed_sizes_refuted : ~ sealed_sizes_full no_fixes.
Proof.
  intros Hfull.
  specialize (Hfull tie_host (mk_cfg true false no_fixes false true) eq_refl eq_refl tie_host_falloc_within
                    [Open 0 0 (N.lor 2 O_TRUNC)] w_state w_state_ok 0).
  vm_compute in Hfull. discriminate.
Qed.

Lemma sealed_sizes_full_fixed : sealed_sizes_full all_fixes.
Proof. intros H C Hs Hfx Hf. apply sealed_sizes_full_when_fixed; assumption. Qed.

(* the three witnesses of D10 evaluated in the model (file of 10 bytes) *)
Lemma witness_open_trunc :
  sizes (snd (run tie_host (mk_cfg true false no_fixes false true) w_state [Open 0 0 (N.lor 1 O_TRUNC)])) 0 = 0.
Proof. reflexivity. Qed.
Lemma witness_create_trunc :
  sizes (snd (run tie_host (mk_cfg true true no_fixes false true) w_state [Create 0 0 (N.lor 2 O_TRUNC)])) 0 = 0.
Proof. reflexivity. Qed.
Lemma witness_write_append :
  fst (run tie_host (mk_cfg true false no_fixes false true) w_state [Open 0 0 2; Write 0 0 0 4 (N.lor 2 O_APPEND)]) = [0; 0] /\
  sizes (snd (run tie_host (mk_cfg true false no_fixes false true) w_state [Open 0 0 2; Write 0 0 0 4 (N.lor 2 O_APPEND)])) 0 = 14.
Proof. split; reflexivity. Qed.

(* ------------------------------------------------------------------ open-time bits in the flag word of READ / WRITE *)
(* the flag word of a READ or WRITE may carry any of the 32 bits - O_TRUNC, O_CREAT, O_EXCL, O_PATH, ... - with
   ordinary handles and under no_open (where the descriptor is opened for the request): an instance of the theorem *)
Definition ALL_BITS : N := 4294967295.
Definition io_flag_history : list req :=
  [Read 0 0 O_TRUNC; Write 0 0 0 1 (N.lor 2 O_TRUNC); Read 0 0 ALL_BITS; Write 0 0 0 1 ALL_BITS;
   Write 0 0 0 1 (N.lor (N.lor 2 O_TRUNC) O_CREAT); Fallocate 0 0 0 0 1].
Lemma io_flag_words_covered : forall H no_open wb dio, falloc_within H ->
  forall f, sizes (snd (run H (mk_cfg true no_open all_fixes wb dio) w_state (Open 0 0 2 :: io_flag_history))) f = sizes w_state f.
Proof. intros H no_open wb dio Hf. apply sealed_sizes_full_fixed; [reflexivity|reflexivity|exact Hf|exact w_state_ok]. Qed.
(* ... and those requests are served, not merely refused: under no_open the READ succeeds and the WRITE with O_TRUNC
   in its word writes its byte (F_SETFL ignores the bit); the all-ones word carries O_APPEND and is refused *)
Lemma io_flag_words_served :
  fst (run tie_host (mk_cfg true true all_fixes false true) w_state io_flag_history) = [0; 0; 0; EPERM; 0; 0] /\
  fst (run tie_host (mk_cfg true false all_fixes false true) w_state (Open 0 0 2 :: io_flag_history)) = [0; 0; 0; 0; EPERM; 0; 0].
Proof. split; reflexivity. Qed.
(* what the statement excludes: were the request's word part of the word given to open_inode (access | (flags & !O_ACCMODE)),
   the host would be handed O_TRUNC and cut the file to 0 bytes *)
Lemma io_flag_leak_would_truncate : forall wb dio,
  snd (fst (host_open 10 (openat_word wb dio (N.lor 2 (clear_bits (N.lor 2 O_TRUNC) O_ACCMODE))))) = 0 /\
  snd (fst (host_open 10 (openat_word wb dio (io_open_flags 2 (N.lor 2 O_TRUNC))))) = 10.
Proof. intros [|] [|]; split; reflexivity. Qed.

(* ------------------------------------------------------------------ within the size: as unsealed *)
(* the request does not ask for anything beyond the current size (and is not a size-setting setattr) *)
Definition stays_within (s : state) (r : req) : Prop :=
  match r with
  | Open _ _ fl | Create _ _ fl => has fl O_TRUNC = false
  | Write _ file off len wfl => off + len <= sizes s file /\ (has wfl O_APPEND = false \/ len = 0)
  | Fallocate _ file mode off len =>
    let op := clear_bits mode (N.lor FL_KEEP_SIZE FL_UNSHARE_RANGE) in
    (op = 0 \/ op = FL_PUNCH_HOLE \/ op = FL_ZERO_RANGE) /\ off + len <= sizes s file
  | Setattr _ with_size _ _ => with_size = false
  | _ => True
  end.

Definition size_bounded (s : state) : Prop := forall f, sizes s f <= U64_MAX.

Lemma seal_write_pass size off len :
  off + len <= size -> size <= U64_MAX -> seal_size_check true size off len 0 = 0.
Proof.
  intros H1 H2. unfold seal_size_check. destruct (U64_MAX <? off + len) eqn:E1; [lia|].
  destruct (size <? len + off) eqn:E2; [lia|reflexivity].
Qed.

Lemma seal_falloc_pass size off len mode :
  let op := clear_bits mode (N.lor FL_KEEP_SIZE FL_UNSHARE_RANGE) in
  (op = 0 \/ op = FL_PUNCH_HOLE \/ op = FL_ZERO_RANGE) -> off + len <= size -> size <= U64_MAX ->
  seal_size_check false size off len mode = 0.
Proof.
  cbv zeta. intros Hop H1 H2. unfold seal_size_check. destruct (U64_MAX <? off + len) eqn:E1; [lia|].
  destruct ((clear_bits mode (N.lor FL_KEEP_SIZE FL_UNSHARE_RANGE) =? 0)
            || (clear_bits mode (N.lor FL_KEEP_SIZE FL_UNSHARE_RANGE) =? FL_PUNCH_HOLE)
            || (clear_bits mode (N.lor FL_KEEP_SIZE FL_UNSHARE_RANGE) =? FL_ZERO_RANGE)) eqn:E2.
  - destruct (size <? len + off) eqn:E3; [lia|reflexivity].
  - exfalso. destruct Hop as [Ho|[Ho|Ho]]; rewrite Ho in E2; discriminate.
Qed.

(* get_data and check_fd_flags do not look at the seal switch *)
Lemma get_data_seal_irrelevant sl no_open fx wb dio s slot file gd :
  get_data (mk_cfg sl no_open fx wb dio) s slot file gd = get_data (mk_cfg false no_open fx wb dio) s slot file gd.
Proof. reflexivity. Qed.

Theorem within_size_same H no_open fx wb dio s r :
  size_bounded s -> stays_within s r ->
  step H (mk_cfg true no_open fx wb dio) s r = step H (mk_cfg false no_open fx wb dio) s r.
Proof.
  intros Hb Hw.
  destruct r as [slot file fl|slot file fl|slot file rfl|slot file off len wfl|slot file mode off len|file ws ns fh|slot rfile];
    cbn [step c_seal c_no_open c_fx c_writeback stays_within] in *; try reflexivity.
  - rewrite Hw, !andb_false_r. reflexivity.
  - rewrite Hw, !andb_false_r. reflexivity.
  - rewrite (get_data_seal_irrelevant true).
    pose proof (get_data_sizes (mk_cfg false no_open fx wb dio) s slot file (io_open_flags 2 wfl) (io_open_flags_trunc 2 wfl (or_intror eq_refl)) file) as Hg.
    destruct (get_data _ s slot file _) as [[e0 s0] [h0|]]; [|reflexivity]. cbn [fst snd] in Hg.
    change (check_fd_flags (mk_cfg true no_open fx wb dio) h0 wfl) with (check_fd_flags (mk_cfg false no_open fx wb dio) h0 wfl).
    destruct (check_fd_flags _ h0 wfl) as [ef h]. destruct Hw as [Hw Ha].
    rewrite Hg, (seal_write_pass _ _ _ Hw (Hb file)).
    assert (Hx : has wfl O_APPEND && negb (len =? 0) = false).
    { destruct Ha as [-> | ->]; [reflexivity|apply andb_false_r]. }
    rewrite <- !andb_assoc, Hx, !andb_false_r. reflexivity.
  - rewrite (get_data_seal_irrelevant true).
    pose proof (get_data_sizes (mk_cfg false no_open fx wb dio) s slot file (io_open_flags 2 0) (io_open_flags_trunc 2 0 (or_intror eq_refl)) file) as Hg.
    destruct (get_data _ s slot file _) as [[e0 s0] [h0|]]; [|reflexivity]. cbn [fst snd] in Hg. destruct Hw as [Hop Hle].
    rewrite Hg, (seal_falloc_pass _ _ _ _ Hop Hle (Hb file)). reflexivity.
  - subst ws. reflexivity.
Qed.

(* ------------------------------------------------------------------ refused: no effect on any size *)
(* the request asks for something that would (or could) change the size *)
Definition would_change (s : state) (r : req) : Prop :=
  match r with
  | Write _ file off len _ => sizes s file < off + len
  | Fallocate _ file mode off len =>
    let op := clear_bits mode (N.lor FL_KEEP_SIZE FL_UNSHARE_RANGE) in
    ~ (op = 0 \/ op = FL_PUNCH_HOLE \/ op = FL_ZERO_RANGE) \/ sizes s file < off + len
  | Setattr _ with_size _ _ => with_size = true
  | _ => False
  end.

(* the request reaches a descriptor (a handle of this inode, or no_open) *)
Definition has_data (C : cfg) (s : state) (r : req) : Prop :=
  match r with
  | Write k f _ _ wfl => snd (get_data C s k f (io_open_flags 2 wfl)) <> None
  | Fallocate k f _ _ _ => snd (get_data C s k f (io_open_flags 2 0)) <> None
  | Setattr f _ _ fh => setattr_data C s f fh <> None
  | _ => False
  end.

(* the only way check_fd_flags fails is F_SETFL on an O_PATH descriptor: EBADF *)
Lemma check_fd_flags_errno C h fl : fst (check_fd_flags C h fl) = 0 \/ fst (check_fd_flags C h fl) = EBADF.
Proof.
  unfold check_fd_flags. destruct (hd_flags h =? fl); [left; reflexivity|].
  unfold host_setfl. destruct (fd_path (hd_fd h)); [right|left]; reflexivity.
Qed.

(* EBADF: a handle of another inode (setattr), or F_SETFL of the request's word on an O_PATH descriptor, which
   fails before the seal is consulted *)
Theorem refused_no_effect H no_open fx wb dio s r :
  would_change s r -> has_data (mk_cfg true no_open fx wb dio) s r ->
  (fst (step H (mk_cfg true no_open fx wb dio) s r) = EPERM \/ fst (step H (mk_cfg true no_open fx wb dio) s r) = EINVAL
   \/ fst (step H (mk_cfg true no_open fx wb dio) s r) = EBADF) /\
  forall f, sizes (snd (step H (mk_cfg true no_open fx wb dio) s r)) f = sizes s f.
Proof.
  intros Hw Hg.
  destruct r as [slot file fl|slot file fl|slot file rfl|slot file off len wfl|slot file mode off len|file ws ns fh|slot rfile];
    cbn [would_change] in Hw; try contradiction; cbn [has_data] in Hg; cbn [step c_seal c_no_open c_fx].
  - pose proof (get_data_sizes (mk_cfg true no_open fx wb dio) s slot file (io_open_flags 2 wfl) (io_open_flags_trunc 2 wfl (or_intror eq_refl))) as Hs0.
    destruct (get_data _ s slot file _) as [[e0 s0] [h0|]]; [|contradiction]. cbn [fst snd] in Hs0.
    pose proof (check_fd_flags_errno (mk_cfg true no_open fx wb dio) h0 wfl) as Hef.
    destruct (check_fd_flags _ h0 wfl) as [ef h]. cbn [fst] in Hef.
    assert (Hsz : forall f, sizes (if no_open then s0 else set_slot s0 slot (Some h)) f = sizes s f)
      by (intros f; destruct no_open; apply Hs0).
    assert (Hc : seal_size_check true (sizes s0 file) off len 0 = EPERM \/ seal_size_check true (sizes s0 file) off len 0 = EINVAL).
    { rewrite Hs0. unfold seal_size_check. destruct (U64_MAX <? off + len); [right; reflexivity|].
      destruct (sizes s file <? len + off) eqn:E; [left; reflexivity|lia]. }
    assert (Hnz : negb (seal_size_check true (sizes s0 file) off len 0 =? 0) = true)
      by (destruct Hc as [-> | ->]; reflexivity).
    rewrite Hnz.
    destruct Hef as [-> | ->]; cbn [N.eqb EBADF negb fst snd]; [|split; [right; right; reflexivity|exact Hsz]].
    destruct (fx_append fx && true && has wfl O_APPEND && negb (len =? 0)); cbn [fst snd];
      (split; [|exact Hsz]); [left; reflexivity|destruct Hc as [-> | ->]; auto].
  - pose proof (get_data_sizes (mk_cfg true no_open fx wb dio) s slot file (io_open_flags 2 0) (io_open_flags_trunc 2 0 (or_intror eq_refl))) as Hs0.
    destruct (get_data _ s slot file _) as [[e0 s0] [h0|]]; [|contradiction]. cbn [fst snd] in Hs0.
    assert (Hc : seal_size_check false (sizes s0 file) off len mode = EPERM \/ seal_size_check false (sizes s0 file) off len mode = EINVAL).
    { rewrite Hs0. unfold seal_size_check. destruct (U64_MAX <? off + len); [right; reflexivity|]. cbv zeta.
      set (op := clear_bits mode (N.lor FL_KEEP_SIZE FL_UNSHARE_RANGE)) in *.
      destruct ((op =? 0) || (op =? FL_PUNCH_HOLE) || (op =? FL_ZERO_RANGE)) eqn:E2.
      - destruct (sizes s file <? len + off) eqn:E3; [left; reflexivity|].
        exfalso. destruct Hw as [Hw|Hw]; [|lia]. apply Hw.
        apply orb_true_iff in E2. destruct E2 as [E2|E2]; [apply orb_true_iff in E2; destruct E2 as [E2|E2]|]; lia.
      - destruct ((op =? FL_COLLAPSE_RANGE) || (op =? FL_INSERT_RANGE)); [left|right]; reflexivity. }
    assert (Hnz : negb (seal_size_check false (sizes s0 file) off len mode =? 0) = true)
      by (destruct Hc as [-> | ->]; reflexivity).
    rewrite Hnz. cbn [fst snd]. split; [destruct Hc as [-> | ->]; auto|exact Hs0].
  - subst ws. destruct (setattr_data _ s file fh) as [d|]; [|contradiction].
    cbn [andb fst snd]. split; [left; reflexivity|reflexivity].
Qed.
