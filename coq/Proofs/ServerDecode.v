(* C02: the universal decode theorem [decode_exact] (for ALL well-formed requests and field
   values, decide (encode_req q) makes the id-remap call and then exactly expected_call q),
   and the C01 corollaries: a request the client waits on gets exactly one reply packet. *)
From Coq Require Import List String NArith Bool Lia Arith ZifyBool ZifyNat ZifyN.
From FB Require Import Lib.Bytes Lib.Layout Spec.KernelABI Model.Server Spec.Requests Spec.WfReq
  Proofs.EncLemmas Proofs.ServerPerform Proofs.ServerReply Proofs.ServerDecide Proofs.ServerHandle Proofs.ServerDecodeLib Proofs.ServerDecodeOps Proofs.ServerDecodeOps2.
Import ListNotations.
Local Open Scope string_scope.
Local Open Scope list_scope.
Local Open Scope N_scope.

Definition qctx (q : wfreq) (du dg : N) : N * N * N :=
  ((q_uid q + du) mod 2 ^ 32, (q_gid q + dg) mod 2 ^ 32, q_pid q).

Lemma decide_wf_req cfg q fr cap du dg :
  wf_req q = true -> cfg_remap cfg = RemapOk du dg -> env_ok cfg cap q = true ->
  exists a, fst (decide cfg (encode_req q) fr cap) = (remap_call q :: expected_calls q (qctx q du dg), a)
            /\ action_kind_ok (q_op q) a = true.
Proof.
  intros Hwf Hre Henv. pose proof (wf_req_facts q Hwf) as F.
  destruct (wf_op_handler _ (wf_op q F)) as [f Hf].
  destruct (wf_ops_range _ (wf_op q F)) as [_ H26].
  rewrite (decide_encode_req q cfg fr cap du dg f (wf_hdr q F) (wf_len q F) H26 Hre Hf). cbv zeta.
  pose proof handlers_all_exact as HA. rewrite Forall_forall in HA.
  specialize (HA _ (find_handler_in _ _ _ Hf)). cbn [fst snd] in HA.
  destruct (HA q cfg (qctx q du dg) fr cap eq_refl F Henv) as [a [E Ha]].
  change 4294967296 with (2 ^ 32). fold (qctx q du dg). rewrite E. cbn [fst snd].
  exists a. split; [reflexivity|exact Ha].
Qed.

(* C02 main theorem *)
Theorem decode_exact : forall cfg q fr cap du dg,
  wf_req q = true -> cfg_remap cfg = RemapOk du dg -> env_ok cfg cap q = true ->
  fst (fst (decide cfg (encode_req q) fr cap)) =
    remap_call q ::
    match expected_call q ((q_uid q + du) mod 2 ^ 32, (q_gid q + dg) mod 2 ^ 32, q_pid q) with
    | Some c => [c] | None => [] end.
Proof.
  intros cfg q fr cap du dg Hwf Hre Henv.
  destruct (decide_wf_req cfg q fr cap du dg Hwf Hre Henv) as [a [E _]].
  rewrite E. reflexivity.
Qed.

(* C01 corollary: a request the client waits on is answered *)
Theorem answer_required : forall cfg q fr cap du dg,
  wf_req q = true -> cfg_remap cfg = RemapOk du dg -> env_ok cfg cap q = true ->
  needs_answer (q_op q) = true ->
  replies (snd (fst (decide cfg (encode_req q) fr cap))) = true.
Proof.
  intros cfg q fr cap du dg Hwf Hre Henv Hna.
  destruct (decide_wf_req cfg q fr cap du dg Hwf Hre Henv) as [a [E Ha]].
  rewrite E. exact (action_kind_replies _ _ Hna Ha).
Qed.

(* ------------------------------------------------------------------ a replying action is one packet *)
Lemma w_write_fresh_ok cap d :
  d <> [] -> blen d <= cap ->
  w_write (fresh FuseDev cap) d = WOk ({| w_kind := FuseDev; w_buffered := false; w_buf := d; w_cap := cap |}, [d]).
Proof.
  intros Hne Hle. unfold w_write, fresh. cbn [w_kind w_buffered w_buf w_cap List.length Nat.eqb negb andb app].
  change (blen []) with 0. rewrite N.sub_0_r.
  destruct (N.ltb_spec cap (blen d)) as [H|_]; [lia|].
  destruct d; [contradiction|reflexivity].
Qed.

Lemma w_write_buffered_ok c d :
  blen d <= c ->
  w_write {| w_kind := FuseDev; w_buffered := true; w_buf := []; w_cap := c |} d =
  WOk ({| w_kind := FuseDev; w_buffered := true; w_buf := d; w_cap := c |}, []).
Proof.
  intro Hle. unfold w_write. cbn [w_kind w_buffered w_buf w_cap List.length negb andb app].
  change (blen []) with 0. rewrite N.sub_0_r.
  destruct (N.ltb_spec c (blen d)) as [H|_]; [lia|]. reflexivity.
Qed.

Lemma out_header_nonempty l e u : out_header l e u <> [].
Proof. rewrite <- (app_nil_r (out_header l e u)). apply out_header_app_nonempty. Qed.

Lemma perform_err_fresh_one cap u e after :
  OUT_HDR <= cap -> exists p, o_packets (perform_err (fresh FuseDev cap) u e after) = [p].
Proof.
  intro H. unfold perform_err.
  rewrite w_write_fresh_ok; [|apply out_header_nonempty|rewrite out_header_len; exact H].
  cbn [o_packets out_ok w_commit w_kind w_buffered negb app]. eexists; reflexivity.
Qed.

Lemma perform_err_buffered_one u e after :
  exists p, o_packets (perform_err {| w_kind := FuseDev; w_buffered := true; w_buf := []; w_cap := OUT_HDR |} u e after) = [p].
Proof.
  unfold perform_err.
  rewrite w_write_buffered_ok by (rewrite out_header_len; unfold OUT_HDR; lia).
  cbn [o_packets out_ok w_commit w_kind w_buffered w_buf negb app]. rewrite app_nil_r.
  pose proof (out_header_nonempty OUT_HDR (neg32 e) u) as Hne.
  destruct (out_header OUT_HDR (neg32 e) u); [contradiction|]. eexists; reflexivity.
Qed.

Lemma w_split_fresh_ok cap :
  OUT_HDR <= cap ->
  w_split (fresh FuseDev cap) OUT_HDR =
  Some ({| w_kind := FuseDev; w_buffered := true; w_buf := []; w_cap := OUT_HDR |},
        {| w_kind := FuseDev; w_buffered := true; w_buf := []; w_cap := cap - OUT_HDR |}).
Proof.
  intro H. unfold w_split, fresh. cbn [w_kind w_buffered w_buf w_cap].
  change (blen []) with 0. rewrite !N.sub_0_r, N.add_0_l.
  destruct (N.ltb_spec cap OUT_HDR) as [H'|_]; [lia|]. reflexivity.
Qed.

Theorem perform_one_packet cap u a :
  replies a = true -> action_size a <= cap ->
  exists p, o_packets (perform FuseDev cap u a) = [p].
Proof.
  destruct a as [r|bd|e after|data|e|bd]; cbn [replies action_size]; intros Hr Hsz; try discriminate.
  - unfold perform. rewrite w_write_fresh_ok;
      [|apply out_header_app_nonempty|rewrite blen_app, out_header_len; exact Hsz].
    cbn [o_packets out_ok]. eexists; reflexivity.
  - unfold perform. apply perform_err_fresh_one. exact Hsz.
  - unfold perform. rewrite w_split_fresh_ok by (unfold OUT_HDR in *; lia).
    rewrite w_write_buffered_ok by (unfold OUT_HDR in *; lia).
    rewrite w_write_buffered_ok by (rewrite out_header_len; unfold OUT_HDR; lia).
    cbn [o_packets out_ok w_commit w_kind w_buffered w_buf negb app].
    pose proof (out_header_app_nonempty ((OUT_HDR + blen data) mod 4294967296) 0 u data) as Hne.
    destruct (out_header _ 0 u ++ data); [contradiction|]. eexists; reflexivity.
  - unfold perform. rewrite w_split_fresh_ok by exact Hsz. apply perform_err_buffered_one.
  - unfold perform. rewrite w_write_fresh_ok;
      [|apply out_header_app_nonempty|rewrite blen_app, out_header_len; exact Hsz].
    cbn [o_packets out_ok]. eexists; reflexivity.
Qed.

(* the whole of handle_message on a well-formed request the client waits on: exactly one
   write reaches /dev/fuse, provided the reply fits the buffer *)
Theorem answer_one_packet : forall cfg q fr cap du dg,
  wf_req q = true -> cfg_remap cfg = RemapOk du dg -> env_ok cfg cap q = true ->
  needs_answer (q_op q) = true ->
  action_size (snd (fst (decide cfg (encode_req q) fr cap))) <= cap ->
  exists p, o_packets (h_outcome (handle cfg FuseDev cap (encode_req q) fr)) = [p].
Proof.
  intros cfg q fr cap du dg Hwf Hre Henv Hna Hsz.
  rewrite handle_outcome. apply perform_one_packet; [|exact Hsz].
  exact (answer_required cfg q fr cap du dg Hwf Hre Henv Hna).
Qed.

(* ... and that packet is a complete reply carrying the request's unique *)
Theorem answer_one_wellformed_packet : forall cfg q fr cap du dg,
  wf_req q = true -> cfg_remap cfg = RemapOk du dg -> env_ok cfg cap q = true ->
  needs_answer (q_op q) = true -> cap < 2 ^ 32 -> fs_ok fr ->
  action_size (snd (fst (decide cfg (encode_req q) fr cap))) <= cap ->
  exists p, o_packets (h_outcome (handle cfg FuseDev cap (encode_req q) fr)) = [p]
            /\ wellformed_reply (q_unique q) p.
Proof.
  intros cfg q fr cap du dg Hwf Hre Henv Hna Hcap Hfs Hsz.
  destruct (answer_one_packet cfg q fr cap du dg Hwf Hre Henv Hna Hsz) as [p Hp].
  exists p. split; [exact Hp|].
  rewrite <- (u64_8_encode_req q (wf_hdr q (wf_req_facts q Hwf))).
  apply (handle_reply_wellformed cfg cap (encode_req q) fr p Hcap Hfs). rewrite Hp. left; reflexivity.
Qed.

(* ------------------------------------------------------------------ sample requests (non-vacuity witnesses) *)
Definition sample_req (op : N) (fields : list (string * N)) (n1 n2 payload : bytes) (pairs : list (N * N)) : wfreq :=
  {| q_op := op; q_unique := 18446744073709551615; q_nodeid := 4660; q_uid := 1000; q_gid := 4294967295; q_pid := 4242;
     q_fields := fields; q_name1 := n1; q_name2 := n2; q_payload := payload; q_pairs := pairs; q_flags2 := None |}.

Definition sample_lookup : wfreq := sample_req 1 [] [102; 111; 111; 46; 116; 120; 116] [] [] [].
Definition sample_write : wfreq :=
  sample_req 16 [("fh", 18446744073709551615); ("offset", 4096); ("size", 5); ("write_flags", 3);
                 ("lock_owner", 81985529216486895); ("flags", 32769)] [] [] [104; 101; 108; 108; 111] [].
Definition sample_rename2 : wfreq :=
  sample_req 45 [("newdir", 7); ("flags", 4294967295)] [111; 108; 100] [110; 101; 119] [] [].
Definition sample_readdirplus : wfreq :=
  sample_req 44 [("fh", 3); ("offset", 12); ("size", 4096)] [] [] [] [].
Definition sample_batch_forget : wfreq :=
  sample_req 42 [("count", 2)] [] [] [] [(5, 1); (18446744073709551615, 18446744073709551615)].
Definition sample_cfg : config :=
  {| cfg_minor := 33; cfg_remap := RemapOk 4294966296 1; cfg_vu_req := false; cfg_fsopt_mask := 0 |}.

(* the opcodes [wf_req] admits are exactly the opcodes of the model's dispatch table
   (which Proofs/ServerDispatch.v ties to the source's `match`), i.e. everything dispatched but INIT *)
Lemma wf_ops_are_the_table : wf_ops = map fst handlers.
Proof. reflexivity. Qed.
