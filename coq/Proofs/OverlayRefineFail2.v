(* Per-operation refinement, more failing operations (all leave the layers as they are):
   - mkdir / create / mknod / symlink / link below a regular file or symlink of the upper layer: ENOTDIR (the host call refuses);
   - link whose source is a visible directory: EPERM;
   - unlink of a directory whose first candidate is in the upper layer: EISDIR (the host call refuses);
   - rename with a visible first parent: EXDEV when the second parent is visible too, ENOENT when it is not.
   And two classes where the model and the ordinary file system DISAGREE (requests the kernel's FUSE client never sends):
   unlink / rmdir below a non-directory parent (ENOENT instead of ENOTDIR) and unlink of a directory that only lower layers hold
   (succeeds, leaving a whiteout). *)
From Coq Require Import List String Arith NArith Bool Lia.
From FB Require Import Model.Overlay Proofs.OverlayInv Proofs.OverlayScan Proofs.OverlayRestart
  Proofs.OverlayReadOnly Proofs.OverlayCoh Proofs.OverlayCohView Proofs.OverlayCopyUp Proofs.OverlayCohOps
  Proofs.OverlayCohSteps Proofs.OverlayRefineTeq Proofs.OverlayRefineMerge Proofs.OverlayRefineRun Proofs.OverlayRefine
  Proofs.OverlayRefineWh Proofs.OverlayRefineCu Proofs.OverlayRefineLink Proofs.OverlayRefineFail Proofs.OverlayRefineRead.
Import ListNotations.
Local Open Scope N_scope.

(* ------------------------------------------------------------------ lookup_node on the node of a visible path *)
Lemma vis_lookup_run (q : path) s u n t r : Coherent s -> upper s = Some u -> nget q (root s) = Some n ->
  mstack (u :: lowers s) q = t :: r -> is_whT t = false ->
  exists s1 n1, (forall nmo, lookup_node q nmo s =
      (match nmo with
       | None => Ok q
       | Some nm => match afind nm (n_ch n1) with Some _ => Ok (q ++ [nm]) | None => Err ENOENT end
       end, s1)) /\
    Coherent s1 /\ sd s s1 /\ nget q (root s1) = Some n1 /\ n_wh n1 = false /\ node_stat s1 n1 = Some t /\
    (is_dirT t = false -> n_ch n1 = []) /\ (is_dirT t = true -> n_loaded n1 = true).
Proof.
  intros HC Hu Hg Hms Hw.
  pose proof (node_stat_head s u q n _ _ HC Hu Hg Hms) as Hst.
  destruct (node_first_real s q n HC Hg) as (r0 & rs0 & t0 & Er0 & _ & Hst0 & _ & _ & _ & Hd0 & Hwn). assert (t0 = t) by congruence. subst t0. rewrite Hw in Hwn.
  destruct (lookup_run q s n HC Hg Hwn) as (s1 & n1 & HC1 & Hsd1 & Hg1 & Hw1 & Hr1 & Hld1 & Hlk).
  pose proof Hsd1 as (U1 & L1 & _). assert (Hu1 : upper s1 = Some u) by congruence.
  assert (Hst1 : node_stat s1 n1 = Some t) by (apply (node_stat_head s1 u q n1 _ r HC1 Hu1 Hg1); rewrite L1; exact Hms).
  exists s1, n1. split; [exact Hlk|]. split; [exact HC1|]. split; [exact Hsd1|]. split; [exact Hg1|]. split; [exact Hw1|]. split; [exact Hst1|]. split.
  - intros Hnd. pose proof HC1 as (_ & _ & HCT1). pose proof (HCT1 q n1 Hg1) as N1. cbn [app] in N1. exact (proj2 (unloaded_nondir s1 q n1 t N1 Hst1 Hnd)).
  - intros Hd. apply Hld1. rewrite Er0. cbn [first_dir]. rewrite Hd0. exact Hd.
Qed.

(* ------------------------------------------------------------------ creation below a non-directory of the upper layer *)
Lemma nondir_parent_run (pp : path) (nm : name) s u n c : Coherent s -> upper s = Some u -> nget pp (root s) = Some n ->
  tget u pp = Some c -> is_leafT c = true ->
  exists s1 n1 pr prs, lookup_node_ignore_enoent pp nm s = (Ok None, s1) /\ Coherent s1 /\ sd s s1 /\
    nget pp (root s1) = Some n1 /\ n_wh n1 = false /\ n_reals n1 = pr :: prs /\ r_upper pr = true /\ r_layer pr = 0%nat /\ r_path pr = pp /\
    node_stat s1 n1 = Some c.
Proof.
  intros HC Hu Hg Hc Hleaf. destruct (leaf_facts c Hleaf) as (Hcd & Hcw & _).
  destruct (mstack_head pp u (lowers s) c Hc) as [r Hms].
  destruct (vis_lookup_run pp s u n c r HC Hu Hg Hms Hcw) as (s1 & n1 & Hlk & HC1 & Hsd1 & Hg1 & Hw1 & Hst1 & Hch & _).
  pose proof Hsd1 as (U1 & L1 & _). assert (Hu1 : upper s1 = Some u) by congruence.
  destruct (upper_node s1 u pp n1 c HC1 Hu1 Hg1 Hc) as (pr & prs & Er & Hup & Hl0 & Hpath & _).
  exists s1, n1, pr, prs. unfold lookup_node_ignore_enoent. rewrite (Hlk (Some nm)), (Hch Hcd). cbn [afind]. change (ENOENT =? ENOENT) with true. cbn iota.
  split; [reflexivity|]. repeat (split; [assumption|]). exact Hst1.
Qed.

Lemma mutate0_err f s U e : upper s = Some U -> f U = Err e -> mutate 0 f s = (Err e, s).
Proof. intros Hu Hf. unfold mutate. cbn [get_layer]. rewrite Hu, Hf. reflexivity. Qed.

(* what the three creating primitives answer when the host call fails *)
Definition mk_fails (pp : path) (nm : name) (mk : real -> M real) (c0 : tree) : Prop :=
  forall pr s U e, r_upper pr = true -> r_layer pr = 0%nat -> r_path pr = pp -> upper s = Some U -> h_insert pp nm c0 U = Err e ->
    exists s1, mk pr s = (Err e, s1) /\ upper s1 = upper s /\ lowers s1 = lowers s.
Lemma h_insert_err_indep pp nm c c' U e : h_insert pp nm c U = Err e -> h_insert pp nm c' U = Err e.
Proof. unfold h_insert. destruct (tget U pp) as [[m x ch| | |]|]; auto. destruct (afind nm ch); [auto|discriminate]. Qed.
Lemma mk_fails_create pp nm mode c0 : mk_fails pp nm (fun pr => ri_create pr nm mode) c0.
Proof.
  intros pr s U e Hup Hl0 Hp HU He. unfold ri_create, ri_guard. rewrite Hup. unfold bind at 1. cbn [ret]. unfold bind at 1. unfold fresh_ino. unfold bind at 1.
  rewrite Hl0, Hp. set (s' := mkState (upper s) (lowers s) (root s) (next_ino s + 1) (log s)).
  exists s'. split; [|split; reflexivity].
  rewrite (mutate0_err (h_create pp nm (next_ino s) mode) s' U e); [reflexivity|exact HU|]. unfold h_create. exact (h_insert_err_indep _ _ _ _ _ _ He).
Qed.
Lemma mk_fails_symlink pp nm tg c0 : mk_fails pp nm (fun pr => ri_symlink pr nm tg) c0.
Proof.
  intros pr s U e Hup Hl0 Hp HU He. unfold ri_symlink, ri_guard. rewrite Hup. unfold bind at 1. cbn [ret]. unfold bind at 1.
  rewrite Hl0, Hp. exists s. split; [|split; reflexivity].
  rewrite (mutate0_err (h_symlink pp nm tg) s U e); [reflexivity|exact HU|]. unfold h_symlink. exact (h_insert_err_indep _ _ _ _ _ _ He).
Qed.

Lemma do_make_nondir_run (pp : path) (nm : name) mk c0 s u n c : mk_fails pp nm mk c0 ->
  Coherent s -> upper s = Some u -> nget pp (root s) = Some n -> tget u pp = Some c -> is_leafT c = true ->
  exists s', do_make pp nm mk s = (Err ENOTDIR, s') /\ upper s' = Some u /\ lowers s' = lowers s.
Proof.
  intros Hmk HC Hu Hg Hc Hleaf. destruct (leaf_facts c Hleaf) as (Hcd & Hcw & _).
  destruct (upper_node s u pp n c HC Hu Hg Hc) as (pr0 & prs0 & _ & _ & _ & _ & _ & Hw & _). rewrite Hcw in Hw.
  destruct (nondir_parent_run pp nm s u n c HC Hu Hg Hc Hleaf) as (s1 & n1 & pr & prs & Elk & HC1 & (U1 & L1 & _) & Hg1 & Hw1 & Er & Hup & Hl0 & Hpath & _).
  assert (Hu1 : upper s1 = Some u) by congruence.
  assert (Hi : h_insert pp nm c0 u = Err ENOTDIR) by (unfold h_insert; rewrite Hc; destruct c; try discriminate; reflexivity).
  destruct (Hmk pr s1 u ENOTDIR Hup Hl0 Hpath Hu1 Hi) as (s2 & E2 & U2 & L2).
  exists s2. unfold do_make. rewrite (bind_ok _ _ _ _ _ (need_upper_ok s u Hu)), (bind_ok _ _ _ _ _ (get_node_ok pp s n Hg)), Hw.
  rewrite (bind_ok _ _ _ _ _ Elk), (bind_ok _ _ _ _ _ (copy_up_noop pp s1 n1 pr prs Hg1 Er Hup)).
  rewrite (bind_ok _ _ _ _ _ (get_node_ok pp s1 n1 Hg1)), (bind_ok _ _ _ _ _ (upper_real_ok n1 pr prs EINVAL s1 Er Hup)), (bind_err _ _ _ _ _ E2).
  split; [reflexivity|]. split; congruence.
Qed.
Lemma do_mkdir_nondir_run (pp : path) (nm : name) mode s u n c :
  Coherent s -> upper s = Some u -> nget pp (root s) = Some n -> tget u pp = Some c -> is_leafT c = true ->
  exists s', do_mkdir pp nm mode s = (Err ENOTDIR, s') /\ upper s' = Some u /\ lowers s' = lowers s.
Proof.
  intros HC Hu Hg Hc Hleaf. destruct (leaf_facts c Hleaf) as (Hcd & Hcw & _).
  destruct (upper_node s u pp n c HC Hu Hg Hc) as (pr0 & prs0 & _ & _ & _ & _ & _ & Hw & _). rewrite Hcw in Hw.
  destruct (nondir_parent_run pp nm s u n c HC Hu Hg Hc Hleaf) as (s1 & n1 & pr & prs & Elk & HC1 & (U1 & L1 & _) & Hg1 & Hw1 & Er & Hup & Hl0 & Hpath & _).
  assert (Hu1 : upper s1 = Some u) by congruence.
  assert (E4 : ri_mkdir pr nm mode s1 = (Err ENOTDIR, s1)).
  { unfold ri_mkdir, ri_guard. rewrite Hup. unfold bind at 1. cbn [ret]. unfold bind at 1. rewrite Hl0, Hpath.
    rewrite (mutate0_err (h_mkdir pp nm mode) s1 u ENOTDIR Hu1); [reflexivity|]. unfold h_mkdir, h_insert. rewrite Hc. destruct c; try discriminate; reflexivity. }
  exists s1. unfold do_mkdir. rewrite (bind_ok _ _ _ _ _ (need_upper_ok s u Hu)), (bind_ok _ _ _ _ _ (get_node_ok pp s n Hg)), Hw.
  rewrite (bind_ok _ _ _ _ _ Elk).
  assert (Efl : ret (A := bool * bool) (false, false) s1 = (Ok (false, false), s1)) by reflexivity.
  rewrite (bind_ok _ _ _ _ _ Efl), (bind_ok _ _ _ _ _ (copy_up_noop pp s1 n1 pr prs Hg1 Er Hup)).
  rewrite (bind_ok _ _ _ _ _ (get_node_ok pp s1 n1 Hg1)), (bind_ok _ _ _ _ _ (upper_real_ok n1 pr prs EINVAL s1 Er Hup)).
  assert (Er0 : ret tt s1 = (Ok tt, s1)) by reflexivity. rewrite (bind_ok _ _ _ _ _ Er0), (bind_err _ _ _ _ _ E4).
  split; [reflexivity|]. split; congruence.
Qed.

(* the parent's own lookups before the body (sync_parent, or lookup_node with the empty name) *)
Lemma pre_nondir_run (pp : path) s u n c : Coherent s -> upper s = Some u -> nget pp (root s) = Some n -> tget u pp = Some c -> is_whT c = false ->
  exists s1 n1, lookup_node pp None s = (Ok pp, s1) /\ sync_parent pp s = (Ok tt, s1) /\ Coherent s1 /\ sd s s1 /\ nget pp (root s1) = Some n1.
Proof.
  intros HC Hu Hg Hc Hcw. destruct (mstack_head pp u (lowers s) c Hc) as [r Hms].
  destruct (vis_lookup_run pp s u n c r HC Hu Hg Hms Hcw) as (s1 & n1 & Hlk & HC1 & Hsd1 & Hg1 & Hw1 & _).
  exists s1, n1. split; [exact (Hlk None)|]. split; [|auto].
  unfold sync_parent. rewrite (bind_ok _ _ _ _ _ (Hlk None)), (bind_ok _ _ _ _ _ (get_node_ok pp s1 n1 Hg1)), Hw1. reflexivity.
Qed.

Theorem step_ins_nondir_run o (pp : path) (nm : name) c0 s u c :
  ins_leaf o (next_ino s) = Some (pp ++ [nm], c0) ->
  Coherent s -> upper s = Some u -> tget u pp = Some c -> is_leafT c = true ->
  exists s', step o s = (Err ENOTDIR, s') /\ upper s' = Some u /\ lowers s' = lowers s.
Proof.
  intros Ho HC Hu Hc Hleaf. destruct (leaf_facts c Hleaf) as (Hcd & Hcw & _).
  destruct (walk_run u pp [] s (root s) c HC Hu eq_refl Hc Hcw) as (s1 & n1 & E1 & HC1 & (U1 & L1 & _) & Hg1). cbn [app] in Hg1.
  assert (Hu1 : upper s1 = Some u) by congruence.
  destruct (pre_nondir_run pp s1 u n1 c HC1 Hu1 Hg1 Hc Hcw) as (s2 & n2 & Elk & Esy & HC2 & (U2 & L2 & _) & Hg2).
  assert (Hu2 : upper s2 = Some u) by congruence.
  assert (Hmake : forall mk, mk_fails pp nm mk c0 -> exists s', do_make pp nm mk s2 = (Err ENOTDIR, s') /\ upper s' = Some u /\ lowers s' = lowers s).
  { intros mk Hmk. destruct (do_make_nondir_run pp nm mk c0 s2 u n2 c Hmk HC2 Hu2 Hg2 Hc Hleaf) as (s' & E & U' & L'). exists s'. split; [exact E|]. split; [exact U'|congruence]. }
  destruct o; cbn [ins_leaf] in Ho; inversion Ho; subst; cbn [step]; rewrite with_parent_snoc; unfold walk; rewrite (bind_ok _ _ _ _ _ E1).
  - destruct (Hmake _ (mk_fails_create pp nm mode _)) as (s' & E & U' & L'). exists s'. rewrite (bind_ok _ _ _ _ _ Esy), (bind_err _ _ _ _ _ E). auto.
  - destruct (do_mkdir_nondir_run pp nm mode s2 u n2 c HC2 Hu2 Hg2 Hc Hleaf) as (s' & E & U' & L'). exists s'. rewrite (bind_ok _ _ _ _ _ Esy), (bind_err _ _ _ _ _ E).
    split; [reflexivity|]. split; [exact U'|congruence].
  - destruct (Hmake _ (mk_fails_create pp nm mode _)) as (s' & E & U' & L'). exists s'. rewrite (bind_ok _ _ _ _ _ Esy), (bind_err _ _ _ _ _ E). auto.
  - destruct (Hmake _ (mk_fails_symlink pp nm target _)) as (s' & E & U' & L'). exists s'. rewrite (bind_ok _ _ _ _ _ Elk), (bind_err _ _ _ _ _ E). auto.
Qed.

(* the union shows the non-directory at the parent's path *)
Lemma merge_leaf_at u ls (pp : path) c mv : Forall wf (u :: ls) -> tget u pp = Some c -> is_leafT c = true -> (List.length pp < DEPTH)%nat ->
  merge (u :: ls) = Some mv -> tget mv pp = Some (hide_xs c).
Proof.
  intros W Hc Hleaf Hlen Hm. destruct (leaf_facts c Hleaf) as (_ & Hcw & _).
  assert (Hd : exists f, DEPTH = (S f + List.length pp)%nat) by (exists (DEPTH - 1 - List.length pp)%nat; lia). destruct Hd as [f Hd].
  destruct (tget_merge f pp u ls c W Hc Hcw Hd) as (mv' & Hm' & Ht). assert (mv' = mv) by congruence. subst mv'.
  destruct (mstack_head pp u ls c Hc) as [r Hr]. rewrite Hr, (resolve_leaf f c r Hleaf) in Ht. exact Ht.
Qed.

Theorem refines_ins_nondir s o (pp : path) (nm : name) c0 u c v :
  Coherent s -> ins_leaf o (next_ino s) = Some (pp ++ [nm], c0) -> upper s = Some u -> tget u pp = Some c -> is_leafT c = true ->
  (List.length (pp ++ [nm]) < DEPTH)%nat -> view (load_all s) = Some v ->
  refines_at s o v /\ fst (step o s) = Err ENOTDIR /\ upper (run_op o s) = upper s.
Proof.
  intros HC Ho Hu Hc Hleaf Hlen Hv.
  destruct (step_ins_nondir_run o pp nm c0 s u c Ho HC Hu Hc Hleaf) as (s' & Hrun & U' & L').
  split; [|split; [rewrite Hrun; reflexivity|unfold run_op; rewrite Hrun; cbn [snd]; congruence]].
  apply (refine_unchanged s o v ENOTDIR s' HC (ins_leaf_coh _ _ _ _ Ho) Hv Hrun); [congruence|exact L'|].
  intros mv Hm. rewrite Hu in Hm. cbn [all_layers] in Hm.
  assert (Hlp : (List.length pp < DEPTH)%nat) by (rewrite app_length in Hlen; cbn in Hlen; lia).
  pose proof (merge_leaf_at u (lowers s) pp c mv (coherent_wf_layers s u HC Hu) Hc Hleaf Hlp Hm) as Ht.
  assert (Hi : forall c1, h_insert pp nm c1 mv = Err ENOTDIR) by (intros c1; unfold h_insert; rewrite Ht; destruct c; try discriminate; reflexivity).
  destruct o; cbn [ins_leaf] in Ho; inversion Ho; subst; cbn [fs_apply]; rewrite split_last_snoc;
    unfold fs_mut, h_mkdir, h_create, h_symlink; cbn [f_tree f_next]; rewrite Hi; reflexivity.
Qed.

(* ------------------------------------------------------------------ link: EPERM for a directory, ENOTDIR below an upper non-directory *)
Lemma npres_node_checked src : npres (node_checked src).
Proof.
  unfold node_checked. apply npres_bind; [apply cpres_lookup_node|apply npres_lookup_node|]. intros _.
  apply npres_bind; [apply cpres_get_node|apply npres_get_node|]. intros n. apply npres_if; [apply npres_fail|apply npres_ret].
Qed.
(* the lookups of LINK before do_link, for a visible source and a visible new parent *)
Lemma link_prefix_run (src pp : path) s u ts rs tp rp : Coherent s -> upper s = Some u ->
  visp (u :: lowers s) [] src -> mstack (u :: lowers s) src = ts :: rs -> is_whT ts = false ->
  visp (u :: lowers s) [] pp -> mstack (u :: lowers s) pp = tp :: rp -> is_whT tp = false ->
  exists s4 sn pn, (forall (K : M string), (walk src ;;; (walk pp ;;; (node_checked src ;;; sync_parent pp ;;; K))) s = K s4) /\
    Coherent s4 /\ sd s s4 /\ nget src (root s4) = Some sn /\ nget pp (root s4) = Some pn /\
    n_wh sn = false /\ n_wh pn = false /\ node_stat s4 sn = Some ts /\ node_stat s4 pn = Some tp /\ (is_dirT tp = true -> n_loaded pn = true).
Proof.
  intros HC Hu Hvs Hms Hws Hvp Hmp Hwp.
  destruct (walk_vis_run u src [] s (root s) HC Hu eq_refl Hvs) as (s1 & n1 & E1 & HC1 & Hsd1 & Hg1). cbn [app] in Hg1.
  pose proof Hsd1 as (U1 & L1 & _). assert (Hu1 : upper s1 = Some u) by congruence.
  destruct (walk_vis_run u pp [] s1 (root s1) HC1 Hu1 eq_refl) as (s2 & n2 & E2 & HC2 & Hsd2 & Hg2); [rewrite L1; exact Hvp|]. cbn [app] in Hg2.
  pose proof (sd_trans _ _ _ Hsd1 Hsd2) as Hsd02. pose proof Hsd02 as (U2 & L2 & _). assert (Hu2 : upper s2 = Some u) by congruence.
  destruct (npres_walk_from pp [] s1 HC1 src n1 Hg1) as [n1' Hg1']. rewrite E2 in Hg1'. cbn [snd] in Hg1'.
  destruct (vis_lookup_run src s2 u n1' ts rs HC2 Hu2 Hg1') as (s3 & n3 & Hlk3 & HC3 & Hsd3 & Hg3 & Hw3 & Hst3 & _); [rewrite L2; exact Hms|exact Hws|].
  pose proof (sd_trans _ _ _ Hsd02 Hsd3) as Hsd03. pose proof Hsd03 as (U3 & L3 & _). assert (Hu3 : upper s3 = Some u) by congruence.
  assert (Enc : node_checked src s2 = (Ok tt, s3)).
  { unfold node_checked. rewrite (bind_ok _ _ _ _ _ (Hlk3 None)), (bind_ok _ _ _ _ _ (get_node_ok src s3 n3 Hg3)), Hw3. reflexivity. }
  destruct (npres_node_checked src s2 HC2 pp n2 Hg2) as [pn3 Hgp3]. rewrite Enc in Hgp3. cbn [snd] in Hgp3.
  destruct (vis_lookup_run pp s3 u pn3 tp rp HC3 Hu3 Hgp3) as (s4 & pn4 & Hlk4 & HC4 & Hsd4 & Hgp4 & Hwp4 & Hstp4 & _ & Hldp4); [rewrite L3; exact Hmp|exact Hwp|].
  pose proof (sd_trans _ _ _ Hsd03 Hsd4) as Hsd04. pose proof Hsd04 as (U4 & L4 & _). assert (Hu4 : upper s4 = Some u) by congruence.
  assert (Esy : sync_parent pp s3 = (Ok tt, s4)).
  { unfold sync_parent. rewrite (bind_ok _ _ _ _ _ (Hlk4 None)), (bind_ok _ _ _ _ _ (get_node_ok pp s4 pn4 Hgp4)), Hwp4. reflexivity. }
  destruct (npres_sync_parent pp s3 HC3 src n3 Hg3) as [sn4 Hgs4]. rewrite Esy in Hgs4. cbn [snd] in Hgs4.
  assert (Hsts4 : node_stat s4 sn4 = Some ts) by (apply (node_stat_head s4 u src sn4 _ rs HC4 Hu4 Hgs4); rewrite L4; exact Hms).
  destruct (node_first_real s4 src sn4 HC4 Hgs4) as (r0 & rs0 & t0 & _ & _ & Hst0 & _ & _ & _ & _ & Hwn). assert (t0 = ts) by congruence. subst t0. rewrite Hws in Hwn.
  exists s4, sn4, pn4. split.
  - intros K. unfold walk in *. rewrite (bind_ok _ _ _ _ _ E1), (bind_ok _ _ _ _ _ E2), (bind_ok _ _ _ _ _ Enc), (bind_ok _ _ _ _ _ Esy). reflexivity.
  - repeat (split; [assumption|]). exact Hldp4.
Qed.

Theorem step_link_dir_run (src pp : path) (nm : name) s u m x ch rs tp rp : Coherent s -> upper s = Some u ->
  visp (u :: lowers s) [] src -> mstack (u :: lowers s) src = Dir m x ch :: rs ->
  visp (u :: lowers s) [] pp -> mstack (u :: lowers s) pp = tp :: rp -> is_whT tp = false ->
  exists s', step (OLink src (pp ++ [nm])) s = (Err EPERM, s') /\ sd s s'.
Proof.
  intros HC Hu Hvs Hms Hvp Hmp Hwp.
  destruct (link_prefix_run src pp s u _ rs tp rp HC Hu Hvs Hms eq_refl Hvp Hmp Hwp) as (s4 & sn & pn & Hrun & HC4 & Hsd4 & Hgs & Hgp & Hws & Hwpn & Hsts & Hstp & _).
  pose proof Hsd4 as (U4 & _). assert (Hu4 : upper s4 = Some u) by congruence.
  exists s4. split; [|exact Hsd4]. cbn [step]. rewrite with_parent_snoc, Hrun.
  assert (El : do_link src pp nm s4 = (Err EPERM, s4)).
  { unfold do_link. rewrite (bind_ok _ _ _ _ _ (need_upper_ok s4 u Hu4)), (bind_ok _ _ _ _ _ (get_node_ok src s4 sn Hgs)), (bind_ok _ _ _ _ _ (get_node_ok pp s4 pn Hgp)).
    rewrite Hws, Hwpn. cbn [orb]. assert (Es : stat_node sn s4 = (Ok (Dir m x ch), s4)) by (unfold stat_node; rewrite Hsts; reflexivity).
    rewrite (bind_ok _ _ _ _ _ Es). reflexivity. }
  rewrite (bind_err _ _ _ _ _ El). reflexivity.
Qed.

Theorem step_link_nondir_run (src pp : path) (nm : name) s u c cp : Coherent s -> upper s = Some u ->
  tget u src = Some c -> is_leafT c = true -> tget u pp = Some cp -> is_leafT cp = true ->
  exists s', step (OLink src (pp ++ [nm])) s = (Err ENOTDIR, s') /\ sd s s'.
Proof.
  intros HC Hu Hc Hleaf Hcp Hleafp. destruct (leaf_facts c Hleaf) as (Hcd & Hcw & _). destruct (leaf_facts cp Hleafp) as (Hpd & Hpw & _).
  destruct (mstack_head src u (lowers s) c Hc) as [rs Hms]. destruct (mstack_head pp u (lowers s) cp Hcp) as [rp Hmp].
  assert (Hvis : forall q t, tget u q = Some t -> is_whT t = false -> visp (u :: lowers s) [] q).
  { intros q t Hq Hw. apply visb_visp. rewrite visb_vis_rel. cbn [mstack]. clear -Hq Hw. revert u t Hq Hw. generalize (lowers s) as ls.
    induction q as [|k q IH]; intros ls u t Hq Hw; cbn [vis_rel]; [reflexivity|]. cbn [tget] in Hq.
    destruct u as [m0 x0 ch0| | |]; try discriminate. destruct (afind k ch0) as [e1|] eqn:Ek; [|discriminate].
    rewrite (dir_stack_head m0 x0 ch0), ents_cons. cbn [dir_children]. rewrite Ek.
    assert (Hw1 : is_whT e1 = false) by (destruct q; cbn [tget] in Hq; [inversion Hq; subst; exact Hw|destruct e1; try discriminate; reflexivity]).
    rewrite Hw1. cbn [negb andb]. apply (IH _ e1 t Hq Hw). }
  destruct (link_prefix_run src pp s u c rs cp rp HC Hu (Hvis src c Hc Hcw) Hms Hcw (Hvis pp cp Hcp Hpw) Hmp Hpw) as (s4 & sn & pn & Hrun & HC4 & Hsd4 & Hgs & Hgp & Hws & Hwpn & Hsts & Hstp & _).
  pose proof Hsd4 as (U4 & L4 & _). assert (Hu4 : upper s4 = Some u) by congruence.
  destruct (upper_node s4 u src sn c HC4 Hu4 Hgs Hc) as (sr & srs & Esr & Hsup & Hsl0 & Hspath & _).
  destruct (upper_node s4 u pp pn cp HC4 Hu4 Hgp Hcp) as (pr0 & prs0 & Epr0 & Hpup0 & _).
  destruct (nondir_parent_run pp nm s4 u pn cp HC4 Hu4 Hgp Hcp Hleafp) as (s5 & n5 & pr & prs & Elk & HC5 & Hsd5 & Hg5 & Hw5 & Er & Hup & Hl0 & Hpath & _).
  pose proof Hsd5 as (U5 & L5 & _). assert (Hu5 : upper s5 = Some u) by congruence.
  assert (Eln : ri_link pr sr nm s5 = (Err ENOTDIR, s5)).
  { unfold ri_link, ri_guard. rewrite Hup. unfold bind at 1. cbn [ret]. unfold bind at 1. rewrite Hsl0, Hl0. cbn [Nat.eqb]. unfold bind at 1. cbn [ret].
    rewrite Hspath, Hpath. rewrite (mutate0_err (h_link src pp nm) s5 u ENOTDIR Hu5); [reflexivity|].
    unfold h_link. rewrite Hc. unfold h_insert. rewrite Hcp. destruct c; try discriminate; destruct cp; try discriminate; reflexivity. }
  exists s5. split; [|exact (sd_trans _ _ _ Hsd4 Hsd5)]. cbn [step]. rewrite with_parent_snoc, Hrun.
  assert (El : do_link src pp nm s4 = (Err ENOTDIR, s5)).
  { unfold do_link. rewrite (bind_ok _ _ _ _ _ (need_upper_ok s4 u Hu4)), (bind_ok _ _ _ _ _ (get_node_ok src s4 sn Hgs)), (bind_ok _ _ _ _ _ (get_node_ok pp s4 pn Hgp)).
    rewrite Hws, Hwpn. cbn [orb]. assert (Es : stat_node sn s4 = (Ok c, s4)) by (unfold stat_node; rewrite Hsts; reflexivity).
    rewrite (bind_ok _ _ _ _ _ Es), Hcd.
    rewrite (bind_ok _ _ _ _ _ (copy_up_noop src s4 sn sr srs Hgs Esr Hsup)), (bind_ok _ _ _ _ _ (copy_up_noop pp s4 pn pr0 prs0 Hgp Epr0 Hpup0)).
    rewrite (bind_ok _ _ _ _ _ (get_node_ok src s4 sn Hgs)).
    assert (Efr : first_real sn s4 = (Ok sr, s4)) by (unfold first_real; rewrite Esr; reflexivity).
    rewrite (bind_ok _ _ _ _ _ Efr), (bind_ok _ _ _ _ _ Elk).
    rewrite (bind_ok _ _ _ _ _ (get_node_ok pp s5 n5 Hg5)), (bind_ok _ _ _ _ _ (upper_real_ok n5 pr prs EINVAL s5 Er Hup)), (bind_err _ _ _ _ _ Eln). reflexivity. }
  rewrite (bind_err _ _ _ _ _ El). reflexivity.
Qed.

(* ------------------------------------------------------------------ unlink of a directory of the upper layer: EISDIR *)
Lemma do_unlink_dir_run (pp : path) (nm : name) s u pn m x ch md xd chd :
  Coherent s -> upper s = Some u -> nget pp (root s) = Some pn ->
  tget u pp = Some (Dir m x ch) -> afind nm ch = Some (Dir md xd chd) ->
  exists s', do_rm pp nm false s = (Err EISDIR, s') /\ sd s s'.
Proof.
  intros HC Hu Hg Hpp Hnm. set (q := pp ++ [nm]). set (t := Dir md xd chd) in *.
  assert (Hq : tget u q = Some t) by (unfold q; rewrite tget_app, Hpp; exact Hnm).
  destruct (upper_node s u pp pn _ HC Hu Hg Hpp) as (pr0 & prs0 & _ & _ & _ & _ & _ & Hw & Hfd). cbn in Hw, Hfd.
  destruct (lookup_run pp s pn HC Hg Hw) as (s1 & pn1 & HC1 & Hsd1 & Hg1 & Hw1 & Hr1 & _ & Hlk1).
  assert (Hu1 : upper s1 = Some u) by (destruct Hsd1 as (A & _); congruence).
  destruct (lookup_run pp s1 pn1 HC1 Hg1 Hw1) as (s2 & pn2 & HC2 & Hsd2 & Hg2 & Hw2 & Hr2 & Hld2 & Hlk2).
  rewrite Hr1 in Hld2. specialize (Hld2 Hfd).
  pose proof (sd_trans _ _ _ Hsd1 Hsd2) as Hsd02. pose proof Hsd02 as (U2 & L2 & I2).
  assert (Hu2 : upper s2 = Some u) by congruence.
  pose proof HC2 as (_ & Hwl2 & HCT2). pose proof (HCT2 pp pn2 Hg2) as N2. cbn [app] in N2.
  destruct (ok_ld _ _ _ _ N2 Hld2) as (_ & _ & Kids).
  destruct (afind nm (n_ch pn2)) as [c|] eqn:Ec.
  2:{ exfalso. apply Kids in Ec. rewrite <- lstack_snoc in Ec.
      destruct (lstack_upper s2 u q Hu2 t Hq) as [rest Hr]. unfold q in Hr. rewrite Hr in Ec. discriminate. }
  pose proof (nget_snoc pp nm (root s2) pn2 c Hg2 Ec) as Hgq. fold q in Hgq.
  destruct (upper_node s2 u q c t HC2 Hu2 Hgq Hq) as (cr & crs & Ecr & Hcup & _ & _ & Hstc & Hwc & Hfdc). cbn in Hwc.
  destruct (upper_node s2 u pp pn2 _ HC2 Hu2 Hg2 Hpp) as (pr & prs & Er & Hup & Hl0 & Hpath & _).
  assert (Hneed0 : exists need0, (if upper_only c
            then fun s => match lower_has_child s (n_reals pn2) nm with Ok b => (Ok b, s) | Err e => (Err e, s) end
            else ret true) s2 = (Ok need0, s2)).
  { destruct (upper_only c); [|exists true; reflexivity].
    destruct (lower_has_child s2 (n_reals pn2) nm) as [b|e] eqn:El; [eauto|]. exfalso. revert El. apply (lhc_no_err s2 pp).
    pose proof (ok_reals _ _ _ _ N2) as G. pose proof (ok_tl _ _ _ _ N2) as T. rewrite Er in *. cbn [tl] in T.
    inversion G as [|? ? G1 G2]; subst. constructor; [split; [exact G1|left; exact Hup]|].
    clear -G2 T. induction G2 as [|a l Ha _ IH]; [constructor|]. inversion T; subst. constructor; [split; [exact Ha|right; assumption]|auto]. }
  destruct Hneed0 as [need0 En0].
  assert (E4 : mutate (r_layer pr) (h_unlink (r_path pr) nm) s2 = (Err EISDIR, s2)).
  { rewrite Hl0, Hpath. apply (mutate0_err _ s2 u EISDIR Hu2). unfold h_unlink. rewrite Hpp, Hnm. reflexivity. }
  exists s2. split; [|exact Hsd02].
  unfold do_rm. rewrite (bind_ok _ _ _ _ _ (need_upper_ok s u Hu)), (bind_ok _ _ _ _ _ (Hlk1 None)).
  rewrite (bind_ok _ _ _ _ _ (get_node_ok pp s1 pn1 Hg1)), Hw1.
  pose proof (Hlk2 (Some nm)) as Hlk2'. cbn beta iota in Hlk2'. rewrite Ec in Hlk2'. rewrite (bind_ok _ _ _ _ _ Hlk2').
  fold q. rewrite (bind_ok _ _ _ _ _ (get_node_ok q s2 c Hgq)), Hwc.
  assert (Er0 : ret tt s2 = (Ok tt, s2)) by reflexivity. rewrite (bind_ok _ _ _ _ _ Er0).
  rewrite (bind_ok _ _ _ _ _ (copy_up_noop pp s2 pn2 pr prs Hg2 Er Hup)).
  rewrite (bind_ok _ _ _ _ _ (get_node_ok q s2 c Hgq)), (bind_ok _ _ _ _ _ (get_node_ok pp s2 pn2 Hg2)).
  rewrite (bind_ok _ _ _ _ _ En0).
  assert (Hin : in_upper c = true) by (unfold in_upper; rewrite Ecr; exact Hcup). rewrite Hin.
  assert (En : (pr0 <- upper_real pn2 EINVAL;; mutate (r_layer pr0) (h_unlink (r_path pr0) nm);;; ret (need0 && negb (r_opq pr0))) s2 = (Err EISDIR, s2)).
  { rewrite (bind_ok _ _ _ _ _ (upper_real_ok pn2 pr prs EINVAL s2 Er Hup)), (bind_err _ _ _ _ _ E4). reflexivity. }
  rewrite (bind_err _ _ _ _ _ En). reflexivity.
Qed.
Theorem step_unlink_dir_run (pp : path) (nm : name) s u m x ch md xd chd :
  Coherent s -> upper s = Some u -> tget u pp = Some (Dir m x ch) -> afind nm ch = Some (Dir md xd chd) ->
  exists s', step (OUnlink (pp ++ [nm])) s = (Err EISDIR, s') /\ sd s s'.
Proof.
  intros HC Hu Hpp Hnm.
  destruct (walk_run u pp [] s (root s) _ HC Hu eq_refl Hpp eq_refl) as (s1 & n1 & E1 & HC1 & Hsd1 & Hg1). cbn [app] in Hg1.
  assert (Hu1 : upper s1 = Some u) by (destruct Hsd1 as (A & _); congruence).
  destruct (do_unlink_dir_run pp nm s1 u n1 m x ch md xd chd HC1 Hu1 Hg1 Hpp Hnm) as (s' & E & Hsd').
  exists s'. split; [|exact (sd_trans _ _ _ Hsd1 Hsd')]. cbn [step]. rewrite with_parent_snoc. unfold walk. rewrite (bind_ok _ _ _ _ _ E1), (bind_err _ _ _ _ _ E). reflexivity.
Qed.

(* ------------------------------------------------------------------ rename with a visible first parent *)
Theorem step_rename_run (pa pb : path) (na nb : name) s u : Coherent s -> upper s = Some u ->
  visb (u :: lowers s) [] pa = true ->
  exists s', step (ORename (pa ++ [na]) (pb ++ [nb])) s = (Err (if visb (u :: lowers s) [] pb then EXDEV else ENOENT), s') /\ sd s s'.
Proof.
  intros HC Hu Hva. cbn [step]. rewrite !with_parent_snoc.
  destruct (walk_vis_run u pa [] s (root s) HC Hu eq_refl (visb_visp _ _ _ Hva)) as (s1 & n1 & E1 & HC1 & Hsd1 & Hg1).
  pose proof Hsd1 as (U1 & L1 & _). assert (Hu1 : upper s1 = Some u) by congruence.
  unfold walk in *. rewrite (bind_ok _ _ _ _ _ E1).
  destruct (visb (u :: lowers s) [] pb) eqn:Evb.
  - destruct (walk_vis_run u pb [] s1 (root s1) HC1 Hu1 eq_refl) as (s2 & n2 & E2 & HC2 & Hsd2 & Hg2); [rewrite L1; apply visb_visp; exact Evb|].
    exists s2. rewrite (bind_ok _ _ _ _ _ E2). split; [reflexivity|exact (sd_trans _ _ _ Hsd1 Hsd2)].
  - pose proof (coherent_layers_ok s1 HC1) as Hok. rewrite Hu1 in Hok. cbn [all_layers] in Hok.
    assert (Hud : is_whT u = false) by (destruct (Forall_inv Hok) as [_ Hd]; destruct u; try discriminate; reflexivity).
    destruct (walk_fail u pb [] s1 (root s1) u (lowers s1) HC1 Hu1 eq_refl eq_refl Hud) as (s2 & E2 & HC2 & Hsd2); [rewrite L1; exact Evb|].
    exists s2. rewrite (bind_err _ _ _ _ _ E2). split; [reflexivity|exact (sd_trans _ _ _ Hsd1 Hsd2)].
Qed.

(* ------------------------------------------------------------------ the fragment *)
Definition is_leaf_at (u : tree) (p : path) : bool := match tget u p with Some c => is_leafT c | None => false end.
(* [fails_more s o]: see the head of this file *)
Definition fails_more (s : state) (o : op) : bool :=
  match upper s with
  | None => false
  | Some u =>
      let L := u :: lowers s in
      match o with
      | OMkdir p _ | OCreate p _ | OMknod p _ | OSymlink p _ =>
          match split_last p with Some (pp, _) => (List.length p <? DEPTH)%nat && is_leaf_at u pp | None => false end
      | OLink src dst =>
          match split_last dst with
          | Some (pp, _) =>
              (List.length src <? DEPTH)%nat && (List.length dst <? DEPTH)%nat &&
              ((is_leaf_at u src && is_leaf_at u pp) ||
               (visb L [] src && match mstack L src with Dir _ _ _ :: _ => true | _ => false end && visb L [] pp))
          | None => false
          end
      | OUnlink p =>
          match split_last p with
          | Some (pp, _) => (List.length p <? DEPTH)%nat && match tget u p with Some (Dir _ _ _) => true | _ => false end
          | None => false
          end
      | ORename a b =>
          match split_last a, split_last b with
          | Some (pa, _), Some (pb, _) => (List.length a <? DEPTH)%nat && (List.length b <? DEPTH)%nat && visb L [] pa
          | _, _ => false
          end
      | _ => false
      end
  end.

Lemma tget_merge_some u ls (p : path) mv : Forall wf (u :: ls) -> is_whT u = false -> visb (u :: ls) [] p = true -> (List.length p < DEPTH)%nat ->
  merge (u :: ls) = Some mv -> exists e, tget mv p = Some e.
Proof.
  intros W Hud Hv Hlen Hm. destruct (vis_head u ls p Hud Hv) as (t0 & rest & Hms & Hw).
  assert (Hd : exists f, DEPTH = (S f + List.length p)%nat) by (exists (DEPTH - 1 - List.length p)%nat; lia). destruct Hd as [f Hd].
  rewrite (tget_merge_vis u ls p t0 rest f mv W Hv Hms Hw Hd Hm). destruct t0; try discriminate; cbn [resolve]; eauto.
Qed.

Theorem op_refines_fails_more s o v : Coherent s -> fails_more s o = true -> view (load_all s) = Some v ->
  refines_at s o v /\ (exists e, fst (step o s) = Err e) /\ upper (run_op o s) = upper s.
Proof.
  intros HC Hd Hv. unfold fails_more in Hd. destruct (upper s) as [u|] eqn:Hu; [|discriminate]. cbv zeta in Hd.
  pose proof (coherent_wf_layers s u HC Hu) as W.
  pose proof (coherent_layers_ok s HC) as Hok. rewrite Hu in Hok. cbn [all_layers] in Hok.
  assert (Hud : is_whT u = false) by (destruct (Forall_inv Hok) as [_ Hdd]; destruct u; try discriminate; reflexivity).
  assert (Hins : forall p, match split_last p with Some (pp, _) => (List.length p <? DEPTH)%nat && is_leaf_at u pp | None => false end = true ->
            forall c0, ins_leaf o (next_ino s) = Some (p, c0) -> refines_at s o v /\ (exists e, fst (step o s) = Err e) /\ upper (run_op o s) = Some u).
  { intros p H c0 Ho. destruct (split_last p) as [[pp nm]|] eqn:Esp; [|discriminate]. apply split_last_spec in Esp. subst p.
    apply andb_prop in H. destruct H as [H1 H2]. apply Nat.ltb_lt in H1. unfold is_leaf_at in H2. destruct (tget u pp) as [c|] eqn:Hc; [|discriminate].
    destruct (refines_ins_nondir s o pp nm c0 u c v HC Ho Hu Hc H2 H1 Hv) as (A & B & C). split; [exact A|]. split; [eauto|congruence]. }
  destruct o; try discriminate.
  - apply (Hins p Hd _ eq_refl).
  - apply (Hins p Hd _ eq_refl).
  - apply (Hins p Hd _ eq_refl).
  - apply (Hins p Hd _ eq_refl).
  - (* link *)
    destruct (split_last dst) as [[pp nm]|] eqn:Esp; [|discriminate]. apply split_last_spec in Esp. subst dst.
    apply andb_prop in Hd. destruct Hd as [Hd H3]. apply andb_prop in Hd. destruct Hd as [H1 H2]. apply Nat.ltb_lt in H1. apply Nat.ltb_lt in H2.
    assert (Hlp : (List.length pp < DEPTH)%nat) by (rewrite app_length in H2; cbn in H2; lia).
    apply orb_prop in H3. destruct H3 as [H3|H3].
    + apply andb_prop in H3. destruct H3 as [Hs Hp]. unfold is_leaf_at in Hs, Hp.
      destruct (tget u src) as [c|] eqn:Hc; [|discriminate]. destruct (tget u pp) as [cp|] eqn:Hcp; [|discriminate].
      destruct (step_link_nondir_run src pp nm s u c cp HC Hu Hc Hs Hcp Hp) as (s' & Hrun & (U' & L' & _)).
      split; [|split; [rewrite Hrun; eexists; reflexivity|unfold run_op; rewrite Hrun; cbn [snd]; congruence]].
      apply (refine_unchanged s (OLink src (pp ++ [nm])) v ENOTDIR s' HC eq_refl Hv Hrun); [congruence|exact L'|].
      intros mv Hm. rewrite Hu in Hm. cbn [all_layers] in Hm.
      pose proof (merge_leaf_at u (lowers s) src c mv W Hc Hs H1 Hm) as Hts. pose proof (merge_leaf_at u (lowers s) pp cp mv W Hcp Hp Hlp Hm) as Htp.
      cbn [fs_apply]. rewrite split_last_snoc. unfold fs_mut, h_link, h_insert. cbn [f_tree f_next]. rewrite Hts, Htp.
      destruct c; try discriminate; destruct cp; try discriminate; reflexivity.
    + apply andb_prop in H3. destruct H3 as [H3 Hvp]. apply andb_prop in H3. destruct H3 as [Hvs Hsd].
      destruct (mstack (u :: lowers s) src) as [|[m x ch| | |] rs] eqn:Hms; try discriminate.
      destruct (vis_head u (lowers s) pp Hud Hvp) as (tp & rp & Hmp & Hwp).
      destruct (step_link_dir_run src pp nm s u m x ch rs tp rp HC Hu (visb_visp _ _ _ Hvs) Hms (visb_visp _ _ _ Hvp) Hmp Hwp) as (s' & Hrun & (U' & L' & _)).
      split; [|split; [rewrite Hrun; eexists; reflexivity|unfold run_op; rewrite Hrun; cbn [snd]; congruence]].
      apply (refine_unchanged s (OLink src (pp ++ [nm])) v EPERM s' HC eq_refl Hv Hrun); [congruence|exact L'|].
      intros mv Hm. rewrite Hu in Hm. cbn [all_layers] in Hm.
      assert (Hdd : exists f, DEPTH = (S f + List.length src)%nat) by (exists (DEPTH - 1 - List.length src)%nat; lia). destruct Hdd as [f Hdd].
      pose proof (tget_merge_vis u (lowers s) src _ rs f mv W Hvs Hms eq_refl Hdd Hm) as Hts.
      cbn [fs_apply]. rewrite split_last_snoc. unfold fs_mut, h_link. cbn [f_tree f_next]. rewrite Hts. cbn [resolve]. reflexivity.
  - (* unlink of an upper directory *)
    destruct (split_last p) as [[pp nm]|] eqn:Esp; [|discriminate]. apply split_last_spec in Esp. subst p.
    apply andb_prop in Hd. destruct Hd as [H1 H2]. apply Nat.ltb_lt in H1.
    destruct (tget u (pp ++ [nm])) as [[md xd chd| | |]|] eqn:Hq; try discriminate.
    destruct (tget_snoc_inv u pp nm _ Hq) as (m & x & ch & Hpp & Hnm).
    destruct (step_unlink_dir_run pp nm s u m x ch md xd chd HC Hu Hpp Hnm) as (s' & Hrun & (U' & L' & _)).
    split; [|split; [rewrite Hrun; eexists; reflexivity|unfold run_op; rewrite Hrun; cbn [snd]; congruence]].
    apply (refine_unchanged s (OUnlink (pp ++ [nm])) v EISDIR s' HC eq_refl Hv Hrun); [congruence|exact L'|].
    intros mv Hm. rewrite Hu in Hm. cbn [all_layers] in Hm.
    assert (Hdd : exists f, DEPTH = (S (S f) + List.length pp)%nat) by (rewrite app_length in H1; cbn in H1; exists (DEPTH - 2 - List.length pp)%nat; lia). destruct Hdd as [f Hdd].
    destruct (tget_merge (S f) pp u (lowers s) _ W Hpp eq_refl Hdd) as (mv' & Hm' & Ht). assert (mv' = mv) by congruence. subst mv'.
    destruct (mstack_head pp u (lowers s) _ Hpp) as [r Hr]. rewrite Hr in Ht.
    assert (Wr : Forall wf (Dir m x ch :: r)) by (rewrite <- Hr; apply mstack_wf; exact W).
    destruct (resolve_dir_spec (S f) m x ch r Wr) as (chs & Er & N & K). rewrite Er in Ht.
    cbn [fs_apply]. rewrite split_last_snoc. unfold fs_mut, h_unlink. cbn [f_tree f_next]. rewrite Ht, K, (dir_stack_head m x ch), ents_cons. cbn [dir_children]. rewrite Hnm.
    cbn [resolve]. reflexivity.
  - (* rename *)
    destruct (split_last a) as [[pa na]|] eqn:Ea; [|discriminate]. destruct (split_last b) as [[pb nb]|] eqn:Eb; [|discriminate].
    apply split_last_spec in Ea. apply split_last_spec in Eb. subst a b.
    apply andb_prop in Hd. destruct Hd as [Hd Hva]. apply andb_prop in Hd. destruct Hd as [H1 H2]. apply Nat.ltb_lt in H1. apply Nat.ltb_lt in H2.
    assert (Hla : (List.length pa < DEPTH)%nat) by (rewrite app_length in H1; cbn in H1; lia).
    assert (Hlb : (List.length pb < DEPTH)%nat) by (rewrite app_length in H2; cbn in H2; lia).
    destruct (step_rename_run pa pb na nb s u HC Hu Hva) as (s' & Hrun & (U' & L' & _)).
    split; [|split; [rewrite Hrun; eexists; reflexivity|unfold run_op; rewrite Hrun; cbn [snd]; congruence]].
    apply (refine_unchanged s (ORename (pa ++ [na]) (pb ++ [nb])) v _ s' HC eq_refl Hv Hrun); [congruence|exact L'|].
    intros mv Hm. rewrite Hu in Hm. cbn [all_layers] in Hm.
    destruct (tget_merge_some u (lowers s) pa mv W Hud Hva Hla Hm) as [ea Hea].
    cbn [fs_apply f_tree]. rewrite !split_last_snoc, Hea.
    destruct (visb (u :: lowers s) [] pb) eqn:Evb.
    + destruct (tget_merge_some u (lowers s) pb mv W Hud Evb Hlb Hm) as [eb Heb]. rewrite Heb. reflexivity.
    + rewrite (merge_invisible u (lowers s) pb mv W Hm Evb). reflexivity.
Qed.

(* ------------------------------------------------------------------ where the model and the ordinary file system disagree *)
(* every operation of every coherent state refines the ordinary file system *)
Definition refines_everywhere : Prop :=
  forall s o v, Coherent s -> coh_op o = true -> view (load_all s) = Some v -> res_same (fst (step o s)) (fst (fs_apply o (mkFs v (next_ino s)))).

Definition WU1 : tree := Dir 493 [] [("f"%string, File 1 420 [104] []); ("d"%string, Dir 493 [] [])].
Definition WL1 : tree := Dir 493 [] [("e"%string, Dir 493 [] []); ("g"%string, Lnk [97])].
Definition WS1 : state := load_all (fresh (Some WU1) [WL1] 1000).
Lemma WS1_coherent : Coherent WS1.
Proof.
  apply load_all_coherent. apply fresh_coherent.
  repeat (first [apply Forall_cons | apply Forall_nil | split | apply wf_dir | apply wf_file | apply wf_lnk | apply wf_wh
                | apply NoDup_cons | apply NoDup_nil | (cbn; intuition discriminate) | reflexivity ]).
Qed.
(* UNLINK / RMDIR below a non-directory: the overlay looks the name up in the parent's (empty) child table and answers ENOENT,
   an ordinary file system answers ENOTDIR.  (The kernel resolves the parent itself and never sends such a request.) *)
Theorem unlink_below_nondir_disagrees :
  exists v, view (load_all WS1) = Some v /\
    fst (step (OUnlink ["f"; "x"]%string) WS1) = Err ENOENT /\ fst (fs_apply (OUnlink ["f"; "x"]%string) (mkFs v (next_ino WS1))) = Err ENOTDIR /\
    fst (step (ORmdir ["g"; "x"]%string) WS1) = Err ENOENT /\ fst (fs_apply (ORmdir ["g"; "x"]%string) (mkFs v (next_ino WS1))) = Err ENOTDIR.
Proof. eexists. split; [vm_compute; reflexivity|]. vm_compute. repeat split; reflexivity. Qed.
(* UNLINK of a directory that only lower layers hold: do_rm has no type check of its own, the upper layer has nothing to
   unlink, and a whiteout is written - the directory disappears where an ordinary file system answers EISDIR.
   (The kernel sends RMDIR for directories; the harness excludes the request.) *)
Theorem unlink_lower_dir_disagrees :
  exists v, view (load_all WS1) = Some v /\
    fst (step (OUnlink ["e"]%string) WS1) = Ok ""%string /\ fst (fs_apply (OUnlink ["e"]%string) (mkFs v (next_ino WS1))) = Err EISDIR /\
    upper (run_op (OUnlink ["e"]%string) WS1) = Some (Dir 493 [] [("f"%string, File 1 420 [104] []); ("d"%string, Dir 493 [] []); ("e"%string, Wh)]).
Proof. eexists. split; [vm_compute; reflexivity|]. vm_compute. repeat split; reflexivity. Qed.
Theorem refines_everywhere_refuted : ~ refines_everywhere.
Proof.
  intros H. destruct unlink_lower_dir_disagrees as (v & Hv & H1 & H2 & _).
  specialize (H WS1 (OUnlink ["e"]%string) v WS1_coherent eq_refl Hv). rewrite H1, H2 in H. exact H.
Qed.
