(* C08, use_host_ino modes: the numbers allocated from host inode numbers
   (unique_id << 47 | ino, ino <= MAX_HOST_INO) are never in use, hence the refinement of
   Proofs/Inodes.v holds in these modes too.  Hypotheses on the host: every inode number of the
   export is at most MAX_HOST_INO (virtual numbers for larger ones are modelled but not covered
   here), and in handle mode the host does not reuse the inode number of a file that is still
   referenced under another file handle. *)
From Coq Require Import List NArith Bool Lia.
From FB Require Import Model.Inodes Proofs.InodesMap Proofs.Inodes Proofs.InodesNum.
Import ListNotations.
Local Open Scope N_scope.

Definition P47 : N := 140737488355328.   (* 2^47 *)

(* ------------------------------------------------------------------ the encoding *)
Lemma testbit_small x n : x < 2 ^ n -> forall m, n <= m -> N.testbit x m = false.
Proof.
  intros B m L. destruct (N.eq_dec x 0) as [->|NZ]; [apply N.bits_0|].
  apply N.bits_above_log2. assert (N.log2 x < n) by (apply N.log2_lt_pow2; lia). lia.
Qed.

Lemma enc_small u x : x < P47 -> enc_ino u x = u * P47 + x.
Proof.
  intros B. unfold enc_ino.
  assert (L0 : N.land (N.shiftl u 47) x = 0).
  { apply N.bits_inj_0. intros n. rewrite N.land_spec.
    destruct (N.lt_ge_cases n 47) as [L|L].
    - rewrite N.shiftl_spec_low by exact L. reflexivity.
    - rewrite (testbit_small x 47) by (try exact L; exact B). apply Bool.andb_false_r. }
  rewrite <- N.lxor_lor by exact L0. rewrite <- N.add_nocarry_lxor by exact L0.
  rewrite N.shiftl_mul_pow2. reflexivity.
Qed.

Lemma enc_inj u x u' x' : x < P47 -> x' < P47 -> enc_ino u x = enc_ino u' x' -> u = u' /\ x = x'.
Proof.
  intros B B' E. rewrite !enc_small in E by assumption. unfold P47 in *.
  assert (u = u') by nia. subst. split; [reflexivity|lia].
Qed.

Lemma enc_not_root u x : x < P47 -> 1 <= u -> enc_ino u x <> ROOT_ID.
Proof. intros B U. rewrite enc_small by exact B. unfold P47, ROOT_ID. nia. Qed.

(* ------------------------------------------------------------------ the (dev, mnt) -> unique id table *)
Lemma pget_set (m : list ((N * N) * N)) k v j :
  mget pair_eqb (mset pair_eqb m k v) j = if pair_eqb j k then Some v else mget pair_eqb m j.
Proof.
  destruct (pair_eqb_spec j k) as [E|E].
  - subst. apply mget_mset_eq. exact pair_eqb_spec.
  - apply mget_mset_neq; [exact pair_eqb_spec|exact E].
Qed.

Definition kof (id : hid) : N * N := (hid_dev id, hid_mnt id).

Record HI (s : istate) : Prop := mkHI {
  hU1 : forall k u, mget pair_eqb (uids s) k = Some u -> 1 <= u /\ u < next_uid s;
  hU0 : 1 <= next_uid s /\ next_uid s <= 255;
  hU2 : forall k k' u, mget pair_eqb (uids s) k = Some u -> mget pair_eqb (uids s) k' = Some u -> k = k';
  (* every live object other than the root is numbered by its host inode number *)
  hN : forall i d, dget s i = Some d -> i = ROOT_ID \/
         (hid_ino (i_id d) <= MAX_HOST_INO /\ exists u, mget pair_eqb (uids s) (kof (i_id d)) = Some u /\ i = enc_ino u (hid_ino (i_id d)))
}.

Definition small_t (t : target) : Prop := hid_ino (t_id t) <= MAX_HOST_INO.

(* handle mode: no live object has the target's host identity under another file handle *)
Definition no_reuse (c : cfg) (s : istate) (t : target) : Prop :=
  forall i d, dget s i = Some d -> i_id d = t_id t -> i_fh d = eff_fh c t.

Lemma hid_eta (a b : hid) : hid_ino a = hid_ino b -> kof a = kof b -> a = b.
Proof. destruct a as [[a1 a2] a3], b as [[b1 b2] b3]. unfold hid_ino, kof, hid_dev, hid_mnt; cbn. intros -> E. inversion E; subst. reflexivity. Qed.

(* get_unique_inode for a small host inode number *)
Lemma unique_small s id r s1 :
  HI s -> hid_ino id <= MAX_HOST_INO -> get_unique_inode s id = (r, s1) ->
  data s1 = data s /\ by_id s1 = by_id s /\ by_handle s1 = by_handle s /\
  (r = None -> uids s1 = uids s /\ next_uid s1 = next_uid s) /\
  (forall i, r = Some i -> exists u, mget pair_eqb (uids s1) (kof id) = Some u /\ i = enc_ino u (hid_ino id) /\ 1 <= u) /\
  (forall k u, mget pair_eqb (uids s) k = Some u -> mget pair_eqb (uids s1) k = Some u) /\
  (forall k u, mget pair_eqb (uids s1) k = Some u -> 1 <= u /\ u < next_uid s1) /\
  (1 <= next_uid s1 /\ next_uid s1 <= 255) /\
  (forall k k' u, mget pair_eqb (uids s1) k = Some u -> mget pair_eqb (uids s1) k' = Some u -> k = k').
Proof.
  intros [U1 U0 U2 _] SM. unfold get_unique_inode. fold (kof id).
  apply N.leb_le in SM. rewrite SM.
  destruct (mget pair_eqb (uids s) (kof id)) as [u|] eqn:G.
  - intros E; inversion E; subst; clear E. repeat split; auto; try discriminate; try apply U0.
    + intros i X; inversion X; subst. exists u. destruct (U1 _ _ G). auto.
    + apply (U1 _ _ H).
    + apply (U1 _ _ H).
  - destruct (N.eqb_spec (next_uid s) 255) as [F|F]; intros E; inversion E; subst; clear E.
    + repeat split; auto; try discriminate; try apply U0; apply (U1 _ _ H).
    + destruct U0 as [U0a U0b].
      assert (MOD : (next_uid s + 1) mod 256 = next_uid s + 1) by (apply N.mod_small; lia).
      cbn [data by_id by_handle uids next_uid]. repeat split; auto; try discriminate; try (rewrite MOD; lia).
      * intros i X; inversion X; subst. exists (next_uid s). rewrite pget_set.
        destruct (pair_eqb_spec (kof id) (kof id)); [auto|congruence].
      * intros k u X. rewrite pget_set. destruct (pair_eqb_spec k (kof id)); [congruence|exact X].
      * rewrite pget_set in H. destruct (pair_eqb k (kof id)); [inversion H; subst; lia|apply (U1 _ _ H)].
      * rewrite pget_set in H. rewrite MOD. destruct (pair_eqb k (kof id)); [inversion H; subst; lia|].
        destruct (U1 _ _ H). lia.
      * intros k k' u. rewrite !pget_set.
        destruct (pair_eqb_spec k (kof id)) as [->|N1]; destruct (pair_eqb_spec k' (kof id)) as [->|N2]; auto.
        -- intros X Y; inversion X; subst. destruct (U1 _ _ Y). lia.
        -- intros X Y; inversion Y; subst. destruct (U1 _ _ X). lia.
        -- apply U2.
Qed.

Lemma alloc_hostino c s t i s1 :
  uhi c = true -> HI s -> small_t t -> allocate_inode c s (t_id t) (eff_fh c t) = (Some i, s1) ->
  get_unique_inode s (t_id t) = (Some i, s1).
Proof.
  intros U H SM. unfold allocate_inode. rewrite U. cbn [negb].
  unfold small_t in SM. assert (X : (MAX_HOST_INO <? hid_ino (t_id t)) = false) by (apply N.ltb_ge; exact SM).
  rewrite X. auto.
Qed.

(* the allocated number is not in use *)
Theorem hostino_fresh c s t :
  uhi c = true -> HI s -> KInv c s -> small_t t -> wf_t c t -> no_reuse c s t -> fresh_alloc c s t.
Proof.
  intros U H [A F] SM W NR i s1 GA AL.
  pose proof (alloc_hostino _ _ _ _ _ U H SM AL) as GU.
  destruct (unique_small _ _ _ _ H SM GU) as (_ & _ & _ & _ & SOME & KEEP & _ & _ & INJ).
  destruct (SOME i eq_refl) as (u & G1 & E & U1).
  assert (XS : hid_ino (t_id t) < P47) by (unfold small_t, MAX_HOST_INO, P47 in *; lia).
  destruct (dget s i) as [d|] eqn:L; [exfalso|reflexivity].
  destruct (hN s H _ _ L) as [R|(SMd & u' & G2 & E2)].
  - subst i. apply (enc_not_root u (hid_ino (t_id t)) XS U1). exact R.
  - assert (XD : hid_ino (i_id d) < P47) by (unfold MAX_HOST_INO, P47 in *; lia).
    rewrite E in E2. destruct (enc_inj _ _ _ _ XS XD E2) as [-> EI].
    pose proof (KEEP _ _ G2) as G2'.
    assert (KK : kof (t_id t) = kof (i_id d)) by (exact (INJ _ _ _ G1 G2')).
    assert (ID : i_id d = t_id t) by (apply hid_eta; [symmetry; exact EI|symmetry; exact KK]).
    pose proof (NR _ _ L ID) as FH. pose proof (A _ _ L) as AL2. rewrite ID, FH in AL2.
    unfold get_alt, get_by_handle, get_by_id, get_inode_locked in *.
    destruct (eff_fh c t) as [h|].
    + rewrite AL2, L in GA. discriminate.
    + rewrite AL2, L in GA. cbn in GA. discriminate.
Qed.
