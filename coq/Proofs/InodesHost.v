(* C08, use_host_ino modes: the numbers allocated from host inode numbers
   (unique_id << 47 | ino, ino <= MAX_HOST_INO) are never in use, hence the refinement of
   Proofs/Inodes.v holds in these modes too.  Hypotheses on the host: every inode number of the
   export is at most MAX_HOST_INO (virtual numbers for larger ones are modelled but not covered
   here), and in handle mode the host does not reuse the inode number of a file that is still
   referenced under another file handle. *)
From Coq Require Import List NArith Bool Lia.
From FB Require Import Model.Inodes Proofs.InodesMap Proofs.Inodes Proofs.InodesNum.
Import ListNotations.
Local Open Scope N_scope.

Definition P47 : N := 140737488355328.   (* 2^47 *)

(* ------------------------------------------------------------------ the encoding *)
Lemma testbit_small x n : x < 2 ^ n -> forall m, n <= m -> N.testbit x m = false.
Proof.
  intros B m L. destruct (N.eq_dec x 0) as [->|NZ]; [apply N.bits_0|].
  apply N.bits_above_log2. assert (N.log2 x < n) by (apply N.log2_lt_pow2; lia). lia.
Qed.

Lemma enc_small u x : x < P47 -> enc_ino u x = u * P47 + x.
Proof.
  intros B. unfold enc_ino.
  assert (L0 : N.land (N.shiftl u 47) x = 0).
  { apply N.bits_inj_0. intros n. rewrite N.land_spec.
    destruct (N.lt_ge_cases n 47) as [L|L].
    - rewrite N.shiftl_spec_low by exact L. reflexivity.
    - rewrite (testbit_small x 47) by (try exact L; exact B). apply Bool.andb_false_r. }
  rewrite <- N.lxor_lor by exact L0. rewrite <- N.add_nocarry_lxor by exact L0.
  rewrite N.shiftl_mul_pow2. reflexivity.
Qed.

Lemma enc_inj u x u' x' : x < P47 -> x' < P47 -> enc_ino u x = enc_ino u' x' -> u = u' /\ x = x'.
Proof.
  intros B B' E. rewrite !enc_small in E by assumption. unfold P47 in *.
  assert (u = u') by nia. subst. split; [reflexivity|lia].
Qed.

Lemma enc_not_root u x : x < P47 -> 1 <= u -> enc_ino u x <> ROOT_ID.
Proof. intros B U. rewrite enc_small by exact B. unfold P47, ROOT_ID. nia. Qed.

(* ------------------------------------------------------------------ the (dev, mnt) -> unique id table *)
Lemma pget_set (m : list ((N * N) * N)) k v j :
  mget pair_eqb (mset pair_eqb m k v) j = if pair_eqb j k then Some v else mget pair_eqb m j.
Proof.
  destruct (pair_eqb_spec j k) as [E|E].
  - subst. apply mget_mset_eq. exact pair_eqb_spec.
  - apply mget_mset_neq; [exact pair_eqb_spec|exact E].
Qed.

Definition kof (id : hid) : N * N := (hid_dev id, hid_mnt id).

Record HI (s : istate) : Prop := mkHI {
  hU1 : forall k u, mget pair_eqb (uids s) k = Some u -> 1 <= u /\ u < next_uid s;
  hU0 : 1 <= next_uid s /\ next_uid s <= 255;
  hU2 : forall k k' u, mget pair_eqb (uids s) k = Some u -> mget pair_eqb (uids s) k' = Some u -> k = k';
  (* every live object other than the root is numbered by its host inode number *)
  hN : forall i d, dget s i = Some d -> i = ROOT_ID \/
         (hid_ino (i_id d) <= MAX_HOST_INO /\ exists u, mget pair_eqb (uids s) (kof (i_id d)) = Some u /\ i = enc_ino u (hid_ino (i_id d)))
}.

Definition small_t (t : target) : Prop := hid_ino (t_id t) <= MAX_HOST_INO.

(* handle mode: no live object has the target's host identity under another file handle *)
Definition no_reuse (c : cfg) (s : istate) (t : target) : Prop :=
  forall i d, dget s i = Some d -> i_id d = t_id t -> i_fh d = eff_fh c t.

Lemma hid_eta (a b : hid) : hid_ino a = hid_ino b -> kof a = kof b -> a = b.
Proof. destruct a as [[a1 a2] a3], b as [[b1 b2] b3]. unfold hid_ino, kof, hid_dev, hid_mnt; cbn. intros -> E. inversion E; subst. reflexivity. Qed.

(* get_unique_inode for a small host inode number *)
Lemma unique_small s id r s1 :
  HI s -> hid_ino id <= MAX_HOST_INO -> get_unique_inode s id = (r, s1) ->
  data s1 = data s /\ by_id s1 = by_id s /\ by_handle s1 = by_handle s /\
  (r = None -> uids s1 = uids s /\ next_uid s1 = next_uid s) /\
  (forall i, r = Some i -> exists u, mget pair_eqb (uids s1) (kof id) = Some u /\ i = enc_ino u (hid_ino id) /\ 1 <= u) /\
  (forall k u, mget pair_eqb (uids s) k = Some u -> mget pair_eqb (uids s1) k = Some u) /\
  (forall k u, mget pair_eqb (uids s1) k = Some u -> 1 <= u /\ u < next_uid s1) /\
  (1 <= next_uid s1 /\ next_uid s1 <= 255) /\
  (forall k k' u, mget pair_eqb (uids s1) k = Some u -> mget pair_eqb (uids s1) k' = Some u -> k = k').
Proof.
  intros [U1 U0 U2 _] SM. unfold get_unique_inode. fold (kof id).
  apply N.leb_le in SM. rewrite SM.
  destruct (mget pair_eqb (uids s) (kof id)) as [u|] eqn:G.
  - intros E; inversion E; subst; clear E. repeat split; auto; try discriminate; try apply U0.
    + intros i X; inversion X; subst. exists u. destruct (U1 _ _ G). auto.
    + apply (U1 _ _ H).
    + apply (U1 _ _ H).
  - destruct (N.eqb_spec (next_uid s) 255) as [F|F]; intros E; inversion E; subst; clear E.
    + repeat split; auto; try discriminate; try apply U0; apply (U1 _ _ H).
    + destruct U0 as [U0a U0b].
      assert (MOD : (next_uid s + 1) mod 256 = next_uid s + 1) by (apply N.mod_small; lia).
      cbn [data by_id by_handle uids next_uid]. repeat split; auto; try discriminate; try (rewrite MOD; lia).
      * intros i X; inversion X; subst. exists (next_uid s). rewrite pget_set.
        destruct (pair_eqb_spec (kof id) (kof id)); [auto|congruence].
      * intros k u X. rewrite pget_set. destruct (pair_eqb_spec k (kof id)); [congruence|exact X].
      * rewrite pget_set in H. destruct (pair_eqb k (kof id)); [inversion H; subst; lia|apply (U1 _ _ H)].
      * rewrite pget_set in H. rewrite MOD. destruct (pair_eqb k (kof id)); [inversion H; subst; lia|].
        destruct (U1 _ _ H). lia.
      * intros k k' u. rewrite !pget_set.
        destruct (pair_eqb_spec k (kof id)) as [->|N1]; destruct (pair_eqb_spec k' (kof id)) as [->|N2]; auto.
        -- intros X Y; inversion X; subst. destruct (U1 _ _ Y). lia.
        -- intros X Y; inversion Y; subst. destruct (U1 _ _ X). lia.
        -- apply U2.
Qed.

Lemma alloc_hostino c s t i s1 :
  uhi c = true -> HI s -> small_t t -> allocate_inode c s (t_id t) (eff_fh c t) = (Some i, s1) ->
  get_unique_inode s (t_id t) = (Some i, s1).
Proof.
  intros U H SM. unfold allocate_inode. rewrite U. cbn [negb].
  unfold small_t in SM. assert (X : (MAX_HOST_INO <? hid_ino (t_id t)) = false) by (apply N.ltb_ge; exact SM).
  rewrite X. auto.
Qed.

(* the allocated number is not in use *)
Theorem hostino_fresh c s t :
  uhi c = true -> HI s -> KInv c s -> small_t t -> wf_t c t -> no_reuse c s t -> fresh_alloc c s t.
Proof.
  intros U H [A F] SM W NR i s1 GA AL.
  pose proof (alloc_hostino _ _ _ _ _ U H SM AL) as GU.
  destruct (unique_small _ _ _ _ H SM GU) as (_ & _ & _ & _ & SOME & KEEP & _ & _ & INJ).
  destruct (SOME i eq_refl) as (u & G1 & E & U1).
  assert (XS : hid_ino (t_id t) < P47) by (unfold small_t, MAX_HOST_INO, P47 in *; lia).
  destruct (dget s i) as [d|] eqn:L; [exfalso|reflexivity].
  destruct (hN s H _ _ L) as [R|(SMd & u' & G2 & E2)].
  - subst i. apply (enc_not_root u (hid_ino (t_id t)) XS U1). exact R.
  - assert (XD : hid_ino (i_id d) < P47) by (unfold MAX_HOST_INO, P47 in *; lia).
    rewrite E in E2. destruct (enc_inj _ _ _ _ XS XD E2) as [-> EI].
    pose proof (KEEP _ _ G2) as G2'.
    assert (KK : kof (t_id t) = kof (i_id d)) by (exact (INJ _ _ _ G1 G2')).
    assert (ID : i_id d = t_id t) by (apply hid_eta; [symmetry; exact EI|symmetry; exact KK]).
    pose proof (NR _ _ L ID) as FH. pose proof (A _ _ L) as AL2. rewrite ID, FH in AL2.
    unfold get_alt, get_by_handle, get_by_id, get_inode_locked in *.
    destruct (eff_fh c t) as [h|].
    + rewrite AL2, L in GA. discriminate.
    + rewrite AL2, L in GA. cbn in GA. discriminate.
Qed.

(* ------------------------------------------------------------------ HI is preserved *)
Lemma alloc_hostino_any c s t ro s1 :
  uhi c = true -> small_t t -> allocate_inode c s (t_id t) (eff_fh c t) = (ro, s1) ->
  get_unique_inode s (t_id t) = (ro, s1).
Proof.
  intros U SM. unfold allocate_inode. rewrite U. cbn [negb].
  unfold small_t in SM. assert (X : (MAX_HOST_INO <? hid_ino (t_id t)) = false) by (apply N.ltb_ge; exact SM).
  rewrite X. auto.
Qed.

Lemma HI_of_unique s id r s1 : HI s -> hid_ino id <= MAX_HOST_INO -> get_unique_inode s id = (r, s1) -> HI s1.
Proof.
  intros H SM GU. destruct (unique_small _ _ _ _ H SM GU) as (D & _ & _ & _ & _ & KEEP & U1 & U0 & U2).
  constructor; auto.
  intros i d. unfold dget. rewrite D. intros L. destruct (hN s H _ _ L) as [R|(S1 & u & G & E)]; [left; exact R|].
  right. split; [exact S1|]. exists u. split; [apply KEEP; exact G|exact E].
Qed.

Lemma do_lookup_HI c s t r s' : uhi c = true -> HI s -> small_t t -> do_lookup c s t = (r, s') -> HI s'.
Proof.
  intros U H SM DL. destruct (do_lookup_cases _ _ _ _ _ DL) as
    [(i & d & GA & Z & -> & ->)|[(i & d & GA & Z & -> & ->)|[(i & s1 & GA & AL & B & -> & ->)|(ro & GA & -> & AL)]]].
  - destruct H as [U1 U0 U2 HN]. constructor; auto.
    intros j dj. rewrite dget_set_rc. destruct (N.eqb_spec j i) as [->|NE]; [|apply HN].
    intros X; inversion X; subst; cbn. apply (HN _ _ (get_alt_live _ _ _ _ _ GA)).
  - exact H.
  - pose proof (alloc_hostino_any _ _ _ _ _ U SM AL) as GU.
    pose proof (HI_of_unique _ _ _ _ H SM GU) as H1.
    destruct (unique_small _ _ _ _ H SM GU) as (_ & _ & _ & _ & SOME & _).
    destruct (SOME i eq_refl) as (u & G1 & E & _).
    destruct H1 as [U1 U0 U2 HN]. constructor; auto.
    intros j dj. rewrite dget_insert. destruct (N.eqb_spec j i) as [->|NE]; [|apply HN].
    intros X; inversion X; subst; cbn. right. split; [exact SM|]. exists u. auto.
  - pose proof (alloc_hostino_any _ _ _ _ _ U SM AL) as GU. exact (HI_of_unique _ _ _ _ H SM GU).
Qed.

Lemma forget_HI c s i n : HI s -> HI (forget_one c s i n).
Proof.
  intros H. unfold forget_one. destruct (i =? ROOT_ID); [exact H|].
  destruct (dget s i) as [d|] eqn:L; [|exact H].
  destruct H as [U1 U0 U2 HN].
  destruct (sat_sub (i_rc d) n =? 0).
  - assert (UU : uids (remove s i (negb (uhi c) || (MAX_HOST_INO <? hid_ino (i_id d)))) = uids s /\
                 next_uid (remove s i (negb (uhi c) || (MAX_HOST_INO <? hid_ino (i_id d)))) = next_uid s).
    { unfold remove. rewrite L. destruct (negb (uhi c) || (MAX_HOST_INO <? hid_ino (i_id d))); auto. }
    destruct UU as [UA UB]. constructor; rewrite ?UA, ?UB; auto.
    intros j dj. rewrite dget_remove. destruct (j =? i); [discriminate|apply HN].
  - constructor; auto.
    intros j dj. rewrite dget_set_rc. destruct (N.eqb_spec j i) as [->|NE]; [|apply HN].
    intros X; inversion X; subst; cbn. apply (HN _ _ L).
Qed.

Lemma import_HI s c root : data s = [] -> HI s -> HI (import s c root).
Proof.
  intros D [U1 U0 U2 HN]. constructor; auto.
  intros i d. unfold import. rewrite dget_insert. destruct (N.eqb_spec i ROOT_ID); [auto|].
  unfold dget. rewrite D. discriminate.
Qed.

Lemma no_reuse_nohandle c s t : ifh c = false -> IFh c s -> no_reuse c s t.
Proof.
  intros NI F i d L _. specialize (F _ _ L). unfold okfh, eff_fh in *. rewrite NI in *. cbn in F.
  destruct (i_fh d); [discriminate|reflexivity].
Qed.

(* ------------------------------------------------------------------ requests and histories *)
Definition t_host (c : cfg) (s : istate) (t : target) : Prop := small_t t /\ wf_t c t /\ no_reuse c s t.

Fixpoint ents_host (c : cfg) (plus : bool) (s : istate) (ents : list (target * bool)) : Prop :=
  match ents with
  | [] => True
  | e :: r => t_host c s (fst e) /\ ents_host c plus (snd (readdir_entry c plus s e)) r
  end.

Definition op_host (c : cfg) (s : istate) (o : op) : Prop :=
  match o with
  | OLookup _ (Some t) | OEntry _ (Some t) | OLink _ _ (Some t) | OCreate _ (Some t) _ _ => t_host c s t
  | OReaddir plus ents => ents_host c plus s ents
  | ODestroy root => small_t root /\ wf_t c root
  | _ => True
  end.

Definition HInvs (c : cfg) (s : istate) : Prop := HI s /\ KInv c s.

Lemma lookup_host c s t r s' : uhi c = true -> HInvs c s -> t_host c s t -> do_lookup c s t = (r, s') ->
  fresh_alloc c s t /\ HInvs c s'.
Proof.
  intros U [H K] (SM & W & NR) DL. split; [apply hostino_fresh; assumption|].
  split; [eapply do_lookup_HI; eauto|]. destruct K as [A F]. eapply do_lookup_IA; eauto.
Qed.

Lemma forget_host c s i n : HInvs c s -> HInvs c (forget_one c s i n).
Proof. intros [H [A F]]. split; [apply forget_HI; exact H|apply forget_IA; assumption]. Qed.

Lemma readdir_entries_host c plus : uhi c = true -> forall ents s,
  HInvs c s -> ents_host c plus s ents ->
  ents_fresh c plus s ents /\ HInvs c (snd (readdir_entries c plus s ents)).
Proof.
  intros U. induction ents as [|e r IH]; cbn [ents_host ents_fresh readdir_entries]; intros s HK EH.
  - cbn. auto.
  - destruct EH as [TH EH]. unfold readdir_entry in *.
    destruct (do_lookup c s (fst e)) as [lr s1] eqn:DL.
    destruct (lookup_host _ _ _ _ _ U HK TH DL) as [FR HK1].
    destruct lr as [i| |]; cbn [snd] in *.
    + set (s2 := if plus && snd e then s1 else forget_one c s1 i 1) in *.
      assert (HK2 : HInvs c s2) by (unfold s2; destruct (plus && snd e); [exact HK1|apply forget_host; exact HK1]).
      destruct (IH s2 HK2 EH) as [F2 K2]. split; [split; assumption|].
      destruct (readdir_entries c plus s2 r); exact K2.
    + destruct (IH s1 HK1 EH) as [F2 _]. split; [split; assumption|exact HK1].
    + destruct (IH s1 HK1 EH) as [F2 _]. split; [split; assumption|exact HK1].
Qed.

Theorem step_host c s o : uhi c = true -> HInvs c s -> op_host c s o ->
  op_fresh c s o /\ HInvs c (snd (step c s o)).
Proof.
  intros U HK OH.
  assert (LK : forall t, t_host c s t -> fresh_alloc c s t /\ HInvs c (snd (lookup_reply c s t))).
  { intros t TH. unfold lookup_reply. destruct (do_lookup c s t) as [lr s1] eqn:DL.
    destruct (lookup_host _ _ _ _ _ U HK TH DL). destruct lr; auto. }
  destruct o as [p t|p t|i p t|p t ex ok|i n|l|plus ents| |root]; cbn [step op_fresh op_host] in *.
  - destruct t as [t|]; [|destruct (valid s p); auto]. destruct (LK t OH). destruct (valid s p); auto.
  - destruct t as [t|]; [|destruct (valid s p); auto]. destruct (LK t OH). destruct (valid s p); auto.
  - destruct t as [t|]; [|destruct (valid s i && valid s p); auto]. destruct (LK t OH). destruct (valid s i && valid s p); auto.
  - destruct t as [t|]; [|destruct (valid s p); auto]. destruct (LK t OH) as [FR HK1]. split; [exact FR|].
    destruct (valid s p); [|exact HK]. destruct (lookup_reply c s t) as [rep s1]. cbn [snd] in HK1.
    destruct rep; try exact HK1. destruct ex; [|exact HK1].
    destruct (dget s1 i) as [d|]; [destruct (i_safe d); [destruct ok|]|]; cbn [snd];
      first [exact HK1|apply forget_host; exact HK1].
  - split; [exact I|]. apply forget_host; exact HK.
  - split; [exact I|]. cbn [snd]. clear LK OH. revert s HK. induction l as [|x r IH]; cbn; intros s HK; [exact HK|].
    apply IH. apply forget_host; exact HK.
  - destruct (readdir_entries_host c plus U ents s HK OH) as [A B]. split; [exact A|].
    destruct (readdir_entries c plus s ents); exact B.
  - auto.
  - split; [exact I|]. cbn [snd]. destruct HK as [H K]. destruct OH as [SM W]. split.
    + apply import_HI; [reflexivity|]. destruct H as [U1 U0 U2 HN]. constructor; auto.
      intros i d. unfold dget; cbn. discriminate.
    + apply import_KInv; [reflexivity|exact W].
Qed.

Fixpoint hist_host (c : cfg) (s : istate) (h : list op) : Prop :=
  match h with [] => True | o :: r => op_host c s o /\ hist_host c (snd (step c s o)) r end.

Lemma hist_fresh_hostino c : uhi c = true -> forall h s, HInvs c s -> hist_host c s h -> hist_fresh c s h.
Proof.
  intros U. induction h as [|o h IH]; intros s HK HH; cbn [hist_fresh hist_host] in *; [exact I|].
  destruct HH as [OH HH]. destruct (step_host c s o U HK OH) as [F HK1]. split; [exact F|apply IH; assumption].
Qed.

Lemma fresh_HI c root : HI (fresh c root).
Proof.
  apply import_HI; [reflexivity|]. constructor; cbn; try discriminate; try lia.
Qed.

(* use_host_ino modes: the refinement to the client's ledger, from a fresh server *)
Theorem run_refines_hostino c root h :
  uhi c = true -> wf_t c root -> hist_host c (fresh c root) h -> 2 + total_allocs h < U64MAX ->
  let r := run c (fresh c root) h in
  I1 (snd r) /\ IRoot (snd r) /\ ~ In RSpin (fst r) /\
  forall j, j <> ROOT_ID -> refs_of (snd r) j = spec_run (refs_of (fresh c root)) h (fst r) j.
Proof.
  intros U W HH NW. apply (run_refines c h (fresh c root) 2); auto using fresh_I1, fresh_root, fresh_rb; try lia.
  apply hist_fresh_hostino; [exact U| |exact HH]. split; [apply fresh_HI|apply fresh_KInv; exact W].
Qed.

(* non-vacuity: a use_host_ino history with forget + re-lookup and a failing create *)
Definition hi_cfg : cfg := mkCfg false true.
Definition hi_hist : list op :=
  [OLookup 1 (Some ex_a); OForget 140737488355430 1; OLookup 1 (Some ex_a); OCreate 1 (Some d9_fifo) true false;
   OReaddir true [(ex_a, true); (d9_fifo, false)]].
Lemma hi_hist_ok :
  hist_host hi_cfg (fresh hi_cfg d9_root) hi_hist /\
  fst (run hi_cfg (fresh hi_cfg d9_root) hi_hist) =
    [RIno 140737488355430; RUnit; RIno 140737488355430; RErr EBADF; REnts [(140737488355430, true); (140737488355429, false)]].
Proof.
  split; [|vm_compute; reflexivity].
  assert (NRU : forall s t, IFh hi_cfg s -> no_reuse hi_cfg s t) by (intros; apply no_reuse_nohandle; auto).
  cbn [hist_host hi_hist op_host ents_host].
  repeat match goal with
         | |- _ /\ _ => split
         | |- True => exact I
         | |- t_host _ _ _ => split; [vm_compute; discriminate|split; [reflexivity|]]
         end;
  intros i d L _; vm_compute in L;
  repeat match type of L with
         | (if ?b then _ else _) = _ => destruct b
         | match ?x with _ => _ end = _ => destruct x
         end; try discriminate; inversion L; reflexivity.
Qed.

(* ------------------------------------------------------------------ without the no-reuse hypothesis *)
(* the same side conditions minus [no_reuse]: small host inode numbers, handle kind of the mode *)
Definition t_host0 (c : cfg) (t : target) : Prop := small_t t /\ wf_t c t.
Fixpoint ents_host0 (c : cfg) (ents : list (target * bool)) : Prop :=
  match ents with [] => True | e :: r => t_host0 c (fst e) /\ ents_host0 c r end.
Definition op_host0 (c : cfg) (o : op) : Prop :=
  match o with
  | OLookup _ (Some t) | OEntry _ (Some t) | OLink _ _ (Some t) | OCreate _ (Some t) _ _ => t_host0 c t
  | OReaddir _ ents => ents_host0 c ents
  | ODestroy root => small_t root /\ wf_t c root
  | _ => True
  end.
Definition hist_host0 (c : cfg) (h : list op) : Prop := Forall (op_host0 c) h.

(* without file handles the host identity is (ino, dev, mnt) and the O_PATH descriptor pins the inode:
   [no_reuse] is not a hypothesis but a consequence *)
Lemma ents_host_of_0 c plus : ifh c = false -> uhi c = true -> forall ents s,
  HInvs c s -> ents_host0 c ents -> ents_host c plus s ents.
Proof.
  intros NI U. induction ents as [|e r IH]; cbn [ents_host0 ents_host]; intros s HK E0; [exact I|].
  destruct E0 as [[SM W] E0]. pose proof HK as [H [A F]].
  assert (TH : t_host c s (fst e)) by (split; [exact SM|split; [exact W|apply no_reuse_nohandle; assumption]]).
  split; [exact TH|]. apply IH; [|exact E0].
  unfold readdir_entry. destruct (do_lookup c s (fst e)) as [lr s1] eqn:DL.
  destruct (lookup_host _ _ _ _ _ U HK TH DL) as [_ HK1].
  destruct lr; cbn [snd]; try exact HK1. destruct (plus && snd e); [exact HK1|apply forget_host; exact HK1].
Qed.

Lemma hist_host_of_0 c : ifh c = false -> uhi c = true -> forall h s,
  HInvs c s -> hist_host0 c h -> hist_host c s h.
Proof.
  intros NI U. induction h as [|o h IH]; intros s HK H0; cbn [hist_host]; [exact I|].
  inversion H0 as [|? ? O0 H1]; subst. pose proof HK as [H [A F]].
  assert (OH : op_host c s o).
  { destruct o as [p t|p t|i p t|p t ex ok|i n|l|plus ents| |root]; cbn [op_host op_host0] in *; auto;
      try (destruct t as [t|]; [|exact I]; destruct O0 as [SM W]; split; [exact SM|split; [exact W|apply no_reuse_nohandle; assumption]]).
    apply ents_host_of_0; assumption. }
  split; [exact OH|]. apply IH; [|exact H1]. apply (step_host c s o U HK OH).
Qed.

Theorem run_refines_hostino_nohandle c root h :
  uhi c = true -> ifh c = false -> small_t root -> hist_host0 c h -> 2 + total_allocs h < U64MAX ->
  let r := run c (fresh c root) h in
  I1 (snd r) /\ IRoot (snd r) /\ ~ In RSpin (fst r) /\
  forall j, j <> ROOT_ID -> refs_of (snd r) j = spec_run (refs_of (fresh c root)) h (fst r) j.
Proof.
  intros U NI SM H0 NW.
  assert (W : wf_t c root) by (unfold wf_t, okfh, eff_fh; rewrite NI; reflexivity).
  apply run_refines_hostino; auto.
  apply hist_host_of_0; auto. split; [apply fresh_HI|apply fresh_KInv; exact W].
Qed.

(* with file handles AND use_host_ino the statement without [no_reuse] is false: the number is a function of the
   host inode number, so a new file that got the recycled inode number of an unlinked, still referenced file gets
   the SAME number; do_lookup inserts over the live entry and the old file's references are lost *)
Definition hostino_handles_full : Prop := forall root h,
  let c := mkCfg true true in
  small_t root -> wf_t c root -> hist_host0 c h -> 2 + total_allocs h < U64MAX ->
  forall j, j <> ROOT_ID ->
    refs_of (snd (run c (fresh c root) h)) j = spec_run (refs_of (fresh c root)) h (fst (run c (fresh c root) h)) j.

Definition ru_root : target := mkT (100, 1, 1) (Some 1) true.
Definition ru_old : target := mkT (102, 1, 1) (Some 2) true.     (* the file the client still references *)
Definition ru_new : target := mkT (102, 1, 1) (Some 3) true.     (* same (ino, dev, mnt), another generation *)
Definition ru_hist : list op := [OLookup 1 (Some ru_old); OLookup 1 (Some ru_new)].

Lemma hostino_handles_refuted : ~ hostino_handles_full.
Proof.
  intros H. specialize (H ru_root ru_hist).
  assert (A1 : small_t ru_root) by (vm_compute; discriminate).
  assert (A2 : wf_t (mkCfg true true) ru_root) by reflexivity.
  assert (A3 : hist_host0 (mkCfg true true) ru_hist).
  { repeat constructor; vm_compute; discriminate. }
  assert (A4 : 2 + total_allocs ru_hist < U64MAX) by reflexivity.
  specialize (H A1 A2 A3 A4 140737488355430). vm_compute in H.
  assert (NR : 140737488355430 <> 1) by discriminate. specialize (H NR). discriminate.
Qed.

Lemma ru_witness_shape :
  fst (run (mkCfg true true) (fresh (mkCfg true true) ru_root) ru_hist) = [RIno 140737488355430; RIno 140737488355430] /\
  refs_of (snd (run (mkCfg true true) (fresh (mkCfg true true) ru_root) ru_hist)) 140737488355430 = 1 /\
  (* the same history with the counter numbering: two numbers, one reference each *)
  fst (run (mkCfg true false) (fresh (mkCfg true false) ru_root) ru_hist) = [RIno 2; RIno 3] /\
  refs_of (snd (run (mkCfg true false) (fresh (mkCfg true false) ru_root) ru_hist)) 2 = 1 /\
  refs_of (snd (run (mkCfg true false) (fresh (mkCfg true false) ru_root) ru_hist)) 3 = 1.
Proof. vm_compute. auto. Qed.
