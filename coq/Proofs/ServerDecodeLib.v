(* C02: generic lemmas for the universal decode theorem.
   - fields of an encoded field list read back as their values ([u32_encf], [u64_encf]);
   - the request header of [encode_req q] parses to [qhdr q];
   - [decide] on [encode_req q] reduces to the handler of the opcode ([decide_encode_req]);
   - names: [bytes_to_cstr], [extract_two_cstrs], [get_message_body] on exact tails;
   - what [wf_req q = true] gives ([wf_req_facts]). *)
From Coq Require Import List String NArith Bool Lia Arith ZifyBool ZifyNat ZifyN.
From FB Require Import Lib.Bytes Lib.Layout Spec.KernelABI Model.Server Spec.Requests Spec.WfReq
  Proofs.EncLemmas Proofs.ServerPerform Proofs.ServerDecide.
Import ListNotations.
Local Open Scope list_scope.
Local Open Scope N_scope.

(* ------------------------------------------------------------------ encoded field lists *)
Definition fits (fs : list (nat * N)) : bool := forallb (fun p => fitsN (fst p) (snd p)) fs.

Lemma fget_in fs off w v : fget fs off = Some (w, v) -> In (w, v) fs.
Proof.
  revert off; induction fs as [|[w0 v0] r IH]; intro off; cbn [fget]; [discriminate|].
  destruct (Nat.eqb off 0).
  - intro H; inversion H; subst. left; reflexivity.
  - destruct (Nat.ltb off w0); [discriminate|]. intro H. right. exact (IH _ H).
Qed.

Lemma fits_in fs w v : fits fs = true -> In (w, v) fs -> v < 2 ^ (8 * N.of_nat w).
Proof.
  unfold fits. rewrite forallb_forall. intros H Hin. specialize (H _ Hin).
  unfold fitsN in H. cbn [fst snd] in H. apply N.ltb_lt. exact H.
Qed.

Lemma dec_encf fs off w v rest :
  fits fs = true -> fget fs off = Some (w, v) ->
  dec (firstn w (skipn off (encf fs ++ rest))) = v.
Proof.
  intros Hf Hg. rewrite (fget_ok_0 fs off w v rest Hg).
  apply N.mod_small. exact (fits_in _ _ _ Hf (fget_in _ _ _ _ Hg)).
Qed.

Lemma u32_encf off fs v : fits fs = true -> fget fs off = Some (4%nat, v) -> u32 off (encf fs) = v.
Proof. intros Hf Hg. unfold u32. rewrite <- (app_nil_r (encf fs)). exact (dec_encf _ _ _ _ _ Hf Hg). Qed.

Lemma u64_encf off fs v : fits fs = true -> fget fs off = Some (8%nat, v) -> u64 off (encf fs) = v.
Proof. intros Hf Hg. unfold u64. rewrite <- (app_nil_r (encf fs)). exact (dec_encf _ _ _ _ _ Hf Hg). Qed.

Lemma blen_encf fs : blen (encf fs) = N.of_nat (fwidth fs).
Proof. unfold blen. rewrite encf_length. reflexivity. Qed.

Lemma read_obj_app n (a b : bytes) : List.length a = n -> read_obj n (a ++ b) = Some (a, b).
Proof.
  intro H. unfold read_obj. rewrite app_length.
  destruct (Nat.ltb_spec (List.length a + List.length b) n) as [Hlt|Hge]; [lia|].
  rewrite take_app_exact, drop_app_exact by exact H. reflexivity.
Qed.

Lemma with_obj_app n (a b : bytes) k : List.length a = n -> with_obj n (a ++ b) k = k a b.
Proof. intro H. unfold with_obj. rewrite (read_obj_app n a b H). reflexivity. Qed.

Lemma with_obj_exact n (a : bytes) k : List.length a = n -> with_obj n a k = k a [].
Proof. intro H. rewrite <- (app_nil_r a) at 1. apply with_obj_app. exact H. Qed.

(* ------------------------------------------------------------------ names *)
Lemma find_nul_app a b : nul_free a = true -> find_nul (a ++ 0 :: b) = Some (List.length a).
Proof.
  induction a as [|x a IH]; cbn [nul_free forallb app find_nul List.length]; [reflexivity|].
  intro H. apply andb_prop in H. destruct H as [Hx Ha].
  destruct (x =? 0); [discriminate|]. fold (nul_free a) in Ha. rewrite (IH Ha). reflexivity.
Qed.

Lemma bytes_to_cstr_name a : nul_free a = true -> bytes_to_cstr (a ++ [0]) = Some a.
Proof.
  intro H. unfold bytes_to_cstr. rewrite (find_nul_app a [] H).
  rewrite take_app_exact by reflexivity. reflexivity.
Qed.

Lemma extract_two_names a b :
  nul_free a = true -> nul_free b = true -> extract_two_cstrs (a ++ [0] ++ b ++ [0]) = inr (a, b).
Proof.
  intros Ha Hb. unfold extract_two_cstrs. cbn [app]. rewrite (find_nul_app a (b ++ [0]) Ha).
  replace (skipn (S (List.length a)) (a ++ 0 :: b ++ [0])) with (b ++ [0]).
  2:{ change (a ++ 0 :: b ++ [0]) with (a ++ [0] ++ (b ++ [0])). rewrite app_assoc.
      rewrite drop_app_exact; [reflexivity|]. rewrite app_length. cbn. lia. }
  rewrite (bytes_to_cstr_name b Hb). rewrite take_app_exact by reflexivity.
  destruct b; reflexivity.
Qed.

Lemma get_message_body_exact r hlen sub :
  hlen = IN_HDR + sub + blen r -> get_message_body r hlen sub = inr r.
Proof.
  intros ->. unfold get_message_body.
  destruct (N.ltb_spec (IN_HDR + sub + blen r) (IN_HDR + sub)) as [H|H]; [lia|].
  replace (N.to_nat (IN_HDR + sub + blen r - IN_HDR - sub)) with (List.length r) by (unfold blen; lia).
  rewrite Nat.ltb_irrefl, firstn_all. reflexivity.
Qed.

Lemma with_name_exact a hlen sub k :
  nul_free a = true -> hlen = IN_HDR + sub + blen (a ++ [0]) -> with_name (a ++ [0]) hlen sub k = k a.
Proof.
  intros Ha Hl. unfold with_name. rewrite (get_message_body_exact _ _ _ Hl).
  rewrite (bytes_to_cstr_name a Ha). reflexivity.
Qed.

(* ------------------------------------------------------------------ pairs *)
Lemma pairs_bytes_cons p l : pairs_bytes (p :: l) = (enc 8 (fst p) ++ enc 8 (snd p)) ++ pairs_bytes l.
Proof. reflexivity. Qed.

Lemma pairs_bytes_length l : List.length (pairs_bytes l) = (16 * List.length l)%nat.
Proof.
  induction l as [|p l IH]; [reflexivity|].
  rewrite pairs_bytes_cons, !app_length, !enc_length, IH. cbn [List.length]. lia.
Qed.

Lemma read_pair p l :
  fitsN 8 (fst p) && fitsN 8 (snd p) = true ->
  exists o, read_obj 16 (pairs_bytes (p :: l)) = Some (o, pairs_bytes l) /\ u64 0 o = fst p /\ u64 8 o = snd p.
Proof.
  intro H. apply andb_prop in H. destruct H as [H1 H2].
  exists (enc 8 (fst p) ++ enc 8 (snd p)). split; [|split].
  - rewrite pairs_bytes_cons. apply read_obj_app. rewrite app_length, !enc_length. reflexivity.
  - change (enc 8 (fst p) ++ enc 8 (snd p)) with (encf [(8%nat, fst p); (8%nat, snd p)] ++ []).
    rewrite app_nil_r. apply u64_encf; [|reflexivity].
    cbn [fits forallb fst snd]. rewrite H1, H2. reflexivity.
  - change (enc 8 (fst p) ++ enc 8 (snd p)) with (encf [(8%nat, fst p); (8%nat, snd p)] ++ []).
    rewrite app_nil_r. apply u64_encf; [|reflexivity].
    cbn [fits forallb fst snd]. rewrite H1, H2. reflexivity.
Qed.

(* ------------------------------------------------------------------ the request as header ++ body *)
Definition body (q : wfreq) : bytes := struct_bytes q ++ tail_bytes q.

Definition hdr_fields (q : wfreq) : list (nat * N) :=
  [(4%nat, 40 + blen (body q)); (4%nat, q_op q); (8%nat, q_unique q); (8%nat, q_nodeid q);
   (4%nat, q_uid q); (4%nat, q_gid q); (4%nat, q_pid q); (4%nat, 0)].

Definition qhdr (q : wfreq) : hdr :=
  {| h_len := 40 + blen (body q); h_opcode := q_op q; h_unique := q_unique q; h_nodeid := q_nodeid q;
     h_uid := q_uid q; h_gid := q_gid q; h_pid := q_pid q |}.

Lemma encode_req_split q : encode_req q = encf (hdr_fields q) ++ body q.
Proof.
  unfold encode_req, hdr_fields, encf, body, blen. cbn [flat_map fst snd].
  rewrite <- !app_assoc. reflexivity.
Qed.

Lemma blen_encode_req q : blen (encode_req q) = 40 + blen (body q).
Proof. rewrite encode_req_split, blen_app, blen_encf. reflexivity. Qed.

Lemma parse_hdr_q q : fits (hdr_fields q) = true -> parse_hdr (encf (hdr_fields q)) = qhdr q.
Proof.
  intro Hf. unfold parse_hdr, qhdr.
  rewrite (u32_encf 0 _ _ Hf eq_refl), (u32_encf 4 _ _ Hf eq_refl), (u64_encf 8 _ _ Hf eq_refl),
          (u64_encf 16 _ _ Hf eq_refl), (u32_encf 24 _ _ Hf eq_refl), (u32_encf 28 _ _ Hf eq_refl),
          (u32_encf 32 _ _ Hf eq_refl).
  reflexivity.
Qed.

Lemma u64_8_encode_req q : fits (hdr_fields q) = true -> u64 8 (encode_req q) = q_unique q.
Proof.
  intro Hf. rewrite encode_req_split. unfold u64. apply (dec_encf _ 8%nat 8%nat); [exact Hf|reflexivity].
Qed.

(* [decide] on an encoded request whose header values fit and whose length passes the gate:
   the id-remap call, then the handler of the opcode on the body *)
Lemma decide_encode_req q cfg fr cap du dg f :
  fits (hdr_fields q) = true ->
  40 + blen (body q) <= MAX_BUFFER_SIZE + BUFFER_HEADER_SIZE ->
  q_op q <> 26 ->
  cfg_remap cfg = RemapOk du dg ->
  find_handler (q_op q) handlers = Some f ->
  fst (decide cfg (encode_req q) fr cap) =
    let ctx := ((q_uid q + du) mod 4294967296, (q_gid q + dg) mod 4294967296, q_pid q) in
    (remap_call q :: fst (f cfg (qhdr q) ctx (body q) fr cap), snd (f cfg (qhdr q) ctx (body q) fr cap)).
Proof.
  intros Hf Hlen Hop Hre Hfind. unfold decide.
  rewrite encode_req_split.
  rewrite (read_obj_app 40 (encf (hdr_fields q)) (body q)) by reflexivity.
  rewrite (parse_hdr_q q Hf). cbv zeta. rewrite Hre.
  cbn [h_len h_opcode h_uid h_gid h_pid h_nodeid qhdr].
  destruct (N.ltb_spec (MAX_BUFFER_SIZE + BUFFER_HEADER_SIZE) (40 + blen (body q))) as [H|_]; [lia|].
  destruct (N.eqb_spec (q_op q) 26) as [H|_]; [contradiction|].
  unfold handler. cbn [h_opcode qhdr]. rewrite Hfind.
  destruct (f cfg (qhdr q) _ (body q) fr cap) as [cs a]. reflexivity.
Qed.

(* ------------------------------------------------------------------ struct bytes as a field list *)
Definition qfields_of (q : wfreq) (lay : list (nat * string)) : list (nat * N) :=
  map (fun p => (fst p, fld q (snd p))) lay.
Definition qfields (q : wfreq) : list (nat * N) := qfields_of q (req_layout (q_op q)).

Lemma flat_map_map {A B C} (g : A -> B) (f : B -> list C) l : flat_map f (map g l) = flat_map (fun x => f (g x)) l.
Proof. induction l as [|x l IH]; cbn; [reflexivity|]. rewrite IH. reflexivity. Qed.

Lemma struct_bytes_eq q : struct_bytes q = encf (qfields q).
Proof.
  unfold struct_bytes, qfields, qfields_of, req_layout, req_leaves, encf.
  destruct (req_struct (q_op q)) as [[s pre]|]; [|reflexivity].
  destruct (struct_leaves kernel_structs s) as [ls|]; [|reflexivity].
  rewrite !flat_map_map. cbn [fst snd]. reflexivity.
Qed.

Lemma fields_fit_fits q : fields_fit q = true -> fits (qfields q) = true.
Proof.
  unfold fields_fit, fits, qfields, qfields_of. intro H.
  rewrite forallb_forall in *. intros x Hin. apply in_map_iff in Hin. destruct Hin as [p [<- Hp]].
  cbn [fst snd]. exact (H _ Hp).
Qed.

(* ------------------------------------------------------------------ what wf_req gives *)
Record wf_facts (q : wfreq) : Prop := {
  wf_op : existsb (N.eqb (q_op q)) wf_ops = true;
  wf_hdr : fits (hdr_fields q) = true;
  wf_fld : fits (qfields q) = true;
  wf_n1 : nul_free (q_name1 q) = true;
  wf_n2 : nul_free (q_name2 q) = true;
  wf_pairs : pairs_fit (q_pairs q) = true;
  wf_len : 40 + blen (body q) <= MAX_BUFFER_SIZE + BUFFER_HEADER_SIZE;
  wf_sizes : sizes_ok q = true
}.

Lemma wf_ops_range op : existsb (N.eqb op) wf_ops = true -> op < 50 /\ op <> 26.
Proof.
  intro H. apply existsb_exists in H. destruct H as [x [Hin Hx]]. apply N.eqb_eq in Hx. subst x.
  cbn [wf_ops In] in Hin.
  repeat (destruct Hin as [<-|Hin]; [split; [reflexivity|discriminate]|]). contradiction.
Qed.

Lemma wf_req_facts q : wf_req q = true -> wf_facts q.
Proof.
  unfold wf_req. intro H.
  repeat match type of H with (_ && _) = true => apply andb_prop in H; let H' := fresh "W" in destruct H as [H H'] end.
  assert (Hlen : 40 + blen (body q) <= MAX_BUFFER_SIZE + BUFFER_HEADER_SIZE).
  { rewrite <- blen_encode_req. apply N.leb_le. assumption. }
  constructor; try assumption.
  - (* header *)
    unfold header_fits in *.
    repeat match goal with X : (_ && _) = true |- _ => apply andb_prop in X; let X' := fresh "V" in destruct X as [X X'] end.
    destruct (wf_ops_range _ H) as [Hop _].
    unfold hdr_fields. cbn [fits forallb fst snd].
    repeat match goal with X : fitsN _ _ = true |- _ => rewrite X; clear X end.
    unfold fitsN. change (2 ^ (8 * N.of_nat 4)) with 4294967296.
    unfold MAX_BUFFER_SIZE, BUFFER_HEADER_SIZE in Hlen.
    replace (40 + blen (body q) <? 4294967296) with true by lia.
    replace (q_op q <? 4294967296) with true by lia.
    reflexivity.
  - apply fields_fit_fits. assumption.
Qed.

(* a request's opcode has a handler *)
Lemma wf_ops_have_handlers :
  forallb (fun k => match find_handler k handlers with Some _ => true | None => false end) wf_ops = true.
Proof. vm_compute. reflexivity. Qed.

Lemma wf_op_handler op : existsb (N.eqb op) wf_ops = true -> exists f, find_handler op handlers = Some f.
Proof.
  intro H. apply existsb_exists in H. destruct H as [x [Hin Hx]]. apply N.eqb_eq in Hx. subst x.
  pose proof wf_ops_have_handlers as HA. rewrite forallb_forall in HA. specialize (HA _ Hin).
  destruct (find_handler op handlers) as [f|]; [eexists; reflexivity|discriminate].
Qed.

(* ------------------------------------------------------------------ replies *)
Definition replies (a : action) : bool := match a with NoReply _ => false | _ => true end.

(* the kind of action opcode [k] ends with on a well-formed request: silent exactly when the
   opcode needs no answer, never an error reply with a substitute return value (those are the
   decoding failures), and the ignored-result reply for DESTROY and only for DESTROY *)
Definition action_kind_ok (k : N) (a : action) : bool :=
  match a with
  | NoReply _ => negb (needs_answer k)
  | ReplyErr _ (Some _) => false
  | ReplyOkIgnored _ => k =? 38
  | _ => negb (k =? 38)
  end.

Lemma action_kind_replies k a : needs_answer k = true -> action_kind_ok k a = true -> replies a = true.
Proof. intros Hn H. destruct a; cbn in *; try reflexivity. rewrite Hn in H. discriminate H. Qed.

(* bytes an action needs in the reply buffer *)
Definition action_size (a : action) : N :=
  match a with
  | NoReply _ => 0
  | ReplyOk body | ReplyOkIgnored body => OUT_HDR + blen body
  | ReplyErr _ _ | ReplySplitErr _ => OUT_HDR
  | ReplySplit data => OUT_HDR + blen data
  end.
