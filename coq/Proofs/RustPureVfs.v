(* Proofs/RustPureVfs.v -- the inode codec of Model/Vfs.v IS what src/api/vfs/mod.rs computes: for all arguments in
   range, evaluating the function body translated from the source (Gen/RustPure.v) gives the value of the model's
   definition.  (C07: VfsInode codec, convert_inode; the id remapping of C14 is in Proofs/RustPureIdmap.v.) *)
From Coq Require Import List NArith ZArith String Bool Lia.
From FB Require Import Lib.RustExpr Gen.RustPure Proofs.RustPure Model.Pseudo Model.Vfs.
Import ListNotations.
Local Open Scope N_scope.

Definition u8max := 256.
Definition u64max := 18446744073709551616.

(* VfsInode::new(fs_idx, ino): assert_eq!(ino & !VFS_MAX_INO, 0), then (fs_idx << 56) | ino = the model's [mk_vino]
   behind the same test (Model/Vfs.v get_rootfs) *)
Lemma src_vfs_inode_new : forall idx ino, idx < u8max -> ino < u64max ->
  eval_fn Debug vfs_inode_new_src [VInt U8 idx; VInt U64 ino] =
  if N.land ino (N.lnot VFS_MAX_INO 64) =? 0 then Val (VInt U64 (mk_vino idx ino)) else RustExpr.Panic PAssert.
Proof.
  unfold u8max, u64max. intros idx ino Hi Hn.
  rsolve_with bitnorm.
Qed.

Lemma src_vfs_inode_fs_idx : forall x, x < u64max ->
  eval_fn Debug vfs_inode_fs_idx_src [VInt U64 x] = Val (VInt U8 (fs_idx x)).
Proof. unfold u64max. intros. rsolve. Qed.

Lemma src_vfs_inode_ino : forall x, x < u64max ->
  eval_fn Debug vfs_inode_ino_src [VInt U64 x] = Val (VInt U64 (ino_of x)).
Proof. unfold u64max. intros. rsolve. Qed.

Lemma src_vfs_inode_is_pseudo_fs : forall x, x < u64max ->
  eval_fn Debug vfs_inode_is_pseudo_fs_src [VInt U64 x] = Val (VBool (fs_idx x =? 0)).
Proof. unfold u64max. intros. rsolve. Qed.

(* Vfs::convert_inode(fs_idx, inode) = the model's [convert_inode] *)
Definition conv_result (o : Pseudo.outcome N) : RustExpr.outcome :=
  match o with
  | Ok v => Val (RustExpr.VOk (VInt U64 v))
  | Err _ => Val (RustExpr.VErr (VEnum "io::Error::other"))
  | Pseudo.Panic => RustExpr.Panic POverflow
  end.
Lemma src_vfs_convert_inode : forall idx ino, idx < u8max -> ino < u64max ->
  eval_fn Debug vfs_convert_inode_src [VInt U8 idx; VInt U64 ino] = conv_result (convert_inode idx ino).
Proof.
  unfold u8max, u64max. intros idx ino Hi Hn.
  rsolve_with bitnorm.
Qed.

(* the codec is a bijection on its domain, as a fact about the SOURCE functions: decoding what new() built *)
Lemma src_codec_roundtrip : forall idx ino, idx < u8max -> ino <= VFS_MAX_INO ->
  exists x, eval_fn Debug vfs_inode_new_src [VInt U8 idx; VInt U64 ino] = Val (VInt U64 x) /\
            eval_fn Debug vfs_inode_fs_idx_src [VInt U64 x] = Val (VInt U8 idx) /\
            eval_fn Debug vfs_inode_ino_src [VInt U64 x] = Val (VInt U64 ino).
Proof.
  unfold u8max, VFS_MAX_INO. intros idx ino Hi Hn.
  assert (Hn64 : ino < u64max) by (unfold u64max; lia).
  exists (mk_vino idx ino).
  assert (Hx : mk_vino idx ino < u64max).
  { unfold mk_vino, u64max. change 18446744073709551616 with (2 ^ 64). apply lor_lt_pow2.
    - rewrite N.shiftl_mul_pow2. change (2 ^ 56) with 72057594037927936. change (2 ^ 64) with 18446744073709551616. lia.
    - change (2 ^ 64) with 18446744073709551616. lia. }
  assert (Hlow : N.land ino (N.lnot 72057594037927935 64) = 0).
  { rewrite land_lnot_ldiff by (change (2 ^ 64) with 18446744073709551616; lia).
    change 72057594037927935 with (N.ones 56). rewrite N.ldiff_ones_r.
    rewrite N.shiftr_div_pow2, N.div_small by (change (2 ^ 56) with 72057594037927936; lia). apply N.shiftl_0_l. }
  rewrite src_vfs_inode_new by (assumption || exact Hn64).
  rewrite src_vfs_inode_fs_idx, src_vfs_inode_ino by exact Hx.
  unfold VFS_MAX_INO. rewrite Hlow. cbn [N.eqb]. repeat split.
  - f_equal. f_equal. unfold fs_idx, mk_vino.
    rewrite N.shiftr_lor, N.shiftr_shiftl_l by lia. change (56 - 56) with 0. rewrite N.shiftl_0_r.
    rewrite (N.shiftr_div_pow2 ino), N.div_small by (change (2 ^ 56) with 72057594037927936; lia).
    rewrite N.lor_0_r. apply N.mod_small. lia.
  - f_equal. f_equal. unfold ino_of, mk_vino, VFS_MAX_INO. change 72057594037927935 with (N.ones 56).
    rewrite N.land_lor_distr_l, !N.land_ones.
    rewrite N.shiftl_mul_pow2, N.mod_mul by (change (2 ^ 56) with 72057594037927936; lia).
    rewrite N.lor_0_l. apply N.mod_small. change (2 ^ 56) with 72057594037927936. lia.
Qed.
