(* C04, adapter part: Bytes<usize> for FileVolatileSlice forwards every method to the VolatileSlice
   method of the same name (table regenerated from src/common/file_buf.rs on every run). *)
From Coq Require Import List String Bool NArith.
From FB Require Import Gen.BytesDelegation Model.Transport.
Import ListNotations.
Local Open Scope string_scope.

(* the methods of vm-memory's Bytes trait that the impl block must provide *)
Definition bytes_methods : list string :=
  ["write"; "read"; "write_slice"; "read_slice"; "read_volatile_from"; "read_exact_volatile_from";
   "write_volatile_to"; "write_all_volatile_to"; "store"; "load"].

(* the one known deviation (defect D3) *)
Definition known_pair : string * string := ("read_slice", "write_slice").
Definition pair_eqb (p q : string * string) : bool :=
  String.eqb (fst p) (fst q) && String.eqb (snd p) (snd q).

Definition adapter_full : Prop := forall m d, In (m, d) bytes_delegation -> d = m.

Definition partialb : bool :=
  forallb (fun p => String.eqb (fst p) (snd p) || pair_eqb p known_pair) bytes_delegation.
Definition knownb : bool := existsb (fun p => pair_eqb p known_pair) bytes_delegation.

Lemma pair_eqb_eq p q : pair_eqb p q = true <-> p = q.
Proof.
  destruct p as [a b], q as [c d]; unfold pair_eqb; cbn [fst snd].
  rewrite andb_true_iff, !String.eqb_eq. split.
  - intros [-> ->]; reflexivity.
  - intros H; inversion H; auto.
Qed.

Lemma partialb_true : partialb = true.
Proof. vm_compute. reflexivity. Qed.

Lemma adapter_partial : forall m d, In (m, d) bytes_delegation -> (m, d) <> known_pair -> d = m.
Proof.
  intros m d Hin Hk.
  pose proof partialb_true as H. unfold partialb in H. rewrite forallb_forall in H.
  specialize (H _ Hin). cbn [fst snd] in H. apply orb_true_iff in H. destruct H as [H|H].
  - apply String.eqb_eq in H. congruence.
  - apply pair_eqb_eq in H. contradiction.
Qed.

Lemma adapter_refuted_iff : ~ adapter_full <-> In known_pair bytes_delegation.
Proof.
  split.
  - intro Hn. destruct knownb eqn:E.
    + unfold knownb in E. apply existsb_exists in E. destruct E as [p [Hin Hp]].
      apply pair_eqb_eq in Hp. subst p. exact Hin.
    + exfalso. apply Hn. intros m d Hin. apply adapter_partial; [exact Hin|].
      intro Heq. unfold knownb in E.
      assert (existsb (fun p => pair_eqb p known_pair) bytes_delegation = true) as E'.
      { apply existsb_exists. exists (m, d). split; [exact Hin|]. apply pair_eqb_eq. exact Heq. }
      congruence.
  - intros Hin Hf. specialize (Hf _ _ Hin). discriminate Hf.
Qed.

(* the impl block provides exactly the trait's methods, once each *)
Lemma adapter_methods : map fst bytes_delegation = bytes_methods.
Proof. vm_compute. reflexivity. Qed.

(* a method that forwards to its namesake behaves exactly as the VolatileSlice ("plain view") method *)
Lemma adapter_view : forall method m base size buf addr count,
  delegate bytes_delegation method = Some method ->
  fvs_call bytes_delegation method m base size buf addr count = vs_call method m base size buf addr count.
Proof. intros method m base size buf addr count H. unfold fvs_call. rewrite H. reflexivity. Qed.

Lemma delegate_in : forall t method target, delegate t method = Some target -> In (method, target) t.
Proof.
  induction t as [|[a b] t IH]; intros method target H; cbn [delegate] in H; [discriminate|].
  destruct (String.eqb a method) eqn:E.
  - apply String.eqb_eq in E. inversion H; subst. left; reflexivity.
  - right. apply IH; exact H.
Qed.

(* every method other than the known one is a plain view *)
Lemma adapter_view_all : forall method, In method bytes_methods -> method <> "read_slice" ->
  forall m base size buf addr count,
  fvs_call bytes_delegation method m base size buf addr count = vs_call method m base size buf addr count.
Proof.
  intros method Hin Hne m base size buf addr count.
  destruct (delegate bytes_delegation method) as [target|] eqn:E.
  - pose proof (delegate_in _ _ _ E) as Hd.
    assert (target = method) as ->.
    { apply adapter_partial; [exact Hd|]. intro Heq. inversion Heq. contradiction. }
    apply adapter_view; exact E.
  - exfalso. rewrite <- adapter_methods in Hin.
    clear Hne. revert E Hin. generalize bytes_delegation as t.
    induction t as [|[a b] t IH]; cbn [delegate map fst In]; intros E Hin; [contradiction|].
    destruct (String.eqb a method) eqn:E2; [discriminate|].
    destruct Hin as [->|Hin]; [rewrite String.eqb_refl in E2; discriminate|].
    apply IH; assumption.
Qed.

(* with the fix (commit 88a9593) the translated table is the identity: the full statement *)
Definition fullb : bool := forallb (fun p => String.eqb (fst p) (snd p)) bytes_delegation.
Lemma fullb_true : fullb = true.
Proof. vm_compute. reflexivity. Qed.
Lemma adapter_full_holds : adapter_full.
Proof.
  intros m d Hin. pose proof fullb_true as H. unfold fullb in H. rewrite forallb_forall in H.
  specialize (H _ Hin). cbn [fst snd] in H. apply String.eqb_eq in H. congruence.
Qed.
Lemma adapter_view_every : forall method, In method bytes_methods ->
  forall m base size buf addr count,
  fvs_call bytes_delegation method m base size buf addr count = vs_call method m base size buf addr count.
Proof.
  intros method Hin m base size buf addr count.
  destruct (delegate bytes_delegation method) as [target|] eqn:E.
  - pose proof (delegate_in _ _ _ E) as Hd. rewrite (adapter_full_holds _ _ Hd) in E. apply adapter_view; exact E.
  - exfalso. rewrite <- adapter_methods in Hin.
    revert E Hin. generalize bytes_delegation as t.
    induction t as [|[a b] t IH]; cbn [delegate map fst In]; intros E Hin; [contradiction|].
    destruct (String.eqb a method) eqn:E2; [discriminate|].
    destruct Hin as [->|Hin]; [rewrite String.eqb_refl in E2; discriminate|].
    apply IH; assumption.
Qed.
