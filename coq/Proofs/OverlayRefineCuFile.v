(* Copy-up of a regular file, and content / attribute changes of a file that only lower layers hold
   (open for writing, write, truncate, chmod, setxattr, removexattr): the file is copied up first, then changed.
   The upper copy gets a fresh hard-link identity, so the client's view afterwards equals the ordinary file system's
   tree only up to identities: the statement is on [ser] (which omits them).  Hypotheses (explicit): the lower file
   carries no user xattrs (known finding copy-up-drops-xattrs), its mode is within 07777, the directories copied on the
   way satisfy [cu_disk_ok], the fresh identity is not in use, and the file's identity occurs once in the view
   (copy-up separates the names of a lower file with several links). *)
From Coq Require Import List String Arith NArith Bool Lia.
From FB Require Import Model.Overlay Proofs.OverlayInv Proofs.OverlayScan Proofs.OverlayRestart
  Proofs.OverlayReadOnly Proofs.OverlayCoh Proofs.OverlayCohView Proofs.OverlayCopyUp Proofs.OverlayCohOps
  Proofs.OverlayCohSteps Proofs.OverlayRefineTeq Proofs.OverlayRefineMerge Proofs.OverlayRefineRun Proofs.OverlayRefine
  Proofs.OverlayRefineWh Proofs.OverlayRefineCu.
Import ListNotations.
Local Open Scope N_scope.

(* ------------------------------------------------------------------ identities in trees *)
Lemma tget_ino_in j : forall (q : path) t m d x, tget t q = Some (File j m d x) -> ino_in j t = true.
Proof.
  induction q as [|k q IH]; intros t m d x H; cbn [tget] in H.
  - inversion H; subst. cbn. apply N.eqb_refl.
  - destruct t as [m0 x0 ch| | |]; try discriminate. destruct (afind k ch) as [c|] eqn:E; [|discriminate].
    cbn [ino_in]. apply existsb_exists. exists (k, c). split; [apply afind_In'; exact E|]. cbn [snd]. exact (IH c m d x H).
Qed.
Lemma ino_in_path j t : wf t -> ino_in j t = true -> exists (q : path) m d x, tget t q = Some (File j m d x).
Proof.
  induction t as [m x ch IH|i m d x|tg|] using tree_ind2; intros W H; cbn [ino_in] in H; try discriminate.
  - apply existsb_exists in H. destruct H as ([k c] & Hin & Hc). cbn [snd] in Hc.
    inversion W as [? ? ? Hn Hall| | |]; subst. rewrite Forall_forall in IH, Hall.
    destruct (IH (k, c) Hin (Hall (k, c) Hin) Hc) as (q & m' & d' & x' & Hq).
    exists (k :: q), m', d', x'. cbn [tget]. rewrite (afind_In_nodup k c ch Hn Hin). exact Hq.
  - apply N.eqb_eq in H. subst i. exists [], m, d, x. reflexivity.
Qed.
Lemma mstack_in (q : path) : forall es e, In e (mstack es q) -> exists t, In t es /\ tget t q = Some e.
Proof.
  induction q as [|k q IH]; intros es e H; cbn [mstack] in H; [exists e; auto|].
  destruct (IH _ e H) as (c & Hc & Hq). unfold ents in Hc.
  assert (Hd : exists d, In d (dir_stack es) /\ afind k (dir_children d) = Some c).
  { clear -Hc. induction (dir_stack es) as [|d ds IHd]; cbn [filter_map] in Hc; [destruct Hc|].
    destruct (afind k (dir_children d)) as [c0|] eqn:E.
    - destruct Hc as [->|Hc]; [exists d; split; [left; reflexivity|exact E]|]. destruct (IHd Hc) as (d' & A & B). exists d'. split; [right; exact A|exact B].
    - destruct (IHd Hc) as (d' & A & B). exists d'. split; [right; exact A|exact B]. }
  destruct Hd as (d & Hd & Hk). exists d. split; [apply dir_stack_In; exact Hd|].
  cbn [tget]. destruct d; cbn [dir_children] in Hk; try discriminate. rewrite Hk. exact Hq.
Qed.
(* what the union shows at a path is resolved from the candidates of that path *)
Lemma tget_resolve_gen (q : path) : forall f es r t, Forall wf es -> resolve f es = Some r -> tget r q = Some t ->
  exists f', resolve f' (mstack es q) = Some t.
Proof.
  induction q as [|k q IH]; intros f es r t W Hr Ht; cbn [tget mstack] in *; [inversion Ht; subst; eauto|].
  destruct f as [|f]; [discriminate|]. destruct es as [|e es]; [discriminate|].
  destruct e as [m x ch|i m d x|tg|]; try (cbn [resolve hide_xs] in Hr; inversion Hr; subst; discriminate).
  destruct (resolve_dir_spec f m x ch es W) as (chs & E & N & K). rewrite E in Hr. inversion Hr; subst r.
  destruct (afind k chs) as [c|] eqn:Ec; [|discriminate]. rewrite K in Ec.
  apply (IH f _ c t); auto. apply ents_wf. apply dir_stack_wf. exact W.
Qed.
Lemma resolve_file_head f es j m d x : resolve f es = Some (File j m d x) -> exists x0 rest, es = File j m d x0 :: rest.
Proof.
  destruct f as [|f]; [discriminate|]. destruct es as [|e es]; [discriminate|]. destruct e; cbn; intros H; inversion H; subst; eauto.
Qed.
Lemma merge_file_origin L (q : path) mv j m d x : Forall wf L -> merge L = Some mv -> tget mv q = Some (File j m d x) ->
  exists t x0, In t L /\ tget t q = Some (File j m d x0).
Proof.
  intros W Hm Hq. destruct (tget_resolve_gen q DEPTH L mv _ W Hm Hq) as [f' Hf].
  destruct (resolve_file_head _ _ _ _ _ _ Hf) as (x0 & rest & E).
  destruct (mstack_in q L (File j m d x0)) as (t & Ht & Hg); [rewrite E; left; reflexivity|]. eauto.
Qed.

(* a file identity that occurs at one path only: changing "all files with that identity" changes that path *)
Lemma tmap_ino_unique j g : forall (p : path) t m d x, wf t ->
  (forall (q : path) m' d' x', tget t q = Some (File j m' d' x') -> q = p) -> tget t p = Some (File j m d x) ->
  tmap_ino j g t = tupd p g t.
Proof.
  induction p as [|k p IH]; intros t m d x W Hu Hp; cbn [tget tupd] in *.
  - inversion Hp; subst. cbn. rewrite N.eqb_refl. reflexivity.
  - destruct t as [m0 x0 ch| | |]; try discriminate. destruct (afind k ch) as [c|] eqn:Ek; [|discriminate].
    inversion W as [? ? ? Hn Hall| | |]; subst. cbn [tmap_ino]. f_equal. unfold amap.
    apply map_ext_in. intros [k' c'] Hin. cbn [fst snd].
    assert (Hf : afind k' ch = Some c') by (apply afind_In_nodup; assumption).
    destruct (String.eqb k k') eqn:E.
    + apply String.eqb_eq in E; subst k'. assert (c' = c) by congruence. subst c'. f_equal.
      apply (IH c m d x); auto.
      * exact (Forall_afind (fun v => wf v) k ch c Hall Ek).
      * intros q m' d' x' Hq. assert (H : k :: q = k :: p) by (apply (Hu (k :: q) m' d' x'); cbn [tget]; rewrite Ek; exact Hq). congruence.
    + f_equal. apply tmap_ino_noino. destruct (ino_in j c') eqn:Ei; [|reflexivity]. exfalso.
      destruct (ino_in_path j c' (Forall_afind (fun v => wf v) k' ch c' Hall Hf) Ei) as (q & m' & d' & x' & Hq).
      assert (H : k' :: q = k :: p) by (apply (Hu (k' :: q) m' d' x'); cbn [tget]; rewrite Hf; exact Hq).
      inversion H; subst. rewrite String.eqb_refl in E. discriminate.
Qed.
(* a fresh identity: "all files with that identity" after an update is the update's own file *)
Lemma tmap_ino_tupd_fresh j g (h : tree -> tree) : forall (pp : path) t, ino_in j t = false ->
  tmap_ino j g (tupd pp h t) = tupd pp (fun d => tmap_ino j g (h d)) t.
Proof.
  induction pp as [|k pp IH]; intros t Hf; cbn [tupd]; [reflexivity|].
  destruct t as [m x ch| | |]; try (apply tmap_ino_noino; exact Hf). cbn [tmap_ino ino_in] in *. f_equal.
  unfold amap. rewrite map_map. apply map_ext_in. intros [k' c'] Hin. cbn [fst snd].
  assert (Hc : ino_in j c' = false).
  { destruct (ino_in j c') eqn:E; [|reflexivity]. exfalso. assert (existsb (fun kv => ino_in j (snd kv)) ch = true); [|congruence].
    apply existsb_exists. exists (k', c'). auto. }
  destruct (String.eqb k k'); cbn [fst snd]; f_equal; [apply IH; exact Hc|apply tmap_ino_noino; exact Hc].
Qed.
Lemma tmap_ino_dir_ins_fresh j g (nm : name) F d : ino_in j d = false -> tmap_ino j g (dir_ins nm F d) = dir_ins nm (tmap_ino j g F) d.
Proof.
  intros Hf. destruct d as [m x ch| | |]; cbn [dir_ins]; try (apply tmap_ino_noino; exact Hf).
  cbn [tmap_ino]. f_equal. rewrite (map_aset (tmap_ino j g)). f_equal.
  cbn [ino_in] in Hf. clear -Hf. induction ch as [|[k c] ch IH]; cbn [map existsb] in *; [reflexivity|].
  apply orb_false_iff in Hf. destruct Hf as [H1 H2]. cbn [fst snd] in *. rewrite (tmap_ino_noino j g c H1), (IH H2). reflexivity.
Qed.

(* ------------------------------------------------------------------ serialisations of trees that differ in one entry *)
Definition seqs (a b : tree) : Prop := forall f, ser f a = ser f b.
Definition chrel (l1 l2 : list (string * tree)) : Prop := Forall2 (fun e1 e2 => fst e1 = fst e2 /\ seqs (snd e1) (snd e2)) l1 l2.
Lemma chrel_refl l : chrel l l.
Proof. induction l; constructor; auto. split; [reflexivity|intros f; reflexivity]. Qed.
Lemma sinsert_chrel e1 e2 l1 l2 : fst e1 = fst e2 -> seqs (snd e1) (snd e2) -> chrel l1 l2 -> chrel (sinsert e1 l1) (sinsert e2 l2).
Proof.
  intros Hk Hs H. induction H as [|a b l1 l2 [Hab Hs'] H IH]; cbn [sinsert]; [constructor; [split; assumption|constructor]|].
  unfold name in *. rewrite Hk, Hab. destruct (sleb (fst e2) (fst b)).
  - constructor; [split; assumption|]. constructor; [split; assumption|exact H].
  - constructor; [split; assumption|exact IH].
Qed.
Lemma ssort_chrel l1 l2 : chrel l1 l2 -> chrel (ssort l1) (ssort l2).
Proof.
  intros H. induction H as [|a b l1 l2 [Hab Hs] H IH]; cbn [ssort fold_right]; [constructor|].
  apply sinsert_chrel; assumption.
Qed.
Lemma seqs_dir m x c1 c2 : chrel c1 c2 -> seqs (Dir m x c1) (Dir m x c2).
Proof.
  intros H f. destruct f as [|f]; [reflexivity|]. cbn [ser].
  assert (E : map (fun kv : string * tree => (fst kv ++ "=" ++ ser f (snd kv) ++ ",")%string) (ssort c1) =
              map (fun kv : string * tree => (fst kv ++ "=" ++ ser f (snd kv) ++ ",")%string) (ssort c2)).
  { pose proof (ssort_chrel _ _ H) as Hs. clear H. induction Hs as [|a b l1 l2 [Hab Hv] _ IH]; cbn [map]; [reflexivity|].
    rewrite Hab, (Hv f), IH. reflexivity. }
  rewrite E. reflexivity.
Qed.
Lemma seqs_tupd (pp : path) h1 h2 : (forall c, seqs (h1 c) (h2 c)) -> forall t, seqs (tupd pp h1 t) (tupd pp h2 t).
Proof.
  intros Hh. induction pp as [|k pp IH]; intros t; cbn [tupd]; [apply Hh|].
  destruct t as [m x ch| | |]; try (intros f; reflexivity). apply seqs_dir. unfold amap.
  induction ch as [|[k' c'] ch IHc]; cbn [map]; constructor; [|exact IHc]. cbn [fst snd].
  destruct (String.eqb k k'); cbn [fst snd]; split; try reflexivity; [apply IH|intros f; reflexivity].
Qed.
Lemma seqs_dir_ins (nm : name) a b : seqs a b -> forall d, seqs (dir_ins nm a d) (dir_ins nm b d).
Proof.
  intros Hab d. destruct d as [m x ch| | |]; cbn [dir_ins]; try (intros f; reflexivity). apply seqs_dir.
  induction ch as [|[k' c'] ch IH]; cbn [aset].
  - constructor; [split; [reflexivity|exact Hab]|constructor].
  - destruct (String.eqb nm k'); constructor; try (split; [reflexivity|]); try exact Hab; try (intros f; reflexivity); [apply chrel_refl|exact IH].
Qed.

(* ------------------------------------------------------------------ a leaf put on top of whatever the lower layers hold *)
Lemma leaf_on_top_merge u2 ls (pp : path) (nm : name) m2 x2 ch2 c f mv2 :
  Forall wf (u2 :: ls) -> tget u2 pp = Some (Dir m2 x2 ch2) -> afind nm ch2 = None ->
  plain_leaf c -> is_dirT c = false -> DEPTH = (S (S f) + List.length pp)%nat -> merge (u2 :: ls) = Some mv2 ->
  oteq (merge (tupd pp (dir_ins nm c) u2 :: ls)) (Some (tupd pp (dir_ins nm c) mv2)).
Proof.
  intros W Hpp Hnone Hc Hnd Hd Hm.
  pose proof (wf_tget _ (Forall_inv W) _ _ Hpp) as Wd.
  assert (Hn : NoDup (map fst ch2)) by (inversion Wd; assumption).
  assert (HG : only_at nm (aset nm c) ch2).
  { split; [apply keys_aset; exact Hn|]. split.
    - intros k Hk. rewrite afind_aset. apply String.eqb_neq in Hk. rewrite Hk. reflexivity.
    - intros c0 H0. rewrite afind_aset_same in H0. assert (E : c0 = c) by congruence. rewrite E. apply plain_leaf_wf. exact Hc. }
  pose proof (merge_tupd nm (aset nm c) (S f) pp u2 ls m2 x2 ch2 W Hpp HG Hd) as M. cbv zeta in M.
  rewrite Hm in M. cbn [option_map] in M.
  assert (E : tupd pp (chmap (aset nm c)) u2 = tupd pp (dir_ins nm c) u2) by (apply tupd_ext; intros d; symmetry; apply dir_ins_chmap).
  rewrite E in M. clear E.
  rewrite (dir_stack_head m2 x2 (aset nm c ch2)), ents_cons in M. cbn [dir_children] in M. rewrite afind_aset_same in M.
  assert (Er : forall l, resolve (S f) (c :: l) = Some c).
  { intros l. destruct c as [? ? ?|i mo d xs|tg|]; cbn [plain_leaf is_dirT] in *; try discriminate; try contradiction; [subst xs|]; reflexivity. }
  rewrite Er in M. exact M.
Qed.

(* ------------------------------------------------------------------ the parent chain, then the file *)
Lemma parent_cu_run (pp : path) (nm : name) s u pn n :
  Coherent s -> upper s = Some u -> nget pp (root s) = Some pn -> nget (pp ++ [nm]) (root s) = Some n ->
  (List.length pp < DEPTH)%nat -> cu_ok s pp ->
  exists s', (if in_upper pn then ret tt else create_upper_dir (S (List.length pp)) pp) s = (Ok tt, s') /\ next_ino s' = next_ino s /\
    oteq (merge (all_layers (upper s') (lowers s'))) (merge (u :: lowers s)) /\
    Coherent s' /\ same_paths s s' /\ lowers s' = lowers s /\ cache_frame pp s s' /\ upper_at' pp s'.
Proof.
  intros HC Hu Hgp Hg Hdep Hok. pose proof (coherent_wf_layers s u HC Hu) as W.
  destruct (in_upper pn) eqn:Epu.
  - exists s. split; [reflexivity|]. split; [reflexivity|]. split; [rewrite Hu; apply oteq_merge_refl; exact W|].
    split; [exact HC|]. split; [apply same_paths_refl|]. split; [reflexivity|]. split; [intros q _; reflexivity|].
    intros n' Hn'. rewrite Hgp in Hn'. inversion Hn'; subst. exact Epu.
  - destruct (parent_is_dir s pp nm pn n HC Hgp Hg) as (mdp & xp & chp & Hstp).
    destruct (cud_run (List.length pp) pp s u pn mdp xp chp HC Hu Hgp Hstp) as (s' & E' & I' & U'); auto.
    destruct (cud_coherent _ pp s _ s' HC E') as (A & B & C & D & F).
    exists s'. split; [exact E'|]. split; [exact I'|]. split; [exact U'|]. split; [exact A|]. split; [exact B|]. split; [exact C|]. split; [exact D|].
    apply F. reflexivity.
Qed.

Definition SD (d : bytes) : tree -> tree := set_data (fun _ => d).
Lemma cnu_file_run (pp : path) (nm : name) s u n i m d x :
  Coherent s -> upper s = Some u -> nget (pp ++ [nm]) (root s) = Some n -> node_stat s n = Some (File i m d x) -> in_upper n = false ->
  (List.length pp < DEPTH)%nat -> cu_disk_ok u (lowers s) pp ->
  let nx := next_ino s in
  exists s3 u2 m2 x2 ch2 rest0 n3 ri,
    copy_node_up (pp ++ [nm]) s = (Ok tt, s3) /\ Coherent s3 /\ lowers s3 = lowers s /\
    upper s3 = Some (tmap_ino nx (SD d) (tupd pp (dir_ins nm (File nx (N.land m 4095) [] [])) u2)) /\
    Forall wf (u2 :: lowers s) /\ oteq (merge (u2 :: lowers s)) (merge (u :: lowers s)) /\
    tget u2 pp = Some (Dir m2 x2 ch2) /\ afind nm ch2 = None /\ mstack (u2 :: lowers s) (pp ++ [nm]) = File i m d x :: rest0 /\
    nget (pp ++ [nm]) (root s3) = Some n3 /\ n_reals n3 = [ri] /\ r_upper ri = true /\ r_layer ri = 0%nat /\ r_path ri = pp ++ [nm].
Proof.
  intros HC Hu Hg Hst Eup Hdep Hcu. cbv zeta. set (p := pp ++ [nm]) in *.
  destruct (nget_prefix pp nm (root s) n Hg) as [pn Hgp].
  destruct (parent_cu_run pp nm s u pn n HC Hu Hgp Hg Hdep (cu_ok_of_disk s u pp HC Hu Hcu)) as (s' & E' & I' & U' & HC' & SP & L' & Fr & Up).
  pose proof HC' as ([u' Hu'] & _ & _).
  destruct (same_paths_some s s' pp pn SP Hgp) as (pn' & Hgp' & _).
  pose proof (Up pn' Hgp') as Hpu.
  destruct (node_first_real s' pp pn' HC' Hgp') as (pr & prs & tp & Er & _ & Hstp' & Hpath & Hupr & _).
  assert (Hup : r_upper pr = true) by (unfold in_upper in Hpu; rewrite Er in Hpu; exact Hpu).
  assert (Hl0 : r_layer pr = 0%nat) by (rewrite Hup in Hupr; symmetry in Hupr; apply Nat.eqb_eq in Hupr; exact Hupr).
  assert (Hgn' : nget p (root s') = Some n) by (unfold p; rewrite (Fr (pp ++ [nm]) (not_prefix_snoc pp nm)); exact Hg).
  pose proof (not_upper_no_entry s' u' _ n HC' Hu' Hgn' Eup) as Hnoent.
  destruct (parent_is_dir s' pp nm pn' n HC' Hgp' Hgn') as (m' & x' & ch' & Hstp2).
  pose proof (upper_dir_of_node s' u' pp pn' _ HC' Hu' Hgp' Hpu Hstp2) as Hpp'.
  assert (Hnone : afind nm ch' = None) by (unfold p in Hnoent; rewrite tget_app, Hpp' in Hnoent; exact Hnoent).
  assert (Hst' : node_stat s' n = Some (File i m d x)) by (rewrite (lower_node_stat s s' _ n HC Hg Eup L'); exact Hst).
  destruct (node_stat_mstack s' u' _ n _ HC' Hu' Hgn' Hst') as [rest0 Hms].
  (* the lower backing inode of the file *)
  destruct (node_first_real s p n HC Hg) as (lr & lrs & tl0 & Elr & Etl & Hstl & Hlp & Hlup & _).
  assert (tl0 = File i m d x) by congruence. subst tl0.
  assert (Hlrlow : r_layer lr <> 0%nat).
  { unfold in_upper in Eup. rewrite Elr, Hlup in Eup. apply Nat.eqb_neq in Eup. exact Eup. }
  assert (Hrt : real_tree s lr = Some (File i m d x)) by (rewrite real_tree_ent, Hlp; exact Etl).
  set (nx := next_ino s) in *.
  set (F0 := File nx (N.land m 4095) [] []).
  set (ua := tupd pp (dir_ins nm F0) u').
  set (sa := mkState (Some ua) (lowers s') (root s') (nx + 1) (0%nat :: log s')).
  assert (Ecr : ri_create pr nm (mode_of (File i m d x)) s' = (Ok (mkReal 0 true p false false false), sa)).
  { unfold ri_create, ri_guard. rewrite Hup. unfold bind at 1. cbn [ret]. unfold bind at 1. unfold fresh_ino. unfold bind at 1.
    rewrite Hl0, Hpath. unfold mutate. cbn [get_layer upper]. rewrite Hu'. cbn [next_ino]. rewrite I'. fold nx.
    unfold h_create, h_insert. rewrite Hpp', Hnone. cbn [mode_of]. unfold set_layer. cbn [upper lowers root next_ino log]. rewrite ?Hu'. reflexivity. }
  assert (Hga : tget ua p = Some F0).
  { unfold ua, p. rewrite (tget_app _ pp nm), tget_tupd, Hpp'. cbn [option_map dir_ins]. apply afind_aset_same. }
  set (ub := tmap_ino nx (SD d) ua).
  assert (Esd : mutate 0 (h_setdata p (fun _ => d)) sa = (Ok tt, set_layer sa 0 ub)).
  { apply (mutate0_ok _ sa ua ub); [reflexivity|]. unfold h_setdata. rewrite Hga. reflexivity. }
  assert (Hrun : copy_node_up p s = (Ok tt, mkState (upper (set_layer sa 0 ub)) (lowers (set_layer sa 0 ub))
                   (nupd p (add_upper (mkReal 0 true p false false false) true) (root (set_layer sa 0 ub))) (next_ino (set_layer sa 0 ub)) (log (set_layer sa 0 ub)))).
  { unfold copy_node_up. rewrite (bind_ok _ _ _ _ _ (get_node_ok p s n Hg)), Eup.
    assert (Es : stat_node n s = (Ok (File i m d x), s)) by (unfold stat_node; rewrite Hst; reflexivity).
    rewrite (bind_ok _ _ _ _ _ Es). unfold copy_regfile_up.
    rewrite (bind_ok _ _ _ _ _ (get_node_ok p s n Hg)), Eup. unfold p at 1. rewrite split_last_snoc. fold p.
    rewrite (bind_ok _ _ _ _ _ Es).
    assert (Efr : first_real n s = (Ok lr, s)) by (unfold first_real; rewrite Elr; reflexivity).
    rewrite (bind_ok _ _ _ _ _ Efr), (bind_ok _ _ _ _ _ (get_node_ok pp s pn Hgp)), (bind_ok _ _ _ _ _ E').
    rewrite (bind_ok _ _ _ _ _ (get_node_ok pp s' pn' Hgp')), (bind_ok _ _ _ _ _ (upper_real_ok pn' pr prs EINVAL s' Er Hup)).
    rewrite (bind_ok _ _ _ _ _ Ecr).
    assert (Erd : real_tree sa lr = Some (File i m d x)).
    { rewrite <- Hrt. apply lower_real_tree; [exact Hlrlow|]. cbn [lowers sa]. exact L'. }
    unfold bind at 1. rewrite Erd. cbn [r_layer r_path]. rewrite (bind_ok _ _ _ _ _ Esd). reflexivity. }
  set (s3 := mkState (upper (set_layer sa 0 ub)) (lowers (set_layer sa 0 ub))
                   (nupd p (add_upper (mkReal 0 true p false false false) true) (root (set_layer sa 0 ub))) (next_ino (set_layer sa 0 ub)) (log (set_layer sa 0 ub))) in *.
  assert (Hnw : forall n0, nget p (root s) = Some n0 -> n_wh n0 = false).
  { intros n0 H0. rewrite Hg in H0. inversion H0; subst n0.
    destruct (node_first_real s p n HC Hg) as (r & rs & t & _ & _ & Hst2 & _ & _ & _ & _ & Hw). rewrite Hst in Hst2. inversion Hst2; subst t. exact Hw. }
  destruct (cnu_coherent p s _ s3 HC Hnw Hrun) as (HC3 & _ & L3 & _ & _).
  exists s3, u', m', x', ch', rest0. eexists. exists (mkReal 0 true p false false false).
  split; [exact Hrun|]. split; [exact HC3|]. split; [exact L3|].
  split; [reflexivity|].
  split; [rewrite <- L'; apply (coherent_wf_layers s' u' HC' Hu')|].
  split; [rewrite Hu', L' in U'; exact U'|].
  split; [exact Hpp'|]. split; [exact Hnone|]. split; [rewrite <- L'; exact Hms|].
  split; [cbn [root s3 set_layer sa]; rewrite nget_nupd, Hgn'; reflexivity|].
  cbn [add_upper n_reals]. auto.
Qed.

(* ------------------------------------------------------------------ more tree algebra *)
Lemma amap_ext_at {A} k (f g : A -> A) l y : NoDup (map fst l) -> afind k l = Some y -> f y = g y -> amap k f l = amap k g l.
Proof.
  induction l as [|[a v] l IH]; intros Hn Hk Hf; cbn [afind] in Hk; [discriminate|].
  cbn [map fst] in Hn. inversion Hn as [|? ? Hnot Hn']; subst. unfold amap. cbn [map fst snd]. destruct (String.eqb k a) eqn:E.
  - apply String.eqb_eq in E; subst a. inversion Hk; subst v. rewrite Hf. f_equal.
    change (amap k f l = amap k g l). rewrite !(amap_notin k _ l Hnot). reflexivity.
  - f_equal. apply (IH Hn' Hk Hf).
Qed.
Lemma tupd_ext_at (pp : path) h1 h2 : forall t d, wf t -> tget t pp = Some d -> h1 d = h2 d -> tupd pp h1 t = tupd pp h2 t.
Proof.
  induction pp as [|k pp IH]; intros t d W Hg Hd; cbn [tget tupd] in *; [inversion Hg; subst; exact Hd|].
  destruct t as [m x ch| | |]; try reflexivity. destruct (afind k ch) as [y|] eqn:Ek; [|discriminate].
  inversion W as [? ? ? Hn Hall| | |]; subst. f_equal. apply (amap_ext_at k _ _ ch y Hn Ek).
  apply (IH y d); auto. exact (Forall_afind (fun v => wf v) k ch y Hall Ek).
Qed.
Lemma amap_as_aset {A} k (g : A -> A) l c : NoDup (map fst l) -> afind k l = Some c -> amap k g l = aset k (g c) l.
Proof.
  induction l as [|[a v] l IH]; intros Hn Hk; cbn [afind] in Hk; [discriminate|].
  cbn [map fst] in Hn. inversion Hn as [|? ? Hnot Hn']; subst. unfold amap. cbn [map aset fst snd]. destruct (String.eqb k a) eqn:E.
  - apply String.eqb_eq in E; subst a. inversion Hk; subst v. f_equal. apply (amap_notin k g l Hnot).
  - f_equal. apply (IH Hn' Hk).
Qed.
Lemma tupd_snoc_ins (pp : path) (nm : name) g t m x ch c : wf t -> tget t pp = Some (Dir m x ch) -> afind nm ch = Some c ->
  tupd (pp ++ [nm]) g t = tupd pp (dir_ins nm (g c)) t.
Proof.
  intros W Hpp Hnm. rewrite tupd_snoc. apply (tupd_ext_at pp _ _ t _ W Hpp). cbn [chmap dir_ins]. f_equal.
  pose proof (wf_tget _ W _ _ Hpp) as Wd. inversion Wd; subst. apply amap_as_aset; assumption.
Qed.
Lemma ino_in_teq j a b : teq a b -> ino_in j a = ino_in j b.
Proof.
  assert (H : forall a b, teq a b -> ino_in j a = true -> ino_in j b = true).
  { intros a0 b0 T Ha. destruct (teq_wf _ _ T) as [Wa Wb]. destruct (ino_in_path j a0 Wa Ha) as (q & m & d & x & Hq).
    pose proof (teq_tget q _ _ T) as Tq. rewrite Hq in Tq. destruct (tget b0 q) as [tb|] eqn:Eb; [|contradiction].
    cbn in Tq. rewrite <- (teq_nondir _ _ Tq eq_refl) in Eb. exact (tget_ino_in j q b0 m d x Eb). }
  intros T. destruct (ino_in j a) eqn:Ea, (ino_in j b) eqn:Eb; try reflexivity.
  - rewrite (H a b T Ea) in Eb. discriminate.
  - rewrite (H b a (teq_sym _ _ T) Eb) in Ea. discriminate.
Qed.

(* [ino_off j p t]: some file with identity [j] lies off the path [p] *)
Fixpoint ino_off (j : N) (p : option path) (t : tree) : bool :=
  match t with
  | Dir _ _ ch =>
      existsb (fun kv => ino_off j (match p with
                                    | Some (k :: r) => if String.eqb k (fst kv) then Some r else None
                                    | _ => None
                                    end) (snd kv)) ch
  | File j' _ _ _ => (j =? j') && negb (match p with Some [] => true | _ => false end)
  | _ => false
  end.
Lemma ino_off_none j t : ino_off j None t = ino_in j t.
Proof.
  induction t as [m x ch IH|i m d x|tg|] using tree_ind2; cbn [ino_off ino_in]; try reflexivity.
  - induction IH as [|[k c] l Hc _ IHl]; cbn [existsb fst snd]; [reflexivity|]. cbn [snd] in Hc. rewrite Hc, IHl. reflexivity.
  - rewrite andb_true_r. reflexivity.
Qed.
Lemma ino_off_unique j : forall t (p q : path) m d x, wf t -> ino_off j (Some p) t = false -> tget t q = Some (File j m d x) -> q = p.
Proof.
  induction t as [m0 x0 ch IH|i m0 d0 x0|tg|] using tree_ind2; intros p q m d x W Hoff Hq.
  - destruct q as [|k q]; [discriminate|]. cbn [tget] in Hq. destruct (afind k ch) as [c|] eqn:Ek; [|discriminate].
    inversion W as [? ? ? Hn Hall| | |]; subst. pose proof (afind_In' _ _ _ Ek) as Hin.
    cbn [ino_off] in Hoff. rewrite Forall_forall in IH, Hall.
    assert (Hex : forall F, existsb (fun kv : string * tree => ino_off j (F kv) (snd kv)) ch = false -> ino_off j (F (k, c)) c = false).
    { intros F HF. destruct (ino_off j (F (k, c)) c) eqn:E; [|reflexivity]. exfalso.
      assert (existsb (fun kv : string * tree => ino_off j (F kv) (snd kv)) ch = true); [|congruence].
      apply existsb_exists. exists (k, c). split; [exact Hin|exact E]. }
    destruct p as [|k0 r].
    + pose proof (Hex (fun _ => None) Hoff) as Hc. cbv beta in Hc. rewrite ino_off_none in Hc. rewrite (tget_ino_in j q c m d x Hq) in Hc. discriminate.
    + pose proof (Hex (fun kv => if String.eqb k0 (fst kv) then Some r else None) Hoff) as Hc. cbv beta in Hc. cbn [fst] in Hc.
      destruct (String.eqb k0 k) eqn:E.
      * apply String.eqb_eq in E; subst k0. f_equal. exact (IH (k, c) Hin r q m d x (Hall (k, c) Hin) Hc Hq).
      * rewrite ino_off_none in Hc. rewrite (tget_ino_in j q c m d x Hq) in Hc. discriminate.
  - destruct q; [|discriminate]. cbn [tget] in Hq. inversion Hq; subst. cbn [ino_off] in Hoff. rewrite N.eqb_refl in Hoff. cbn [andb] in Hoff.
    destruct p as [|k r]; [reflexivity|discriminate].
  - destruct q; discriminate.
  - destruct q; discriminate.
Qed.

Lemma attr_eff_ino_indep o j j' m d x p og r : attr_eff o j m d x = Some (p, og, r) -> attr_eff o j' m d x = Some (p, og, r).
Proof. destruct o; cbn [attr_eff]; try discriminate; auto. Qed.
Lemma attr_g_seqs o i m d x p g r : attr_eff o i m d x = Some (p, Some g, r) ->
  forall j j' m0 d0 x0, seqs (g (File j m0 d0 x0)) (g (File j' m0 d0 x0)).
Proof.
  intros H j j' m0 d0 x0 f. destruct o; cbn [attr_eff] in H; try discriminate.
  - destruct (of_trunc fl); inversion H; subst; destruct f; reflexivity.
  - inversion H; subst; destruct f; reflexivity.
  - inversion H; subst; destruct f; reflexivity.
  - inversion H; subst; destruct f; reflexivity.
  - destruct (is_opq_name k); [discriminate|]. inversion H; subst; destruct f; reflexivity.
  - destruct (is_opq_name k); [discriminate|]. destruct (afind k x); inversion H; subst; destruct f; reflexivity.
Qed.

(* ------------------------------------------------------------------ the operations on a file that only lower layers hold *)
Definition U3 (nx : N) (m : N) (d : bytes) (pp : path) (nm : name) (u2 : tree) : tree :=
  tmap_ino nx (SD d) (tupd pp (dir_ins nm (File nx m [] [])) u2).
Lemma tget_U3 nx m d (pp : path) (nm : name) u2 m2 x2 ch2 : tget u2 pp = Some (Dir m2 x2 ch2) ->
  tget (U3 nx m d pp nm u2) (pp ++ [nm]) = Some (File nx m d []).
Proof.
  intros Hpp. unfold U3. apply (tget_tmap_file nx (SD d) _ (pp ++ [nm]) m [] []).
  rewrite (tget_app _ pp nm), tget_tupd, Hpp. cbn [option_map dir_ins]. apply afind_aset_same.
Qed.

Theorem step_attr_cu_run o (pp : path) (nm : name) og r s u i m d x rest :
  let p := pp ++ [nm] in let nx := next_ino s in
  attr_eff o nx m d [] = Some (p, og, r) -> match o with OOpen _ fl => of_readonly fl = false | _ => True end ->
  Coherent s -> upper s = Some u -> visp (u :: lowers s) [] p -> mstack (u :: lowers s) p = File i m d x :: rest -> tget u p = None ->
  N.land m 4095 = m -> (List.length pp < DEPTH)%nat -> cu_disk_ok u (lowers s) pp ->
  exists s' u2 m2 x2 ch2 rest0, step o s = (r, s') /\ lowers s' = lowers s /\
    upper s' = Some (match og with Some g => tmap_ino nx g (U3 nx m d pp nm u2) | None => U3 nx m d pp nm u2 end) /\
    Forall wf (u2 :: lowers s) /\ oteq (merge (u2 :: lowers s)) (merge (u :: lowers s)) /\
    tget u2 pp = Some (Dir m2 x2 ch2) /\ afind nm ch2 = None /\ mstack (u2 :: lowers s) p = File i m d x :: rest0.
Proof.
  intros p nx Ho Hro HC Hu Hvis Hms Hnoup Hmode Hdep Hcu.
  destruct (walk_vis_run u p [] s (root s) HC Hu eq_refl Hvis) as (s1 & n1 & E1 & HC1 & (U1 & L1 & I1) & Hg1). cbn [app] in Hg1.
  assert (Hu1 : upper s1 = Some u) by congruence. unfold walk in *.
  (* lookup_node p None *)
  assert (Hst1 : node_stat s1 n1 = Some (File i m d x)) by (apply (node_stat_head s1 u p n1 _ rest HC1 Hu1 Hg1); rewrite L1; exact Hms).
  destruct (node_first_real s1 p n1 HC1 Hg1) as (r1 & rs1 & t1 & _ & _ & Hst1' & _ & _ & _ & _ & Hw1). rewrite Hst1 in Hst1'. inversion Hst1'; subst t1. cbn in Hw1.
  destruct (lookup_run p s1 n1 HC1 Hg1 Hw1) as (s2 & n2 & HC2 & (U2 & L2 & I2) & Hg2 & Hw2 & Hr2 & _ & Hlk).
  assert (Hu2 : upper s2 = Some u) by congruence.
  assert (Hst2 : node_stat s2 n2 = Some (File i m d x)) by (apply (node_stat_head s2 u p n2 _ rest HC2 Hu2 Hg2); rewrite L2, L1; exact Hms).
  assert (Hin2 : in_upper n2 = false).
  { destruct (in_upper n2) eqn:E; [|reflexivity]. rewrite (upper_dir_of_node s2 u p n2 _ HC2 Hu2 Hg2 E Hst2) in Hnoup. discriminate. }
  (* copy-up *)
  assert (Hnx : next_ino s2 = nx) by (unfold nx; congruence).
  destruct (cnu_file_run pp nm s2 u n2 i m d x HC2 Hu2 Hg2 Hst2 Hin2 Hdep) as (s3 & u2 & m2 & x2 & ch2 & rest0 & n3 & ri & Ecu & HC3 & L3 & U3' & W2 & M2 & Hpp2 & Hnone2 & Hms2 & Hg3 & Er3 & Hup3 & Hl03 & Hpath3);
    [rewrite L2, L1; exact Hcu|].
  rewrite Hnx, Hmode in U3'. fold (U3 nx m d pp nm u2) in U3'. set (u3 := U3 nx m d pp nm u2) in *.
  rewrite L2, L1 in W2, M2, Hms2.
  pose proof (tget_U3 nx m d pp nm u2 m2 x2 ch2 Hpp2) as Hp3. fold p u3 in Hp3.
  pose proof (first_tree_run p s3 u3 n3 ri [] _ U3' Hg3 Er3 Hl03 Hpath3 Hp3) as Eft.
  assert (Enc : node_checked p s1 = (Ok tt, s2)).
  { unfold node_checked. rewrite (bind_ok _ _ _ _ _ (Hlk None)), (bind_ok _ _ _ _ _ (get_node_ok p s2 n2 Hg2)), Hw2. reflexivity. }
  assert (Eens : (n <- get_node p;; (if in_upper n then ret tt else copy_node_up p)) s2 = (Ok tt, s3)).
  { rewrite (bind_ok _ _ _ _ _ (get_node_ok p s2 n2 Hg2)), Hin2. exact Ecu. }
  assert (Hmut : forall F u4, F u3 = Ok u4 -> mutate (r_layer (fst (ri, File nx m d []))) F s3 = (Ok tt, set_layer s3 0 u4)).
  { intros F u4 HF. cbn [fst]. rewrite Hl03. apply (mutate0_ok F s3 u3 u4 U3' HF). }
  assert (Hl3 : lowers s3 = lowers s) by congruence.
  assert (Hfin : forall u4, upper (set_layer s3 0 u4) = Some u4 /\ lowers (set_layer s3 0 u4) = lowers s).
  { intros u4. cbn [upper lowers set_layer]. rewrite U3'. auto. }
  (* do_open on the lower file *)
  assert (Hopen : forall fl, of_readonly fl = false ->
     exists s', do_open p fl s1 = (Ok ri, s') /\
       upper s' = Some (if of_trunc fl then tmap_ino nx (set_data (fun _ => [])) u3 else u3) /\ lowers s' = lowers s).
  { intros fl Hf. unfold do_open. rewrite (bind_ok _ _ _ _ _ (Hlk None)), (bind_ok _ _ _ _ _ (get_node_ok p s2 n2 Hg2)), Hw2, Hf.
    rewrite (bind_ok _ _ _ _ _ Ecu), (bind_ok _ _ _ _ _ (get_node_ok p s3 n3 Hg3)).
    unfold first_real. rewrite Er3. unfold bind at 1. cbn [ret]. unfold bind at 1. unfold real_tree. rewrite Hl03, Hpath3. fold p. cbn [get_layer]. rewrite U3', Hp3.
    destruct (of_trunc fl).
    - rewrite (bind_ok _ _ _ _ _ (mutate0_ok (h_setdata p (fun _ => [])) s3 u3 (tmap_ino nx (set_data (fun _ => [])) u3) U3' ltac:(unfold h_setdata; rewrite Hp3; reflexivity))).
      cbn [ret]. eexists. split; [reflexivity|]. apply Hfin.
    - cbn [ret bind]. exists s3. auto. }
  assert (Hmain : exists s', step o s = (r, s') /\ lowers s' = lowers s /\
            upper s' = Some (match og with Some g => tmap_ino nx g u3 | None => u3 end)).
  { destruct o; cbn [attr_eff] in Ho; try discriminate; cbn [step].
    - (* open *) inversion Ho; subst p0 og r; clear Ho. destruct (Hopen fl Hro) as (s' & E & U' & L').
      exists s'. rewrite (bind_ok _ _ _ _ _ E1), (bind_ok _ _ _ _ _ E). split; [reflexivity|]. split; [exact L'|].
      destruct (of_trunc fl); exact U'.
    - (* write *) inversion Ho; subst p0 og r; clear Ho. destruct (Hopen OF_W eq_refl) as (s' & E & U' & L'). cbn in U'.
      eexists. rewrite (bind_ok _ _ _ _ _ E1), (bind_ok _ _ _ _ _ E), Hl03, Hpath3. fold p.
      rewrite (bind_ok _ _ _ _ _ (mutate0_ok (h_setdata p (write_at (N.to_nat off) data)) s' u3 _ U' ltac:(unfold h_setdata; rewrite Hp3; reflexivity))).
      split; [reflexivity|]. cbn [upper lowers set_layer]. rewrite U'. split; [exact L'|reflexivity].
    - (* chmod *) inversion Ho; subst p0 og r; clear Ho.
      set (u4 := tmap_ino nx (set_mode mode) u3).
      assert (HF : h_chmod p mode u3 = Ok u4) by (unfold h_chmod, h_update; rewrite Hp3; reflexivity).
      eexists. rewrite (bind_ok _ _ _ _ _ E1), (bind_ok _ _ _ _ _ (need_upper_ok s1 u Hu1)), (bind_ok _ _ _ _ _ (Hlk None)).
      rewrite (bind_ok _ _ _ _ _ (get_node_ok p s2 n2 Hg2)), Hin2, (bind_ok _ _ _ _ _ Ecu), (bind_ok _ _ _ _ _ Eft). cbn [fst]. rewrite Hpath3. fold p. rewrite (bind_ok _ _ _ _ _ (Hmut _ u4 HF)).
      assert (Eft4 : first_tree p (set_layer s3 0 u4) = (Ok (ri, set_mode mode (File nx m d [])), set_layer s3 0 u4)).
      { apply (first_tree_run p _ u4 n3 ri []); auto; [apply (proj1 (Hfin u4))|apply tget_tmap_file; exact Hp3]. }
      rewrite (bind_ok _ _ _ _ _ Eft4). cbn [ret snd]. split; [reflexivity|]. destruct (Hfin u4) as [A B]. split; [exact B|exact A].
    - (* truncate *) inversion Ho; subst p0 og r; clear Ho.
      set (u4 := tmap_ino nx (set_data (resize (N.to_nat size))) u3).
      assert (HF : h_setdata p (resize (N.to_nat size)) u3 = Ok u4) by (unfold h_setdata; rewrite Hp3; reflexivity).
      eexists. rewrite (bind_ok _ _ _ _ _ E1), (bind_ok _ _ _ _ _ (need_upper_ok s1 u Hu1)), (bind_ok _ _ _ _ _ (Hlk None)).
      rewrite (bind_ok _ _ _ _ _ (get_node_ok p s2 n2 Hg2)), Hin2, (bind_ok _ _ _ _ _ Ecu), (bind_ok _ _ _ _ _ Eft). cbn [fst]. rewrite Hpath3. fold p. rewrite (bind_ok _ _ _ _ _ (Hmut _ u4 HF)).
      assert (Eft4 : first_tree p (set_layer s3 0 u4) = (Ok (ri, set_data (resize (N.to_nat size)) (File nx m d [])), set_layer s3 0 u4)).
      { apply (first_tree_run p _ u4 n3 ri []); auto; [apply (proj1 (Hfin u4))|apply tget_tmap_file; exact Hp3]. }
      rewrite (bind_ok _ _ _ _ _ Eft4). cbn [ret snd set_data size_of]. rewrite length_resize, N2Nat.id.
      split; [reflexivity|]. destruct (Hfin u4) as [A B]. split; [exact B|exact A].
    - (* setxattr *) destruct (is_opq_name k) eqn:Ek; [discriminate|]. inversion Ho; subst p0 og r; clear Ho.
      set (u4 := tmap_ino nx (set_xs k v) u3).
      assert (HF : h_setxattr p k v u3 = Ok u4) by (unfold h_setxattr, h_update; rewrite Hp3; reflexivity).
      eexists. rewrite (bind_ok _ _ _ _ _ E1), (bind_ok _ _ _ _ _ Enc), (bind_ok _ _ _ _ _ (get_node_ok p s2 n2 Hg2)), Hin2, (bind_ok _ _ _ _ _ Ecu), (bind_ok _ _ _ _ _ Eft).
      cbn [fst]. rewrite Hpath3. fold p. rewrite (bind_ok _ _ _ _ _ (Hmut _ u4 HF)). cbn [ret].
      split; [reflexivity|]. destruct (Hfin u4) as [A B]. split; [exact B|exact A].
    - (* removexattr: the copy has no xattrs *) destruct (is_opq_name k) eqn:Ek; [discriminate|]. cbn [afind] in Ho. inversion Ho; subst p0 og r; clear Ho.
      assert (HF : h_removexattr p k u3 = Err ENODATA) by (unfold h_removexattr; rewrite Hp3; reflexivity).
      exists s3. rewrite (bind_ok _ _ _ _ _ E1), (bind_ok _ _ _ _ _ Enc), (bind_ok _ _ _ _ _ (get_node_ok p s2 n2 Hg2)), Hin2, (bind_ok _ _ _ _ _ Ecu), (bind_ok _ _ _ _ _ Eft).
      cbn [fst]. rewrite Hpath3, Hl03. fold p.
      assert (Em : mutate 0 (h_removexattr p k) s3 = (Err ENODATA, s3)) by (unfold mutate; cbn [get_layer]; rewrite U3', HF; reflexivity).
      rewrite (bind_err _ _ _ _ _ Em). split; [reflexivity|]. split; [exact Hl3|exact U3']. }
  destruct Hmain as (s' & E & L' & U').
  exists s', u2, m2, x2, ch2, rest0. split; [exact E|]. split; [exact L'|]. split; [exact U'|]. auto 10.
Qed.

(* ------------------------------------------------------------------ refinement, up to file identities *)
Lemma ino_in_tget j : forall (q : path) t c, ino_in j t = false -> tget t q = Some c -> ino_in j c = false.
Proof.
  induction q as [|k q IH]; intros t c Hf Hq; cbn [tget] in Hq; [inversion Hq; subst; exact Hf|].
  destruct t as [m x ch| | |]; try discriminate. destruct (afind k ch) as [y|] eqn:Ek; [|discriminate].
  apply (IH y c); [|exact Hq]. destruct (ino_in j y) eqn:E; [|reflexivity]. exfalso. cbn [ino_in] in Hf.
  assert (existsb (fun kv => ino_in j (snd kv)) ch = true); [|congruence]. apply existsb_exists. exists (k, y). split; [apply afind_In'; exact Ek|exact E].
Qed.
Lemma tmap_ino_ins_fresh j g (pp : path) (nm : name) F t m x ch : wf t -> ino_in j t = false -> tget t pp = Some (Dir m x ch) ->
  tmap_ino j g (tupd pp (dir_ins nm F) t) = tupd pp (dir_ins nm (tmap_ino j g F)) t.
Proof.
  intros W Hf Hpp. rewrite (tmap_ino_tupd_fresh j g (dir_ins nm F) pp t Hf).
  apply (tupd_ext_at pp _ _ t _ W Hpp). apply tmap_ino_dir_ins_fresh. exact (ino_in_tget j pp t _ Hf Hpp).
Qed.
Lemma seqs_file j j' m d x : seqs (File j m d x) (File j' m d x).
Proof. intros f. destruct f; reflexivity. Qed.

Theorem refines_attr_cu s o (pp : path) (nm : name) og r u i m d x rest v :
  let p := pp ++ [nm] in let nx := next_ino s in
  Coherent s -> attr_eff o nx m d [] = Some (p, og, r) -> match o with OOpen _ fl => of_readonly fl = false | _ => True end ->
  upper s = Some u -> visp (u :: lowers s) [] p -> mstack (u :: lowers s) p = File i m d x :: rest -> tget u p = None ->
  user_xs x = [] -> N.land m 4095 = m -> (List.length p < DEPTH)%nat -> cu_disk_ok u (lowers s) pp ->
  forallb (fun l => negb (ino_in nx l)) (lowers s) = true ->
  view (load_all s) = Some v -> ino_in nx v = false -> ino_off i (Some p) v = false ->
  let spec := fs_apply o (mkFs v (next_ino s)) in
  res_same (fst (step o s)) (fst spec) /\ ser_opt (view (load_all (run_op o s))) = ser SER (f_tree (snd spec)) /\
  lowers (run_op o s) = lowers s.
Proof.
  intros p nx HC Ho Hro Hu Hvis Hms Hnoup Hx Hmode Hlen Hcu Hfresh Hv Hnxv Huniq.
  assert (Hdep : (List.length pp < DEPTH)%nat) by (unfold p in Hlen; rewrite app_length in Hlen; cbn in Hlen; lia).
  destruct (step_attr_cu_run o pp nm og r s u i m d x rest Ho Hro HC Hu Hvis Hms Hnoup Hmode Hdep Hcu)
    as (s' & u2 & m2 & x2 & ch2 & rest0 & Hrun & Hl' & Hu' & W2 & M2 & Hpp2 & Hnone2 & Hms2).
  fold p nx in Hrun, Hu', Hms2. cbv zeta. unfold run_op. rewrite Hrun. cbn [fst snd].
  assert (Hd : exists f, DEPTH = (S (S f) + List.length pp)%nat).
  { unfold p in Hlen. rewrite app_length in Hlen. cbn [List.length] in Hlen. exists (DEPTH - 2 - List.length pp)%nat. lia. }
  destruct Hd as [f Hd].
  assert (Hco : coh_op o = true) by (apply (attr_eff_coh _ _ _ _ _ _ _ _ Ho)).
  assert (HC' : Coherent s') by (pose proof (coherent_step o s Hco HC) as H; unfold run_op in H; rewrite Hrun in H; exact H).
  (* the three unions *)
  pose proof (coherent_view_union s HC) as A. rewrite Hv, Hu in A. cbn [all_layers] in A.
  destruct (merge (u :: lowers s)) as [mv|] eqn:Em; [|contradiction]. cbn [oteq] in A.
  destruct (merge (u2 :: lowers s)) as [mv2|] eqn:Em2; cbn [oteq] in M2; [|exfalso; exact M2].
  assert (T2v : teq mv2 v) by (apply (teq_trans _ mv); assumption).
  destruct (teq_wf _ _ T2v) as [Wmv2 Wv].
  assert (Hnx2 : ino_in nx mv2 = false) by (rewrite (ino_in_teq nx mv2 v T2v); exact Hnxv).
  (* what the union shows at pp and p *)
  destruct (mstack_head pp u2 (lowers s) _ Hpp2) as [r2 Hr2].
  destruct (tget_merge (S f) pp u2 (lowers s) _ W2 Hpp2 eq_refl Hd) as (mv2' & Hm2' & Ht2). rewrite Em2 in Hm2'. assert (mv2' = mv2) by congruence. subst mv2'. clear Hm2'.
  rewrite Hr2 in Ht2. assert (Wr : Forall wf (Dir m2 x2 ch2 :: r2)) by (rewrite <- Hr2; apply mstack_wf; exact W2).
  destruct (resolve_dir_spec (S f) m2 x2 ch2 r2 Wr) as (chs & Er & N & K). rewrite Er in Ht2.
  set (Fi := File i m d []). set (F0 := File nx m [] []). set (F1 := File nx m d []).
  assert (Hnm2 : afind nm chs = Some Fi).
  { rewrite K. pose proof Hms2 as H. unfold p in H. rewrite mstack_snoc, Hr2 in H. rewrite H. cbn [resolve hide_xs]. rewrite Hx. reflexivity. }
  assert (Hp2 : tget mv2 p = Some Fi) by (unfold p; rewrite tget_app, Ht2; exact Hnm2).
  (* the union of the final layers *)
  set (T0 := tupd pp (dir_ins nm F0) u2) in *.
  assert (Hu3 : U3 nx m d pp nm u2 = tmap_ino nx (SD d) T0) by reflexivity. rewrite Hu3 in Hu'.
  pose proof (leaf_on_top_merge u2 (lowers s) pp nm m2 x2 ch2 F0 f mv2 W2 Hpp2 Hnone2 eq_refl eq_refl Hd Em2) as E0.
  fold T0 in E0. destruct (merge (T0 :: lowers s)) as [X0|] eqn:EX0; cbn [oteq] in E0; [|exfalso; exact E0].
  assert (E3 : merge (tmap_ino nx (SD d) T0 :: lowers s) = Some (tmap_ino nx (SD d) X0)).
  { rewrite (merge_tmap_ino nx (SD d) T0 (lowers s) (hide_comm_set_data _) Hfresh), EX0. reflexivity. }
  assert (Y1 : teq (tmap_ino nx (SD d) X0) (tupd pp (dir_ins nm F1) mv2)).
  { apply (teq_trans _ (tmap_ino nx (SD d) (tupd pp (dir_ins nm F0) mv2))); [apply respects_tmap_ino; [apply file_leaf_set_data|exact E0]|].
    rewrite (tmap_ino_ins_fresh nx (SD d) pp nm F0 mv2 _ _ _ Wmv2 Hnx2 Ht2). unfold F0, F1, SD. cbn [tmap_ino set_data]. rewrite N.eqb_refl.
    apply teq_refl. apply (wf_tupd_at pp _ mv2 _ Wmv2 Ht2). cbn [dir_ins]. pose proof (wf_tget _ Wmv2 _ _ Ht2) as Wd. inversion Wd; subst.
    constructor; [apply keys_aset; assumption|apply Forall_aset; [assumption|constructor]]. }
  (* the ordinary file system on mv2 *)
  pose proof (fs_apply_attr o i m d [] p og r mv2 (next_ino s) (attr_eff_ino_indep o nx i m d [] p og r Ho) Hp2) as Hfs.
  assert (Huq : forall (q : path) m' d' x', tget mv2 q = Some (File i m' d' x') -> q = p).
  { intros q m' d' x' Hq. pose proof (teq_tget q _ _ T2v) as Tq. rewrite Hq in Tq. destruct (tget v q) as [tv|] eqn:Ev; [|contradiction].
    cbn in Tq. rewrite <- (teq_nondir _ _ Tq eq_refl) in Ev. exact (ino_off_unique i v p q m' d' x' Wv Huniq Ev). }
  destruct (fs_apply_teq o mv2 v (next_ino s) T2v) as (R2 & TT & _). rewrite Hfs in R2, TT. cbn [fst snd f_tree] in R2, TT.
  split; [exact R2|]. split; [|exact Hl'].
  pose proof (coherent_view_union s' HC') as B. rewrite Hu', Hl' in B. cbn [all_layers] in B.
  rewrite <- (oteq_ser _ _ B). rewrite <- (teq_ser SER _ _ TT).
  destruct og as [g|].
  - assert (E4 : merge (tmap_ino nx g (tmap_ino nx (SD d) T0) :: lowers s) = Some (tmap_ino nx g (tmap_ino nx (SD d) X0))).
    { rewrite (merge_tmap_ino nx g _ (lowers s) (attr_eff_hide_comm _ _ _ _ _ _ _ _ Ho) Hfresh), E3. reflexivity. }
    rewrite E4. cbn [ser_opt].
    assert (Z1 : teq (tmap_ino nx g (tmap_ino nx (SD d) X0)) (tupd pp (dir_ins nm (g F1)) mv2)).
    { apply (teq_trans _ (tmap_ino nx g (tupd pp (dir_ins nm F1) mv2))).
      - apply respects_tmap_ino; [|exact Y1]. intros j m0 d0 x0. destruct (attr_eff_hide_comm _ _ _ _ _ _ _ _ Ho j m0 d0 x0) as (m' & d' & x' & -> & _). reflexivity.
      - rewrite (tmap_ino_ins_fresh nx g pp nm F1 mv2 _ _ _ Wmv2 Hnx2 Ht2). unfold F1. cbn [tmap_ino]. rewrite N.eqb_refl.
        apply teq_refl. apply (wf_tupd_at pp _ mv2 _ Wmv2 Ht2). cbn [dir_ins]. pose proof (wf_tget _ Wmv2 _ _ Ht2) as Wd. inversion Wd; subst.
        constructor; [apply keys_aset; assumption|apply Forall_aset; [assumption|]]. cbn [snd].
        destruct (attr_eff_hide_comm _ _ _ _ _ _ _ _ Ho nx m d []) as (m' & d' & x' & -> & _). constructor. }
    rewrite (teq_ser SER _ _ Z1).
    rewrite (tmap_ino_unique i g p mv2 m d [] Wmv2 Huq Hp2). unfold p. rewrite (tupd_snoc_ins pp nm g mv2 _ _ chs Fi Wmv2 Ht2 Hnm2).
    apply (seqs_tupd pp). intros c. apply seqs_dir_ins. apply (attr_g_seqs o nx m d [] p g r Ho).
  - rewrite E3. cbn [ser_opt]. rewrite (teq_ser SER _ _ Y1).
    rewrite <- (tupd_fix pp (dir_ins nm Fi) mv2 _ Wmv2 Ht2) at 2; [|cbn [dir_ins]; rewrite (aset_same_val nm Fi chs Hnm2); reflexivity].
    apply (seqs_tupd pp). intros c. apply seqs_dir_ins. apply seqs_file.
Qed.

(* ------------------------------------------------------------------ boolean side conditions *)
Definition attr_target (o : op) : option path :=
  match o with
  | OOpen p fl => if of_readonly fl then None else Some p
  | OWrite p _ _ | OTruncate p _ | OChmod p _ => Some p
  | OSetxattr p k _ | ORemovexattr p k => if is_opq_name k then None else Some p
  | _ => None
  end.
(* [direct_cu_file s o]: open for writing / write / truncate / chmod / setxattr / removexattr (name not an opaque marker) of a
   visible path whose first candidate is a regular file of a LOWER layer (the upper layer has no entry there), without user
   xattrs and with a mode within 07777; the directories on the way that must be copied satisfy [cu_okb]; no lower layer uses the
   identity the upper copy will get *)
Definition direct_cu_file (s : state) (o : op) : bool :=
  match upper s, attr_target o with
  | Some u, Some p =>
      let L := u :: lowers s in
      match split_last p with
      | Some (pp, nm) =>
          (List.length p <? DEPTH)%nat && visb L [] p && match tget u p with None => true | Some _ => false end &&
          match mstack L p with
          | File _ m _ x :: _ => match user_xs x with [] => true | _ => false end && (N.land m 4095 =? m)
          | _ => false
          end && cu_okb u (lowers s) pp && forallb (fun l => negb (ino_in (next_ino s) l)) (lowers s)
      | None => false
      end
  | _, _ => false
  end.
(* on the view: the identity the copy will get is not shown, and the file's own identity is shown at its path only *)
Definition ids_ok (s : state) (o : op) (v : tree) : bool :=
  match upper s, attr_target o with
  | Some u, Some p =>
      match mstack (u :: lowers s) p with
      | File i _ _ _ :: _ => negb (ino_in (next_ino s) v) && negb (ino_off i (Some p) v)
      | _ => false
      end
  | _, _ => false
  end.
Lemma attr_target_eff o p nx m d : attr_target o = Some p ->
  exists og r, attr_eff o nx m d [] = Some (p, og, r) /\ match o with OOpen _ fl => of_readonly fl = false | _ => True end.
Proof.
  destruct o; cbn [attr_target attr_eff]; try discriminate.
  - destruct (of_readonly fl) eqn:E; [discriminate|]. intros H; inversion H; subst. eauto.
  - intros H; inversion H; subst. eauto.
  - intros H; inversion H; subst. eauto.
  - intros H; inversion H; subst. eauto.
  - destruct (is_opq_name k); [discriminate|]. intros H; inversion H; subst. eauto.
  - destruct (is_opq_name k); [discriminate|]. intros H; inversion H; subst. cbn [afind]. eauto.
Qed.

Theorem op_refines_copyup_file s o v : Coherent s -> direct_cu_file s o = true -> view (load_all s) = Some v -> ids_ok s o v = true ->
  let spec := fs_apply o (mkFs v (next_ino s)) in
  res_same (fst (step o s)) (fst spec) /\ ser_opt (view (load_all (run_op o s))) = ser SER (f_tree (snd spec)) /\
  lowers (run_op o s) = lowers s.
Proof.
  intros HC Hd Hv Hi. unfold direct_cu_file in Hd. unfold ids_ok in Hi.
  destruct (upper s) as [u|] eqn:Hu; [|discriminate]. destruct (attr_target o) as [p|] eqn:Ht; [|discriminate]. cbv zeta in Hd.
  destruct (split_last p) as [[pp nm]|] eqn:Esp; [|discriminate]. apply split_last_spec in Esp. subst p.
  apply andb_prop in Hd. destruct Hd as [Hd H6]. apply andb_prop in Hd. destruct Hd as [Hd H5]. apply andb_prop in Hd. destruct Hd as [Hd H4].
  apply andb_prop in Hd. destruct Hd as [Hd H3]. apply andb_prop in Hd. destruct Hd as [H1 H2]. apply Nat.ltb_lt in H1.
  destruct (tget u (pp ++ [nm])) eqn:Hnoup; [discriminate|].
  destruct (mstack (u :: lowers s) (pp ++ [nm])) as [|[|i m d x| |] rest] eqn:Hms; try discriminate.
  apply andb_prop in H4. destruct H4 as [Hx Hm]. apply N.eqb_eq in Hm. assert (Hx' : user_xs x = []) by (destruct (user_xs x); [reflexivity|discriminate]).
  apply andb_prop in Hi. destruct Hi as [I1 I2]. apply negb_true_iff in I1. apply negb_true_iff in I2.
  destruct (attr_target_eff o _ (next_ino s) m d Ht) as (og & r & Ho & Hro).
  exact (refines_attr_cu s o pp nm og r u i m d x rest v HC Ho Hro Hu (visb_visp _ _ _ H2) Hms Hnoup Hx' Hm H1 (cu_okb_ok _ _ _ H5) H6 Hv I1 I2).
Qed.
