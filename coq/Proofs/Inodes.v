(* C08: the inode table refines the client's ledger of lookup references. *)
From Coq Require Import List NArith Bool Lia.
From FB Require Import Model.Inodes Proofs.InodesMap.
Import ListNotations.
Local Open Scope N_scope.

Ltac dmatch :=
  repeat match goal with
         | |- context[match ?x with _ => _ end] => destruct x eqn:?
         | H : context[match ?x with _ => _ end] |- _ => destruct x eqn:?
         end.

(* ------------------------------------------------------------------ basic invariants *)
(* every inode object in the table has a positive count *)
Definition I1 (s : istate) : Prop := forall i d, dget s i = Some d -> 0 < i_rc d.
(* the root is in the table *)
Definition IRoot (s : istate) : Prop := exists d, dget s ROOT_ID = Some d.

(* the number do_lookup is about to insert under is not in use *)
Definition fresh_alloc (c : cfg) (s : istate) (t : target) : Prop :=
  forall i s1, get_alt s (t_id t) (eff_fh c t) = None ->
               allocate_inode c s (t_id t) (eff_fh c t) = (Some i, s1) -> dget s i = None.

Lemma unique_frame s id r s1 : get_unique_inode s id = (r, s1) ->
  data s1 = data s /\ by_id s1 = by_id s /\ by_handle s1 = by_handle s /\ next_inode s1 = next_inode s.
Proof.
  unfold get_unique_inode. intros H. dmatch; inversion H; subst; cbn;
    repeat match goal with E : (_, _) = (_, _) |- _ => inversion E; subst; clear E end; cbn; auto.
Qed.

Lemma alloc_frame c s id fh r s1 : allocate_inode c s id fh = (r, s1) ->
  data s1 = data s /\ by_id s1 = by_id s /\ by_handle s1 = by_handle s.
Proof.
  unfold allocate_inode. intros H.
  destruct (negb (uhi c)).
  - destruct (get_inode_locked s id fh); inversion H; subst; cbn; auto.
  - destruct (MAX_HOST_INO <? hid_ino id).
    + destruct (get_inode_locked s id fh); [inversion H; subst; auto|].
      apply unique_frame in H. tauto.
    + apply unique_frame in H. tauto.
Qed.

Lemma dget_frame s s1 j : data s1 = data s -> dget s1 j = dget s j.
Proof. unfold dget. intros ->. reflexivity. Qed.

Lemma refs_of_frame s s1 j : data s1 = data s -> refs_of s1 j = refs_of s j.
Proof. unfold refs_of. intros H. rewrite (dget_frame _ _ _ H). reflexivity. Qed.

Lemma get_alt_live s id fh i d : get_alt s id fh = Some (i, d) -> dget s i = Some d.
Proof.
  unfold get_alt. intros H.
  assert (BH : forall h r, get_by_handle s h = Some r -> dget s (fst r) = Some (snd r)).
  { unfold get_by_handle. intros h r. destruct (mget N.eqb (by_handle s) h) as [i0|]; [|discriminate].
    destruct (dget s i0) eqn:E; [|discriminate]. intros X; inversion X; subst; exact E. }
  assert (BI : forall r, get_by_id s id = Some r -> dget s (fst r) = Some (snd r)).
  { unfold get_by_id. intros r. destruct (mget hid_eqb (by_id s) id) as [i0|]; [|discriminate].
    destruct (dget s i0) eqn:E; [|discriminate]. intros X; inversion X; subst; exact E. }
  destruct fh as [h|].
  - destruct (get_by_handle s h) as [r|] eqn:G.
    + inversion H; subst. apply (BH _ _ G).
    + destruct (get_by_id s id) as [[i0 d0]|] eqn:G2; [|discriminate].
      destruct (is_none (Some h) || is_none (i_fh d0)); [|discriminate].
      inversion H; subst. apply (BI _ eq_refl).
  - destruct (get_by_id s id) as [[i0 d0]|] eqn:G2; [|discriminate].
    cbn in H. inversion H; subst. apply (BI _ eq_refl).
Qed.

(* ------------------------------------------------------------------ the four ways do_lookup can go *)
Definition new_idata (c : cfg) (t : target) : idata := mkI 1 (t_id t) (eff_fh c t) (t_safe t).

Lemma do_lookup_cases c s t r s' : do_lookup c s t = (r, s') ->
  (exists i d, get_alt s (t_id t) (eff_fh c t) = Some (i, d) /\ i_rc d <> 0 /\ r = LOk i /\
               s' = set_rc s i d (sat_add (i_rc d) 1)) \/
  (exists i d, get_alt s (t_id t) (eff_fh c t) = Some (i, d) /\ i_rc d = 0 /\ r = LSpin /\ s' = s) \/
  (exists i s1, get_alt s (t_id t) (eff_fh c t) = None /\
                allocate_inode c s (t_id t) (eff_fh c t) = (Some i, s1) /\ i <= VFS_MAX_INO /\
                r = LOk i /\ s' = insert s1 i (new_idata c t)) \/
  (exists ro, get_alt s (t_id t) (eff_fh c t) = None /\ r = LErr /\
              allocate_inode c s (t_id t) (eff_fh c t) = (ro, s')).
Proof.
  unfold do_lookup.
  destruct (get_alt s (t_id t) (eff_fh c t)) as [[i d]|] eqn:GA.
  - destruct (N.eqb_spec (i_rc d) 0) as [Z|Z]; intros E; inversion E; subst; clear E.
    + right; left. eauto 8.
    + left. eauto 8.
  - destruct (allocate_inode c s (t_id t) (eff_fh c t)) as [[i|] s1] eqn:AL.
    + destruct (N.ltb_spec VFS_MAX_INO i) as [L|L]; intros E; inversion E; subst; clear E.
      * right; right; right. eauto.
      * right; right; left. exists i, s1. unfold new_idata. auto 8.
    + intros E; inversion E; subst; clear E. right; right; right. eauto.
Qed.

(* ------------------------------------------------------------------ do_lookup / forget_one against the ledger *)
Lemma do_lookup_refs c s t r s' :
  I1 s -> fresh_alloc c s t -> do_lookup c s t = (r, s') ->
  match r with
  | LOk i => forall j, refs_of s' j = upd (refs_of s) i (sat_add (refs_of s i) 1) j
  | LErr => forall j, refs_of s' j = refs_of s j
  | LSpin => False
  end.
Proof.
  intros H1 HF. unfold do_lookup.
  destruct (get_alt s (t_id t) (eff_fh c t)) as [[i d]|] eqn:GA.
  - pose proof (get_alt_live _ _ _ _ _ GA) as L. specialize (H1 _ _ L).
    destruct (N.eqb_spec (i_rc d) 0) as [Z|Z]; [lia|].
    intros E; inversion E; subst; clear E. intros j. unfold refs_of, upd.
    rewrite dget_set_rc. rewrite L. destruct (j =? i); reflexivity.
  - destruct (allocate_inode c s (t_id t) (eff_fh c t)) as [[i|] s1] eqn:AL.
    + destruct (alloc_frame _ _ _ _ _ _ AL) as (D & _ & _).
      destruct (VFS_MAX_INO <? i).
      * intros E; inversion E; subst. intros j. apply refs_of_frame; exact D.
      * intros E; inversion E; subst; clear E. intros j. unfold refs_of, upd.
        rewrite dget_insert. rewrite (dget_frame _ _ _ D).
        rewrite (HF _ _ GA AL). destruct (j =? i); reflexivity.
    + destruct (alloc_frame _ _ _ _ _ _ AL) as (D & _ & _).
      intros E; inversion E; subst. intros j. apply refs_of_frame; exact D.
Qed.

Lemma forget_refs c s i n j : refs_of (forget_one c s i n) j = spec_forget (refs_of s) i n j.
Proof.
  unfold forget_one, spec_forget. destruct (i =? ROOT_ID); [reflexivity|].
  unfold upd, refs_of at 1. destruct (dget s i) as [d|] eqn:L.
  - unfold sat_sub. destruct (N.eqb_spec (i_rc d - n) 0) as [Z|Z].
    + rewrite dget_remove. destruct (N.eqb_spec j i) as [E|E]; [|reflexivity].
      unfold refs_of. rewrite L. lia.
    + rewrite dget_set_rc. destruct (N.eqb_spec j i) as [E|E]; [|reflexivity].
      cbn. unfold refs_of. rewrite L. lia.
  - destruct (N.eqb_spec j i) as [E|E]; [|reflexivity]. subst.
    unfold refs_of. rewrite L. reflexivity.
Qed.

(* ------------------------------------------------------------------ I1 / IRoot are preserved *)
Lemma do_lookup_I1 c s t r s' : I1 s -> do_lookup c s t = (r, s') -> I1 s'.
Proof.
  intros H1 H. destruct (do_lookup_cases _ _ _ _ _ H) as
    [(i & d & GA & Z & -> & ->)|[(i & d & GA & Z & -> & ->)|[(i & s1 & GA & AL & B & -> & ->)|(ro & GA & -> & AL)]]].
  - intros j dj. rewrite dget_set_rc. destruct (j =? i); [|apply H1].
    intros X; inversion X; subst; cbn. unfold sat_add, U64MAX.
    pose proof (H1 _ _ (get_alt_live _ _ _ _ _ GA)). lia.
  - exact H1.
  - destruct (alloc_frame _ _ _ _ _ _ AL) as (D & _).
    intros j dj. rewrite dget_insert, (dget_frame _ _ _ D). destruct (j =? i); [|apply H1].
    intros X; inversion X; subst; cbn. lia.
  - destruct (alloc_frame _ _ _ _ _ _ AL) as (D & _).
    intros j dj. rewrite (dget_frame _ _ _ D). apply H1.
Qed.

Lemma forget_I1 c s i n : I1 s -> I1 (forget_one c s i n).
Proof.
  intros H1. unfold forget_one. destruct (i =? ROOT_ID); [exact H1|].
  destruct (dget s i) as [d|] eqn:L; [|exact H1].
  destruct (N.eqb_spec (sat_sub (i_rc d) n) 0) as [Z|Z].
  - intros j dj. rewrite dget_remove. destruct (j =? i); [discriminate|apply H1].
  - intros j dj. rewrite dget_set_rc. destruct (j =? i); [|apply H1].
    intros X; inversion X; subst; cbn. lia.
Qed.

Lemma do_lookup_root c s t r s' : IRoot s -> do_lookup c s t = (r, s') -> IRoot s'.
Proof.
  intros [d0 R] H. unfold IRoot. destruct (do_lookup_cases _ _ _ _ _ H) as
    [(i & d & GA & Z & -> & ->)|[(i & d & GA & Z & -> & ->)|[(i & s1 & GA & AL & B & -> & ->)|(ro & GA & -> & AL)]]].
  - rewrite dget_set_rc. destruct (ROOT_ID =? i); eauto.
  - eauto.
  - destruct (alloc_frame _ _ _ _ _ _ AL) as (D & _).
    rewrite dget_insert, (dget_frame _ _ _ D). destruct (ROOT_ID =? i); eauto.
  - destruct (alloc_frame _ _ _ _ _ _ AL) as (D & _). rewrite (dget_frame _ _ _ D). eauto.
Qed.

Lemma forget_root c s i n : IRoot s -> IRoot (forget_one c s i n).
Proof.
  intros [d0 R]. unfold forget_one, IRoot. destruct (N.eqb_spec i ROOT_ID) as [E|E]; [eauto|].
  destruct (dget s i) as [d|] eqn:L; [|eauto].
  destruct (sat_sub (i_rc d) n =? 0).
  - rewrite dget_remove. destruct (N.eqb_spec ROOT_ID i); [congruence|eauto].
  - rewrite dget_set_rc. destruct (N.eqb_spec ROOT_ID i); [congruence|eauto].
Qed.

(* ------------------------------------------------------------------ side condition: every inner allocation is fresh *)
Fixpoint ents_fresh (c : cfg) (plus : bool) (s : istate) (ents : list (target * bool)) : Prop :=
  match ents with
  | [] => True
  | e :: r => fresh_alloc c s (fst e) /\ ents_fresh c plus (snd (readdir_entry c plus s e)) r
  end.

Definition op_fresh (c : cfg) (s : istate) (o : op) : Prop :=
  match o with
  | OLookup _ (Some t) | OEntry _ (Some t) | OLink _ _ (Some t) | OCreate _ (Some t) _ _ => fresh_alloc c s t
  | OReaddir plus ents => ents_fresh c plus s ents
  | _ => True
  end.

(* ------------------------------------------------------------------ pointwise congruence of the ledger operations *)
Lemma upd_ext f g i v j : (forall k, f k = g k) -> upd f i v j = upd g i v j.
Proof. intros E. unfold upd. destruct (j =? i); auto. Qed.
Lemma spec_give_ext f g i j : (forall k, f k = g k) -> spec_give f i j = spec_give g i j.
Proof. intros E. unfold spec_give, upd. rewrite (E i). destruct (j =? i); auto. Qed.
Lemma spec_forget_ext f g i n j : (forall k, f k = g k) -> spec_forget f i n j = spec_forget g i n j.
Proof. intros E. unfold spec_forget, upd. destruct (i =? ROOT_ID); auto. rewrite (E i). destruct (j =? i); auto. Qed.
Lemma spec_ent_ext plus f g x j : (forall k, f k = g k) -> spec_ent plus f x j = spec_ent plus g x j.
Proof.
  intros E. unfold spec_ent. destruct (plus && snd x).
  - apply spec_give_ext; exact E.
  - apply spec_forget_ext. intros k. apply spec_give_ext; exact E.
Qed.
Lemma fold_ent_ext plus l : forall f g, (forall k, f k = g k) ->
  forall j, fold_left (spec_ent plus) l f j = fold_left (spec_ent plus) l g j.
Proof.
  induction l as [|x r IH]; cbn; intros f g E j; [apply E|].
  apply IH. intros k. apply spec_ent_ext; exact E.
Qed.
Lemma fold_forget_ext l : forall f g, (forall k, f k = g k) ->
  forall j, fold_left (fun f x => spec_forget f (fst x) (snd x)) l f j =
            fold_left (fun f x => spec_forget f (fst x) (snd x)) l g j.
Proof.
  induction l as [|x r IH]; cbn; intros f g E j; [apply E|].
  apply IH. intros k. apply spec_forget_ext; exact E.
Qed.

(* ------------------------------------------------------------------ lookup_reply *)
Lemma lookup_reply_refs c s t rep s' :
  I1 s -> fresh_alloc c s t -> lookup_reply c s t = (rep, s') ->
  I1 s' /\ rep <> RSpin /\
  (forall j, refs_of s' j = match rep with RIno i => spec_give (refs_of s) i j | _ => refs_of s j end) /\
  (match rep with RIno _ | RHostErr => True | _ => False end).
Proof.
  intros H1 HF. unfold lookup_reply. destruct (do_lookup c s t) as [r s1] eqn:DL.
  pose proof (do_lookup_refs _ _ _ _ _ H1 HF DL) as R.
  pose proof (do_lookup_I1 _ _ _ _ _ H1 DL) as I.
  destruct r; intros E; inversion E; subst; clear E; repeat split; auto; try discriminate.
  contradiction.
Qed.

(* ------------------------------------------------------------------ readdir / readdirplus *)
Lemma readdir_entries_refs c plus : forall ents s f,
  I1 s -> ents_fresh c plus s ents -> (forall j, refs_of s j = f j) ->
  I1 (snd (readdir_entries c plus s ents)) /\
  forall j, refs_of (snd (readdir_entries c plus s ents)) j =
            fold_left (spec_ent plus) (fst (readdir_entries c plus s ents)) f j.
Proof.
  induction ents as [|e r IH]; cbn [readdir_entries ents_fresh]; intros s f H1 HF E.
  - cbn. auto.
  - destruct HF as [HF1 HF2]. unfold readdir_entry in *.
    destruct (do_lookup c s (fst e)) as [lr s1] eqn:DL.
    pose proof (do_lookup_refs _ _ _ _ _ H1 HF1 DL) as R.
    pose proof (do_lookup_I1 _ _ _ _ _ H1 DL) as I.
    destruct lr as [i| |]; cbn [snd fst] in *.
    + set (s2 := if plus && snd e then s1 else forget_one c s1 i 1) in *.
      assert (I2 : I1 s2) by (unfold s2; destruct (plus && snd e); [exact I|apply forget_I1; exact I]).
      assert (E2 : forall j, refs_of s2 j = spec_ent plus f (i, snd e) j).
      { intros j. unfold s2, spec_ent; cbn [fst snd]. destruct (plus && snd e).
        - rewrite R. apply spec_give_ext; exact E.
        - rewrite forget_refs. apply spec_forget_ext. intros k. rewrite R. apply spec_give_ext; exact E. }
      specialize (IH s2 _ I2 HF2 E2).
      destruct (readdir_entries c plus s2 r) as [l s3]; cbn [fst snd fold_left] in *. exact IH.
    + cbn. split; [exact I|]. intros j. rewrite R. apply E.
    + contradiction.
Qed.

(* ------------------------------------------------------------------ one request against the ledger *)
Lemma batch_forget_refs c l : forall s f, I1 s -> (forall j, refs_of s j = f j) ->
  I1 (fold_left (fun s x => forget_one c s (fst x) (snd x)) l s) /\
  forall j, refs_of (fold_left (fun s x => forget_one c s (fst x) (snd x)) l s) j =
            fold_left (fun f x => spec_forget f (fst x) (snd x)) l f j.
Proof.
  induction l as [|x r IH]; cbn; intros s f H1 E; [auto|].
  apply IH; [apply forget_I1; exact H1|].
  intros j. rewrite forget_refs. apply spec_forget_ext; exact E.
Qed.

Lemma import_refs s c root j :
  data s = [] -> refs_of (import s c root) j = if j =? ROOT_ID then 2 else 0.
Proof.
  intros D. unfold import, refs_of. rewrite dget_insert. destruct (j =? ROOT_ID); [reflexivity|].
  unfold dget. rewrite D. reflexivity.
Qed.

Lemma import_I1 s c root : data s = [] -> I1 (import s c root).
Proof.
  intros D i d. unfold import. rewrite dget_insert. destruct (i =? ROOT_ID).
  - intros X; inversion X; subst; cbn. lia.
  - unfold dget. rewrite D. discriminate.
Qed.

Theorem step_refines c s o :
  I1 s -> op_fresh c s o ->
  I1 (snd (step c s o)) /\ fst (step c s o) <> RSpin /\
  forall j, refs_of (snd (step c s o)) j =
            spec_step_u (refs_of s) o (fst (step c s o)) (create_undo c s o) j.
Proof.
  intros H1 HF.
  assert (LK : forall t, fresh_alloc c s t ->
            I1 (snd (lookup_reply c s t)) /\ fst (lookup_reply c s t) <> RSpin /\
            (forall j, refs_of (snd (lookup_reply c s t)) j =
                       match fst (lookup_reply c s t) with RIno i => spec_give (refs_of s) i j | _ => refs_of s j end) /\
            (match fst (lookup_reply c s t) with RIno _ | RHostErr => True | _ => False end)).
  { intros t F. destruct (lookup_reply c s t) as [rep s1] eqn:L. cbn [fst snd].
    exact (lookup_reply_refs _ _ _ _ _ H1 F L). }
  destruct o as [p t|p t|i p t|p t ex ok|i n|l|plus ents| |root];
    unfold spec_step_u, create_undo; cbn [step op_fresh] in *.
  - destruct (valid s p); [|cbn; repeat split; auto; discriminate].
    destruct t as [t|]; [|cbn; repeat split; auto; discriminate].
    destruct (LK t HF) as (A & B & C & D). repeat split; auto.
    intros j. rewrite C. destruct (fst (lookup_reply c s t)); cbn; try reflexivity; contradiction.
  - destruct (valid s p); [|cbn; repeat split; auto; discriminate].
    destruct t as [t|]; [|cbn; repeat split; auto; discriminate].
    destruct (LK t HF) as (A & B & C & D). repeat split; auto.
    intros j. rewrite C. destruct (fst (lookup_reply c s t)); cbn; try reflexivity; contradiction.
  - destruct (valid s i && valid s p); [|cbn; repeat split; auto; discriminate].
    destruct t as [t|]; [|cbn; repeat split; auto; discriminate].
    destruct (LK t HF) as (A & B & C & D). repeat split; auto.
    intros j. rewrite C. destruct (fst (lookup_reply c s t)); cbn; try reflexivity; contradiction.
  - destruct t as [t|]; [|destruct (valid s p); cbn; repeat split; auto; discriminate].
    destruct (valid s p); [|destruct ex; cbn; repeat split; auto; discriminate].
    destruct (LK t HF) as (A & B & C & D).
    destruct (lookup_reply c s t) as [rep s1] eqn:L. cbn [fst snd] in *.
    destruct rep as [i|e| | |l|]; try contradiction.
    + assert (UNDO : I1 (forget_one c s1 i 1) /\
                     forall j, refs_of (forget_one c s1 i 1) j = spec_forget (spec_give (refs_of s) i) i 1 j).
      { split; [apply forget_I1; exact A|]. intros j. rewrite forget_refs. apply spec_forget_ext. exact C. }
      destruct UNDO as [U1 U2].
      destruct ex; cbn [fst snd].
      * destruct (dget s1 i) as [d|]; [destruct (i_safe d); [destruct ok|]|]; cbn [fst snd];
          repeat split; auto; discriminate.
      * repeat split; auto; discriminate.
    + destruct ex; cbn [fst snd]; repeat split; auto; discriminate.
  - cbn. repeat split; [apply forget_I1; exact H1|discriminate|]. intros j. apply forget_refs.
  - cbn [fst snd]. destruct (batch_forget_refs c l s (refs_of s) H1 (fun j => eq_refl)) as [A B].
    repeat split; [exact A|discriminate|exact B].
  - destruct (readdir_entries_refs c plus ents s (refs_of s) H1 HF (fun j => eq_refl)) as [A B].
    destruct (readdir_entries c plus s ents) as [l s1]; cbn [fst snd] in *.
    repeat split; [exact A|discriminate|exact B].
  - cbn. repeat split; auto; discriminate.
  - cbn [fst snd]. repeat split; [apply import_I1; reflexivity|discriminate|].
    intros j. apply import_refs. reflexivity.
Qed.

(* ------------------------------------------------------------------ valid iff the client holds a reference *)
Theorem valid_iff_refs s i : I1 s -> (valid s i = true <-> 0 < refs_of s i).
Proof.
  intros H1. unfold valid, refs_of. destruct (dget s i) as [d|] eqn:L; cbn.
  - split; [intros _; exact (H1 _ _ L)|reflexivity].
  - split; [discriminate|lia].
Qed.

(* ------------------------------------------------------------------ counter mode (use_host_ino = false): allocated numbers are fresh *)
Definition bounded (s : istate) (i : N) : Prop := i = ROOT_ID \/ i < next_inode s.
Definition Bnd (s : istate) : Prop :=
  2 <= next_inode s /\
  (forall i d, dget s i = Some d -> bounded s i) /\
  (forall id i, mget hid_eqb (by_id s) id = Some i -> bounded s i) /\
  (forall h i, mget N.eqb (by_handle s) h = Some i -> bounded s i).

Lemma get_alt_none_locked s id fh i :
  get_alt s id fh = None -> get_inode_locked s id fh = Some i -> dget s i = None.
Proof.
  unfold get_alt, get_inode_locked, get_by_handle, get_by_id. destruct fh as [h|]; intros GA GL.
  - rewrite GL in GA. destruct (dget s i); [discriminate|reflexivity].
  - rewrite GL in GA. destruct (dget s i); [discriminate|reflexivity].
Qed.

Lemma bnd_fresh c s t : uhi c = false -> Bnd s -> fresh_alloc c s t.
Proof.
  intros U (B0 & B1 & _) i s1 GA. unfold allocate_inode. rewrite U. cbn [negb].
  destruct (get_inode_locked s (t_id t) (eff_fh c t)) as [i0|] eqn:GL; intros E; inversion E; subst; clear E.
  - eapply get_alt_none_locked; eauto.
  - destruct (dget s (next_inode s)) as [d|] eqn:L; [|reflexivity].
    destruct (B1 _ _ L) as [X|X]; unfold ROOT_ID in *; lia.
Qed.

Lemma wrap64_small n : n < 18446744073709551616 -> wrap64 n = n.
Proof. intros. unfold wrap64. apply N.mod_small. assumption. Qed.

Lemma bnd_mono s s' : next_inode s <= next_inode s' -> forall i, bounded s i -> bounded s' i.
Proof. unfold bounded. intros L i [X|X]; [left; exact X|right; lia]. Qed.

Lemma insert_bnd s i d : Bnd s -> bounded s i -> Bnd (insert s i d).
Proof.
  intros (B0 & B1 & B2 & B3) BI. unfold Bnd. split; [exact B0|]. split; [|split].
  - intros j dj. rewrite dget_insert. destruct (N.eqb_spec j i); [subst; intros _; exact BI|apply B1].
  - intros id j. unfold insert; cbn [by_id]. rewrite hget_set.
    destruct (hid_eqb id (i_id d)); [intros X; inversion X; subst; exact BI|apply B2].
  - intros h j. unfold insert; cbn [by_handle]. destruct (i_fh d) as [h0|]; [|apply B3].
    rewrite nnget_set. destruct (h =? h0); [intros X; inversion X; subst; exact BI|apply B3].
Qed.

Lemma bnd_bump s n : Bnd s -> next_inode s <= n ->
  Bnd (mkS (data s) (by_id s) (by_handle s) n (uids s) (next_uid s) (next_virt s)).
Proof.
  intros (B0 & B1 & B2 & B3) L. unfold Bnd, bounded in *. cbn [next_inode]. split; [lia|]. split; [|split].
  - intros j dj X. change (dget s j = Some dj) in X. destruct (B1 _ _ X); [auto|right; lia].
  - intros id j X. cbn [by_id] in X. destruct (B2 _ _ X); [auto|right; lia].
  - intros h j X. cbn [by_handle] in X. destruct (B3 _ _ X); [auto|right; lia].
Qed.

Lemma do_lookup_bnd c s t r s' :
  uhi c = false -> Bnd s -> next_inode s < U64MAX -> do_lookup c s t = (r, s') ->
  Bnd s' /\ next_inode s <= next_inode s' /\ next_inode s' <= next_inode s + 1.
Proof.
  intros U B NW H. pose proof B as (B0 & B1 & B2 & B3). unfold U64MAX in NW.
  destruct (do_lookup_cases _ _ _ _ _ H) as
    [(i & d & GA & Z & -> & ->)|[(i & d & GA & Z & -> & ->)|[(i & s1 & GA & AL & BV & -> & ->)|(ro & GA & -> & AL)]]].
  - split; [|cbn; lia]. unfold Bnd. split; [exact B0|]. split; [|split; [exact B2|exact B3]].
    intros j dj. rewrite dget_set_rc. destruct (N.eqb_spec j i) as [E|E]; [subst|apply B1].
    intros _. apply (B1 _ _ (get_alt_live _ _ _ _ _ GA)).
  - split; [exact B|lia].
  - unfold allocate_inode in AL. rewrite U in AL. cbn [negb] in AL.
    destruct (get_inode_locked s (t_id t) (eff_fh c t)) as [i0|] eqn:GL; inversion AL; subst; clear AL.
    + split; [|cbn; lia]. apply insert_bnd; [exact B|].
      unfold get_inode_locked in GL. destruct (eff_fh c t); [eapply B3|eapply B2]; eauto.
    + split; [|cbn [insert next_inode]; rewrite wrap64_small by lia; lia].
      apply insert_bnd.
      * apply bnd_bump; [exact B|]. rewrite wrap64_small by lia. lia.
      * right. cbn [next_inode]. rewrite wrap64_small by lia. lia.
  - unfold allocate_inode in AL. rewrite U in AL. cbn [negb] in AL.
    destruct (get_inode_locked s (t_id t) (eff_fh c t)) as [i0|] eqn:GL; inversion AL; subst; clear AL.
    + split; [exact B|lia].
    + split; [|cbn [next_inode]; rewrite wrap64_small by lia; lia].
      apply bnd_bump; [exact B|]. rewrite wrap64_small by lia. lia.
Qed.

Lemma forget_bnd c s i n : Bnd s -> Bnd (forget_one c s i n) /\ next_inode (forget_one c s i n) = next_inode s.
Proof.
  intros (B0 & B1 & B2 & B3). unfold forget_one. destruct (i =? ROOT_ID); [split; [repeat split; auto|reflexivity]|].
  destruct (dget s i) as [d|] eqn:L; [|split; [repeat split; auto|reflexivity]].
  destruct (sat_sub (i_rc d) n =? 0).
  - assert (NI : next_inode (remove s i (negb (uhi c) || (MAX_HOST_INO <? hid_ino (i_id d)))) = next_inode s).
    { unfold remove. rewrite L. destruct (negb (uhi c) || (MAX_HOST_INO <? hid_ino (i_id d))); reflexivity. }
    split; [|exact NI]. unfold Bnd, bounded. rewrite NI. split; [exact B0|]. repeat split.
    + intros j dj. rewrite dget_remove. destruct (j =? i); [discriminate|apply B1].
    + intros id j. unfold remove. rewrite L.
      destruct (negb (uhi c) || (MAX_HOST_INO <? hid_ino (i_id d))); cbn; [apply B2|].
      rewrite hget_del. destruct (hid_eqb id (i_id d)); [discriminate|apply B2].
    + intros h j. unfold remove. rewrite L.
      destruct (negb (uhi c) || (MAX_HOST_INO <? hid_ino (i_id d))); cbn; [apply B3|].
      destruct (i_fh d) as [h0|]; [|apply B3].
      rewrite nnget_del. destruct (h =? h0); [discriminate|apply B3].
  - split; [|reflexivity]. unfold Bnd. split; [exact B0|]. split; [|split; [exact B2|exact B3]].
    intros j dj. rewrite dget_set_rc. destruct (N.eqb_spec j i); [subst; intros _; eapply B1; eauto|apply B1].
Qed.

Lemma readdir_entries_bnd c plus : uhi c = false -> forall ents s,
  Bnd s -> next_inode s + N.of_nat (length ents) <= U64MAX ->
  ents_fresh c plus s ents /\ Bnd (snd (readdir_entries c plus s ents)) /\
  next_inode s <= next_inode (snd (readdir_entries c plus s ents)) /\
  next_inode (snd (readdir_entries c plus s ents)) <= next_inode s + N.of_nat (length ents).
Proof.
  intros U. induction ents as [|e r IH]; intros s B NW; cbn [ents_fresh readdir_entries length].
  - cbn [snd]. change (N.of_nat 0) with 0. split; [exact I|]. split; [exact B|]. lia.
  - cbn [length] in NW. rewrite Nat2N.inj_succ in *. unfold readdir_entry in *.
    destruct (do_lookup c s (fst e)) as [lr s1] eqn:DL.
    assert (NW1 : next_inode s < U64MAX) by lia.
    destruct (do_lookup_bnd _ _ _ _ _ U B NW1 DL) as (B1 & L1 & L2).
    split; [split; [apply bnd_fresh; assumption|]|].
    + assert (NWE : next_inode s1 + N.of_nat (length r) <= U64MAX) by lia.
      destruct lr as [i| |]; cbn [snd]; [|apply (IH s1 B1 NWE)|apply (IH s1 B1 NWE)].
      set (s2 := if plus && snd e then s1 else forget_one c s1 i 1).
      assert (B2 : Bnd s2 /\ next_inode s2 = next_inode s1).
      { unfold s2. destruct (plus && snd e); [auto|apply forget_bnd; exact B1]. }
      destruct B2 as [B2 N2]. apply (IH s2 B2). lia.
    + destruct lr as [i| |]; cbn [snd]; try (split; [exact B1|split; lia]).
      set (s2 := if plus && snd e then s1 else forget_one c s1 i 1).
      assert (B2 : Bnd s2 /\ next_inode s2 = next_inode s1).
      { unfold s2. destruct (plus && snd e); [auto|apply forget_bnd; exact B1]. }
      destruct B2 as [B2 N2]. assert (NW2 : next_inode s2 + N.of_nat (length r) <= U64MAX) by lia.
      destruct (IH s2 B2 NW2) as (_ & A & A1 & A2).
      destruct (readdir_entries c plus s2 r) as [l s3]; cbn [snd] in *. split; [exact A|split; lia].
Qed.

(* number of do_lookup calls a request can make *)
Definition allocs (o : op) : N :=
  match o with
  | OLookup _ _ | OEntry _ _ | OLink _ _ _ | OCreate _ _ _ _ => 1
  | OReaddir _ ents => N.of_nat (length ents)
  | _ => 0
  end.

Lemma import_bnd s c root : 2 <= next_inode s -> data s = [] -> by_id s = [] -> by_handle s = [] -> Bnd (import s c root).
Proof.
  intros B D1 D2 D3. unfold import. apply insert_bnd; [|left; reflexivity].
  unfold Bnd. split; [exact B|]. split; [|split].
  - intros i d. unfold dget. rewrite D1. discriminate.
  - intros id i. rewrite D2. discriminate.
  - intros h i. rewrite D3. discriminate.
Qed.

Lemma step_bnd c s o :
  uhi c = false -> Bnd s -> next_inode s + allocs o <= U64MAX ->
  op_fresh c s o /\ Bnd (snd (step c s o)) /\
  next_inode s <= next_inode (snd (step c s o)) /\ next_inode (snd (step c s o)) <= next_inode s + allocs o.
Proof.
  intros U B NW.
  assert (LK : forall t, 1 <= allocs o -> Bnd (snd (lookup_reply c s t)) /\
            next_inode s <= next_inode (snd (lookup_reply c s t)) /\ next_inode (snd (lookup_reply c s t)) <= next_inode s + 1).
  { intros t A. unfold lookup_reply. destruct (do_lookup c s t) as [lr s1] eqn:DL.
    assert (NW1 : next_inode s < U64MAX) by lia.
    destruct (do_lookup_bnd _ _ _ _ _ U B NW1 DL) as (X & Y & Z).
    destruct lr; cbn; auto. }
  assert (SAME : Bnd s /\ next_inode s <= next_inode s /\ next_inode s <= next_inode s + allocs o) by (split; [exact B|split; lia]).
  destruct o as [p t|p t|i p t|p t ex ok|i n|l|plus ents| |root]; cbn [step op_fresh allocs] in *.
  - split; [destruct t; [apply bnd_fresh; assumption|exact I]|].
    destruct (valid s p); [|exact SAME]. destruct t as [t|]; [|exact SAME]. apply LK; lia.
  - split; [destruct t; [apply bnd_fresh; assumption|exact I]|].
    destruct (valid s p); [|exact SAME]. destruct t as [t|]; [|exact SAME]. apply LK; lia.
  - split; [destruct t; [apply bnd_fresh; assumption|exact I]|].
    destruct (valid s i && valid s p); [|exact SAME]. destruct t as [t|]; [|exact SAME]. apply LK; lia.
  - split; [destruct t; [apply bnd_fresh; assumption|exact I]|].
    destruct (valid s p); [|exact SAME]. destruct t as [t|]; [|exact SAME].
    assert (A1 : 1 <= 1) by lia. specialize (LK t A1). destruct (lookup_reply c s t) as [rep s1]. cbn [snd] in LK.
    destruct rep; cbn [snd]; try exact LK.
    assert (FK : Bnd (forget_one c s1 i 1) /\ next_inode s <= next_inode (forget_one c s1 i 1) /\
                 next_inode (forget_one c s1 i 1) <= next_inode s + 1).
    { destruct LK as (X & Y & Z). destruct (forget_bnd c s1 i 1 X) as [X2 Y2]. rewrite Y2. auto. }
    destruct ex; [|exact LK].
    destruct (dget s1 i) as [d|]; [destruct (i_safe d); [destruct ok|]|]; cbn [snd]; first [exact LK|exact FK].
  - split; [exact I|]. cbn [snd]. destruct (forget_bnd c s i n B) as [X Y]. rewrite Y. split; [exact X|split; lia].
  - split; [exact I|]. cbn [snd]. clear SAME LK NW. revert s B. induction l as [|x r IH]; cbn; intros s B.
    + split; [exact B|split; lia].
    + destruct (forget_bnd c s (fst x) (snd x) B) as [X Y]. specialize (IH _ X). rewrite Y in IH. exact IH.
  - destruct (readdir_entries_bnd c plus U ents s B NW) as (A1 & A2 & A3 & A4).
    split; [exact A1|]. destruct (readdir_entries c plus s ents) as [l s1]; cbn [snd] in *. auto.
  - split; [exact I|]. exact SAME.
  - split; [exact I|]. cbn [snd]. destruct B as (B0 & _). split; [apply import_bnd; auto|]. cbn. lia.
Qed.

(* ------------------------------------------------------------------ the root is never forgotten *)
Lemma readdir_entries_root c plus : forall ents s, IRoot s -> IRoot (snd (readdir_entries c plus s ents)).
Proof.
  induction ents as [|e r IH]; cbn [readdir_entries]; intros s R; [exact R|].
  unfold readdir_entry. destruct (do_lookup c s (fst e)) as [lr s1] eqn:DL.
  pose proof (do_lookup_root _ _ _ _ _ R DL) as R1.
  destruct lr as [i| |]; cbn [snd]; try exact R1.
  set (s2 := if plus && snd e then s1 else forget_one c s1 i 1).
  assert (R2 : IRoot s2) by (unfold s2; destruct (plus && snd e); [exact R1|apply forget_root; exact R1]).
  specialize (IH s2 R2). destruct (readdir_entries c plus s2 r); exact IH.
Qed.

Lemma step_root c s o : IRoot s -> IRoot (snd (step c s o)).
Proof.
  intros R.
  assert (LK : forall t, IRoot (snd (lookup_reply c s t))).
  { intros t. unfold lookup_reply. destruct (do_lookup c s t) as [lr s1] eqn:DL.
    pose proof (do_lookup_root _ _ _ _ _ R DL). destruct lr; assumption. }
  destruct o as [p t|p t|i p t|p t ex ok|i n|l|plus ents| |root]; cbn [step].
  - destruct (valid s p); [|exact R]. destruct t; [apply LK|exact R].
  - destruct (valid s p); [|exact R]. destruct t; [apply LK|exact R].
  - destruct (valid s i && valid s p); [|exact R]. destruct t; [apply LK|exact R].
  - destruct (valid s p); [|exact R]. destruct t as [t|]; [|exact R].
    specialize (LK t). destruct (lookup_reply c s t) as [rep s1]. cbn [snd] in LK.
    destruct rep; try exact LK. destruct ex; [|exact LK].
    destruct (dget s1 i) as [d|]; [destruct (i_safe d); [destruct ok|]|]; cbn [snd];
      first [exact LK|apply forget_root; exact LK].
  - apply forget_root; exact R.
  - cbn [snd]. clear LK. revert s R. induction l as [|x r IH]; cbn; intros s R; [exact R|].
    apply IH. apply forget_root; exact R.
  - pose proof (readdir_entries_root c plus ents s R) as X.
    destruct (readdir_entries c plus s ents); exact X.
  - exact R.
  - cbn [snd]. unfold IRoot, import. rewrite dget_insert. rewrite N.eqb_refl. eauto.
Qed.

(* forgetting the root, with any count, changes nothing *)
Lemma forget_root_noop c s n : forget_one c s ROOT_ID n = s.
Proof. reflexivity. Qed.

(* ------------------------------------------------------------------ counts stay below the number of lookups made: no saturation *)
Definition RB (s : istate) (b : N) : Prop := forall j, refs_of s j <= b.

Lemma do_lookup_rb c s t r s' b :
  I1 s -> fresh_alloc c s t -> RB s b -> do_lookup c s t = (r, s') -> RB s' (b + 1).
Proof.
  intros H1 HF R DL j. pose proof (do_lookup_refs _ _ _ _ _ H1 HF DL) as X.
  destruct r as [i| |]; [|rewrite X; specialize (R j); lia|contradiction].
  rewrite X. unfold upd, sat_add. pose proof (R i). pose proof (R j). destruct (j =? i); lia.
Qed.

Lemma forget_rb c s i n b : RB s b -> RB (forget_one c s i n) b.
Proof.
  intros R j. rewrite forget_refs. unfold spec_forget, upd. pose proof (R i). pose proof (R j).
  destruct (i =? ROOT_ID); [lia|]. destruct (j =? i); lia.
Qed.

Lemma readdir_entries_rb c plus : forall ents s b,
  I1 s -> ents_fresh c plus s ents -> RB s b ->
  RB (snd (readdir_entries c plus s ents)) (b + N.of_nat (length ents)).
Proof.
  induction ents as [|e r IH]; cbn [readdir_entries ents_fresh length]; intros s b H1 HF R.
  - cbn. intros j. specialize (R j). lia.
  - destruct HF as [HF1 HF2]. rewrite Nat2N.inj_succ. unfold readdir_entry in *.
    destruct (do_lookup c s (fst e)) as [lr s1] eqn:DL.
    pose proof (do_lookup_rb _ _ _ _ _ _ H1 HF1 R DL) as R1.
    pose proof (do_lookup_I1 _ _ _ _ _ H1 DL) as I.
    destruct lr as [i| |]; cbn [snd] in *.
    + set (s2 := if plus && snd e then s1 else forget_one c s1 i 1) in *.
      assert (I2 : I1 s2) by (unfold s2; destruct (plus && snd e); [exact I|apply forget_I1; exact I]).
      assert (R2 : RB s2 (b + 1)) by (unfold s2; destruct (plus && snd e); [exact R1|apply forget_rb; exact R1]).
      specialize (IH s2 _ I2 HF2 R2). destruct (readdir_entries c plus s2 r) as [l s3]; cbn [snd] in *.
      intros j. specialize (IH j). lia.
    + intros j. specialize (R1 j). lia.
    + intros j. specialize (R1 j). lia.
Qed.

Lemma step_rb c s o b :
  I1 s -> op_fresh c s o -> RB s b -> 2 <= b -> RB (snd (step c s o)) (b + allocs o).
Proof.
  intros H1 HF R B2.
  assert (W : forall x, RB s (b + x)) by (intros x j; specialize (R j); lia).
  assert (LK : forall t, fresh_alloc c s t -> RB (snd (lookup_reply c s t)) (b + 1)).
  { intros t F. unfold lookup_reply. destruct (do_lookup c s t) as [lr s1] eqn:DL.
    pose proof (do_lookup_rb _ _ _ _ _ _ H1 F R DL). destruct lr; assumption. }
  destruct o as [p t|p t|i p t|p t ex ok|i n|l|plus ents| |root]; cbn [step op_fresh allocs] in *.
  - destruct (valid s p); [|apply W]. destruct t; [apply LK; exact HF|apply W].
  - destruct (valid s p); [|apply W]. destruct t; [apply LK; exact HF|apply W].
  - destruct (valid s i && valid s p); [|apply W]. destruct t; [apply LK; exact HF|apply W].
  - destruct (valid s p); [|apply W]. destruct t as [t|]; [|apply W].
    specialize (LK t HF). destruct (lookup_reply c s t) as [rep s1]. cbn [snd] in LK.
    destruct rep; try exact LK. destruct ex; [|exact LK].
    destruct (dget s1 i) as [d|]; [destruct (i_safe d); [destruct ok|]|]; cbn [snd];
      first [exact LK|apply forget_rb; exact LK].
  - cbn [snd]. intros j. pose proof (forget_rb c s i n b R j). lia.
  - cbn [snd]. clear LK W HF H1. revert s R. induction l as [|x r IH]; cbn; intros s R.
    + intros j. specialize (R j). lia.
    + apply IH. apply forget_rb; exact R.
  - pose proof (readdir_entries_rb c plus ents s b H1 HF R) as X.
    destruct (readdir_entries c plus s ents); exact X.
  - apply W.
  - cbn [snd]. intros j. rewrite import_refs by reflexivity. destruct (j =? ROOT_ID); lia.
Qed.

(* ------------------------------------------------------------------ whole histories *)
Fixpoint hist_fresh (c : cfg) (s : istate) (h : list op) : Prop :=
  match h with [] => True | o :: r => op_fresh c s o /\ hist_fresh c (snd (step c s o)) r end.
Definition total_allocs (h : list op) : N := fold_right (fun o a => allocs o + a) 0 h.

(* the value of the ledger at j depends only on its previous value at j *)
Lemma spec_give_local f g i j : f j = g j -> spec_give f i j = spec_give g i j.
Proof. intros E. unfold spec_give, upd. destruct (N.eqb_spec j i); [subst; rewrite E; reflexivity|exact E]. Qed.
Lemma spec_forget_local f g i n j : f j = g j -> spec_forget f i n j = spec_forget g i n j.
Proof.
  intros E. unfold spec_forget, upd. destruct (i =? ROOT_ID); [exact E|].
  destruct (N.eqb_spec j i); [subst; rewrite E; reflexivity|exact E].
Qed.
Lemma spec_ent_local plus f g x j : f j = g j -> spec_ent plus f x j = spec_ent plus g x j.
Proof.
  intros E. unfold spec_ent. destruct (plus && snd x).
  - apply spec_give_local; exact E.
  - apply spec_forget_local. apply spec_give_local; exact E.
Qed.
Lemma spec_step_local f g o r j : f j = g j -> spec_step f o r j = spec_step g o r j.
Proof.
  intros E.
  assert (FE : forall plus l f g, f j = g j -> fold_left (spec_ent plus) l f j = fold_left (spec_ent plus) l g j).
  { intros plus l. induction l as [|x l IH]; cbn; intros f0 g0 E0; [exact E0|]. apply IH. apply spec_ent_local; exact E0. }
  assert (FF : forall l f g, f j = g j ->
            fold_left (fun f x => spec_forget f (fst x) (snd x)) l f j = fold_left (fun f x => spec_forget f (fst x) (snd x)) l g j).
  { intros l. induction l as [|x l IH]; cbn; intros f0 g0 E0; [exact E0|]. apply IH. apply spec_forget_local; exact E0. }
  destruct o, r; cbn; auto using spec_give_local, spec_forget_local.
Qed.
Lemma spec_run_local h : forall reps f g j, f j = g j -> spec_run f h reps j = spec_run g h reps j.
Proof.
  induction h as [|o h IH]; intros reps f g j E; cbn; [exact E|].
  destruct reps as [|r reps]; [exact E|]. apply IH. apply spec_step_local; exact E.
Qed.

(* a reference taken and given back at once leaves every non-root count as it was *)
Lemma undo_neutral f i j : j <> ROOT_ID -> f j < U64MAX -> spec_forget (spec_give f i) i 1 j = f j.
Proof.
  intros NR B. unfold spec_forget, spec_give, upd, sat_add.
  destruct (N.eqb_spec i ROOT_ID) as [E|E].
  - subst. destruct (N.eqb_spec j ROOT_ID); [contradiction|reflexivity].
  - destruct (N.eqb_spec j i) as [E2|E2]; [|reflexivity]. subst. rewrite N.eqb_refl. lia.
Qed.

Lemma create_undo_reply c s o i f : create_undo c s o = Some i -> forall j, spec_step f o (fst (step c s o)) j = f j.
Proof.
  unfold create_undo. destruct o as [p t|p t|i0 p t|p t ex ok|i0 n|l|plus ents| |root]; try discriminate.
  destruct t as [t|]; [|discriminate]. destruct ex; [|discriminate].
  destruct (valid s p) eqn:V; [|discriminate].
  destruct (lookup_reply c s t) as [rep s1] eqn:L. destruct rep; try discriminate.
  destruct (fst (step c s (OCreate p (Some t) true ok))) eqn:R; try discriminate; intros _ j; reflexivity.
Qed.

Theorem run_refines c : forall h s b,
  I1 s -> IRoot s -> hist_fresh c s h -> RB s b -> 2 <= b -> b + total_allocs h < U64MAX ->
  I1 (snd (run c s h)) /\ IRoot (snd (run c s h)) /\ ~ In RSpin (fst (run c s h)) /\
  forall j, j <> ROOT_ID -> refs_of (snd (run c s h)) j = spec_run (refs_of s) h (fst (run c s h)) j.
Proof.
  induction h as [|o h IH]; intros s b H1 R HF RBs B2 NS; cbn [run hist_fresh] in *.
  - cbn. auto.
  - destruct HF as [F1 F2]. cbn [total_allocs fold_right] in NS. fold (total_allocs h) in NS.
    destruct (step_refines c s o H1 F1) as (A & B & C).
    pose proof (step_root c s o R) as R1.
    pose proof (step_rb c s o b H1 F1 RBs B2) as RB1.
    assert (E1 : forall j, j <> ROOT_ID -> refs_of (snd (step c s o)) j = spec_step (refs_of s) o (fst (step c s o)) j).
    { intros j NR. rewrite C. unfold spec_step_u. destruct (create_undo c s o) as [i|] eqn:U; [|reflexivity].
      rewrite (create_undo_reply c s o i _ U). apply undo_neutral; [exact NR|]. specialize (RBs j). lia. }
    destruct (step c s o) as [rep s1]; cbn [fst snd] in *.
    assert (B3 : 2 <= b + allocs o) by lia.
    assert (NS1 : b + allocs o + total_allocs h < U64MAX) by lia.
    destruct (IH s1 _ A R1 F2 RB1 B3 NS1) as (A2 & R2 & B4 & C2).
    destruct (run c s1 h) as [l s2]; cbn [fst snd spec_run] in *.
    repeat split; auto.
    + intros [X|X]; [congruence|auto].
    + intros j NR. rewrite (C2 j NR). apply spec_run_local. apply E1; exact NR.
Qed.

Lemma hist_fresh_counter c : uhi c = false -> forall h s,
  Bnd s -> next_inode s + total_allocs h <= U64MAX -> hist_fresh c s h.
Proof.
  intros U. induction h as [|o h IH]; intros s B NW; cbn [hist_fresh]; [exact I|].
  cbn [total_allocs fold_right] in NW. fold (total_allocs h) in NW.
  assert (NW1 : next_inode s + allocs o <= U64MAX) by lia.
  destruct (step_bnd c s o U B NW1) as (F & B1 & L1 & L2).
  split; [exact F|]. apply IH; [exact B1|lia].
Qed.

Lemma fresh_I1 c root : I1 (fresh c root).
Proof. apply import_I1. reflexivity. Qed.
Lemma fresh_root c root : IRoot (fresh c root).
Proof. unfold IRoot, fresh, import. rewrite dget_insert. rewrite N.eqb_refl. eauto. Qed.
Lemma fresh_bnd c root : Bnd (fresh c root).
Proof. apply import_bnd; cbn; auto; lia. Qed.
Lemma fresh_rb c root : RB (fresh c root) 2.
Proof. intros j. unfold fresh. rewrite import_refs by reflexivity. destruct (j =? ROOT_ID); lia. Qed.

Theorem run_refines_counter c root h :
  uhi c = false -> 2 + total_allocs h < U64MAX ->
  let r := run c (fresh c root) h in
  I1 (snd r) /\ IRoot (snd r) /\ ~ In RSpin (fst r) /\
  forall j, j <> ROOT_ID -> refs_of (snd r) j = spec_run (refs_of (fresh c root)) h (fst r) j.
Proof.
  intros U NW. apply (run_refines c h (fresh c root) 2); auto using fresh_I1, fresh_root, fresh_rb; try lia.
  apply hist_fresh_counter; [exact U|apply fresh_bnd|]. change (next_inode (fresh c root)) with 2. lia.
Qed.

(* ------------------------------------------------------------------ readdirplus takes references for exactly the delivered entries *)
Lemma spec_ent_plus_at f x j : j <> ROOT_ID -> f j + 1 <= U64MAX ->
  spec_ent true f x j = f j + (if (fst x =? j) && snd x then 1 else 0).
Proof.
  intros NR B. unfold spec_ent, spec_give, spec_forget, upd, sat_add. cbn [andb].
  destruct (N.eqb_spec (fst x) j) as [E|E].
  - rewrite <- E in *. destruct (snd x); cbn [andb].
    + rewrite N.eqb_refl. lia.
    + destruct (N.eqb_spec (fst x) ROOT_ID); [congruence|]. rewrite N.eqb_refl. lia.
  - assert (X : (j =? fst x) = false) by (apply N.eqb_neq; congruence).
    destruct (snd x); cbn [andb].
    + rewrite X. lia.
    + destruct (fst x =? ROOT_ID); rewrite X; lia.
Qed.

Lemma fold_ent_count : forall l f j, j <> ROOT_ID -> f j + N.of_nat (length l) <= U64MAX ->
  fold_left (spec_ent true) l f j = f j + count_delivered l j.
Proof.
  unfold count_delivered.
  induction l as [|x r IH]; intros f j NR B; cbn [fold_left filter length]; [cbn; lia|].
  cbn [length] in B. rewrite Nat2N.inj_succ in B.
  assert (P : spec_ent true f x j = f j + (if (fst x =? j) && snd x then 1 else 0))
    by (apply spec_ent_plus_at; [exact NR|lia]).
  rewrite IH; [|exact NR|rewrite P; destruct ((fst x =? j) && snd x); lia].
  rewrite P. destruct ((fst x =? j) && snd x); cbn [length]; [rewrite Nat2N.inj_succ|]; lia.
Qed.

Theorem readdirplus_exact c s ents :
  I1 s -> ents_fresh c true s ents ->
  forall j, j <> ROOT_ID ->
    refs_of s j + N.of_nat (length (fst (readdir_entries c true s ents))) <= U64MAX ->
    refs_of (snd (readdir_entries c true s ents)) j =
    refs_of s j + count_delivered (fst (readdir_entries c true s ents)) j.
Proof.
  intros H1 HF j NR B.
  destruct (readdir_entries_refs c true ents s (refs_of s) H1 HF (fun _ => eq_refl)) as [_ E].
  rewrite E. apply fold_ent_count; assumption.
Qed.


(* ------------------------------------------------------------------ the full statement (defect D9 is repaired: it is a theorem now) *)
Definition refines_full : Prop := forall c root h,
  uhi c = false -> 2 + total_allocs h < U64MAX ->
  forall j, j <> ROOT_ID ->
    refs_of (snd (run c (fresh c root) h)) j =
    spec_run (refs_of (fresh c root)) h (fst (run c (fresh c root) h)) j.

Lemma refines_full_holds : refines_full.
Proof. intros c root h U NW. apply (run_refines_counter c root h U NW). Qed.

Definition d9_cfg : cfg := mkCfg false false.
Definition d9_root : target := mkT (100, 1, 1) None true.
Definition d9_fifo : target := mkT (101, 1, 1) None false.
(* create("p") where p exists and is a FIFO: EBADF to the client, and (since the fix) no reference stays *)
Definition d9_hist : list op := [OCreate 1 (Some d9_fifo) true false].

Lemma d9_witness_shape :
  fst (run d9_cfg (fresh d9_cfg d9_root) d9_hist) = [RErr EBADF] /\
  refs_of (snd (run d9_cfg (fresh d9_cfg d9_root) d9_hist)) 2 = 0 /\
  valid (snd (run d9_cfg (fresh d9_cfg d9_root) d9_hist)) 2 = false /\
  create_undo d9_cfg (fresh d9_cfg d9_root) (OCreate 1 (Some d9_fifo) true false) = Some 2.
Proof. vm_compute. auto. Qed.

(* non-vacuity of the hypotheses of run_refines_counter *)
Definition ex_a : target := mkT (102, 1, 1) None true.
Definition ex_hist : list op :=
  [OLookup 1 (Some ex_a); OLookup 1 (Some ex_a); OReaddir true [(ex_a, true); (d9_fifo, false)];
   OForget 2 2; OCreate 1 (Some ex_a) true true; OCreate 1 (Some d9_fifo) true false; OBatchForget [(2, 5); (1, 7)]].
Lemma ex_hist_ok :
  2 + total_allocs ex_hist < U64MAX /\
  fst (run d9_cfg (fresh d9_cfg d9_root) ex_hist) =
    [RIno 2; RIno 2; REnts [(2, true); (3, false)]; RUnit; RIno 2; RErr EBADF; RUnit] /\
  refs_of (snd (run d9_cfg (fresh d9_cfg d9_root) ex_hist)) 2 = 0 /\
  refs_of (snd (run d9_cfg (fresh d9_cfg d9_root) ex_hist)) 3 = 0 /\
  refs_of (snd (run d9_cfg (fresh d9_cfg d9_root) ex_hist)) 1 = 2.
Proof. vm_compute. repeat split; auto; discriminate. Qed.
