(* Per-operation refinement BELOW A DIRECTORY THAT THE UPPER LAYER DOES NOT HOLD (visible through lower layers; its chain is
   copied up first, hypothesis [cu_okb]):
   - mkdir / create / mknod / symlink over a (lower) whiteout,
   - rmdir of a directory that shows no entry (no entries at all, or entries hidden by lower whiteouts).
   By re-running (Proofs/OverlayRefineRerun.v): the body of the operation run from the state after the parent's lookups equals the
   body run from the state [s3] after the copy-up, and so does the whole operation; in [s3] the parent is a directory of the upper
   layer and Proofs/OverlayRefineWh.v / OverlayRefineRmdirLow.v apply. *)
From Coq Require Import List String Arith NArith Bool Lia.
From FB Require Import Model.Overlay Proofs.OverlayInv Proofs.OverlayScan Proofs.OverlayRestart
  Proofs.OverlayReadOnly Proofs.OverlayCoh Proofs.OverlayCohView Proofs.OverlayCopyUp Proofs.OverlayCohOps
  Proofs.OverlayCohSteps Proofs.OverlayRefineTeq Proofs.OverlayRefineMerge Proofs.OverlayRefineRun Proofs.OverlayRefine
  Proofs.OverlayRefineWh Proofs.OverlayRefineCu Proofs.OverlayRefineRmdir Proofs.OverlayRefineCuRm
  Proofs.OverlayRefineFail Proofs.OverlayRefineRead Proofs.OverlayRefineRerun Proofs.OverlayRefineRmdirLow.
Import ListNotations.
Local Open Scope N_scope.

Lemma bind_congr' {A B} (m : M A) (f : A -> M B) s s' : m s = m s' -> bind m f s = bind m f s'.
Proof. unfold bind. intros ->. reflexivity. Qed.

(* the walk to a visible directory and its own lookups *)
Lemma parent_prefix_run (pp : path) s u m x ch r0 : Coherent s -> upper s = Some u -> visp (u :: lowers s) [] pp ->
  mstack (u :: lowers s) pp = Dir m x ch :: r0 ->
  exists s1 s2 pn2, walk pp s = (Ok tt, s1) /\ lookup_node pp None s1 = (Ok pp, s2) /\ sync_parent pp s1 = (Ok tt, s2) /\
    Coherent s2 /\ sd s s2 /\ nget pp (root s2) = Some pn2 /\ n_wh pn2 = false /\ n_loaded pn2 = true /\ node_stat s2 pn2 = Some (Dir m x ch) /\
    (forall nmo, lookup_node pp nmo s2 =
       (match nmo with
        | None => Ok pp
        | Some nm => match afind nm (n_ch pn2) with Some _ => Ok (pp ++ [nm]) | None => Err ENOENT end
        end, s2)).
Proof.
  intros HC Hu Hvis Hpp.
  destruct (target_run pp s u _ r0 HC Hu Hvis Hpp eq_refl) as (s1 & s2 & n2 & r & rs & E1 & HC1 & Hsd1 & Elk & HC2 & Hsd2 & Hg2 & Hw2 & Er & Hrt & Hst & Hld).
  specialize (Hld eq_refl). exists s1, s2, n2. split; [exact E1|]. split; [exact Elk|]. split.
  { unfold sync_parent. rewrite (bind_ok _ _ _ _ _ Elk), (bind_ok _ _ _ _ _ (get_node_ok pp s2 n2 Hg2)), Hw2. reflexivity. }
  repeat (split; [assumption|]). exact (lookup_loaded pp s2 n2 HC2 Hg2 Hw2 Hld).
Qed.

(* the cached child of a name that has candidates *)
Lemma child_of_cand (pp : path) (nm : name) s u pn t0 rest0 : Coherent s -> upper s = Some u -> nget pp (root s) = Some pn -> n_loaded pn = true ->
  mstack (u :: lowers s) (pp ++ [nm]) = t0 :: rest0 ->
  exists c, afind nm (n_ch pn) = Some c /\ nget (pp ++ [nm]) (root s) = Some c /\ n_wh c = is_whT t0 /\ node_stat s c = Some t0 /\
    (tget u (pp ++ [nm]) = None -> in_upper c = false).
Proof.
  intros HC Hu Hg Hld Hms.
  pose proof HC as (_ & _ & HCT). pose proof (HCT pp pn Hg) as N. cbn [app] in N. destruct (ok_ld _ _ _ _ N Hld) as (_ & _ & Kids).
  destruct (lstack_head_rel s u _ _ _ Hu Hms) as (i0 & irest & Hl & He).
  destruct (afind nm (n_ch pn)) as [c|] eqn:Ec.
  2:{ exfalso. apply Kids in Ec. rewrite <- lstack_snoc, Hl in Ec. discriminate. }
  pose proof (nget_snoc pp nm (root s) pn c Hg Ec) as Hgq.
  destruct (cand_node s _ c i0 irest t0 HC Hgq Hl He) as (cr & crs & Ecr & _ & _ & Hcup & Hstc & Hwc & _).
  exists c. split; [reflexivity|]. split; [exact Hgq|]. split; [exact Hwc|]. split; [exact Hstc|].
  intros Hnone. unfold in_upper. rewrite Ecr, Hcup. apply Nat.eqb_neq. intros ->. unfold ent in He. cbn [get_layer] in He. rewrite Hu, Hnone in He. discriminate.
Qed.

(* ------------------------------------------------------------------ the bodies run alike before and after the copy-up *)
Section Rerun.
Variables (pp : path) (nm : name) (s2 s3 : state) (u u3 : tree) (pn2 pn3 c : node).
Hypothesis Hu2 : upper s2 = Some u.
Hypothesis Hu3 : upper s3 = Some u3.
Hypothesis Hg2 : nget pp (root s2) = Some pn2.
Hypothesis Hg3 : nget pp (root s3) = Some pn3.
Hypothesis Hw2 : n_wh pn2 = false.
Hypothesis Hw3 : n_wh pn3 = false.
Hypothesis Lk2 : forall nmo, lookup_node pp nmo s2 =
       (match nmo with None => Ok pp | Some nm => match afind nm (n_ch pn2) with Some _ => Ok (pp ++ [nm]) | None => Err ENOENT end end, s2).
Hypothesis Lk3 : forall nmo, lookup_node pp nmo s3 =
       (match nmo with None => Ok pp | Some nm => match afind nm (n_ch pn3) with Some _ => Ok (pp ++ [nm]) | None => Err ENOENT end end, s3).
Hypothesis Hc2 : afind nm (n_ch pn2) = Some c.
Hypothesis Hc3 : afind nm (n_ch pn3) = Some c.
Hypothesis Hgq2 : nget (pp ++ [nm]) (root s2) = Some c.
Hypothesis Hgq3 : nget (pp ++ [nm]) (root s3) = Some c.
Hypothesis Ecu : copy_node_up pp s2 = (Ok tt, s3).
Hypothesis Cu3 : copy_node_up pp s3 = (Ok tt, s3).

Lemma lki2 : lookup_node_ignore_enoent pp nm s2 = (Ok (Some (pp ++ [nm])), s2).
Proof. unfold lookup_node_ignore_enoent. rewrite (Lk2 (Some nm)), Hc2. reflexivity. Qed.
Lemma lki3 : lookup_node_ignore_enoent pp nm s3 = (Ok (Some (pp ++ [nm])), s3).
Proof. unfold lookup_node_ignore_enoent. rewrite (Lk3 (Some nm)), Hc3. reflexivity. Qed.

Lemma do_make_rerun mk : n_wh c = true -> do_make pp nm mk s2 = do_make pp nm mk s3.
Proof.
  intros Hwc. unfold do_make.
  rewrite (bind_ok _ _ _ _ _ (need_upper_ok s3 u3 Hu3)), (bind_ok _ _ _ _ _ (get_node_ok pp s3 pn3 Hg3)), Hw3.
  rewrite (bind_ok _ _ _ _ _ lki3), (bind_ok _ _ _ _ _ (get_node_ok _ s3 c Hgq3)), Hwc. cbn [negb]. rewrite (bind_ok _ _ _ _ _ Cu3).
  rewrite (bind_ok _ _ _ _ _ (need_upper_ok s2 u Hu2)), (bind_ok _ _ _ _ _ (get_node_ok pp s2 pn2 Hg2)), Hw2.
  rewrite (bind_ok _ _ _ _ _ lki2), (bind_ok _ _ _ _ _ (get_node_ok _ s2 c Hgq2)), Hwc. cbn [negb]. rewrite (bind_ok _ _ _ _ _ Ecu). reflexivity.
Qed.
Lemma do_mkdir_rerun mode : n_wh c = true -> do_mkdir pp nm mode s2 = do_mkdir pp nm mode s3.
Proof.
  intros Hwc. unfold do_mkdir.
  assert (Efl3 : (n <- get_node (pp ++ [nm]);; (if negb (n_wh n) then fail EEXIST else ret (in_upper n, true))) s3 = (Ok (in_upper c, true), s3)).
  { rewrite (bind_ok _ _ _ _ _ (get_node_ok _ s3 c Hgq3)), Hwc. reflexivity. }
  assert (Efl2 : (n <- get_node (pp ++ [nm]);; (if negb (n_wh n) then fail EEXIST else ret (in_upper n, true))) s2 = (Ok (in_upper c, true), s2)).
  { rewrite (bind_ok _ _ _ _ _ (get_node_ok _ s2 c Hgq2)), Hwc. reflexivity. }
  rewrite (bind_ok _ _ _ _ _ (need_upper_ok s3 u3 Hu3)), (bind_ok _ _ _ _ _ (get_node_ok pp s3 pn3 Hg3)), Hw3.
  rewrite (bind_ok _ _ _ _ _ lki3), (bind_ok _ _ _ _ _ Efl3), (bind_ok _ _ _ _ _ Cu3).
  rewrite (bind_ok _ _ _ _ _ (need_upper_ok s2 u Hu2)), (bind_ok _ _ _ _ _ (get_node_ok pp s2 pn2 Hg2)), Hw2.
  rewrite (bind_ok _ _ _ _ _ lki2), (bind_ok _ _ _ _ _ Efl2), (bind_ok _ _ _ _ _ Ecu). reflexivity.
Qed.
End Rerun.

(* the state after the copy-up of the parent, for an operation on [pp]/[nm] *)
Definition cu_state (s : state) (u : tree) (pp : path) (s3 : state) (u3 : tree) : Prop :=
  Coherent s3 /\ upper s3 = Some u3 /\ lowers s3 = lowers s /\ next_ino s3 = next_ino s /\
  oteq (merge (u3 :: lowers s)) (merge (u :: lowers s)) /\ cu_disk_rel u (lowers s) pp u3 /\
  (exists m3 x3 ch3, tget u3 pp = Some (Dir m3 x3 ch3)).

Lemma ins_wh_rerun o (pp : path) (nm : name) c0 s u m x ch r0 rest0 :
  ins_leaf o (next_ino s) = Some (pp ++ [nm], c0) ->
  Coherent s -> upper s = Some u -> visp (u :: lowers s) [] pp -> mstack (u :: lowers s) pp = Dir m x ch :: r0 -> tget u pp = None ->
  (List.length pp < DEPTH)%nat -> cu_disk_ok u (lowers s) pp -> mstack (u :: lowers s) (pp ++ [nm]) = Wh :: rest0 ->
  exists s3 u3, step o s = step o s3 /\ cu_state s u pp s3 u3.
Proof.
  intros Ho HC Hu Hvis Hpp Hnoup Hdep Hcu Hms.
  destruct (parent_prefix_run pp s u m x ch r0 HC Hu Hvis Hpp) as (s1 & s2 & pn2 & E1 & Elk & Esy & HC2 & (U2 & L2 & I2) & Hg2 & Hw2 & Hld2 & Hst2 & Lk2).
  assert (Hu2 : upper s2 = Some u) by congruence.
  destruct (child_of_cand pp nm s2 u pn2 Wh rest0 HC2 Hu2 Hg2 Hld2) as (c & Hc2 & Hgq2 & Hwc & _); [rewrite L2; exact Hms|]. cbn in Hwc.
  destruct (cu_prestate pp s2 u pn2 m x ch HC2 Hu2 Hg2 Hst2 Hld2 Hdep) as (s3 & u3 & pn3 & pr & prs & m3 & x3 & ch3 & Ecu & HC3 & Hu3 & L3 & I3 & M3 & Hrel & Hg3 & Hld3 & Hw3 & Er3 & Hup3 & _ & _ & Hpp3 & Fr & _ & W3 & Cu3 & Lk3);
    [rewrite L2; exact Hcu|].
  assert (Hc3 : afind nm (n_ch pn3) = Some c) by (rewrite (cache_frame_child pp nm s2 s3 pn2 pn3 Fr Hg2 Hg3); exact Hc2).
  pose proof (nget_snoc pp nm (root s3) pn3 c Hg3 Hc3) as Hgq3.
  assert (Esy3 : sync_parent pp s3 = (Ok tt, s3)).
  { unfold sync_parent. rewrite (bind_ok _ _ _ _ _ (Lk3 None)), (bind_ok _ _ _ _ _ (get_node_ok pp s3 pn3 Hg3)), Hw3. reflexivity. }
  exists s3, u3. split.
  2:{ rewrite L2 in *. repeat (split; [first [assumption|congruence]|]). eauto. }
  assert (Hmk : forall mk, do_make pp nm mk s2 = do_make pp nm mk s3).
  { intros mk. apply (do_make_rerun pp nm s2 s3 u u3 pn2 pn3 c); assumption. }
  assert (Hmd : forall mode, do_mkdir pp nm mode s2 = do_mkdir pp nm mode s3).
  { intros mode. apply (do_mkdir_rerun pp nm s2 s3 u u3 pn2 pn3 c); assumption. }
  unfold walk in *.
  destruct o; cbn [ins_leaf] in Ho; inversion Ho; subst; cbn [step]; rewrite with_parent_snoc; unfold walk;
    rewrite (bind_ok _ _ _ _ _ E1), (bind_ok _ _ _ _ _ W3).
  - rewrite (bind_ok _ _ _ _ _ Esy), (bind_ok _ _ _ _ _ Esy3). apply bind_congr'. apply Hmk.
  - rewrite (bind_ok _ _ _ _ _ Esy), (bind_ok _ _ _ _ _ Esy3). apply bind_congr'. apply Hmd.
  - rewrite (bind_ok _ _ _ _ _ Esy), (bind_ok _ _ _ _ _ Esy3). apply bind_congr'. apply Hmk.
  - rewrite (bind_ok _ _ _ _ _ Elk), (bind_ok _ _ _ _ _ (Lk3 None)). apply bind_congr'. apply Hmk.
Qed.

(* rmdir: the directory is loaded (and found to show nothing) before the parent is copied up *)
Lemma rmdir_rerun (pp : path) (nm : name) s u m x ch r0 mq xq chq rest0 :
  Coherent s -> upper s = Some u -> visp (u :: lowers s) [] pp -> mstack (u :: lowers s) pp = Dir m x ch :: r0 -> tget u pp = None ->
  (List.length pp < DEPTH)%nat -> cu_disk_ok u (lowers s) pp ->
  mstack (u :: lowers s) (pp ++ [nm]) = Dir mq xq chq :: rest0 -> view_empty (Dir mq xq chq :: rest0) ->
  exists s3 u3, step (ORmdir (pp ++ [nm])) s = step (ORmdir (pp ++ [nm])) s3 /\ cu_state s u pp s3 u3 /\ tget u3 (pp ++ [nm]) = None.
Proof.
  intros HC Hu Hvis Hpp Hnoup Hdep Hcu Hms Hemp. set (q := pp ++ [nm]) in *. set (t0 := Dir mq xq chq) in *.
  destruct (parent_prefix_run pp s u m x ch r0 HC Hu Hvis Hpp) as (s1 & s2 & pn2 & E1 & Elk & Esy & HC2 & (U2 & L2 & I2) & Hg2 & Hw2 & Hld2 & Hst2 & Lk2).
  assert (Hu2 : upper s2 = Some u) by congruence.
  assert (Hnq : tget u q = None) by (apply tget_none_app; exact Hnoup).
  destruct (child_of_cand pp nm s2 u pn2 t0 rest0 HC2 Hu2 Hg2 Hld2) as (c & Hc2 & Hgq2 & Hwc & Hstc & Hinc); [rewrite L2; exact Hms|]. cbn in Hwc. specialize (Hinc Hnq).
  (* the target is loaded *)
  destruct (load_dir_run q s2 c _ _ _ HC2 Hgq2 Hstc) as (sl & cl & El & HCl & (Ul & Ll & Il) & Hgl & Hldl & Hrootl).
  assert (Hul : upper sl = Some u) by congruence.
  assert (Hpl : exists pnl, nget pp (root sl) = Some pnl).
  { destruct Hrootl as [->|[g ->]]; [eauto|]. unfold q. apply (nget_parent_nupd pp nm g (root s2) pn2 Hg2). }
  destruct Hpl as [pnl Hgpl].
  pose proof (nget_child pp nm (root sl) pnl cl Hgpl Hgl) as Hcl.
  destruct (has_child_loaded sl pp pnl nm cl HCl Hgpl Hcl) as [Hldpl Hwpl].
  assert (Hmsl : mstack (u :: lowers sl) q = t0 :: rest0) by (rewrite Ll, L2; exact Hms).
  assert (Hstpl : node_stat sl pnl = Some (Dir m x ch)) by (apply (node_stat_head sl u pp pnl _ r0 HCl Hul Hgpl); rewrite Ll, L2; exact Hpp).
  assert (Hstcl : node_stat sl cl = Some t0) by (apply (node_stat_head sl u q cl _ rest0 HCl Hul Hgl Hmsl)).
  assert (Hincl : in_upper cl = false).
  { destruct (in_upper cl) eqn:E; [|reflexivity]. rewrite (upper_dir_of_node sl u q cl _ HCl Hul Hgl E Hstcl) in Hnq. discriminate. }
  destruct (node_first_real sl q cl HCl Hgl) as (rl & rsl & tl0 & _ & _ & Hstl' & _ & _ & _ & _ & Hwcl). assert (tl0 = t0) by congruence. subst tl0. cbn in Hwcl.
  pose proof (view_empty_children sl u q cl t0 rest0 HCl Hul Hgl Hldl Hmsl Hemp) as Hcnt.
  destruct (cu_prestate pp sl u pnl m x ch HCl Hul Hgpl Hstpl Hldpl Hdep) as (s3 & u3 & pn3 & pr & prs & m3 & x3 & ch3 & Ecu & HC3 & Hu3 & L3 & I3 & M3 & Hrel & Hg3 & Hld3 & Hw3 & Er3 & Hup3 & _ & _ & Hpp3 & Fr & _ & W3 & Cu3 & Lk3);
    [rewrite Ll, L2; exact Hcu|].
  assert (Hc3 : afind nm (n_ch pn3) = Some cl) by (rewrite (cache_frame_child pp nm sl s3 pnl pn3 Fr Hgpl Hg3); exact Hcl).
  pose proof (nget_snoc pp nm (root s3) pn3 cl Hg3 Hc3) as Hgq3. fold q in Hgq3.
  assert (Hstc3 : node_stat s3 cl = Some t0) by (rewrite (lower_node_stat sl s3 q cl HCl Hgl Hincl L3); exact Hstcl).
  exists s3, u3. split; [|split].
  2:{ rewrite Ll, L2 in *. unfold cu_state. repeat (split; [first [assumption|congruence]|]). eauto. }
  2:{ exact (not_upper_no_entry s3 u3 q cl HC3 Hu3 Hgq3 Hincl). }
  (* the part of do_rm before the copy-up, from s2 and from s3 *)
  set (MID := (load_dir q;;; n1 <- get_node q;; st <- stat_node n1;;
      (if negb (is_dirT st) then fail ENOTDIR else
       if negb (Nat.eqb (List.length (filter (fun kv : name * node => negb (n_wh (snd kv))) (n_ch n1))) 0) then fail ENOTEMPTY else
       if negb (Nat.eqb (List.length (filter (fun kv : name * node => n_wh (snd kv)) (n_ch n1))) 0) && in_upper n1 then empty_node_directory q else ret tt))).
  assert (Emid2 : MID s2 = (Ok tt, sl)).
  { unfold MID. rewrite (bind_ok _ _ _ _ _ El), (bind_ok _ _ _ _ _ (get_node_ok q sl cl Hgl)).
    assert (Es : stat_node cl sl = (Ok t0, sl)) by (unfold stat_node; rewrite Hstcl; reflexivity).
    rewrite (bind_ok _ _ _ _ _ Es). unfold t0 at 1. cbn [is_dirT negb]. rewrite Hcnt, Hincl, andb_false_r. reflexivity. }
  assert (Emid3 : MID s3 = (Ok tt, s3)).
  { unfold MID. assert (El3 : load_dir q s3 = (Ok tt, s3)) by (unfold load_dir; rewrite (bind_ok _ _ _ _ _ (get_node_ok q s3 cl Hgq3)), Hldl; reflexivity).
    rewrite (bind_ok _ _ _ _ _ El3), (bind_ok _ _ _ _ _ (get_node_ok q s3 cl Hgq3)).
    assert (Es : stat_node cl s3 = (Ok t0, s3)) by (unfold stat_node; rewrite Hstc3; reflexivity).
    rewrite (bind_ok _ _ _ _ _ Es). unfold t0 at 1. cbn [is_dirT negb]. rewrite Hcnt, Hincl, andb_false_r. reflexivity. }
  assert (Hrm : do_rm pp nm true s1 = do_rm pp nm true s3).
  { unfold do_rm. fold q. fold MID.
    rewrite (bind_ok _ _ _ _ _ (need_upper_ok s3 u3 Hu3)), (bind_ok _ _ _ _ _ (Lk3 None)), (bind_ok _ _ _ _ _ (get_node_ok pp s3 pn3 Hg3)), Hw3.
    pose proof (Lk3 (Some nm)) as Lq3. cbn beta iota in Lq3. rewrite Hc3 in Lq3. fold q in Lq3.
    rewrite (bind_ok _ _ _ _ _ Lq3), (bind_ok _ _ _ _ _ (get_node_ok q s3 cl Hgq3)), Hwcl, (bind_ok _ _ _ _ _ Emid3), (bind_ok _ _ _ _ _ Cu3).
    assert (Hu1 : upper s1 = Some u).
    { pose proof (keeps_sd (lookup_node pp None) s1 (keeps_lookup_node pp None)) as (A & _). rewrite Elk in A. cbn [snd] in A. congruence. }
    rewrite (bind_ok _ _ _ _ _ (need_upper_ok s1 u Hu1)), (bind_ok _ _ _ _ _ Elk), (bind_ok _ _ _ _ _ (get_node_ok pp s2 pn2 Hg2)), Hw2.
    pose proof (Lk2 (Some nm)) as Lq2. cbn beta iota in Lq2. rewrite Hc2 in Lq2. fold q in Lq2.
    rewrite (bind_ok _ _ _ _ _ Lq2), (bind_ok _ _ _ _ _ (get_node_ok q s2 c Hgq2)), Hwc, (bind_ok _ _ _ _ _ Emid2), (bind_ok _ _ _ _ _ Ecu). reflexivity. }
  cbn [step]. unfold q. rewrite with_parent_snoc. unfold walk in *. rewrite (bind_ok _ _ _ _ _ E1), (bind_ok _ _ _ _ _ W3).
  apply bind_congr'. exact Hrm.
Qed.

(* ------------------------------------------------------------------ the fragment *)
(* [direct_cu_wh s o]: below a visible directory that the upper layer does not hold (chain within [cu_okb]):
   mkdir / create / mknod / symlink of a name whose first candidate is a whiteout; rmdir of a directory that shows no entry *)
Definition direct_cu_wh (s : state) (o : op) : bool :=
  match upper s with
  | None => false
  | Some u =>
      let L := u :: lowers s in
      let par (p : path) (test : list tree -> bool) :=
        match split_last p with
        | Some (pp, nm) =>
            (List.length p <? DEPTH)%nat && visb L [] pp && match tget u pp with None => true | Some _ => false end &&
            match mstack L pp with Dir _ _ _ :: _ => true | _ => false end && cu_okb u (lowers s) pp && test (mstack L p)
        | None => false
        end in
      match o with
      | OMkdir p _ | OCreate p _ | OMknod p _ | OSymlink p _ => par p (fun g => match g with Wh :: _ => true | _ => false end)
      | ORmdir p => par p (fun g => match g with Dir _ _ _ :: _ => view_emptyb g | _ => false end)
      | _ => false
      end
  end.

Theorem op_refines_cu_wh s o v : Coherent s -> direct_cu_wh s o = true -> view (load_all s) = Some v -> refines_at s o v.
Proof.
  intros HC Hd Hv. unfold direct_cu_wh in Hd. destruct (upper s) as [u|] eqn:Hu; [|discriminate]. cbv zeta in Hd.
  pose proof (coherent_wf_layers s u HC Hu) as W.
  assert (Hpar : forall p test, match split_last p with
        | Some (pp, nm) =>
            (List.length p <? DEPTH)%nat && visb (u :: lowers s) [] pp && match tget u pp with None => true | Some _ => false end &&
            match mstack (u :: lowers s) pp with Dir _ _ _ :: _ => true | _ => false end && cu_okb u (lowers s) pp && test (mstack (u :: lowers s) p)
        | None => false end = true ->
        exists pp nm m x ch r0, p = pp ++ [nm] /\ (List.length p < DEPTH)%nat /\ visp (u :: lowers s) [] pp /\ tget u pp = None /\
          mstack (u :: lowers s) pp = Dir m x ch :: r0 /\ cu_disk_ok u (lowers s) pp /\ test (mstack (u :: lowers s) p) = true).
  { intros p test H. destruct (split_last p) as [[pp nm]|] eqn:Esp; [|discriminate]. apply split_last_spec in Esp.
    apply andb_prop in H. destruct H as [H H6]. apply andb_prop in H. destruct H as [H H5]. apply andb_prop in H. destruct H as [H H4].
    apply andb_prop in H. destruct H as [H H3]. apply andb_prop in H. destruct H as [H1 H2]. apply Nat.ltb_lt in H1.
    destruct (tget u pp) eqn:Hnoup; [discriminate|]. destruct (mstack (u :: lowers s) pp) as [|[m x ch| | |] r0] eqn:Hpp; try discriminate.
    exists pp, nm, m, x, ch, r0. split; [exact Esp|]. split; [exact H1|]. split; [apply visb_visp; exact H2|]. split; [exact Hnoup|]. split; [exact Hpp|].
    split; [apply cu_okb_ok; exact H5|exact H6]. }
  assert (Hins : forall p, match split_last p with
        | Some (pp, nm) =>
            (List.length p <? DEPTH)%nat && visb (u :: lowers s) [] pp && match tget u pp with None => true | Some _ => false end &&
            match mstack (u :: lowers s) pp with Dir _ _ _ :: _ => true | _ => false end && cu_okb u (lowers s) pp &&
            (fun g => match g with Wh :: _ => true | _ => false end) (mstack (u :: lowers s) p)
        | None => false end = true -> forall c0, ins_leaf o (next_ino s) = Some (p, c0) -> refines_at s o v).
  { intros p H c0 Ho. destruct (Hpar p (fun g => match g with Wh :: _ => true | _ => false end) H) as (pp & nm & m & x & ch & r0 & -> & Hlen & Hvis & Hnoup & Hpp & Hcu & Ht). cbv beta in Ht.
    destruct (mstack (u :: lowers s) (pp ++ [nm])) as [|[| | |] rest0] eqn:Hms; try discriminate.
    assert (Hdep : (List.length pp < DEPTH)%nat) by (rewrite app_length in Hlen; cbn in Hlen; lia).
    destruct (ins_wh_rerun o pp nm c0 s u m x ch r0 rest0 Ho HC Hu Hvis Hpp Hnoup Hdep Hcu Hms) as (s3 & u3 & Hrun & HC3 & Hu3 & L3 & I3 & M3 & [R1 _] & (m3 & x3 & ch3 & Hpp3)).
    destruct (views_teq s s3 u u3 v HC HC3 Hu Hu3 L3 M3 Hv) as (v3 & Hv3 & T3).
    apply (refines_transfer s s3 o v v3 Hrun L3 I3 T3). apply (op_refines_whiteout s3 o v3 HC3); [|exact Hv3].
    unfold direct_wh. rewrite Hu3, L3. cbv zeta.
    assert (E : (List.length (pp ++ [nm]) <? DEPTH)%nat && match tget u3 pp with Some (Dir _ _ _) => true | _ => false end &&
                match mstack (u3 :: lowers s) (pp ++ [nm]) with Wh :: _ => true | _ => false end = true).
    { rewrite Hpp3, (proj2 (Nat.ltb_lt _ _) Hlen), (R1 nm []), Hms. reflexivity. }
    destruct o; cbn [ins_leaf] in Ho; inversion Ho; subst; rewrite split_last_snoc; exact E. }
  destruct o; try discriminate.
  - apply (Hins p Hd _ eq_refl).
  - apply (Hins p Hd _ eq_refl).
  - apply (Hins p Hd _ eq_refl).
  - apply (Hins p Hd _ eq_refl).
  - destruct (Hpar p (fun g => match g with Dir _ _ _ :: _ => view_emptyb g | _ => false end) Hd) as (pp & nm & m & x & ch & r0 & -> & Hlen & Hvis & Hnoup & Hpp & Hcu & Ht). cbv beta in Ht.
    destruct (mstack (u :: lowers s) (pp ++ [nm])) as [|[mq xq chq| | |] rest0] eqn:Hms; try discriminate.
    assert (Hdep : (List.length pp < DEPTH)%nat) by (rewrite app_length in Hlen; cbn in Hlen; lia).
    assert (Hemp : view_empty (Dir mq xq chq :: rest0)) by (rewrite <- Hms; apply view_emptyb_ok; [apply mstack_wf; exact W|rewrite Hms; exact Ht]).
    destruct (rmdir_rerun pp nm s u m x ch r0 mq xq chq rest0 HC Hu Hvis Hpp Hnoup Hdep Hcu Hms Hemp) as (s3 & u3 & Hrun & (HC3 & Hu3 & L3 & I3 & M3 & [R1 _] & (m3 & x3 & ch3 & Hpp3)) & Hq3).
    destruct (views_teq s s3 u u3 v HC HC3 Hu Hu3 L3 M3 Hv) as (v3 & Hv3 & T3).
    apply (refines_transfer s s3 _ v v3 Hrun L3 I3 T3). apply (op_refines_rmdir_low s3 _ v3 HC3); [|exact Hv3].
    unfold direct_rmdir_low. rewrite Hu3, L3, split_last_snoc, Hpp3, Hq3, (proj2 (Nat.ltb_lt _ _) Hlen), (R1 nm []), Hms. exact Ht.
Qed.
