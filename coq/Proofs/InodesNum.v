(* C08: one number per live host identity, one identity per number, and stability of the number
   after forget + re-lookup (counter modes). *)
From Coq Require Import List NArith Bool Lia.
From FB Require Import Model.Inodes Proofs.InodesMap Proofs.Inodes.
Import ListNotations.
Local Open Scope N_scope.

(* every inode object is of the kind the configuration dictates: a file handle iff inode_file_handles
   (hypothesis on the host: in handle mode every file of the export yields a file handle) *)
Definition okfh (c : cfg) (fh : option N) : Prop := is_none fh = negb (ifh c).
Definition IFh (c : cfg) (s : istate) : Prop := forall i d, dget s i = Some d -> okfh c (i_fh d).
(* every live inode object is registered under its own key, with its own number *)
Definition IA (s : istate) : Prop := forall i d, dget s i = Some d -> get_inode_locked s (i_id d) (i_fh d) = Some i.
Definition wf_t (c : cfg) (t : target) : Prop := okfh c (eff_fh c t).

Definition same_key (c : cfg) (d d' : idata) : Prop := if ifh c then i_fh d = i_fh d' else i_id d = i_id d'.

(* one number per live host identity *)
Theorem one_number_per_identity c s i j d d' :
  IA s -> IFh c s -> dget s i = Some d -> dget s j = Some d' -> same_key c d d' -> i = j.
Proof.
  intros A F Li Lj K. pose proof (A _ _ Li) as Ai. pose proof (A _ _ Lj) as Aj.
  pose proof (F _ _ Li) as Fi. pose proof (F _ _ Lj) as Fj. unfold okfh, same_key, get_inode_locked in *.
  destruct (ifh c); cbn in *.
  - destruct (i_fh d) as [h|]; [|discriminate]. destruct (i_fh d') as [h'|]; [|discriminate].
    inversion K; subst. congruence.
  - destruct (i_fh d) as [h|]; [discriminate|]. destruct (i_fh d') as [h'|]; [discriminate|].
    rewrite K in Ai. congruence.
Qed.

Lemma gil_insert s i d id fh :
  get_inode_locked (insert s i d) id fh =
  match fh with
  | Some h => match i_fh d with
              | Some h0 => if h =? h0 then Some i else mget N.eqb (by_handle s) h
              | None => mget N.eqb (by_handle s) h
              end
  | None => if hid_eqb id (i_id d) then Some i else mget hid_eqb (by_id s) id
  end.
Proof.
  unfold get_inode_locked, insert; cbn. destruct fh as [h|].
  - destruct (i_fh d) as [h0|]; [apply nnget_set|reflexivity].
  - apply hget_set.
Qed.

Lemma get_alt_none_key s id fh j d :
  get_alt s id fh = None -> IA s -> dget s j = Some d ->
  (forall h, fh = Some h -> i_fh d <> Some h) /\ (i_fh d = None -> i_id d <> id).
Proof.
  intros GA A L. pose proof (A _ _ L) as Aj. unfold get_alt, get_by_handle, get_by_id, get_inode_locked in *. split.
  - intros h -> E. rewrite E in Aj. rewrite Aj, L in GA. discriminate.
  - intros E X. rewrite E in Aj. subst id. rewrite Aj, L in GA. rewrite E in GA.
    destruct fh as [h|].
    + destruct (mget N.eqb (by_handle s) h) as [i0|]; [destruct (dget s i0)|]; cbn in GA; try discriminate;
        rewrite Bool.orb_true_r in GA; discriminate.
    + discriminate.
Qed.

Lemma do_lookup_IA c s t r s' : IA s -> IFh c s -> wf_t c t -> do_lookup c s t = (r, s') -> IA s' /\ IFh c s'.
Proof.
  intros A F W H. destruct (do_lookup_cases _ _ _ _ _ H) as
    [(i & d & GA & Z & -> & ->)|[(i & d & GA & Z & -> & ->)|[(i & s1 & GA & AL & B & -> & ->)|(ro & GA & -> & AL)]]].
  - pose proof (get_alt_live _ _ _ _ _ GA) as L. split.
    + intros j dj. rewrite dget_set_rc. destruct (N.eqb_spec j i) as [->|NE].
      * intros X; inversion X; subst; cbn. apply (A _ _ L).
      * intros X. apply (A _ _ X).
    + intros j dj. rewrite dget_set_rc. destruct (N.eqb_spec j i) as [->|NE].
      * intros X; inversion X; subst; cbn. apply (F _ _ L).
      * apply F.
  - auto.
  - destruct (alloc_frame _ _ _ _ _ _ AL) as (D1 & D2 & D3).
    assert (A1 : IA s1).
    { intros j dj. rewrite (dget_frame _ _ _ D1). intros X. unfold get_inode_locked. rewrite D2, D3. apply (A _ _ X). }
    assert (GA1 : get_alt s1 (t_id t) (eff_fh c t) = None).
    { unfold get_alt, get_by_handle, get_by_id, dget in *. rewrite D1, D2, D3. exact GA. }
    split.
    + intros j dj. rewrite dget_insert. destruct (N.eqb_spec j i) as [->|NE].
      * intros X; inversion X; subst. rewrite gil_insert. unfold new_idata; cbn.
        destruct (eff_fh c t) as [h|]; [rewrite N.eqb_refl; reflexivity|].
        destruct (hid_eqb_spec (t_id t) (t_id t)); [reflexivity|congruence].
      * intros X. rewrite gil_insert. unfold new_idata; cbn.
        destruct (get_alt_none_key _ _ _ _ _ GA1 A1 X) as [K1 K2]. pose proof (A1 _ _ X) as AX.
        unfold get_inode_locked in AX.
        destruct (i_fh dj) as [h'|] eqn:E.
        -- destruct (eff_fh c t) as [h|]; [|exact AX].
           destruct (N.eqb_spec h' h) as [->|]; [exfalso; apply (K1 h eq_refl); reflexivity|exact AX].
        -- destruct (hid_eqb_spec (i_id dj) (t_id t)) as [E2|]; [exfalso; apply (K2 eq_refl E2)|exact AX].
    + intros j dj. rewrite dget_insert, (dget_frame _ _ _ D1). destruct (N.eqb_spec j i) as [->|NE].
      * intros X; inversion X; subst; cbn. exact W.
      * apply F.
  - destruct (alloc_frame _ _ _ _ _ _ AL) as (D1 & D2 & D3). split.
    + intros j dj. rewrite (dget_frame _ _ _ D1). intros X. unfold get_inode_locked. rewrite D2, D3. apply (A _ _ X).
    + intros j dj. rewrite (dget_frame _ _ _ D1). apply F.
Qed.

Lemma forget_IA c s i n : IA s -> IFh c s -> IA (forget_one c s i n) /\ IFh c (forget_one c s i n).
Proof.
  intros A F. unfold forget_one. destruct (i =? ROOT_ID); [auto|].
  destruct (dget s i) as [d|] eqn:L; [|auto].
  destruct (sat_sub (i_rc d) n =? 0).
  - split.
    + intros j dj. rewrite dget_remove. destruct (N.eqb_spec j i) as [->|NE]; [discriminate|].
      intros X. pose proof (A _ _ X) as AX. pose proof (A _ _ L) as AL.
      pose proof (F _ _ X) as FX. pose proof (F _ _ L) as FL. unfold okfh in *.
      unfold remove. rewrite L. destruct (negb (uhi c) || (MAX_HOST_INO <? hid_ino (i_id d))); [exact AX|].
      unfold get_inode_locked in *; cbn.
      destruct (i_fh dj) as [h'|] eqn:E1; destruct (i_fh d) as [h|] eqn:E2; cbn in *; try congruence.
      * rewrite nnget_del. destruct (N.eqb_spec h' h) as [->|]; [congruence|exact AX].
      * rewrite hget_del. destruct (hid_eqb_spec (i_id dj) (i_id d)) as [E3|]; [rewrite E3 in AX; congruence|exact AX].
    + intros j dj. rewrite dget_remove. destruct (j =? i); [discriminate|apply F].
  - split.
    + intros j dj. rewrite dget_set_rc. destruct (N.eqb_spec j i) as [->|NE].
      * intros X; inversion X; subst; cbn. apply (A _ _ L).
      * intros X. apply (A _ _ X).
    + intros j dj. rewrite dget_set_rc. destruct (N.eqb_spec j i) as [->|NE].
      * intros X; inversion X; subst; cbn. apply (F _ _ L).
      * apply F.
Qed.

(* ------------------------------------------------------------------ stability of the number (counter modes) *)
(* a key that has a number keeps it through lookups and forgets *)
Lemma do_lookup_keeps_number c s t r s' id fh i :
  uhi c = false -> is_none fh = is_none (eff_fh c t) ->
  do_lookup c s t = (r, s') -> get_inode_locked s id fh = Some i ->
  get_inode_locked s' id fh = Some i.
Proof.
  intros U SK H G. destruct (do_lookup_cases _ _ _ _ _ H) as
    [(i0 & d & GA & Z & -> & ->)|[(i0 & d & GA & Z & -> & ->)|[(i0 & s1 & GA & AL & B & -> & ->)|(ro & GA & -> & AL)]]].
  - exact G.
  - exact G.
  - unfold allocate_inode in AL. rewrite U in AL. cbn [negb] in AL.
    destruct (get_inode_locked s (t_id t) (eff_fh c t)) as [m|] eqn:GL; inversion AL; subst; clear AL;
      rewrite gil_insert; unfold new_idata, get_inode_locked in *; cbn;
      destruct fh as [h|]; destruct (eff_fh c t) as [h0|]; cbn in SK; try discriminate.
    + destruct (N.eqb_spec h h0) as [->|]; [congruence|exact G].
    + destruct (hid_eqb_spec id (t_id t)) as [->|]; [congruence|exact G].
    + destruct (N.eqb_spec h h0) as [->|]; [congruence|exact G].
    + destruct (hid_eqb_spec id (t_id t)) as [->|]; [congruence|exact G].
  - destruct (alloc_frame _ _ _ _ _ _ AL) as (D1 & D2 & D3). unfold get_inode_locked in *. rewrite D2, D3. exact G.
Qed.

Lemma forget_keeps_number c s i n id fh j :
  uhi c = false -> get_inode_locked s id fh = Some j -> get_inode_locked (forget_one c s i n) id fh = Some j.
Proof.
  intros U G. unfold forget_one. destruct (i =? ROOT_ID); [exact G|].
  destruct (dget s i) as [d|] eqn:L; [|exact G].
  destruct (sat_sub (i_rc d) n =? 0); [|exact G].
  unfold remove. rewrite L, U. cbn. exact G.
Qed.

(* a successful lookup of a key that has a number returns that number, and leaves the key bound to
   the number it returned: together with the two lemmas above, a file looked up again after being
   forgotten gets the same number *)
Theorem lookup_returns_bound_number c s t s' i j :
  uhi c = false -> IFh c s -> wf_t c t ->
  do_lookup c s t = (LOk j, s') ->
  (get_inode_locked s (t_id t) (eff_fh c t) = Some i -> j = i) /\
  get_inode_locked s' (t_id t) (eff_fh c t) = Some j.
Proof.
  intros U F W H. destruct (do_lookup_cases _ _ _ _ _ H) as
    [(i0 & d & GA & Z & E & ->)|[(i0 & d & GA & Z & E & ->)|[(i0 & s1 & GA & AL & B & E & ->)|(ro & GA & E & AL)]]];
    try discriminate; inversion E; subst; clear E.
  - (* hit: the object found is registered under the probe key *)
    assert (K : get_inode_locked s (t_id t) (eff_fh c t) = Some i0).
    { pose proof (get_alt_live _ _ _ _ _ GA) as L. pose proof (F _ _ L) as FL.
      unfold get_alt, get_by_handle, get_by_id, get_inode_locked, wf_t, okfh in *.
      destruct (eff_fh c t) as [h|]; cbn in *.
      - destruct (mget N.eqb (by_handle s) h) as [m|] eqn:M.
        + destruct (dget s m) eqn:DM; [inversion GA; subst; reflexivity|].
          destruct (mget hid_eqb (by_id s) (t_id t)) as [m2|]; [|discriminate].
          destruct (dget s m2) as [d2|] eqn:D2; [|discriminate]. cbn in GA.
          destruct (is_none (i_fh d2)) eqn:N2; [|discriminate]. inversion GA; subst.
          rewrite D2 in L. inversion L; subst. rewrite N2 in FL. rewrite <- W in FL. discriminate.
        + destruct (mget hid_eqb (by_id s) (t_id t)) as [m2|]; [|discriminate].
          destruct (dget s m2) as [d2|] eqn:D2; [|discriminate]. cbn in GA.
          destruct (is_none (i_fh d2)) eqn:N2; [|discriminate]. inversion GA; subst.
          rewrite D2 in L. inversion L; subst. rewrite N2 in FL. rewrite <- W in FL. discriminate.
      - destruct (mget hid_eqb (by_id s) (t_id t)) as [m2|]; [|discriminate].
        destruct (dget s m2) as [d2|]; [|discriminate]. inversion GA; subst. reflexivity. }
    split; [intros G; congruence|]. unfold get_inode_locked, set_rc, set_data in *; cbn. exact K.
  - (* miss: allocate_inode returns the kept mapping, insert registers the key *)
    split.
    + intros G. unfold allocate_inode in AL. rewrite U in AL. cbn [negb] in AL. rewrite G in AL. inversion AL; subst. reflexivity.
    + rewrite gil_insert. unfold new_idata; cbn.
      destruct (eff_fh c t) as [h|]; [rewrite N.eqb_refl; reflexivity|].
      destruct (hid_eqb_spec (t_id t) (t_id t)); [reflexivity|congruence].
Qed.

(* ------------------------------------------------------------------ the key invariants hold along every history *)
Definition op_wf (c : cfg) (o : op) : Prop :=
  match o with
  | OLookup _ (Some t) | OEntry _ (Some t) | OLink _ _ (Some t) | OCreate _ (Some t) _ _ => wf_t c t
  | OReaddir _ ents => Forall (fun e => wf_t c (fst e)) ents
  | ODestroy root => wf_t c root
  | _ => True
  end.

Definition KInv (c : cfg) (s : istate) : Prop := IA s /\ IFh c s.

Lemma readdir_entries_KInv c plus : forall ents s,
  KInv c s -> Forall (fun e => wf_t c (fst e)) ents -> KInv c (snd (readdir_entries c plus s ents)).
Proof.
  induction ents as [|e r IH]; cbn [readdir_entries]; intros s K W; [exact K|].
  inversion W as [|? ? W1 W2]; subst. unfold readdir_entry.
  destruct (do_lookup c s (fst e)) as [lr s1] eqn:DL. destruct K as [A F].
  pose proof (do_lookup_IA _ _ _ _ _ A F W1 DL) as K1.
  destruct lr as [i| |]; cbn [snd]; try exact K1.
  set (s2 := if plus && snd e then s1 else forget_one c s1 i 1).
  assert (K2 : KInv c s2).
  { unfold s2. destruct (plus && snd e); [exact K1|]. destruct K1. apply forget_IA; assumption. }
  specialize (IH s2 K2 W2). destruct (readdir_entries c plus s2 r); exact IH.
Qed.

Lemma import_KInv s c root : data s = [] -> wf_t c root -> KInv c (import s c root).
Proof.
  intros D W. unfold import. split.
  - intros i d. rewrite dget_insert. destruct (N.eqb_spec i ROOT_ID) as [->|].
    + intros X; inversion X; subst. rewrite gil_insert; cbn.
      destruct (eff_fh c root); [rewrite N.eqb_refl; reflexivity|].
      destruct (hid_eqb_spec (t_id root) (t_id root)); [reflexivity|congruence].
    + unfold dget. rewrite D. discriminate.
  - intros i d. rewrite dget_insert. destruct (N.eqb_spec i ROOT_ID) as [->|].
    + intros X; inversion X; subst; cbn. exact W.
    + unfold dget. rewrite D. discriminate.
Qed.

Theorem step_KInv c s o : KInv c s -> op_wf c o -> KInv c (snd (step c s o)).
Proof.
  intros K W. pose proof K as [A F].
  assert (LK : forall t, wf_t c t -> KInv c (snd (lookup_reply c s t))).
  { intros t Wt. unfold lookup_reply. destruct (do_lookup c s t) as [lr s1] eqn:DL.
    pose proof (do_lookup_IA _ _ _ _ _ A F Wt DL). destruct lr; assumption. }
  destruct o as [p t|p t|i p t|p t ex ok|i n|l|plus ents| |root]; cbn [step op_wf] in *.
  - destruct (valid s p); [|exact K]. destruct t; [apply LK; exact W|exact K].
  - destruct (valid s p); [|exact K]. destruct t; [apply LK; exact W|exact K].
  - destruct (valid s i && valid s p); [|exact K]. destruct t; [apply LK; exact W|exact K].
  - destruct (valid s p); [|exact K]. destruct t as [t|]; [|exact K].
    specialize (LK t W). destruct (lookup_reply c s t) as [rep s1]. cbn [snd] in LK.
    destruct rep; try exact LK. destruct ex; [|exact LK].
    destruct (dget s1 i) as [d|]; [destruct (i_safe d); [destruct ok|]|]; cbn [snd];
      first [exact LK|destruct LK; apply forget_IA; assumption].
  - apply forget_IA; assumption.
  - cbn [snd]. clear LK A F. revert s K. induction l as [|x r IH]; cbn; intros s K; [exact K|].
    apply IH. destruct K. apply forget_IA; assumption.
  - pose proof (readdir_entries_KInv c plus ents s K W) as X.
    destruct (readdir_entries c plus s ents); exact X.
  - exact K.
  - cbn [snd]. apply import_KInv; [reflexivity|exact W].
Qed.

Lemma fresh_KInv c root : wf_t c root -> KInv c (fresh c root).
Proof. intros W. apply import_KInv; [reflexivity|exact W]. Qed.
