(* Well-formedness of the mount table and its preservation by every bookkeeping operation;
   reachable states. *)
From Coq Require Import List NArith Bool Lia.
From FB Require Import Model.Pseudo Gen.VfsTable Model.Vfs Proofs.VfsCodec Proofs.VfsAlloc.
Import ListNotations.
Local Open Scope N_scope.

(* ---------- association maps ---------- *)
Lemma aget_adel_same {V} k (m : amap V) : aget k (adel k m) = None.
Proof.
  induction m as [|[k' v] r IH]; [reflexivity|]. cbn [adel].
  destruct (k =? k') eqn:E; [exact IH|]. cbn [aget]. rewrite E. exact IH.
Qed.
Lemma aget_adel_other {V} k k' (m : amap V) : k <> k' -> aget k (adel k' m) = aget k m.
Proof.
  intros H. induction m as [|[k2 v] r IH]; [reflexivity|]. cbn [adel aget].
  destruct (k' =? k2) eqn:E.
  - apply N.eqb_eq in E. subst k2. assert (k =? k' = false) by (apply N.eqb_neq; exact H). rewrite H0. exact IH.
  - cbn [aget]. destruct (k =? k2); [reflexivity|exact IH].
Qed.
Lemma aget_aset_same {V} k (v : V) m : aget k (aset k v m) = Some v.
Proof. unfold aset. cbn [aget]. rewrite N.eqb_refl. reflexivity. Qed.
Lemma aget_aset_other {V} k k' (v : V) m : k <> k' -> aget k (aset k' v m) = aget k m.
Proof.
  intros H. unfold aset. cbn [aget]. assert (k =? k' = false) by (apply N.eqb_neq; exact H).
  rewrite H0. apply aget_adel_other. exact H.
Qed.
Lemma aget_aset {V} k k' (v : V) m : aget k (aset k' v m) = if k =? k' then Some v else aget k m.
Proof.
  destruct (k =? k') eqn:E.
  - apply N.eqb_eq in E. subst. apply aget_aset_same.
  - apply N.eqb_neq in E. apply aget_aset_other. exact E.
Qed.
Lemma aget_adel {V} k k' (m : amap V) : aget k (adel k' m) = if k =? k' then None else aget k m.
Proof.
  destruct (k =? k') eqn:E.
  - apply N.eqb_eq in E. subst. apply aget_adel_same.
  - apply N.eqb_neq in E. apply aget_adel_other. exact E.
Qed.

Ltac sproj := cbn [v_next v_ps v_mps v_sb v_maps v_opts v_init v_rm v_gmap with_ps with_next with_maps mp_idx mp_ino mp_entry] in *.

(* ---------- the invariant ---------- *)
Definition mp_ok (s : vfs) (m : mpd) : Prop :=
  0 < mp_idx m < 256 /\ mp_ino m <= VFS_MAX_INO /\
  e_ino (mp_entry m) = (if mp_ino m =? 0 then 0 else mk_vino (mp_idx m) (mp_ino m)) /\
  e_stino (mp_entry m) = e_ino (mp_entry m) /\
  aget (mp_idx m) (v_sb s) <> None.

Record wf (s : vfs) : Prop := mkWf {
  wf_next : v_next s < 256;
  wf_sb : forall i b, aget i (v_sb s) = Some b -> 0 < i < 256;
  wf_mp : forall p m, aget p (v_mps s) = Some m -> mp_ok s m;
  wf_inj : forall p1 p2 m1 m2, aget p1 (v_mps s) = Some m1 -> aget p2 (v_mps s) = Some m2 ->
             mp_idx m1 = mp_idx m2 -> p1 = p2 }.

Lemma wf_new o rm : wf (vfs_new o rm).
Proof.
  unfold vfs_new. constructor; cbn.
  - lia.
  - intros i b H. discriminate.
  - intros p m H. discriminate.
  - intros p1 p2 m1 m2 H. discriminate.
Qed.

Lemma convert_entry_shape s idx inode e e' : convert_entry s idx inode e = Ok e' ->
  e_ino e' = (if inode =? 0 then 0 else mk_vino idx inode) /\ e_stino e' = e_ino e' /\ inode <= VFS_MAX_INO /\ e_tag e' = e_tag e.
Proof.
  unfold convert_entry. destruct (convert_inode idx inode) as [x| |] eqn:Ec; try discriminate.
  destruct (to_ext _ (e_uid e)); [|discriminate]. destruct (to_ext _ (e_gid e)); [|discriminate].
  intros H. inversion H; subst e'. cbn.
  destruct (convert_inode_ok _ _ _ Ec) as [[Hz Hx] | [Hr Hx]]; subst x.
  - subst inode. cbn. repeat split. unfold VFS_MAX_INO. lia.
  - assert (E : inode =? 0 = false) by (apply N.eqb_neq; lia). rewrite E. repeat split. lia.
Qed.

(* insert_mount_locked with an index that is free (allocate_fs_idx) *)
Lemma insert_mount_wf s bid e idx p s' r :
  wf s -> 0 < idx < 256 -> aget idx (v_sb s) = None ->
  insert_mount s bid e idx p = (s', r) -> wf s'.
Proof.
  intros W Hidx Hfree. unfold insert_mount.
  destruct (ps_mount (v_ps s) p) as [[ps' inode]| |] eqn:Em.
  2:{ intros H; inversion H; subst; exact W. }
  2:{ intros H; inversion H; subst; exact W. }
  assert (W1 : wf (with_ps s ps')).
  { destruct W. constructor; cbn; assumption. }
  destruct (convert_entry (with_ps s ps') idx (e_ino e) e) as [e'| |] eqn:Ec.
  2:{ intros H; inversion H; subst; exact W1. }
  2:{ intros H; inversion H; subst; exact W1. }
  intros H. inversion H; subst s' r. clear H.
  destruct (convert_entry_shape _ _ _ _ _ Ec) as (He1 & He2 & He3 & _).
  cbn [with_ps v_mps v_sb v_next v_ps v_maps v_opts v_init v_rm v_gmap] in *.
  destruct W as [Wn Wsb Wmp Winj].
  (* no mount point uses idx: they are all attached *)
  assert (Hnoidx : forall p0 m0, aget p0 (v_mps s) = Some m0 -> mp_idx m0 <> idx).
  { intros p0 m0 H0 E. destruct (Wmp _ _ H0) as (_ & _ & _ & _ & Hatt). rewrite E in Hatt. contradiction. }
  set (sb1 := match aget inode (v_mps s) with Some mnt => adel (mp_idx mnt) (v_sb s) | None => v_sb s end).
  assert (Hsb1 : forall i b, aget i sb1 = Some b -> aget i (v_sb s) = Some b).
  { intros i b. unfold sb1. destruct (aget inode (v_mps s)); [|tauto].
    rewrite aget_adel. destruct (i =? mp_idx m); [discriminate|tauto]. }
  constructor; sproj.
  - exact Wn.
  - intros i b. rewrite aget_aset. destruct (i =? idx) eqn:E.
    + apply N.eqb_eq in E. subst. intros _. exact Hidx.
    + intros H0. apply (Wsb i b). apply Hsb1. exact H0.
  - intros p0 m0. rewrite aget_aset. destruct (p0 =? inode) eqn:E.
    + intros H0. inversion H0; subst m0. unfold mp_ok. sproj.
      repeat split; try lia; try assumption.
      rewrite aget_aset_same. discriminate.
    + intros H0. apply N.eqb_neq in E.
      destruct (Wmp _ _ H0) as (A & B & C & D & F). unfold mp_ok in *. sproj. repeat split; try lia; try assumption.
      rewrite aget_aset_other by (apply Hnoidx with p0; exact H0).
      unfold sb1. destruct (aget inode (v_mps s)) as [mnt|] eqn:Eold; [|exact F].
      rewrite aget_adel_other; [exact F|].
      intros Eq. apply E. apply (Winj p0 inode m0 mnt H0 Eold Eq).
  - intros p1 p2 m1 m2. rewrite !aget_aset.
    destruct (p1 =? inode) eqn:E1; destruct (p2 =? inode) eqn:E2.
    + apply N.eqb_eq in E1, E2. congruence.
    + intros H1 H2 Eq. inversion H1; subst m1. sproj. exfalso. apply (Hnoidx _ _ H2). congruence.
    + intros H1 H2 Eq. inversion H2; subst m2. sproj. exfalso. apply (Hnoidx _ _ H1). congruence.
    + intros H1 H2 Eq. apply (Winj _ _ _ _ H1 H2 Eq).
Qed.

Lemma allocate_free s idx nx : wf s -> allocate_fs_idx s = (AOk idx, nx) ->
  0 < idx < 256 /\ aget idx (v_sb s) = None /\ nx < 256.
Proof.
  intros W H. destruct (alloc_correct s (wf_next s W)) as (A & _).
  destruct (A _ _ H) as (Hnz & Hlt & Hfree & Hnx & _).
  repeat split; try lia; try exact Hfree. subst nx. apply N.mod_lt. lia.
Qed.

Lemma allocate_next_lt s r nx : wf s -> allocate_fs_idx s = (r, nx) -> nx < 256.
Proof.
  intros W H. pose proof (wf_next s W) as Hn. rewrite (allocate_eq s Hn) in H.
  destruct (alloc_spec (v_sb s) (v_next s)); inversion H; apply N.mod_lt; lia.
Qed.

Lemma wf_with_next s n : wf s -> n < 256 -> wf (with_next s n).
Proof. intros [A B C D] H. constructor; cbn; assumption. Qed.
Lemma wf_with_maps s m : wf s -> wf (with_maps s m).
Proof. intros [A B C D]. constructor; cbn; assumption. Qed.

Theorem vfs_mount_wf s bid p map a s' r evs :
  wf s -> vfs_mount s bid p map a = (s', r, evs) -> wf s'.
Proof.
  intros W. unfold vfs_mount.
  destruct (negb (ma_err a =? 0)); [intros H; inversion H; subst; exact W|].
  destruct (VFS_MAX_INO <? ma_max a); [intros H; inversion H; subst; exact W|].
  destruct (v_init s && negb (ma_init_err a =? 0)); [intros H; inversion H; subst; exact W|].
  destruct (allocate_fs_idx s) as [ao nx] eqn:Ea.
  pose proof (allocate_next_lt _ _ _ W Ea) as Hnx.
  destruct ao as [idx| |].
  - destruct (allocate_free _ _ _ W Ea) as (Hidx & Hfree & _).
    set (s1 := with_next s nx).
    set (s2 := with_maps s1 (match map with Some m => aset idx m (v_maps s1) | None => adel idx (v_maps s1) end)).
    assert (W2 : wf s2) by (unfold s2; apply wf_with_maps, wf_with_next; assumption).
    assert (Hfree2 : aget idx (v_sb s2) = None) by exact Hfree.
    destruct (insert_mount s2 bid (root_entry_of a) idx p) as [s3 r3] eqn:Ei.
    pose proof (insert_mount_wf _ _ _ _ _ _ _ W2 Hidx Hfree2 Ei) as W3.
    destruct r3; intros H; inversion H; subst; try exact W3. apply wf_with_maps. exact W3.
  - intros H; inversion H; subst. apply wf_with_next; assumption.
  - intros H; inversion H; subst. apply wf_with_next; assumption.
Qed.

Theorem vfs_umount_wf s p s' r evs : wf s -> vfs_umount s p = (s', r, evs) -> wf s'.
Proof.
  intros W. unfold vfs_umount.
  destruct (ps_path_walk (v_ps s) p) as [[inode|]| |]; try (intros H; inversion H; subst; exact W).
  destruct (ps_parent (v_ps s) inode); try (intros H; inversion H; subst; exact W).
  destruct (aget inode (v_mps s)) as [x|] eqn:Ex; try (intros H; inversion H; subst; exact W).
  destruct (if v_rm s then ps_evict (v_ps s) inode else Ok (v_ps s)) as [ps'| |]; try (intros H; inversion H; subst; exact W).
  intros H. inversion H; subst s' r evs. clear H.
  destruct W as [Wn Wsb Wmp Winj]. constructor; sproj.
  - exact Wn.
  - intros i b. rewrite aget_adel. destruct (i =? mp_idx x); [discriminate|]. apply Wsb.
  - intros p0 m0. rewrite aget_adel. destruct (p0 =? inode) eqn:E; [discriminate|]. intros H0.
    apply N.eqb_neq in E. destruct (Wmp _ _ H0) as (A & B & C & D & F). unfold mp_ok in *. sproj. repeat split; try lia; try assumption.
    rewrite aget_adel_other; [exact F|]. intros Eq. apply E. apply (Winj _ _ _ _ H0 Ex Eq).
  - intros p1 p2 m1 m2. rewrite !aget_adel. destruct (p1 =? inode); [discriminate|]. destruct (p2 =? inode); [discriminate|].
    apply Winj.
Qed.

Lemma vfs_init_wf s o e s' r evs : wf s -> vfs_init s o e = (s', r, evs) -> wf s'.
Proof.
  intros [A B C D]. unfold vfs_init. destruct (v_init s); [intros H; inversion H; subst; constructor; assumption|].
  remember (sb_in_order 256 0 (v_sb s)) as bs eqn:Hbs. clear Hbs.
  destruct (o_no_open (v_opts s)); destruct (o_no_opendir (v_opts s)); cbv beta iota zeta;
  destruct bs; try destruct (negb (e =? 0));
  intros H; inversion H; subst; constructor; cbn [v_next v_sb v_mps]; assumption.
Qed.

Lemma vfs_destroy_wf s s' evs : wf s -> vfs_destroy s = (s', evs) -> wf s'.
Proof.
  intros [A B C D]. unfold vfs_destroy.
  remember (sb_in_order 256 0 (v_sb s)) as bs eqn:Hbs. clear Hbs.
  destruct (v_init s); intros H; inversion H; subst; constructor; cbn [v_next v_sb v_mps]; assumption.
Qed.

(* ---------- reachable states: any history of mounts (with or without a mapping), over-mounts,
   umounts, init and destroy, from any configuration ---------- *)
Inductive reachable : vfs -> Prop :=
| R_new : forall o rm, reachable (vfs_new o rm)
| R_mount : forall s bid p map a s' r evs, reachable s -> vfs_mount s bid p map a = (s', r, evs) -> reachable s'
| R_umount : forall s p s' r evs, reachable s -> vfs_umount s p = (s', r, evs) -> reachable s'
| R_init : forall s o e s' r evs, reachable s -> vfs_init s o e = (s', r, evs) -> reachable s'
| R_destroy : forall s s' evs, reachable s -> vfs_destroy s = (s', evs) -> reachable s'.

Theorem reachable_wf s : reachable s -> wf s.
Proof.
  induction 1.
  - apply wf_new.
  - eapply vfs_mount_wf; eassumption.
  - eapply vfs_umount_wf; eassumption.
  - eapply vfs_init_wf; eassumption.
  - eapply vfs_destroy_wf; eassumption.
Qed.
