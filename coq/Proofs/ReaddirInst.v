(* Proofs/ReaddirInst.v -- C16: the statement taken literally is refuted by the faithful model
   (a getdents64 batch holding only "." / ".." yields an empty reply = end of directory);
   non-vacuity witnesses; PseudoFs index offsets. *)
From Coq Require Import List NArith Bool Lia ZifyBool ZifyNat ZifyN Arith.
From FB Require Import Model.Readdir Proofs.Readdir Proofs.ReaddirStep Proofs.ReaddirListing.
Import ListNotations.
Local Open Scope N_scope.

(* what the statement asks of a size: it can hold the next entry (hence at least a 24-byte record) *)
Definition full_size_ok (plus : bool) (size : N) (rest : list hent) : Prop :=
  24 <= size /\ spec_size_ok plus size rest.

(* the full statement for a source tree with repairs [X]: sizes only have to hold the next entry *)
Definition C16_full_stmt (X : rfixes) : Prop :=
  forall plan H C pre rest st off plus,
  c_rx C = X ->
  good_dir (pre ++ rest) -> seekable H (pre ++ rest) -> lookups_ok H (pre ++ rest) ->
  wrap_total (c_wrap C) -> InvSt (pre ++ rest) st ->
  (c_noopendir C = false -> forall m, In m plan -> hs_open (st_h st (ms_handle m)) = true) ->
  off_at pre off ->
  plan_ok full_size_ok H C (pre ++ rest) st off plus plan ->
  (length (visible rest) < length plan)%nat ->
  exists replies,
    listing H C (pre ++ rest) st off plus plan = map ROk (replies ++ [[]]) /\
    concat replies = map (mkd H (c_wrap C) plus) (visible rest).

Lemma plan_ok_ext (ok1 ok2 : bool -> N -> list hent -> Prop) H C d plus :
  (forall size rest, ok1 plus size rest -> ok2 plus size rest) ->
  forall plan st off, plan_ok ok1 H C d st off plus plan -> plan_ok ok2 H C d st off plus plan.
Proof.
  intros Himp. induction plan as [|m t IH]; intros st off; [exact (fun x => x)|].
  cbn [plan_ok]. cbv zeta. intros (Hnz & Hok & Hrest). split; [exact Hnz|]. split; [apply Himp; exact Hok|].
  destruct (fst (step H C d (snd (run H C d st (ms_noise m))) (mk_req (ms_handle m) (ms_size m) off plus)));
    [apply IH; exact Hrest|exact I].
Qed.

(* on a tree with the re-read loop the full statement holds outright *)
Lemma C16_full_fixed X : rx_refill X = true -> C16_full_stmt X.
Proof.
  intros HX plan H C pre rest st off plus HC Hg Hs Hl Hw Hi Hop Ho Hpl Hlen.
  apply listing_complete; try assumption.
  apply (plan_ok_ext full_size_ok (size_ok (c_rx C))); [|exact Hpl].
  intros size r Hok. unfold size_ok. rewrite HC, HX. exact Hok.
Qed.

(* witness: directory [".", "a"], two requests of 32 bytes (a fuse_dirent for "a" takes 32) *)
Definition w_dir : list hent := [mk_hent [46] 10 1 4; mk_hent [97] 11 2 8].
Definition w_host : host := mk_host (fun _ => 0%nat) (fun _ => 0) (fun _ => ROk (7, 11)).
Definition w_cfg : cfg := mk_cfg false (fun i => ROk i) no_rfixes.
Definition w_plan : list mstep := [mk_mstep [] 1 32; mk_mstep [] 1 32].

Lemma w_good : good_dir w_dir.
Proof.
  split.
  - cbn. repeat constructor; cbn; intuition discriminate.
  - repeat constructor; cbn; discriminate.
Qed.
Lemma w_seekable : seekable w_host w_dir.
Proof.
  split; [|reflexivity]. intros e [<-|[<-|[]]]; cbn; unfold I64_MAX; lia.
Qed.
Lemma w_lookups : lookups_ok w_host w_dir.
Proof. intros e _ _. exists (7, 11). reflexivity. Qed.
Lemma w_wrap : wrap_total (c_wrap w_cfg).
Proof. intros i. exists i. reflexivity. Qed.
Lemma w_inv : InvSt w_dir (init_state [1]).
Proof. intros h. unfold Inv_h, init_state. cbn [st_h]. destruct (existsb (N.eqb h) [1]); exact I. Qed.

Lemma C16_full_refuted : ~ C16_full_stmt no_rfixes.
Proof.
  intros Hfull.
  destruct (Hfull w_plan w_host w_cfg [] w_dir (init_state [1]) 0 false) as (replies & Hl & Hc).
  - reflexivity.
  - exact w_good.
  - exact w_seekable.
  - exact w_lookups.
  - exact w_wrap.
  - exact w_inv.
  - intros _ m [<-|[<-|[]]]; reflexivity.
  - left. auto.
  - cbn. unfold full_size_ok, spec_size_ok. cbn. repeat split; try discriminate; try lia.
  - cbn. lia.
  - vm_compute in Hl.
    destruct replies as [|r1 [|r2 rs]]; cbn in Hl; try discriminate.
    + injection Hl as <-. vm_compute in Hc. discriminate.
    + injection Hl as _ _ Hx. destruct rs; discriminate.
Qed.

(* non-vacuity of the partial theorem: same directory, sizes that the code needs (48 + 24) *)
Definition w_plan_ok : list mstep := [mk_mstep [mk_req 1 4096 2 true] 1 48; mk_mstep [] 1 48].
Lemma w_plan_ok_holds : plan_ok (size_ok no_rfixes) w_host w_cfg w_dir (init_state [1]) 0 false w_plan_ok.
Proof. cbn. unfold size_ok, step_ok. cbn. repeat split; try discriminate; try lia. Qed.
Lemma w_listing_value :
  listing w_host w_cfg w_dir (init_state [1]) 0 false w_plan_ok
  = [ROk [mk_dirent 7 2 8 [97] 0]; ROk []].
Proof. vm_compute. reflexivity. Qed.

(* the refutation witness on a tree with the re-read loop: the 32-byte requests now list the directory *)
Definition w_cfg_fixed : cfg := mk_cfg false (fun i => ROk i) all_rfixes.
Lemma w_listing_fixed :
  listing w_host w_cfg_fixed w_dir (init_state [1]) 0 false w_plan
  = [ROk [mk_dirent 7 2 8 [97] 0]; ROk []].
Proof. vm_compute. reflexivity. Qed.

(* ------------------------------------------------------------------ PseudoFs *)
Definition pcost (plus : bool) (c : list N * N) : N :=
  round8 (24 + N.of_nat (length (fst c))) + (if plus then 128 else 0).

(* all children as dirents with consecutive offsets starting at [next] *)
Fixpoint pall (plus : bool) (ch : list (list N * N)) (next : N) : list dirent :=
  match ch with
  | [] => []
  | (nm, ino) :: t => mk_dirent ino next 0 nm (if plus then ino else 0) :: pall plus t (next + 1)
  end.

Lemma pseudo_fill_spec plus size : forall ch next written,
  pseudo_fill plus size ch next written = pall plus (take_fit (pcost plus) (size - written) ch) next.
Proof.
  induction ch as [|[nm ino] t IH]; intros next written; [reflexivity|].
  cbn [pseudo_fill]. change (round8 (24 + N.of_nat (length nm)) + (if plus then 128 else 0)) with (pcost plus (nm, ino)).
  destruct (size - written <? pcost plus (nm, ino)) eqn:E.
  - rewrite take_fit_cons_nofit by lia. reflexivity.
  - rewrite take_fit_cons_fit by lia. cbn [pall]. rewrite IH. do 3 f_equal. lia.
Qed.

Lemma pseudo_readdir_spec ch plus size off :
  size <> 0 -> off < U64_MAX -> off <= N.of_nat (length ch) ->
  pseudo_readdir ch plus size off = POk (pall plus (take_fit (pcost plus) size (skipn (N.to_nat off) ch)) (off + 1)).
Proof.
  intros Hs Ho Hl. unfold pseudo_readdir.
  destruct (size =? 0) eqn:E1; [lia|]. destruct (off =? U64_MAX) eqn:E2; [lia|].
  destruct (N.of_nat (length ch) <=? off) eqn:E3.
  - assert (off = N.of_nat (length ch)) by lia. subst off. rewrite Nat2N.id, skipn_all. reflexivity.
  - rewrite pseudo_fill_spec, N.sub_0_r. reflexivity.
Qed.

Lemma pall_bytes plus l next : reply_bytes plus (pall plus l next) = cost_sum (pcost plus) l.
Proof.
  revert next. induction l as [|[nm ino] t IH]; intros next; [reflexivity|].
  cbn [pall reply_bytes fold_right cost_sum de_name]. unfold reply_bytes in IH. rewrite IH. reflexivity.
Qed.

Lemma pseudo_size ch plus size off l :
  pseudo_readdir ch plus size off = POk l -> reply_bytes plus l <= size.
Proof.
  unfold pseudo_readdir. destruct (size =? 0); [intros [= <-]; cbn; lia|].
  destruct (off =? U64_MAX); [discriminate|].
  destruct (N.of_nat (length ch) <=? off); [intros [= <-]; cbn; lia|].
  intros [= <-]. rewrite pseudo_fill_spec, pall_bytes, N.sub_0_r. apply take_fit_sum.
Qed.

Lemma pall_app plus a b next :
  pall plus (a ++ b) next = pall plus a next ++ pall plus b (next + N.of_nat (length a)).
Proof.
  revert next. induction a as [|[nm ino] t IH]; intros next.
  - cbn [app pall length]. f_equal. lia.
  - cbn [app pall length]. rewrite IH. do 3 f_equal. lia.
Qed.

Lemma pall_length plus l next : length (pall plus l next) = length l.
Proof. revert next. induction l as [|[nm ino] t IH]; intros next; [reflexivity|]. cbn [pall length]. rewrite IH. reflexivity. Qed.

Lemma pall_last_off plus l c next off : last_off (pall plus (l ++ [c]) next) off = next + N.of_nat (length l).
Proof.
  rewrite pall_app. destruct c as [nm ino]. cbn [pall]. unfold last_off. rewrite rev_app_distr. reflexivity.
Qed.

(* the pseudo listing client: resumes from the offset of the last entry received *)
Fixpoint plisting (ch : list (list N * N)) (plus : bool) (off : N) (sizes : list N) : list pres :=
  match sizes with
  | [] => []
  | sz :: t =>
    let o := pseudo_readdir ch plus sz off in
    o :: match o with POk reply => plisting ch plus (last_off reply off) t | PPanic => [] end
  end.

Fixpoint psizes_ok (ch : list (list N * N)) (plus : bool) (off : N) (sizes : list N) : Prop :=
  match sizes with
  | [] => True
  | sz :: t =>
    sz <> 0 /\ match skipn (N.to_nat off) ch with c :: _ => pcost plus c <= sz | [] => True end /\
    match pseudo_readdir ch plus sz off with POk reply => psizes_ok ch plus (last_off reply off) t | PPanic => True end
  end.

Theorem pseudo_listing_complete : forall sizes pre rest plus,
  N.of_nat (length (pre ++ rest)) < U64_MAX ->
  psizes_ok (pre ++ rest) plus (N.of_nat (length pre)) sizes ->
  (length rest < length sizes)%nat ->
  exists replies,
    plisting (pre ++ rest) plus (N.of_nat (length pre)) sizes = map POk (replies ++ [[]]) /\
    concat replies = pall plus rest (N.of_nat (length pre) + 1).
Proof.
  induction sizes as [|sz t IH]; intros pre rest plus Hmax Hok Hlen; [cbn [length] in Hlen; lia|].
  cbn [plisting psizes_ok] in *. cbv zeta.
  destruct Hok as (Hnz & Hfit & Hrest).
  rewrite Nat2N.id, skipn_pre in Hfit.
  assert (Hspec : pseudo_readdir (pre ++ rest) plus sz (N.of_nat (length pre)) =
                  POk (pall plus (take_fit (pcost plus) sz rest) (N.of_nat (length pre) + 1))).
  { rewrite pseudo_readdir_spec; [|exact Hnz| |]; [rewrite Nat2N.id, skipn_pre; reflexivity| |];
      rewrite app_length in *; lia. }
  rewrite Hspec in *.
  destruct (take_fit_prefix (pcost plus) rest sz) as [S HS].
  set (B := take_fit (pcost plus) sz rest) in *.
  destruct (snoc_cases B) as [HB|(B1 & c & HB)].
  - assert (Hr : rest = []).
    { destruct rest as [|c rt]; [reflexivity|]. unfold B in HB. rewrite take_fit_cons_fit in HB by exact Hfit. discriminate. }
    clear HS HB. unfold B in *. clear B. subst rest. cbn [take_fit pall] in *. unfold last_off in *. cbn [rev] in *.
    destruct t as [|sz2 t2].
    + exists []. split; reflexivity.
    + destruct (IH pre [] plus Hmax Hrest) as (replies & Hl & Hc); [cbn [length] in *; lia|].
      exists ([] :: replies). cbn [app map concat]. rewrite Hl, Hc. split; reflexivity.
  - assert (Hd : pre ++ rest = (pre ++ B) ++ S) by (rewrite HS at 1; rewrite app_assoc; reflexivity).
    assert (Hoff : last_off (pall plus B (N.of_nat (length pre) + 1)) (N.of_nat (length pre)) = N.of_nat (length (pre ++ B))).
    { rewrite HB, pall_last_off, !app_length. cbn [length]. lia. }
    rewrite Hoff in *. rewrite Hd in Hmax, Hrest |- *.
    assert (Hlen' : (length S < length t)%nat).
    { rewrite HS, HB, !app_length in Hlen. cbn [length] in Hlen. lia. }
    destruct (IH (pre ++ B) S plus Hmax Hrest Hlen') as (replies & Hl & Hc).
    exists (pall plus B (N.of_nat (length pre) + 1) :: replies). cbn [app map concat]. split.
    + rewrite Hl. reflexivity.
    + rewrite Hc. transitivity (pall plus (B ++ S) (N.of_nat (length pre) + 1)); [|rewrite <- HS; reflexivity].
      rewrite pall_app. do 2 f_equal. rewrite app_length. lia.
Qed.

(* ------------------------------------------------------------------ what a complete listing consists of *)
Lemma nodup_map_filter {A B} (f : A -> B) (p : A -> bool) (l : list A) :
  NoDup (map f l) -> NoDup (map f (filter p l)).
Proof.
  induction l as [|x l IH]; cbn [map filter]; [intros; constructor|].
  intros Hnd. inversion Hnd as [|? ? Hnin Hnd']; subst.
  destruct (p x); [|apply IH; exact Hnd'].
  cbn [map]. constructor; [|apply IH; exact Hnd'].
  intros Hin. apply Hnin. apply in_map_iff in Hin. destruct Hin as (y & Hy & Hyin).
  apply filter_In in Hyin. apply in_map_iff. exists y. tauto.
Qed.

Lemma nodup_app_r {A} (a b : list A) : NoDup (a ++ b) -> NoDup b.
Proof. induction a as [|x a IH]; cbn [app]; [auto|]. intros Hn. inversion Hn; subst. auto. Qed.

Lemma delivered_props H wrap plus pre rest :
  good_dir (pre ++ rest) ->
  let l := map (mkd H wrap plus) (visible rest) in
  NoDup (map de_off l) /\
  Forall (fun e => de_off e <> 0 /\ list_eqb (de_name e) [46] = false /\ list_eqb (de_name e) [46; 46] = false) l /\
  map (fun e => (de_name e, de_ty e, de_off e)) l = map (fun e => (h_name e, h_ty e, h_off e)) (visible rest).
Proof.
  intros [Hnd Hnz]. cbv zeta. split; [|split].
  - rewrite map_map. cbn [mkd de_off]. apply nodup_map_filter.
    rewrite map_app in Hnd. apply nodup_app_r in Hnd. exact Hnd.
  - rewrite Forall_forall. intros e He. apply in_map_iff in He. destruct He as (x & <- & Hx).
    unfold visible in Hx. apply filter_In in Hx. destruct Hx as [Hin Hdot]. cbn [mkd de_off de_name].
    split.
    + rewrite Forall_forall in Hnz. apply Hnz. apply in_or_app. right. exact Hin.
    + unfold is_dot in Hdot. apply negb_true_iff, orb_false_iff in Hdot. exact Hdot.
  - rewrite map_map. reflexivity.
Qed.
