(* C05: flag facts, ownership of created objects, refinement of the exported tree and of the replies by
   the direct system calls, per request and along whole histories. *)
From Coq Require Import List NArith Bool Lia.
From FB Require Import Gen.Validators Model.Names Model.HostFs Model.Passthrough Proofs.Names Proofs.HostFs Proofs.PassthroughConfined Proofs.PassthroughCreds.
Import ListNotations.
Local Open Scope N_scope.

(* ---- flags *)
Lemma land_ldiff_same : forall a b, N.land (N.ldiff a b) b = 0.
Proof.
  intros a b. apply N.bits_inj. intros n. rewrite N.land_spec, N.ldiff_spec, N.bits_0.
  destruct (N.testbit a n), (N.testbit b n); reflexivity.
Qed.
Lemma has_clear : forall a b, has (clear a b) b = false.
Proof. intros a b. unfold has, clear. rewrite land_ldiff_same. reflexivity. Qed.

Theorem writeback_flags_off : forall cf f, c_writeback cf = false -> get_writeback_open_flags cf f = f.
Proof. intros cf f H. unfold get_writeback_open_flags. rewrite H. reflexivity. Qed.

Theorem writeback_flags_no_append : forall cf f, c_writeback cf = true -> has (get_writeback_open_flags cf f) O_APPEND = false.
Proof.
  intros cf f H. unfold get_writeback_open_flags. rewrite H. cbn [andb].
  destruct (has f O_APPEND) eqn:Ha; [apply has_clear|].
  destruct (N.land f O_ACCMODE =? O_WRONLY); [|exact Ha].
  (* O_RDWR = 2 and clearing bits 0-1 do not touch bit 10 *)
  unfold has in *. apply negb_false_iff in Ha. apply N.eqb_eq in Ha. apply negb_false_iff. apply N.eqb_eq.
  apply N.bits_inj. intros n. rewrite N.land_spec, N.lor_spec, N.bits_0.
  assert (Hb : N.testbit (N.land f O_APPEND) n = false) by (rewrite Ha; apply N.bits_0).
  rewrite N.land_spec in Hb. unfold clear. rewrite N.ldiff_spec.
  destruct (N.testbit O_APPEND n) eqn:Hn; [|rewrite !andb_false_r; reflexivity].
  rewrite andb_true_r in Hb. rewrite Hb. cbn.
  (* n is bit 10: O_RDWR has no such bit *)
  assert (n = 10). { unfold O_APPEND in Hn. destruct (N.eq_dec n 10) as [->|Hne]; [reflexivity|].
    exfalso. change 1024 with (2 ^ 10) in Hn. rewrite N.pow2_bits_eqb in Hn. apply N.eqb_eq in Hn. congruence. }
  subst. reflexivity.
Qed.

Theorem writeback_flags_access : forall cf f, c_writeback cf = true ->
  (N.land f O_ACCMODE =? O_WRONLY) = true ->
  get_writeback_open_flags cf f = (if has f O_APPEND then clear (N.lor (clear f O_ACCMODE) O_RDWR) O_APPEND else N.lor (clear f O_ACCMODE) O_RDWR).
Proof. intros cf f H Hw. unfold get_writeback_open_flags. rewrite H, Hw. reflexivity. Qed.

Theorem check_fd_flags_sets : forall cf s hid hd flags hd' s', check_fd_flags cf s hid hd flags = (hd', s') ->
  hd_flags hd' = flags /\ hd_host hd' = hd_host hd /\ hd_acc hd' = hd_acc hd /\
  (hd_flags hd <> flags -> hd_append hd' = has (setfl_flags cf flags) O_APPEND) /\ p_host s' = p_host s.
Proof.
  intros cf s hid hd flags hd' s' H. unfold check_fd_flags in H.
  destruct (hd_flags hd =? flags) eqn:E.
  - apply N.eqb_eq in E. inversion H; subst. repeat split; try reflexivity. intros C. contradiction.
  - destruct hid; inversion H; subst; cbn; repeat split; reflexivity.
Qed.

(* special files and links are never opened for I/O *)
Theorem special_never_opened : forall cf s inode flags d, assoc inode (p_inodes s) = Some d ->
  is_safe_inode (id_mode d) = false -> open_inode cf s inode flags = (Err EBADF, s).
Proof. intros cf s inode flags d Ha Hs. unfold open_inode. rewrite Ha, Hs. reflexivity. Qed.

(* ---- what runs inside a set_creds scope started as root *)
Definition caller_creds (uid gid : N) : creds := mkCreds uid gid (uid =? 0).

Lemma with_creds_from_root : forall A uid gid s (body : pstate -> res A * pstate),
  p_creds s = root_creds ->
  exists c r0 s1, body (with_creds_of s (caller_creds uid gid)) = (r0, s1) /\
                  with_creds uid gid s body = (r0, with_creds_of s1 c).
Proof.
  intros A uid gid s body Hc.
  destruct (body (with_creds_of s (caller_creds uid gid))) as [r0 s1] eqn:Hb.
  unfold with_creds. rewrite Hc. unfold sys_setresgid, sys_setresuid. cbn [euid egid fsetid root_creds].
  unfold caller_creds in Hb.
  destruct (gid =? 0) eqn:Hg; destruct (uid =? 0) eqn:Hu; cbn [N.eqb orb euid egid fsetid];
    try (apply N.eqb_eq in Hg; subst gid); try (apply N.eqb_eq in Hu; subst uid); cbn [N.eqb] in *;
    unfold root_creds; cbn [euid egid fsetid N.eqb orb]; rewrite ?Hu in *; rewrite Hb; eexists; exists r0, s1; split; reflexivity.
Qed.

(* ---- ownership: a node created by the creating calls belongs to the calling credentials *)
Theorem create_node_owner : forall c h d dv n k mode i h', i <> d ->
  create_node c h d dv n k mode = (i, h') ->
  exists v, get h' i = Some v /\ i_uid v = euid c /\ i_gid v = new_gid c dv /\ i_kind v = k.
Proof.
  intros c h d dv n k mode i h' Hne H. unfold create_node in H. rewrite alloc_spec in H. inversion H; subst. clear H.
  eexists. split.
  - rewrite get_set_other by exact Hne. unfold get. cbn. apply assoc_set_same.
  - cbn. repeat split; reflexivity.
Qed.

Theorem owner_of_caller : forall uid gid dv, uid <> 0 ->
  euid (caller_creds uid gid) = uid /\
  new_gid (caller_creds uid gid) dv = (if has (i_mode dv) S_ISGID then i_gid dv else gid).
Proof. intros. split; reflexivity. Qed.

(* ---- the direct calls *)
(* what do_lookup returns and records *)
Definition looked_mode (tbl : list (N * idata)) (i : N) (st : attr) : N :=
  match find_by_host i tbl with Some (_, d0) => id_mode d0 | None => a_mode st end.


Definition kp_open (cf : cfg) (fuse_flags : N) : bool := c_killpriv cf && has fuse_flags FOPEN_IN_KILL_SUIDGID.
(* credentials in force inside [with_killpriv kp (with_creds uid gid ...)] entered as root *)
Definition caller_creds_kp (kp : bool) (uid gid : N) : creds := mkCreds uid gid ((uid =? 0) && negb kp).
Definition root_kp (kp : bool) : creds := mkCreds 0 0 (negb kp).

Definition Ino (s : pstate) (f : N) : option N := option_map id_host (assoc f (p_inodes s)).

(* reopening an inode of the map for I/O: the gate on the recorded file type, then the magic-link open *)
Definition direct_open (cf : cfg) (c : creds) (tbl : list (N * idata)) (h : host) (inode flags : N) : res (N * N) * host :=
  match assoc inode tbl with
  | None => (Err EBADF, h)
  | Some d =>
      if negb (is_safe_inode (id_mode d)) then (Err EBADF, h)
      else if c_ifh cf && negb (euid c =? 0) then (Err EPERM, h)
      else let of := clear (clear (N.lor (strip_direct cf (get_writeback_open_flags cf flags)) O_CLOEXEC) O_NOFOLLOW) O_CREAT in
           match sys_reopen c h (id_host d) of with
           | (Err e, h') => (Err e, h')
           | (Ok _, h') => (Ok (id_host d, of), h')
           end
  end.

(* the descriptor a data request works on: the handle's, or (no_open) a temporary one *)
Definition direct_fd (cf : cfg) (s : pstate) (handle inode flags : N) : res hdata * host :=
  if negb (c_no_open cf) then
    match handle_get s handle inode with Ok hd => (Ok hd, p_host s) | Err e => (Err e, p_host s) end
  else match direct_open cf root_creds (p_inodes s) (p_host s) inode flags with
       | (Err e, h') => (Err e, h')
       | (Ok (hi, fl), h') => (Ok (new_hdata inode hi fl flags), h')
       end.

Definition fd_append (cf : cfg) (hd : hdata) (flags : N) : bool :=
  if hd_flags hd =? flags then hd_append hd else has (setfl_flags cf flags) O_APPEND.
Definition fd_direct (cf : cfg) (hd : hdata) (flags : N) : bool :=
  if hd_flags hd =? flags then hd_direct hd else has (setfl_flags cf flags) O_DIRECT.

Definition size_step (cf : cfg) (tbl : list (N * idata)) (h2 : host) (inode : N) (hdo : option hdata) (valid size : N) : res unit * host :=
  let c := root_kp (c_killpriv cf && has valid FATTR_KILL_SUIDGID) in
  match hdo with
  | Some hd => if acc_w (hd_acc hd) then sys_ftruncate c h2 (hd_host hd) size else (Err EINVAL, h2)
  | None => match direct_open cf c tbl h2 inode (O_NONBLOCK + O_RDWR) with
            | (Err e, h3) => (Err e, h3)
            | (Ok (hi, _), h3) => sys_ftruncate c h3 hi size
            end
  end.

(* the host tree after the same calls made directly, with the caller's identity where the code installs it *)
Definition direct_host (cf : cfg) (s : pstate) (q : req) : host :=
  let h := p_host s in
  match q with
  | QMkdir p n mode umask uid gid =>
      match validate cf n, Ino s p with
      | None, Some d => snd (sys_mkdirat (caller_creds uid gid) h d n (N.ldiff mode umask))
      | _, _ => h end
  | QMknod p n mode rdev umask uid gid =>
      match validate cf n, Ino s p with
      | None, Some d => snd (sys_mknodat (caller_creds uid gid) h d n (N.ldiff mode umask) rdev)
      | _, _ => h end
  | QSymlink p n t uid gid =>
      match validate cf n, Ino s p with
      | None, Some d => snd (sys_symlinkat (caller_creds uid gid) h t d n)
      | _, _ => h end
  | QUnlink p n =>
      match validate cf n, Ino s p with None, Some d => snd (sys_unlinkat root_creds h d n 0) | _, _ => h end
  | QRmdir p n =>
      match validate cf n, Ino s p with None, Some d => snd (sys_unlinkat root_creds h d n AT_REMOVEDIR) | _, _ => h end
  | QRename od on nd nn flags =>
      match validate cf on, validate cf nn, Ino s od, Ino s nd with
      | None, None, Some a, Some b => snd (sys_renameat2 root_creds h a on b nn flags)
      | _, _, _, _ => h end
  | QLink i p n =>
      match validate cf n, Ino s i, Ino s p with
      | None, Some a, Some b => snd (sys_linkat root_creds h a b n)
      | _, _, _ => h end
  | QSetxattr i n v flags =>
      if negb (c_xattr cf) then h else
      match Ino s i with Some a => snd (sys_setxattr root_creds h a n v flags) | None => h end
  | QRemovexattr i n =>
      if negb (c_xattr cf) then h else
      match Ino s i with Some a => snd (sys_removexattr root_creds h a n) | None => h end
  | QOpen inode flags ff =>
      if c_no_open cf then h else snd (direct_open cf (root_kp (kp_open cf ff)) (p_inodes s) h inode flags)
  | QOpendir inode flags =>
      if c_no_opendir cf then h else snd (direct_open cf root_creds (p_inodes s) h inode (N.lor flags O_DIRECTORY))
  | QWrite inode handle off data flags ff =>
      match direct_fd cf s handle inode O_RDWR with
      | (Err _, h') => h'
      | (Ok hd, h') =>
          if negb (acc_w (hd_acc hd)) then h'
          else if fd_direct cf hd flags && (0 <? len data) then h'
          else snd (sys_pwrite (root_kp (c_killpriv cf && has ff WRITE_KILL_PRIV)) h' (hd_host hd) (fd_append cf hd flags) off data)
      end
  | QRead inode handle size off flags => snd (direct_fd cf s handle inode O_RDONLY)
  | QFsync inode handle => snd (direct_fd cf s handle inode O_RDONLY)
  | QFallocate inode handle mode off l =>
      match direct_fd cf s handle inode O_RDWR with
      | (Err _, h') => h'
      | (Ok hd, h') => if l =? 0 then h' else if negb (acc_w (hd_acc hd)) then h' else snd (sys_fallocate root_creds h' (hd_host hd) mode off l)
      end
  | QSetattr inode handle valid mode uid gid size atime ansec mtime mnsec =>
      match assoc inode (p_inodes s) with
      | None => h
      | Some d =>
        let hdr := if c_no_open cf then Ok None
                   else match handle with
                        | Some hk => match handle_get s hk inode with Ok hd => Ok (Some hd) | Err e => Err e end
                        | None => Ok None
                        end in
        match hdr with
        | Err _ => h
        | Ok hdo =>
          let target := match hdo with Some hd => hd_host hd | None => id_host d end in
          let '(r1, h1) := if has valid FATTR_MODE then sys_chmod root_creds h target mode else (Ok tt, h) in
          match r1 with
          | Err _ => h1
          | Ok _ =>
            let '(r2, h2) := if has valid FATTR_UID || has valid FATTR_GID
                             then sys_chown root_creds h1 (id_host d) (if has valid FATTR_UID then uid else NOCHANGE)
                                            (if has valid FATTR_GID then gid else NOCHANGE)
                             else (Ok tt, h1) in
            match r2 with
            | Err _ => h2
            | Ok _ =>
              let '(r3, h3) := if has valid FATTR_SIZE then size_step cf (p_inodes s) h2 inode hdo valid size else (Ok tt, h2) in
              match r3 with
              | Err _ => h3
              | Ok _ => if has valid FATTR_ATIME || has valid FATTR_MTIME
                        then snd (sys_utimens h3 target (time_spec valid FATTR_ATIME_NOW FATTR_ATIME atime ansec)
                                              (time_spec valid FATTR_MTIME_NOW FATTR_MTIME mtime mnsec))
                        else h3
              end
            end
          end
        end
      end
  | QCreate p n mode umask flags ff uid gid =>
      match validate cf n, assoc p (p_inodes s) with
      | None, Some d =>
          let wf := get_writeback_open_flags cf flags in
          match sys_openat_creat_excl (caller_creds uid gid) h (id_host d) n (N.lor (N.lor wf O_CREAT) O_EXCL)
                                      (N.ldiff mode (N.land umask 511)) with
          | (Ok _, h') => h'
          | (Err e, h') =>
              if (e =? EEXIST) && negb (has wf O_EXCL) then
                (* the name exists: open it as the caller (CAP_FSETID dropped when asked) *)
                match lookup1 root_creds h' (id_host d) (lookup_name (p =? ROOT_ID) n) with
                | Err _ => h'
                | Ok i =>
                    match stat h' i with
                    | Err _ => h'
                    | Ok st =>
                        if negb (is_safe_inode (looked_mode (p_inodes s) i st)) then h'
                        (* the code's reopen: by file handle it fails for every non-root caller (known finding) *)
                        else if c_ifh cf && negb (uid =? 0) then h'
                        else snd (sys_reopen (caller_creds_kp (kp_open cf ff) uid gid) h' i
                                    (clear (clear (N.lor (strip_direct cf (get_writeback_open_flags cf flags)) O_CLOEXEC) O_NOFOLLOW) O_CREAT))
                    end
                end
              else h'
          end
      | _, _ => h end
  (* requests that never modify the tree *)
  | _ => h
  end.

(* ---- auxiliary facts *)
Lemma eta_creds : forall s, with_creds_of s (p_creds s) = s.
Proof. destruct s; reflexivity. Qed.

Lemma with_killpriv_from_root : forall A cond s (body : pstate -> A * pstate),
  p_creds s = root_creds ->
  exists c r s1, body (with_creds_of s (root_kp cond)) = (r, s1) /\ with_killpriv cond s body = (r, with_creds_of s1 c).
Proof.
  intros A cond s body Hc. unfold with_killpriv. rewrite Hc. cbn [fsetid root_creds]. rewrite andb_true_r.
  destruct cond.
  - destruct (body (with_creds_of s (cap_drop_fsetid root_creds))) as [r s1] eqn:Hb.
    eexists; exists r, s1. split; [exact Hb | reflexivity].
  - destruct (body s) as [r s1] eqn:Hb. exists (p_creds s1), r, s1. split.
    + unfold root_kp. cbn [negb]. change (mkCreds 0 0 true) with root_creds. rewrite <- Hc, eta_creds. exact Hb.
    + rewrite eta_creds. reflexivity.
Qed.

Lemma with_creds_from_rootkp : forall A kp uid gid s (body : pstate -> res A * pstate),
  p_creds s = root_kp kp ->
  exists c r0 s1, body (with_creds_of s (caller_creds_kp kp uid gid)) = (r0, s1) /\
                  with_creds uid gid s body = (r0, with_creds_of s1 c).
Proof.
  intros A kp uid gid s body Hc.
  destruct (body (with_creds_of s (caller_creds_kp kp uid gid))) as [r0 s1] eqn:Hb.
  unfold with_creds. rewrite Hc. unfold sys_setresgid, sys_setresuid, root_kp. cbn [euid egid fsetid].
  unfold caller_creds_kp in Hb.
  destruct (gid =? 0) eqn:Hg; destruct (uid =? 0) eqn:Hu; cbn [N.eqb orb andb euid egid fsetid];
    try (apply N.eqb_eq in Hg; subst gid); try (apply N.eqb_eq in Hu; subst uid); cbn [N.eqb andb] in *;
    rewrite ?Hu in *; cbn [andb] in *; rewrite Hb; eexists; exists r0, s1; split; reflexivity.
Qed.

Lemma open_inode_direct : forall cf s inode flags,
  open_inode cf s inode flags =
  (fst (direct_open cf (p_creds s) (p_inodes s) (p_host s) inode flags), with_host s (snd (direct_open cf (p_creds s) (p_inodes s) (p_host s) inode flags))).
Proof.
  intros cf s inode flags. unfold open_inode, direct_open.
  destruct (assoc inode (p_inodes s)) as [d|]; [|destruct s; reflexivity].
  destruct (negb (is_safe_inode (id_mode d))); [destruct s; reflexivity|].
  destruct (c_ifh cf && negb (euid (p_creds s) =? 0)); [destruct s; reflexivity|].
  match goal with |- context [sys_reopen ?c ?h ?i ?f] => destruct (sys_reopen c h i f) as [[u|e] h'] end; reflexivity.
Qed.

Lemma get_data_direct : forall cf s handle inode flags r s1, p_creds s = root_creds ->
  get_data cf (c_no_open cf) s handle inode flags = (r, s1) ->
  p_host s1 = snd (direct_fd cf s handle inode flags) /\ p_creds s1 = root_creds /\
  p_handles s1 = p_handles s /\ p_inodes s1 = p_inodes s /\
  match r with Ok (_, hd) => fst (direct_fd cf s handle inode flags) = Ok hd
             | Err e => fst (direct_fd cf s handle inode flags) = Err e end.
Proof.
  intros cf s handle inode flags r s1 Hc H. unfold get_data in H. unfold direct_fd.
  destruct (negb (c_no_open cf)).
  - destruct (handle_get s handle inode); inversion H; subst; repeat split; assumption || reflexivity.
  - rewrite open_inode_direct in H. rewrite Hc in H.
    destruct (direct_open cf root_creds (p_inodes s) (p_host s) inode flags) as [[[hi fl]|e] h']; cbn [fst snd] in H;
      inversion H; subst; repeat split; assumption || reflexivity.
Qed.

Lemma check_fd_flags_direct : forall cf s hid hd flags hd' s', check_fd_flags cf s hid hd flags = (hd', s') ->
  hd_host hd' = hd_host hd /\ hd_acc hd' = hd_acc hd /\ hd_append hd' = fd_append cf hd flags /\ hd_direct hd' = fd_direct cf hd flags /\
  p_host s' = p_host s /\ p_creds s' = p_creds s.
Proof.
  intros cf s hid hd flags hd' s' H. unfold check_fd_flags in H. unfold fd_append, fd_direct.
  destruct (hd_flags hd =? flags); [inversion H; subst; repeat split; reflexivity|].
  destruct hid; inversion H; subst; repeat split; reflexivity.
Qed.

Ltac inv4 H := inversion H; subst; clear H.
Ltac fin4 H := inversion H as [[E1 E2 E3 E4]]; clear H; rewrite <- ?E4; cbn [p_host with_host with_creds_of].

Lemma do_lookup_host : forall s p n r s', do_lookup s p n = (r, s') -> p_host s' = p_host s.
Proof.
  intros s p n r s' H. unfold do_lookup in H.
  destruct (assoc p (p_inodes s)); [|inversion H; subst; reflexivity].
  destruct (lookup1 _ _ _ _); [|inversion H; subst; reflexivity].
  destruct (stat _ _); [|inversion H; subst; reflexivity].
  destruct (find_by_host _ _) as [[f d]|]; [inversion H; subst; reflexivity|].
  destruct (assoc _ (p_idmap s)); inversion H; subst; reflexivity.
Qed.
Lemma entry_reply_host : forall s p n rp io s', entry_reply (do_lookup s p n) = (rp, io, s') -> p_host s' = p_host s.
Proof.
  intros s p n rp io s' H. destruct (do_lookup s p n) as [[[f a]|e] s1] eqn:Hl; cbn in H; inversion H; subst;
    apply (do_lookup_host _ _ _ _ _ Hl).
Qed.
Lemma with_host_eta : forall s, with_host s (p_host s) = s.
Proof. destruct s; reflexivity. Qed.

Lemma create_then_lookup_host : forall s uid gid parent n call rp io s' d,
  p_creds s = root_creds -> assoc parent (p_inodes s) = Some d ->
  create_then_lookup s uid gid parent n call = (rp, io, s') ->
  p_host s' = snd (call (caller_creds uid gid) (p_host s) (id_host d)).
Proof.
  intros s uid gid parent n call rp io s' d Hc Ha H. unfold create_then_lookup in H. rewrite Ha in H.
  match type of H with context [with_creds uid gid s ?b] => destruct (with_creds_from_root _ uid gid s b Hc) as [c [r [s1 [Hb Hw]]]] end.
  rewrite Hw in H. clear Hw. cbn [p_creds with_creds_of p_host] in Hb.
  destruct (call (caller_creds uid gid) (p_host s) (id_host d)) as [r1 h'] eqn:Hcall.
  inversion Hb; subst r1 s1. cbn [snd].
  destruct r.
  - rewrite (entry_reply_host _ _ _ _ _ _ H). reflexivity.
  - inversion H; subst. reflexivity.
Qed.

Lemma setattr_size_direct : forall cf s2 inode hdo valid size r3 s3, p_creds s2 = root_creds ->
  setattr_size cf s2 inode hdo valid size = (r3, s3) ->
  (r3, p_host s3) = size_step cf (p_inodes s2) (p_host s2) inode hdo valid size /\ p_inodes s3 = p_inodes s2 /\
  p_handles s3 = p_handles s2 /\ p_creds s3 = root_creds.
Proof.
  intros cf s2 inode hdo valid size r3 s3 Hc Hs. pose proof (setattr_size_creds _ _ _ _ _ _ _ _ Hs Hc) as Hcr.
  unfold setattr_size in Hs. unfold size_step.
  match type of Hs with with_killpriv ?c ?s0 ?b = _ => destruct (with_killpriv_from_root _ c s0 b Hc) as [c1 [r [s1 [Hb Hw]]]]; rewrite Hw in Hs; inversion Hs; subst r3 s3; clear Hs Hw end.
  split; [|split; [|split; [|exact Hcr]]].
  - destruct hdo as [hd|].
    + destruct (acc_w (hd_acc hd)); [|inversion Hb; subst; reflexivity].
      cbn [p_creds p_host with_creds_of with_host] in Hb.
      match type of Hb with context [sys_ftruncate ?c ?h ?i ?z] => destruct (sys_ftruncate c h i z) as [rr hh] end.
      inversion Hb; subst. reflexivity.
    + rewrite open_inode_direct in Hb. cbn [p_creds p_host with_creds_of with_host p_inodes] in Hb.
      destruct (direct_open cf (root_kp (c_killpriv cf && has valid FATTR_KILL_SUIDGID)) (p_inodes s2) (p_host s2) inode (O_NONBLOCK + O_RDWR)) as [[[hi fl]|e] h3];
        cbn [fst snd p_creds p_host with_host with_creds_of] in Hb.
      * match type of Hb with context [sys_ftruncate ?c ?h ?i ?z] => destruct (sys_ftruncate c h i z) as [rr hh] end.
        inversion Hb; subst. reflexivity.
      * inversion Hb; subst. reflexivity.
  - destruct hdo as [hd|].
    + destruct (acc_w (hd_acc hd)); [|inversion Hb; subst; reflexivity].
      cbn in Hb. match type of Hb with context [sys_ftruncate ?c ?h ?i ?z] => destruct (sys_ftruncate c h i z) as [rr hh] end. inversion Hb; subst. reflexivity.
    + rewrite open_inode_direct in Hb.
      match type of Hb with context [direct_open ?x1 ?x2 ?x3 ?x4 ?x5 ?x6] => destruct (direct_open x1 x2 x3 x4 x5 x6) as [[[hi fl]|e] h3] end; cbn [fst snd] in Hb.
      * match type of Hb with context [sys_ftruncate ?c ?h ?i ?z] => destruct (sys_ftruncate c h i z) as [rr hh] end. inversion Hb; subst. reflexivity.
      * inversion Hb; subst. reflexivity.
  - destruct hdo as [hd|].
    + destruct (acc_w (hd_acc hd)); [|inversion Hb; subst; reflexivity].
      cbn in Hb. match type of Hb with context [sys_ftruncate ?c ?h ?i ?z] => destruct (sys_ftruncate c h i z) as [rr hh] end. inversion Hb; subst. reflexivity.
    + rewrite open_inode_direct in Hb.
      match type of Hb with context [direct_open ?x1 ?x2 ?x3 ?x4 ?x5 ?x6] => destruct (direct_open x1 x2 x3 x4 x5 x6) as [[[hi fl]|e] h3] end; cbn [fst snd] in Hb.
      * match type of Hb with context [sys_ftruncate ?c ?h ?i ?z] => destruct (sys_ftruncate c h i z) as [rr hh] end. inversion Hb; subst. reflexivity.
      * inversion Hb; subst. reflexivity.
Qed.

Lemma with_creds_from_root_r : forall A uid gid s (body : pstate -> res A * pstate),
  p_creds s = root_creds ->
  (forall s0 r0 s1, body s0 = (r0, s1) -> p_creds s1 = p_creds s0) ->
  exists r0 s1, body (with_creds_of s (caller_creds uid gid)) = (r0, s1) /\
                with_creds uid gid s body = (r0, with_creds_of s1 root_creds).
Proof.
  intros A uid gid s body Hc Hk. destruct (with_creds_from_root A uid gid s body Hc) as [c [r0 [s1 [Hb Hw]]]].
  exists r0, s1. split; [exact Hb|].
  pose proof (proj1 (with_creds_root _ _ _ _ _ _ _ Hk Hw) Hc) as Hr. cbn in Hr. subst c. exact Hw.
Qed.

Lemma do_lookup_spec : forall s p n r s2 dir, assoc p (p_inodes s) = Some dir -> do_lookup s p n = (r, s2) ->
  p_host s2 = p_host s /\ p_creds s2 = p_creds s /\ p_handles s2 = p_handles s /\
  match lookup1 (p_creds s) (p_host s) (id_host dir) (lookup_name (p =? ROOT_ID) n) with
  | Err e => r = Err e /\ s2 = s
  | Ok i => match stat (p_host s) i with
            | Err e => r = Err e /\ s2 = s
            | Ok st => exists f d', r = Ok (f, st) /\ assoc f (p_inodes s2) = Some d' /\ id_host d' = i /\
                                    id_mode d' = looked_mode (p_inodes s) i st
            end
  end.
Proof.
  intros s p n r s2 dir Ha H. pose proof (do_lookup_host _ _ _ _ _ H) as Hh. pose proof (do_lookup_creds _ _ _ _ _ H) as Hcr.
  split; [exact Hh|]. split; [exact Hcr|]. unfold do_lookup in H. rewrite Ha in H.
  destruct (lookup1 (p_creds s) (p_host s) (id_host dir) (lookup_name (p =? ROOT_ID) n)) as [i|e];
    [|inversion H; subst; repeat split; reflexivity].
  destruct (stat (p_host s) i) as [st|e]; [|inversion H; subst; repeat split; reflexivity].
  unfold looked_mode. destruct (find_by_host i (p_inodes s)) as [[f d0]|] eqn:Hf.
  - destruct (find_by_host_some _ _ _ _ Hf) as [Hi _]. inversion H; subst. split; [reflexivity|].
    eexists; eexists. split; [reflexivity|]. split; [cbn; apply assoc_set_same|]. split; reflexivity.
  - destruct (assoc i (p_idmap s)); inversion H; subst; (split; [reflexivity|]);
      (eexists; eexists; split; [reflexivity|]; split; [cbn; apply assoc_set_same|]; split; reflexivity).
Qed.

(* ---- the exported tree after every request is the tree after the direct calls: EVERY request kind,
   EVERY configuration *)
Definition C05_full : Prop := forall cf s q rp io ho s',
  p_creds s = root_creds -> pstep cf s q = (rp, io, ho, s') -> p_host s' = direct_host cf s q.

Lemma do_open_direct : forall cf s inode flags ff rp s', p_creds s = root_creds ->
  do_open cf s inode flags ff = (rp, s') ->
  p_host s' = snd (direct_open cf (root_kp (c_killpriv cf && has ff FOPEN_IN_KILL_SUIDGID)) (p_inodes s) (p_host s) inode flags).
Proof.
  intros cf s inode flags ff rp s' Hc H. unfold do_open in H.
  match type of H with context [with_killpriv ?c s ?b] => destruct (with_killpriv_from_root _ c s b Hc) as [c1 [r [s1 [Hb Hw]]]]; rewrite Hw in H; clear Hw end.
  rewrite open_inode_direct in Hb. cbn [p_creds p_host with_creds_of with_host p_inodes] in Hb.
  destruct (direct_open cf (root_kp (c_killpriv cf && has ff FOPEN_IN_KILL_SUIDGID)) (p_inodes s) (p_host s) inode flags) as [[[hi fl]|e] h'];
    cbn [fst snd] in Hb; inversion Hb; subst; cbn [snd].
  - unfold insert_handle in H. inversion H; subst. reflexivity.
  - inversion H; subst. reflexivity.
Qed.

(* create on a name that exists: the open of the existing inode under the two guards *)
Lemma create_existing_host : forall cf s2 f flags ff uid gid rf s3 d', p_creds s2 = root_creds ->
  assoc f (p_inodes s2) = Some d' ->
  with_killpriv (c_killpriv cf && has ff FOPEN_IN_KILL_SUIDGID) s2
     (fun s0 => with_creds uid gid s0 (fun s00 => open_inode cf s00 f flags)) = (rf, s3) ->
  p_host s3 = (if negb (is_safe_inode (id_mode d')) then p_host s2
               else if c_ifh cf && negb (uid =? 0) then p_host s2
               else snd (sys_reopen (caller_creds_kp (kp_open cf ff) uid gid) (p_host s2) (id_host d')
                          (clear (clear (N.lor (strip_direct cf (get_writeback_open_flags cf flags)) O_CLOEXEC) O_NOFOLLOW) O_CREAT))).
Proof.
  intros cf s2 f flags ff uid gid rf s3 d' Hc Ha H.
  match type of H with with_killpriv ?c ?s0 ?b = _ => destruct (with_killpriv_from_root _ c s0 b Hc) as [c1 [r [s1 [Hb Hw]]]]; rewrite Hw in H; inversion H; subst rf s3; clear H Hw end.
  match type of Hb with with_creds uid gid ?s0 ?b = _ =>
    destruct (with_creds_from_rootkp _ (c_killpriv cf && has ff FOPEN_IN_KILL_SUIDGID) uid gid s0 b eq_refl) as [c2 [r0 [s4 [Hb2 Hw2]]]];
    rewrite Hw2 in Hb; inversion Hb; subst r s1; clear Hb Hw2 end.
  rewrite open_inode_direct in Hb2. cbn [p_creds p_host with_creds_of with_host p_inodes] in Hb2.
  unfold direct_open in Hb2. rewrite Ha in Hb2. unfold kp_open.
  destruct (negb (is_safe_inode (id_mode d'))); [inversion Hb2; subst; reflexivity|].
  cbn [euid caller_creds_kp] in Hb2.
  destruct (c_ifh cf && negb (uid =? 0)); [inversion Hb2; subst; reflexivity|].
  match type of Hb2 with context [sys_reopen ?c ?h ?i ?fl] => destruct (sys_reopen c h i fl) as [[u|e] h3] end;
    cbn [fst snd] in Hb2; inversion Hb2; subst; reflexivity.
Qed.

Lemma forget_one_host : forall s i c, p_host (forget_one s i c) = p_host s.
Proof. intros s i c. unfold forget_one. destruct (i =? ROOT_ID); [reflexivity|]. destruct (assoc i (p_inodes s)); reflexivity. Qed.

Theorem tree_full : C05_full.
Proof.
  intros cf s q rp io ho s' Hc H. unfold pstep in H. unfold direct_host, Ino. destruct q; cbv beta zeta in H |- *.
  - (* lookup *)
    destruct (lookup_check n); [inv4 H; reflexivity|].
    destruct (entry_reply (do_lookup s parent n)) as [[rp0 io0] s0] eqn:He. inv4 H. apply (entry_reply_host _ _ _ _ _ _ He).
  - (* forget *) inv4 H. apply forget_one_host.
  - (* batch_forget *) inv4 H.
    assert (Hf : forall s0, p_host (fold_left (fun s1 p => forget_one s1 (fst p) (snd p)) l s0) = p_host s0).
    { induction l as [|p l IH]; intros s0; cbn [fold_left]; [reflexivity|]. rewrite IH. apply forget_one_host. }
    apply Hf.
  - (* getattr *) destruct (do_getattr cf s inode handle); inv4 H; reflexivity.
  - (* setattr *)
    destruct (assoc inode (p_inodes s)) as [d|] eqn:Ha; [|inv4 H; reflexivity].
    match type of H with context [match ?x with Ok hdo => _ | Err e => _ end] => destruct x as [hdo|e] end; [|inv4 H; reflexivity].
    rewrite Hc in H.
    match goal with |- context [if has valid FATTR_MODE then ?a else ?b] => destruct (if has valid FATTR_MODE then a else b) as [r1 h1] eqn:X1 end.
    match type of H with context [let '(r1, s1) := ?x in _] =>
      assert (E1 : x = (r1, with_host s h1));
      [ destruct (has valid FATTR_MODE);
        [ match goal with |- context [sys_chmod ?c ?h ?t ?m] => destruct (sys_chmod c h t m) as [ra ha] end; inversion X1; subst; reflexivity
        | inversion X1; subst; rewrite with_host_eta; reflexivity ]
      | rewrite E1 in H; clear E1 ] end.
    destruct r1 as [u1|e1]; [|inv4 H; reflexivity].
    cbn [p_creds p_host with_host] in H. rewrite Hc in H.
    match goal with |- context [if has valid FATTR_UID || has valid FATTR_GID then ?a else ?b] =>
      destruct (if has valid FATTR_UID || has valid FATTR_GID then a else b) as [r2 h2] eqn:X2 end.
    match type of H with context [let '(r2, s2) := ?x in _] =>
      assert (E2 : x = (r2, with_host s h2));
      [ destruct (has valid FATTR_UID || has valid FATTR_GID);
        [ match goal with |- context [sys_chown ?c ?h ?t ?u ?g] => destruct (sys_chown c h t u g) as [ra ha] end; inversion X2; subst; reflexivity
        | inversion X2; subst; reflexivity ]
      | rewrite E2 in H; clear E2 ] end.
    destruct r2 as [u2|e2]; [|inv4 H; reflexivity].
    match goal with |- context [if has valid FATTR_SIZE then ?a else ?b] => destruct (if has valid FATTR_SIZE then a else b) as [r3 h3] eqn:X3 end.
    match type of H with context [let '(r3, s3) := ?x in _] => destruct x as [r3' s3] eqn:H3 end.
    assert (E3 : r3' = r3 /\ p_host s3 = h3 /\ p_creds s3 = root_creds).
    { destruct (has valid FATTR_SIZE).
      - destruct (setattr_size_direct _ (with_host s h2) _ _ _ _ _ _ Hc H3) as [Hh [_ [_ Hcr]]]. cbn [p_inodes p_host with_host] in Hh.
        rewrite X3 in Hh. inversion Hh; subst. repeat split; assumption.
      - inversion H3; inversion X3; subst. repeat split; assumption || reflexivity. }
    destruct E3 as [-> [Hh3 Hc3]].
    destruct r3 as [u3|e3]; [|inv4 H; reflexivity].
    match type of H with context [let '(r4, s4) := ?x in _] => destruct x as [r4 s4] eqn:H4 end.
    assert (E4 : p_host s4 = (if has valid FATTR_ATIME || has valid FATTR_MTIME
                              then snd (sys_utimens (p_host s3) (match hdo with Some hd => hd_host hd | None => id_host d end)
                                          (time_spec valid FATTR_ATIME_NOW FATTR_ATIME atime ansec) (time_spec valid FATTR_MTIME_NOW FATTR_MTIME mtime mnsec))
                              else p_host s3)).
    { destruct (has valid FATTR_ATIME || has valid FATTR_MTIME); [|inversion H4; subst; reflexivity].
      match type of H4 with context [sys_utimens ?h ?i ?a ?m] => destruct (sys_utimens h i a m) as [rr hh] end. inversion H4; subst. reflexivity. }
    assert (Hfin : p_host s' = p_host s4).
    { destruct r4; [|inv4 H; reflexivity]. destruct (do_getattr cf s4 inode handle); inv4 H; reflexivity. }
    rewrite Hfin, E4, Hh3. reflexivity.
  - (* mkdir *)
    destruct (validate cf n); [inv4 H; reflexivity|].
    destruct (assoc parent (p_inodes s)) as [d|] eqn:Ha; cbn [option_map].
    + match type of H with context [create_then_lookup ?a ?b ?c ?d0 ?e ?f] => destruct (create_then_lookup a b c d0 e f) as [[rp0 io0] s0] eqn:Hx end.
      inv4 H. apply (create_then_lookup_host _ _ _ _ _ _ _ _ _ _ Hc Ha Hx).
    + unfold create_then_lookup in H. rewrite Ha in H. inv4 H. reflexivity.
  - (* mknod *)
    destruct (validate cf n); [inv4 H; reflexivity|].
    destruct (assoc parent (p_inodes s)) as [d|] eqn:Ha; cbn [option_map].
    + match type of H with context [create_then_lookup ?a ?b ?c ?d0 ?e ?f] => destruct (create_then_lookup a b c d0 e f) as [[rp0 io0] s0] eqn:Hx end.
      inv4 H. apply (create_then_lookup_host _ _ _ _ _ _ _ _ _ _ Hc Ha Hx).
    + unfold create_then_lookup in H. rewrite Ha in H. inv4 H. reflexivity.
  - (* create *)
    destruct (validate cf n); [inv4 H; reflexivity|].
    destruct (assoc parent (p_inodes s)) as [d|] eqn:Ha; [|inv4 H; reflexivity].
    match type of H with context [with_creds uid gid s ?b] =>
      destruct (with_creds_from_root_r _ uid gid s b Hc) as [r [s1 [Hb Hw]]];
      [ intros s0 r0 s9 Hk;
        match type of Hk with context [sys_openat_creat_excl ?c0 ?h ?i ?nn ?f ?m] => destruct (sys_openat_creat_excl c0 h i nn f m) as [[ia|ea] ha] end;
        [ inversion Hk; subst; reflexivity | destruct ((ea =? EEXIST) && negb _); inversion Hk; subst; reflexivity ]
      | rewrite Hw in H; clear Hw ] end.
    cbn [p_creds p_host with_creds_of] in Hb.
    match goal with |- context [sys_openat_creat_excl ?c0 ?h ?i ?nn ?f ?m] => destruct (sys_openat_creat_excl c0 h i nn f m) as [r0 h'] eqn:Hce end.
    destruct r0 as [i0|e0].
    + inversion Hb; subst r s1. clear Hb.
      destruct (do_lookup _ parent n) as [[[f a]|e] s2] eqn:Hl; pose proof (do_lookup_host _ _ _ _ _ Hl) as Hh2; cbn [p_host with_creds_of with_host] in Hh2.
      * destruct (c_no_open cf); [fin4 H; exact Hh2|]. unfold insert_handle in H. fin4 H. exact Hh2.
      * fin4 H. exact Hh2.
    + destruct ((e0 =? EEXIST) && negb (has (get_writeback_open_flags cf flags) O_EXCL)) eqn:Hex.
      * inversion Hb; subst r s1. clear Hb.
        destruct (do_lookup _ parent n) as [rl s2] eqn:Hl.
        destruct (do_lookup_spec (with_creds_of (with_host (with_creds_of s (caller_creds uid gid)) h') root_creds) _ _ _ _ d Ha Hl) as [Hh2 [Hc2 [_ Hsp]]].
        cbn [p_host p_creds p_inodes with_creds_of with_host] in Hh2, Hc2, Hsp.
        destruct (lookup1 root_creds h' (id_host d) (lookup_name (parent =? ROOT_ID) n)) as [i|e].
        -- destruct (stat h' i) as [st|e].
           ++ destruct Hsp as [f [d' [-> [Had [Hid Him]]]]].
              match type of H with context [let '(rf, s3) := ?x in _] => destruct x as [rf s3] eqn:H3 end.
              pose proof (create_existing_host _ _ _ _ _ _ _ _ _ _ Hc2 Had H3) as Hh3.
              rewrite Hh2, Hid, Him in Hh3.
              assert (Hfin : p_host s' = p_host s3).
              { destruct rf as [[hi fl]|e]; [|fin4 H; unfold forget_one; destruct (f =? ROOT_ID); [reflexivity|]; destruct (assoc f (p_inodes s3)); reflexivity].
                destruct (c_no_open cf); [fin4 H; reflexivity|]. unfold insert_handle in H. fin4 H. reflexivity. }
              rewrite Hfin. exact Hh3.
           ++ destruct Hsp as [-> ->]. fin4 H. reflexivity.
        -- destruct Hsp as [-> ->]. fin4 H. reflexivity.
      * inversion Hb; subst r s1. fin4 H. reflexivity.
  - (* symlink *)
    destruct (validate cf n); [inv4 H; reflexivity|].
    destruct (assoc parent (p_inodes s)) as [d|] eqn:Ha; cbn [option_map].
    + match type of H with context [create_then_lookup ?a ?b ?c ?d0 ?e ?f] => destruct (create_then_lookup a b c d0 e f) as [[rp0 io0] s0] eqn:Hx end.
      inv4 H. apply (create_then_lookup_host _ _ _ _ _ _ _ _ _ _ Hc Ha Hx).
    + unfold create_then_lookup in H. rewrite Ha in H. inv4 H. reflexivity.
  - (* link *)
    destruct (validate cf n); [inv4 H; reflexivity|].
    destruct (assoc inode (p_inodes s)) as [d|]; cbn [option_map]; [|inv4 H; reflexivity].
    destruct (assoc newparent (p_inodes s)) as [nd|]; cbn [option_map]; [|inv4 H; reflexivity].
    rewrite Hc in H. destruct (sys_linkat root_creds (p_host s) (id_host d) (id_host nd) n) as [[u|e] h'] eqn:Hl; cbn [snd].
    + match type of H with context [entry_reply ?x] => destruct (entry_reply x) as [[rp0 io0] s0] eqn:He end. inv4 H.
      rewrite (entry_reply_host _ _ _ _ _ _ He). reflexivity.
    + inv4 H. reflexivity.
  - (* unlink *)
    destruct (validate cf n); [inv4 H; reflexivity|].
    destruct (assoc parent (p_inodes s)) as [d|]; cbn [option_map]; [|inv4 H; reflexivity].
    rewrite Hc in H. destruct (sys_unlinkat root_creds (p_host s) (id_host d) n 0) as [[u|e] h']; inv4 H; reflexivity.
  - (* rmdir *)
    destruct (validate cf n); [inv4 H; reflexivity|].
    destruct (assoc parent (p_inodes s)) as [d|]; cbn [option_map]; [|inv4 H; reflexivity].
    rewrite Hc in H. destruct (sys_unlinkat root_creds (p_host s) (id_host d) n AT_REMOVEDIR) as [[u|e] h']; inv4 H; reflexivity.
  - (* rename *)
    destruct (validate cf on); [inv4 H; reflexivity|].
    destruct (validate cf nn); [inv4 H; reflexivity|].
    destruct (assoc olddir (p_inodes s)) as [od|]; cbn [option_map]; [|inv4 H; reflexivity].
    destruct (assoc newdir (p_inodes s)) as [nd|]; cbn [option_map]; [|inv4 H; reflexivity].
    rewrite Hc in H. destruct (sys_renameat2 root_creds (p_host s) (id_host od) on (id_host nd) nn flags) as [[u|e] h']; inv4 H; reflexivity.
  - (* open *)
    destruct (c_no_open cf); [inv4 H; reflexivity|].
    destruct (do_open cf s inode flags fuse_flags) as [rp0 s0] eqn:Ho.
    pose proof (do_open_direct _ _ _ _ _ _ _ Hc Ho) as Hh. destruct rp0; inv4 H; exact Hh.
  - (* opendir *)
    destruct (c_no_opendir cf); [inv4 H; reflexivity|].
    destruct (do_open cf s inode (N.lor flags O_DIRECTORY) 0) as [rp0 s0] eqn:Ho.
    pose proof (do_open_direct _ _ _ _ _ _ _ Hc Ho) as Hh.
    replace (c_killpriv cf && has 0 FOPEN_IN_KILL_SUIDGID) with false in Hh by (rewrite andb_false_r; reflexivity).
    destruct rp0; inv4 H; exact Hh.
  - (* release *)
    destruct (c_no_open cf); [inv4 H; reflexivity|]. destruct (handle_get s handle inode); inv4 H; reflexivity.
  - (* releasedir *)
    destruct (c_no_opendir cf); [inv4 H; reflexivity|]. destruct (handle_get s handle inode); inv4 H; reflexivity.
  - (* read *)
    destruct (get_data cf (c_no_open cf) s handle inode O_RDONLY) as [r s1] eqn:Hg.
    destruct (get_data_direct _ _ _ _ _ _ _ Hc Hg) as [Hh1 _].
    destruct r as [[hid hd]|e]; [|inv4 H; exact Hh1].
    destruct (check_fd_flags cf s1 hid hd flags) as [hd' s2] eqn:Hf.
    destruct (check_fd_flags_direct _ _ _ _ _ _ _ Hf) as [_ [_ [_ [_ [Hh2 _]]]]].
    destruct (negb (acc_r (hd_acc hd'))); [inv4 H; rewrite Hh2; exact Hh1|].
    destruct (hd_direct hd' && (0 <? size)); [inv4 H; rewrite Hh2; exact Hh1|].
    destruct (sys_pread (p_host s2) (hd_host hd') size off); inv4 H; rewrite Hh2; exact Hh1.
  - (* write *)
    destruct (get_data cf (c_no_open cf) s handle inode O_RDWR) as [r s1] eqn:Hg.
    destruct (get_data_direct _ _ _ _ _ _ _ Hc Hg) as [Hh1 [Hc1 [_ [_ Hr]]]].
    destruct (direct_fd cf s handle inode O_RDWR) as [rd hd0] eqn:Hd. cbn [fst snd] in Hh1, Hr.
    destruct r as [[hid hd]|e]; [|subst rd; fin4 H; exact Hh1]. subst rd.
    destruct (check_fd_flags cf s1 hid hd flags) as [hd' s2] eqn:Hf.
    destruct (check_fd_flags_direct _ _ _ _ _ _ _ Hf) as [Hho [Hac [Hap [Hdi [Hh2 Hc2]]]]].
    match type of H with context [with_killpriv ?c s2 ?b] =>
      destruct (with_killpriv_from_root _ c s2 b (eq_trans Hc2 Hc1)) as [c1 [r [s3 [Hb Hw]]]]; rewrite Hw in H; clear Hw end.
    rewrite <- Hac, <- Hdi.
    destruct (negb (acc_w (hd_acc hd'))).
    + injection Hb as Er Es. destruct r; fin4 H; rewrite <- Es; cbn [p_host with_creds_of]; rewrite Hh2; exact Hh1.
    + destruct (hd_direct hd' && (0 <? len data)).
      { injection Hb as Er Es. destruct r; fin4 H; rewrite <- Es; cbn [p_host with_creds_of]; rewrite Hh2; exact Hh1. }
      cbn [p_creds p_host with_creds_of] in Hb. rewrite Hh2, Hh1, Hho, Hap in Hb.
      match type of Hb with context [sys_pwrite ?c ?h ?i ?a ?o ?dd] => destruct (sys_pwrite c h i a o dd) as [rr hh] end.
      injection Hb as Er Es. destruct r; fin4 H; rewrite <- Es; reflexivity.
  - (* readlink *)
    destruct (assoc inode (p_inodes s)); [|inv4 H; reflexivity]. destruct (sys_readlink (p_host s) (id_host i)); inv4 H; reflexivity.
  - (* setxattr *)
    destruct (negb (c_xattr cf)); [inv4 H; reflexivity|].
    destruct (assoc inode (p_inodes s)) as [d|]; cbn [option_map]; [|inv4 H; reflexivity].
    rewrite Hc in H. destruct (sys_setxattr root_creds (p_host s) (id_host d) n v flags) as [[u|e] h']; inv4 H; reflexivity.
  - (* getxattr *)
    destruct (negb (c_xattr cf)); [inv4 H; reflexivity|]. destruct (assoc inode (p_inodes s)); [|inv4 H; reflexivity].
    destruct (sys_getxattr (p_creds s) (p_host s) (id_host i) n size) as [[v|c]|e]; inv4 H; reflexivity.
  - (* listxattr *)
    destruct (negb (c_xattr cf)); [inv4 H; reflexivity|]. destruct (assoc inode (p_inodes s)); [|inv4 H; reflexivity].
    destruct (sys_listxattr (p_host s) (id_host i) size) as [[v|c]|e]; inv4 H; reflexivity.
  - (* removexattr *)
    destruct (negb (c_xattr cf)); [inv4 H; reflexivity|].
    destruct (assoc inode (p_inodes s)) as [d|]; cbn [option_map]; [|inv4 H; reflexivity].
    rewrite Hc in H. destruct (sys_removexattr root_creds (p_host s) (id_host d) n) as [[u|e] h']; inv4 H; reflexivity.
  - (* fallocate *)
    destruct (get_data cf (c_no_open cf) s handle inode O_RDWR) as [r s1] eqn:Hg.
    destruct (get_data_direct _ _ _ _ _ _ _ Hc Hg) as [Hh1 [Hc1 [_ [_ Hr]]]].
    destruct (direct_fd cf s handle inode O_RDWR) as [rd hd0] eqn:Hd. cbn [fst snd] in Hh1, Hr.
    destruct r as [[hid hd]|e]; [|subst rd; fin4 H; exact Hh1]. subst rd.
    destruct (l =? 0); [fin4 H; exact Hh1|].
    destruct (negb (acc_w (hd_acc hd))); [fin4 H; exact Hh1|].
    rewrite Hc1, Hh1 in H.
    destruct (sys_fallocate root_creds hd0 (hd_host hd) mode off l) as [[u|e] h']; fin4 H; reflexivity.
  - (* lseek *)
    destruct (handle_get s handle inode) as [hd|]; [|inv4 H; reflexivity].
    destruct (stat (p_host s) (hd_host hd)); [|inv4 H; reflexivity].
    match type of H with context [match ?x with Some p => _ | None => _ end] => destruct x as [p|] end; [|inv4 H; reflexivity].
    destruct (9223372036854775807 <? p); inv4 H; reflexivity.
  - (* fsync *)
    destruct (get_data cf (c_no_open cf) s handle inode O_RDONLY) as [r s1] eqn:Hg.
    destruct (get_data_direct _ _ _ _ _ _ _ Hc Hg) as [Hh1 _]. destruct r; inv4 H; exact Hh1.
  - (* flush *)
    destruct (c_no_open cf); [inv4 H; reflexivity|]. destruct (handle_get s handle inode); inv4 H; reflexivity.
  - (* statfs *) destruct (assoc inode (p_inodes s)); inv4 H; reflexivity.
  - (* access *)
    destruct (assoc inode (p_inodes s)); [|inv4 H; reflexivity]. destruct (stat (p_host s) (id_host i)); inv4 H; reflexivity.
Qed.

(* ---- history level: along every history, after each request the tree is the tree after the direct
   calls of that request (descriptors are resolved through the server's tables at that point) *)
Fixpoint run_refines (cf : cfg) (r : rstate) (qs : list sreq) : Prop :=
  match qs with
  | [] => True
  | q :: qs' =>
      let '(_, _, r') := rstep cf r q in
      p_host (r_p r') = direct_host cf (r_p r) (resolve (r_is r) (r_hs r) q) /\ run_refines cf r' qs'
  end.

Theorem history_refines : forall cf qs r, p_creds (r_p r) = root_creds -> run_refines cf r qs.
Proof.
  intros cf qs. induction qs as [|q qs IH]; intros r Hc; cbn [run_refines]; [exact I|].
  destruct (rstep cf r q) as [[rp c] r'] eqn:Hs. unfold rstep in Hs.
  destruct (pstep cf (r_p r) (resolve (r_is r) (r_hs r) q)) as [[[rp0 io] ho] s'] eqn:Hp. inversion Hs; subst. cbn [r_p].
  split; [apply (tree_full _ _ _ _ _ _ _ Hc Hp)|].
  apply IH. cbn [r_p]. apply (pstep_creds_restored _ _ _ _ _ _ _ Hc Hp).
Qed.

(* ---- replies *)
Definition lookup_reply (c : creds) (h : host) (d : N) (is_root : bool) (n : name) : reply :=
  match lookup1 c h d (lookup_name is_root n) with
  | Err e => RpErr e
  | Ok i => match stat h i with Err e => RpErr e | Ok st => RpEntry st end
  end.
Definition res_reply (r : res unit) : reply := match r with Ok _ => RpOk | Err e => RpErr e end.

(* the reply of the direct calls, for the request kinds covered *)
Definition direct_reply (cf : cfg) (s : pstate) (q : req) : option reply :=
  let h := p_host s in
  let entry_after (p : N) (n : name) (d : N) (x : res N * host) :=
    match x with
    | (Err e, _) => RpErr e
    | (Ok _, h') => lookup_reply root_creds h' d (p =? ROOT_ID) n
    end in
  match q with
  | QLookup p n =>
      Some (match lookup_check n with
            | Some e => RpErr e
            | None => match Ino s p with None => RpErr EBADF | Some d => lookup_reply root_creds h d (p =? ROOT_ID) n end
            end)
  | QGetattr inode handle =>
      Some (match do_getattr cf s inode handle with Ok a => RpAttr a | Err e => RpErr e end)
  | QMkdir p n mode umask uid gid =>
      Some (match validate cf n, Ino s p with
            | Some e, _ => RpErr e | None, None => RpErr EBADF
            | None, Some d => entry_after p n d (sys_mkdirat (caller_creds uid gid) h d n (N.ldiff mode umask)) end)
  | QMknod p n mode rdev umask uid gid =>
      Some (match validate cf n, Ino s p with
            | Some e, _ => RpErr e | None, None => RpErr EBADF
            | None, Some d => entry_after p n d (sys_mknodat (caller_creds uid gid) h d n (N.ldiff mode umask) rdev) end)
  | QSymlink p n t uid gid =>
      Some (match validate cf n, Ino s p with
            | Some e, _ => RpErr e | None, None => RpErr EBADF
            | None, Some d => entry_after p n d (sys_symlinkat (caller_creds uid gid) h t d n) end)
  | QUnlink p n =>
      Some (match validate cf n, Ino s p with
            | Some e, _ => RpErr e | None, None => RpErr EBADF
            | None, Some d => res_reply (fst (sys_unlinkat root_creds h d n 0)) end)
  | QRmdir p n =>
      Some (match validate cf n, Ino s p with
            | Some e, _ => RpErr e | None, None => RpErr EBADF
            | None, Some d => res_reply (fst (sys_unlinkat root_creds h d n AT_REMOVEDIR)) end)
  | QRename od on nd nn flags =>
      Some (match validate cf on with Some e => RpErr e | None =>
            match validate cf nn with Some e => RpErr e | None =>
            match Ino s od, Ino s nd with
            | Some a, Some b => res_reply (fst (sys_renameat2 root_creds h a on b nn flags))
            | _, _ => RpErr EBADF end end end)
  | QReadlink i =>
      Some (match Ino s i with None => RpErr EBADF
            | Some a => match sys_readlink h a with Ok t => RpData t | Err e => RpErr e end end)
  | _ => None
  end.

Lemma do_lookup_reply : forall s p n r s2 dir, assoc p (p_inodes s) = Some dir -> do_lookup s p n = (r, s2) ->
  fst (fst (entry_reply (r, s2))) = lookup_reply (p_creds s) (p_host s) (id_host dir) (p =? ROOT_ID) n.
Proof.
  intros s p n r s2 dir Ha H. destruct (do_lookup_spec _ _ _ _ _ _ Ha H) as [_ [_ [_ Hsp]]]. unfold lookup_reply.
  destruct (lookup1 (p_creds s) (p_host s) (id_host dir) (lookup_name (p =? ROOT_ID) n)) as [i|e].
  - destruct (stat (p_host s) i) as [st|e].
    + destruct Hsp as [f [d' [-> _]]]. reflexivity.
    + destruct Hsp as [-> _]. reflexivity.
  - destruct Hsp as [-> _]. reflexivity.
Qed.

Lemma create_then_lookup_reply : forall s uid gid parent n call rp io s' d,
  p_creds s = root_creds -> assoc parent (p_inodes s) = Some d ->
  create_then_lookup s uid gid parent n call = (rp, io, s') ->
  rp = match call (caller_creds uid gid) (p_host s) (id_host d) with
       | (Err e, _) => RpErr e
       | (Ok _, h') => lookup_reply root_creds h' (id_host d) (parent =? ROOT_ID) n
       end.
Proof.
  intros s uid gid parent n call rp io s' d Hc Ha H. unfold create_then_lookup in H. rewrite Ha in H.
  match type of H with context [with_creds uid gid s ?b] =>
    destruct (with_creds_from_root_r _ uid gid s b Hc) as [r [s1 [Hb Hw]]];
    [ intros s0 r0 s9 Hk; destruct (call (p_creds s0) (p_host s0) (id_host d)); inversion Hk; subst; reflexivity
    | rewrite Hw in H; clear Hw ] end.
  cbn [p_creds p_host with_creds_of] in Hb.
  destruct (call (caller_creds uid gid) (p_host s) (id_host d)) as [r1 h'] eqn:Hcall.
  inversion Hb; subst r1 s1. destruct r as [i0|e]; [|inversion H; subst; reflexivity].
  destruct (do_lookup _ parent n) as [rl s2] eqn:Hl.
  pose proof (do_lookup_reply (with_creds_of (with_host (with_creds_of s (caller_creds uid gid)) h') root_creds) _ _ _ _ d Ha Hl) as Hr.
  cbn [p_creds p_host with_creds_of with_host] in Hr.
  destruct (entry_reply (rl, s2)) as [[rp0 io0] s0] eqn:He. inversion H; subst. exact Hr.
Qed.

Theorem reply_refines : forall cf s q rp io ho s' dr,
  p_creds s = root_creds -> direct_reply cf s q = Some dr -> pstep cf s q = (rp, io, ho, s') -> rp = dr.
Proof.
  intros cf s q rp io ho s' dr Hc Hd H. unfold pstep in H. unfold direct_reply, Ino in Hd.
  destruct q; try discriminate Hd; cbv beta zeta in H, Hd; inversion Hd; subst dr; clear Hd.
  - (* lookup *)
    destruct (lookup_check n); [inv4 H; reflexivity|].
    destruct (assoc parent (p_inodes s)) as [d|] eqn:Ha; cbn [option_map].
    + destruct (do_lookup s parent n) as [rl s2] eqn:Hl. pose proof (do_lookup_reply _ _ _ _ _ _ Ha Hl) as Hr.
      destruct (entry_reply (rl, s2)) as [[rp0 io0] s0]. inv4 H. rewrite Hc in Hr. exact Hr.
    + unfold do_lookup in H. rewrite Ha in H. inv4 H. reflexivity.
  - (* getattr *) destruct (do_getattr cf s inode handle); inv4 H; reflexivity.
  - (* mkdir *)
    destruct (validate cf n); [inv4 H; reflexivity|].
    destruct (assoc parent (p_inodes s)) as [d|] eqn:Ha; cbn [option_map].
    + match type of H with context [create_then_lookup ?a ?b ?c ?d0 ?e ?f] => destruct (create_then_lookup a b c d0 e f) as [[rp0 io0] s0] eqn:Hx end.
      inv4 H. rewrite (create_then_lookup_reply _ _ _ _ _ _ _ _ _ _ Hc Ha Hx).
      destruct (sys_mkdirat (caller_creds uid gid) (p_host s) (id_host d) n (N.ldiff mode umask)) as [[i0|e] h']; reflexivity.
    + unfold create_then_lookup in H. rewrite Ha in H. inv4 H. reflexivity.
  - (* mknod *)
    destruct (validate cf n); [inv4 H; reflexivity|].
    destruct (assoc parent (p_inodes s)) as [d|] eqn:Ha; cbn [option_map].
    + match type of H with context [create_then_lookup ?a ?b ?c ?d0 ?e ?f] => destruct (create_then_lookup a b c d0 e f) as [[rp0 io0] s0] eqn:Hx end.
      inv4 H. rewrite (create_then_lookup_reply _ _ _ _ _ _ _ _ _ _ Hc Ha Hx).
      destruct (sys_mknodat (caller_creds uid gid) (p_host s) (id_host d) n (N.ldiff mode umask) rdev) as [[i0|e] h']; reflexivity.
    + unfold create_then_lookup in H. rewrite Ha in H. inv4 H. reflexivity.
  - (* symlink *)
    destruct (validate cf n); [inv4 H; reflexivity|].
    destruct (assoc parent (p_inodes s)) as [d|] eqn:Ha; cbn [option_map].
    + match type of H with context [create_then_lookup ?a ?b ?c ?d0 ?e ?f] => destruct (create_then_lookup a b c d0 e f) as [[rp0 io0] s0] eqn:Hx end.
      inv4 H. rewrite (create_then_lookup_reply _ _ _ _ _ _ _ _ _ _ Hc Ha Hx).
      destruct (sys_symlinkat (caller_creds uid gid) (p_host s) target (id_host d) n) as [[i0|e] h']; reflexivity.
    + unfold create_then_lookup in H. rewrite Ha in H. inv4 H. reflexivity.
  - (* unlink *)
    destruct (validate cf n); [inv4 H; reflexivity|].
    destruct (assoc parent (p_inodes s)) as [d|]; cbn [option_map]; [|inv4 H; reflexivity].
    rewrite Hc in H. destruct (sys_unlinkat root_creds (p_host s) (id_host d) n 0) as [[u|e] h']; inv4 H; reflexivity.
  - (* rmdir *)
    destruct (validate cf n); [inv4 H; reflexivity|].
    destruct (assoc parent (p_inodes s)) as [d|]; cbn [option_map]; [|inv4 H; reflexivity].
    rewrite Hc in H. destruct (sys_unlinkat root_creds (p_host s) (id_host d) n AT_REMOVEDIR) as [[u|e] h']; inv4 H; reflexivity.
  - (* rename *)
    destruct (validate cf on); [inv4 H; reflexivity|].
    destruct (validate cf nn); [inv4 H; reflexivity|].
    destruct (assoc olddir (p_inodes s)) as [od|]; cbn [option_map]; [|inv4 H; reflexivity].
    destruct (assoc newdir (p_inodes s)) as [nd|]; cbn [option_map]; [|inv4 H; reflexivity].
    rewrite Hc in H. destruct (sys_renameat2 root_creds (p_host s) (id_host od) on (id_host nd) nn flags) as [[u|e] h']; inv4 H; reflexivity.
  - (* readlink *)
    destruct (assoc inode (p_inodes s)) as [d|]; cbn [option_map]; [|inv4 H; reflexivity].
    destruct (sys_readlink (p_host s) (id_host d)); inv4 H; reflexivity.
Qed.

(* ---- ownership, composed through do_lookup to the Entry the client receives *)
Lemma ent_find_app_new : forall n i l, ent_find n l = None -> ent_find n (l ++ [(n, i)]) = Some i.
Proof.
  induction l as [|[n' i'] r IH]; intros H; cbn in *.
  - assert (name_eqb n n = true) by (apply name_eqb_eq; reflexivity). rewrite H0. reflexivity.
  - destruct (name_eqb n' n); [discriminate|]. apply IH. exact H.
Qed.

Lemma created_then_found : forall c h d dv n k mode i h', create_check c h d n = Ok dv -> d <> h_next h ->
  create_node c h d dv n k mode = (i, h') ->
  lookup1 root_creds h' d n = Ok i /\ exists v, get h' i = Some v /\ i_uid v = euid c /\ i_gid v = new_gid c dv.
Proof.
  intros c h d dv n k mode i h' Hck Hne Hcn. unfold create_check in Hck.
  destruct (len n =? 0) eqn:Hl0; [discriminate|]. destruct (has_slash n) eqn:Hsl; [discriminate|].
  destruct (get h d) as [dv'|] eqn:Hg; [|discriminate].
  destruct (i_kind dv') as [|ents par dead| |] eqn:Hk; try discriminate.
  destruct (negb (may c dv' MAY_X)); [discriminate|].
  destruct (is_dot n || is_dotdot n) eqn:Hdots; [discriminate|].
  destruct dead; [discriminate|]. destruct (NAME_MAX <? len n) eqn:Hlen; [discriminate|].
  destruct (ent_find n ents) eqn:Hf; [discriminate|].
  destruct (may c dv' MAY_W); [|discriminate]. inversion Hck; subst dv'. clear Hck.
  unfold create_node in Hcn. rewrite alloc_spec in Hcn. inversion Hcn; subst i h'. clear Hcn.
  apply orb_false_iff in Hdots. destruct Hdots as [Hd1 Hd2].
  split.
  - unfold lookup1. rewrite Hl0, Hsl. rewrite get_set_same. unfold add_entry. rewrite Hk. cbn [i_kind].
    cbn [may root_creds euid N.eqb]. cbn [is_dir_kind andb negb]. rewrite andb_false_r. cbn [negb].
    rewrite Hd1, Hd2, Hlen. rewrite (ent_find_app_new n (h_next h) ents Hf). reflexivity.
  - eexists. split.
    + rewrite get_set_other by (intros E; apply Hne; symmetry; exact E). unfold get. cbn. apply assoc_set_same.
    + split; reflexivity.
Qed.

(* the three creating calls that go through create_then_lookup *)
Definition creating_call (call : creds -> host -> N -> res N * host) (n : name) : Prop :=
  forall c h d i h', call c h d = (Ok i, h') ->
    exists dv k mode, create_check c h d n = Ok dv /\ create_node c h d dv n k mode = (i, h').

Lemma mkdirat_creating : forall n mode, creating_call (fun c h d => sys_mkdirat c h d n mode) n.
Proof.
  intros n mode c h d i h' H. unfold sys_mkdirat in H. destruct (create_check c h d n) as [dv|e] eqn:Hck; [|discriminate].
  match type of H with context [create_node c h d dv n ?k ?m] => destruct (create_node c h d dv n k m) as [i0 h0] eqn:Hcn end.
  inversion H; subst. eauto.
Qed.
Lemma symlinkat_creating : forall n t, creating_call (fun c h d => sys_symlinkat c h t d n) n.
Proof.
  intros n t c h d i h' H. unfold sys_symlinkat in H. destruct (len t =? 0); [discriminate|].
  destruct (create_check c h d n) as [dv|e] eqn:Hck; [|discriminate].
  match type of H with context [create_node c h d dv n ?k ?m] => destruct (create_node c h d dv n k m) as [i0 h0] eqn:Hcn end.
  inversion H; subst. eauto.
Qed.
Lemma mknodat_creating : forall n mode rdev, creating_call (fun c h d => sys_mknodat c h d n mode rdev) n.
Proof.
  intros n mode rdev c h d i h' H. unfold sys_mknodat in H.
  destruct (N.land mode S_IFMT =? S_IFDIR); [discriminate|]. destruct (negb _); [discriminate|].
  destruct (create_check c h d n) as [dv|e] eqn:Hck; [|discriminate].
  destruct (_ && negb (euid c =? 0)); [discriminate|].
  match type of H with context [create_node c h d dv n ?k ?m] => destruct (create_node c h d dv n k m) as [i0 h0] eqn:Hcn end.
  inversion H; subst. eauto.
Qed.

Lemma lookup_name_same : forall b n, nul_free n -> is_dotdot n = false -> lookup_name b n = n.
Proof.
  intros b n Hnf Hd. unfold lookup_name. destruct b; [|reflexivity]. cbn [andb].
  destruct (starts_with (with_nul n) parent_dir_cstr) eqn:Hs; [|reflexivity].
  apply (starts_dotdot n Hnf) in Hs. subst n. discriminate Hd.
Qed.

(* well-formed host: every existing inode number is below the allocation counter *)
Definition host_wf (h : host) : Prop := forall i v, get h i = Some v -> i < h_next h.

Theorem owner_entry : forall s uid gid parent n call rp io s' d,
  p_creds s = root_creds -> host_wf (p_host s) -> nul_free n -> creating_call call n ->
  assoc parent (p_inodes s) = Some d ->
  create_then_lookup s uid gid parent n call = (rp, io, s') ->
  forall a, rp = RpEntry a ->
  a_uid a = uid /\ exists dv, get (p_host s) (id_host d) = Some dv /\
                              a_gid a = (if has (i_mode dv) S_ISGID then i_gid dv else gid).
Proof.
  intros s uid gid parent n call rp io s' d Hc Hwf Hnf Hcall Ha H a Hrp.
  rewrite (create_then_lookup_reply _ _ _ _ _ _ _ _ _ _ Hc Ha H) in Hrp.
  destruct (call (caller_creds uid gid) (p_host s) (id_host d)) as [[i0|e] h'] eqn:Hcl; [|discriminate].
  destruct (Hcall _ _ _ _ _ Hcl) as [dv [k [mode [Hck Hcn]]]].
  destruct (create_check_ok _ _ _ _ _ Hck) as [Hgd _].
  assert (Hne : id_host d <> h_next (p_host s)) by (pose proof (Hwf _ _ Hgd); lia).
  destruct (created_then_found _ _ _ _ _ _ _ _ _ Hck Hne Hcn) as [Hlk [v [Hgv [Hu Hg]]]].
  assert (Hdd : is_dotdot n = false).
  { unfold create_check in Hck. destruct (len n =? 0); [discriminate|]. destruct (has_slash n); [discriminate|].
    rewrite Hgd in Hck. destruct (i_kind dv); try discriminate. destruct (negb _); [discriminate|].
    destruct (is_dot n || is_dotdot n) eqn:E; [discriminate|]. apply orb_false_iff in E. apply E. }
  unfold lookup_reply in Hrp. rewrite (lookup_name_same _ n Hnf Hdd), Hlk in Hrp.
  unfold stat in Hrp. rewrite Hgv in Hrp. inversion Hrp; subst a. cbn [a_uid a_gid].
  split; [exact Hu|]. exists dv. split; [exact Hgd | exact Hg].
Qed.

(* non-vacuity of the hypotheses used above *)
Definition wit_host : host := mkHost [(10, mkInode (KDir [] 10 false) 511 0 0 [])] 11 [].
Definition wit_cfg : cfg := mkCfg true false false false false true 2 true true.
Lemma wit_ok : p_creds (init_state wit_host 10) = root_creds /\ host_wf (p_host (init_state wit_host 10)) /\
  (exists a io s', create_then_lookup (init_state wit_host 10) 1000 1000 ROOT_ID [110]
                     (fun c h d => sys_mkdirat c h d [110] 493) = (RpEntry a, io, s') /\ a_uid a = 1000) /\
  direct_reply wit_cfg (init_state wit_host 10) (QMkdir ROOT_ID [110] 493 0 1000 1000) <> None.
Proof.
  split; [reflexivity|]. split.
  - intros i v H. unfold get, init_state, wit_host in H. cbn [p_host h_nodes assoc] in H. cbn [p_host h_next wit_host init_state].
    destruct (10 =? i) eqn:E; [apply N.eqb_eq in E; subst i; reflexivity | discriminate H].
  - split; [|discriminate]. eexists; eexists; eexists. split; [vm_compute; reflexivity | reflexivity].
Qed.


(* ---- setattr applies exactly the requested subset of the time stamps: the utimens step runs iff ATIME or MTIME
   is valid, on the handle's inode (or the inode itself), with set / now / omit per field as requested *)
Theorem utimens_exact : forall h i a m h', get h i <> None -> sys_utimens h i a m = (Ok tt, h') ->
  utimes_of h' i = (tv_apply a (fst (utimes_of h i)), tv_apply m (snd (utimes_of h i))) /\
  (forall j, j <> i -> utimes_of h' j = utimes_of h j) /\ (forall j, get h' j = get h j) /\ h_next h' = h_next h.
Proof.
  intros h i a m h' Hg H. unfold sys_utimens in H. destruct (get h i); [|contradiction]. inversion H; subst. clear H.
  split; [unfold utimes_of at 1; cbn [h_utimes]; rewrite assoc_set_same; reflexivity|].
  split; [intros j Hj; unfold utimes_of; cbn [h_utimes]; rewrite assoc_set_other by exact Hj; reflexivity|].
  split; reflexivity.
Qed.

Theorem time_spec_cases : forall valid nb sb sec nsec,
  time_spec valid nb sb sec nsec =
  (if has valid nb then TNow else if has valid sb then TSet sec nsec else TKeep) /\
  (has valid nb = false -> has valid sb = false -> forall old, tv_apply (time_spec valid nb sb sec nsec) old = old) /\
  (has valid nb = false -> has valid sb = true -> forall old, tv_apply (time_spec valid nb sb sec nsec) old = TSet sec nsec) /\
  (has valid nb = true -> forall old, tv_apply (time_spec valid nb sb sec nsec) old = TNow).
Proof.
  intros. unfold time_spec. split; [reflexivity|]. repeat split; intros; repeat match goal with H : has _ _ = _ |- _ => rewrite H end; reflexivity.
Qed.

(* ---- the per-request flags word of READ/WRITE: check_fd_flags hands it to fcntl(F_SETFL) whenever it differs from the
   flags recorded for the descriptor; of the bits F_SETFL honours (O_APPEND, O_NONBLOCK, O_DIRECT, O_NOATIME) only
   O_APPEND changes what pread/pwrite do to a regular file; pwrite on an O_APPEND descriptor appends whatever the offset *)
Theorem write_flags_status : forall cf s hid hd flags hd' s', check_fd_flags cf s hid hd flags = (hd', s') ->
  hd_flags hd' = flags /\ hd_append hd' = fd_append cf hd flags /\
  (hd_flags hd <> flags -> hd_append hd' = has (setfl_flags cf flags) O_APPEND) /\ (hd_flags hd = flags -> hd' = hd /\ s' = s).
Proof.
  intros cf s hid hd flags hd' s' H. destruct (check_fd_flags_sets _ _ _ _ _ _ _ H) as [H1 [_ [_ [H4 _]]]].
  destruct (check_fd_flags_direct _ _ _ _ _ _ _ H) as [_ [_ [H3 _]]].
  split; [exact H1|]. split; [exact H3|]. split; [exact H4|].
  intros E. unfold check_fd_flags in H. apply N.eqb_eq in E. rewrite E in H. inversion H; subst. split; reflexivity.
Qed.

Theorem pwrite_append_ignores_offset : forall c h i off off' w,
  sys_pwrite c h i true off w = sys_pwrite c h i true off' w.
Proof. intros. unfold sys_pwrite. destruct (get h i) as [v|]; [|reflexivity]. destruct (i_kind v); reflexivity. Qed.


(* ---- reopening an inode while the CALLER's credentials are installed (create() on an existing name).
   FULL statement: it fails only if the direct open made with those credentials fails, with the same errno.  REFUTED under
   inode_file_handles (open_by_handle_at needs CAP_DAC_READ_SEARCH: EPERM for every non-root caller, even for the owner of the
   file); holds for root callers and without file handles. *)
Definition reopen_call_flags (cf : cfg) (flags : N) : N :=
  clear (clear (N.lor (strip_direct cf (get_writeback_open_flags cf flags)) O_CLOEXEC) O_NOFOLLOW) O_CREAT.
Definition C05_reopen_as_caller_full : Prop :=
  forall cf s inode flags d e, assoc inode (p_inodes s) = Some d -> is_safe_inode (id_mode d) = true ->
    fst (open_inode cf s inode flags) = Err e ->
    fst (sys_reopen (p_creds s) (p_host s) (id_host d) (reopen_call_flags cf flags)) = Err e.
Definition KnownReopen (cf : cfg) (s : pstate) : Prop := c_ifh cf = true /\ euid (p_creds s) <> 0.

Theorem reopen_as_caller_partial : forall cf s inode flags d e, ~ KnownReopen cf s ->
  assoc inode (p_inodes s) = Some d -> is_safe_inode (id_mode d) = true ->
  fst (open_inode cf s inode flags) = Err e ->
  fst (sys_reopen (p_creds s) (p_host s) (id_host d) (reopen_call_flags cf flags)) = Err e.
Proof.
  intros cf s inode flags d e Hk Ha Hs H. unfold open_inode in H. rewrite Ha, Hs in H. cbn [negb] in H.
  destruct (c_ifh cf && negb (euid (p_creds s) =? 0)) eqn:E.
  - exfalso. apply andb_prop in E. destruct E as [E1 E2]. apply Hk. split; [exact E1|].
    apply negb_true_iff in E2. apply N.eqb_neq. exact E2.
  - unfold reopen_call_flags. destruct (sys_reopen _ _ _ _) as [[u|e0] h']; cbn in H |- *; [discriminate | inversion H; reflexivity].
Qed.

Definition ro_host : host :=
  mkHost [(10, mkInode (KDir [([102], 11)] 10 false) 511 0 0 []); (11, mkInode (KReg [48; 49]) 420 1000 1000 [])] 12 [].
Definition ro_cfg : cfg := mkCfg true false false false false true 2 true true.
Definition ro_state : pstate :=
  with_creds_of (r_p (snd (run ro_cfg (start ro_host 10) [SLookup (Slot 0) [102]]))) (mkCreds 1000 1000 false).

Theorem reopen_as_caller_refuted : ~ C05_reopen_as_caller_full.
Proof.
  intros F. specialize (F ro_cfg ro_state 2 O_RDWR (mkIdata 11 33188 1) EPERM eq_refl eq_refl eq_refl).
  vm_compute in F. discriminate F.
Qed.
Lemma ro_known : KnownReopen ro_cfg ro_state.
Proof. split; [reflexivity | discriminate]. Qed.
