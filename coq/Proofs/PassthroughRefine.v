(* C05: flag facts, ownership of created objects, refinement of the exported tree and of the replies by
   the direct system calls, per request and along whole histories. *)
From Coq Require Import List NArith Bool Lia.
From FB Require Import Gen.Validators Model.Names Model.HostFs Model.Passthrough Proofs.HostFs Proofs.PassthroughCreds.
Import ListNotations.
Local Open Scope N_scope.

(* ---- flags *)
Lemma land_ldiff_same : forall a b, N.land (N.ldiff a b) b = 0.
Proof.
  intros a b. apply N.bits_inj. intros n. rewrite N.land_spec, N.ldiff_spec, N.bits_0.
  destruct (N.testbit a n), (N.testbit b n); reflexivity.
Qed.
Lemma has_clear : forall a b, has (clear a b) b = false.
Proof. intros a b. unfold has, clear. rewrite land_ldiff_same. reflexivity. Qed.

Theorem writeback_flags_off : forall cf f, c_writeback cf = false -> get_writeback_open_flags cf f = f.
Proof. intros cf f H. unfold get_writeback_open_flags. rewrite H. reflexivity. Qed.

Theorem writeback_flags_no_append : forall cf f, c_writeback cf = true -> has (get_writeback_open_flags cf f) O_APPEND = false.
Proof.
  intros cf f H. unfold get_writeback_open_flags. rewrite H. cbn [andb].
  destruct (has f O_APPEND) eqn:Ha; [apply has_clear|].
  destruct (N.land f O_ACCMODE =? O_WRONLY); [|exact Ha].
  (* O_RDWR = 2 and clearing bits 0-1 do not touch bit 10 *)
  unfold has in *. apply negb_false_iff in Ha. apply N.eqb_eq in Ha. apply negb_false_iff. apply N.eqb_eq.
  apply N.bits_inj. intros n. rewrite N.land_spec, N.lor_spec, N.bits_0.
  assert (Hb : N.testbit (N.land f O_APPEND) n = false) by (rewrite Ha; apply N.bits_0).
  rewrite N.land_spec in Hb. unfold clear. rewrite N.ldiff_spec.
  destruct (N.testbit O_APPEND n) eqn:Hn; [|rewrite !andb_false_r; reflexivity].
  rewrite andb_true_r in Hb. rewrite Hb. cbn.
  (* n is bit 10: O_RDWR has no such bit *)
  assert (n = 10). { unfold O_APPEND in Hn. destruct (N.eq_dec n 10) as [->|Hne]; [reflexivity|].
    exfalso. change 1024 with (2 ^ 10) in Hn. rewrite N.pow2_bits_eqb in Hn. apply N.eqb_eq in Hn. congruence. }
  subst. reflexivity.
Qed.

Theorem writeback_flags_access : forall cf f, c_writeback cf = true ->
  (N.land f O_ACCMODE =? O_WRONLY) = true ->
  get_writeback_open_flags cf f = (if has f O_APPEND then clear (N.lor (clear f O_ACCMODE) O_RDWR) O_APPEND else N.lor (clear f O_ACCMODE) O_RDWR).
Proof. intros cf f H Hw. unfold get_writeback_open_flags. rewrite H, Hw. reflexivity. Qed.

Theorem check_fd_flags_sets : forall s hid hd flags hd' s', check_fd_flags s hid hd flags = (hd', s') ->
  hd_flags hd' = flags /\ hd_host hd' = hd_host hd /\ hd_acc hd' = hd_acc hd /\
  (hd_flags hd <> flags -> hd_append hd' = has flags O_APPEND) /\ p_host s' = p_host s.
Proof.
  intros s hid hd flags hd' s' H. unfold check_fd_flags in H.
  destruct (hd_flags hd =? flags) eqn:E.
  - apply N.eqb_eq in E. inversion H; subst. repeat split; try reflexivity. intros C. contradiction.
  - destruct hid; inversion H; subst; cbn; repeat split; reflexivity.
Qed.

(* special files and links are never opened for I/O *)
Theorem special_never_opened : forall cf s inode flags d, assoc inode (p_inodes s) = Some d ->
  is_safe_inode (id_mode d) = false -> open_inode cf s inode flags = (Err EBADF, s).
Proof. intros cf s inode flags d Ha Hs. unfold open_inode. rewrite Ha, Hs. reflexivity. Qed.

(* ---- what runs inside a set_creds scope started as root *)
Definition caller_creds (uid gid : N) : creds := mkCreds uid gid (uid =? 0).

Lemma with_creds_from_root : forall A uid gid s (body : pstate -> res A * pstate),
  p_creds s = root_creds ->
  exists c r0 s1, body (with_creds_of s (caller_creds uid gid)) = (r0, s1) /\
                  with_creds uid gid s body = (r0, with_creds_of s1 c).
Proof.
  intros A uid gid s body Hc.
  destruct (body (with_creds_of s (caller_creds uid gid))) as [r0 s1] eqn:Hb.
  unfold with_creds. rewrite Hc. unfold sys_setresgid, sys_setresuid. cbn [euid egid fsetid root_creds].
  unfold caller_creds in Hb.
  destruct (gid =? 0) eqn:Hg; destruct (uid =? 0) eqn:Hu; cbn [N.eqb orb euid egid fsetid];
    try (apply N.eqb_eq in Hg; subst gid); try (apply N.eqb_eq in Hu; subst uid); cbn [N.eqb] in *;
    unfold root_creds; cbn [euid egid fsetid N.eqb orb]; rewrite ?Hu in *; rewrite Hb; eexists; exists r0, s1; split; reflexivity.
Qed.

(* ---- ownership: a node created by the creating calls belongs to the calling credentials *)
Theorem create_node_owner : forall c h d dv n k mode i h', i <> d ->
  create_node c h d dv n k mode = (i, h') ->
  exists v, get h' i = Some v /\ i_uid v = euid c /\ i_gid v = new_gid c dv /\ i_kind v = k.
Proof.
  intros c h d dv n k mode i h' Hne H. unfold create_node in H. rewrite alloc_spec in H. inversion H; subst. clear H.
  eexists. split.
  - rewrite get_set_other by exact Hne. unfold get. cbn. apply assoc_set_same.
  - cbn. repeat split; reflexivity.
Qed.

Theorem owner_of_caller : forall uid gid dv, uid <> 0 ->
  euid (caller_creds uid gid) = uid /\
  new_gid (caller_creds uid gid) dv = (if has (i_mode dv) S_ISGID then i_gid dv else gid).
Proof. intros. split; reflexivity. Qed.

(* ---- the direct calls *)
Definition kp_open (cf : cfg) (fuse_flags : N) : bool := c_killpriv cf && has fuse_flags FOPEN_IN_KILL_SUIDGID.
(* credentials in force inside [with_killpriv kp (with_creds uid gid ...)] entered as root *)
Definition caller_creds_kp (kp : bool) (uid gid : N) : creds := mkCreds uid gid ((uid =? 0) && negb kp).
Definition root_kp (kp : bool) : creds := mkCreds 0 0 (negb kp).

Definition I (s : pstate) (f : N) : option N := option_map id_host (assoc f (p_inodes s)).

(* reopening an inode of the map for I/O: the gate on the recorded file type, then the magic-link open *)
Definition direct_open (cf : cfg) (c : creds) (s : pstate) (h : host) (inode flags : N) : res (N * N) * host :=
  match assoc inode (p_inodes s) with
  | None => (Err EBADF, h)
  | Some d =>
      if negb (is_safe_inode (id_mode d)) then (Err EBADF, h)
      else let of := clear (clear (N.lor (clear (get_writeback_open_flags cf flags) O_DIRECT) O_CLOEXEC) O_NOFOLLOW) O_CREAT in
           match sys_reopen c h (id_host d) of with
           | (Err e, h') => (Err e, h')
           | (Ok _, h') => (Ok (id_host d, of), h')
           end
  end.

(* the descriptor a data request works on: the handle's, or (no_open) a temporary one *)
Definition direct_fd (cf : cfg) (s : pstate) (handle inode flags : N) : res hdata * host :=
  if negb (c_no_open cf) then
    match handle_get s handle inode with Ok hd => (Ok hd, p_host s) | Err e => (Err e, p_host s) end
  else match direct_open cf root_creds s (p_host s) inode flags with
       | (Err e, h') => (Err e, h')
       | (Ok (hi, fl), h') => (Ok (new_hdata inode hi fl flags), h')
       end.

Definition fd_append (hd : hdata) (flags : N) : bool :=
  if hd_flags hd =? flags then hd_append hd else has flags O_APPEND.

(* the host tree after the same calls made directly, with the caller's identity where the code installs it *)
Definition direct_host (cf : cfg) (s : pstate) (q : req) : host :=
  let h := p_host s in
  match q with
  | QMkdir p n mode umask uid gid =>
      match validate cf n, I s p with
      | None, Some d => snd (sys_mkdirat (caller_creds uid gid) h d n (N.ldiff mode umask))
      | _, _ => h end
  | QMknod p n mode rdev umask uid gid =>
      match validate cf n, I s p with
      | None, Some d => snd (sys_mknodat (caller_creds uid gid) h d n (N.ldiff mode umask) rdev)
      | _, _ => h end
  | QSymlink p n t uid gid =>
      match validate cf n, I s p with
      | None, Some d => snd (sys_symlinkat (caller_creds uid gid) h t d n)
      | _, _ => h end
  | QUnlink p n =>
      match validate cf n, I s p with None, Some d => snd (sys_unlinkat root_creds h d n 0) | _, _ => h end
  | QRmdir p n =>
      match validate cf n, I s p with None, Some d => snd (sys_unlinkat root_creds h d n AT_REMOVEDIR) | _, _ => h end
  | QRename od on nd nn flags =>
      match validate cf on, validate cf nn, I s od, I s nd with
      | None, None, Some a, Some b => snd (sys_renameat2 root_creds h a on b nn flags)
      | _, _, _, _ => h end
  | QLink i p n =>
      match validate cf n, I s i, I s p with
      | None, Some a, Some b => snd (sys_linkat root_creds h a b n)
      | _, _, _ => h end
  | QSetxattr i n v flags =>
      if negb (c_xattr cf) then h else
      match I s i with Some a => snd (sys_setxattr root_creds h a n v flags) | None => h end
  | QRemovexattr i n =>
      if negb (c_xattr cf) then h else
      match I s i with Some a => snd (sys_removexattr root_creds h a n) | None => h end
  | QOpen inode flags ff =>
      if c_no_open cf then h else snd (direct_open cf (root_kp (kp_open cf ff)) s h inode flags)
  | QOpendir inode flags =>
      if c_no_opendir cf then h else snd (direct_open cf root_creds s h inode (N.lor flags O_DIRECTORY))
  | QWrite inode handle off data flags ff =>
      match direct_fd cf s handle inode O_RDWR with
      | (Err _, h') => h'
      | (Ok hd, h') =>
          if negb (acc_w (hd_acc hd)) then h'
          else snd (sys_pwrite (root_kp (c_killpriv cf && has ff WRITE_KILL_PRIV)) h' (hd_host hd) (fd_append hd flags) off data)
      end
  | QRead inode handle size off flags => snd (direct_fd cf s handle inode O_RDONLY)
  | QFsync inode handle => snd (direct_fd cf s handle inode O_RDONLY)
  | QFallocate inode handle mode off l =>
      match direct_fd cf s handle inode O_RDWR with
      | (Err _, h') => h'
      | (Ok hd, h') => if negb (acc_w (hd_acc hd)) then h' else snd (sys_fallocate root_creds h' (hd_host hd) mode off l)
      end
  | QSetattr inode handle valid mode uid gid size =>
      match assoc inode (p_inodes s) with
      | None => h
      | Some d =>
        let hdr := if c_no_open cf then Ok None
                   else match handle with
                        | Some hk => match handle_get s hk inode with Ok hd => Ok (Some hd) | Err e => Err e end
                        | None => Ok None
                        end in
        match hdr with
        | Err _ => h
        | Ok hdo =>
          let target := match hdo with Some hd => hd_host hd | None => id_host d end in
          let '(r1, h1) := if has valid FATTR_MODE then sys_chmod root_creds h target mode else (Ok tt, h) in
          match r1 with
          | Err _ => h1
          | Ok _ =>
            let '(r2, h2) := if has valid FATTR_UID || has valid FATTR_GID
                             then sys_chown root_creds h1 (id_host d) (if has valid FATTR_UID then uid else NOCHANGE)
                                            (if has valid FATTR_GID then gid else NOCHANGE)
                             else (Ok tt, h1) in
            match r2 with
            | Err _ => h2
            | Ok _ =>
              if has valid FATTR_SIZE then
                let c := root_kp (c_killpriv cf && has valid FATTR_KILL_SUIDGID) in
                match hdo with
                | Some hd => if acc_w (hd_acc hd) then snd (sys_ftruncate c h2 (hd_host hd) size) else h2
                | None => match direct_open cf c s h2 inode (O_NONBLOCK + O_RDWR) with
                          | (Err _, h3) => h3
                          | (Ok (hi, _), h3) => snd (sys_ftruncate c h3 hi size)
                          end
                end
              else h2
            end
          end
        end
      end
  | QCreate p n mode umask flags ff uid gid =>
      match validate cf n, assoc p (p_inodes s) with
      | None, Some d =>
          let wf := get_writeback_open_flags cf flags in
          match sys_openat_creat_excl (caller_creds uid gid) h (id_host d) n (N.lor (N.lor wf O_CREAT) O_EXCL)
                                      (N.ldiff mode (N.land umask 511)) with
          | (Ok _, h') => h'
          | (Err e, h') =>
              if (e =? EEXIST) && negb (has wf O_EXCL) then
                (* the name exists: open it as the caller (CAP_FSETID dropped when asked) *)
                match lookup1 root_creds h' (id_host d) (lookup_name (p =? ROOT_ID) n) with
                | Err _ => h'
                | Ok i =>
                    match stat h' i with
                    | Err _ => h'
                    | Ok st =>
                        let m := match find_by_host i (p_inodes s) with Some (_, d0) => id_mode d0 | None => a_mode st end in
                        if negb (is_safe_inode m) then h'
                        else snd (sys_reopen (caller_creds_kp (kp_open cf ff) uid gid) h' i
                                    (clear (clear (N.lor (clear (get_writeback_open_flags cf flags) O_DIRECT) O_CLOEXEC) O_NOFOLLOW) O_CREAT))
                    end
                end
              else h'
          end
      | _, _ => h end
  (* requests that never modify the tree *)
  | _ => h
  end.
